(* C03, extension WHOLE -- proofs about the composed model of C03_Whole_Defs.v: for EVERY convex objective (first-order oracle),
   every QP answer in the simplex, every answer of the deletion oracle, every parameter set, every budget
     (1) the bundle invariant Inv holds at every point of an RQB / FPBA run and no bundle operation is ever rejected (solve
         precedes every append: the hypotheses op_ok of C03_lower_bound_run are discharged for the operations the loops issue),
     (2) `converged` certifies the returned point (C03's first clause, end to end),
     (3) the budget theorems and RQB's monotonicity hold of the composed model (delta >= 0 is derived from Inv). *)
From Coq Require Import List ZArith QArith Qabs Bool Lia Lra Psatz.
From LN Require Import C03_Defs C03_Proofs C03_Loops_Defs C03_Loops C03_Whole_Defs.
From LNGen Require Import Src_c03.
Import ListNotations.
Local Open Scope Q_scope.

(* ---- generic: an invariant of the oracle through one call of search(), with the trial parameter known to be positive ------ *)
Section LoopPos.
  Variable Or : Type.
  Variable ask : Or -> Q -> Or * cs_ans.

  Lemma Qdiv_pos a b : 0 < a -> 0 < b -> 0 < a / b.
  Proof. intros Ha Hb. apply Qlt_shift_div_l; [exact Hb|]. lra. Qed.

  Lemma loop_inv_pos (I : Or -> Prop) (J : Or -> cs_ans -> Prop) miu :
    0 < miu ->
    (forall o mt, 0 < mt -> I o -> I (fst (ask o mt)) /\ J (fst (ask o mt)) (snd (ask o mt))) ->
    forall fuel P M calls t tL tR o last passes,
    cs_params_ok P -> cs_inv t tL tR -> I o -> (forall a, last = Some a -> J o a) ->
    let r := cs_loop Or ask fuel P miu M calls t tL tR o last passes in
    I (r_or r) /\ (forall a, r_last r = Some a -> J (r_or r) a).
  Proof.
    intros Hmiu Hask. induction fuel as [|k IH]; intros P M calls t tL tR o last passes HP Hinv Ho Hl; cbv zeta; rewrite loop_unfold.
    - destruct (calls <? M)%Z; simpl; auto.
    - destruct (calls <? M)%Z; simpl negb; cbv iota; [|simpl; auto].
      cbv zeta.
      assert (Hmt : 0 < miu / t) by (apply Qdiv_pos; [exact Hmiu | destruct Hinv as (H0 & H1 & _); lra]).
      destruct (Hask o (miu / t) Hmt Ho) as [Ho' Ha].
      destruct (cs_pass P t tL tR (snd (ask o (miu / t)))) as [s tL' tR'|t' tL' tR'] eqn:Ep.
      + simpl. split; auto. intros a H; injection H as <-. exact Ha.
      + apply (cs_pass_cont P t tL tR _ t' tL' tR' HP Hinv) in Ep. destruct Ep as (Hinv' & _).
        apply IH; auto. intros a H; injection H as <-. exact Ha.
  Qed.

  Lemma search_inv_pos (I : Or -> Prop) (J : Or -> cs_ans -> Prop) P miu M calls o :
    0 < miu -> cs_params_ok P ->
    (forall o mt, 0 < mt -> I o -> I (fst (ask o mt)) /\ J (fst (ask o mt)) (snd (ask o mt))) ->
    I o ->
    let r := cs_search Or ask P miu M calls o in
    I (r_or r) /\ (forall a, r_last r = Some a -> J (r_or r) a).
  Proof.
    intros Hmiu HP Hask Ho. unfold cs_search.
    apply (loop_inv_pos I J miu Hmiu Hask); auto; [apply cs_init_inv | intros a H; discriminate H].
  Qed.
End LoopPos.

(* ---- generic: an invariant of the state through an outer loop, and what holds when done() stopped it ------------------- *)
Section OuterInv.
  Variable Or : Type.
  Variable budget : Z -> Z -> Z -> bool.
  Variable iter : cs_params -> Z -> ost Or -> iter_out Or.
  Hypothesis Hbudget : forall c m, budget c 0%Z m = (c <? m)%Z.
  Variable P : cs_params.
  Variable M : Z.
  Variable J : ost Or -> Prop.
  Variable Qd : ost Or -> Z -> Prop.
  Hypothesis Hiter : forall s, (s_calls s < M)%Z -> J s ->
    match iter P M s with
    | INext s' u => J s'
    | IDone s1 z => J s1 /\ Qd s1 z
    end.

  Lemma outer_inv : forall fuel s stale iters, J s ->
    let R := outer_loop Or budget iter fuel P M s stale iters in
    J (o_final R) /\ (forall z, o_exit R = EDone z -> Qd (o_final R) z).
  Proof.
    induction fuel as [|k IH]; intros s stale iters HJ; cbv zeta; simpl; rewrite Hbudget.
    - destruct (s_calls s <? M)%Z; simpl; (split; [exact HJ | intros z H; discriminate H]).
    - destruct (s_calls s <? M)%Z eqn:Eb; simpl negb; cbv iota; [|simpl; split; [exact HJ | intros z H; discriminate H]].
      apply Z.ltb_lt in Eb. pose proof (Hiter s Eb HJ) as Hi.
      destruct (iter P M s) as [s1 z|s' u].
      + simpl. destruct Hi as [H1 H2]. split; [exact H1|]. intros z0 H; injection H as <-. exact H2.
      + apply IH. exact Hi.
  Qed.
End OuterInv.

(* ---- the bundle operations as the loops issue them ------------------------------------------------------------------------ *)
Section WholeProofs.
  Variable f : vec -> Q.
  Variable n : nat.
  Variable eps0 tol mdn : Q.
  Variable two : bool.
  Variable qp : nat -> bundle -> Q -> list Q.
  Variable kp : nat -> bundle -> list nat.
  Variable ev : nat -> vec -> evald.
  Variable sq : nat -> Q.
  Local Notation wsolve := (w_solve eps0 qp).
  Local Notation wask := (w_ask eps0 tol qp ev).
  Local Notation wappend := (w_append eps0 kp).
  Local Notation wserious := (w_serious eps0 kp).
  Local Notation wnull := (w_null eps0 kp).
  Local Notation wprox2 := (w_prox2 mdn).
  Local Notation wprox1 := (w_prox1 mdn).
  Local Notation wmomentum := (w_momentum eps0 two kp ev sq).

  (* multipliers below epsilon0 are exactly zero (the rows delete_inactive drops carry no weight in the aggregate) *)
  Definition clean (al : list Q) : Prop := Forall (fun a => a < eps0 -> a == 0) al.
  (* the oracle conditions *)
  Definition qp_ok : Prop := forall k b mt, (3 <= length (bcuts b))%nat ->
    length (qp k b mt) = length (bcuts b) /\ simplex (qp k b mt) /\ clean (qp k b mt).
  Definition ev_sub (e : evald) : Prop := subgrad f n (e_y e) (e_g e) (e_f e).
  Definition ev_ok : Prop := forall k y, ev_sub (ev k y).
  (* delete_largest(2) removes at least two rows when it fires (FALSE of the code as it is: see C03_delete_largest_witness) *)
  Definition keep_ok : Prop := forall k b,
    (2 <= length (fst (del_inactive eps0 (bcuts b) (balpha b))))%nat ->
    (length (kp k b) + 2 <= length (fst (del_inactive eps0 (bcuts b) (balpha b))))%nat.

  Definition WInv (w : wst) : Prop :=
    Inv f n (w_b w) /\ w_rej w = false /\ ev_sub (w_pt w) /\ (4 <= bcap (w_b w))%Z.
  (* the multipliers belong to the current rows: bundle_t::solve ran after the last append *)
  Definition Solved (w : wst) : Prop :=
    length (balpha (w_b w)) = length (bcuts (w_b w)) /\ ((3 <= length (bcuts (w_b w)))%nat -> clean (balpha (w_b w))).
  Definition WCap (w : wst) : Prop :=
    (Z.of_nat (length (bcuts (w_b w))) < bcap (w_b w))%Z /\ w_over w = false.
  (* [c = true]: under keep_ok, the capacity is never reached either *)
  Definition WI (c : bool) (w : wst) : Prop := WInv w /\ (c = true -> WCap w).

  Hypothesis Hqp : qp_ok.
  Hypothesis Hev : ev_ok.

  Lemma step_solve_some b mt al : bcuts b <> [] ->
    ((3 <= length (bcuts b))%nat -> length al = length (bcuts b)) ->
    exists al', step eps0 b (OSolve mt al) = Some (mkb (bn b) (bcap b) (bx b) (bfx b) (bcuts b) al') /\
                length al' = length (bcuts b) /\ ((3 <= length (bcuts b))%nat -> al' = al).
  Proof.
    intros Hne Hl. unfold step, src_c03_solve1, src_c03_solve2.
    destruct (bcuts b) as [|c0 [|c1 [|c2 rest]]] eqn:E; [contradiction Hne; reflexivity| | |].
    - exists [1]. simpl. repeat split; auto. intro; lia.
    - exists [solve2 mt c0 c1; 1 - solve2 mt c0 c1]. simpl. repeat split; auto. intro; lia.
    - exists al.
      assert (H3 : (3 <= length (c0 :: c1 :: c2 :: rest))%nat) by (simpl; lia).
      specialize (Hl H3).
      destruct (Z.eqb_spec (Z.of_nat (length (c0 :: c1 :: c2 :: rest))) 1) as [K|_]; [simpl length in K; lia|].
      destruct (Z.eqb_spec (Z.of_nat (length (c0 :: c1 :: c2 :: rest))) 2) as [K|_]; [simpl length in K; lia|].
      rewrite Hl, Nat.eqb_refl. repeat split; auto.
  Qed.

  (* bundle_t::solve, as issued by the curve search *)
  Lemma w_solve_ok c w mt : WI c w ->
    WI c (wsolve w mt) /\ Solved (wsolve w mt) /\
    bx (w_b (wsolve w mt)) = bx (w_b w) /\ bfx (w_b (wsolve w mt)) = bfx (w_b w) /\
    w_sx (wsolve w mt) = w_sx w /\ w_sfx (wsolve w mt) = w_sfx w /\ w_pt (wsolve w mt) = w_pt w.
  Proof.
    intros [(Hi & Hr & Hp & Hc) Hcap].
    pose proof Hi as (_ & _ & _ & Hne & _).
    destruct (step_solve_some (w_b w) mt (qp (w_nqp w) (w_b w) mt) Hne) as (al' & Hs & Hl & Hal).
    { intro H3. apply (Hqp _ _ _ H3). }
    assert (Hinv' : Inv f n (mkb (bn (w_b w)) (bcap (w_b w)) (bx (w_b w)) (bfx (w_b w)) (bcuts (w_b w)) al')).
    { apply (step_inv f n eps0 (w_b w) (OSolve mt (qp (w_nqp w) (w_b w) mt))); [exact Hi | | exact Hs].
      simpl. intro H3. apply (Hqp _ _ _ H3). }
    unfold w_solve. rewrite Hs. unfold WI, WInv, Solved, WCap. simpl.
    split; [split; [split; [exact Hinv' | split; [exact Hr | split; [exact Hp | exact Hc]]]
                   | intro Hct; destruct (Hcap Hct) as [A B]; split; assumption]|].
    split; [split; [exact Hl | intro H3; rewrite (Hal H3); apply (Hqp _ _ _ H3)]|].
    split; [reflexivity|]. split; [reflexivity|]. split; [reflexivity|]. split; reflexivity.
  Qed.

  (* append: the aggregate needs the clean multipliers only when delete_largest fires *)
  Lemma append_inv_weak b serious keep y gy fy :
    Inv f n b -> length (balpha b) = length (bcuts b) -> subgrad f n y gy fy ->
    (src_c03_full (Z.of_nat (length (fst (del_inactive eps0 (bcuts b) (balpha b))))) (bcap b) = true -> clean (balpha b)) ->
    Inv f n (append eps0 serious keep y gy fy b).
  Proof.
    intros (Hn & Hx & Hf & Hne & Hc & Ha) E1 Hsub Hzero.
    assert (Hsx : simplex (balpha b)).
    { destruct Ha as [Hnil | [_ Hs]]; [|exact Hs]. rewrite Hnil in E1. simpl in E1.
      destruct (bcuts b); [contradiction Hne; reflexivity | discriminate]. }
    destruct Hsx as [Hpos Hsum].
    set (r := del_inactive eps0 (bcuts b) (balpha b)) in *.
    assert (Hc1 : Forall (valid_cut f n (bx b) (bfx b)) (fst r)) by (apply del_inactive_cuts; exact Hc).
    assert (Ha1 : Forall (fun a => 0 <= a) (snd r)) by (apply del_inactive_alpha; exact Hpos).
    assert (Hc2 : Forall (valid_cut f n (bx b) (bfx b)) (del_largest (bn b) (bcap b) keep (fst r) (snd r))).
    { unfold del_largest. destruct (src_c03_full _ _) eqn:Efull; [|exact Hc1].
      apply Forall_app. split; [apply pick_Forall; exact Hc1|].
      constructor; [|constructor]. rewrite Hn. apply aggregate_valid; try assumption.
      unfold r. rewrite del_inactive_sum; auto. apply Hzero. reflexivity. }
    unfold append. fold r.
    destruct serious; unfold Inv; simpl.
    - destruct Hsub as (Hy & Hg & Hfy & Hs).
      repeat split; auto.
      + intro K. apply app_eq_nil in K. destruct K as [_ K]. discriminate.
      + apply Forall_app. split.
        * rewrite Forall_map. eapply Forall_impl; [|exact Hc2].
          intros c0 Hv. apply recenter_valid; assumption.
        * constructor; [|constructor]. apply new_centre_cut_valid. repeat split; assumption.
    - repeat split; auto.
      + intro K. apply app_eq_nil in K. destruct K as [_ K]. discriminate.
      + apply Forall_app. split; [exact Hc2|].
        constructor; [|constructor]. apply null_cut_valid; assumption.
  Qed.

  Lemma full_three b : (4 <= bcap b)%Z ->
    src_c03_full (Z.of_nat (length (fst (del_inactive eps0 (bcuts b) (balpha b))))) (bcap b) = true ->
    (3 <= length (fst (del_inactive eps0 (bcuts b) (balpha b))))%nat /\ (3 <= length (bcuts b))%nat.
  Proof.
    intros Hc E. unfold src_c03_full in E. apply Z.eqb_eq in E.
    pose proof (del_inactive_le eps0 (bcuts b) (balpha b)). lia.
  Qed.

  (* bundle_t::append / moveto, as issued by the outer loops: never rejected after a solve *)
  Lemma w_append_eq serious e w : WInv w -> Solved w -> ev_sub e ->
    wappend serious e w =
    mk_w (append eps0 serious (kp (w_nkp w) (w_b w)) (e_y e) (e_g e) (e_f e) (w_b w))
         (if serious then e_g e else w_gx w) (w_pt w) (w_nqp w) (S (w_nkp w)) (w_nev w) (w_nsq w) (w_Gn w) (w_seq w)
         (w_sx w) (w_sfx w) (w_rej w)
         (w_over w || Z.leb (bcap (w_b w))
                        (Z.of_nat (length (bcuts (append eps0 serious (kp (w_nkp w) (w_b w)) (e_y e) (e_g e) (e_f e) (w_b w))))))
         (if serious then e_y e :: w_log w else w_log w).
  Proof.
    intros (Hi & _ & _ & _) [Hl _] (Hy & Hg & _). destruct Hi as (Hn & _).
    unfold w_append, step. rewrite Hl, Hy, Hg, Hn, !Nat.eqb_refl. simpl. reflexivity.
  Qed.

  Lemma w_append_inv serious e w : WInv w -> Solved w -> ev_sub e -> WInv (wappend serious e w).
  Proof.
    intros HW HS He. rewrite (w_append_eq serious e w HW HS He).
    destruct HW as (Hi & Hr & Hp & Hc). destruct HS as [Hl Hcl].
    unfold WInv. simpl.
    split; [|split; [exact Hr | split; [exact Hp | destruct serious; exact Hc]]].
    apply append_inv_weak; auto. intro Efull. apply Hcl. apply (full_three (w_b w) Hc Efull).
  Qed.

  Lemma append_bcap serious keep y gy fy b : bcap (append eps0 serious keep y gy fy b) = bcap b.
  Proof. unfold append. destruct serious; reflexivity. Qed.

  (* the capacity is never reached as long as delete_largest removes its two rows *)
  Lemma w_append_cap serious e w : keep_ok -> WInv w -> Solved w -> ev_sub e -> WCap w -> WCap (wappend serious e w).
  Proof.
    intros Hk HW HS He [Hlt Hov]. rewrite (w_append_eq serious e w HW HS He).
    unfold WCap. simpl. rewrite append_bcap.
    assert (Hsz : (Z.of_nat (length (bcuts (append eps0 serious (kp (w_nkp w) (w_b w)) (e_y e) (e_g e) (e_f e) (w_b w)))) < bcap (w_b w))%Z).
    { apply append_size; [exact Hlt|]. cbv zeta. intro Efull. destruct HW as (_ & _ & _ & Hc).
      destruct (full_three (w_b w) Hc Efull) as [H3 _]. unfold src_c03_count.
      pose proof (Hk (w_nkp w) (w_b w)). lia. }
    split; [exact Hsz|]. rewrite Hov. simpl. apply Z.leb_gt. exact Hsz.
  Qed.

  Variable c : bool.
  Hypothesis Hkeep : c = true -> keep_ok.

  Lemma w_append_WI serious e w : WI c w -> Solved w -> ev_sub e -> WI c (wappend serious e w).
  Proof.
    intros [HW Hcap] HS He. split; [apply w_append_inv; assumption|].
    intro Hc. apply w_append_cap; auto.
  Qed.

  Lemma w_append_fields serious e w : WInv w -> Solved w -> ev_sub e ->
    bx (w_b (wappend serious e w)) = (if serious then e_y e else bx (w_b w)) /\
    bfx (w_b (wappend serious e w)) = (if serious then e_f e else bfx (w_b w)) /\
    w_sx (wappend serious e w) = w_sx w /\ w_sfx (wappend serious e w) = w_sfx w /\ w_pt (wappend serious e w) = w_pt w.
  Proof.
    intros HW HS He. rewrite (w_append_eq serious e w HW HS He). unfold append. destruct serious; simpl; auto.
  Qed.

  (* the centre and the solver state, as one value *)
  Definition ctr (o : wst) : vec * Q * vec * Q := (bx (w_b o), bfx (w_b o), w_sx o, w_sfx o).
  (* what one pass reads, in terms of the oracle state it leaves *)
  Definition facts (o : wst) (a : cs_ans) : Prop :=
    Solved o /\ a_finite a = true /\ a_fx a = bfx (w_b o) /\ a_fy a = e_f (w_pt o) /\
    a_econv a = econv tol (w_b o) /\ a_sconv a = sconv tol (w_b o) /\ 0 <= a_delta a.

  Lemma w_ask_ok o mt : 0 < mt -> WI c o ->
    WI c (fst (wask o mt)) /\ ctr (fst (wask o mt)) = ctr o /\ facts (fst (wask o mt)) (snd (wask o mt)).
  Proof.
    intros Hmt HW. destruct (w_solve_ok c o mt HW) as (HW1 & HS1 & E1 & E2 & E3 & E4 & E5).
    unfold w_ask. cbv zeta. simpl fst. simpl snd.
    set (w1 := wsolve o mt) in *.
    destruct HW1 as [(Hi & Hr & Hp & Hc) Hcap].
    split; [split; [split; [exact Hi | split; [exact Hr | split; [apply Hev | exact Hc]]] | exact Hcap] |].
    split; [unfold ctr; simpl; rewrite E1, E2, E3, E4; reflexivity|].
    unfold facts. simpl.
    split; [exact HS1|]. repeat (split; [reflexivity|]). apply (delta_nonneg f n); assumption.
  Qed.

  Lemma w_set_state_WI w Gn sq0 sx sfx : WI c w -> WI c (w_set_state w Gn sq0 sx sfx).
  Proof. intro H. exact H. Qed.

  Lemma w_serious_ok o fy : WI c o -> Solved o ->
    WI c (wserious o fy) /\ bx (w_b (wserious o fy)) = e_y (w_pt o) /\ bfx (w_b (wserious o fy)) = e_f (w_pt o) /\
    w_sx (wserious o fy) = e_y (w_pt o) /\ w_sfx (wserious o fy) = e_f (w_pt o).
  Proof.
    intros HW HS. pose proof HW as [HWi _]. pose proof HWi as (_ & _ & Hp & _).
    unfold w_serious, src_c03_moveto_serious. cbv zeta.
    destruct (w_append_fields true (w_pt o) o HWi HS Hp) as (F1 & F2 & _).
    split; [apply w_set_state_WI; apply w_append_WI; assumption|].
    simpl. rewrite F1, F2. auto.
  Qed.

  Lemma w_null_ok o : WI c o -> Solved o -> WI c (wnull o) /\ ctr (wnull o) = ctr o.
  Proof.
    intros HW HS. pose proof HW as [HWi _]. pose proof HWi as (_ & _ & Hp & _).
    unfold w_null, src_c03_append_serious.
    destruct (w_append_fields false (w_pt o) o HWi HS Hp) as (F1 & F2 & F3 & F4 & _).
    split; [apply w_append_WI; assumption|]. unfold ctr. rewrite F1, F2, F3, F4. reflexivity.
  Qed.

  Lemma w_momentum_ok o best : WI c o -> Solved o ->
    exists e, ev_sub e /\
    WI c (fst (wmomentum o best)) /\ snd (wmomentum o best) = Some (e_f e) /\
    bfx (w_b (fst (wmomentum o best))) = e_f e /\
    w_sfx (fst (wmomentum o best)) = better (better (w_sfx o) (Some (e_f (w_pt o)))) (Some (e_f e)) /\
    (length (w_sx o) = n /\ w_sfx o == f (w_sx o) ->
     length (w_sx (fst (wmomentum o best))) = n /\ w_sfx (fst (wmomentum o best)) == f (w_sx (fst (wmomentum o best)))).
  Proof.
    intros HW HS. pose proof HW as [HWi _]. pose proof HWi as (_ & _ & Hp & _).
    unfold w_momentum, src_c03_moveto_serious. cbv zeta.
    set (sq1 := nest_update two (sq (w_nsq o)) (w_seq o) (e_y (w_pt o))).
    set (e := ev (w_nev o) (n_x sq1)).
    set (zb := Qltb 0 (w_sfx o - e_f (w_pt o))).
    set (w' := mk_w (w_b o) (w_gx o) (w_pt o) (w_nqp o) (w_nkp o) (S (w_nev o)) (S (w_nsq o)) (w_Gn o) sq1
                 (if zb then e_y (w_pt o) else w_sx o) (if zb then e_f (w_pt o) else w_sfx o) (w_rej o) (w_over o) (w_log o)).
    assert (HW' : WI c w') by exact HW.
    assert (HS' : Solved w') by exact HS.
    assert (He : ev_sub e) by apply Hev.
    pose proof HW' as [HWi' _].
    destruct (w_append_fields true e w' HWi' HS' He) as (F1 & F2 & _).
    exists e. split; [exact He|]. simpl fst. simpl snd.
    split; [apply w_set_state_WI; apply w_append_WI; assumption|].
    split; [reflexivity|].
    split; [unfold w_set_state; simpl; exact F2|].
    split.
    - unfold w_set_state. simpl. unfold better. reflexivity.
    - intros [Hlx Hfx]. unfold w_set_state. simpl.
      destruct Hp as (Py & _ & Pf & _). destruct He as (Ey & _ & Ef & _).
      destruct (Qltb 0 ((if zb then e_f (w_pt o) else w_sfx o) - e_f e)); [split; assumption|].
      destruct zb; split; assumption.
  Qed.

  (* ---- one call of search() from a state of the outer loop ---- *)
  Variable P : cs_params.
  Variable M : Z.
  Hypothesis Hcost : (1 <= p_cost P)%Z.
  Hypothesis HP : cs_params_ok P.

  Lemma whole_search (s : ost wst) : (s_calls s < M)%Z -> WI c (s_or s) -> 0 < s_miu s ->
    let r := cs_search wst wask P (s_miu s) M (s_calls s) (s_or s) in
    WI c (r_or r) /\ ctr (r_or r) = ctr (s_or s) /\
    exists a, r_last r = Some a /\ facts (r_or r) a /\
      (forall st, r_assigned r = Some st -> exists tL0 tR0, cs_ret_spec P (r_t r) tL0 tR0 a st (r_tL r) (r_tR r)).
  Proof.
    intros Hb HW Hmiu. cbv zeta.
    pose proof (search_inv_pos wst wask (fun o => WI c o /\ ctr o = ctr (s_or s)) facts P (s_miu s) M (s_calls s) (s_or s) Hmiu HP) as L.
    cbv zeta in L. destruct L as [[L1 L2] L3].
    { intros o mt Hmt [Ho Hc]. destruct (w_ask_ok o mt Hmt Ho) as (A & B & C). split; [split; [exact A | congruence] | exact C]. }
    { split; [exact HW | reflexivity]. }
    pose proof (search_facts wst wask P (s_miu s) M (s_calls s) (s_or s) Hcost HP Hb) as F. cbv zeta in F.
    destruct F as (_ & _ & _ & _ & [a Ha] & F5 & _).
    split; [exact L1|]. split; [exact L2|]. exists a. split; [exact Ha|]. split; [apply L3; exact Ha|].
    intros st Hst. destruct (F5 st Hst) as (a' & tL0 & tR0 & Hl & _ & Hp). exists tL0, tR0.
    rewrite Ha in Hl. injection Hl as <-. apply cs_pass_ret. exact Hp.
  Qed.

  Definition Conv (w : wst) : Prop := Solved w /\ cs_converged tol (w_b w) = true.

  Lemma conv_of_spec o a : facts o a -> a_econv a = true -> a_sconv a = true -> Conv o.
  Proof.
    intros (HS & _ & _ & _ & He & Hs & _) E1 E2. split; [exact HS|].
    unfold cs_converged, src_c03_cs_converged, src_c03_cs_econv, src_c03_cs_sconv. rewrite <- He, <- Hs, E1, E2. reflexivity.
  Qed.

  (* ---- RQB: one iteration ---- *)
  Hypothesis Hm1 : 0 <= p_m1 P.
  Hypothesis Hmdn : 0 <= mdn.

  (* state.fx() = bundle.fx(), state.x() = bundle.x(): RQB's state is the bundle's centre *)
  Definition SR (s : ost wst) : Prop :=
    WI c (s_or s) /\ 0 < s_miu s /\ bfx (w_b (s_or s)) = s_fx s /\ w_sx (s_or s) = bx (w_b (s_or s)) /\ w_sfx (s_or s) = s_fx s.

  Lemma whole_rqb_iter_ok s : (s_calls s < M)%Z -> SR s ->
    match whole_rqb_iter eps0 tol mdn qp kp ev P M s with
    | INext s' u => SR s' /\ s_fx s' <= s_fx s
    | IDone s1 z => SR s1 /\ s_fx s1 <= s_fx s /\ (z = 1%Z -> Conv (s_or s1))
    end.
  Proof.
    intros Hb (HW & Hmiu & Hfx & Hsx & Hsfx).
    unfold whole_rqb_iter, rqb_iter. cbv zeta.
    pose proof (whole_search s Hb HW Hmiu) as S. cbv zeta in S.
    set (r := cs_search wst wask P (s_miu s) M (s_calls s) (s_or s)) in *.
    destruct S as (HWr & Hctr & a & Hl & Hfa & Hst).
    unfold member_status, member_fy, cs_reset. rewrite Hl.
    pose proof Hfa as (HS & Hfin & Hafx & Hafy & Hec & Hsc & Hd).
    rewrite Hfin. simpl fy_value.
    unfold ctr in Hctr. injection Hctr as C1 C2 C3 C4.
    assert (Hbase : SR (mk_ost (r_or r) (r_calls r) (s_fx s) (s_miu s)
                          (match r_assigned r with Some z => z | None => src_c03_cs_st_init end) (r_t r) (Some (a_fy a)))).
    { unfold SR; cbn [s_or s_miu s_fx]. split; [exact HWr|]. split; [exact Hmiu|]. split; [congruence|]. split; congruence. }
    destruct (r_assigned r) as [st|] eqn:Ea.
    - destruct (Hst st eq_refl) as (tL0 & tR0 & Hspec).
      destruct (rqb_done st (w_valid (r_or r))) as [z|] eqn:Ed.
      + split; [exact Hbase|]. split; [simpl; lra|].
        intros ->. apply rqb_done_converged in Ed. subst st.
        destruct Hspec as [(K & _) | [(_ & _ & E1 & E2 & _) | [(K & _) | [(K & _) | (K & _)]]]]; try discriminate K.
        simpl. apply (conv_of_spec _ a); assumption.
      + simpl is_some. simpl negb.
        assert (Hstep : st = 4%Z \/ st = 5%Z -> a_fy a <= s_fx s).
        { intro Hc45.
          destruct Hspec as [(K & _) | [(K & _) | [(K & _ & Hm & _) | [(K & _ & Hm & _) | (K & _)]]]]; try (destruct Hc45; lia).
          - assert (0 <= p_m1 P * a_delta a) by (apply Qmult_le_0_compat; assumption). rewrite <- Hfx, <- C2, <- Hafx. lra.
          - assert (0 <= p_m1 P * a_delta a) by (apply Qmult_le_0_compat; assumption). rewrite <- Hfx, <- C2, <- Hafx. lra. }
        destruct (w_serious_ok (r_or r) (a_fy a) HWr HS) as (G0 & G1 & G2 & G3 & G4).
        destruct (src_c03_rqb_is_descent st) eqn:E4.
        * apply k_is_descent in E4. split; [|simpl; apply Hstep; auto].
          unfold SR; cbn [s_or s_miu s_fx]. split; [exact G0|]. split; [apply prox_update2_pos; assumption|].
          split; [congruence|]. split; congruence.
        * destruct (src_c03_rqb_is_cutting st) eqn:E5.
          -- apply k_is_cutting in E5. split; [|simpl; apply Hstep; auto].
             unfold SR; cbn [s_or s_miu s_fx]. split; [exact G0|]. split; [exact Hmiu|]. split; [congruence|]. split; congruence.
          -- destruct (src_c03_rqb_is_null st) eqn:E3.
             ++ destruct (w_null_ok (r_or r) HWr HS) as [N0 N1]. unfold ctr in N1. injection N1 as N1 N2 N3 N4.
                split; [|simpl; lra]. unfold SR; cbn [s_or s_miu s_fx]. split; [exact N0|]. split; [exact Hmiu|]. split; [congruence|]. split; congruence.
             ++ split; [exact Hbase | simpl; lra].
    - change (rqb_done src_c03_cs_st_init (w_valid (r_or r))) with (@None Z).
      change (src_c03_rqb_is_descent src_c03_cs_st_init) with false.
      change (src_c03_rqb_is_cutting src_c03_cs_st_init) with false.
      change (src_c03_rqb_is_null src_c03_cs_st_init) with false.
      cbv iota. split; [exact Hbase | simpl; lra].
  Qed.

  (* ---- FPBA: one iteration ---- *)
  (* state = best evaluated point (update_if_better): its value is below the value at the bundle's centre *)
  Definition SF (s : ost wst) : Prop :=
    WI c (s_or s) /\ 0 < s_miu s /\ w_sfx (s_or s) = s_fx s /\ s_fx s <= bfx (w_b (s_or s)) /\
    (length (w_sx (s_or s)) = n /\ w_sfx (s_or s) == f (w_sx (s_or s))).

  Lemma whole_fpba_iter_ok s : (s_calls s < M)%Z -> SF s ->
    match whole_fpba_iter eps0 tol mdn two qp kp ev sq P M s with
    | INext s' u => SF s'
    | IDone s1 z => SF s1 /\ (z = 1%Z -> Conv (s_or s1))
    end.
  Proof.
    intros Hb (HW & Hmiu & Hsfx & Hle & Hst0).
    unfold whole_fpba_iter, fpba_iter. cbv zeta.
    pose proof (whole_search s Hb HW Hmiu) as S. cbv zeta in S.
    set (r := cs_search wst wask P (s_miu s) M (s_calls s) (s_or s)) in *.
    destruct S as (HWr & Hctr & a & Hl & Hfa & Hst).
    unfold member_status, member_fy, cs_reset. rewrite Hl.
    pose proof Hfa as (HS & Hfin & Hafx & Hafy & Hec & Hsc & Hd).
    rewrite Hfin.
    unfold ctr in Hctr. injection Hctr as C1 C2 C3 C4.
    assert (Hbase : SF (mk_ost (r_or r) (r_calls r) (s_fx s) (s_miu s)
                          (match r_assigned r with Some z => z | None => src_c03_cs_st_init end) (r_t r) (Some (a_fy a)))).
    { unfold SF; cbn [s_or s_miu s_fx]. split; [exact HWr|]. split; [exact Hmiu|]. split; [congruence|]. split; [rewrite C2; exact Hle|].
      rewrite C3, C4. exact Hst0. }
    destruct (r_assigned r) as [st|] eqn:Ea.
    - destruct (Hst st eq_refl) as (tL0 & tR0 & Hspec).
      destruct (fpba_done st (w_valid (r_or r))) as [z|] eqn:Ed.
      + split; [exact Hbase|].
        intros ->. apply fpba_done_converged in Ed. subst st.
        destruct Hspec as [(K & _) | [(_ & _ & E1 & E2 & _) | [(K & _) | [(K & _) | (K & _)]]]]; try discriminate K.
        simpl. apply (conv_of_spec _ a); assumption.
      + simpl is_some. simpl negb.
        destruct (src_c03_fpba_is_descent st || src_c03_fpba_is_cutting st) eqn:E45.
        * destruct (w_momentum_ok (r_or r) (better (s_fx s) (Some (a_fy a))) HWr HS) as (e & He & M0 & M1 & M2 & M3 & M4).
          unfold SF; cbn [s_or s_miu s_fx]. split; [exact M0|].
          split; [destruct (src_c03_fpba_is_descent st); [apply prox_update1_pos; assumption | exact Hmiu]|].
          rewrite M1.
          split; [rewrite M3; congruence|].
          split; [rewrite M2; apply better_le_val|].
          apply M4. rewrite C3, C4. exact Hst0.
        * destruct (src_c03_fpba_is_null st) eqn:E3.
          -- destruct (w_null_ok (r_or r) HWr HS) as [N0 N1]. unfold ctr in N1. injection N1 as N1 N2 N3 N4.
             unfold SF; cbn [s_or s_miu s_fx]. split; [exact N0|]. split; [exact Hmiu|]. split; [congruence|]. split; [rewrite N2, C2; exact Hle|].
             rewrite N3, N4, C3, C4. exact Hst0.
          -- exact Hbase.
    - change (fpba_done src_c03_cs_st_init (w_valid (r_or r))) with (@None Z).
      change (src_c03_fpba_is_descent src_c03_cs_st_init) with false.
      change (src_c03_fpba_is_cutting src_c03_cs_st_init) with false.
      change (src_c03_fpba_is_null src_c03_cs_st_init) with false.
      cbv iota. simpl orb. cbv iota. exact Hbase.
  Qed.

  (* ---- whole runs ---- *)
  Lemma whole_rqb_run_ok s : SR s ->
    let R := whole_rqb eps0 tol mdn qp kp ev P M s in
    (SR (o_final R) /\ s_fx (o_final R) <= s_fx s) /\ (forall z, o_exit R = EDone z -> z = 1%Z -> Conv (s_or (o_final R))).
  Proof.
    intro HS. unfold whole_rqb, rqb_run.
    apply (outer_inv wst src_c03_rqb_budget (rqb_iter wst wask w_valid wprox2 wserious wnull cs_reset) k_rqb_budget P M
             (fun s' => SR s' /\ s_fx s' <= s_fx s) (fun s1 z => z = 1%Z -> Conv (s_or s1))).
    - intros s0 Hb [H0 H1]. pose proof (whole_rqb_iter_ok s0 Hb H0) as Hi. unfold whole_rqb_iter in Hi.
      destruct (rqb_iter wst wask w_valid wprox2 wserious wnull cs_reset P M s0) as [s1 z|s' u].
      + destruct Hi as (A & B & C). split; [split; [exact A | lra] | exact C].
      + destruct Hi as (A & B). split; [exact A | lra].
    - split; [exact HS | lra].
  Qed.

  Lemma whole_fpba_run_ok s : SF s ->
    let R := whole_fpba eps0 tol mdn two qp kp ev sq P M s in
    SF (o_final R) /\ (forall z, o_exit R = EDone z -> z = 1%Z -> Conv (s_or (o_final R))).
  Proof.
    intro HS. unfold whole_fpba, fpba_run.
    apply (outer_inv wst src_c03_fpba_budget (fpba_iter wst wask w_valid wprox1 wnull wmomentum cs_reset) k_fpba_budget P M
             SF (fun s1 z => z = 1%Z -> Conv (s_or s1))).
    - intros s0 Hb H0. pose proof (whole_fpba_iter_ok s0 Hb H0) as Hi. unfold whole_fpba_iter in Hi.
      destruct (fpba_iter wst wask w_valid wprox1 wnull wmomentum cs_reset P M s0) as [s1 z|s' u]; exact Hi.
    - exact HS.
  Qed.

  (* the start: solver_state_t{function, x0}, bundle_t::make, proximity_t::make *)
  Lemma start_WI max_size x0 : (3 <= max_size)%Z -> WI c (w_init ev n max_size x0).
  Proof.
    intro Hm. unfold w_init. cbv zeta. split.
    - unfold WInv. simpl. split; [apply init_inv; apply Hev|]. split; [reflexivity|]. split; [apply Hev|].
      unfold src_c03_capacity. lia.
    - intros _. unfold WCap. simpl. unfold src_c03_capacity. split; [lia | reflexivity].
  Qed.

  Lemma start_SR max_size x0 lo hi calls0 : (3 <= max_size)%Z -> 0 < lo -> lo <= hi ->
    SR (w_start eps0 ev n max_size x0 lo hi calls0).
  Proof.
    intros Hm Hlo Hhi. unfold w_start. cbv zeta. unfold SR; cbn [s_or s_miu s_fx].
    split; [apply start_WI; exact Hm|].
    split; [pose proof (prox_miu0_range eps0 lo hi (e_g (w_pt (w_init ev n max_size x0))) (e_f (w_pt (w_init ev n max_size x0))) Hhi); lra|].
    unfold w_init. simpl. auto.
  Qed.

  Lemma start_SF max_size x0 lo hi calls0 : (3 <= max_size)%Z -> 0 < lo -> lo <= hi ->
    SF (w_start eps0 ev n max_size x0 lo hi calls0).
  Proof.
    intros Hm Hlo Hhi. unfold w_start. cbv zeta. unfold SF; cbn [s_or s_miu s_fx].
    split; [apply start_WI; exact Hm|].
    split; [pose proof (prox_miu0_range eps0 lo hi (e_g (w_pt (w_init ev n max_size x0))) (e_f (w_pt (w_init ev n max_size x0))) Hhi); lra|].
    unfold w_init. simpl. split; [reflexivity|]. split; [lra|].
    destruct (Hev 0%nat x0) as (A & _ & B & _). split; assumption.
  Qed.

  (* the certificate at a state where the stopping test held *)
  Lemma conv_certificate w : WInv w -> Conv w -> 0 <= tol ->
    forall z d, length z = n -> 0 <= d -> norm2 (vsub (bx (w_b w)) z) <= d * d -> bfx (w_b w) - f z <= tol + tol * d.
  Proof.
    intros (Hi & _) [[Hl _] Hc] Ht z d Hz Hd Hdz. apply (certificate_bool f n (w_b w) z tol d); assumption.
  Qed.

  Lemma conv_sharp w xs fs fret d : WInv w -> Conv w -> sharp f n xs fs -> 0 <= tol -> tol <= 1 # 2 -> fret <= bfx (w_b w) -> 0 <= d ->
    fret - fs <= 2 * tol /\ fret - fs <= 2 * tol * (1 + d).
  Proof.
    intros (Hi & _) [[Hl _] Hc] Hs Ht Ht2 Hr Hd. apply (rqb_fpba_prop f n (w_b w) xs fs tol fret d); assumption.
  Qed.
End WholeProofs.

(* ---- the statements of Properties_C03.v ------------------------------------------------------------------------------------- *)
(* (1) every bundle operation the loops issue keeps the invariant and is accepted (never a stale-multiplier append) *)
Lemma whole_ops : forall (f : vec -> Q) (n : nat) eps0 tol two qp kp ev sq,
  qp_ok eps0 qp -> ev_ok f n ev ->
  forall w, WInv f n w ->
  (forall mt, 0 < mt ->
     WInv f n (fst (w_ask eps0 tol qp ev w mt)) /\ Solved eps0 (fst (w_ask eps0 tol qp ev w mt)) /\
     0 <= a_delta (snd (w_ask eps0 tol qp ev w mt)) /\ a_fx (snd (w_ask eps0 tol qp ev w mt)) = bfx (w_b w)) /\
  (Solved eps0 w ->
     WInv f n (w_serious eps0 kp w (e_f (w_pt w))) /\ WInv f n (w_null eps0 kp w) /\
     forall best, WInv f n (fst (w_momentum eps0 two kp ev sq w best))) /\
  (keep_ok eps0 kp -> WCap w -> Solved eps0 w ->
     WCap (w_serious eps0 kp w (e_f (w_pt w))) /\ WCap (w_null eps0 kp w) /\
     forall best, WCap (fst (w_momentum eps0 two kp ev sq w best))).
Proof.
  intros f n eps0 tol two qp kp ev sq Hqp Hev w HW.
  assert (HWf : WI f n false w) by (split; [exact HW | intro K; discriminate K]).
  assert (Hkf : false = true -> keep_ok eps0 kp) by (intro K; discriminate K).
  split; [|split].
  - intros mt Hmt. destruct (w_ask_ok f n eps0 tol qp ev Hqp Hev false w mt Hmt HWf) as ([A _] & B & C).
    destruct C as (C0 & _ & C2 & _ & _ & _ & C6).
    split; [exact A|]. split; [exact C0|]. split; [exact C6|]. rewrite C2.
    exact (f_equal (fun p : vec * Q * vec * Q => snd (fst (fst p))) B).
  - intro HS. split; [|split].
    + apply (w_serious_ok f n eps0 kp false Hkf w (e_f (w_pt w)) HWf HS).
    + apply (w_null_ok f n eps0 kp false Hkf w HWf HS).
    + intro best. destruct (w_momentum_ok f n eps0 two kp ev sq Hev false Hkf w best HWf HS) as (e & _ & [A _] & _). exact A.
  - intros Hk HC HS.
    assert (HWt : WI f n true w) by (split; [exact HW | intros _; exact HC]).
    assert (Hkt : true = true -> keep_ok eps0 kp) by (intros _; exact Hk).
    split; [|split].
    + destruct (w_serious_ok f n eps0 kp true Hkt w (e_f (w_pt w)) HWt HS) as ([_ A] & _). apply A; reflexivity.
    + destruct (w_null_ok f n eps0 kp true Hkt w HWt HS) as ([_ A] & _). apply A; reflexivity.
    + intro best. destruct (w_momentum_ok f n eps0 two kp ev sq Hev true Hkt w best HWt HS) as (e & _ & [_ A] & _). apply A; reflexivity.
Qed.

(* (1) + (2) + (3) for RQB *)
Lemma whole_rqb_thm : forall (f : vec -> Q) (n : nat) eps0 tol mdn qp kp ev P M max_size x0 lo hi calls0,
  qp_ok eps0 qp -> ev_ok f n ev -> (1 <= p_cost P)%Z -> cs_params_ok P -> 0 <= p_m1 P -> 0 <= mdn -> 0 < lo -> lo <= hi ->
  (3 <= max_size)%Z -> 0 <= tol ->
  let R := whole_rqb eps0 tol mdn qp kp ev P M (w_start eps0 ev n max_size x0 lo hi calls0) in
  let w := s_or (o_final R) in
  let b := w_b w in
  (Inv f n b /\ w_rej w = false) /\
  (keep_ok eps0 kp -> w_over w = false /\ (Z.of_nat (length (bcuts b)) < bcap b)%Z) /\
  (w_sx w = bx b /\ s_fx (o_final R) == f (bx b) /\ s_fx (o_final R) <= e_f (ev 0%nat x0)) /\
  (o_exit R = EDone 1 ->
     (forall z d, length z = n -> 0 <= d -> norm2 (vsub (bx b) z) <= d * d -> f (bx b) - f z <= tol + tol * d) /\
     (forall xs fs d, sharp f n xs fs -> tol <= 1 # 2 -> 0 <= d ->
        f (bx b) - fs <= 2 * tol /\ f (bx b) - fs <= 2 * tol * (1 + d))).
Proof.
  intros f n eps0 tol mdn qp kp ev P M max_size x0 lo hi calls0 Hqp Hev Hc HP Hm1 Hmdn Hlo Hhi Hms Htol. cbv zeta.
  assert (Hkf : false = true -> keep_ok eps0 kp) by (intro K; discriminate K).
  pose proof (whole_rqb_run_ok f n eps0 tol mdn qp kp ev Hqp Hev false Hkf P M Hc HP Hm1 Hmdn _
                (start_SR f n eps0 ev Hev false max_size x0 lo hi calls0 Hms Hlo Hhi)) as H.
  cbv zeta in H. destruct H as [[HS Hmono] Hconv].
  set (R := whole_rqb eps0 tol mdn qp kp ev P M (w_start eps0 ev n max_size x0 lo hi calls0)) in *.
  destruct HS as ([HW _] & _ & E1 & E2 & E3).
  pose proof HW as (Hi & Hr & _). pose proof Hi as (_ & _ & Hf & _).
  split; [split; assumption|]. split; [|split; [|]].
  - intro Hk.
    assert (Hkt : true = true -> keep_ok eps0 kp) by (intros _; exact Hk).
    pose proof (whole_rqb_run_ok f n eps0 tol mdn qp kp ev Hqp Hev true Hkt P M Hc HP Hm1 Hmdn _
                  (start_SR f n eps0 ev Hev true max_size x0 lo hi calls0 Hms Hlo Hhi)) as H2.
    cbv zeta in H2. destruct H2 as [[([_ HC] & _) _] _]. destruct (HC eq_refl) as [A B]. split; assumption.
  - split; [exact E2|]. split; [rewrite <- E1; exact Hf|]. exact Hmono.
  - intro Hex. pose proof (Hconv 1%Z Hex eq_refl) as HC. split.
    + intros z d Hz Hd Hdz. pose proof (conv_certificate f n eps0 tol (s_or (o_final R)) HW HC Htol z d Hz Hd Hdz). lra.
    + intros xs fs d Hs Ht2 Hd.
      apply (conv_sharp f n eps0 tol (s_or (o_final R)) xs fs (f (bx (w_b (s_or (o_final R))))) d HW HC Hs Htol Ht2); [lra | exact Hd].
Qed.

(* (1) + (2) for FPBA: the returned point is the best evaluated one, the certificate is about the bundle's centre *)
Lemma whole_fpba_thm : forall (f : vec -> Q) (n : nat) eps0 tol mdn two qp kp ev sq P M max_size x0 lo hi calls0,
  qp_ok eps0 qp -> ev_ok f n ev -> (1 <= p_cost P)%Z -> cs_params_ok P -> 0 <= mdn -> 0 < lo -> lo <= hi ->
  (3 <= max_size)%Z -> 0 <= tol ->
  let R := whole_fpba eps0 tol mdn two qp kp ev sq P M (w_start eps0 ev n max_size x0 lo hi calls0) in
  let w := s_or (o_final R) in
  let b := w_b w in
  (Inv f n b /\ w_rej w = false) /\
  (keep_ok eps0 kp -> w_over w = false /\ (Z.of_nat (length (bcuts b)) < bcap b)%Z) /\
  (length (w_sx w) = n /\ s_fx (o_final R) == f (w_sx w) /\ f (w_sx w) <= f (bx b) /\ s_fx (o_final R) <= e_f (ev 0%nat x0)) /\
  (o_exit R = EDone 1 ->
     (forall z d, length z = n -> 0 <= d -> norm2 (vsub (bx b) z) <= d * d -> f (bx b) - f z <= tol + tol * d) /\
     (forall xs fs d, sharp f n xs fs -> tol <= 1 # 2 -> 0 <= d ->
        f (w_sx w) - fs <= 2 * tol /\ f (w_sx w) - fs <= 2 * tol * (1 + d))).
Proof.
  intros f n eps0 tol mdn two qp kp ev sq P M max_size x0 lo hi calls0 Hqp Hev Hc HP Hmdn Hlo Hhi Hms Htol. cbv zeta.
  assert (Hkf : false = true -> keep_ok eps0 kp) by (intro K; discriminate K).
  pose proof (whole_fpba_run_ok f n eps0 tol mdn two qp kp ev sq Hqp Hev false Hkf P M Hc HP Hmdn _
                (start_SF f n eps0 ev Hev false max_size x0 lo hi calls0 Hms Hlo Hhi)) as H.
  cbv zeta in H. destruct H as [HS Hconv].
  pose proof (fpba_best wst (w_ask eps0 tol qp ev) w_valid (w_prox1 mdn) (w_null eps0 kp) (w_momentum eps0 two kp ev sq) cs_reset P M
                (w_start eps0 ev n max_size x0 lo hi calls0)) as Hbest.
  fold (whole_fpba eps0 tol mdn two qp kp ev sq P M (w_start eps0 ev n max_size x0 lo hi calls0)) in Hbest.
  set (R := whole_fpba eps0 tol mdn two qp kp ev sq P M (w_start eps0 ev n max_size x0 lo hi calls0)) in *.
  destruct HS as ([HW _] & _ & E1 & E2 & E3 & E4).
  pose proof HW as (Hi & Hr & _). pose proof Hi as (_ & _ & Hf & _).
  split; [split; assumption|]. split; [|split; [|]].
  - intro Hk.
    assert (Hkt : true = true -> keep_ok eps0 kp) by (intros _; exact Hk).
    pose proof (whole_fpba_run_ok f n eps0 tol mdn two qp kp ev sq Hqp Hev true Hkt P M Hc HP Hmdn _
                  (start_SF f n eps0 ev Hev true max_size x0 lo hi calls0 Hms Hlo Hhi)) as H2.
    cbv zeta in H2. destruct H2 as [([_ HC] & _) _]. destruct (HC eq_refl) as [A B]. split; assumption.
  - split; [exact E3|]. split; [rewrite <- E1; exact E4|]. split; [rewrite <- E4, E1, <- Hf; exact E2|]. exact Hbest.
  - intro Hex. pose proof (Hconv 1%Z Hex eq_refl) as HC. split.
    + intros z d Hz Hd Hdz. pose proof (conv_certificate f n eps0 tol (s_or (o_final R)) HW HC Htol z d Hz Hd Hdz). lra.
    + intros xs fs d Hs Ht2 Hd.
      apply (conv_sharp f n eps0 tol (s_or (o_final R)) xs fs (f (w_sx (s_or (o_final R)))) d HW HC Hs Htol Ht2); [|exact Hd].
      rewrite <- E4, E1. exact E2.
Qed.

(* (3) the budget theorems of C03_Loops are theorems about the composed model *)
Lemma whole_budget : forall eps0 tol mdn two qp kp ev sq P M s,
  (1 <= p_cost P)%Z -> cs_params_ok P ->
  (let R := whole_rqb eps0 tol mdn qp kp ev P M s in
   o_exit R <> EFuel /\ (s_calls (o_final R) <= Z.max (s_calls s) (M + (p_cost P - 1)))%Z /\
   (o_exit R = EBudget -> (M <= s_calls (o_final R))%Z) /\ o_stale R = false) /\
  (let R := whole_fpba eps0 tol mdn two qp kp ev sq P M s in
   o_exit R <> EFuel /\ (s_calls (o_final R) <= Z.max (s_calls s) (M + (2 * p_cost P - 1)))%Z /\
   (o_exit R = EBudget -> (M <= s_calls (o_final R))%Z) /\ o_stale R = false).
Proof.
  intros eps0 tol mdn two qp kp ev sq P M s Hc HP. split; cbv zeta.
  - pose proof (rqb_budget wst (w_ask eps0 tol qp ev) w_valid (w_prox2 mdn) (w_serious eps0 kp) (w_null eps0 kp) cs_reset P M s Hc HP) as H.
    cbv zeta in H. destruct H as (A & B & C & _). unfold whole_rqb. repeat split; auto.
    apply rqb_never_stale. reflexivity.
  - pose proof (fpba_budget wst (w_ask eps0 tol qp ev) w_valid (w_prox1 mdn) (w_null eps0 kp) (w_momentum eps0 two kp ev sq) cs_reset P M s Hc HP) as H.
    cbv zeta in H. destruct H as (A & B & C & _). unfold whole_fpba. repeat split; auto.
    apply fpba_never_stale. reflexivity.
Qed.

(* ---- a complete small run (non-vacuity): f = |x| in 1-D, x0 = 3, max_size = 3 (capacity 4) -------------------------------------
   oracles: the exact first-order oracle of |x| (at a point of the wrong dimension: the answer at 0), QP answer (1/2, 1/4, 1/4, 0, ..)
   for three and more rows, delete_largest keeps no row but the aggregate.  Outer iterations: null step, cutting-plane step to the
   minimiser, null step with an aggregation, converged. *)
Definition ex_sgn (z : Q) : Q := if Qltb z 0 then - (1) else 1.
Definition ex_ev (k : nat) (y : vec) : evald :=
  match y with [y0] => mk_ev y [ex_sgn y0] (Qabs y0) | _ => mk_ev [0] [1] 0 end.
Definition ex_qp (k : nat) (b : bundle) (mt : Q) : list Q := (1 # 2) :: (1 # 4) :: (1 # 4) :: repeat 0 (length (bcuts b) - 3).
Definition ex_kp (k : nat) (b : bundle) : list nat := [].
Definition ex_eps0 : Q := 1 # 1000000.
Definition ex_P : cs_params := mk_csp (1 # 2) (9 # 10) 1 1 (3 # 10) 5 ex_eps0 2.
Definition ex_rqb (M : Z) : ores wst :=
  whole_rqb ex_eps0 (1 # 100) 0 ex_qp ex_kp ex_ev ex_P M (w_start ex_eps0 ex_ev 1 3 [3] (1 # 10) (1 # 10) 2).
Definition ex_fpba (M : Z) : ores wst :=
  whole_fpba ex_eps0 (1 # 100) 0 false ex_qp ex_kp ex_ev (fun _ => 9 # 4) ex_P M (w_start ex_eps0 ex_ev 1 3 [3] (1 # 10) (1 # 10) 2).

Lemma ex_ev_ok : ev_ok fabs1 1 ex_ev.
Proof.
  intros k y. unfold ev_sub, ex_ev.
  assert (H0 : subgrad fabs1 1 [0] [1] 0) by (apply (fabs1_subgrad 0 1); [reflexivity | lra]).
  destruct y as [|y0 [|y1 y]]; simpl; try exact H0.
  apply fabs1_subgrad; unfold ex_sgn; destruct (Qltb y0 0) eqn:E; [apply Qltb_true in E | apply Qltb_false in E | |]; try lra.
  - rewrite Qabs_neg by lra. ring.
  - rewrite Qabs_pos by lra. ring.
Qed.

Lemma qsum_repeat0 m : qsum (repeat 0 m) == 0.
Proof. induction m as [|m IH]; simpl; [reflexivity | rewrite IH; ring]. Qed.

Lemma ex_qp_ok : qp_ok ex_eps0 ex_qp.
Proof.
  intros k b mt H3. unfold ex_qp. split; [simpl; rewrite repeat_length; lia|]. split.
  - split.
    + repeat (constructor; [lra|]). apply Forall_forall. intros x Hx. apply repeat_spec in Hx. subst. lra.
    + simpl. rewrite qsum_repeat0. ring.
  - unfold clean, ex_eps0. repeat (constructor; [intro K; exfalso; revert K; apply Qle_not_lt; vm_compute; discriminate|]).
    apply Forall_forall. intros x Hx. apply repeat_spec in Hx. subst. intros _. reflexivity.
Qed.

Lemma ex_kp_ok : keep_ok ex_eps0 ex_kp.
Proof. intros k b H. simpl. lia. Qed.

(* the same run with a deletion oracle that keeps every row (what the code does when delete_largest's threshold removes nothing):
   the bundle reaches its capacity -- keep_ok cannot be dropped from the capacity clause *)
Definition ex_kp_all (k : nat) (b : bundle) : list nat := [0; 1; 2]%nat.
Definition ex_rqb_all (M : Z) : ores wst :=
  whole_rqb ex_eps0 (1 # 100) 0 ex_qp ex_kp_all ex_ev ex_P M (w_start ex_eps0 ex_ev 1 3 [3] (1 # 10) (1 # 10) 2).
