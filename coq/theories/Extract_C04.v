(* extraction of the executable C04 model. Z / positive are mapped to Zarith big integers (ExtrOcamlZBigInt): the
   residuals of a 12-variable program with 53-bit dyadic coefficients are rationals with denominators of several
   thousand bits (Qplus does not reduce), far too slow on the inductive binary numbers. *)
From Coq Require Import List ZArith QArith Qabs Extraction ExtrOcamlBasic ExtrOcamlZBigInt.
From LN Require Import C04_Defs C04_Reduce C04_Step C04_Iter_Defs C04_Rest_Defs.
Extraction Language OCaml.
(* Z.gcd is not in the list of ExtrOcamlZBigInt: realised by Zarith's gcd (non-negative, gcd 0 b = |b|, as Z.gcd); only
   C04_Iter_Defs.qnorm uses it, to keep the fractions of the iteration model reduced *)
Extract Constant Z.gcd => "Big_int_Z.gcd_big_int".
Extraction "extracted/c04_model.ml" dot vadd vsub vscale mv mtv sumsq msumsq vmaxc norm1 objective grad
  denom_target denom_ok normalizeP recompute model_done model_status feasible_dec converged_dec status_dec
  start_unfeasible_dec sysdim user_feasible_b phi zs4 Qltb
  entry stack reduce_sys reduce_model assemble lu_valid_b perm_b shape_b pmq_entry lu_entry inner_dim sat_b
  make_smax step_len step_point all_pos_b
  qnorm vnorm vmul vquo vopp upd res2 res_init wvec hessvar lmat lvec back_subst trial stage1_ok stage2_ok revert_test sgn_sd
  precise_test stage1 stage2 iter_core iter_step iter_start iter_run i_done sys_residual all_zero_b strict_b step_init
  kkt_mat kkt_vec eq_lmat eq_lvec approx_b eq_solve eq_sys_residual gram msf_target msf_rhs msf_residual msf_slack msf_accept
  msf_loop msf_run msf_round_valid_b msf_ys_ok_b make_x0 default_x0 lu_ok_b
  Qred Qplus Qminus Qmult Qdiv Qopp Qabs.Qabs Qle_bool Qeq_bool inject_Z.
