(* extraction of the executable C08 model: the integer model C08_Defs (Z stays the extracted inductive) and the
   value-level gradient model C08_Gradient (PrimFloat -> OCaml floats via coq-core.kernel Float64; the section
   variable atan2 of the gradient model becomes the first argument of flatten_f / select_f / gradient3x3) *)
From Coq Require Import List ZArith Floats Extraction ExtrOcamlBasic ExtrOCamlFloats.
From LN Require Import C08_Defs C08_Gradient.
Extraction Language OCaml.
Extraction "extracted/c08_model.ml" mask_zero setbit getbit pool_resize pool_visit width resize ds_set ds_get
  cell_addr ds_features ds_feature ds_reader has_target fit column_mapping feature_mapping generator_mapping
  columns features column2feature locate col_offset flags_init apply_op run_ops flag_of get_flag
  select_view enc_flat flat_row check_samples check_feature flatten select encode_view
  target_row target_dims targets target_select shuffled all_feats desc_dims desc_cols
  z2f make_kernel3x3 make_gx make_gy gradient3x3 grad_channel grad_mode grad_image flat_row_f flatten_f select_f.
