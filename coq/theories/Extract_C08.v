(* extraction of the executable C08 model (ExtrOcamlBasic only; Z stays the extracted inductive) *)
From Coq Require Import List ZArith Extraction ExtrOcamlBasic.
From LN Require Import C08_Defs.
Extraction Language OCaml.
Extraction "extracted/c08_model.ml" mask_zero setbit getbit pool_resize pool_visit width resize ds_set ds_get
  cell_addr ds_features ds_feature ds_reader has_target fit column_mapping feature_mapping generator_mapping
  columns features column2feature locate col_offset flags_init apply_op run_ops flag_of get_flag
  select_view enc_flat flat_row check_samples check_feature flatten select encode_view
  target_row target_dims targets target_select shuffled all_feats desc_dims desc_cols.
