(* extraction of the executable C13 model (ExtrOcamlBasic; Z stays the extracted inductive; the binary64 twin of the grid
   mapping of stage SURR uses OCaml's native floats through ExtrOCamlFloats) *)
From Coq Require Import List ZArith QArith Qabs Floats Extraction ExtrOcamlBasic ExtrOCamlFloats.
From LN Require Import C13_Defs C13_Surrogate_Defs.
Extraction Language OCaml.
Extraction "extracted/c13_model.ml" local_search fresh evaluate step1_pick init_pick optimize_pick calls_of
  isort set_front srt_pick minimisers fuel_for avg_igrid min_igrid max_igrid
  batch_tasks all_tasks slot slot_load optimum_trial trial_sums
  (* stage SURR *)
  fit_size dim_of_size pair_index pairs_fit pairs_grad pairs_value quad_terms sg_value sg_grad sg_quad fit_rows fit_value fit_grad fit_quad
  fit_declared_convex qdot closest_point closest_value to_surrogate_lin from_surrogate_lin dbl_max sg_proposal sg_prop
  optimize_pick_sg step1_pick_sg closest_point_f to_surrogate_lin_f from_surrogate_lin_f sg_proposal_f sg_prop_f optimize_pick_sg_f
  Qeq_bool Qle_bool Qcompare Qplus Qminus Qmult Qabs.Qabs Qred.
