(* extraction of the executable C13 model (ExtrOcamlBasic only; Z stays the extracted inductive) *)
From Coq Require Import List ZArith Extraction ExtrOcamlBasic.
From LN Require Import C13_Defs.
Extraction Language OCaml.
Extraction "extracted/c13_model.ml" local_search fresh evaluate step1_pick init_pick optimize_pick calls_of
  isort set_front srt_pick minimisers fuel_for avg_igrid min_igrid max_igrid
  batch_tasks all_tasks slot slot_load optimum_trial trial_sums.
