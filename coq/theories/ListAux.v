(* Small list lemmas missing from the Coq 8.16 standard library. *)
From Coq Require Import List Arith Lia.
Import ListNotations.

Lemma nth_firstn_lt {A} (n k : nat) (l : list A) (d : A) :
  (k < n)%nat -> nth k (firstn n l) d = nth k l d.
Proof.
  revert k l. induction n as [|n IH]; intros k l H; [lia|].
  destruct l as [|x l]; [destruct k; reflexivity|].
  destruct k as [|k]; [reflexivity|]. cbn. apply IH. lia.
Qed.

Lemma nth_skipn_add {A} (n k : nat) (l : list A) (d : A) :
  nth k (skipn n l) d = nth (n + k) l d.
Proof.
  revert l. induction n as [|n IH]; intros l; [reflexivity|].
  destruct l as [|x l]; cbn [skipn Nat.add]; [destruct k; reflexivity|].
  rewrite IH. reflexivity.
Qed.

Lemma nth_error_firstn_lt {A} (n k : nat) (l : list A) :
  (k < n)%nat -> nth_error (firstn n l) k = nth_error l k.
Proof.
  revert k l. induction n as [|n IH]; intros k l H; [lia|].
  destruct l as [|x l]; [destruct k; reflexivity|].
  destruct k as [|k]; [reflexivity|]. cbn. apply IH. lia.
Qed.

Lemma nth_error_skipn_add {A} (n k : nat) (l : list A) :
  nth_error (skipn n l) k = nth_error l (n + k).
Proof.
  revert l. induction n as [|n IH]; intros l; [reflexivity|].
  destruct l as [|x l]; cbn [skipn Nat.add]; [destruct k; reflexivity|].
  rewrite IH. reflexivity.
Qed.

Lemma skipn_skipn_add {A} (a b : nat) (l : list A) : skipn a (skipn b l) = skipn (b + a) l.
Proof.
  revert l. induction b as [|b IH]; intros l; [reflexivity|].
  destruct l as [|x l]; [rewrite !skipn_nil; reflexivity|]. cbn. apply IH.
Qed.
