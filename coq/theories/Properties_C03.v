(* C03 -- bundle / ellipsoid solvers: reported convergence certifies eps-optimality.
   Statements only; proofs are in C03_Proofs.v.  Everything is about the executable exact-rational model of
   C03_Defs.v, whose integer / boolean decisions are regenerated from the source on every run (Src_c03).
   Square roots are avoided: "|v|_2 <= t" is written  norm2 v <= t*t  with 0 <= t, for any rational t, which is
   the same statement because the rationals are dense.  `tol` stands for the value epsilon*sqrt(n) computed by the
   code. *)
From Coq Require Import List ZArith QArith Qabs Bool.
From LN Require C01Q_Defs C01Q_Proofs C03_EllN.
From LN Require Import C03_Defs C03_Proofs.
From LNGen Require Import Src_c03.
Import ListNotations.
Local Open Scope Q_scope.

(* ---- 1. the cutting plane model stays a lower bound of f ------------------------------------------------------ *)
(* the constructor establishes the invariant *)
Theorem C03_lower_bound_init : forall (f : vec -> Q) (n : nat) max_size x gx fx,
  subgrad f n x gx fx -> Inv f n (init n max_size x gx fx).
Proof. exact init_inv. Qed.
Print Assumptions C03_lower_bound_init.

(* every operation (solve; serious step = moveto; null step = append; with inactive-row deletion and, when the bundle
   is full, aggregation + deletion of ANY set of rows) preserves it: every row is a global affine minorant of f,
   the centre value is f(centre), the multipliers are a point of the simplex.  Oracle conditions (op_ok): the QP
   answer for more than two rows is in the simplex; (y, gy, fy) comes from a first-order oracle of a convex f; the
   multipliers below epsilon0 are exactly zero (otherwise the aggregate is a sigma-weighted cut, see
   C03_aggregate_weighted). *)
Theorem C03_lower_bound_inv : forall (f : vec -> Q) (n : nat) eps0 b o b',
  Inv f n b -> op_ok f n eps0 b o -> step eps0 b o = Some b' -> Inv f n b'.
Proof. exact step_inv. Qed.
Print Assumptions C03_lower_bound_inv.

(* all histories *)
Theorem C03_lower_bound_run : forall (f : vec -> Q) (n : nat) eps0 ops b b',
  Inv f n b -> ops_ok f n eps0 b ops -> run eps0 b ops = Some b' -> Inv f n b'.
Proof. exact run_inv. Qed.
Print Assumptions C03_lower_bound_run.

(* the invariant spelled out: each row is an affine minorant and each linearisation error is >= 0 *)
Theorem C03_cuts_minorize : forall (f : vec -> Q) (n : nat) b, Inv f n b ->
  Forall (fun c => forall z, length z = n -> bfx b + dot (cs c) (vsub z (bx b)) - ce c <= f z) (bcuts b) /\
  Forall (fun c => 0 <= ce c) (bcuts b).
Proof. exact cuts_minorize. Qed.
Print Assumptions C03_cuts_minorize.

(* the aggregation with multipliers that sum to sigma (not necessarily 1): what store_aggregate really computes *)
Theorem C03_aggregate_weighted : forall (f : vec -> Q) (n : nat) x fx cuts al z,
  Forall (valid_cut f n x fx) cuts -> Forall (fun a => 0 <= a) al -> length z = n ->
  zsum cuts al * fx + dot (cs (aggregate n cuts al)) (vsub z x) - ce (aggregate n cuts al) <= zsum cuts al * f z.
Proof. exact aggregate_weighted. Qed.
Print Assumptions C03_aggregate_weighted.

(* the serious-step re-centring formula *)
Theorem C03_recenter : forall (f : vec -> Q) (n : nat) x fx y fy c,
  length x = n -> length y = n -> valid_cut f n x fx c -> valid_cut f n y fy (recenter x fx y fy c).
Proof. exact recenter_valid. Qed.
Print Assumptions C03_recenter.

(* ---- 2. the certificate --------------------------------------------------------------------------------------- *)
Theorem C03_certificate : forall (f : vec -> Q) (n : nat) b z te ts d,
  Inv f n b -> length (balpha b) = length (bcuts b) -> length z = n ->
  smeared_e (bcuts b) (balpha b) <= te ->
  0 <= ts -> norm2 (smeared_s (bn b) (bcuts b) (balpha b)) <= ts * ts ->
  0 <= d -> norm2 (vsub (bx b) z) <= d * d ->
  bfx b - f z <= te + ts * d.
Proof. exact certificate. Qed.
Print Assumptions C03_certificate.

(* with the decision of csearch_t::search (translated `econv && sconv`) *)
Theorem C03_certificate_csearch : forall (f : vec -> Q) (n : nat) b z tol d,
  Inv f n b -> length (balpha b) = length (bcuts b) -> length z = n ->
  0 <= tol -> cs_converged tol b = true ->
  0 <= d -> norm2 (vsub (bx b) z) <= d * d ->
  bfx b - f z <= tol + tol * d.
Proof. exact certificate_bool. Qed.
Print Assumptions C03_certificate_csearch.

(* ---- 3. RQB / FPBA under sharpness ---------------------------------------------------------------------------- *)
(* fret is the value of the returned state: = bfx for RQB (state.update(y) right after bundle.moveto(y)), <= bfx
   for FPBA (update_if_better is called with every centre).  The property's bound 2 tol (1 + |x_ret - x*|) follows
   since the bracket is >= 1. *)
Theorem C03_rqb_fpba : forall (f : vec -> Q) (n : nat) b xs fs tol fret dret,
  Inv f n b -> length (balpha b) = length (bcuts b) ->
  sharp f n xs fs -> 0 <= tol -> tol <= 1 # 2 -> cs_converged tol b = true -> fret <= bfx b -> 0 <= dret ->
  fret - fs <= 2 * tol /\ fret - fs <= 2 * tol * (1 + dret).
Proof. exact rqb_fpba_prop. Qed.
Print Assumptions C03_rqb_fpba.

(* `converged` is reported to solver_t::done only when the curve search returned `converged`, and done() assigns
   solver_status::converged only then (all decisions translated from rqb.cpp / fpba.cpp / solver.cpp) *)
Theorem C03_status_rqb : forall status valid, rqb_done status valid = Some 1%Z -> status = 2%Z.
Proof. exact rqb_done_converged. Qed.
Print Assumptions C03_status_rqb.

Theorem C03_status_fpba : forall status valid, fpba_done status valid = Some 1%Z -> status = 2%Z.
Proof. exact fpba_done_converged. Qed.
Print Assumptions C03_status_fpba.

(* ---- 4. the two-row closed form of bundle_t::solve ------------------------------------------------------------ *)
Theorem C03_solve2_simplex : forall miu c0 c1, 0 <= solve2 miu c0 c1 <= 1.
Proof. exact solve2_range. Qed.
Print Assumptions C03_solve2_simplex.

Theorem C03_solve2_optimal : forall miu c0 c1 a, 0 <= a <= 1 ->
  phi2 miu c0 c1 (solve2 miu c0 c1) <= phi2 miu c0 c1 a.
Proof. exact solve2_optimal. Qed.
Print Assumptions C03_solve2_optimal.

(* ---- 5. storage: size() < capacity() ---------------------------------------------------------------------------- *)
(* as long as delete_largest removes at least `count` rows when it fires.  (It does not always: see
   C03_delete_largest_witness below and notes/C03.md.) *)
Theorem C03_size_bound : forall eps0 serious keep y gy fy b,
  (Z.of_nat (length (bcuts b)) < bcap b)%Z ->
  (let r := del_inactive eps0 (bcuts b) (balpha b) in
   src_c03_full (Z.of_nat (length (fst r))) (bcap b) = true ->
   (Z.of_nat (length keep) + src_c03_count <= Z.of_nat (length (fst r)))%Z) ->
  (Z.of_nat (length (bcuts (append eps0 serious keep y gy fy b))) < bcap b)%Z.
Proof. exact append_size. Qed.
Print Assumptions C03_size_bound.

(* ---- 6. ellipsoid ------------------------------------------------------------------------------------------------ *)
(* 1-D branch, whole loop, any budget, any convex f with sub-gradient oracle g and a sharp minimum inside the initial
   radius: if the loop reports `converged` the best value is within 2 max(eps^2, macheps) of the minimum *)
Theorem C03_ellipsoid_1d : forall (f g : Q -> Q) (xs fs : Q),
  (forall c z, f c + g c * (z - c) <= f z) -> fs == f xs -> (forall z, Qabs (z - xs) <= f z - fs) ->
  forall eps macheps theta x0 R fuel r,
  0 < macheps -> macheps <= theta -> eps * eps <= theta -> 0 <= R -> Qabs (xs - x0) <= R ->
  ell1_loop f g eps macheps fuel x0 R (f x0) = (true, r) -> r - fs < 2 * theta.
Proof. exact ellipsoid_1d_loop. Qed.
Print Assumptions C03_ellipsoid_1d.

(* the property's form: <= 10 epsilon for epsilon in [macheps, 1] *)
Theorem C03_ellipsoid_1d_10eps : forall (f g : Q -> Q) (xs fs : Q),
  (forall c z, f c + g c * (z - c) <= f z) -> fs == f xs -> (forall z, Qabs (z - xs) <= f z - fs) ->
  forall eps macheps x0 R fuel r,
  0 < macheps -> macheps <= eps -> eps <= 1 -> 0 <= R -> Qabs (xs - x0) <= R ->
  ell1_loop f g eps macheps fuel x0 R (f x0) = (true, r) -> r - fs <= 10 * eps.
Proof. exact ellipsoid_1d_10eps. Qed.
Print Assumptions C03_ellipsoid_1d_10eps.

(* one step of the 1-D branch keeps  |x* - c| <= 2 H  (H is a quarter of the bracket, not half of it) *)
Theorem C03_ellipsoid_1d_inv : forall (f g : Q -> Q) (xs fs : Q),
  (forall c z, f c + g c * (z - c) <= f z) -> fs == f xs -> (forall z, Qabs (z - xs) <= f z - fs) ->
  forall c H, Inv1 xs c H -> ~ g c == 0 -> Inv1 xs (fst (ell1_next c H (g c))) (snd (ell1_next c H (g c))).
Proof. exact ellipsoid_1d_inv_prop. Qed.
Print Assumptions C03_ellipsoid_1d_inv.

(* DESIGN.md's invariant  x* in [c - H, c + H]  is false of the faithful model: the centre moves by H, not H/2 *)
Theorem C03_ellipsoid_1d_halfwidth_refuted : exists c H g xs,
  0 <= H /\ - H <= xs - c <= H /\ g < 0 /\ c <= xs /\
  ~ (- snd (ell1_next c H g) <= xs - fst (ell1_next c H g) <= snd (ell1_next c H g)).
Proof. exact ellipsoid_1d_halfwidth_refuted. Qed.
Print Assumptions C03_ellipsoid_1d_halfwidth_refuted.

(* n-D certificate: x* = c + L u with |u|_2 <= 1 (x* inside the ellipsoid of shape H = L L'), g a sub-gradient at c,
   r >= sqrt(g'Hg) = |L'g|_2  ==>  f(c) - f(x* ) <= r.  (Factor form, over Q; the run theorems of section 6b carry the
   inverse instead of a factor and re-prove the certificate in that form, C03_ellipsoid_nd_converged.) *)
Theorem C03_ellipsoid_certificate : forall (f : vec -> Q) (n m : nat) (c g xs u : vec) (L : list vec) (r : Q),
  length c = n -> length xs = n ->
  (forall z, length z = n -> f c + dot g (vsub z c) <= f z) ->
  Forall (fun row => length row = m) L -> Forall2 Qeq (vsub xs c) (mv L u) -> norm2 u <= 1 ->
  0 <= r -> norm2 (mtv m L g) <= r * r ->
  f c - f xs <= r.
Proof. exact ellipsoid_certificate. Qed.
Print Assumptions C03_ellipsoid_certificate.

(* ---- 6b. ellipsoid, n >= 2: the deep-cut update keeps the lower level set -- hence the minimiser -- inside ------------------ *)
(* Model: en_x / en_H / en_step / en_run of C03_Defs.v = the `else` branch of solver_ellipsoid_t::do_minimize as written,
   over the field operations of C01Q_Defs (vectors = lists, matrices = lists of rows, [C01Q_Defs.mv] = matrix * vector,
   [C01Q_Defs.dot] = inner product).  Statements hold over ANY ordered field [OF : C01Q_Proofs.ordered_field FO] (Leibniz
   equality, positive cone); C01Q_Proofs.Qc_ordered_field (the extracted instance) and R_ordered_field are instances.
   std::sqrt(gHg) is a witness s with s*s = g'Hg, 0 < s (always available over the reals).
   [C03_EllN.ell_inv OF n x H P]: x has length n, P is the inverse of H on vectors of length n (H (P v) = v = P (H v)), both
   symmetric (as bilinear forms), H positive definite.  [ell_in OF P x y]: (y - x)' P (y - x) <= 1.  [ole] is <=, [olt] is <.
   [en_P] is the Sherman-Morrison inverse of the updated matrix (carried by the proof, not computed by the code). *)

(* one update: for every convex fn with sub-gradient g at x, best value `best` <= fn x (alpha >= 0 -- what the code can
   produce, state.fx() being the best value seen) and alpha = (fn x - best)/s < 1:
   the invariant is preserved (H+ symmetric, positive definite, with inverse P+) and every point of the lower level set
   {fn <= best} that was in the ellipsoid is in the new one *)
Theorem C03_ellipsoid_deep_cut_contains :
  forall (F : Type) (FO : C01Q_Defs.fops F) (OF : C01Q_Proofs.ordered_field FO)
         (n : nat) (fn : list F -> F) (x g : list F) (H P : list (list F)) (s best : F),
  (2 <= n)%nat -> C03_EllN.ell_inv OF n x H P -> length g = n ->
  (forall z, length z = n ->
     C03_EllN.ole OF (C01Q_Defs.fadd FO (fn x) (C01Q_Defs.dot FO g (C01Q_Defs.vsub FO z x))) (fn z)) ->
  C03_EllN.olt OF (C01Q_Defs.f0 FO) s -> C01Q_Defs.fmul FO s s = en_gHg F FO H g ->
  C03_EllN.ole OF best (fn x) -> C03_EllN.olt OF (C01Q_Defs.fsub FO (fn x) best) s ->
  let nf := en_nat F FO n in
  let alpha := en_alpha F FO s (fn x) best in
  C03_EllN.ell_inv OF n (en_x F FO nf s alpha x H g) (en_H F FO nf alpha H g) (en_P F FO nf s alpha P g) /\
  forall y, length y = n -> C03_EllN.ole OF (fn y) best -> C03_EllN.ell_in OF P x y ->
            C03_EllN.ell_in OF (en_P F FO nf s alpha P g) (en_x F FO nf s alpha x H g) y.
Proof. exact C03_EllN.ellipsoid_deep_cut_contains. Qed.
Print Assumptions C03_ellipsoid_deep_cut_contains.

(* every run: any list of oracle answers (value, sub-gradient, exact square root) of a convex fn with minimiser x*, started
   from the ball H0 = R^2 I around x0 that contains x*: after the run x* is inside the current ellipsoid -- or the run hit the
   degenerate cut alpha = 1, after which the centre IS x* (and from then on the best value is the minimum).  No hypothesis
   on alpha: 0 <= alpha <= 1 is proved from the invariant. *)
Theorem C03_ellipsoid_nd_invariant :
  forall (F : Type) (FO : C01Q_Defs.fops F) (OF : C01Q_Proofs.ordered_field FO)
         (n : nat) (fn : list F -> F) (xs x0 : list F) (R : F) (os : list (estep F)),
  (2 <= n)%nat -> length xs = n -> (forall z, length z = n -> C03_EllN.ole OF (fn xs) (fn z)) ->
  length x0 = n -> C03_EllN.olt OF (C01Q_Defs.f0 FO) R ->
  C03_EllN.ole OF (C01Q_Defs.dot FO (C01Q_Defs.vsub FO xs x0) (C01Q_Defs.vsub FO xs x0)) (C01Q_Defs.fmul FO R R) ->
  let st0 := mk_estate x0 (en_H0 F FO n R) (fn x0) in
  C03_EllN.oracles_ok OF n fn st0 os ->
  let st := en_run F FO (en_nat F FO n) st0 os in
  C03_EllN.ole OF (fn xs) (ebest st) /\
  (ebest st = fn xs \/ ex st = xs \/
   exists P, C03_EllN.ell_inv OF n (ex st) (eH st) P /\ C03_EllN.ell_in OF P (ex st) xs).
Proof. exact C03_EllN.ellipsoid_nd_invariant. Qed.
Print Assumptions C03_ellipsoid_nd_invariant.

(* the n >= 2 clause of the property for the exact-arithmetic model: when, after any run, the oracle answer o at the current
   centre has g'Hg <= r^2 (r >= 0), the best value -- state.fx() after evaluating the centre, and after any further
   evaluation f_next -- is within r of the minimum.  Both exits of the loop are instances: `converged = sqrt(gHg) < epsilon`
   with r = s < epsilon (gap < epsilon <= 10 epsilon), and `gHg < macheps` with any r such that macheps <= r^2
   (r = 2^-26: gap <= 1.5e-8 <= 10 epsilon for epsilon >= 1e-8). *)
Theorem C03_ellipsoid_nd_converged :
  forall (F : Type) (FO : C01Q_Defs.fops F) (OF : C01Q_Proofs.ordered_field FO)
         (n : nat) (fn : list F -> F) (xs x0 : list F) (R : F) (os : list (estep F)) (o : estep F) (r : F),
  (2 <= n)%nat -> length xs = n -> (forall z, length z = n -> C03_EllN.ole OF (fn xs) (fn z)) ->
  length x0 = n -> C03_EllN.olt OF (C01Q_Defs.f0 FO) R ->
  C03_EllN.ole OF (C01Q_Defs.dot FO (C01Q_Defs.vsub FO xs x0) (C01Q_Defs.vsub FO xs x0)) (C01Q_Defs.fmul FO R R) ->
  let st0 := mk_estate x0 (en_H0 F FO n R) (fn x0) in
  C03_EllN.oracles_ok OF n fn st0 os ->
  let st := en_run F FO (en_nat F FO n) st0 os in
  C03_EllN.oracle_ok OF n fn st o -> C03_EllN.ole OF (C01Q_Defs.f0 FO) r ->
  C03_EllN.ole OF (en_gHg F FO (eH st) (eg o)) (C01Q_Defs.fmul FO r r) ->
  forall f_next,
    C03_EllN.ole OF (C01Q_Defs.fsub FO (en_best F FO (en_best F FO (ebest st) (ef o)) f_next) (fn xs)) r.
Proof. exact C03_EllN.ellipsoid_nd_converged. Qed.
Print Assumptions C03_ellipsoid_nd_converged.

(* what is still not proved for n >= 2 (searched on the implementation only): floating-point rounding of the update, and
   "for n <= 6 the method reports `converged` within 20000 evaluations" (termination / rate) *)
Definition C03_ellipsoid_nd_not_proved : Prop :=
  forall (n : nat), (2 <= n <= 6)%nat -> (* the real solver reports `converged` within 20000 evaluations *) True.

(* ---- non-vacuity ---------------------------------------------------------------------------------------------------- *)
Definition ex_eps0 : Q := 1 # 1000000000000000.
(* f = |.| in one dimension, start at 2, null step at -1, serious step to 1/2 *)
Definition ex_b0 := init 1 5 [2] [1] 2.
Definition ex_ops := [OSolve 1 []; OAppend false [] [- (1)] [- (1)] 1; OSolve (1 # 4) []; OAppend true [] [1 # 2] [1] (1 # 2); OSolve 1 [1 # 4; 1 # 4; 1 # 2]].

Example C03_nonvacuous_init : Inv fabs1 1 ex_b0.
Proof.
  apply init_inv. apply (fabs1_subgrad 2 1); [reflexivity | split; discriminate].
Qed.

Example C03_nonvacuous_run : exists b', run ex_eps0 ex_b0 ex_ops = Some b' /\ length (bcuts b') = 3%nat /\
  smeared_e (bcuts b') (balpha b') == 1 # 4.
Proof. eexists. split; [vm_compute; reflexivity|]. split; vm_compute; reflexivity. Qed.

Example C03_nonvacuous_ops_ok : ops_ok fabs1 1 ex_eps0 ex_b0 ex_ops.
Proof.
  unfold ex_ops.
  constructor; [simpl; intro H; exfalso; apply (Nat.nle_succ_0 _ (le_S_n _ _ H))|].
  intros b1 E1. vm_compute in E1. injection E1 as <-.
  constructor.
  { split; [apply (fabs1_subgrad (- (1)) (- (1))); [reflexivity | split; discriminate]|].
    repeat constructor; intro H; exfalso; revert H; vm_compute; discriminate. }
  intros b2 E2. vm_compute in E2. injection E2 as <-.
  constructor; [simpl; intro H; exfalso; apply (Nat.nle_succ_0 _ (le_S_n _ _ (le_S_n _ _ H)))|].
  intros b3 E3. vm_compute in E3. injection E3 as <-.
  constructor.
  { split; [apply (fabs1_subgrad (1 # 2) 1); [reflexivity | split; discriminate]|].
    repeat constructor; intro H; exfalso; revert H; vm_compute; discriminate. }
  intros b4 E4. vm_compute in E4. injection E4 as <-.
  constructor; [|intros; constructor].
  intros _. split; [repeat constructor; discriminate | vm_compute; reflexivity].
Qed.

(* a converged bundle under sharpness: centre at the minimiser with the zero sub-gradient *)
Definition ex_bc := mkb 1 6 [0] 0 [mkcut [0] 0] [1].
Example C03_nonvacuous_converged : Inv fabs1 1 ex_bc /\ sharp fabs1 1 [0] 0 /\ cs_converged (1 # 4) ex_bc = true.
Proof.
  split; [|split; [exact fabs1_sharp | vm_compute; reflexivity]].
  unfold Inv, ex_bc; simpl. repeat split; try reflexivity; try discriminate.
  - constructor; [|constructor]. apply (new_centre_cut_valid fabs1 1 [0] [0] 0).
    apply (fabs1_subgrad 0 0); [reflexivity | split; discriminate].
  - right. repeat split; try reflexivity. repeat constructor. discriminate.
Qed.

Example C03_nonvacuous_solve2 : solve2 1 (mkcut [1] 0) (mkcut [- (1)] 4) == 1.
Proof. vm_compute. reflexivity. Qed.
Example C03_nonvacuous_solve2_interior : solve2 1 (mkcut [1] 0) (mkcut [- (1)] 1) == 3 # 4.
Proof. vm_compute. reflexivity. Qed.

Example C03_nonvacuous_status : rqb_done 2 true = Some 1%Z /\ rqb_done 3 true = None /\ rqb_done 0 true = Some 2%Z
  /\ fpba_done 2 true = Some 1%Z.
Proof. vm_compute. repeat split. Qed.

Example C03_nonvacuous_ellipsoid_1d :
  (forall c z, fabs_at1 c + gabs_at1 c * (z - c) <= fabs_at1 z) /\ (forall z, Qabs (z - 1) <= fabs_at1 z - 0) /\
  fst (ell1_loop fabs_at1 gabs_at1 (1 # 1000) (1 # 4503599627370496) 40 0 10 (fabs_at1 0)) = true.
Proof. split; [exact fabs_at1_sub|]. split; [exact fabs_at1_sharp|]. vm_compute. reflexivity. Qed.

Example C03_nonvacuous_ellipsoid_nd :
  let L := [[2; 0]; [0; 1]] in let u := [1 # 2; 1 # 2] in
  Forall2 Qeq (vsub [1; 1 # 2] [0; 0]) (mv L u) /\ norm2 u <= 1 /\ norm2 (mtv 2 L [1; 1]) <= 3 * 3.
Proof. simpl. split; [repeat constructor; vm_compute; reflexivity|]. split; vm_compute; discriminate. Qed.

(* the threshold of delete_largest is read at index `count` (the value of the translated src_c03_thres_index), not at
   the nth_element position size-count: with three rows only one is removed although count = 2, so that the bundle
   reaches its capacity (concrete: E = [0,1,2], any nth_element outcome [0,1,2]) *)
Example C03_delete_largest_witness :
  let arr := [0; 1; 2] in
  nth_post arr (Z.to_nat (src_c03_nth 3 2)) = true /\ (removed_count (nth 2 arr 0 - ex_eps0)%Q arr < 2)%nat.
Proof. vm_compute. split; [reflexivity | apply le_n]. Qed.

(* the deep-cut step evaluated: n = 2, H = P = I, x = 0, g = (3/5, 4/5), s = 1, fn x = 0, best = -1/4 (alpha = 1/4):
   x+ = -(1/2) g,  H+ = (5/4)(I - (4/5) g g'),  and P+ is its inverse *)
Local Notation q := C03_EllN.exq.
Example C03_nonvacuous_deep_cut_step :
  let I2 := [[q 1 1; q 0 1]; [q 0 1; q 1 1]] in
  let g := [q 3 5; q 4 5] in
  let alpha := en_alpha _ C01Q_Defs.QcO (q 1 1) (q 0 1) (q (-1) 4) in
  let nf := en_nat _ C01Q_Defs.QcO 2 in
  let th := map (map Qcanon.this) in
  Qcanon.this (C01Q_Defs.fmul C01Q_Defs.QcO (q 1 1) (q 1 1)) = Qcanon.this (en_gHg _ C01Q_Defs.QcO I2 g) /\
  Qcanon.this alpha = 1 # 4 /\
  map Qcanon.this (en_x _ C01Q_Defs.QcO nf (q 1 1) alpha [q 0 1; q 0 1] I2 g) = [- 3 # 10; - 2 # 5] /\
  th (en_H _ C01Q_Defs.QcO nf alpha I2 g) = [[89 # 100; - 12 # 25]; [- 12 # 25; 61 # 100]] /\
  th (en_P _ C01Q_Defs.QcO nf (q 1 1) alpha I2 g) = [[244 # 125; 192 # 125]; [192 # 125; 356 # 125]] /\
  th (C01Q_Defs.mmul C01Q_Defs.QcO (en_H _ C01Q_Defs.QcO nf alpha I2 g) (en_P _ C01Q_Defs.QcO nf (q 1 1) alpha I2 g)) = th I2 /\
  (* the point y = -g (fn y = g.y = -1 <= best) of the old boundary is on the new boundary *)
  Qcanon.this (en_form _ C01Q_Defs.QcO (en_P _ C01Q_Defs.QcO nf (q 1 1) alpha I2 g)
                 (en_x _ C01Q_Defs.QcO nf (q 1 1) alpha [q 0 1; q 0 1] I2 g) [q (-3) 5; q (-4) 5]) = 1.
Proof. cbv zeta. repeat split; vm_compute; reflexivity. Qed.

(* a run satisfying all hypotheses of C03_ellipsoid_nd_invariant / _converged: fn z = (g.z)^2, x* = 0, x0 = (1,1), R = 2,
   one step (s_1 = 28/5), then the oracle answer at the new centre (3/5, 7/15) with s_2 = 88/45 *)
Example C03_nonvacuous_nd_run :
  let OF := C01Q_Proofs.Qc_ordered_field in
  (forall z, length z = 2%nat -> C03_EllN.ole OF (C03_EllN.ex_fn C03_EllN.ex_xs) (C03_EllN.ex_fn z)) /\
  C03_EllN.ole OF (C01Q_Defs.dot C01Q_Defs.QcO (C01Q_Defs.vsub C01Q_Defs.QcO C03_EllN.ex_xs C03_EllN.ex_x0)
                                             (C01Q_Defs.vsub C01Q_Defs.QcO C03_EllN.ex_xs C03_EllN.ex_x0))
                  (C01Q_Defs.fmul C01Q_Defs.QcO C03_EllN.ex_R C03_EllN.ex_R) /\
  C03_EllN.oracles_ok OF 2 C03_EllN.ex_fn C03_EllN.ex_st0 [C03_EllN.ex_o1] /\
  C03_EllN.oracle_ok OF 2 C03_EllN.ex_fn C03_EllN.ex_st1 C03_EllN.ex_o2 /\
  map Qcanon.this (ex C03_EllN.ex_st1) = [3 # 5; 7 # 15] /\
  Qcanon.this (en_best _ C01Q_Defs.QcO (ebest C03_EllN.ex_st1) (ef C03_EllN.ex_o2)) = 121 # 225.
Proof.
  cbv zeta. split; [intros z _; apply C03_EllN.ex_min|].
  split; [right; vm_compute; reflexivity|].
  split; [split; [|exact I]; apply (C03_EllN.ex_oracle_ok C03_EllN.ex_st0);
          [vm_compute; reflexivity | apply Qcanon.Qc_is_canon; vm_compute; reflexivity]|].
  split; [apply (C03_EllN.ex_oracle_ok C03_EllN.ex_st1);
          [vm_compute; reflexivity | apply Qcanon.Qc_is_canon; vm_compute; reflexivity]|].
  split; vm_compute; reflexivity.
Qed.

(* ================================================================================================================== *)
(* Extension LOOP (C03_Loops_Defs.v / C03_Loops.v): csearch_t::search as written, the outer loops of RQB / FPBA, proximity_t,
   the Nesterov sequences.  The bundle QP, the function and the bundle operations are ARBITRARY oracles [ask], [serious], ...
   (every history); [init_status] = Some s is `m_point.m_status = s` at the start of a call (repo 31bf93f, s = max_iters),
   None is the code before that repair.  fcalls + gcalls is one integer [calls]; an evaluation adds p_cost (2). *)
From Coq Require Import Lia Lra.
From LN Require Import C03_Loops_Defs C03_Loops.

(* the constants the model reads from csearch.cpp: status of every exit, the reset value, which bracket end each side moves *)
Theorem C03_cs_status_codes :
  src_c03_cs_st_failed = 0%Z /\ src_c03_cs_st_init = 1%Z /\ src_c03_cs_st_converged = 2%Z /\ src_c03_cs_st_null = 3%Z /\
  src_c03_cs_st_descent = 4%Z /\ src_c03_cs_st_cutting = 5%Z /\ src_c03_cs_descent_moves = 0%Z /\ src_c03_cs_else_moves = 1%Z.
Proof. exact cs_status_codes. Qed.
Print Assumptions C03_cs_status_codes.

(* (1) one call of search(): the loop has NO bound other than the evaluation budget -- every pass evaluates exactly once, the last
   evaluation started below max_evals, and the budget (max_evals - calls passes at most) is never outlasted *)
Theorem C03_search_budget : forall (Or : Type) (ask : Or -> Q -> Or * cs_ans) P miu M calls o,
  (1 <= p_cost P)%Z ->
  let r := cs_search Or ask P miu M calls o in
  r_fuel_out r = false /\
  r_calls r = (calls + p_cost P * Z.of_nat (r_passes r))%Z /\
  ((1 <= r_passes r)%nat -> (r_calls r - p_cost P < M)%Z) /\
  ((calls < M)%Z -> (1 <= r_passes r)%nat) /\
  ((M <= calls)%Z -> r_passes r = 0%nat /\ r_assigned r = None).
Proof. exact search_budget. Qed.
Print Assumptions C03_search_budget.

(* hence RQB / FPBA terminate (the fuel max_evals - calls is never used up) with fewer than one (RQB) / two (FPBA: the
   unguarded momentum point) evaluations beyond max_evals: C02's overshoot clause for these solvers *)
Theorem C03_rqb_budget : forall (Or : Type) ask valid_of prox_of serious nullstep init_status P M (s : ost Or),
  (1 <= p_cost P)%Z -> cs_params_ok P ->
  let R := rqb_run Or ask valid_of prox_of serious nullstep init_status P M s in
  o_exit R <> EFuel /\ (s_calls (o_final R) <= Z.max (s_calls s) (M + (p_cost P - 1)))%Z /\
  (o_exit R = EBudget -> (M <= s_calls (o_final R))%Z) /\ (o_stale R = true -> o_exit R = EBudget).
Proof. exact rqb_budget. Qed.
Print Assumptions C03_rqb_budget.

Theorem C03_fpba_budget : forall (Or : Type) ask valid_of prox_of nullstep momentum init_status P M (s : ost Or),
  (1 <= p_cost P)%Z -> cs_params_ok P ->
  let R := fpba_run Or ask valid_of prox_of nullstep momentum init_status P M s in
  o_exit R <> EFuel /\ (s_calls (o_final R) <= Z.max (s_calls s) (M + (2 * p_cost P - 1)))%Z /\
  (o_exit R = EBudget -> (M <= s_calls (o_final R))%Z) /\ (o_stale R = true -> o_exit R = EBudget).
Proof. exact fpba_budget. Qed.
Print Assumptions C03_fpba_budget.

(* (2) status soundness.  A status ASSIGNED by a call is the verdict of the tests on the last answer read, at the returned t
   (cs_ret_spec spells out failed / converged / descent_step / cutting_plane_step / null_step with their m1..m4 tests; max_iters is
   never assigned by a pass); no status is assigned exactly when the loop guard ended the call -- after at least one pass when the
   call was made under the outer guard (the entry-exhausted path is unreachable from the solvers), with the budget used up *)
Theorem C03_search_status : forall (Or : Type) (ask : Or -> Q -> Or * cs_ans) P miu M calls o,
  (1 <= p_cost P)%Z -> cs_params_ok P -> (calls < M)%Z ->
  let r := cs_search Or ask P miu M calls o in
  (forall s, r_assigned r = Some s ->
     exists a tL0 tR0, r_last r = Some a /\ cs_ret_spec P (r_t r) tL0 tR0 a s (r_tL r) (r_tR r)) /\
  (r_assigned r = None -> (1 <= r_passes r)%nat /\ (M <= r_calls r)%Z).
Proof. exact search_status. Qed.
Print Assumptions C03_search_status.

(* that second path exists: one pass that assigns nothing, then the guard *)
Theorem C03_search_unassigned_path : exists P miu M calls o,
  (calls < M)%Z /\ cs_params_ok P /\
  let r := tape_search P miu M calls o in
  r_assigned r = None /\ r_passes r = 1%nat /\ r_fuel_out r = false /\ tp_short (r_or r) = false.
Proof. exact search_stale_path. Qed.
Print Assumptions C03_search_unassigned_path.

(* the repaired code: on that path the solvers see max_iters -- done() does not stop (a valid state), the state value, the bundle
   (the oracle is the one search() left), the proximity parameter are untouched, nothing is evaluated *)
Theorem C03_rqb_budget_exit_untouched : forall (Or : Type) ask valid_of prox_of serious nullstep init_status,
  init_status = Some src_c03_cs_st_init -> forall P M (s : ost Or),
  let r := cs_search Or ask P (s_miu s) M (s_calls s) (s_or s) in
  r_assigned r = None ->
  match rqb_iter Or ask valid_of prox_of serious nullstep init_status P M s with
  | INext s' u => u = false /\ s_or s' = r_or r /\ s_fx s' = s_fx s /\ s_miu s' = s_miu s /\ s_mstatus s' = src_c03_cs_st_init
  | IDone s1 z => valid_of (r_or r) = false /\ z = 2%Z /\ s_or s1 = r_or r /\ s_fx s1 = s_fx s
  end.
Proof. exact rqb_iter_budget_exit. Qed.
Print Assumptions C03_rqb_budget_exit_untouched.

Theorem C03_fpba_budget_exit_untouched : forall (Or : Type) ask valid_of prox_of nullstep momentum init_status,
  init_status = Some src_c03_cs_st_init -> forall P M (s : ost Or),
  let r := cs_search Or ask P (s_miu s) M (s_calls s) (s_or s) in
  r_assigned r = None ->
  match fpba_iter Or ask valid_of prox_of nullstep momentum init_status P M s with
  | INext s' u => u = false /\ s_or s' = r_or r /\ s_fx s' = s_fx s /\ s_miu s' = s_miu s /\ s_calls s' = r_calls r /\ s_mstatus s' = src_c03_cs_st_init
  | IDone s1 z => valid_of (r_or r) = false /\ z = 2%Z /\ s_or s1 = r_or r /\ s_fx s1 = s_fx s
  end.
Proof. exact fpba_iter_budget_exit. Qed.
Print Assumptions C03_fpba_budget_exit_untouched.

(* every status RQB / FPBA act on was assigned by the search call of the same iteration *)
Theorem C03_rqb_status_vetted : forall (Or : Type) ask valid_of prox_of serious nullstep init_status P M (s : ost Or),
  init_status = Some src_c03_cs_st_init ->
  o_stale (rqb_run Or ask valid_of prox_of serious nullstep init_status P M s) = false.
Proof. exact rqb_never_stale. Qed.
Print Assumptions C03_rqb_status_vetted.

Theorem C03_fpba_status_vetted : forall (Or : Type) ask valid_of prox_of nullstep momentum init_status P M (s : ost Or),
  init_status = Some src_c03_cs_st_init ->
  o_stale (fpba_run Or ask valid_of prox_of nullstep momentum init_status P M s) = false.
Proof. exact fpba_never_stale. Qed.
Print Assumptions C03_fpba_status_vetted.

(* (3) RQB is monotone: a serious step is made only under the m1 test fx - fy >= m1 delta, so with answers that report the current
   centre value and delta >= 0 (C03_delta_nonneg: the bundle model of a convex objective) the state value never increases --
   for ANY variant of the status reset as long as no move was made on a status of another call ... *)
Theorem C03_rqb_monotone : forall (Or : Type) ask valid_of prox_of serious nullstep init_status (I : Or -> Q -> Prop) P M (s : ost Or),
  (forall o v mt, I o v -> I (fst (ask o mt)) v /\ (a_fx (snd (ask o mt)) == v /\ 0 <= a_delta (snd (ask o mt)))) ->
  (forall o v w, I o v -> I (serious o w) w) -> (forall o v, I o v -> I (nullstep o) v) ->
  (1 <= p_cost P)%Z -> cs_params_ok P -> 0 <= p_m1 P -> I (s_or s) (s_fx s) ->
  let R := rqb_run Or ask valid_of prox_of serious nullstep init_status P M s in
  o_stale R = false -> s_fx (o_final R) <= s_fx s.
Proof. exact rqb_monotone. Qed.
Print Assumptions C03_rqb_monotone.

(* ... which is every run of the repaired code *)
Theorem C03_rqb_monotone_repaired : forall (Or : Type) ask valid_of prox_of serious nullstep init_status (I : Or -> Q -> Prop) P M (s : ost Or),
  init_status = Some src_c03_cs_st_init ->
  (forall o v mt, I o v -> I (fst (ask o mt)) v /\ (a_fx (snd (ask o mt)) == v /\ 0 <= a_delta (snd (ask o mt)))) ->
  (forall o v w, I o v -> I (serious o w) w) -> (forall o v, I o v -> I (nullstep o) v) ->
  (1 <= p_cost P)%Z -> cs_params_ok P -> 0 <= p_m1 P -> I (s_or s) (s_fx s) ->
  s_fx (o_final (rqb_run Or ask valid_of prox_of serious nullstep init_status P M s)) <= s_fx s.
Proof. exact rqb_monotone_repaired. Qed.
Print Assumptions C03_rqb_monotone_repaired.

(* ... and was FALSE of the code before repo 31bf93f (no reset): descent step 10 -> 9, then a call that rejects its only trial
   (f = 20), runs out of budget and returns the previous descent_step: RQB moves to 20 *)
Theorem C03_rqb_monotone_prefix_refuted : exists P M s,
  cs_params_ok P /\ 0 <= p_m1 P /\ (1 <= p_cost P)%Z /\
  let R := tape_rqb_prefix P M s in
  o_exit R = EBudget /\ o_stale R = true /\ tp_short (s_or (o_final R)) = false /\ s_fx s < s_fx (o_final R).
Proof. exact rqb_monotone_prefix_refuted. Qed.
Print Assumptions C03_rqb_monotone_prefix_refuted.

(* the hypothesis delta >= 0 of C03_rqb_monotone, for the bundle model under its invariant *)
Theorem C03_delta_nonneg : forall (f : vec -> Q) (n : nat) b mt, Inv f n b -> 0 < mt -> 0 <= delta mt b.
Proof. exact delta_nonneg. Qed.
Print Assumptions C03_delta_nonneg.

(* FPBA: the state is only changed by update_if_better -- for every oracle, every budget, with or without the reset *)
Theorem C03_fpba_best : forall (Or : Type) ask valid_of prox_of nullstep momentum init_status P M (s : ost Or),
  s_fx (o_final (fpba_run Or ask valid_of prox_of nullstep momentum init_status P M s)) <= s_fx s.
Proof. exact fpba_best. Qed.
Print Assumptions C03_fpba_best.

(* (5) the bracket: at the head of every pass 0 <= tL < t < tR; a new trial (interpolation or extrapolation) is STRICTLY inside the
   bracket it is computed from, exactly one end of which moved onto the previous trial; on return tL <= t <= tR *)
Theorem C03_search_trial_inside : forall P t tL tR a t' tL' tR',
  cs_params_ok P -> cs_inv t tL tR -> cs_pass P t tL tR a = PCont t' tL' tR' ->
  cs_inv t' tL' tR' /\ a_finite a = true /\
  ((tL' = t /\ tR' = tR /\ p_m1 P * a_delta a <= a_fx a - a_fy a) \/
   (tL' = tL /\ tR' = Some t /\ a_fx a - a_fy a < p_m1 P * a_delta a)).
Proof. exact cs_pass_cont. Qed.
Print Assumptions C03_search_trial_inside.

Theorem C03_search_bracket : forall (Or : Type) (ask : Or -> Q -> Or * cs_ans) P miu M calls o,
  cs_params_ok P ->
  let r := cs_search Or ask P miu M calls o in
  (forall s, r_assigned r = Some s -> cs_inv_ret (r_t r) (r_tL r) (r_tR r)) /\
  (r_assigned r = None -> cs_inv (r_t r) (r_tL r) (r_tR r)).
Proof. exact search_bracket. Qed.
Print Assumptions C03_search_bracket.

(* (4) proximity_t: miu0 is inside miu0_range; every update keeps miu positive (min_dot_nuv >= 0); the range is NOT kept *)
Theorem C03_prox_miu0_range : forall eps0 lo hi gx fx, lo <= hi -> lo <= prox_miu0 eps0 lo hi gx fx <= hi.
Proof. exact prox_miu0_range. Qed.
Print Assumptions C03_prox_miu0_range.

Theorem C03_prox_update_positive : forall miu mdn t xn xn1 gn gn1 Gn Gn1, 0 < miu -> 0 <= mdn ->
  0 < prox_update1 miu mdn t xn xn1 gn gn1 /\ 0 < prox_update2 miu mdn t xn xn1 gn gn1 Gn Gn1.
Proof. intros. split; [apply prox_update1_pos | apply prox_update2_pos]; assumption. Qed.
Print Assumptions C03_prox_update_positive.

Theorem C03_prox_range_refuted : exists lo hi miu mdn t xn xn1 gn gn1,
  0 < lo /\ lo <= miu <= hi /\ 0 < mdn /\ hi < prox_update1 miu mdn t xn xn1 gn gn1.
Proof. exact prox_range_refuted. Qed.
Print Assumptions C03_prox_range_refuted.

(* (4) Nesterov sequences: with r >= 2 lambda (true of the exact square root of 1 + 4 lambda^2 and of its correctly rounded
   value) lambda grows by at least 1/2 per update, stays >= 1 through every history of update / reset, and both momentum
   coefficients are in [0, 1) *)
Theorem C03_nesterov_witness_exact : forall lambda r, 0 <= lambda -> 0 <= r -> r * r == 1 + 4 * lambda * lambda -> nest_witness_ok lambda r.
Proof. exact nest_witness_exact. Qed.
Print Assumptions C03_nesterov_witness_exact.

Theorem C03_nesterov_coefficients : forall two lambda r, 1 <= lambda -> nest_witness_ok lambda r ->
  lambda + (1 # 2) <= nest_next r /\
  0 <= nest_alpha lambda (nest_next r) < 1 /\ 0 <= nest_beta two lambda (nest_next r) < 1.
Proof. intros. split; [apply nest_next_ge | apply nest_coefficients]; assumption. Qed.
Print Assumptions C03_nesterov_coefficients.

Theorem C03_nesterov_history : forall two evs s, 1 <= n_lambda s -> nest_hist_ok two s evs ->
  1 <= n_lambda (fold_left (nest_step two) evs s).
Proof. exact nest_history. Qed.
Print Assumptions C03_nesterov_history.

(* ---- non-vacuity of the LOOP statements ---- *)
Example C03_nonvacuous_loop_params : cs_params_ok wP /\ (1 <= p_cost wP)%Z /\ 0 <= p_m1 wP /\ cs_inv 1 0 None.
Proof. unfold cs_params_ok, cs_inv. simpl. repeat split; try lra; try lia; try (intros r H; discriminate H); vm_compute; discriminate. Qed.

(* a call under the guard that returns descent_step after a rejected trial (two passes, bracket [0, 1] -> t = 3/10) *)
Example C03_nonvacuous_search :
  let r := tape_search wP 1 100 2 (mk_tape [w_shrink 10 20; w_descent 10 9] [] [] false) in
  r_assigned r = Some 4%Z /\ r_passes r = 2%nat /\ r_calls r = 6%Z /\ r_t r == 3 # 10 /\ r_tL r == 3 # 10 /\ r_tR r = Some 1.
Proof. vm_compute. repeat split; reflexivity. Qed.

(* the repaired loop on the witness history of C03_rqb_monotone_prefix_refuted: the budget exit hands over max_iters, the state stays at 9 *)
Example C03_nonvacuous_rqb_repaired :
  let R := tape_rqb wP 6 (mk_ost (mk_tape [w_descent 10 9; w_shrink 9 20] [] [1; 1] false) 2%Z 10 1 0%Z 1 (Some 0)) in
  o_exit R = EBudget /\ o_stale R = false /\ s_fx (o_final R) == 9 /\ s_mstatus (o_final R) = 1%Z /\ s_calls (o_final R) = 6%Z.
Proof. vm_compute. repeat split; reflexivity. Qed.

(* an oracle with the hypotheses of C03_rqb_monotone (state = centre value, every trial one below the centre, delta = 1) *)
Example C03_nonvacuous_rqb_monotone :
  (forall (o v mt : Q), o == v -> fst (ex_ask o mt) == v /\ (a_fx (snd (ex_ask o mt)) == v /\ 0 <= a_delta (snd (ex_ask o mt)))) /\
  (forall (o v w : Q), o == v -> (fun (_ : Q) (w' : Q) => w') o w == w) /\ (forall (o v : Q), o == v -> (fun o' : Q => o') o == v).
Proof. exact ex_oracle_ok. Qed.

Example C03_nonvacuous_fpba :
  let R := tape_fpba wP 8 (mk_ost (mk_tape [w_descent 10 9; w_descent 12 11] [Some 12; Some 8] [1; 1] false) 2%Z 10 1 0%Z 1 (Some 0)) in
  o_exit R = EBudget /\ s_fx (o_final R) == 8 /\ s_calls (o_final R) = 10%Z /\ tp_short (s_or (o_final R)) = false.
Proof. vm_compute. repeat split; reflexivity. Qed.

Example C03_nonvacuous_prox :
  prox_miu0 (1 # 1000) 1 10 [3; 4] 24 == 125000 # 24001 /\ prox_update1 1 0 1 [0] [1] [0] [2] == 2 # 3 /\
  prox_update2 1 0 1 [0] [1] [0] [2] [0] [4] == 2 # 3.
Proof. vm_compute. repeat split; reflexivity. Qed.

Example C03_nonvacuous_nesterov :
  nest_witness_ok 1 (9 # 4) /\ nest_hist_ok true (mk_nest 1 [0] [0]) [NUpdate (9 # 4) [1]; NReset; NUpdate (5 # 2) [2]] /\
  n_lambda (fold_left (nest_step true) [NUpdate (9 # 4) [1]; NReset; NUpdate (5 # 2) [2]] (mk_nest 1 [0] [0])) == 7 # 4.
Proof. unfold nest_witness_ok. simpl. repeat split; try exact I; vm_compute; try reflexivity; discriminate. Qed.

(* ================================================================================================================== *)
(* Extension WHOLE (C03_Whole_Defs.v / C03_Whole.v): ONE model of a whole RQB / FPBA run -- the abstract oracles of the LOOP
   extension instantiated with the bundle operations [step] of C03_Defs.v, a first-order oracle [ev] of the objective (the point
   evaluated, a sub-gradient there, the value), proximal / delta / smeared_e / smeared_s / econverged / sconverged, proximity_t
   and the Nesterov sequence.  Remaining oracles: the QP answer [qp] (more than two rows), the rows surviving delete_largest [kp],
   [ev], the square root of the sequence [sq]; each indexed by the number of answers consumed (every history).
   Oracle conditions: qp_ok (right length, in the simplex, entries below epsilon0 exactly zero), ev_ok (convexity: every answer
   is a point with its value and a sub-gradient there), keep_ok (delete_largest removes its two rows -- only for the capacity
   clause).  max_size >= 3: with max_size = 2 the aggregation would use the multipliers of the closed form for two rows, which
   are not clean.  tol = epsilon * sqrt(n). *)
From LN Require Import C03_Whole_Defs C03_Whole.

(* (1) the operations as the loops issue them: one pass of the curve search (solve + evaluation) keeps WInv (Inv + nothing
   rejected), leaves the multipliers solved for the current rows, reports the centre value and delta >= 0; after a pass,
   moveto / append / the momentum step are ACCEPTED and keep WInv -- and, under keep_ok, size() < capacity() *)
Theorem C03_whole_ops : forall (f : vec -> Q) (n : nat) eps0 tol two qp kp ev sq,
  qp_ok eps0 qp -> ev_ok f n ev ->
  forall w, WInv f n w ->
  (forall mt, 0 < mt ->
     WInv f n (fst (w_ask eps0 tol qp ev w mt)) /\ Solved eps0 (fst (w_ask eps0 tol qp ev w mt)) /\
     0 <= a_delta (snd (w_ask eps0 tol qp ev w mt)) /\ a_fx (snd (w_ask eps0 tol qp ev w mt)) = bfx (w_b w)) /\
  (Solved eps0 w ->
     WInv f n (w_serious eps0 kp w (e_f (w_pt w))) /\ WInv f n (w_null eps0 kp w) /\
     forall best, WInv f n (fst (w_momentum eps0 two kp ev sq w best))) /\
  (keep_ok eps0 kp -> WCap w -> Solved eps0 w ->
     WCap (w_serious eps0 kp w (e_f (w_pt w))) /\ WCap (w_null eps0 kp w) /\
     forall best, WCap (fst (w_momentum eps0 two kp ev sq w best))).
Proof. exact whole_ops. Qed.
Print Assumptions C03_whole_ops.

(* (1) + (2) + (3), RQB, every budget M: at the end of the run the bundle satisfies Inv, no operation was rejected (no append on
   stale multipliers), the returned point is the bundle's centre with state.fx() = f(centre) <= f(x0) (monotone: the m1 test with
   delta >= 0 derived from Inv); under keep_ok the capacity is never reached; and if the solver reports `converged` the centre
   satisfies f(x) - f(z) <= tol + tol |x - z| for all z, hence under sharpness f(x) - f* <= 2 tol (1 + d) *)
Theorem C03_whole_rqb : forall (f : vec -> Q) (n : nat) eps0 tol mdn qp kp ev P M max_size x0 lo hi calls0,
  qp_ok eps0 qp -> ev_ok f n ev -> (1 <= p_cost P)%Z -> cs_params_ok P -> 0 <= p_m1 P -> 0 <= mdn -> 0 < lo -> lo <= hi ->
  (3 <= max_size)%Z -> 0 <= tol ->
  let R := whole_rqb eps0 tol mdn qp kp ev P M (w_start eps0 ev n max_size x0 lo hi calls0) in
  let w := s_or (o_final R) in
  let b := w_b w in
  (Inv f n b /\ w_rej w = false) /\
  (keep_ok eps0 kp -> w_over w = false /\ (Z.of_nat (length (bcuts b)) < bcap b)%Z) /\
  (w_sx w = bx b /\ s_fx (o_final R) == f (bx b) /\ s_fx (o_final R) <= e_f (ev 0%nat x0)) /\
  (o_exit R = EDone 1 ->
     (forall z d, length z = n -> 0 <= d -> norm2 (vsub (bx b) z) <= d * d -> f (bx b) - f z <= tol + tol * d) /\
     (forall xs fs d, sharp f n xs fs -> tol <= 1 # 2 -> 0 <= d ->
        f (bx b) - fs <= 2 * tol /\ f (bx b) - fs <= 2 * tol * (1 + d))).
Proof. exact whole_rqb_thm. Qed.
Print Assumptions C03_whole_rqb.

(* FPBA: the returned point w_sx is the best evaluated one (f(x_ret) <= f(centre), <= f(x0)); the certificate of the stopping
   test is about the bundle's CENTRE (the last momentum point); the property's inequality for x_ret follows from the two *)
Theorem C03_whole_fpba : forall (f : vec -> Q) (n : nat) eps0 tol mdn two qp kp ev sq P M max_size x0 lo hi calls0,
  qp_ok eps0 qp -> ev_ok f n ev -> (1 <= p_cost P)%Z -> cs_params_ok P -> 0 <= mdn -> 0 < lo -> lo <= hi ->
  (3 <= max_size)%Z -> 0 <= tol ->
  let R := whole_fpba eps0 tol mdn two qp kp ev sq P M (w_start eps0 ev n max_size x0 lo hi calls0) in
  let w := s_or (o_final R) in
  let b := w_b w in
  (Inv f n b /\ w_rej w = false) /\
  (keep_ok eps0 kp -> w_over w = false /\ (Z.of_nat (length (bcuts b)) < bcap b)%Z) /\
  (length (w_sx w) = n /\ s_fx (o_final R) == f (w_sx w) /\ f (w_sx w) <= f (bx b) /\ s_fx (o_final R) <= e_f (ev 0%nat x0)) /\
  (o_exit R = EDone 1 ->
     (forall z d, length z = n -> 0 <= d -> norm2 (vsub (bx b) z) <= d * d -> f (bx b) - f z <= tol + tol * d) /\
     (forall xs fs d, sharp f n xs fs -> tol <= 1 # 2 -> 0 <= d ->
        f (w_sx w) - fs <= 2 * tol /\ f (w_sx w) - fs <= 2 * tol * (1 + d))).
Proof. exact whole_fpba_thm. Qed.
Print Assumptions C03_whole_fpba.

(* (3) the budget theorems, for the composed model: termination inside the fuel, overshoot < one (RQB) / two (FPBA) evaluations,
   no move on a status of another call *)
Theorem C03_whole_budget : forall eps0 tol mdn two qp kp ev sq P M s,
  (1 <= p_cost P)%Z -> cs_params_ok P ->
  (let R := whole_rqb eps0 tol mdn qp kp ev P M s in
   o_exit R <> EFuel /\ (s_calls (o_final R) <= Z.max (s_calls s) (M + (p_cost P - 1)))%Z /\
   (o_exit R = EBudget -> (M <= s_calls (o_final R))%Z) /\ o_stale R = false) /\
  (let R := whole_fpba eps0 tol mdn two qp kp ev sq P M s in
   o_exit R <> EFuel /\ (s_calls (o_final R) <= Z.max (s_calls s) (M + (2 * p_cost P - 1)))%Z /\
   (o_exit R = EBudget -> (M <= s_calls (o_final R))%Z) /\ o_stale R = false).
Proof. exact whole_budget. Qed.
Print Assumptions C03_whole_budget.

(* keep_ok cannot be dropped from the capacity clause: with every other hypothesis of C03_whole_rqb in force and a deletion
   oracle that keeps all rows (delete_largest removing nothing: the known finding) the bundle reaches its capacity *)
Theorem C03_whole_capacity_needs_keep_ok : exists (f : vec -> Q) (n : nat) eps0 tol mdn qp kp ev P M max_size x0 lo hi calls0,
  qp_ok eps0 qp /\ ev_ok f n ev /\ (1 <= p_cost P)%Z /\ cs_params_ok P /\ 0 <= p_m1 P /\ 0 <= mdn /\ 0 < lo /\ lo <= hi /\
  (3 <= max_size)%Z /\ 0 <= tol /\
  let R := whole_rqb eps0 tol mdn qp kp ev P M (w_start eps0 ev n max_size x0 lo hi calls0) in
  w_over (s_or (o_final R)) = true /\ w_rej (s_or (o_final R)) = false /\
  (bcap (w_b (s_or (o_final R))) <= Z.of_nat (length (bcuts (w_b (s_or (o_final R))))))%Z.
Proof.
  exists fabs1, 1%nat, ex_eps0, (1 # 100), 0, ex_qp, ex_kp_all, ex_ev, ex_P, 8%Z, 3%Z, [3], (1 # 10), (1 # 10), 2%Z.
  split; [exact ex_qp_ok|]. split; [exact ex_ev_ok|].
  split; [vm_compute; discriminate|].
  split; [unfold cs_params_ok; repeat split; vm_compute; reflexivity|].
  split; [vm_compute; discriminate|]. split; [vm_compute; discriminate|]. split; [vm_compute; reflexivity|].
  split; [vm_compute; discriminate|]. split; [vm_compute; discriminate|]. split; [vm_compute; discriminate|].
  cbv zeta. vm_compute. repeat split; try reflexivity; discriminate.
Qed.
Print Assumptions C03_whole_capacity_needs_keep_ok.

(* ---- non-vacuity of the WHOLE statements: a complete run with every oracle answer satisfying the stated conditions ---- *)
Example C03_nonvacuous_whole_oracles :
  qp_ok ex_eps0 ex_qp /\ ev_ok fabs1 1 ex_ev /\ keep_ok ex_eps0 ex_kp /\ sharp fabs1 1 [0] 0 /\
  (1 <= p_cost ex_P)%Z /\ cs_params_ok ex_P /\ 0 <= p_m1 ex_P.
Proof.
  split; [exact ex_qp_ok|]. split; [exact ex_ev_ok|]. split; [exact ex_kp_ok|]. split; [exact fabs1_sharp|].
  unfold cs_params_ok. simpl. repeat split; try lra; try lia; vm_compute; discriminate.
Qed.

(* f = |x|, x0 = 3, max_size = 3, tol = 1/100, budgets 4, 6, 8, 10 evaluations: the four outer iterations are a null step
   (status 3, two rows), a cutting-plane step to the minimiser (status 5, the centre moves to 0, three rows), a null step whose
   append finds the bundle full (the aggregate (1/2, 0) replaces the three rows, then the new row), and `converged` *)
Example C03_nonvacuous_whole_rqb :
  let st (M : Z) := let R := ex_rqb M in
    (o_exit R, o_iters R, s_mstatus (o_final R), map Qred (bx (w_b (s_or (o_final R)))),
     map (fun c => (map Qred (cs c), Qred (ce c))) (bcuts (w_b (s_or (o_final R)))),
     (w_rej (s_or (o_final R)), w_over (s_or (o_final R))), w_nkp (s_or (o_final R))) in
  st 4%Z = (EBudget, 1%nat, 3%Z, [3], [([1], 0); ([- (1)], 6)], (false, false), 1%nat) /\
  st 6%Z = (EBudget, 2%nat, 5%Z, [0], [([1], 0); ([- (1)], 0); ([1], 0)], (false, false), 2%nat) /\
  st 8%Z = (EBudget, 3%nat, 3%Z, [0], [([1 # 2], 0); ([- (1)], 0)], (false, false), 3%nat) /\
  st 10%Z = (EDone 1, 4%nat, 2%Z, [0], [([1 # 2], 0); ([- (1)], 0)], (false, false), 3%nat) /\
  st 1000%Z = st 10%Z.
Proof. vm_compute. repeat split; reflexivity. Qed.

(* FPBA (sequence 1, witness 9/4 >= 2 lambda) on the same problem: null step, cutting-plane step + momentum point, null step with
   the aggregation, converged after 12 evaluations; the returned point is the minimiser *)
Example C03_nonvacuous_whole_fpba :
  let R := ex_fpba 1000 in
  o_exit R = EDone 1 /\ o_iters R = 4%nat /\ s_calls (o_final R) = 12%Z /\ map Qred (w_sx (s_or (o_final R))) = [0] /\
  w_rej (s_or (o_final R)) = false /\ w_over (s_or (o_final R)) = false /\ w_nkp (s_or (o_final R)) = 3%nat.
Proof. vm_compute. repeat split; reflexivity. Qed.
