(* C03 -- bundle / ellipsoid solvers: reported convergence certifies eps-optimality.
   Statements only; proofs are in C03_Proofs.v.  Everything is about the executable exact-rational model of
   C03_Defs.v, whose integer / boolean decisions are regenerated from the source on every run (Src_c03).
   Square roots are avoided: "|v|_2 <= t" is written  norm2 v <= t*t  with 0 <= t, for any rational t, which is
   the same statement because the rationals are dense.  `tol` stands for the value epsilon*sqrt(n) computed by the
   code. *)
From Coq Require Import List ZArith QArith Qabs Bool.
From LN Require C01Q_Defs C01Q_Proofs C03_EllN.
From LN Require Import C03_Defs C03_Proofs.
From LNGen Require Import Src_c03.
Import ListNotations.
Local Open Scope Q_scope.

(* ---- 1. the cutting plane model stays a lower bound of f ------------------------------------------------------ *)
(* the constructor establishes the invariant *)
Theorem C03_lower_bound_init : forall (f : vec -> Q) (n : nat) max_size x gx fx,
  subgrad f n x gx fx -> Inv f n (init n max_size x gx fx).
Proof. exact init_inv. Qed.
Print Assumptions C03_lower_bound_init.

(* every operation (solve; serious step = moveto; null step = append; with inactive-row deletion and, when the bundle
   is full, aggregation + deletion of ANY set of rows) preserves it: every row is a global affine minorant of f,
   the centre value is f(centre), the multipliers are a point of the simplex.  Oracle conditions (op_ok): the QP
   answer for more than two rows is in the simplex; (y, gy, fy) comes from a first-order oracle of a convex f; the
   multipliers below epsilon0 are exactly zero (otherwise the aggregate is a sigma-weighted cut, see
   C03_aggregate_weighted). *)
Theorem C03_lower_bound_inv : forall (f : vec -> Q) (n : nat) eps0 b o b',
  Inv f n b -> op_ok f n eps0 b o -> step eps0 b o = Some b' -> Inv f n b'.
Proof. exact step_inv. Qed.
Print Assumptions C03_lower_bound_inv.

(* all histories *)
Theorem C03_lower_bound_run : forall (f : vec -> Q) (n : nat) eps0 ops b b',
  Inv f n b -> ops_ok f n eps0 b ops -> run eps0 b ops = Some b' -> Inv f n b'.
Proof. exact run_inv. Qed.
Print Assumptions C03_lower_bound_run.

(* the invariant spelled out: each row is an affine minorant and each linearisation error is >= 0 *)
Theorem C03_cuts_minorize : forall (f : vec -> Q) (n : nat) b, Inv f n b ->
  Forall (fun c => forall z, length z = n -> bfx b + dot (cs c) (vsub z (bx b)) - ce c <= f z) (bcuts b) /\
  Forall (fun c => 0 <= ce c) (bcuts b).
Proof. exact cuts_minorize. Qed.
Print Assumptions C03_cuts_minorize.

(* the aggregation with multipliers that sum to sigma (not necessarily 1): what store_aggregate really computes *)
Theorem C03_aggregate_weighted : forall (f : vec -> Q) (n : nat) x fx cuts al z,
  Forall (valid_cut f n x fx) cuts -> Forall (fun a => 0 <= a) al -> length z = n ->
  zsum cuts al * fx + dot (cs (aggregate n cuts al)) (vsub z x) - ce (aggregate n cuts al) <= zsum cuts al * f z.
Proof. exact aggregate_weighted. Qed.
Print Assumptions C03_aggregate_weighted.

(* the serious-step re-centring formula *)
Theorem C03_recenter : forall (f : vec -> Q) (n : nat) x fx y fy c,
  length x = n -> length y = n -> valid_cut f n x fx c -> valid_cut f n y fy (recenter x fx y fy c).
Proof. exact recenter_valid. Qed.
Print Assumptions C03_recenter.

(* ---- 2. the certificate --------------------------------------------------------------------------------------- *)
Theorem C03_certificate : forall (f : vec -> Q) (n : nat) b z te ts d,
  Inv f n b -> length (balpha b) = length (bcuts b) -> length z = n ->
  smeared_e (bcuts b) (balpha b) <= te ->
  0 <= ts -> norm2 (smeared_s (bn b) (bcuts b) (balpha b)) <= ts * ts ->
  0 <= d -> norm2 (vsub (bx b) z) <= d * d ->
  bfx b - f z <= te + ts * d.
Proof. exact certificate. Qed.
Print Assumptions C03_certificate.

(* with the decision of csearch_t::search (translated `econv && sconv`) *)
Theorem C03_certificate_csearch : forall (f : vec -> Q) (n : nat) b z tol d,
  Inv f n b -> length (balpha b) = length (bcuts b) -> length z = n ->
  0 <= tol -> cs_converged tol b = true ->
  0 <= d -> norm2 (vsub (bx b) z) <= d * d ->
  bfx b - f z <= tol + tol * d.
Proof. exact certificate_bool. Qed.
Print Assumptions C03_certificate_csearch.

(* ---- 3. RQB / FPBA under sharpness ---------------------------------------------------------------------------- *)
(* fret is the value of the returned state: = bfx for RQB (state.update(y) right after bundle.moveto(y)), <= bfx
   for FPBA (update_if_better is called with every centre).  The property's bound 2 tol (1 + |x_ret - x*|) follows
   since the bracket is >= 1. *)
Theorem C03_rqb_fpba : forall (f : vec -> Q) (n : nat) b xs fs tol fret dret,
  Inv f n b -> length (balpha b) = length (bcuts b) ->
  sharp f n xs fs -> 0 <= tol -> tol <= 1 # 2 -> cs_converged tol b = true -> fret <= bfx b -> 0 <= dret ->
  fret - fs <= 2 * tol /\ fret - fs <= 2 * tol * (1 + dret).
Proof. exact rqb_fpba_prop. Qed.
Print Assumptions C03_rqb_fpba.

(* `converged` is reported to solver_t::done only when the curve search returned `converged`, and done() assigns
   solver_status::converged only then (all decisions translated from rqb.cpp / fpba.cpp / solver.cpp) *)
Theorem C03_status_rqb : forall status valid, rqb_done status valid = Some 1%Z -> status = 2%Z.
Proof. exact rqb_done_converged. Qed.
Print Assumptions C03_status_rqb.

Theorem C03_status_fpba : forall status valid, fpba_done status valid = Some 1%Z -> status = 2%Z.
Proof. exact fpba_done_converged. Qed.
Print Assumptions C03_status_fpba.

(* ---- 4. the two-row closed form of bundle_t::solve ------------------------------------------------------------ *)
Theorem C03_solve2_simplex : forall miu c0 c1, 0 <= solve2 miu c0 c1 <= 1.
Proof. exact solve2_range. Qed.
Print Assumptions C03_solve2_simplex.

Theorem C03_solve2_optimal : forall miu c0 c1 a, 0 <= a <= 1 ->
  phi2 miu c0 c1 (solve2 miu c0 c1) <= phi2 miu c0 c1 a.
Proof. exact solve2_optimal. Qed.
Print Assumptions C03_solve2_optimal.

(* ---- 5. storage: size() < capacity() ---------------------------------------------------------------------------- *)
(* as long as delete_largest removes at least `count` rows when it fires.  (It does not always: see
   C03_delete_largest_witness below and notes/C03.md.) *)
Theorem C03_size_bound : forall eps0 serious keep y gy fy b,
  (Z.of_nat (length (bcuts b)) < bcap b)%Z ->
  (let r := del_inactive eps0 (bcuts b) (balpha b) in
   src_c03_full (Z.of_nat (length (fst r))) (bcap b) = true ->
   (Z.of_nat (length keep) + src_c03_count <= Z.of_nat (length (fst r)))%Z) ->
  (Z.of_nat (length (bcuts (append eps0 serious keep y gy fy b))) < bcap b)%Z.
Proof. exact append_size. Qed.
Print Assumptions C03_size_bound.

(* ---- 6. ellipsoid ------------------------------------------------------------------------------------------------ *)
(* 1-D branch, whole loop, any budget, any convex f with sub-gradient oracle g and a sharp minimum inside the initial
   radius: if the loop reports `converged` the best value is within 2 max(eps^2, macheps) of the minimum *)
Theorem C03_ellipsoid_1d : forall (f g : Q -> Q) (xs fs : Q),
  (forall c z, f c + g c * (z - c) <= f z) -> fs == f xs -> (forall z, Qabs (z - xs) <= f z - fs) ->
  forall eps macheps theta x0 R fuel r,
  0 < macheps -> macheps <= theta -> eps * eps <= theta -> 0 <= R -> Qabs (xs - x0) <= R ->
  ell1_loop f g eps macheps fuel x0 R (f x0) = (true, r) -> r - fs < 2 * theta.
Proof. exact ellipsoid_1d_loop. Qed.
Print Assumptions C03_ellipsoid_1d.

(* the property's form: <= 10 epsilon for epsilon in [macheps, 1] *)
Theorem C03_ellipsoid_1d_10eps : forall (f g : Q -> Q) (xs fs : Q),
  (forall c z, f c + g c * (z - c) <= f z) -> fs == f xs -> (forall z, Qabs (z - xs) <= f z - fs) ->
  forall eps macheps x0 R fuel r,
  0 < macheps -> macheps <= eps -> eps <= 1 -> 0 <= R -> Qabs (xs - x0) <= R ->
  ell1_loop f g eps macheps fuel x0 R (f x0) = (true, r) -> r - fs <= 10 * eps.
Proof. exact ellipsoid_1d_10eps. Qed.
Print Assumptions C03_ellipsoid_1d_10eps.

(* one step of the 1-D branch keeps  |x* - c| <= 2 H  (H is a quarter of the bracket, not half of it) *)
Theorem C03_ellipsoid_1d_inv : forall (f g : Q -> Q) (xs fs : Q),
  (forall c z, f c + g c * (z - c) <= f z) -> fs == f xs -> (forall z, Qabs (z - xs) <= f z - fs) ->
  forall c H, Inv1 xs c H -> ~ g c == 0 -> Inv1 xs (fst (ell1_next c H (g c))) (snd (ell1_next c H (g c))).
Proof. exact ellipsoid_1d_inv_prop. Qed.
Print Assumptions C03_ellipsoid_1d_inv.

(* DESIGN.md's invariant  x* in [c - H, c + H]  is false of the faithful model: the centre moves by H, not H/2 *)
Theorem C03_ellipsoid_1d_halfwidth_refuted : exists c H g xs,
  0 <= H /\ - H <= xs - c <= H /\ g < 0 /\ c <= xs /\
  ~ (- snd (ell1_next c H g) <= xs - fst (ell1_next c H g) <= snd (ell1_next c H g)).
Proof. exact ellipsoid_1d_halfwidth_refuted. Qed.
Print Assumptions C03_ellipsoid_1d_halfwidth_refuted.

(* n-D certificate: x* = c + L u with |u|_2 <= 1 (x* inside the ellipsoid of shape H = L L'), g a sub-gradient at c,
   r >= sqrt(g'Hg) = |L'g|_2  ==>  f(c) - f(x* ) <= r.  (Factor form, over Q; the run theorems of section 6b carry the
   inverse instead of a factor and re-prove the certificate in that form, C03_ellipsoid_nd_converged.) *)
Theorem C03_ellipsoid_certificate : forall (f : vec -> Q) (n m : nat) (c g xs u : vec) (L : list vec) (r : Q),
  length c = n -> length xs = n ->
  (forall z, length z = n -> f c + dot g (vsub z c) <= f z) ->
  Forall (fun row => length row = m) L -> Forall2 Qeq (vsub xs c) (mv L u) -> norm2 u <= 1 ->
  0 <= r -> norm2 (mtv m L g) <= r * r ->
  f c - f xs <= r.
Proof. exact ellipsoid_certificate. Qed.
Print Assumptions C03_ellipsoid_certificate.

(* ---- 6b. ellipsoid, n >= 2: the deep-cut update keeps the lower level set -- hence the minimiser -- inside ------------------ *)
(* Model: en_x / en_H / en_step / en_run of C03_Defs.v = the `else` branch of solver_ellipsoid_t::do_minimize as written,
   over the field operations of C01Q_Defs (vectors = lists, matrices = lists of rows, [C01Q_Defs.mv] = matrix * vector,
   [C01Q_Defs.dot] = inner product).  Statements hold over ANY ordered field [OF : C01Q_Proofs.ordered_field FO] (Leibniz
   equality, positive cone); C01Q_Proofs.Qc_ordered_field (the extracted instance) and R_ordered_field are instances.
   std::sqrt(gHg) is a witness s with s*s = g'Hg, 0 < s (always available over the reals).
   [C03_EllN.ell_inv OF n x H P]: x has length n, P is the inverse of H on vectors of length n (H (P v) = v = P (H v)), both
   symmetric (as bilinear forms), H positive definite.  [ell_in OF P x y]: (y - x)' P (y - x) <= 1.  [ole] is <=, [olt] is <.
   [en_P] is the Sherman-Morrison inverse of the updated matrix (carried by the proof, not computed by the code). *)

(* one update: for every convex fn with sub-gradient g at x, best value `best` <= fn x (alpha >= 0 -- what the code can
   produce, state.fx() being the best value seen) and alpha = (fn x - best)/s < 1:
   the invariant is preserved (H+ symmetric, positive definite, with inverse P+) and every point of the lower level set
   {fn <= best} that was in the ellipsoid is in the new one *)
Theorem C03_ellipsoid_deep_cut_contains :
  forall (F : Type) (FO : C01Q_Defs.fops F) (OF : C01Q_Proofs.ordered_field FO)
         (n : nat) (fn : list F -> F) (x g : list F) (H P : list (list F)) (s best : F),
  (2 <= n)%nat -> C03_EllN.ell_inv OF n x H P -> length g = n ->
  (forall z, length z = n ->
     C03_EllN.ole OF (C01Q_Defs.fadd FO (fn x) (C01Q_Defs.dot FO g (C01Q_Defs.vsub FO z x))) (fn z)) ->
  C03_EllN.olt OF (C01Q_Defs.f0 FO) s -> C01Q_Defs.fmul FO s s = en_gHg F FO H g ->
  C03_EllN.ole OF best (fn x) -> C03_EllN.olt OF (C01Q_Defs.fsub FO (fn x) best) s ->
  let nf := en_nat F FO n in
  let alpha := en_alpha F FO s (fn x) best in
  C03_EllN.ell_inv OF n (en_x F FO nf s alpha x H g) (en_H F FO nf alpha H g) (en_P F FO nf s alpha P g) /\
  forall y, length y = n -> C03_EllN.ole OF (fn y) best -> C03_EllN.ell_in OF P x y ->
            C03_EllN.ell_in OF (en_P F FO nf s alpha P g) (en_x F FO nf s alpha x H g) y.
Proof. exact C03_EllN.ellipsoid_deep_cut_contains. Qed.
Print Assumptions C03_ellipsoid_deep_cut_contains.

(* every run: any list of oracle answers (value, sub-gradient, exact square root) of a convex fn with minimiser x*, started
   from the ball H0 = R^2 I around x0 that contains x*: after the run x* is inside the current ellipsoid -- or the run hit the
   degenerate cut alpha = 1, after which the centre IS x* (and from then on the best value is the minimum).  No hypothesis
   on alpha: 0 <= alpha <= 1 is proved from the invariant. *)
Theorem C03_ellipsoid_nd_invariant :
  forall (F : Type) (FO : C01Q_Defs.fops F) (OF : C01Q_Proofs.ordered_field FO)
         (n : nat) (fn : list F -> F) (xs x0 : list F) (R : F) (os : list (estep F)),
  (2 <= n)%nat -> length xs = n -> (forall z, length z = n -> C03_EllN.ole OF (fn xs) (fn z)) ->
  length x0 = n -> C03_EllN.olt OF (C01Q_Defs.f0 FO) R ->
  C03_EllN.ole OF (C01Q_Defs.dot FO (C01Q_Defs.vsub FO xs x0) (C01Q_Defs.vsub FO xs x0)) (C01Q_Defs.fmul FO R R) ->
  let st0 := mk_estate x0 (en_H0 F FO n R) (fn x0) in
  C03_EllN.oracles_ok OF n fn st0 os ->
  let st := en_run F FO (en_nat F FO n) st0 os in
  C03_EllN.ole OF (fn xs) (ebest st) /\
  (ebest st = fn xs \/ ex st = xs \/
   exists P, C03_EllN.ell_inv OF n (ex st) (eH st) P /\ C03_EllN.ell_in OF P (ex st) xs).
Proof. exact C03_EllN.ellipsoid_nd_invariant. Qed.
Print Assumptions C03_ellipsoid_nd_invariant.

(* the n >= 2 clause of the property for the exact-arithmetic model: when, after any run, the oracle answer o at the current
   centre has g'Hg <= r^2 (r >= 0), the best value -- state.fx() after evaluating the centre, and after any further
   evaluation f_next -- is within r of the minimum.  Both exits of the loop are instances: `converged = sqrt(gHg) < epsilon`
   with r = s < epsilon (gap < epsilon <= 10 epsilon), and `gHg < macheps` with any r such that macheps <= r^2
   (r = 2^-26: gap <= 1.5e-8 <= 10 epsilon for epsilon >= 1e-8). *)
Theorem C03_ellipsoid_nd_converged :
  forall (F : Type) (FO : C01Q_Defs.fops F) (OF : C01Q_Proofs.ordered_field FO)
         (n : nat) (fn : list F -> F) (xs x0 : list F) (R : F) (os : list (estep F)) (o : estep F) (r : F),
  (2 <= n)%nat -> length xs = n -> (forall z, length z = n -> C03_EllN.ole OF (fn xs) (fn z)) ->
  length x0 = n -> C03_EllN.olt OF (C01Q_Defs.f0 FO) R ->
  C03_EllN.ole OF (C01Q_Defs.dot FO (C01Q_Defs.vsub FO xs x0) (C01Q_Defs.vsub FO xs x0)) (C01Q_Defs.fmul FO R R) ->
  let st0 := mk_estate x0 (en_H0 F FO n R) (fn x0) in
  C03_EllN.oracles_ok OF n fn st0 os ->
  let st := en_run F FO (en_nat F FO n) st0 os in
  C03_EllN.oracle_ok OF n fn st o -> C03_EllN.ole OF (C01Q_Defs.f0 FO) r ->
  C03_EllN.ole OF (en_gHg F FO (eH st) (eg o)) (C01Q_Defs.fmul FO r r) ->
  forall f_next,
    C03_EllN.ole OF (C01Q_Defs.fsub FO (en_best F FO (en_best F FO (ebest st) (ef o)) f_next) (fn xs)) r.
Proof. exact C03_EllN.ellipsoid_nd_converged. Qed.
Print Assumptions C03_ellipsoid_nd_converged.

(* what is still not proved for n >= 2 (searched on the implementation only): floating-point rounding of the update, and
   "for n <= 6 the method reports `converged` within 20000 evaluations" (termination / rate) *)
Definition C03_ellipsoid_nd_not_proved : Prop :=
  forall (n : nat), (2 <= n <= 6)%nat -> (* the real solver reports `converged` within 20000 evaluations *) True.

(* ---- non-vacuity ---------------------------------------------------------------------------------------------------- *)
Definition ex_eps0 : Q := 1 # 1000000000000000.
(* f = |.| in one dimension, start at 2, null step at -1, serious step to 1/2 *)
Definition ex_b0 := init 1 5 [2] [1] 2.
Definition ex_ops := [OSolve 1 []; OAppend false [] [- (1)] [- (1)] 1; OSolve (1 # 4) []; OAppend true [] [1 # 2] [1] (1 # 2); OSolve 1 [1 # 4; 1 # 4; 1 # 2]].

Example C03_nonvacuous_init : Inv fabs1 1 ex_b0.
Proof.
  apply init_inv. apply (fabs1_subgrad 2 1); [reflexivity | split; discriminate].
Qed.

Example C03_nonvacuous_run : exists b', run ex_eps0 ex_b0 ex_ops = Some b' /\ length (bcuts b') = 3%nat /\
  smeared_e (bcuts b') (balpha b') == 1 # 4.
Proof. eexists. split; [vm_compute; reflexivity|]. split; vm_compute; reflexivity. Qed.

Example C03_nonvacuous_ops_ok : ops_ok fabs1 1 ex_eps0 ex_b0 ex_ops.
Proof.
  unfold ex_ops.
  constructor; [simpl; intro H; exfalso; apply (Nat.nle_succ_0 _ (le_S_n _ _ H))|].
  intros b1 E1. vm_compute in E1. injection E1 as <-.
  constructor.
  { split; [apply (fabs1_subgrad (- (1)) (- (1))); [reflexivity | split; discriminate]|].
    repeat constructor; intro H; exfalso; revert H; vm_compute; discriminate. }
  intros b2 E2. vm_compute in E2. injection E2 as <-.
  constructor; [simpl; intro H; exfalso; apply (Nat.nle_succ_0 _ (le_S_n _ _ (le_S_n _ _ H)))|].
  intros b3 E3. vm_compute in E3. injection E3 as <-.
  constructor.
  { split; [apply (fabs1_subgrad (1 # 2) 1); [reflexivity | split; discriminate]|].
    repeat constructor; intro H; exfalso; revert H; vm_compute; discriminate. }
  intros b4 E4. vm_compute in E4. injection E4 as <-.
  constructor; [|intros; constructor].
  intros _. split; [repeat constructor; discriminate | vm_compute; reflexivity].
Qed.

(* a converged bundle under sharpness: centre at the minimiser with the zero sub-gradient *)
Definition ex_bc := mkb 1 6 [0] 0 [mkcut [0] 0] [1].
Example C03_nonvacuous_converged : Inv fabs1 1 ex_bc /\ sharp fabs1 1 [0] 0 /\ cs_converged (1 # 4) ex_bc = true.
Proof.
  split; [|split; [exact fabs1_sharp | vm_compute; reflexivity]].
  unfold Inv, ex_bc; simpl. repeat split; try reflexivity; try discriminate.
  - constructor; [|constructor]. apply (new_centre_cut_valid fabs1 1 [0] [0] 0).
    apply (fabs1_subgrad 0 0); [reflexivity | split; discriminate].
  - right. repeat split; try reflexivity. repeat constructor. discriminate.
Qed.

Example C03_nonvacuous_solve2 : solve2 1 (mkcut [1] 0) (mkcut [- (1)] 4) == 1.
Proof. vm_compute. reflexivity. Qed.
Example C03_nonvacuous_solve2_interior : solve2 1 (mkcut [1] 0) (mkcut [- (1)] 1) == 3 # 4.
Proof. vm_compute. reflexivity. Qed.

Example C03_nonvacuous_status : rqb_done 2 true = Some 1%Z /\ rqb_done 3 true = None /\ rqb_done 0 true = Some 2%Z
  /\ fpba_done 2 true = Some 1%Z.
Proof. vm_compute. repeat split. Qed.

Example C03_nonvacuous_ellipsoid_1d :
  (forall c z, fabs_at1 c + gabs_at1 c * (z - c) <= fabs_at1 z) /\ (forall z, Qabs (z - 1) <= fabs_at1 z - 0) /\
  fst (ell1_loop fabs_at1 gabs_at1 (1 # 1000) (1 # 4503599627370496) 40 0 10 (fabs_at1 0)) = true.
Proof. split; [exact fabs_at1_sub|]. split; [exact fabs_at1_sharp|]. vm_compute. reflexivity. Qed.

Example C03_nonvacuous_ellipsoid_nd :
  let L := [[2; 0]; [0; 1]] in let u := [1 # 2; 1 # 2] in
  Forall2 Qeq (vsub [1; 1 # 2] [0; 0]) (mv L u) /\ norm2 u <= 1 /\ norm2 (mtv 2 L [1; 1]) <= 3 * 3.
Proof. simpl. split; [repeat constructor; vm_compute; reflexivity|]. split; vm_compute; discriminate. Qed.

(* the threshold of delete_largest is read at index `count` (the value of the translated src_c03_thres_index), not at
   the nth_element position size-count: with three rows only one is removed although count = 2, so that the bundle
   reaches its capacity (concrete: E = [0,1,2], any nth_element outcome [0,1,2]) *)
Example C03_delete_largest_witness :
  let arr := [0; 1; 2] in
  nth_post arr (Z.to_nat (src_c03_nth 3 2)) = true /\ (removed_count (nth 2 arr 0 - ex_eps0)%Q arr < 2)%nat.
Proof. vm_compute. split; [reflexivity | apply le_n]. Qed.

(* the deep-cut step evaluated: n = 2, H = P = I, x = 0, g = (3/5, 4/5), s = 1, fn x = 0, best = -1/4 (alpha = 1/4):
   x+ = -(1/2) g,  H+ = (5/4)(I - (4/5) g g'),  and P+ is its inverse *)
Local Notation q := C03_EllN.exq.
Example C03_nonvacuous_deep_cut_step :
  let I2 := [[q 1 1; q 0 1]; [q 0 1; q 1 1]] in
  let g := [q 3 5; q 4 5] in
  let alpha := en_alpha _ C01Q_Defs.QcO (q 1 1) (q 0 1) (q (-1) 4) in
  let nf := en_nat _ C01Q_Defs.QcO 2 in
  let th := map (map Qcanon.this) in
  Qcanon.this (C01Q_Defs.fmul C01Q_Defs.QcO (q 1 1) (q 1 1)) = Qcanon.this (en_gHg _ C01Q_Defs.QcO I2 g) /\
  Qcanon.this alpha = 1 # 4 /\
  map Qcanon.this (en_x _ C01Q_Defs.QcO nf (q 1 1) alpha [q 0 1; q 0 1] I2 g) = [- 3 # 10; - 2 # 5] /\
  th (en_H _ C01Q_Defs.QcO nf alpha I2 g) = [[89 # 100; - 12 # 25]; [- 12 # 25; 61 # 100]] /\
  th (en_P _ C01Q_Defs.QcO nf (q 1 1) alpha I2 g) = [[244 # 125; 192 # 125]; [192 # 125; 356 # 125]] /\
  th (C01Q_Defs.mmul C01Q_Defs.QcO (en_H _ C01Q_Defs.QcO nf alpha I2 g) (en_P _ C01Q_Defs.QcO nf (q 1 1) alpha I2 g)) = th I2 /\
  (* the point y = -g (fn y = g.y = -1 <= best) of the old boundary is on the new boundary *)
  Qcanon.this (en_form _ C01Q_Defs.QcO (en_P _ C01Q_Defs.QcO nf (q 1 1) alpha I2 g)
                 (en_x _ C01Q_Defs.QcO nf (q 1 1) alpha [q 0 1; q 0 1] I2 g) [q (-3) 5; q (-4) 5]) = 1.
Proof. cbv zeta. repeat split; vm_compute; reflexivity. Qed.

(* a run satisfying all hypotheses of C03_ellipsoid_nd_invariant / _converged: fn z = (g.z)^2, x* = 0, x0 = (1,1), R = 2,
   one step (s_1 = 28/5), then the oracle answer at the new centre (3/5, 7/15) with s_2 = 88/45 *)
Example C03_nonvacuous_nd_run :
  let OF := C01Q_Proofs.Qc_ordered_field in
  (forall z, length z = 2%nat -> C03_EllN.ole OF (C03_EllN.ex_fn C03_EllN.ex_xs) (C03_EllN.ex_fn z)) /\
  C03_EllN.ole OF (C01Q_Defs.dot C01Q_Defs.QcO (C01Q_Defs.vsub C01Q_Defs.QcO C03_EllN.ex_xs C03_EllN.ex_x0)
                                             (C01Q_Defs.vsub C01Q_Defs.QcO C03_EllN.ex_xs C03_EllN.ex_x0))
                  (C01Q_Defs.fmul C01Q_Defs.QcO C03_EllN.ex_R C03_EllN.ex_R) /\
  C03_EllN.oracles_ok OF 2 C03_EllN.ex_fn C03_EllN.ex_st0 [C03_EllN.ex_o1] /\
  C03_EllN.oracle_ok OF 2 C03_EllN.ex_fn C03_EllN.ex_st1 C03_EllN.ex_o2 /\
  map Qcanon.this (ex C03_EllN.ex_st1) = [3 # 5; 7 # 15] /\
  Qcanon.this (en_best _ C01Q_Defs.QcO (ebest C03_EllN.ex_st1) (ef C03_EllN.ex_o2)) = 121 # 225.
Proof.
  cbv zeta. split; [intros z _; apply C03_EllN.ex_min|].
  split; [right; vm_compute; reflexivity|].
  split; [split; [|exact I]; apply (C03_EllN.ex_oracle_ok C03_EllN.ex_st0);
          [vm_compute; reflexivity | apply Qcanon.Qc_is_canon; vm_compute; reflexivity]|].
  split; [apply (C03_EllN.ex_oracle_ok C03_EllN.ex_st1);
          [vm_compute; reflexivity | apply Qcanon.Qc_is_canon; vm_compute; reflexivity]|].
  split; vm_compute; reflexivity.
Qed.
