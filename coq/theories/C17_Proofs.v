(* C17 -- inductive invariants of the thread-pool protocol model, over every interleaving. *)
From Coq Require Import List Arith Bool Lia Permutation.
From LN Require Import C17_Defs.
Import ListNotations.

(* ---- tactics ------------------------------------------------------------------------------ *)
Ltac inv_step H :=
  unfold step, set_sub in H; cbv zeta in H;
  repeat match type of H with
  | (if ?c then _ else _) = Some _ => let E := fresh "E" in destruct c eqn:E; try discriminate H
  | match ?x with _ => _ end = Some _ => let E := fresh "E" in destruct x eqn:E; try discriminate H
  end;
  try (injection H as H; subst).

Ltac simp_fields :=
  cbn [nw ns throws queue stop workers subs ran inline finished dropped stg todo results
       r_tasks r_raise r_inline r_exn] in *.

Lemma upd_same {A} (f : nat -> A) i v : upd f i v i = v.
Proof. unfold upd. rewrite Nat.eqb_refl. reflexivity. Qed.

Lemma upd_other {A} (f : nat -> A) i j v : j <> i -> upd f i v j = f j.
Proof. intros H. unfold upd. destruct (Nat.eqb_spec j i); [contradiction|reflexivity]. Qed.

Ltac upd_cases j i :=
  destruct (Nat.eq_dec j i) as [?|?]; [subst; rewrite ?upd_same in * | rewrite ?upd_other in * by assumption].

Lemma ltb_guard s n : negb (s <? n) = false -> s < n.
Proof. intros H. apply negb_false_iff in H. apply Nat.ltb_lt. exact H. Qed.

(* ---- reachability -------------------------------------------------------------------------- *)
Definition reachable (n : nat) (thr : tid -> bool) (progs : list (list call)) (p : pool) : Prop :=
  exists es, run (init n thr progs) es = Some p.

Lemma run_app p es1 es2 : run p (es1 ++ es2) = match run p es1 with Some q => run q es2 | None => None end.
Proof.
  revert p. induction es1 as [|e r IH]; intros p; cbn [app run]; [reflexivity|].
  destruct (step p e); [apply IH|reflexivity].
Qed.

Lemma reachable_ind_step n thr progs (P : pool -> Prop) :
  P (init n thr progs) ->
  (forall p e q, reachable n thr progs p -> P p -> step p e = Some q -> P q) ->
  forall p, reachable n thr progs p -> P p.
Proof.
  intros H0 Hs p [es Hr]. revert p Hr.
  induction es as [|e es IH] using rev_ind; intros p Hr.
  - cbn in Hr. injection Hr as <-. exact H0.
  - rewrite run_app in Hr. destruct (run (init n thr progs) es) as [m|] eqn:Em; [|discriminate].
    cbn [run] in Hr. destruct (step m e) as [q|] eqn:Es; [|discriminate]. injection Hr as <-.
    apply (Hs m e q); [exists es; exact Em | apply IH; reflexivity | exact Es].
Qed.

Lemma reachable_step n thr progs p e q :
  reachable n thr progs p -> step p e = Some q -> reachable n thr progs q.
Proof.
  intros [es Hr] Hs. exists (es ++ [e]). rewrite run_app, Hr. cbn [run]. rewrite Hs. reflexivity.
Qed.

(* ---- A: constants ---------------------------------------------------------------------------- *)
Lemma step_const p e q : step p e = Some q -> nw q = nw p /\ ns q = ns p /\ throws q = throws p.
Proof. intros H. destruct e; inv_step H; simp_fields; auto. Qed.

(* ---- B: the stop discipline ------------------------------------------------------------------- *)
Definition quiet (x : sub) : Prop :=
  todo x = [] /\ (stg x = SReady \/ stg x = SNotifyStop \/ stg x = SJoin).

Record InvB (p : pool) : Prop := {
  b_nw    : 1 <= nw p;
  b_last  : forall s, destroy_last (todo (subs p s)) = true;
  b_run   : stop p = false -> dropped p = [] /\ forall w, workers p w <> WExited;
  b_stage : forall s, stg (subs p s) = SNotifyStop \/ stg (subs p s) = SJoin -> stop p = true;
  b_quiet : stop p = true -> forall s, s < ns p -> quiet (subs p s);
  b_sleep : stop p = true -> (exists w, w < nw p /\ workers p w = WSleeping) ->
            exists s, s < ns p /\ stg (subs p s) = SNotifyStop;
  b_exit  : (exists w, w < nw p /\ workers p w = WExited) -> queue p = [];
}.

Lemma destroy_last_tl c r : destroy_last (c :: r) = true -> destroy_last r = true.
Proof. destruct c, r; cbn; try congruence; auto. Qed.

Lemma destroy_last_destroy r : destroy_last (CDestroy :: r) = true -> r = [].
Proof. destruct r; cbn; congruence. Qed.

Lemma wake_all_not_sleeping f w : wake_all f w <> WSleeping.
Proof. unfold wake_all. destruct (f w); cbn; congruence. Qed.

Lemma wake_all_exited f w : wake_all f w = WExited <-> f w = WExited.
Proof. unfold wake_all. destruct (f w); cbn; split; congruence. Qed.

Lemma nth_destroy_last progs s : forallb destroy_last progs = true -> destroy_last (nth s progs []) = true.
Proof.
  intros H. destruct (nth_in_or_default s progs []) as [Hin|Hd].
  - rewrite forallb_forall in H. apply H. exact Hin.
  - rewrite Hd. reflexivity.
Qed.

Lemma wf_parts n progs : wf_config n progs = true ->
  1 <= n /\ nodupb (flat_map prog_tasks progs) = true /\ forallb destroy_last progs = true /\
  length (filter (fun pr => negb (no_destroy pr)) progs) <= 1.
Proof.
  unfold wf_config. rewrite !andb_true_iff, !Nat.leb_le. tauto.
Qed.

Lemma invB_init n thr progs : wf_config n progs = true -> InvB (init n thr progs).
Proof.
  intros Hwf. destruct (wf_parts n progs Hwf) as [Hn [_ [Hl _]]].
  constructor; unfold init; simp_fields.
  - exact Hn.
  - intros s. apply nth_destroy_last. exact Hl.
  - intros _. split; [reflexivity | congruence].
  - intros s [H|H]; discriminate H.
  - discriminate.
  - discriminate.
  - intros [w [_ H]]. discriminate H.
Qed.

Lemma others_done_spec p s : others_done p s = true ->
  forall s', s' < ns p -> s' <> s -> todo (subs p s') = [] /\ stg (subs p s') = SReady.
Proof.
  unfold others_done. rewrite forallb_forall. intros H s' Hlt Hne.
  specialize (H s' ltac:(apply in_seq; lia)). apply orb_true_iff in H. destruct H as [H|H].
  - apply Nat.eqb_eq in H. contradiction.
  - unfold sub_done in H. destruct (stg (subs p s')), (todo (subs p s')); try discriminate. auto.
Qed.

Lemma quiet_not_stage x : quiet x ->
  stg x <> SNotifyOne /\ (forall ts r, stg x <> SNotifyAll ts r) /\
  (forall a b r, stg x <> SGet a b r) /\ (forall a b r e, stg x <> SWait a b r e).
Proof. intros [_ [H|[H|H]]]; rewrite H; repeat split; congruence. Qed.

Lemma upd_forall {A} (R : A -> Prop) (f : nat -> A) i x : (forall j, R (f j)) -> R x -> forall j, R (upd f i x j).
Proof. intros Hf Hx j. upd_cases j i; auto. Qed.

(* while the pool is not stopping, most of InvB is vacuous *)
Lemma invB_running p q :
  InvB p -> stop p = false -> stop q = false -> nw q = nw p -> dropped q = dropped p ->
  (forall w, workers q w <> WExited) ->
  (forall s, destroy_last (todo (subs q s)) = true) ->
  (forall s, stg (subs q s) <> SNotifyStop /\ stg (subs q s) <> SJoin) ->
  InvB q.
Proof.
  intros I Hp Hq Hnw Hd Hw Hl Hst. destruct I as [Inw Ilast Irun Istage Iquiet Isleep Iexit].
  constructor.
  - rewrite Hnw. exact Inw.
  - exact Hl.
  - intros _. split; [rewrite Hd; exact (proj1 (Irun Hp)) | exact Hw].
  - intros s [H|H]; exfalso; [exact (proj1 (Hst s) H) | exact (proj2 (Hst s) H)].
  - congruence.
  - congruence.
  - intros [w [_ Hx]]. exfalso. exact (Hw w Hx).
Qed.

Lemma invB_no_stop_stage p : InvB p -> stop p = false ->
  forall s, stg (subs p s) <> SNotifyStop /\ stg (subs p s) <> SJoin.
Proof.
  intros I Hp s. split; intros H; pose proof (b_stage p I s) as Hs; rewrite Hp in Hs;
    [specialize (Hs (or_introl H)) | specialize (Hs (or_intror H))]; discriminate.
Qed.

Lemma not_quiet_running p s : InvB p -> s < ns p -> ~ quiet (subs p s) -> stop p = false.
Proof.
  intros I Hs Hq. destruct (stop p) eqn:E; [|reflexivity]. exfalso. apply Hq. exact (b_quiet p I E s Hs).
Qed.

Ltac not_quiet :=
  let Q := fresh "Q" in
  intros Q; destruct Q as [? [Q|[Q|Q]]]; congruence.

Ltac solve_workers Hw :=
  solve [ exact Hw
        | let w' := fresh "w" in let Hx := fresh "Hx" in
          intros w' Hx; apply (proj1 (wake_all_exited _ _)) in Hx; exact (Hw w' Hx)
        | let w' := fresh "w" in
          intros w'; match goal with |- upd _ ?w0 _ _ <> _ => upd_cases w' w0; [congruence | apply Hw] end ].

Ltac solve_last p I :=
  solve [ apply (upd_forall (fun x => destroy_last (todo x) = true)); [exact (b_last p I) | simp_fields;
          first [ exact (b_last p I _)
                | match goal with E : todo (subs p ?s) = _ :: ?l |- destroy_last ?l = true =>
                    let Hl := fresh "Hl" in
                    pose proof (b_last p I s) as Hl; rewrite E in Hl; exact (destroy_last_tl _ _ Hl) end ] ] ].

Ltac solve_nostop Hns :=
  solve [ apply (upd_forall (fun x => stg x <> SNotifyStop /\ stg x <> SJoin)); [exact Hns | simp_fields; split; congruence] ].

Ltac running_case p I :=
  let Hrun := fresh "Hrun" in
  assert (Hrun : stop p = false)
    by (first [assumption | eapply not_quiet_running; [exact I | eassumption | not_quiet]]);
  let Hns := fresh "Hns" in pose proof (invB_no_stop_stage p I Hrun) as Hns;
  let Hd := fresh "Hd" in let Hw := fresh "Hw" in pose proof (b_run p I Hrun) as [Hd Hw];
  eapply invB_running; [exact I | exact Hrun | simp_fields; try exact Hrun; reflexivity | reflexivity
                       | simp_fields; reflexivity | simp_fields | simp_fields | simp_fields ];
  first [solve_workers Hw | solve_last p I | solve_nostop Hns | exact (b_last p I) | exact Hns].

Lemma invB_step p e q : InvB p -> step p e = Some q -> InvB q.
Proof.
  intros I H.
  destruct e; inv_step H; simp_fields;
    try match goal with E : negb (?s <? _) = false |- _ => apply ltb_guard in E end.
  all: try solve [running_case p I].
  all: destruct I as [Inw Ilast Irun Istage Iquiet Isleep Iexit].
  - (* ECheck: stop seen, the worker clears the queue, wakes everybody and exits *)
    constructor; simp_fields.
    + exact Inw.
    + exact Ilast.
    + discriminate.
    + reflexivity.
    + intros _. apply Iquiet. assumption.
    + intros _ [w' [_ Hw']]. exfalso. upd_cases w' w; [discriminate | exact (wake_all_not_sleeping _ _ Hw')].
    + reflexivity.
  - (* EFinish *)
    constructor; simp_fields.
    + exact Inw.
    + exact Ilast.
    + intros Hs. destruct (Irun Hs) as [Hd Hw]. split; [exact Hd|]. intros w'. upd_cases w' w; [congruence | apply Hw].
    + exact Istage.
    + exact Iquiet.
    + intros Hs [w' [Hlt Hw']]. apply (Isleep Hs). exists w'. upd_cases w' w; [discriminate | auto].
    + intros [w' [Hlt Hw']]. apply Iexit. exists w'. upd_cases w' w; [discriminate | auto].
  - (* ESpurious *)
    constructor; simp_fields.
    + exact Inw.
    + exact Ilast.
    + intros Hs. destruct (Irun Hs) as [Hd Hw]. split; [exact Hd|]. intros w'. upd_cases w' w; [congruence | apply Hw].
    + exact Istage.
    + exact Iquiet.
    + intros Hs [w' [Hlt Hw']]. apply (Isleep Hs). exists w'. upd_cases w' w; [discriminate | auto].
    + intros [w' [Hlt Hw']]. apply Iexit. exists w'. upd_cases w' w; [discriminate | auto].
  - (* EStop *)
    match goal with E : others_done p s && negb (stop p) = true |- _ =>
      apply andb_true_iff in E; destruct E as [Hod Hns]; apply negb_true_iff in Hns end.
    constructor; simp_fields.
    + exact Inw.
    + apply (upd_forall (fun x => destroy_last (todo x) = true)); [exact Ilast|]. simp_fields.
      match goal with E : todo (subs p s) = CDestroy :: ?l |- _ =>
        pose proof (Ilast s) as Hl; rewrite E in Hl; apply destroy_last_destroy in Hl; subst l end. reflexivity.
    + discriminate.
    + reflexivity.
    + intros _ s' Hs'. upd_cases s' s.
      * split; simp_fields; [|right; left; reflexivity].
        match goal with E : todo (subs p s) = CDestroy :: ?l |- _ =>
          pose proof (Ilast s) as Hl; rewrite E in Hl; apply destroy_last_destroy in Hl; exact Hl end.
      * destruct (others_done_spec p s Hod s' Hs' ltac:(assumption)) as [Ht Hg]. split; [exact Ht | left; exact Hg].
    + intros _ _. exists s. split; [assumption|]. rewrite upd_same. reflexivity.
    + intros [w [Hlt Hw]]. exfalso. exact (proj2 (Irun Hns) w Hw).
  - (* ENotifyStop *)
    assert (Hst : stop p = true) by (apply (Istage s); left; assumption).
    constructor; simp_fields.
    + exact Inw.
    + apply (upd_forall (fun x => destroy_last (todo x) = true)); [exact Ilast | simp_fields; apply Ilast].
    + congruence.
    + intros _ _. exact Hst.
    + intros _ s' Hs'. upd_cases s' s.
      * split; simp_fields; [exact (proj1 (Iquiet Hst s Hs')) | right; right; reflexivity].
      * apply Iquiet; assumption.
    + intros _ [w [_ Hw]]. exfalso. exact (wake_all_not_sleeping _ _ Hw).
    + intros [w [Hlt Hw]]. apply Iexit. exists w. split; [exact Hlt | apply (proj1 (wake_all_exited _ _)); exact Hw].
  - (* EJoin *)
    assert (Hst : stop p = true) by (apply (Istage s); right; assumption).
    constructor; simp_fields.
    + exact Inw.
    + apply (upd_forall (fun x => destroy_last (todo x) = true)); [exact Ilast | simp_fields; apply Ilast].
    + congruence.
    + intros _ _. exact Hst.
    + intros _ s' Hs'. upd_cases s' s.
      * split; simp_fields; [exact (proj1 (Iquiet Hst s Hs')) | left; reflexivity].
      * apply Iquiet; assumption.
    + intros _ Hsl. destruct (Isleep Hst Hsl) as [s' [Hs' Hg]]. exists s'. split; [exact Hs'|].
      upd_cases s' s; [congruence | exact Hg].
    + exact Iexit.
Qed.

(* ---- C: no lost wake-up ---------------------------------------------------------------------- *)
Definition notify_pending (st : stage) : Prop :=
  st = SNotifyOne \/ (exists ts r, st = SNotifyAll ts r) \/ st = SNotifyStop.
Definition awake (x : wstate) : Prop := x = WIdle \/ exists t, x = WRunning t.

(* if there is work (or a stop request that still has to reach a sleeper), somebody will look at the queue
   again before everybody sleeps: an awake worker re-evaluates the predicate before it can sleep, or a
   notification is still pending in some submitting thread *)
Definition InvW (p : pool) : Prop :=
  queue p <> [] ->
  (exists w, w < nw p /\ awake (workers p w)) \/
  (exists s, s < ns p /\ notify_pending (stg (subs p s))).

Lemma any_sleeping_false p : any_sleeping p = false -> forall w, w < nw p -> workers p w <> WSleeping.
Proof.
  unfold any_sleeping. intros H w Hw Hs.
  assert (existsb (fun w => is_sleeping (workers p w)) (seq 0 (nw p)) = true).
  { apply existsb_exists. exists w. split; [apply in_seq; lia | rewrite Hs; reflexivity]. }
  congruence.
Qed.

Lemma all_exited_true p : all_exited p = true -> forall w, w < nw p -> workers p w = WExited.
Proof.
  unfold all_exited. rewrite forallb_forall. intros H w Hw.
  specialize (H w ltac:(apply in_seq; lia)). destruct (workers p w); cbn in H; congruence.
Qed.

Lemma wstate_cases x : awake x \/ x = WSleeping \/ x = WExited.
Proof. destruct x; unfold awake; eauto. Qed.

Lemma wake_all_awake f w : f w <> WExited -> awake (wake_all f w).
Proof. unfold wake_all, awake. destruct (f w); cbn; eauto. congruence. Qed.

Lemma invW_init n thr progs : InvW (init n thr progs).
Proof. unfold InvW, init; simp_fields. congruence. Qed.

Ltac keep_witness p s Hq IW :=
  let w := fresh "w" in let Hw := fresh "Hw" in let s' := fresh "s'" in let Hs' := fresh "Hs'" in let Hp := fresh "Hp" in
  destruct (IW Hq) as [[w [Hw ?]]|[s' [Hs' Hp]]];
  [left; exists w; auto
  |right; exists s'; split; [exact Hs'|]; upd_cases s' s;
     [exfalso; destruct Hp as [Hp|[[? [? Hp]]|Hp]]; congruence | exact Hp]].

Lemma invW_step p e q : InvB p -> InvW p -> step p e = Some q -> InvW q.
Proof.
  intros I IW H. pose proof (b_nw p I) as Hnw.
  destruct e; inv_step H; unfold InvW; simp_fields; intros Hq;
    try match goal with E : negb (?s <? _) = false |- _ => apply ltb_guard in E end.
  - (* enqueue: notify_one pending *)
    right. exists s. split; [assumption|]. rewrite upd_same. left. reflexivity.
  - (* inline map *) keep_witness p s Hq IW.
  - (* pool map: notify_all pending *)
    right. exists s. split; [assumption|]. rewrite upd_same. simp_fields. right. left. do 2 eexists; reflexivity.
  - (* notify_one wakes w *)
    match goal with E : (?w0 <? nw p) && _ = true |- _ =>
      apply andb_true_iff in E; destruct E as [E _]; apply Nat.ltb_lt in E;
      left; exists w0; split; [exact E|]; rewrite upd_same; left; reflexivity end.
  - (* notify_one, nobody sleeps: every worker is awake *)
    assert (Hrun : stop p = false) by (eapply not_quiet_running; [exact I | eassumption | not_quiet]).
    left. exists 0. split; [lia|].
    destruct (wstate_cases (workers p 0)) as [Ha|[Hs|Hx]]; [exact Ha | exfalso | exfalso].
    + eapply any_sleeping_false; [eassumption | | exact Hs]. lia.
    + exact (proj2 (b_run p I Hrun) 0 Hx).
  - (* notify_all *)
    assert (Hrun : stop p = false) by (eapply not_quiet_running; [exact I | eassumption | not_quiet]).
    left. exists 0. split; [lia|]. apply wake_all_awake. exact (proj2 (b_run p I Hrun) 0).
  - keep_witness p s Hq IW.
  - keep_witness p s Hq IW.
  - keep_witness p s Hq IW.
  - keep_witness p s Hq IW.
  - keep_witness p s Hq IW.
  - (* exit *) congruence.
  - (* sleep *) congruence.
  - (* pop *) left. exists w. split; [assumption|]. rewrite upd_same. right. eauto.
  - (* finish *) left. exists w. split; [assumption|]. rewrite upd_same. left. reflexivity.
  - (* spurious *) left. exists w. split; [assumption|]. rewrite upd_same. left. reflexivity.
  - (* stop *) right. exists s. split; [assumption|]. rewrite upd_same. right. right. reflexivity.
  - (* notify_all of the destructor *)
    left. exists 0. split; [lia|]. apply wake_all_awake. intros Hx.
    apply Hq. apply (b_exit p I). exists 0. split; [lia | exact Hx].
  - (* join: all workers exited, so the queue is empty *)
    exfalso. apply Hq. apply (b_exit p I). exists 0. split; [lia|]. apply all_exited_true; [assumption | lia].
Qed.

(* ---- D: every task is in exactly one place ------------------------------------------------------ *)
Definition cnt (l : list tid) (t : tid) : nat := count_occ Nat.eq_dec l t.

Lemma cnt_app a b t : cnt (a ++ b) t = cnt a t + cnt b t.
Proof. apply count_occ_app. Qed.

Lemma cnt_nil t : cnt [] t = 0.
Proof. reflexivity. Qed.

Lemma cnt_in l t : In t l <-> 1 <= cnt l t.
Proof. unfold cnt. rewrite (count_occ_In Nat.eq_dec). lia. Qed.

Lemma cnt_cons x l t : cnt (x :: l) t = (if Nat.eq_dec x t then 1 else 0) + cnt l t.
Proof. unfold cnt. cbn. destruct (Nat.eq_dec x t); lia. Qed.

Lemma nodup_cnt l : NoDup l <-> forall t, cnt l t <= 1.
Proof. apply NoDup_count_occ. Qed.

Definition pend (f : sid -> sub) (n : nat) : list tid :=
  flat_map (fun s => prog_tasks (todo (f s))) (seq 0 n).

Definition alltasks (p : pool) : list tid :=
  pend (subs p) (ns p) ++ queue p ++ map fst (ran p) ++ map fst (inline p) ++ dropped p.

Lemma pend_S f n : pend f (S n) = pend f n ++ prog_tasks (todo (f n)).
Proof. unfold pend. rewrite seq_S, flat_map_app. cbn. rewrite app_nil_r. reflexivity. Qed.

Lemma pend_ext f g n : (forall s, s < n -> todo (f s) = todo (g s)) -> pend f n = pend g n.
Proof.
  induction n as [|n IH]; intros H; [reflexivity|].
  rewrite !pend_S, IH, H by (intros; auto). reflexivity.
Qed.

Lemma pend_same f s x n : todo x = todo (f s) -> pend (upd f s x) n = pend f n.
Proof. intros H. apply pend_ext. intros s' _. upd_cases s' s; auto. Qed.

Lemma pend_take f s x n c rest t :
  s < n -> todo (f s) = c :: rest -> todo x = rest ->
  cnt (pend f n) t = cnt (call_tasks c) t + cnt (pend (upd f s x) n) t.
Proof.
  intros Hs Hc Hx. induction n as [|n IH]; [lia|].
  rewrite !pend_S, !cnt_app. destruct (Nat.eq_dec s n) as [->|Hne].
  - rewrite upd_same, Hc, Hx. cbn [prog_tasks flat_map]. rewrite cnt_app.
    rewrite (pend_ext (upd f n x) f n) by (intros s' Hs'; rewrite upd_other by lia; reflexivity). unfold prog_tasks. lia.
  - rewrite (upd_other f s n x) by lia. rewrite IH by lia. lia.
Qed.

Lemma cnt_map_fst_two (l : list (tid * wid)) t w w' :
  In (t, w) l -> In (t, w') l -> w <> w' -> 2 <= cnt (map fst l) t.
Proof.
  induction l as [|[t0 w0] l IH]; intros H1 H2 Hne; [contradiction|].
  cbn [map fst]. rewrite cnt_cons. destruct H1 as [H1|H1], H2 as [H2|H2].
  - congruence.
  - injection H1 as -> ->. destruct (Nat.eq_dec t t); [|congruence].
    assert (In t (map fst l)) by (apply in_map_iff; exists (t, w'); auto). apply cnt_in in H. lia.
  - injection H2 as -> ->. destruct (Nat.eq_dec t t); [|congruence].
    assert (In t (map fst l)) by (apply in_map_iff; exists (t, w); auto). apply cnt_in in H. lia.
  - specialize (IH H1 H2 Hne). destruct (Nat.eq_dec t0 t); lia.
Qed.

Lemma in_map_fst (l : list (tid * wid)) t w : In (t, w) l -> In t (map fst l).
Proof. intros H. apply in_map_iff. exists (t, w). auto. Qed.

Record InvT (p : pool) : Prop := {
  t_cnt : forall t, cnt (alltasks p) t <= 1;
  t_ran : forall t w, In (t, w) (ran p) -> w < nw p /\ (In t (finished p) \/ workers p w = WRunning t);
  t_run : forall w t, workers p w = WRunning t -> In (t, w) (ran p) /\ ~ In t (finished p);
  t_fin : forall t, In t (finished p) -> In t (map fst (ran p)) \/ In t (map fst (inline p));
}.

Lemma nodupb_spec l : nodupb l = true -> NoDup l.
Proof.
  induction l as [|x l IH]; cbn; intros H; [constructor|].
  apply andb_true_iff in H. destruct H as [H1 H2]. constructor; [|apply IH; exact H2].
  intros Hin. apply negb_true_iff in H1. unfold mem in H1.
  assert (existsb (Nat.eqb x) l = true) by (apply existsb_exists; exists x; split; [exact Hin | apply Nat.eqb_refl]).
  congruence.
Qed.

Lemma pend_init progs n : n <= length progs ->
  pend (fun s => {| stg := SReady; todo := nth s progs []; results := [] |}) n = flat_map prog_tasks (firstn n progs).
Proof.
  induction n as [|n IH]; intros Hn; [reflexivity|].
  rewrite pend_S, IH by lia. simp_fields.
  assert (Hf : firstn (S n) progs = firstn n progs ++ [nth n progs []]).
  { clear IH. revert n Hn. induction progs as [|a progs IHp]; intros n Hn; cbn [length] in Hn; [lia|].
    destruct n as [|n]; [reflexivity|]. cbn [firstn nth app]. f_equal. apply IHp. lia. }
  rewrite Hf, flat_map_app. cbn. rewrite app_nil_r. reflexivity.
Qed.

Lemma invT_init n thr progs : wf_config n progs = true -> InvT (init n thr progs).
Proof.
  intros Hwf. destruct (wf_parts n progs Hwf) as [_ [Hnd _]].
  constructor; unfold init; simp_fields; try contradiction; try discriminate.
  unfold alltasks; simp_fields. rewrite pend_init, firstn_all by lia. rewrite app_nil_r.
  apply nodup_cnt. apply nodupb_spec. exact Hnd.
Qed.

Definition same_running (p q : pool) : Prop :=
  forall w t, workers q w = WRunning t <-> workers p w = WRunning t.

Lemma invT_same p q :
  InvT p -> same_running p q -> nw q = nw p -> ran q = ran p -> inline q = inline p -> finished q = finished p ->
  (forall t, cnt (alltasks q) t <= cnt (alltasks p) t) -> InvT q.
Proof.
  intros [Ic Ir Iu If] Hs Hn Hr Hi Hf Hc. constructor.
  - intros t. specialize (Hc t). specialize (Ic t). lia.
  - intros t w Hin. rewrite Hr in Hin. rewrite Hn, Hf. destruct (Ir t w Hin) as [H1 H2]. split; [exact H1|].
    destruct H2 as [H2|H2]; [left; exact H2 | right; apply Hs; exact H2].
  - intros w t Hw. rewrite Hr, Hf. apply Iu. apply Hs. exact Hw.
  - intros t. rewrite Hr, Hi, Hf. apply If.
Qed.

Lemma wake_all_running f w t : wake_all f w = WRunning t <-> f w = WRunning t.
Proof. unfold wake_all. destruct (f w); cbn; split; congruence. Qed.

Lemma inline_prefix_split thr ts : exists rest, ts = inline_prefix thr ts ++ rest.
Proof.
  induction ts as [|t r [rest IH]]; [exists []; reflexivity|]. cbn.
  destruct (thr t); [exists r; reflexivity | exists rest; cbn; f_equal; exact IH].
Qed.

Lemma cnt_inline_prefix_le thr ts t : cnt (inline_prefix thr ts) t <= cnt ts t.
Proof.
  induction ts as [|x r IH]; [cbn; lia|]. cbn [inline_prefix].
  destruct (thr x); rewrite !cnt_cons; [rewrite cnt_nil|]; lia.
Qed.

Lemma map_fst_pair {B} (l : list tid) (b : B) : map fst (map (fun t => (t, b)) l) = l.
Proof. induction l as [|x l IH]; cbn; [reflexivity | f_equal; exact IH]. Qed.

Ltac cnt_simp := unfold alltasks; simp_fields; rewrite ?map_app, ?cnt_app, ?cnt_nil, ?map_fst_pair; cbn [map fst].

Lemma is_sleeping_true x : is_sleeping x = true -> x = WSleeping.
Proof. destruct x; cbn; congruence. Qed.

Ltac same_run_tac p :=
  let w' := fresh "w'" in let t' := fresh "t'" in
  intros w' t'; simp_fields;
  try match goal with E : (_ <? _) && is_sleeping _ = true |- _ =>
        apply andb_true_iff in E; destruct E as [? E]; apply is_sleeping_true in E end;
  first [ reflexivity
        | apply wake_all_running
        | match goal with |- upd _ ?w0 _ _ = _ <-> _ =>
            upd_cases w' w0; [split; intros; congruence | first [reflexivity | apply wake_all_running]] end ].

Lemma invT_step p e q : InvB p -> InvT p -> step p e = Some q -> InvT q.
Proof.
  intros I IT H.
  destruct e; inv_step H; simp_fields;
    try match goal with E : negb (?s <? _) = false |- _ => apply ltb_guard in E end.
  (* all steps that neither pop, finish nor run inline: the running set and the histories are unchanged *)
  1, 3-13, 16-19:
    (apply (invT_same p); [exact IT | same_run_tac p | reflexivity | reflexivity | reflexivity | reflexivity | ];
     intros t0; cnt_simp;
     try (rewrite pend_same by reflexivity); try lia).
  - (* enqueue *)
    match goal with E : todo (subs p s) = CEnqueue ?t :: ?l |- _ =>
      rewrite (pend_take (subs p) s {| stg := SNotifyOne; todo := l; results := results (subs p s) |} (ns p) _ l t0 ltac:(assumption) E eq_refl) end.
    cbn [call_tasks]. lia.
  - (* pool map *)
    match goal with E : todo (subs p s) = CMap ?ts ?r :: ?l |- _ =>
      rewrite (pend_take (subs p) s {| stg := SNotifyAll ts r; todo := l; results := results (subs p s) |} (ns p) _ l t0 ltac:(assumption) E eq_refl) end.
    cbn [call_tasks]. lia.
  - (* ~pool_t: no task involved *)
    match goal with E : todo (subs p s) = CDestroy :: ?l |- _ =>
      rewrite (pend_take (subs p) s {| stg := SNotifyStop; todo := l; results := results (subs p s) |} (ns p) _ l t0 ltac:(assumption) E eq_refl) end.
    cbn [call_tasks]. rewrite cnt_nil. lia.
  - (* inline map *)
    destruct IT as [Ic Ir Iu If].
    assert (Hs : s < ns p) by assumption.
    match goal with E : todo (subs p s) = CMap ?ts ?r :: ?l |- _ =>
      pose proof (fun t0 => pend_take (subs p) s {| stg := SReady; todo := l;
         results := results (subs p s) ++ [{| r_tasks := ts; r_raise := r; r_inline := true; r_exn := find (throws p) ts |}] |}
         (ns p) _ l t0 Hs E eq_refl) as Hpt; cbn [call_tasks] in Hpt;
      destruct (inline_prefix_split (throws p) ts) as [rest Hsplit] end.
    constructor; simp_fields.
    + intros t0. specialize (Ic t0). unfold alltasks in Ic. rewrite !cnt_app, Hpt in Ic.
      cnt_simp. pose proof (cnt_inline_prefix_le (throws p) ts t0). lia.
    + intros t0 w Hin. destruct (Ir t0 w Hin) as [H1 H2]. split; [exact H1|].
      destruct H2; [left; apply in_or_app; auto | right; assumption].
    + intros w t0 Hw. destruct (Iu w t0 Hw) as [H1 H2]. split; [exact H1|]. intros Hin.
      apply in_app_or in Hin. destruct Hin as [Hin|Hin]; [contradiction|].
      (* t0 would be both pending and popped *)
      specialize (Ic t0). unfold alltasks in Ic. rewrite !cnt_app, Hpt in Ic.
      assert (1 <= cnt (inline_prefix (throws p) ts) t0) by (apply cnt_in; exact Hin).
      assert (1 <= cnt (map fst (ran p)) t0) by (apply cnt_in; eapply in_map_fst; exact H1).
      pose proof (cnt_inline_prefix_le (throws p) ts t0). lia.
    + intros t0 Hin. apply in_app_or in Hin. destruct Hin as [Hin|Hin].
      * destruct (If t0 Hin); [left; assumption | right; rewrite map_app; apply in_or_app; auto].
      * right. rewrite map_app, map_fst_pair. apply in_or_app. auto.
  - (* pop *)
    destruct IT as [Ic Ir Iu If].
    constructor; simp_fields.
    + intros t0. specialize (Ic t0). unfold alltasks in Ic.
      match goal with E : queue p = _ |- _ => rewrite E in Ic end.
      rewrite !cnt_app, cnt_cons in Ic. cnt_simp. rewrite cnt_cons, cnt_nil. lia.
    + intros t0 w0 Hin. apply in_app_or in Hin. destruct Hin as [Hin|Hin].
      * destruct (Ir t0 w0 Hin) as [H1 H2]. split; [exact H1|]. upd_cases w0 w.
        -- destruct H2 as [H2|H2]; [left; exact H2 | congruence].
        -- exact H2.
      * destruct Hin as [Hin|[]]. injection Hin as <- <-. split; [assumption|]. right. apply upd_same.
    + intros w0 t0 Hw. upd_cases w0 w.
      * injection Hw as <-. split; [apply in_or_app; right; left; reflexivity|]. intros Hin.
        specialize (Ic t). unfold alltasks in Ic.
        match goal with E : queue p = _ |- _ => rewrite E in Ic end.
        rewrite !cnt_app, cnt_cons in Ic. destruct (Nat.eq_dec t t); [|congruence].
        destruct (If t Hin) as [Hx|Hx]; apply cnt_in in Hx; lia.
      * destruct (Iu w0 t0 Hw) as [H1 H2]. split; [apply in_or_app; auto | exact H2].
    + intros t0 Hin. destruct (If t0 Hin); [left; rewrite map_app; apply in_or_app; auto | right; assumption].
  - (* finish *)
    destruct IT as [Ic Ir Iu If].
    match goal with E : workers p w = WRunning ?t |- _ => rename t into tt; pose proof (Iu w tt E) as [Hran Hnf] end.
    constructor; simp_fields.
    + intros t0. specialize (Ic t0). unfold alltasks in *. simp_fields. exact Ic.
    + intros t0 w0 Hin. destruct (Ir t0 w0 Hin) as [H1 H2]. split; [exact H1|]. upd_cases w0 w.
      * left. apply in_or_app. destruct H2 as [H2|H2]; [auto|]. right. left. congruence.
      * destruct H2; [left; apply in_or_app; auto | right; assumption].
    + intros w0 t0 Hw. upd_cases w0 w; [discriminate|].
      destruct (Iu w0 t0 Hw) as [H1 H2]. split; [exact H1|]. intros Hin.
      apply in_app_or in Hin. destruct Hin as [Hin|[Hin|[]]]; [contradiction|]. subst t0.
      pose proof (cnt_map_fst_two (ran p) tt w w0 Hran H1 ltac:(auto)) as H2c.
      specialize (Ic tt). unfold alltasks in Ic. rewrite !cnt_app in Ic. lia.
    + intros t0 Hin. apply in_app_or in Hin. destruct Hin as [Hin|[Hin|[]]]; [apply If; exact Hin|].
      subst t0. left. eapply in_map_fst. exact Hran.
Qed.

(* ---- E: what the stages of a submitting thread know ----------------------------------------- *)
Definition pushed (p : pool) (t : tid) : Prop :=
  In t (queue p) \/ In t (map fst (ran p)) \/ In t (dropped p).

Lemma mem_spec t l : mem t l = true <-> In t l.
Proof.
  unfold mem. rewrite existsb_exists. split.
  - intros [x [Hin He]]. apply Nat.eqb_eq in He. subst. exact Hin.
  - intros H. exists t. split; [exact H | apply Nat.eqb_refl].
Qed.

Definition stage_ok (p : pool) (x : sub) : Prop :=
  match stg x with
  | SNotifyAll ts _ => Forall (pushed p) ts
  | SGet rem all raise =>
      Forall (pushed p) all /\
      exists pre, all = pre ++ rem /\ Forall (fun t => In t (finished p)) pre /\
                  (raise = true -> Forall (fun t => throws p t = false) pre)
  | SWait rem all raise exn =>
      Forall (pushed p) all /\
      (exists pre, all = pre ++ rem /\ Forall (fun t => In t (finished p)) pre) /\
      exn = (if raise then find (throws p) all else None)
  | _ => True
  end.

Definition res_ok (p : pool) (r : mapres) : Prop :=
  if r_inline r
  then r_exn r = find (throws p) (r_tasks r) /\
       (r_exn r = None -> Forall (fun t => In t (finished p)) (r_tasks r))
  else Forall (fun t => In t (finished p)) (r_tasks r) /\
       r_exn r = (if r_raise r then find (throws p) (r_tasks r) else None).

Definition InvS (p : pool) : Prop :=
  forall s, s < ns p -> stage_ok p (subs p s) /\ Forall (res_ok p) (results (subs p s)).

Lemma invS_init n thr progs : InvS (init n thr progs).
Proof. intros s _. unfold init, stage_ok; simp_fields. split; [exact I | constructor]. Qed.

Ltac solve_in :=
  solve [ assumption | reflexivity
        | apply in_or_app; left; solve_in | apply in_or_app; right; solve_in
        | left; solve_in | right; solve_in ].

Lemma pushed_mono p e q t : step p e = Some q -> pushed p t -> pushed q t.
Proof.
  intros H Hp. unfold pushed in *.
  destruct e; inv_step H; simp_fields; rewrite ?map_app; try exact Hp;
    try (destruct Hp as [Hp|[Hp|Hp]]; solve_in).
  destruct Hp as [[Hp|Hp]|[Hp|Hp]]; [subst; cbn [map fst]|..]; solve_in.
Qed.

Lemma finished_mono p e q t : step p e = Some q -> In t (finished p) -> In t (finished q).
Proof.
  intros H Hp. destruct e; inv_step H; simp_fields; try exact Hp; solve_in.
Qed.

Lemma step_mono p e q : step p e = Some q ->
  (forall t, pushed p t -> pushed q t) /\ (forall t, In t (finished p) -> In t (finished q)).
Proof. intros H. split; intros t; [apply (pushed_mono p e q t H) | apply (finished_mono p e q t H)]. Qed.

Lemma Forall_mono {A} (P Q : A -> Prop) l : (forall x, P x -> Q x) -> Forall P l -> Forall Q l.
Proof. intros H F. induction F; constructor; auto. Qed.

Lemma stage_ok_mono p q x :
  (forall t, pushed p t -> pushed q t) -> (forall t, In t (finished p) -> In t (finished q)) ->
  throws q = throws p -> stage_ok p x -> stage_ok q x.
Proof.
  intros Hp Hf Ht. unfold stage_ok. rewrite Ht. destruct (stg x); auto.
  - apply Forall_mono. exact Hp.
  - intros [H1 [pre [H2 [H3 H4]]]]. split; [eapply Forall_mono; [exact Hp | exact H1]|].
    exists pre. split; [exact H2|]. split; [eapply Forall_mono; [exact Hf | exact H3] | exact H4].
  - intros [H1 [[pre [H2 H3]] H4]]. split; [eapply Forall_mono; [exact Hp | exact H1]|].
    split; [|exact H4]. exists pre. split; [exact H2 | eapply Forall_mono; [exact Hf | exact H3]].
Qed.

Lemma res_ok_mono p q r :
  (forall t, In t (finished p) -> In t (finished q)) -> throws q = throws p -> res_ok p r -> res_ok q r.
Proof.
  intros Hf Ht. unfold res_ok. rewrite Ht. destruct (r_inline r).
  - intros [H1 H2]. split; [exact H1|]. intros Hn. eapply Forall_mono; [exact Hf | exact (H2 Hn)].
  - intros [H1 H2]. split; [eapply Forall_mono; [exact Hf | exact H1] | exact H2].
Qed.

Lemma find_none_forall {A} (f : A -> bool) l : Forall (fun t => f t = false) l -> find f l = None.
Proof. induction 1 as [|x l Hx _ IH]; cbn; [reflexivity|]. rewrite Hx. exact IH. Qed.

Lemma find_app_first {A} (f : A -> bool) pre t rem :
  Forall (fun x => f x = false) pre -> f t = true -> find f (pre ++ t :: rem) = Some t.
Proof. induction 1 as [|x l Hx _ IH]; intros Ht; cbn; [rewrite Ht; reflexivity|]. rewrite Hx. exact (IH Ht). Qed.

Lemma inline_prefix_all thr ts : find thr ts = None -> inline_prefix thr ts = ts.
Proof.
  induction ts as [|t r IH]; cbn; [reflexivity|]. destruct (thr t); [discriminate|].
  intros H. f_equal. exact (IH H).
Qed.

Lemma complete_running p t : InvB p -> stop p = false -> complete p t = true -> In t (finished p).
Proof.
  intros I Hs Hc. unfold complete in Hc. rewrite (proj1 (b_run p I Hs)) in Hc. cbn in Hc.
  rewrite orb_false_r in Hc. apply mem_spec. exact Hc.
Qed.

Lemma fails_running p t : InvB p -> stop p = false -> fails p t = throws p t.
Proof. intros I Hs. unfold fails. rewrite (proj1 (b_run p I Hs)). cbn. apply orb_false_r. Qed.

Ltac inv_step_q H :=
  unfold step, set_sub in H; cbv zeta in H;
  repeat match type of H with
  | (if ?c then _ else _) = Some _ => let E := fresh "E" in destruct c eqn:E; try discriminate H
  | match ?x with _ => _ end = Some _ => let E := fresh "E" in destruct x eqn:E; try discriminate H
  end;
  try (injection H as H).

Ltac moving_sub q s H :=
  match type of H with ?R = q =>
    let Hsq := fresh "Hsq" in
    assert (Hsq : subs q s = subs R s) by (rewrite <- H; reflexivity);
    simp_fields; rewrite upd_same in Hsq; rewrite Hsq; clear Hsq end.

Lemma invS_step p e q : InvB p -> InvS p -> step p e = Some q -> InvS q.
Proof.
  intros IB IS H. pose proof (step_mono p e q H) as [Hmp Hmf]. pose proof (step_const p e q H) as [_ [Hns Hthr]].
  (* a thread that does not move keeps what it knows *)
  assert (Hkeep : forall s', s' < ns p -> subs q s' = subs p s' ->
                  stage_ok q (subs q s') /\ Forall (res_ok q) (results (subs q s'))).
  { intros s' Hs' He. rewrite He. destruct (IS s' Hs') as [H1 H2]. split.
    - eapply stage_ok_mono; eauto.
    - eapply Forall_mono; [|exact H2]. intros r. apply res_ok_mono; auto. }
  assert (Hres : forall s', s' < ns p -> Forall (res_ok q) (results (subs p s'))).
  { intros s' Hs'. eapply Forall_mono; [|exact (proj2 (IS s' Hs'))]. intros r. apply res_ok_mono; auto. }
  intros s' Hs'. rewrite Hns in Hs'.
  destruct e; inv_step_q H;
    try match goal with E : negb (?s <? _) = false |- _ => apply ltb_guard in E end.
  (* worker steps: no submitting thread moves *)
  12-16: (apply Hkeep; [exact Hs' | rewrite <- H; reflexivity]).
  (* submitter steps: the others keep, the moving one is examined *)
  all: destruct (Nat.eq_dec s' s) as [->|Hne];
       [|apply Hkeep; [exact Hs' | rewrite <- H; simp_fields; apply upd_other; exact Hne]].
  all: moving_sub q s H.
  all: unfold stage_ok at 1; simp_fields.
  all: try (split; [exact I | exact (Hres s Hs')]).
  - (* inline map returns *)
    split; [exact I|]. apply Forall_app. split; [exact (Hres s Hs')|]. constructor; [|constructor].
    unfold res_ok; simp_fields. rewrite Hthr. split; [reflexivity|]. intros Hn.
    rewrite <- H; simp_fields. rewrite inline_prefix_all by exact Hn.
    apply Forall_forall. intros t0 Ht0. apply in_or_app. right. exact Ht0.
  - (* pool map: all tasks pushed under one lock *)
    split; [|exact (Hres s Hs')]. rewrite <- H. unfold pushed; simp_fields.
    apply Forall_forall. intros t0 Ht0. left. apply in_or_app. right. exact Ht0.
  - (* notify_all: start visiting the futures *)
    destruct (IS s Hs') as [Hst _]. unfold stage_ok in Hst.
    match goal with E : stg (subs p s) = _ |- _ => rewrite E in Hst end.
    split; [|exact (Hres s Hs')]. split; [eapply Forall_mono; [exact Hmp | exact Hst]|].
    exists []. split; [reflexivity|]. split; [constructor | intros _; constructor].
  - (* block(raise) visited every future *)
    destruct (IS s Hs') as [Hst _]. unfold stage_ok in Hst.
    match goal with E : stg (subs p s) = _ |- _ => rewrite E in Hst end.
    destruct Hst as [H1 [pre [H2 [H3 H4]]]]. rewrite app_nil_r in H2. subst pre.
    split; [|exact (Hres s Hs')]. split; [eapply Forall_mono; [exact Hmp | exact H1]|].
    split; [exists []; split; [reflexivity | constructor]|].
    destruct raise; [|reflexivity]. symmetry. apply find_none_forall. rewrite Hthr. exact (H4 eq_refl).
  - (* block(raise): the future re-throws *)
    assert (Hrun : stop p = false) by (eapply not_quiet_running; [exact IB | exact Hs' | not_quiet]).
    destruct (IS s Hs') as [Hst _]. unfold stage_ok in Hst.
    match goal with E : stg (subs p s) = _ |- _ => rewrite E in Hst end.
    destruct Hst as [H1 [pre [H2 [H3 H4]]]].
    match goal with E : raise && fails p t = true |- _ => apply andb_true_iff in E; destruct E as [Er Ef] end.
    rewrite (fails_running p t IB Hrun) in Ef. subst raise.
    split; [|exact (Hres s Hs')]. split; [eapply Forall_mono; [exact Hmp | exact H1]|].
    split; [exists []; split; [reflexivity | constructor]|].
    symmetry. rewrite Hthr, H2. apply find_app_first; [exact (H4 eq_refl) | exact Ef].
  - (* block(raise): next future *)
    assert (Hrun : stop p = false) by (eapply not_quiet_running; [exact IB | exact Hs' | not_quiet]).
    destruct (IS s Hs') as [Hst _]. unfold stage_ok in Hst.
    match goal with E : stg (subs p s) = _ |- _ => rewrite E in Hst end.
    destruct Hst as [H1 [pre [H2 [H3 H4]]]].
    split; [|exact (Hres s Hs')]. split; [eapply Forall_mono; [exact Hmp | exact H1]|].
    exists (pre ++ [t]). split; [rewrite <- app_assoc; exact H2|]. split.
    + apply Forall_app. split; [eapply Forall_mono; [exact Hmf | exact H3]|]. constructor; [|constructor].
      apply Hmf. apply complete_running; assumption.
    + intros Hr. rewrite Hthr. apply Forall_app. split; [exact (H4 Hr)|]. constructor; [|constructor].
      subst raise. match goal with E : true && fails p t = false |- _ => cbn in E; rewrite (fails_running p t IB Hrun) in E; exact E end.
  - (* ~section_t done: map returns *)
    destruct (IS s Hs') as [Hst _]. unfold stage_ok in Hst.
    match goal with E : stg (subs p s) = _ |- _ => rewrite E in Hst end.
    destruct Hst as [H1 [[pre [H2 H3]] H4]]. rewrite app_nil_r in H2. subst pre.
    split; [exact I|]. apply Forall_app. split; [exact (Hres s Hs')|]. constructor; [|constructor].
    unfold res_ok; simp_fields. split; [eapply Forall_mono; [exact Hmf | exact H3]|]. rewrite Hthr. exact H4.
  - (* block(false): next future *)
    assert (Hrun : stop p = false) by (eapply not_quiet_running; [exact IB | exact Hs' | not_quiet]).
    destruct (IS s Hs') as [Hst _]. unfold stage_ok in Hst.
    match goal with E : stg (subs p s) = _ |- _ => rewrite E in Hst end.
    destruct Hst as [H1 [[pre [H2 H3]] H4]].
    split; [|exact (Hres s Hs')]. split; [eapply Forall_mono; [exact Hmp | exact H1]|].
    split; [|rewrite Hthr; exact H4].
    exists (pre ++ [t]). split; [rewrite <- app_assoc; exact H2|].
    apply Forall_app. split; [eapply Forall_mono; [exact Hmf | exact H3]|]. constructor; [|constructor].
    apply Hmf. apply complete_running; assumption.
Qed.

(* ---- all invariants together, for every reachable state -------------------------------------- *)
Record Inv (p : pool) : Prop := { i_b : InvB p; i_w : InvW p; i_t : InvT p; i_s : InvS p }.

Theorem reachable_inv n thr progs p :
  wf_config n progs = true -> reachable n thr progs p -> Inv p.
Proof.
  intros Hwf. apply reachable_ind_step.
  - constructor; [apply invB_init | apply invW_init | apply invT_init | apply invS_init]; assumption.
  - intros p0 e q _ [IB IW IT IS] Hs. constructor.
    + eapply invB_step; eauto.
    + eapply invW_step; eauto.
    + eapply invT_step; eauto.
    + eapply invS_step; eauto.
Qed.

(* ---- enabledness helpers ---------------------------------------------------------------------- *)
Lemma guard_ok s n : s < n -> negb (s <? n) = false.
Proof. intros H. apply negb_false_iff. apply Nat.ltb_lt. exact H. Qed.

Lemma can_check p w : w < nw p -> workers p w = WIdle -> exists q, step p (ECheck w) = Some q.
Proof.
  intros Hw Hi. unfold step. rewrite (guard_ok _ _ Hw), Hi.
  destruct (stop p); [eexists; reflexivity|]. destruct (queue p); eexists; reflexivity.
Qed.

Lemma can_finish p w t : w < nw p -> workers p w = WRunning t -> exists q, step p (EFinish w) = Some q.
Proof. intros Hw Hi. unfold step. rewrite (guard_ok _ _ Hw), Hi. eexists; reflexivity. Qed.

Lemma can_awake p w : w < nw p -> awake (workers p w) -> exists e q, step p e = Some q.
Proof.
  intros Hw [Ha|[t Ha]].
  - destruct (can_check p w Hw Ha) as [q Hq]. eauto.
  - destruct (can_finish p w t Hw Ha) as [q Hq]. eauto.
Qed.

Lemma can_notify_one p s : s < ns p -> stg (subs p s) = SNotifyOne -> exists e q, step p e = Some q.
Proof.
  intros Hs Hst. destruct (any_sleeping p) eqn:Ea.
  - unfold any_sleeping in Ea. apply existsb_exists in Ea. destruct Ea as [w [Hin Hsl]]. apply in_seq in Hin.
    exists (ENotify s (Some w)). unfold step. rewrite (guard_ok _ _ Hs), Hst.
    assert (Hlt : (w <? nw p) = true) by (apply Nat.ltb_lt; lia). rewrite Hlt, Hsl. eexists; reflexivity.
  - exists (ENotify s None). unfold step. rewrite (guard_ok _ _ Hs), Hst, Ea. eexists; reflexivity.
Qed.

Lemma can_notify_all p s ts r : s < ns p -> stg (subs p s) = SNotifyAll ts r -> exists e q, step p e = Some q.
Proof.
  intros Hs Hst. exists (ENotify s None). unfold step. rewrite (guard_ok _ _ Hs), Hst. eexists; reflexivity.
Qed.

Lemma can_notify_stop p s : s < ns p -> stg (subs p s) = SNotifyStop -> exists e q, step p e = Some q.
Proof.
  intros Hs Hst. exists (ENotifyStop s). unfold step. rewrite (guard_ok _ _ Hs), Hst. eexists; reflexivity.
Qed.

Lemma can_pending p s : s < ns p -> notify_pending (stg (subs p s)) -> exists e q, step p e = Some q.
Proof.
  intros Hs [H|[[ts [r H]]|H]].
  - eapply can_notify_one; eauto.
  - eapply can_notify_all; eauto.
  - eapply can_notify_stop; eauto.
Qed.

(* a pushed task that is not complete yet can always make progress *)
Lemma progress_task p t : Inv p -> pushed p t -> complete p t = false -> exists e q, step p e = Some q.
Proof.
  intros [IB IW IT IS] Hp Hc. unfold complete in Hc. apply orb_false_iff in Hc. destruct Hc as [Hf Hd].
  destruct Hp as [Hq|[Hr|Hdr]].
  - assert (Hne : queue p <> []) by (intros E; rewrite E in Hq; contradiction).
    destruct (IW Hne) as [[w [Hw Ha]]|[s [Hs Hpn]]].
    + eapply can_awake; eauto.
    + eapply can_pending; eauto.
  - apply in_map_iff in Hr. destruct Hr as [[t' w] [Ht Hin]]. cbn in Ht. subst t'.
    destruct (t_ran p IT t w Hin) as [Hw [Hfin|Hrun]].
    + apply mem_spec in Hfin. congruence.
    + destruct (can_finish p w t Hw Hrun) as [q Hq]. eauto.
  - apply mem_spec in Hdr. congruence.
Qed.

Lemma forallb_false_witness {A} (f : A -> bool) l : forallb f l = false -> exists x, In x l /\ f x = false.
Proof.
  induction l as [|a l IH]; cbn; [discriminate|]. intros H. apply andb_false_iff in H. destruct H as [H|H].
  - exists a. auto.
  - destruct (IH H) as [x [Hin Hx]]. exists x. auto.
Qed.

Definition wants_destroy (x : sub) : Prop := stg x = SReady /\ exists l, todo x = CDestroy :: l.

(* every unfinished thread that is not about to destroy the pool has (or enables) a step *)
Lemma progress_sub p s : Inv p -> s < ns p -> sub_done (subs p s) = false -> ~ wants_destroy (subs p s) ->
  exists e q, step p e = Some q.
Proof.
  intros Hinv Hs Hnd Hwd. pose proof Hinv as [IB IW IT IS].
  destruct (IS s Hs) as [Hst _]. unfold stage_ok in Hst. unfold sub_done in Hnd.
  destruct (stg (subs p s)) eqn:Eg.
  - (* SReady *)
    destruct (todo (subs p s)) as [|c l] eqn:Et; [discriminate|]. destruct c as [t|ts r|].
    + exists (EPush s). unfold step. rewrite (guard_ok _ _ Hs), Eg, Et. eexists; reflexivity.
    + exists (EPush s). unfold step. rewrite (guard_ok _ _ Hs), Eg, Et. destruct (map_inline p ts); eexists; reflexivity.
    + exfalso. apply Hwd. split; [exact Eg | eauto].
  - eapply can_notify_one; eauto.
  - eapply can_notify_all; eauto.
  - (* SGet *)
    destruct rem as [|t rem].
    + exists (EGet s). unfold step. rewrite (guard_ok _ _ Hs), Eg. eexists; reflexivity.
    + destruct (complete p t) eqn:Ec.
      * exists (EGet s). unfold step. rewrite (guard_ok _ _ Hs), Eg, Ec. destruct (raise && fails p t); eexists; reflexivity.
      * destruct Hst as [Hpu [pre [Hall _]]]. apply (progress_task p t Hinv); [|exact Ec].
        rewrite Forall_forall in Hpu. apply Hpu. rewrite Hall. apply in_or_app. right. left. reflexivity.
  - (* SWait *)
    destruct rem as [|t rem].
    + exists (EWait s). unfold step. rewrite (guard_ok _ _ Hs), Eg. eexists; reflexivity.
    + destruct (complete p t) eqn:Ec.
      * exists (EWait s). unfold step. rewrite (guard_ok _ _ Hs), Eg, Ec. eexists; reflexivity.
      * destruct Hst as [Hpu [[pre [Hall _]] _]]. apply (progress_task p t Hinv); [|exact Ec].
        rewrite Forall_forall in Hpu. apply Hpu. rewrite Hall. apply in_or_app. right. left. reflexivity.
  - eapply can_notify_stop; eauto.
  - (* SJoin *)
    destruct (all_exited p) eqn:Ea.
    + exists (EJoin s). unfold step. rewrite (guard_ok _ _ Hs), Eg, Ea. eexists; reflexivity.
    + unfold all_exited in Ea. apply forallb_false_witness in Ea. destruct Ea as [w [Hin Hx]]. apply in_seq in Hin.
      assert (Hw : w < nw p) by lia.
      destruct (wstate_cases (workers p w)) as [Ha|[Hsl|Hex]].
      * eapply can_awake; eauto.
      * assert (Hstop : stop p = true) by (apply (b_stage p IB s); right; exact Eg).
        destruct (b_sleep p IB Hstop) as [s' [Hs' Hg']]; [exists w; auto|]. eapply can_notify_stop; eauto.
      * rewrite Hex in Hx. discriminate.
Qed.

(* ---- at most one thread destroys the pool ------------------------------------------------------ *)
Definition InvD (p : pool) : Prop :=
  forall s1 s2, s1 < ns p -> s2 < ns p ->
  no_destroy (todo (subs p s1)) = false -> no_destroy (todo (subs p s2)) = false -> s1 = s2.

Lemma no_destroy_tl c l : no_destroy l = false -> no_destroy (c :: l) = false.
Proof. intros H. destruct c; cbn; auto. Qed.

Lemma filter_length_in {A} (f : A -> bool) l x : In x l -> f x = true -> 1 <= length (filter f l).
Proof.
  induction l as [|a l IH]; intros Hin Hf; [contradiction|]. cbn. destruct Hin as [->|Hin].
  - rewrite Hf. cbn. lia.
  - specialize (IH Hin Hf). destruct (f a); cbn; lia.
Qed.

Lemma unique_destroyer progs : length (filter (fun pr => negb (no_destroy pr)) progs) <= 1 ->
  forall s1 s2, s1 < length progs -> s2 < length progs ->
  no_destroy (nth s1 progs []) = false -> no_destroy (nth s2 progs []) = false -> s1 = s2.
Proof.
  induction progs as [|a r IH]; intros Hlen s1 s2 H1 H2 D1 D2; cbn [length] in *; [lia|].
  cbn [filter] in Hlen.
  destruct s1 as [|s1], s2 as [|s2]; cbn [nth] in *.
  - reflexivity.
  - exfalso. rewrite D1 in Hlen. cbn in Hlen.
    assert (1 <= length (filter (fun pr => negb (no_destroy pr)) r)).
    { apply (filter_length_in _ r (nth s2 r [])); [apply nth_In; lia | rewrite D2; reflexivity]. } lia.
  - exfalso. rewrite D2 in Hlen. cbn in Hlen.
    assert (1 <= length (filter (fun pr => negb (no_destroy pr)) r)).
    { apply (filter_length_in _ r (nth s1 r [])); [apply nth_In; lia | rewrite D1; reflexivity]. } lia.
  - f_equal. apply IH; try lia; try assumption. destruct (negb (no_destroy a)); cbn in Hlen; lia.
Qed.

Lemma invD_init n thr progs : wf_config n progs = true -> InvD (init n thr progs).
Proof.
  intros Hwf. destruct (wf_parts n progs Hwf) as [_ [_ [_ Hu]]].
  unfold InvD, init; simp_fields. apply unique_destroyer. exact Hu.
Qed.

Lemma step_todo p e q : step p e = Some q ->
  forall s', todo (subs q s') = todo (subs p s') \/ exists c, todo (subs p s') = c :: todo (subs q s').
Proof.
  intros H s'. destruct e; inv_step H; simp_fields; auto;
    match goal with |- context [upd _ ?s _ s'] => upd_cases s' s; simp_fields; eauto end.
Qed.

Lemma invD_step p e q : InvD p -> step p e = Some q -> InvD q.
Proof.
  intros ID H s1 s2 H1 H2 D1 D2. destruct (step_const p e q H) as [_ [Hns _]]. rewrite Hns in *.
  apply ID; try assumption.
  - destruct (step_todo p e q H s1) as [E|[c E]]; [rewrite <- E; exact D1 | rewrite E; apply no_destroy_tl; exact D1].
  - destruct (step_todo p e q H s2) as [E|[c E]]; [rewrite <- E; exact D2 | rewrite E; apply no_destroy_tl; exact D2].
Qed.

Lemma reachable_invD n thr progs p : wf_config n progs = true -> reachable n thr progs p -> InvD p.
Proof.
  intros Hwf. apply reachable_ind_step; [apply invD_init; exact Hwf|].
  intros p0 e q _ ID Hs. eapply invD_step; eauto.
Qed.

(* ---- deadlock freedom -------------------------------------------------------------------------- *)
Theorem deadlock_free n thr progs p :
  wf_config n progs = true -> reachable n thr progs p -> final p = false ->
  exists e q, step p e = Some q.
Proof.
  intros Hwf Hr Hnf. pose proof (reachable_inv n thr progs p Hwf Hr) as Hinv.
  pose proof (reachable_invD n thr progs p Hwf Hr) as ID. pose proof (i_b p Hinv) as IB.
  unfold final in Hnf. apply forallb_false_witness in Hnf. destruct Hnf as [s [Hin Hnd]]. apply in_seq in Hin.
  assert (Hs : s < ns p) by lia.
  destruct (stg (subs p s)) eqn:Eg;
    try (apply (progress_sub p s Hinv Hs Hnd); intros [Hg _]; congruence).
  destruct (todo (subs p s)) as [|c l] eqn:Et; [unfold sub_done in Hnd; rewrite Eg, Et in Hnd; discriminate|].
  destruct c as [t|ts r|];
    try (apply (progress_sub p s Hinv Hs Hnd); intros [_ [l' Hl']]; congruence).
  (* this thread is about to destroy the pool *)
  assert (Hrun : stop p = false).
  { eapply not_quiet_running; [exact IB | exact Hs | intros [Ht _]; congruence]. }
  destruct (others_done p s) eqn:Eo.
  - exists (EStop s). unfold step. rewrite (guard_ok _ _ Hs), Eg, Et, Eo, Hrun. eexists; reflexivity.
  - unfold others_done in Eo. apply forallb_false_witness in Eo. destruct Eo as [s' [Hin' Hx]].
    apply in_seq in Hin'. apply orb_false_iff in Hx. destruct Hx as [Hne Hnd'].
    apply Nat.eqb_neq in Hne. assert (Hs' : s' < ns p) by lia.
    apply (progress_sub p s' Hinv Hs' Hnd'). intros [_ [l' Hl']].
    apply Hne. apply (ID s' s Hs' Hs); [rewrite Hl' | rewrite Et]; reflexivity.
Qed.

(* ---- clean shutdown ------------------------------------------------------------------------------ *)
Definition InvJ (p : pool) : Prop :=
  stop p = true -> (forall s, s < ns p -> stg (subs p s) <> SNotifyStop /\ stg (subs p s) <> SJoin) ->
  forall w, w < nw p -> workers p w = WExited.

Lemma invJ_step p e q : InvB p -> InvJ p -> step p e = Some q -> InvJ q.
Proof.
  intros IB IJ H. unfold InvJ.
  destruct e; inv_step H; simp_fields; intros Hstop Hnone wx Hwx;
    try match goal with E : negb (?s <? _) = false |- _ => apply ltb_guard in E end.
  (* 1-11: a non-quiet thread moved, so stop = false *)
  1-11: (exfalso; assert (Hrun : stop p = false) by (eapply not_quiet_running; [exact IB | eassumption | not_quiet]); congruence).
  (* 12-16: a worker moved although (by IJ) all workers had exited *)
  1-5: (exfalso; first [discriminate Hstop | assert (Hx : workers p w = WExited) by (apply IJ; assumption); congruence]).
  - (* EStop *) exfalso. destruct (Hnone s ltac:(assumption)) as [Hn _]. rewrite upd_same in Hn. simp_fields. congruence.
  - (* ENotifyStop *) exfalso. destruct (Hnone s ltac:(assumption)) as [_ Hn]. rewrite upd_same in Hn. simp_fields. congruence.
  - (* EJoin *) apply all_exited_true; assumption.
Qed.
