(* C06 extension -- the EXACT sub-gradient inequality is false of the class-NLL formula the source evaluates
   (include/nano/loss/flatten.h: machine epsilon inside the logarithm, gradient of the un-perturbed value):
   two outputs, no positive label, eps = 2^-52, x = (1, 0), z = x + 2^-53 (-1, 1):
       f(z) - f(x) - g(x).(z - x) = -4.85e-33 < 0.
   Far below binary64 resolution: not observable on the library. What IS true (inequality up to the slack ln(1+eps) <= eps) is
   C06_loss_classnll_convex in Properties_C06.v.  Kept apart from Properties_C06.v because it needs CoqInterval (300-bit enclosures);
   built on every run (target of tools/checks/c06.py). *)
From Coq Require Import Reals List Lra.
From Interval Require Import Tactic.
From LN Require Import C06_Defs C06_Proofs C06_Convex2_Defs.
Import ListNotations.
Local Open Scope R_scope.

Theorem C06_loss_classnll_code_exact_inequality_refuted :
  let eps := / 4503599627370496 in let h := / 9007199254740992 in
  let t := [-1; -1] in let x := [1; 0] in let z := [1 - h; h] in
  length z = length x /\ length t = length x /\
  classnll_code eps t z < classnll_code eps t x + Rdot (classnll_g t x) (Rvsub z x).
Proof.
  cbv zeta. split; [reflexivity|]. split; [reflexivity|].
  unfold classnll_code, classnll_g, listmax, posum, sumexp, dot, vsub.
  cbn [fold_right classnll_g_from map2 sum2 o_sub o_mul o_add o_zero Rops].
  rewrite (Rmax_right 0 1) by lra.
  rewrite (Rmax_right (/ 9007199254740992) (1 - / 9007199254740992)) by lra.
  unfold Rltb. destruct (Rlt_dec 0 (-1)) as [L|_]; [lra|].
  interval with (i_prec 300).
Qed.
Print Assumptions C06_loss_classnll_code_exact_inequality_refuted.
