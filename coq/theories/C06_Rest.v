(* C06 extension (third round) -- proofs about the real instance [Rops] of C06_Rest_Defs.v.

   1. Taylor expansions along every line (gradient = derivative, remainder explicit) of the polynomial benchmark functions
   2. is_derive (Coquelicot) of the transcendental functions: exponential, cauchy, geometric optimisation, the CB3 pieces
   3. objects declared non-convex: witnesses (cauchy function, cauchy / savage / tangent kernels, elastic-net cauchy, surrogate);
      powell IS convex although declared non-convex
   4. functional constraints, gboost grads, surrogate (fit objective convex, surrogate = exact quadratic), maxquad's constructor matrices
   5. statements with the declarations of the source *)
From Coq Require Import ZArith QArith List Bool Reals Lra Lia Psatz.
From Coq Require String.
From Coquelicot Require Import Coquelicot.
From LNGen Require Import Src_c06 Src_c06rest Src_c06_flags.
From LN Require Import C06_Defs C06_Proofs C06_Deriv C06_Convex2_Defs C06_Convex2 C06_Rest_Defs.
Import ListNotations.
Local Open Scope R_scope.

Notation Ralong := (along Rops).

Ltac rr := unfold q2, q3, q4, rem_poly in *; unfold ci in *; rops; rewrite ?Rinv_1 in *.

(* ------------------------------------------------------------------------------------------------ *)
(* 0. lines x + s d                                                                                  *)
(* ------------------------------------------------------------------------------------------------ *)
Lemma along_cons : forall u x s e d, Ralong (u :: x) s (e :: d) = (u + s * e) :: Ralong x s d.
Proof. reflexivity. Qed.

Lemma along_length : forall x d s, length d = length x -> length (Ralong x s d) = length x.
Proof. intros. apply vadd_vscale_length. assumption. Qed.

Lemma along_one_vsub : forall x z, length z = length x -> Ralong x 1 (Rvsub z x) = z.
Proof.
  induction x as [|u x IH]; intros [|v z] H; try discriminate; [reflexivity|]. injection H as H.
  rewrite vsub_cons, along_cons, (IH z H). f_equal. ring.
Qed.

Lemma dot_along_l : forall x d b s, length d = length x -> Rdot (Ralong x s d) b = Rdot x b + s * Rdot d b.
Proof.
  induction x as [|u x IH]; intros [|e d] b s H; try discriminate.
  - destruct b; unfold dot; simpl; rops; ring.
  - injection H as H. destruct b as [|c b]; [unfold dot; simpl; rops; ring|].
    rewrite along_cons, !dot_cons, (IH d b s H). ring.
Qed.

Lemma dot_along_self : forall x d s, length d = length x ->
  Rdot (Ralong x s d) (Ralong x s d) = Rdot x x + s * (2 * Rdot x d) + s * s * Rdot d d.
Proof.
  induction x as [|u x IH]; intros [|e d] s H; try discriminate.
  - unfold dot; simpl; rops; ring.
  - injection H as H. rewrite along_cons, !dot_cons, (IH d s H). ring.
Qed.

(* the full Taylor expansion along every line, with explicit coefficient functions (degree <= 4) *)
Definition taylor4_on (f : list R -> R) (g : list R -> list R) (r2 r3 r4 : list R -> list R -> R) : Prop :=
  forall x d s, length d = length x ->
    f (Ralong x s d) = f x + s * Rdot (g x) d + s * s * r2 x d + s * s * s * r3 x d + s * s * s * s * r4 x d.

Lemma rem_poly_R : forall s a b c, rem_poly Rops s a b c = s * s * a + s * s * s * b + s * s * s * s * c.
Proof. intros. rr. ring. Qed.

(* ... hence: f(z) = f(x) + g(x).(z-x) + R2 + R3 + R4 at d = z - x, and the gradient is the derivative along every direction *)
Lemma taylor4_expand : forall f g r2 r3 r4, taylor4_on f g r2 r3 r4 ->
  forall x z, length z = length x ->
  f z = f x + Rdot (g x) (Rvsub z x) + (r2 x (Rvsub z x) + r3 x (Rvsub z x) + r4 x (Rvsub z x)).
Proof.
  intros f g r2 r3 r4 H x z Hl. specialize (H x (Rvsub z x) 1 (vsub_length z x Hl)).
  rewrite (along_one_vsub x z Hl) in H. rewrite H. ring.
Qed.

Lemma poly4_is_derive : forall c0 a b c e : R, is_derive (fun s => c0 + s * a + s * s * b + s * s * s * c + s * s * s * s * e) 0 a.
Proof. intros. auto_derive; auto. ring. Qed.

Lemma taylor4_is_derive : forall f g r2 r3 r4, taylor4_on f g r2 r3 r4 ->
  forall x d, length d = length x -> is_derive (fun s => f (Ralong x s d)) 0 (Rdot (g x) d).
Proof.
  intros f g r2 r3 r4 H x d Hl.
  apply (is_derive_ext (fun s => f x + s * Rdot (g x) d + s * s * r2 x d + s * s * s * r3 x d + s * s * s * s * r4 x d)).
  - intro s. symmetry. apply H, Hl.
  - apply poly4_is_derive.
Qed.

(* ------------------------------------------------------------------------------------------------ *)
(* 1. generic liftings: separable sums, chains                                                       *)
(* ------------------------------------------------------------------------------------------------ *)
Lemma sum2_taylor : forall (k kg : R -> R -> R) (h2 h3 h4 : R -> R -> R -> R),
  (forall a u e s, k a (u + s * e) = k a u + s * (kg a u * e) + s * s * h2 a u e + s * s * s * h3 a u e + s * s * s * s * h4 a u e) ->
  forall w x d s, length d = length x ->
  sum2 Rops k w (Ralong x s d) =
  sum2 Rops k w x + s * Rdot (map2 kg w x) d + s * s * sum3 Rops h2 w x d + s * s * s * sum3 Rops h3 w x d + s * s * s * s * sum3 Rops h4 w x d.
Proof.
  intros k kg h2 h3 h4 Hk. induction w as [|a w IH]; intros x d s Hl.
  - simpl. unfold dot. simpl. rops. ring.
  - destruct x as [|u x]; destruct d as [|e d]; try discriminate.
    + simpl. unfold dot. simpl. rops. ring.
    + injection Hl as Hl. rewrite along_cons. cbn [sum2 map2 sum3]. rewrite dot_cons, (IH x d s Hl), (Hk a u e s). rops. ring.
Qed.

Lemma sum3_irrelevant : forall (h : R -> R -> R -> R), (forall a b u e, h a u e = h b u e) ->
  forall w w' x d, length w = length x -> length w' = length x -> sum3 Rops h w x d = sum3 Rops h w' x d.
Proof.
  intros h Hh. induction w as [|a w IH]; destruct w' as [|b w']; destruct x as [|u x]; simpl; intros d H1 H2; try discriminate; auto.
  destruct d as [|e d]; [reflexivity|]. rewrite (Hh a b u e). f_equal. apply IH; lia.
Qed.

(* kernels that ignore the weight, summed over the point itself (sum2 k x x) *)
Lemma self_sum_taylor : forall (phi phi' : R -> R) (h2 h3 h4 : R -> R -> R),
  (forall u e s, phi (u + s * e) = phi u + s * (phi' u * e) + s * s * h2 u e + s * s * s * h3 u e + s * s * s * s * h4 u e) ->
  taylor4_on (fun x => sum2 Rops (fun _ u => phi u) x x) (fun x => map2 (fun _ u => phi' u) x x)
             (fun x d => sum3 Rops (fun _ u e => h2 u e) x x d) (fun x d => sum3 Rops (fun _ u e => h3 u e) x x d)
             (fun x d => sum3 Rops (fun _ u e => h4 u e) x x d).
Proof.
  intros phi phi' h2 h3 h4 Hk x d s Hl.
  rewrite (sum2_irrelevant (fun _ u => phi u) (fun _ _ _ => eq_refl) (Ralong x s d) x (Ralong x s d))
    by (rewrite ?along_length; auto).
  apply (sum2_taylor (fun _ u => phi u) (fun _ u => phi' u) (fun _ u e => h2 u e) (fun _ u e => h3 u e) (fun _ u e => h4 u e)); auto.
Qed.

Lemma chain_taylor : forall (phi pa pb : R -> R -> R -> R) (c2 c3 c4 : R -> R -> R -> R -> R -> R),
  (forall w a b ea eb s, phi w (a + s * ea) (b + s * eb) =
     phi w a b + s * (pa w a b * ea + pb w a b * eb) + s * s * c2 w a b ea eb + s * s * s * c3 w a b ea eb + s * s * s * s * c4 w a b ea eb) ->
  forall w x d s, length d = length x ->
  chain_v Rops phi w (Ralong x s d) =
  chain_v Rops phi w x + s * Rdot (chain_g Rops pa pb 0 w x) d
  + s * s * chain5 Rops c2 w x d + s * s * s * chain5 Rops c3 w x d + s * s * s * s * chain5 Rops c4 w x d.
Proof.
  intros phi pa pb c2 c3 c4 Hk. induction w as [|wi w IH]; intros x d s Hl.
  - destruct x as [|a x]; destruct d as [|ea d]; try discriminate; simpl.
    + unfold dot; simpl; rops; ring.
    + destruct x, d; unfold dot; simpl; rops; ring.
  - destruct x as [|a x]; destruct d as [|ea d]; try discriminate.
    + simpl. unfold dot; simpl; rops; ring.
    + injection Hl as Hl. destruct x as [|b x]; destruct d as [|eb d]; try discriminate.
      * simpl. unfold dot; simpl; rops; ring.
      * specialize (IH (b :: x) (eb :: d) s Hl). specialize (Hk wi a b ea eb s).
        rewrite !along_cons in *.
        change (chain_v Rops phi (wi :: w) ((a + s * ea) :: (b + s * eb) :: Ralong x s d))
          with (phi wi (a + s * ea) (b + s * eb) + chain_v Rops phi w ((b + s * eb) :: Ralong x s d)).
        change (chain_v Rops phi (wi :: w) (a :: b :: x)) with (phi wi a b + chain_v Rops phi w (b :: x)).
        change (chain_g Rops pa pb 0 (wi :: w) (a :: b :: x)) with ((0 + pa wi a b) :: chain_g Rops pa pb (pb wi a b) w (b :: x)).
        rewrite dot_cons.
        rewrite (chain_g_carry pa pb w (b :: x) (eb :: d) (pb wi a b)); [| discriminate | exact Hl].
        simpl hd.
        change (chain5 Rops c2 (wi :: w) (a :: b :: x) (ea :: eb :: d)) with (c2 wi a b ea eb + chain5 Rops c2 w (b :: x) (eb :: d)).
        change (chain5 Rops c3 (wi :: w) (a :: b :: x) (ea :: eb :: d)) with (c3 wi a b ea eb + chain5 Rops c3 w (b :: x) (eb :: d)).
        change (chain5 Rops c4 (wi :: w) (a :: b :: x) (ea :: eb :: d)) with (c4 wi a b ea eb + chain5 Rops c4 w (b :: x) (eb :: d)).
        rewrite IH, Hk. ring.
Qed.

(* ------------------------------------------------------------------------------------------------ *)
(* 2. the polynomial benchmark functions                                                             *)
(* ------------------------------------------------------------------------------------------------ *)
Lemma schumer_taylor : taylor4_on (schumer_v Rops) (schumer_g Rops) (schumer_r2 Rops) (schumer_r3 Rops) (schumer_r4 Rops).
Proof.
  unfold schumer_v, schumer_g, schumer_r2, schumer_r3, schumer_r4.
  apply (self_sum_taylor (fun u => quartic Rops u) (fun u => cst Rops 4 1 * cube Rops u) (q2 Rops) (q3 Rops) (fun _ e => q4 Rops e)).
  intros. rr. ring.
Qed.

Lemma styblinski_taylor :
  taylor4_on (styblinski_v Rops) (styblinski_g Rops) (styblinski_r2 Rops) (schumer_r3 Rops) (schumer_r4 Rops).
Proof.
  unfold styblinski_v, styblinski_g, styblinski_r2, schumer_r3, schumer_r4.
  apply (self_sum_taylor (fun u => quartic Rops u - cst Rops 16 1 * sq Rops u + cst Rops 5 1 * u)
                         (fun u => cst Rops 4 1 * cube Rops u - cst Rops 32 1 * u + cst Rops 5 1)
                         (fun u e => q2 Rops u e - ci Rops 16 * sq Rops e) (q3 Rops) (fun _ e => q4 Rops e)).
  intros. rr. ring.
Qed.

Lemma qing_taylor : taylor4_on (qing_v Rops) (qing_g Rops) (qing_r2 Rops) (schumer_r3 Rops) (schumer_r4 Rops).
Proof.
  intros x d s Hl. unfold qing_v, qing_g, qing_r2, schumer_r3, schumer_r4.
  rewrite (bias1_same x _ (along_length x d s Hl)).
  rewrite (sum3_irrelevant (fun _ u e => q3 Rops u e) (fun _ _ _ _ => eq_refl) x (bias1 Rops x) x d) by (rewrite ?bias1_length; auto).
  rewrite (sum3_irrelevant (fun _ _ e => q4 Rops e) (fun _ _ _ _ => eq_refl) x (bias1 Rops x) x d) by (rewrite ?bias1_length; auto).
  apply (sum2_taylor (fun w u => sq Rops (sq Rops u - w)) (fun w u => cst Rops 4 1 * (sq Rops u - w) * u)
                     (fun w u e => q2 Rops u e - ci Rops 2 * w * sq Rops e) (fun _ u e => q3 Rops u e) (fun _ _ e => q4 Rops e)); [|exact Hl].
  intros. rr. ring.
Qed.

Lemma axis_taylor : taylor4_on (axis_v Rops) (axis_g Rops) (axis_r2 Rops) (fun _ _ => 0) (fun _ _ => 0).
Proof.
  intros x d s Hl. unfold axis_v, axis_g, axis_r2. rewrite (bias1_same x _ (along_length x d s Hl)).
  etransitivity; [exact (sum2_taylor (fun w u => sq Rops u * w) (fun w u => two Rops * u * w) (fun w _ e => sq Rops e * w) (fun _ _ _ => 0) (fun _ _ _ => 0)
                       ltac:(intros; rr; ring) (bias1 Rops x) x d s Hl)|].
  assert (Z0 : forall w x d, sum3 Rops (fun _ _ _ : R => 0) w x d = 0).
  { induction w as [|a w IH]; intros [|u y] [|e dd]; simpl; rops; try reflexivity. rewrite IH. ring. }
  rewrite !Z0. reflexivity.
Qed.

(* functions of u = x.x *)
Lemma chung_taylor : taylor4_on (chung_v Rops) (chung_g Rops) (chung_r2 Rops) (chung_r3 Rops) (chung_r4 Rops).
Proof.
  intros x d s Hl. unfold chung_v, chung_g, chung_r2, chung_r3, chung_r4.
  rewrite (dot_along_self x d s Hl), dot_vscale_l. rr. ring.
Qed.

Lemma sargan_taylor : taylor4_on (sargan_v Rops) (sargan_g Rops) (sargan_r2 Rops) (sargan_r3 Rops) (sargan_r4 Rops).
Proof.
  intros x d s Hl. unfold sargan_v, sargan_g, sargan_r2, sargan_r3, sargan_r4, chung_r2, chung_r3, chung_r4.
  rewrite (dot_along_self x d s Hl), dot_vscale_l. rr. field.
Qed.

Lemma zakharov_taylor : taylor4_on (zakharov_v Rops) (zakharov_g Rops) (zakharov_r2 Rops) (zakharov_r3 Rops) (zakharov_r4 Rops).
Proof.
  intros x d s Hl. unfold zakharov_v, zakharov_g, zakharov_r2, zakharov_r3, zakharov_r4. cbv zeta.
  rewrite (biash_same x _ (along_length x d s Hl)).
  set (b := biash Rops x). assert (Hb : length b = length x) by apply biash_length.
  rewrite (dot_along_self x d s Hl), (dot_along_l x d b s Hl).
  rewrite dot_vadd_l by (unfold vscale; rewrite !map_length; lia).
  rewrite !dot_vscale_l, (dot_comm b d). rr. ring.
Qed.

(* chains *)
Lemma rosenbrock_taylor :
  taylor4_on (rosenbrock_v Rops) (rosenbrock_g Rops) (rosenbrock_r2 Rops) (rosenbrock_r3 Rops) (rosenbrock_r4 Rops).
Proof.
  intros x d s Hl. unfold rosenbrock_v, rosenbrock_g, rosenbrock_r2, rosenbrock_r3, rosenbrock_r4.
  rewrite (bias2_same x _ (along_length x d s Hl)).
  apply (chain_taylor (rosen_phi Rops) (rosen_pa Rops) (rosen_pb Rops) (rosen_c2 Rops) (rosen_c3 Rops) (rosen_c4 Rops)); [|exact Hl].
  intros. unfold rosen_phi, rosen_pa, rosen_pb, rosen_c2, rosen_c3, rosen_c4. rr. ring.
Qed.

Lemma dixon_taylor : taylor4_on (dixon_v Rops) (dixon_g Rops) (dixon_r2 Rops) (dixon_r3 Rops) (dixon_r4 Rops).
Proof.
  intros x d s Hl. unfold dixon_v, dixon_g, dixon_r2, dixon_r3, dixon_r4.
  destruct x as [|x0 x]; destruct d as [|e0 d]; try discriminate.
  - unfold along, dot; simpl; rops; ring.
  - assert (HL := along_length (x0 :: x) (e0 :: d) s Hl). rewrite (bias2_same (x0 :: x) _ HL). rewrite along_cons. rewrite <- along_cons.
    rewrite (chain_taylor (dixon_phi Rops) (dixon_pa Rops) (dixon_pb Rops) (dixon_c2 Rops) (dixon_c3 Rops) (dixon_c4 Rops)
               ltac:(intros; unfold dixon_phi, dixon_pa, dixon_pb, dixon_c2, dixon_c3, dixon_c4; rr; ring) (bias2 Rops (x0 :: x)) (x0 :: x) (e0 :: d) s Hl).
    rewrite (chain_g_carry (dixon_pa Rops) (dixon_pb Rops) (bias2 Rops (x0 :: x)) (x0 :: x) (e0 :: d) (o_mul Rops (two Rops) (o_sub Rops x0 (o_one Rops))));
      [| discriminate | exact Hl].
    simpl hd. rr. ring.
Qed.

(* powell: blocks of four coordinates *)
Lemma powell_taylor : taylor4_on (powell_v Rops) (powell_g Rops) (powell_r2 Rops) (powell_r3 Rops) (powell_r4 Rops).
Proof.
  unfold taylor4_on. fix IH 1. intros x d s Hl.
  destruct x as [|x0 [|x1 [|x2 [|x3 x']]]]; destruct d as [|e0 [|e1 [|e2 [|e3 d']]]]; try discriminate Hl;
    try (unfold along, dot; simpl; rops; ring).
  assert (Hl' : length d' = length x') by (simpl in Hl; lia).
  rewrite !along_cons. cbn [powell_v powell_g powell_r2 powell_r3 powell_r4]. rewrite !dot_cons.
  cbn [o_add Rops]. rewrite (IH x' d' s Hl'). unfold pw_l0, pw_l1, pw_l2, pw_l3. rr. ring.
Qed.

Lemma quartic_rem_nonneg : forall l e : R, 0 <= 6 * (l * l) * (e * e) + 4 * l * (e * (e * e)) + e * e * (e * e).
Proof. intros l e. generalize (sqr_ge0 (e * (2 * l + e))) (sqr_ge0 (e * l)). nra. Qed.

Lemma powell_rem_nonneg : forall x d, 0 <= powell_r2 Rops x d + powell_r3 Rops x d + powell_r4 Rops x d.
Proof.
  fix IH 1. intros x d.
  destruct x as [|x0 [|x1 [|x2 [|x3 x']]]]; destruct d as [|e0 [|e1 [|e2 [|e3 d']]]];
    try (cbn [powell_r2 powell_r3 powell_r4]; rops; lra).
  cbn [powell_r2 powell_r3 powell_r4]. specialize (IH x' d'). unfold pw_l0, pw_l1, pw_l2, pw_l3 in *. rr.
  generalize (quartic_rem_nonneg (x1 - x2 * 2) (e1 - e2 * 2)) (quartic_rem_nonneg (x0 - x3) (e0 - e3))
             (sqr_ge0 (e0 + e1 * 10)) (sqr_ge0 (e2 - e3)). lra.
Qed.

(* powell is a sum of even powers of linear forms: convex, although the source declares it non-convex *)
Lemma powell_convex : forall x z, length z = length x ->
  powell_v Rops z >= powell_v Rops x + Rdot (powell_g Rops x) (Rvsub z x).
Proof.
  intros x z H. rewrite (taylor4_expand _ _ _ _ _ powell_taylor x z H).
  generalize (powell_rem_nonneg x (Rvsub z x)). lra.
Qed.

(* the linear forms and gradient combinations of the SOURCE (translated, read over Z) are those of the model *)
Lemma powell_forms_as_in_source : forall x0 x1 x2 x3 : Z,
  IZR (src_c06rest_powell_l0 x0 x1 x2 x3) = pw_l0 Rops (IZR x0) (IZR x1) /\
  IZR (src_c06rest_powell_l1 x0 x1 x2 x3) = pw_l1 Rops (IZR x2) (IZR x3) /\
  IZR (src_c06rest_powell_l2 x0 x1 x2 x3) = pw_l2 Rops (IZR x1) (IZR x2) /\
  IZR (src_c06rest_powell_l3 x0 x1 x2 x3) = pw_l3 Rops (IZR x0) (IZR x3) /\
  IZR (src_c06rest_powell_g0 x0 x1 x2 x3) = IZR x0 + IZR x3 /\
  IZR (src_c06rest_powell_g1 x0 x1 x2 x3) = IZR x0 * 10 + IZR x2 /\
  IZR (src_c06rest_powell_g2 x0 x1 x2 x3) = IZR x1 - 2 * IZR x2 /\
  IZR (src_c06rest_powell_g3 x0 x1 x2 x3) = - IZR x1 - IZR x3.
Proof.
  intros. unfold src_c06rest_powell_l0, src_c06rest_powell_l1, src_c06rest_powell_l2, src_c06rest_powell_l3,
    src_c06rest_powell_g0, src_c06rest_powell_g1, src_c06rest_powell_g2, src_c06rest_powell_g3, pw_l0, pw_l1, pw_l2, pw_l3.
  rr. repeat split; rewrite ?plus_IZR, ?minus_IZR, ?mult_IZR, ?opp_IZR; try ring.
Qed.

(* ------------------------------------------------------------------------------------------------ *)
(* 3. transcendental functions: the gradient is the derivative along every line (Coquelicot)         *)
(* ------------------------------------------------------------------------------------------------ *)
Lemma dot_along_r : forall b x d s, length d = length x -> Rdot b (Ralong x s d) = Rdot b x + s * Rdot b d.
Proof. intros. rewrite (dot_comm b), (dot_along_l x d b s H), (dot_comm x b), (dot_comm d b). reflexivity. Qed.

Lemma fexp_is_derive : forall x d, length d = length x -> x <> [] ->
  is_derive (fun s => fexp_v (Ralong x s d)) 0 (Rdot (fexp_g x) d).
Proof.
  intros x d Hl Hx. unfold fexp_g, fexp_v. rewrite dot_vscale_l.
  assert (Hn : INR (length x) <> 0) by (apply not_0_INR; destruct x; [contradiction | discriminate]).
  set (n := INR (length x)) in *. set (u := Rdot x x). set (p := Rdot x d). set (q := Rdot d d).
  apply (is_derive_ext (fun s => exp (1 + (u + s * (2 * p) + s * s * q) / n))).
  - intro s. rewrite (dot_along_self x d s Hl), (along_length x d s Hl). reflexivity.
  - auto_derive; auto. plainR. replace (u + 0 * (2 * p) + 0 * 0 * q) with u by ring. unfold Rdiv. field. exact Hn.
Qed.

Lemma fcauchy_is_derive : forall x d, length d = length x ->
  is_derive (fun s => fcauchy_v (Ralong x s d)) 0 (Rdot (fcauchy_g x) d).
Proof.
  intros x d Hl. unfold fcauchy_g, fcauchy_v. rewrite dot_vscale_l.
  generalize (dot_self_ge0 x). set (u := Rdot x x). set (p := Rdot x d). set (q := Rdot d d). intro Hu.
  apply (is_derive_ext (fun s => ln (1 + (u + s * (2 * p) + s * s * q)))).
  - intro s. rewrite (dot_along_self x d s Hl). reflexivity.
  - auto_derive; [lra|]. plainR. replace (u + 0 * (2 * p) + 0 * 0 * q) with u by ring. field. lra.
Qed.

Lemma geo_is_derive : forall a A x d, length d = length x -> rows_len (length x) A -> length a = length A ->
  is_derive (fun s => geo_v a A (Ralong x s d)) 0 (Rdot (geo_g a A x) d).
Proof.
  intros a A x d Hl HA Ha. unfold geo_v, geo_g. rewrite (mtv_adjoint (length x) A _ d HA Hl).
  revert a Ha. induction A as [|r A IH]; intros [|a0 a] Ha; try discriminate.
  - apply (is_derive_ext (fun _ => 0)); [reflexivity|]. unfold dot; simpl. apply @is_derive_const.
  - injection Ha as Ha. inversion HA as [|? ? Hr HA']; subst. specialize (IH HA' a Ha).
    cbn [mv map]. fold (Rmv A x) (Rmv A d). unfold vadd in *. cbn [map2 map]. rewrite dot_cons.
    apply (is_derive_ext (fun s => plus (exp (a0 + (Rdot r x + s * Rdot r d))) (total Rops (map exp (map2 Rplus a (Rmv A (Ralong x s d))))))).
    + intro s. cbn [mv map map2]. rewrite total_cons. rewrite (dot_along_r r x d s Hl). reflexivity.
    + apply @is_derive_plus; [|exact IH]. auto_derive; auto. plainR. cbn [o_add Rops]. replace (a0 + (Rdot r x + 0 * Rdot r d)) with (a0 + Rdot r x) by ring. ring.
Qed.

(* the three smooth pieces of chained CB3 I / II: gradient of each piece = its derivative along every direction of the pair *)
Lemma cb3_pieces_is_derive : forall a b ea eb,
  is_derive (fun s => cb3_v1 (a + s * ea) (b + s * eb)) 0 (cb3_p1a 0 a b * ea + cb3_p1b 0 a b * eb) /\
  is_derive (fun s => cb3_v2 (a + s * ea) (b + s * eb)) 0 (cb3_p2a 0 a b * ea + cb3_p2b 0 a b * eb) /\
  is_derive (fun s => cb3_v3 (a + s * ea) (b + s * eb)) 0 (cb3_p3a 0 a b * ea + cb3_p3b 0 a b * eb).
Proof.
  intros. unfold cb3_v1, cb3_v2, cb3_v3, cb3_p1a, cb3_p1b, cb3_p2a, cb3_p2b, cb3_p3a, cb3_p3b.
  split; [|split]; auto_derive; auto; plainR; try ring.
  replace (- (a + 0 * ea) + (b + 0 * eb)) with (b - a) by ring. ring.
Qed.

(* chains: pair-wise derivatives lift to the whole chain *)
Lemma chain_is_derive : forall (phi pa pb : R -> R -> R -> R),
  (forall w a b ea eb, is_derive (fun s => phi w (a + s * ea) (b + s * eb)) 0 (pa w a b * ea + pb w a b * eb)) ->
  forall w x d, length d = length x ->
  is_derive (fun s => chain_v Rops phi w (Ralong x s d)) 0 (Rdot (chain_g Rops pa pb 0 w x) d).
Proof.
  intros phi pa pb Hk. induction w as [|wi w IH]; intros x d Hl.
  - apply (is_derive_ext (fun _ => 0)).
    + intro s. destruct x as [|a [|b x]]; destruct d as [|ea [|eb d]]; try discriminate; reflexivity.
    + destruct x as [|a [|b x]]; destruct d as [|ea [|eb d]]; try discriminate; unfold dot; simpl; rops;
        try (replace (0 * ea + 0) with 0 by ring); apply @is_derive_const.
  - destruct x as [|a x]; destruct d as [|ea d]; try discriminate.
    + apply (is_derive_ext (fun _ => 0)); [reflexivity|]. unfold dot; simpl. apply @is_derive_const.
    + injection Hl as Hl. destruct x as [|b x]; destruct d as [|eb d]; try discriminate.
      * apply (is_derive_ext (fun _ => 0)); [reflexivity|]. unfold dot; simpl; rops. replace (0 * ea + 0) with 0 by ring. apply @is_derive_const.
      * specialize (IH (b :: x) (eb :: d) Hl).
        change (chain_g Rops pa pb 0 (wi :: w) (a :: b :: x)) with ((0 + pa wi a b) :: chain_g Rops pa pb (pb wi a b) w (b :: x)).
        rewrite dot_cons, (chain_g_carry pa pb w (b :: x) (eb :: d) (pb wi a b)); [| discriminate | exact Hl]. simpl hd.
        replace ((0 + pa wi a b) * ea + (pb wi a b * eb + Rdot (chain_g Rops pa pb 0 w (b :: x)) (eb :: d)))
          with (plus (pa wi a b * ea + pb wi a b * eb) (Rdot (chain_g Rops pa pb 0 w (b :: x)) (eb :: d))) by (unfold plus; simpl; ring).
        apply (is_derive_ext (fun s => plus (phi wi (a + s * ea) (b + s * eb)) (chain_v Rops phi w (Ralong (b :: x) s (eb :: d))))); [reflexivity|].
        apply @is_derive_plus; [apply Hk | exact IH].
Qed.

Lemma cb3_sums_is_derive : forall x d, length d = length x ->
  is_derive (fun s => cb3_s1 (Ralong x s d)) 0 (Rdot (chain_g Rops cb3_p1a cb3_p1b 0 (bias2 Rops x) x) d) /\
  is_derive (fun s => cb3_s2 (Ralong x s d)) 0 (Rdot (chain_g Rops cb3_p2a cb3_p2b 0 (bias2 Rops x) x) d) /\
  is_derive (fun s => cb3_s3 (Ralong x s d)) 0 (Rdot (chain_g Rops cb3_p3a cb3_p3b 0 (bias2 Rops x) x) d).
Proof.
  intros x d Hl. unfold cb3_s1, cb3_s2, cb3_s3.
  split; [|split].
  - apply (is_derive_ext (fun s => chain_v Rops (fun _ a b => cb3_v1 a b) (bias2 Rops x) (Ralong x s d))).
    + intro s. now rewrite (bias2_same x _ (along_length x d s Hl)).
    + apply (chain_is_derive (fun _ a b => cb3_v1 a b) cb3_p1a cb3_p1b); [|exact Hl]. intros. apply cb3_pieces_is_derive.
  - apply (is_derive_ext (fun s => chain_v Rops (fun _ a b => cb3_v2 a b) (bias2 Rops x) (Ralong x s d))).
    + intro s. now rewrite (bias2_same x _ (along_length x d s Hl)).
    + apply (chain_is_derive (fun _ a b => cb3_v2 a b) cb3_p2a cb3_p2b); [|exact Hl]. intros. apply cb3_pieces_is_derive.
  - apply (is_derive_ext (fun s => chain_v Rops (fun _ a b => cb3_v3 a b) (bias2 Rops x) (Ralong x s d))).
    + intro s. now rewrite (bias2_same x _ (along_length x d s Hl)).
    + apply (chain_is_derive (fun _ a b => cb3_v3 a b) cb3_p3a cb3_p3b); [|exact Hl]. intros. apply cb3_pieces_is_derive.
Qed.

(* ------------------------------------------------------------------------------------------------ *)
(* 4. objects declared NON-convex: witnesses (elementary bounds only, no interval arithmetic)         *)
(* ------------------------------------------------------------------------------------------------ *)
Lemma exp2_gt3 : 3 < exp 2.
Proof. generalize (exp_ineq1 2). lra. Qed.

Lemma ln25_lt6 : ln 25 < 6.
Proof.
  rewrite <- (ln_exp 6). apply ln_increasing; [lra|].
  replace 6 with (2 + 2 + 2) by ring. rewrite !exp_plus. generalize exp2_gt3. intro H. nra.
Qed.

Lemma ln50 : ln 50 = ln 2 + ln 25.
Proof. rewrite <- ln_mult by lra. apply f_equal; lra. Qed.

(* fn:cauchy ln(1 + |x|^2) in one dimension: x = 1, z = 7 *)
Lemma fcauchy_not_convex : exists x z, length z = length x /\ fcauchy_v z < fcauchy_v x + Rdot (fcauchy_g x) (Rvsub z x).
Proof.
  exists [1], [7]. split; [reflexivity|]. unfold fcauchy_v, fcauchy_g, dot, vsub, vscale; simpl; rops.
  replace (1 + (7 * 7 + 0)) with 50 by ring. replace (1 + (1 * 1 + 0)) with 2 by ring.
  rewrite ln50. generalize ln25_lt6. lra.
Qed.

(* the per-coefficient kernels: t = 0, o = 1, o' = 7 (cauchy); t = 1, o = 0, o' = -10 (savage, tangent) *)
Definition kernel_not_convex (kv kg : R -> R -> R) : Prop := exists t o o', kv t o' < kv t o + kg t o * (o' - o).

Lemma k_cauchy_not_convex : kernel_not_convex kr_cauchy_v kr_cauchy_g.
Proof.
  exists 0, 1, 7. unfold kr_cauchy_v, kr_cauchy_g.
  replace ((0 - 7) * (0 - 7) + 1) with 50 by ring. replace ((0 - 1) * (0 - 1) + 1) with 2 by ring.
  rewrite ln50. generalize ln25_lt6. lra.
Qed.

Lemma k_ecauchy_not_convex : kernel_not_convex kr_ecauchy_v kr_ecauchy_g.
Proof.
  exists 0, 1, 7. unfold kr_ecauchy_v, kr_ecauchy_g.
  replace ((7 - 0) * (7 - 0) + 1) with 50 by ring. replace ((1 - 0) * (1 - 0) + 1) with 2 by ring.
  rewrite ln50. generalize ln25_lt6. lra.
Qed.

Lemma k_ecauchy_twice : forall t o, kr_ecauchy_v t o = 2 * kr_cauchy_v t o /\ kr_ecauchy_g t o = 2 * kr_cauchy_g t o.
Proof.
  intros. unfold kr_ecauchy_v, kr_ecauchy_g, kr_cauchy_v, kr_cauchy_g. split.
  - replace ((o - t) * (o - t) + 1) with ((t - o) * (t - o) + 1) by ring. lra.
  - unfold Rdiv. ring.
Qed.

Lemma k_savage_not_convex : kernel_not_convex kr_savage_v kr_savage_g.
Proof.
  exists 1, 0, (-10). unfold kr_savage_v, kr_savage_g.
  replace (1 * 0) with 0 by ring. replace (- (1) * 0) with 0 by ring. rewrite exp_0.
  assert (E := exp_pos (1 * -10)). set (e := exp (1 * -10)) in *.
  assert (H : / ((1 + e) * (1 + e)) < 1).
  { apply Rmult_lt_reg_r with ((1 + e) * (1 + e)); [nra|]. rewrite Rinv_l by nra. nra. }
  lra.
Qed.

Lemma k_tangent_not_convex : kernel_not_convex kr_tangent_v kr_tangent_g.
Proof.
  exists 1, 0, (-10). unfold kr_tangent_v, kr_tangent_g.
  replace (1 * 0) with 0 by ring. rewrite atan_0.
  generalize (atan_bound (1 * -10)) PI_4 PI_RGT_0. set (a := atan (1 * -10)). intros [A1 A2] P4 P0.
  assert (B : (2 * a - 1) * (2 * a - 1) < 25) by nra.
  lra.
Qed.

(* the quadratic surrogate is declared non-convex for EVERY model: right for the model (0, 0, -1) (f = - x^2), pessimistic for
   (0, 0, 1) (f = x^2) *)
Lemma surrogate_not_convex : exists m x z, length z = length x /\ length m = (1 + length x + tri (length x))%nat /\
  sur_v Rops m z < sur_v Rops m x + Rdot (sur_g Rops m x) (Rvsub z x).
Proof.
  exists [0; 0; -1], [0], [1]. split; [reflexivity|]. split; [reflexivity|].
  unfold sur_v, sur_g, p2_row, vsub, vadd, vscale, zeros; simpl; unfold dot; simpl; rops. lra.
Qed.

(* ------------------------------------------------------------------------------------------------ *)
(* 5. functional constraints, gboost grads, the surrogate objectives                                  *)
(* ------------------------------------------------------------------------------------------------ *)
(* the flags of a functional constraint / of the grads and fit objectives are those of the wrapped object (translated kernels) *)
Lemma forwarding_as_in_source : forall (b : bool) (z : Z),
  functional_convex b = b /\ functional_smooth b = b /\ functional_strong_convexity z = z /\ grads_convex b = b /\ surrogate_fit_convex b = b.
Proof. intros [|] z; repeat split. Qed.

Lemma cons_functional_convex : forall (fconvex : bool) f g mu,
  (fconvex = true -> convex_on f g mu) ->
  functional_convex fconvex = true -> convex_on (cons_functional_v f) (cons_functional_g g) mu.
Proof. intros b f g mu H Hb. destruct (forwarding_as_in_source b 0%Z) as (E & _). rewrite E in Hb. exact (H Hb). Qed.

(* gboost grads: the blocks of the concatenated outputs *)
Fixpoint gr_ok (D : list R -> list R -> Prop) (ts : list (list R)) (k : nat) (x : list R) : Prop :=
  match ts with [] => True | t :: ts' => D t (firstn k x) /\ gr_ok D ts' k (skipn k x) end.

Lemma dot_app : forall a b c d, length a = length c -> Rdot (a ++ b) (c ++ d) = Rdot a c + Rdot b d.
Proof. intros. unfold dot. apply sum2_app. assumption. Qed.

Lemma gr_convex : forall D L G, loss_convex_on D L G -> (forall t o, D t o -> length (G t o) = length o) ->
  forall ts k x z, length x = (length ts * k)%nat -> length z = length x -> gr_ok D ts k x ->
  length (gr_cat G ts k x) = length x /\
  gr_sum Rops L ts k z >= gr_sum Rops L ts k x + Rdot (gr_cat G ts k x) (Rvsub z x).
Proof.
  intros D L G HL HG. induction ts as [|t ts IH]; intros k x z Hx Hz Hok.
  - simpl in Hx. destruct x; [|discriminate]. destruct z; [|discriminate]. simpl. unfold dot; simpl; rops. split; [reflexivity | lra].
  - destruct Hok as (HD & Hok). cbn [gr_sum gr_cat]. cbn [length] in Hx.
    assert (Lfx : length (firstn k x) = k) by (rewrite firstn_length; lia).
    assert (Lfz : length (firstn k z) = k) by (rewrite firstn_length; lia).
    assert (Lsx : length (skipn k x) = (length ts * k)%nat) by (rewrite skipn_length; lia).
    assert (Lsz : length (skipn k z) = length (skipn k x)) by (rewrite !skipn_length; lia).
    destruct (IH k (skipn k x) (skipn k z) Lsx Lsz Hok) as (Lg & I).
    assert (LG : length (G t (firstn k x)) = k) by (rewrite (HG _ _ HD); exact Lfx).
    split; [rewrite app_length, LG, Lg, Lsx; lia|].
    rewrite <- (firstn_skipn k z) at 3. rewrite <- (firstn_skipn k x) at 5.
    rewrite vsub_app by lia. rewrite dot_app by (rewrite vsub_length; lia).
    generalize (HL t (firstn k x) (firstn k z) HD ltac:(lia)). cbn [o_add Rops]. lra.
Qed.

Lemma grads_convex_thm : forall D L G, loss_convex_on D L G -> (forall t o, D t o -> length (G t o) = length o) ->
  forall ts k x z, length x = (length ts * k)%nat -> length z = length x -> gr_ok D ts k x ->
  grads_v Rops L ts k z >= grads_v Rops L ts k x + Rdot (grads_g Rops G ts k x) (Rvsub z x).
Proof.
  intros D L G HL HG ts k x z Hx Hz Hok. unfold grads_v, grads_g. destruct (gr_convex D L G HL HG ts k x z Hx Hz Hok) as (_ & I).
  rewrite dot_vscale_l. cbn [o_mul Rops]. generalize (inv_nat_nonneg (length ts)). intro Hn. set (c := inv_nat Rops (length ts)) in *. nra.
Qed.

(* surrogate FIT objective sum_i L(y_i, phi(p_i) . x): convex for every loss convex in its outputs *)
Lemma fit_convex : forall D L G data x z n, loss_convex_on D L G -> length x = n -> length z = n ->
  List.Forall (sample_ok D n x) data ->
  fit_v Rops L data z >= fit_v Rops L data x + Rdot (fit_g Rops G data x) (Rvsub z x).
Proof.
  intros D L G data x z n HL Hx Hz Hok. unfold fit_v, fit_g.
  assert (H : length z = length x) by lia.
  destruct (psum_subgrad (fun s y => L (fst (fst s)) (sample_out Rops s y))
                         (fun s y => Rmtv (length y) (snd (fst s)) (G (fst (fst s)) (sample_out Rops s y))) data x z H) as (Lg & I); [|exact I].
  intros s Hin. rewrite Forall_forall in Hok. destruct (Hok s Hin) as (Hr & Hc & HD). rewrite Hx.
  split; [rewrite mtv_length; auto|].
  unfold sample_out in *. destruct s as [[t M] c]. cbn [fst snd] in *.
  assert (Lo : length (Rvadd (Rmv M z) c) = length (Rvadd (Rmv M x) c)) by (rewrite !vadd_length; rewrite ?mv_length; auto).
  generalize (HL t _ _ HD Lo). rewrite vsub_vadd_cancel by (rewrite mv_length; auto).
  rewrite <- (mv_vsub M z x H), (mtv_adjoint n M _ (Rvsub z x) Hr) by (rewrite vsub_length; lia). lra.
Qed.

Lemma quadfeat_length : forall p : list R, length (quadfeat Rops p) = tri (length p).
Proof. induction p as [|a p IH]; [reflexivity|]. cbn [quadfeat]. rewrite app_length, map_length, IH. reflexivity. Qed.

Lemma p2_row_length : forall p : list R, length (p2_row Rops p) = (1 + length p + tri (length p))%nat.
Proof. intro p. unfold p2_row. cbn [length]. rewrite app_length, quadfeat_length. lia. Qed.

(* the samples the constructor builds (one feature row per sample, one output) are admissible for every coefficient-wise loss *)
Lemma fit_data_ok : forall ps ys np x, List.Forall (fun p : list R => length p = np) ps ->
  List.Forall (sample_ok (fun _ _ => True) (1 + np + tri np) x) (fit_data Rops ps ys).
Proof.
  intros ps ys np x Hp. unfold fit_data. rewrite Forall_forall. intros s Hs. apply in_map_iff in Hs. destruct Hs as ((p & y) & <- & Hin).
  apply in_combine_l in Hin. rewrite Forall_forall in Hp. specialize (Hp p Hin).
  unfold sample_ok. cbn [fst snd]. repeat split. constructor; [|constructor]. rewrite p2_row_length, Hp. reflexivity.
Qed.

(* the quadratic surrogate m . phi(x): exact expansion with the gradient loops of the source; the remainder is the quadratic part at d *)
Lemma sur_quad_expand : forall x z mq, length z = length x -> length mq = tri (length x) ->
  length (sur_qg Rops mq x) = length x /\
  Rdot mq (quadfeat Rops z) =
  Rdot mq (quadfeat Rops x) + Rdot (sur_qg Rops mq x) (Rvsub z x) + Rdot mq (quadfeat Rops (Rvsub z x)).
Proof.
  induction x as [|a x IH]; intros [|a' z] mq Hl Hm; try discriminate.
  - simpl. rewrite !dot_nil_r. unfold dot; simpl. split; [reflexivity | rops; ring].
  - injection Hl as Hl. cbn [length tri] in Hm.
    pose proof (firstn_skipn (S (length x)) mq) as E.
    assert (Lrow : length (firstn (S (length x)) mq) = S (length x)) by (rewrite firstn_length; lia).
    assert (Lrest : length (skipn (S (length x)) mq) = tri (length x)) by (rewrite skipn_length; lia).
    cbn [sur_qg length].
    remember (firstn (S (length x)) mq) as row. remember (skipn (S (length x)) mq) as rest. clear Heqrow Heqrest. subst mq.
    destruct (IH z rest Hl Lrest) as (Lg & I).
    assert (Ld : length (Rvsub z x) = length x) by (apply vsub_length; exact Hl).
    assert (L1 : length (Rvadd (Rdot row (a :: x) :: Rzeros (length x)) (Rvscale a row)) = S (length x)).
    { rewrite vadd_length; rewrite vscale_length; [exact Lrow|]. cbn [length]. rewrite zeros_length. lia. }
    split.
    { rewrite vadd_length; cbn [length]; lia. }
    assert (Hz : Rdot row (a' :: z) = Rdot row (a :: x) + Rdot row (Rvsub (a' :: z) (a :: x))).
    { rewrite (dot_vsub_r row (a' :: z) (a :: x)) by (simpl; lia). ring. }
    rewrite vsub_cons in *. set (e := a' - a) in *. set (d := Rvsub z x) in *.
    cbn [quadfeat]. fold (Rvscale a' (a' :: z)) (Rvscale a (a :: x)) (Rvscale e (e :: d)).
    rewrite !dot_app by (rewrite vscale_length; cbn [length]; lia).
    rewrite !dot_vscale_r, I, Hz.
    rewrite dot_vadd_l by (rewrite L1; cbn [length]; lia).
    rewrite dot_vadd_l by (rewrite vscale_length; cbn [length]; rewrite zeros_length; lia).
    rewrite dot_vscale_l, !dot_cons, dot_zeros_l. cbn [o_zero Rops].
    replace a' with (a + e) by (unfold e; ring). ring.
Qed.

Lemma firstn_app_exact : forall (A : Type) (l1 l2 : list A) n, length l1 = n -> firstn n (l1 ++ l2) = l1.
Proof. intros A l1 l2 n <-. rewrite firstn_app, Nat.sub_diag, firstn_all. simpl. apply app_nil_r. Qed.
Lemma skipn_app_exact : forall (A : Type) (l1 l2 : list A) n, length l1 = n -> skipn n (l1 ++ l2) = l2.
Proof. intros A l1 l2 n <-. rewrite skipn_app, Nat.sub_diag, skipn_all. reflexivity. Qed.

Lemma sur_expand : forall m x z, length z = length x -> length m = (1 + length x + tri (length x))%nat ->
  sur_v Rops m z = sur_v Rops m x + Rdot (sur_g Rops m x) (Rvsub z x) + sur_q Rops m (Rvsub z x).
Proof.
  intros m x z Hl Hm. destruct m as [|m0 m]; [discriminate|]. cbn [length] in Hm.
  pose proof (firstn_skipn (length x) m) as E.
  assert (Lml : length (firstn (length x) m) = length x) by (rewrite firstn_length; lia).
  assert (Lmq : length (skipn (length x) m) = tri (length x)) by (rewrite skipn_length; lia).
  unfold sur_v, sur_g, sur_q, p2_row. cbn [tl skipn]. rewrite (vsub_length z x Hl).
  remember (firstn (length x) m) as ml. remember (skipn (length x) m) as mq. clear Heqml Heqmq. subst m.
  destruct (sur_quad_expand x z mq Hl Lmq) as (Lg & I).
  rewrite !dot_cons, !dot_app by lia. rewrite I.
  rewrite dot_vadd_l by lia. rewrite (dot_vsub_r ml z x Hl). cbn [o_one Rops]. ring.
Qed.

(* the remainder is a quadratic form of the direction only: sur_q m (s d) = s^2 sur_q m d *)
Lemma quadfeat_scale : forall s d, quadfeat Rops (Rvscale s d) = Rvscale (s * s) (quadfeat Rops d).
Proof.
  intros s. induction d as [|e d IH]; [reflexivity|]. unfold vscale in *. cbn [map quadfeat]. rewrite map_app, IH. f_equal.
  cbn [map]. f_equal; [rops; ring|]. rewrite !map_map. apply map_ext. intro v. rops. ring.
Qed.

(* pessimistic the other way: the model (0, 0, 1) (f = x^2) IS convex although every surrogate is declared non-convex *)
Lemma surrogate_convex_instance : forall x z, length x = 1%nat -> length z = 1%nat ->
  sur_v Rops [0; 0; 1] z >= sur_v Rops [0; 0; 1] x + Rdot (sur_g Rops [0; 0; 1] x) (Rvsub z x).
Proof.
  intros [|u [|? ?]] [|v [|? ?]] Hx Hz; try discriminate.
  unfold sur_v, sur_g, p2_row, vsub, vadd, vscale, zeros; simpl; unfold dot; simpl; rops. generalize (sqr_ge0 (v - u)). nra.
Qed.

(* ------------------------------------------------------------------------------------------------ *)
(* 6. maxquad: the matrices the constructor fills are symmetric and positive semi-definite             *)
(*    (diagonally dominant with a non-negative own diagonal term: a sum of border blocks)              *)
(* ------------------------------------------------------------------------------------------------ *)
(* the index tests of the source (translated, over Z) as tests on nat *)
Lemma mq_offdiag_nat : forall i j, mq_offdiag i j = negb (Nat.eqb i j).
Proof.
  intros. unfold mq_offdiag, src_c06rest_maxquad_offdiag. f_equal.
  destruct (Nat.eqb_spec i j); [apply Z.eqb_eq; lia | apply Z.eqb_neq; lia].
Qed.
Lemma mq_assigned_nat : forall i j, mq_assigned_in_row i j = Nat.ltb i j.
Proof.
  intros. unfold mq_assigned_in_row, src_c06rest_maxquad_jstart.
  destruct (Nat.ltb_spec i j); [apply Z.leb_le; lia | apply Z.leb_gt; lia].
Qed.
Lemma mq_index_exprs : forall i : Z, src_c06rest_maxquad_si i = (i + 1)%Z /\ src_c06rest_maxquad_sj i = (i + 1)%Z /\
  src_c06rest_maxquad_sk i = (i + 1)%Z /\ src_c06rest_maxquad_jstart i = (i + 1)%Z.
Proof. intro i. repeat split. Qed.

Definition offN (i j : nat) : bool := negb (Nat.eqb i j).
Definition entryN (e : nat -> nat -> R) (i j : nat) : R := if Nat.ltb i j then e i j else e j i.
Definition offsumN (e : nat -> nat -> R) (n i : nat) : R :=
  total Rops (map (fun j => pabs Rops (entryN e i j)) (filter (offN i) (seq 0 n))).
Definition matN (e : nat -> nat -> R) (dg : nat -> R) (n : nat) : list (list R) :=
  map (fun i => map (fun j => if offN i j then entryN e i j else dg i + offsumN e n i) (seq 0 n)) (seq 0 n).

Lemma mqf_matrix_nat : forall e dg n, mqf_matrix Rops e dg n = matN e dg n.
Proof.
  intros e dg n. unfold mqf_matrix, matN. apply map_ext. intro i. apply map_ext. intro j.
  rewrite mq_offdiag_nat. fold (offN i j). unfold mqf_entry. rewrite mq_assigned_nat. fold (entryN e i j).
  destruct (offN i j); [reflexivity|]. cbn [o_add Rops]. f_equal. unfold mqf_offsum, offsumN. f_equal.
  rewrite (filter_ext (mq_offdiag i) (offN i)) by (intro a; apply mq_offdiag_nat).
  apply map_ext. intro a. unfold mqf_entry. rewrite mq_assigned_nat. reflexivity.
Qed.

(* a border: first row / column (d0, r), the rest A *)
Fixpoint consrows (r : list R) (A : list (list R)) : list (list R) :=
  match r, A with rj :: r', row :: A' => (rj :: row) :: consrows r' A' | _, _ => [] end.
Definition bordered (d0 : R) (r : list R) (A : list (list R)) : list (list R) := (d0 :: r) :: consrows r A.

Lemma consrows_map : forall {I : Type} (f : I -> R) (g : I -> list R) (l : list I),
  consrows (map f l) (map g l) = map (fun i => f i :: g i) l.
Proof. induction l as [|a l IH]; [reflexivity|]. cbn [map consrows]. now rewrite IH. Qed.

Lemma mv_consrows : forall r A x0 x', length r = length A -> Rmv (consrows r A) (x0 :: x') = Rvadd (Rvscale x0 r) (Rmv A x').
Proof.
  induction r as [|rj r IH]; intros [|row A] x0 x' H; try discriminate; [reflexivity|]. injection H as H.
  cbn [consrows mv map]. fold (Rmv (consrows r A) (x0 :: x')) (Rmv A x'). rewrite (IH A x0 x' H), dot_cons.
  unfold vadd, vscale. cbn [map map2]. f_equal. rops. ring.
Qed.

Lemma bordered_form : forall d0 r A u0 u' v0 v', length r = length A -> length u' = length A ->
  Rdot (u0 :: u') (Rmv (bordered d0 r A) (v0 :: v')) = d0 * u0 * v0 + u0 * Rdot r v' + v0 * Rdot u' r + Rdot u' (Rmv A v').
Proof.
  intros d0 r A u0 u' v0 v' Hr Hu. unfold bordered. cbn [mv map]. fold (Rmv (consrows r A) (v0 :: v')).
  rewrite (mv_consrows r A v0 v' Hr), !dot_cons.
  rewrite dot_vadd_r by (rewrite vscale_length, mv_length; exact Hr). rewrite dot_vscale_r. ring.
Qed.

(* diagonally dominant matrices as iterated borders; [gs] = the own diagonal terms *)
Inductive ddm : nat -> list (list R) -> list R -> Prop :=
| ddm_nil : ddm 0 [] []
| ddm_cons : forall n g0 r A gs, length r = n -> length gs = n ->
    ddm n A (map2 (fun g rj => g + pabs Rops rj) gs r) ->
    ddm (S n) (bordered (g0 + total Rops (map (pabs Rops) r)) r A) (g0 :: gs).

Lemma consrows_shape : forall m n r A, length r = n -> length A = n -> rows_len m A ->
  length (consrows r A) = n /\ rows_len (S m) (consrows r A).
Proof.
  intro m. induction n as [|n IH]; intros [|rj r] [|row A] Hr HA HR; try discriminate; [split; [reflexivity | constructor]|].
  injection Hr as Hr. injection HA as HA. assert (H1 := Forall_inv HR). assert (H2 := Forall_inv_tail HR). cbn beta in H1.
  destruct (IH r A Hr HA H2) as (L & R').
  cbn [consrows length]. split; [lia|]. constructor; [cbn [length]; lia | exact R'].
Qed.

Lemma ddm_shape : forall n A gs, ddm n A gs -> length A = n /\ rows_len n A /\ length gs = n.
Proof.
  intros n A gs H. induction H as [|n g0 r A gs Hr Hg H IH]; [repeat split; constructor|].
  destruct IH as (LA & RA & _). destruct (consrows_shape n n r A Hr LA RA) as (L & R').
  unfold bordered. cbn [length]. repeat split; try lia. constructor; [cbn [length]; lia | exact R'].
Qed.

Lemma pabs_bounds : forall a, 0 <= pabs Rops a /\ - pabs Rops a <= a <= pabs Rops a.
Proof. intro a. unfold pabs. rops. rcases; lra. Qed.

Lemma border_nonneg : forall r x' x0, length x' = length r ->
  0 <= total Rops (map (pabs Rops) r) * (x0 * x0) + 2 * x0 * Rdot r x' + sum2 Rops (fun rj u => pabs Rops rj * (u * u)) r x'.
Proof.
  induction r as [|rj r IH]; intros [|u x'] x0 H; try discriminate; [unfold dot; simpl; rops; lra|]. injection H as H.
  specialize (IH x' x0 H). cbn [map sum2]. rewrite total_cons, dot_cons. cbn [o_add Rops].
  destruct (pabs_bounds rj) as (P0 & P1 & P2). set (p := pabs Rops rj) in *.
  assert (K : 0 <= p * (x0 * x0) + 2 * x0 * (rj * u) + p * (u * u)).
  { generalize (sqr_ge0 (x0 + u)) (sqr_ge0 (x0 - u)). intros S1 S2.
    destruct (Rle_dec 0 (x0 * u)) as [Q|Q]; nra. }
  lra.
Qed.

Lemma sum2_map2_split : forall (gs r x : list R), length r = length gs -> length x = length gs ->
  sum2 Rops (fun g u => g * (u * u)) (map2 (fun g rj => g + pabs Rops rj) gs r) x =
  sum2 Rops (fun g u => g * (u * u)) gs x + sum2 Rops (fun rj u => pabs Rops rj * (u * u)) r x.
Proof.
  induction gs as [|g gs IH]; intros [|rj r] [|u x] Hr Hx; try discriminate; [simpl; rops; ring|].
  injection Hr as Hr. injection Hx as Hx. cbn [map2 sum2]. rewrite (IH r x Hr Hx). rops. ring.
Qed.

(* x'Ax >= sum_i g_i x_i^2: positive semi-definite when the own diagonal terms are non-negative *)
Lemma ddm_form_lower : forall n A gs, ddm n A gs -> forall x, length x = n ->
  Rdot x (Rmv A x) >= sum2 Rops (fun g u => g * (u * u)) gs x.
Proof.
  intros n A gs H. induction H as [|n g0 r A gs Hr Hg H IH]; intros x Hx.
  - destruct x; [|discriminate]. unfold dot; simpl; rops; lra.
  - destruct x as [|x0 x']; [discriminate|]. injection Hx as Hx.
    destruct (ddm_shape n A _ H) as (LA & RA & _).
    rewrite (bordered_form _ r A x0 x' x0 x') by lia.
    specialize (IH x' Hx). rewrite (sum2_map2_split gs r x') in IH by lia.
    cbn [sum2]. cbn [o_add Rops]. generalize (border_nonneg r x' x0 ltac:(lia)). rewrite (dot_comm x' r). lra.
Qed.

Lemma ddm_sym : forall n A gs, ddm n A gs -> sym_form n A.
Proof.
  intros n A gs H. induction H as [|n g0 r A gs Hr Hg H IH]; intros u v Hu Hv.
  - destruct u; [|discriminate]. destruct v; [|discriminate]. reflexivity.
  - destruct u as [|u0 u']; [discriminate|]. destruct v as [|v0 v']; [discriminate|]. injection Hu as Hu. injection Hv as Hv.
    destruct (ddm_shape n A _ H) as (LA & RA & _).
    rewrite !bordered_form by lia. rewrite (IH u' v' Hu Hv), (dot_comm u' r), (dot_comm v' r). ring.
Qed.

Lemma sum2_nonneg_weights : forall gs x, List.Forall (fun g => 0 <= g) gs -> 0 <= sum2 Rops (fun g u => g * (u * u)) gs x.
Proof.
  induction gs as [|g gs IH]; intros [|u x] Hg; simpl; rops; try lra. inversion Hg as [|? ? G0 G1]; subst.
  generalize (IH x G1) (sqr_ge0 u). nra.
Qed.

(* the matrix of the constructor is such an iterated border *)
Lemma filter_map_S : forall (p : nat -> bool) l, filter p (map S l) = map S (filter (fun j => p (S j)) l).
Proof. induction l as [|a l IH]; [reflexivity|]. cbn [map filter]. destruct (p (S a)); cbn [map]; now rewrite IH. Qed.

Lemma offsumN_succ : forall e n i, offsumN e (S n) (S i) = pabs Rops (e 0%nat (S i)) + offsumN (fun a b => e (S a) (S b)) n i.
Proof.
  intros e n i. unfold offsumN. rewrite <- cons_seq, <- seq_shift. cbn [filter offN Nat.eqb negb map].
  rewrite total_cons. f_equal. f_equal. rewrite filter_map_S, map_map. reflexivity.
Qed.

Lemma offsumN_zero : forall e n, offsumN e (S n) 0 = total Rops (map (pabs Rops) (map (fun j => e 0%nat (S j)) (seq 0 n))).
Proof.
  intros e n. unfold offsumN. rewrite <- cons_seq, <- seq_shift. cbn [filter offN Nat.eqb negb].
  rewrite filter_map_S, !map_map. f_equal.
  rewrite (filter_ext (fun j => offN 0 (S j)) (fun _ => true)) by reflexivity.
  assert (F : forall l : list nat, filter (fun _ => true) l = l) by (induction l as [|a l IH]; [reflexivity | cbn [filter]; now rewrite IH]).
  rewrite F. reflexivity.
Qed.

Lemma matN_succ : forall e dg n,
  matN e dg (S n) =
  bordered (dg 0%nat + total Rops (map (pabs Rops) (map (fun j => e 0%nat (S j)) (seq 0 n)))) (map (fun j => e 0%nat (S j)) (seq 0 n))
           (matN (fun a b => e (S a) (S b)) (fun j => dg (S j) + pabs Rops (e 0%nat (S j))) n).
Proof.
  intros e dg n. unfold matN at 1. rewrite <- cons_seq, <- seq_shift. cbn [map]. unfold bordered. f_equal.
  - (* first row *) cbn [offN Nat.eqb negb]. rewrite offsumN_zero. f_equal. rewrite map_map. reflexivity.
  - (* the other rows *) rewrite map_map. unfold matN. rewrite consrows_map. apply map_ext. intro i.
    cbn [offN Nat.eqb negb entryN Nat.ltb Nat.leb]. f_equal. rewrite map_map. apply map_ext. intro j.
    change (offN (S i) (S j)) with (offN i j). destruct (offN i j); [reflexivity|].
    rewrite offsumN_succ. ring.
Qed.

Lemma map2_maps : forall {I : Type} (f g : I -> R) (h : R -> R -> R) (l : list I), map2 h (map f l) (map g l) = map (fun i => h (f i) (g i)) l.
Proof. induction l as [|a l IH]; [reflexivity|]. cbn [map map2]. now rewrite IH. Qed.

Lemma matN_ddm : forall n e dg, ddm n (matN e dg n) (map dg (seq 0 n)).
Proof.
  induction n as [|n IH]; intros e dg; [constructor|].
  rewrite matN_succ.
  replace (map dg (seq 0 (S n))) with (dg 0%nat :: map (fun j => dg (S j)) (seq 0 n))
    by (rewrite <- cons_seq, <- seq_shift; cbn [map]; now rewrite map_map).
  apply ddm_cons; [now rewrite map_length, seq_length | now rewrite map_length, seq_length |].
  rewrite (map2_maps (fun j => dg (S j)) (fun j => e 0%nat (S j)) (fun g rj => g + pabs Rops rj)). apply IH.
Qed.

(* maxquad.cpp: every A_k the constructor builds is symmetric positive semi-definite, whatever the off-diagonal entries are *)
Lemma mqf_matrix_ok : forall e dg n b, (forall i, 0 <= dg i) -> length b = n -> mq_ok n (mqf_matrix Rops e dg n, b).
Proof.
  intros e dg n b Hdg Hb. rewrite mqf_matrix_nat. generalize (matN_ddm n e dg). intro D.
  destruct (ddm_shape _ _ _ D) as (LA & _). unfold mq_ok. cbn [fst snd]. repeat split; auto.
  - exact (ddm_sym _ _ _ D).
  - intros d Hd. generalize (ddm_form_lower _ _ _ D d Hd).
    assert (P : 0 <= sum2 Rops (fun g u => g * (u * u)) (map dg (seq 0 n)) d).
    { apply sum2_nonneg_weights. rewrite Forall_forall. intros g Hg. apply in_map_iff in Hg. destruct Hg as (i & <- & _). apply Hdg. }
    lra.
Qed.

Lemma mq_dg_nonneg : forall k n i, 0 <= mq_dg k n i.
Proof.
  intros k n i. unfold mq_dg, mq_s, src_c06rest_maxquad_si. unfold Rdiv.
  assert (0 <= IZR (Z.of_nat i + 1)) by (apply IZR_le; lia).
  assert (0 <= / INR n) by (destruct n; [simpl; rewrite Rinv_0; lra | left; apply Rinv_0_lt_compat, lt_0_INR; lia]).
  generalize (Rabs_pos (sin (mq_sk k))). intro. apply Rmult_le_pos; [apply Rmult_le_pos|]; assumption.
Qed.

Lemma mq_pieces_ok : forall n kd, List.Forall (mq_ok n) (mq_pieces n kd).
Proof.
  intros n kd. unfold mq_pieces. rewrite Forall_forall. intros p Hp. apply in_map_iff in Hp. destruct Hp as (k & <- & _).
  apply mqf_matrix_ok; [intro i; apply mq_dg_nonneg | unfold mq_b; now rewrite map_length, seq_length].
Qed.

(* function_maxquad_t as constructed: convex, unconditionally *)
Lemma maxquad_constructed_convex : forall n kd x z, length x = n -> length z = n ->
  maxquad_v Rops (mq_pieces n kd) z >= maxquad_v Rops (mq_pieces n kd) x + Rdot (maxquad_g Rops (mq_pieces n kd) x) (Rvsub z x).
Proof. intros n kd x z Hx Hz. apply (maxquad_convex n); auto. apply mq_pieces_ok. Qed.

(* ------------------------------------------------------------------------------------------------ *)
(* 7. statements: the declarations of the source together with what is true                           *)
(* ------------------------------------------------------------------------------------------------ *)
Section Statements.
Import String.
Local Open Scope string_scope.

Lemma s3_polynomial_taylor :
  taylor4_on (schumer_v Rops) (schumer_g Rops) (schumer_r2 Rops) (schumer_r3 Rops) (schumer_r4 Rops) /\
  taylor4_on (styblinski_v Rops) (styblinski_g Rops) (styblinski_r2 Rops) (schumer_r3 Rops) (schumer_r4 Rops) /\
  taylor4_on (qing_v Rops) (qing_g Rops) (qing_r2 Rops) (schumer_r3 Rops) (schumer_r4 Rops) /\
  taylor4_on (axis_v Rops) (axis_g Rops) (axis_r2 Rops) (fun _ _ => 0) (fun _ _ => 0) /\
  taylor4_on (chung_v Rops) (chung_g Rops) (chung_r2 Rops) (chung_r3 Rops) (chung_r4 Rops) /\
  taylor4_on (sargan_v Rops) (sargan_g Rops) (sargan_r2 Rops) (sargan_r3 Rops) (sargan_r4 Rops) /\
  taylor4_on (zakharov_v Rops) (zakharov_g Rops) (zakharov_r2 Rops) (zakharov_r3 Rops) (zakharov_r4 Rops) /\
  taylor4_on (rosenbrock_v Rops) (rosenbrock_g Rops) (rosenbrock_r2 Rops) (rosenbrock_r3 Rops) (rosenbrock_r4 Rops) /\
  taylor4_on (dixon_v Rops) (dixon_g Rops) (dixon_r2 Rops) (dixon_r3 Rops) (dixon_r4 Rops) /\
  taylor4_on (powell_v Rops) (powell_g Rops) (powell_r2 Rops) (powell_r3 Rops) (powell_r4 Rops).
Proof.
  repeat split; [exact schumer_taylor | exact styblinski_taylor | exact qing_taylor | exact axis_taylor | exact chung_taylor | exact sargan_taylor
                | exact zakharov_taylor | exact rosenbrock_taylor | exact dixon_taylor | exact powell_taylor].
Qed.

Lemma s3_taylor_consequences : forall f g r2 r3 r4, taylor4_on f g r2 r3 r4 ->
  (forall x z, List.length z = List.length x ->
     f z = f x + Rdot (g x) (Rvsub z x) + (r2 x (Rvsub z x) + r3 x (Rvsub z x) + r4 x (Rvsub z x))) /\
  (forall x d, List.length d = List.length x -> is_derive (fun s => f (Ralong x s d)) 0 (Rdot (g x) d)).
Proof. intros f g r2 r3 r4 H. split; [exact (taylor4_expand f g r2 r3 r4 H) | exact (taylor4_is_derive f g r2 r3 r4 H)]. Qed.

Lemma s3_transcendental_deriv :
  (forall x d, List.length d = List.length x -> x <> [] -> is_derive (fun s => fexp_v (Ralong x s d)) 0 (Rdot (fexp_g x) d)) /\
  (forall x d, List.length d = List.length x -> is_derive (fun s => fcauchy_v (Ralong x s d)) 0 (Rdot (fcauchy_g x) d)) /\
  (forall a A x d, List.length d = List.length x -> rows_len (List.length x) A -> List.length a = List.length A ->
     is_derive (fun s => geo_v a A (Ralong x s d)) 0 (Rdot (geo_g a A x) d)) /\
  (forall a b ea eb,
     is_derive (fun s => cb3_v1 (a + s * ea) (b + s * eb)) 0 (cb3_p1a 0 a b * ea + cb3_p1b 0 a b * eb) /\
     is_derive (fun s => cb3_v2 (a + s * ea) (b + s * eb)) 0 (cb3_p2a 0 a b * ea + cb3_p2b 0 a b * eb) /\
     is_derive (fun s => cb3_v3 (a + s * ea) (b + s * eb)) 0 (cb3_p3a 0 a b * ea + cb3_p3b 0 a b * eb)) /\
  (forall x d, List.length d = List.length x ->
     is_derive (fun s => cb3_s1 (Ralong x s d)) 0 (Rdot (chain_g Rops cb3_p1a cb3_p1b 0 (bias2 Rops x) x) d) /\
     is_derive (fun s => cb3_s2 (Ralong x s d)) 0 (Rdot (chain_g Rops cb3_p2a cb3_p2b 0 (bias2 Rops x) x) d) /\
     is_derive (fun s => cb3_s3 (Ralong x s d)) 0 (Rdot (chain_g Rops cb3_p3a cb3_p3b 0 (bias2 Rops x) x) d)).
Proof.
  split; [exact fexp_is_derive|]. split; [exact fcauchy_is_derive|]. split; [exact geo_is_derive|].
  split; [exact cb3_pieces_is_derive | exact cb3_sums_is_derive].
Qed.

Lemma s3_fn_powell : declares "fn:powell" "no" "yes" "" /\ convex_on (powell_v Rops) (powell_g Rops) 0 /\
  (forall x0 x1 x2 x3 : Z,
     IZR (src_c06rest_powell_l0 x0 x1 x2 x3) = pw_l0 Rops (IZR x0) (IZR x1) /\
     IZR (src_c06rest_powell_l1 x0 x1 x2 x3) = pw_l1 Rops (IZR x2) (IZR x3) /\
     IZR (src_c06rest_powell_l2 x0 x1 x2 x3) = pw_l2 Rops (IZR x1) (IZR x2) /\
     IZR (src_c06rest_powell_l3 x0 x1 x2 x3) = pw_l3 Rops (IZR x0) (IZR x3) /\
     IZR (src_c06rest_powell_g0 x0 x1 x2 x3) = IZR x0 + IZR x3 /\
     IZR (src_c06rest_powell_g1 x0 x1 x2 x3) = IZR x0 * 10 + IZR x2 /\
     IZR (src_c06rest_powell_g2 x0 x1 x2 x3) = IZR x1 - 2 * IZR x2 /\
     IZR (src_c06rest_powell_g3 x0 x1 x2 x3) = - IZR x1 - IZR x3).
Proof. split; [reflexivity|]. split; [apply convex0, powell_convex | exact powell_forms_as_in_source]. Qed.

Lemma s3_fn_cauchy : declares "fn:cauchy" "no" "yes" "" /\ not_convex_on fcauchy_v fcauchy_g.
Proof. split; [reflexivity | exact fcauchy_not_convex]. Qed.

Lemma s3_loss_nonconvex :
  declares "loss:cauchy" "no" "yes" "" /\ kernel_not_convex kr_cauchy_v kr_cauchy_g /\
  declares "loss:savage" "no" "yes" "" /\ kernel_not_convex kr_savage_v kr_savage_g /\
  declares "loss:tangent" "no" "yes" "" /\ kernel_not_convex kr_tangent_v kr_tangent_g /\
  declares "enet-loss:cauchy" "no" "no" "" /\ kernel_not_convex kr_ecauchy_v kr_ecauchy_g /\
  (forall t o, kr_ecauchy_v t o = 2 * kr_cauchy_v t o /\ kr_ecauchy_g t o = 2 * kr_cauchy_g t o).
Proof.
  repeat split; try reflexivity; try exact k_cauchy_not_convex; try exact k_savage_not_convex; try exact k_tangent_not_convex;
    try exact k_ecauchy_not_convex; apply k_ecauchy_twice.
Qed.

Lemma s3_cons_functional :
  declares "cons:functional" "constraint.m_function->convex()" "constraint.m_function->smooth()" "constraint.m_function->strong_convexity()" /\
  (forall (b : bool) (z : Z), functional_convex b = b /\ functional_smooth b = b /\ functional_strong_convexity z = z) /\
  (forall (fconvex : bool) f g mu, (fconvex = true -> convex_on f g mu) ->
     functional_convex fconvex = true -> convex_on (cons_functional_v f) (cons_functional_g g) mu).
Proof.
  split; [reflexivity|]. split; [|exact cons_functional_convex].
  intros b z. destruct (forwarding_as_in_source b z) as (A & B & C & _). auto.
Qed.

Lemma s3_ml_grads : declares "ml:gboost-grads" "loss.convex()" "loss.smooth()" "" /\
  (forall b : bool, grads_convex b = b) /\
  (forall D L G, loss_convex_on D L G -> (forall t o, D t o -> List.length (G t o) = List.length o) ->
   forall ts k x z, List.length x = (List.length ts * k)%nat -> List.length z = List.length x -> gr_ok D ts k x ->
   grads_v Rops L ts k z >= grads_v Rops L ts k x + Rdot (grads_g Rops G ts k x) (Rvsub z x)).
Proof.
  split; [reflexivity|]. split; [|exact grads_convex_thm]. intro b. destruct (forwarding_as_in_source b 0%Z) as (_ & _ & _ & A & _). exact A.
Qed.

Lemma s3_ml_surrogate_fit : declares "ml:quadratic-surrogate-fitting-function" "loss.convex()" "loss.smooth()" "" /\
  (forall b : bool, surrogate_fit_convex b = b) /\
  (forall D L G data x z n, loss_convex_on D L G -> List.length x = n -> List.length z = n -> List.Forall (sample_ok D n x) data ->
     fit_v Rops L data z >= fit_v Rops L data x + Rdot (fit_g Rops G data x) (Rvsub z x)) /\
  (forall ps ys np x, List.Forall (fun p : list R => List.length p = np) ps ->
     List.Forall (sample_ok (fun _ _ => True) (1 + np + tri np) x) (fit_data Rops ps ys)) /\
  (forall d : Z, (0 <= d)%Z -> src_c06_surrogate_fit_size d = Z.of_nat (1 + Z.to_nat d + tri (Z.to_nat d))).
Proof.
  split; [reflexivity|]. split; [intro b; destruct (forwarding_as_in_source b 0%Z) as (_ & _ & _ & _ & A); exact A|].
  split; [exact fit_convex|]. split; [exact fit_data_ok|].
  intros d Hd. unfold src_c06_surrogate_fit_size.
  assert (T : forall n, (2 * Z.of_nat (tri n) = Z.of_nat n * (Z.of_nat n + 1))%Z).
  { induction n as [|n IH]; [reflexivity|]. cbn [tri]. rewrite Nat2Z.inj_add, !Nat2Z.inj_succ. lia. }
  specialize (T (Z.to_nat d)). rewrite Z2Nat.id in T by exact Hd.
  rewrite !Nat2Z.inj_add, Z2Nat.id by exact Hd. change (Z.of_nat 1) with 1%Z.
  symmetry. apply Z.quot_unique with 0%Z; nia.
Qed.

Lemma s3_ml_surrogate : declares "ml:quadratic-surrogate-function" "no" "yes" "" /\
  (forall m x z, List.length z = List.length x -> List.length m = (1 + List.length x + tri (List.length x))%nat ->
     sur_v Rops m z = sur_v Rops m x + Rdot (sur_g Rops m x) (Rvsub z x) + sur_q Rops m (Rvsub z x)) /\
  (forall s d, quadfeat Rops (Rvscale s d) = Rvscale (s * s) (quadfeat Rops d)) /\
  (exists m x z, List.length z = List.length x /\ List.length m = (1 + List.length x + tri (List.length x))%nat /\
     sur_v Rops m z < sur_v Rops m x + Rdot (sur_g Rops m x) (Rvsub z x)) /\
  (forall x z, List.length x = 1%nat -> List.length z = 1%nat ->
     sur_v Rops [0; 0; 1] z >= sur_v Rops [0; 0; 1] x + Rdot (sur_g Rops [0; 0; 1] x) (Rvsub z x)) /\
  (forall i : Z, src_c06rest_surrogate_jstart i = i).
Proof.
  split; [reflexivity|]. split; [exact sur_expand|]. split; [exact quadfeat_scale|]. split; [exact surrogate_not_convex|].
  split; [exact surrogate_convex_instance | reflexivity].
Qed.
Lemma s3_fn_maxquad_constructed : declares "fn:maxquad" "yes" "no" "0.0" /\
  (forall e dg n b, (forall i, 0 <= dg i) -> List.length b = n -> mq_ok n (mqf_matrix Rops e dg n, b)) /\
  (forall n kd, List.Forall (mq_ok n) (mq_pieces n kd)) /\
  (forall n kd, convex_on_n n (maxquad_v Rops (mq_pieces n kd)) (maxquad_g Rops (mq_pieces n kd)) 0) /\
  (forall i j, mq_offdiag i j = negb (Nat.eqb i j) /\ mq_assigned_in_row i j = Nat.ltb i j) /\
  (forall i : Z, src_c06rest_maxquad_si i = (i + 1)%Z /\ src_c06rest_maxquad_sj i = (i + 1)%Z /\
                 src_c06rest_maxquad_sk i = (i + 1)%Z /\ src_c06rest_maxquad_jstart i = (i + 1)%Z).
Proof.
  split; [reflexivity|]. split; [exact mqf_matrix_ok|]. split; [exact mq_pieces_ok|]. split.
  - intros n kd x z Hx Hz. generalize (maxquad_constructed_convex n kd x z Hx Hz). lra.
  - split; [intros i j; split; [apply mq_offdiag_nat | apply mq_assigned_nat] | exact mq_index_exprs].
Qed.
End Statements.
