(* C04 -- executable exact-rational model of the parts of the interior-point solver that C04_Defs / C04_Iter_Defs left out:

   (1) solver_t::solve_without_inequality (src/program/solver.cpp) -- programs without inequality rows:
         program.solve(matrix_t::zero(n, n), c, -b);          // lmat = [[Q - 0, A'], [A, 0]] (-0 for a linear program), lvec = (-c, b)
         state = solver_state_t{n, 0, p};  x = lsol[0, n);  v = lsol[n, n + p);  eta = 0.0;  update(x, u, v, miu, state);
         valid = isfinite(state.residual());   aprox = (lmat * lsol).isApprox(lvec, epsilon2);        // Eigen: |a - b|^2 <= prec^2 min(|a|^2, |b|^2)
         status = (valid && aprox) ? converged : (!valid ? failed : unfeasible);
       The LDLT answer (x, v) is an ORACLE ANSWER, `valid` an oracle bit (exact rationals are always finite).
   (2) linear_constrained_t::make_strictly_feasible (src/program/constrained.cpp) and make_x0 (solver.cpp) -- the default start.
       NB: the code does NOT solve an auxiliary linear program: for y in 1, 1/0.3, 0.3, 1/0.09, ... (100 trials, two per round, the second
       one only if the first fails) it takes the least-squares point x = (G'G)^-1 G' (h - y 1) ("all slacks equal to y" fitted in the
       least-squares sense) and returns the first one with max(G x - h) < 0; the equalities are never looked at; nothing found =>
       std::nullopt => make_x0 returns the zero vector.  The answers of `decomp.solve` are ORACLE ANSWERS (one per evaluated trial),
       the distances y are carried with them (doubles in the implementation: ym *= gamma, yM /= gamma are rounded).
   (3) the checked hypothesis [lu_ok_b]: the recorded (dx, dv) solves the reduced KKT system of the Newton iteration within a tolerance.

   Comparisons are the expressions translated from the sources (LNGen.Src_c04: src_c04_eq_status, src_c04_isapprox from Eigen's Fuzzy.h,
   src_c04_msf_accept / _cond / _start / _next / _trials), instantiated at numerators over a common denominator.
   No proofs in this file. *)
From Coq Require Import List ZArith QArith Qminmax Qabs Bool.
From LNGen Require Import Src_c04.
From LN Require Import C04_Defs C04_Step C04_Iter_Defs.
Import ListNotations.
Local Open Scope Q_scope.

(* ==== (1) solve_without_inequality ======================================================================================= *)
(* program_t::solve(hessvar, rdual, rprim): `m_lmat.block(0,0,n,n) = -hessvar | Q() - hessvar`, the off-diagonal blocks A', A and the zero
   block are written by the constructor; `m_lvec = (-rdual, -rprim)` *)
Definition kkt_mat (P : program) (H : mat) : mat :=
  happ (match pQ P with [] => mopp H | _ => msub (pQ P) H end) (tcols (dim P) (pA P))
  ++ map (fun a => a ++ zeros (length (pA P))) (pA P).
Definition kkt_vec (rd rp : vec) : vec := vopp rd ++ vopp rp.

(* `program.solve(matrix_t::zero(n, n), c, -b)` *)
Definition eq_lmat (P : program) : mat := kkt_mat P (mzero (dim P)).
Definition eq_lvec (P : program) : vec := kkt_vec (pc P) (vopp (pb P)).

(* three rationals over a common denominator *)
Definition zs3 (a b c : Q) : Z * Z * Z :=
  ((Qnum a * Zpos (Qden b * Qden c))%Z, (Qnum b * Zpos (Qden a * Qden c))%Z, (Qnum c * Zpos (Qden a * Qden b))%Z).

(* Eigen: a.isApprox(b, prec)  <=>  |a - b|^2 <= prec * prec * min(|a|^2, |b|^2)   (the translated expression of Fuzzy.h) *)
Definition approx_b (a b : vec) (prec : Q) : bool :=
  let pp := prec * prec in
  match zs3 (sumsq (vsub a b)) (sumsq a) (sumsq b) with
  | (zd, za, zb) => src_c04_isapprox (zd * Zpos (Qden pp))%Z (Qnum pp) za zb
  end.

Record eq_answer := mkEA { ea_x : vec; ea_v : vec; ea_valid : bool }.
Record eq_state := mkES { es_x : vec; es_v : vec; es_res : resid; es_aprox : bool; es_status : Z }.

(* `solver_state_t{n, 0, p}` followed by `state.m_eta = 0.0` (NaN = 0 as in C04_Iter_Defs.res_init: only lengths matter) *)
Definition eq_res_init (P : program) : resid := mkRes 0 0 (zeros (dim P)) (zeros (length (pA P))) [].

Definition eq_solve (P : program) (mufx miu eps2 : Q) (ans : eq_answer) : eq_state :=
  let x := ea_x ans in
  let v := ea_v ans in
  let res := upd P mufx miu x [] v (eq_res_init P) in                       (* `program.update(state.m_x, state.m_u, state.m_v, miu, state)` *)
  let aprox := approx_b (mv (eq_lmat P) (x ++ v)) (eq_lvec P) eps2 in       (* `(m_lmat * m_lsol).isApprox(m_lvec, epsilon2)` *)
  mkES x v res aprox (src_c04_eq_status (ea_valid ans) aprox).

(* the residual of the KKT system for an answer (exactly zero for an exact one) *)
Definition eq_sys_residual (P : program) (x v : vec) : vec := vsub (mv (eq_lmat P) (x ++ v)) (eq_lvec P).

(* ==== (2) make_strictly_feasible / make_x0 ================================================================================= *)
(* `A.transpose() * A` (A = the inequality matrix G, n columns): row i is G' (G e_i) *)
Definition gram (n : nat) (G : mat) : mat := map (fun i => mtv n G (col i G)) (seq 0 n).
(* `b + vector_t::constant(A.rows(), -y)` *)
Definition msf_target (h : vec) (y : Q) : vec := map (fun t => t + - y) h.
(* `A.transpose() * (b + constant(-y))` *)
Definition msf_rhs (n : nat) (G : mat) (h : vec) (y : Q) : vec := mtv n G (msf_target h y).
(* residual of `decomp.solve(...)` for an answer x: (G'G) x - G' (h - y 1) *)
Definition msf_residual (n : nat) (G : mat) (h : vec) (y : Q) (x : vec) : vec := vsub (mv (gram n G) x) (msf_rhs n G h y).
Definition msf_slack (G : mat) (h x : vec) : vec := vsub (mv G x) h.
(* `(A * x.vector() - b).maxCoeff() < 0.0` *)
Definition msf_accept (G : mat) (h x : vec) : bool := src_c04_msf_accept (Qnum (vmaxc (msf_slack G h x))).

(* one pass of the loop body: `eval(ym) || eval(yM)` with the two oracle answers *)
Record msf_round := mkRound { r_ym : Q; r_xm : vec; r_yM : Q; r_xM : vec }.

Fixpoint msf_loop (fuel : nat) (trial trials : Z) (G : mat) (h : vec) (rounds : list msf_round) : option vec :=
  match fuel, rounds with
  | S f, r :: rest =>
      if src_c04_msf_cond trial trials
      then if msf_accept G h (r_xm r) then Some (r_xm r)                      (* `||` short-circuits: yM is not evaluated *)
           else if msf_accept G h (r_xM r) then Some (r_xM r)
           else msf_loop f (src_c04_msf_next trial) trials G h rest
      else None
  | _, _ => None
  end.

(* `if (m_ineq.valid()) { ... }` : nothing without inequality rows *)
Definition msf_run (G : mat) (h : vec) (rounds : list msf_round) : option vec :=
  match G with
  | [] => None
  | _ => msf_loop (S (Z.to_nat src_c04_msf_trials)) src_c04_msf_start src_c04_msf_trials G h rounds
  end.

(* the oracle answers solve their normal equations exactly *)
Definition msf_round_valid_b (n : nat) (G : mat) (h : vec) (r : msf_round) : bool :=
  all_zero_b (msf_residual n G h (r_ym r) (r_xm r)) && all_zero_b (msf_residual n G h (r_yM r) (r_xM r)).

(* the distances in exact arithmetic: ym = 1, yM = 1 / gamma, then ym *= gamma, yM /= gamma *)
Fixpoint msf_ys_b (gamma ym yM : Q) (rounds : list msf_round) : bool :=
  match rounds with
  | [] => true
  | r :: rest => Qeq_bool (r_ym r) ym && Qeq_bool (r_yM r) yM && msf_ys_b gamma (ym * gamma) (yM / gamma) rest
  end.
Definition msf_ys_ok_b (gamma : Q) (rounds : list msf_round) : bool := msf_ys_b gamma 1 (1 / gamma) rounds.

(* make_x0: `if (!x0) return vector_t::zero(program.m_c.size()); else return x0.value();` *)
Definition make_x0 (n : nat) (r : option vec) : vec := match r with None => zeros n | Some x => x end.

(* the default start of solve(program): make_x0 on the caller's program, then solve_with_inequality on the normalised one *)
Definition default_x0 (P : program) (rounds : list msf_round) : vec := make_x0 (dim P) (msf_run (pG P) (ph P) rounds).

(* ==== (3) the checked hypothesis about the LDLT answer of the Newton iteration ============================================== *)
(* every entry of lmat (dx, dv) - lvec is at most tol in absolute value (tol = 0: the hypothesis of C04_iter_elimination) *)
Definition lu_ok_b (P : program) (x u rd rc rp dx dv : vec) (tol : Q) : bool :=
  forallb (fun t => Qle_bool (Qabs t) tol) (sys_residual P x u rd rc rp dx dv).
