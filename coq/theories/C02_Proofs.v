(* C02 / C01 -- proofs about the model of C02_Defs.v.
   Section 1: IEEE facts on finite binary64 values through Flocq (Bminus_correct, Bltb_correct, Bleb_correct).
   Section 2: the translated kernels are what the proofs assume they are (re-checked against the source on every run).
   Section 3: invariants over ALL client op sequences.   Section 4: value_test.   Section 5: budget loop.
   Section 6: every trace accepted by the done() acceptor. *)
From Coq Require Import ZArith List Bool Reals Floats Lra Lia.
From Flocq Require Import Core BinarySingleNaN PrimFloat.
From LNGen Require Import Src_c02.
From LN Require Import C02_Defs.
Import ListNotations.

(* ------------------------------------------------------------------------------------------------------------- *)
(* 1. finite binary64 values                                                                                     *)
(* ------------------------------------------------------------------------------------------------------------- *)
Section FloatFacts.
Local Open Scope R_scope.

Lemma B2R_sign_false (x : binary_float prec emax) : is_finite x = true -> Bsign x = false -> 0 <= B2R x.
Proof.
  destruct x as [s|s| |s m e H]; simpl; intros F S; try discriminate; try lra.
  subst s. apply F2R_ge_0. simpl. lia.
Qed.
Lemma B2R_sign_true (x : binary_float prec emax) : is_finite x = true -> Bsign x = true -> B2R x <= 0.
Proof.
  destruct x as [s|s| |s m e H]; simpl; intros F S; try discriminate; try lra.
  subst s. apply F2R_le_0. simpl. lia.
Qed.

(* `m_fx - fx > 0.0` implies `fx < m_fx` (gradual underflow: no spurious zero; overflow keeps the sign) *)
Lemma sub_pos_lt (a b : PrimFloat.float) :
  PrimFloat.is_finite a = true -> PrimFloat.is_finite b = true ->
  PrimFloat.ltb PrimFloat.zero (PrimFloat.sub a b) = true -> PrimFloat.ltb b a = true.
Proof.
  rewrite !is_finite_equiv, !ltb_equiv, sub_equiv. intros Fa Fb H.
  rewrite (Bltb_correct _ _ _ _ Fb Fa).
  apply Rlt_bool_true.
  replace (Prim2B zero) with (B754_zero false : binary_float prec emax) in H
    by (rewrite zero_equiv, Prim2B_B2Prim; reflexivity).
  pose proof (fexp_correct prec emax Hprec) as VE.
  generalize (Bminus_correct prec emax Hprec Hmax mode_NE _ _ Fa Fb).
  set (X := Prim2B a) in *. set (Y := Prim2B b) in *.
  destruct (Rlt_bool _ _) eqn:OV.
  - intros (HR & HF & _).
    rewrite (Bltb_correct prec emax (B754_zero false) _ (eq_refl true) HF) in H. simpl in H.
    revert H; case Rlt_bool_spec; [intros H _|discriminate].
    rewrite HR in H.
    destruct (Rle_or_lt (B2R X - B2R Y) 0) as [LE|GT]; [|lra].
    exfalso.
    assert (R0 : round radix2 (fexp prec emax) (round_mode mode_NE) (B2R X - B2R Y) <= 0).
    { rewrite <- (round_0 radix2 (fexp prec emax) (round_mode mode_NE)).
      apply round_le; auto with typeclass_instances. }
    lra.
  - intros (HS & HSG).
    unfold Bltb in H. rewrite HS in H.
    destruct (Bsign X) eqn:SX; [discriminate H|].
    assert (SY : Bsign Y = true) by (destruct (Bsign Y); simpl in HSG; congruence).
    pose proof (B2R_sign_false X Fa SX) as PX.
    pose proof (B2R_sign_true Y Fb SY) as PY.
    destruct (Req_dec (B2R X) (B2R Y)) as [E|NE]; [|lra].
    exfalso. replace (B2R X - B2R Y) with 0 in OV by lra.
    rewrite round_0 in OV; auto with typeclass_instances.
    rewrite Rabs_R0 in OV.
    revert OV. case Rlt_bool_spec; [discriminate|]. intros LE _.
    pose proof (bpow_gt_0 radix2 emax). lra.
Qed.

Definition FR (a : PrimFloat.float) : R := B2R (Prim2B a).

Lemma fin_ltb (a b : PrimFloat.float) : PrimFloat.is_finite a = true -> PrimFloat.is_finite b = true ->
  (PrimFloat.ltb a b = true <-> FR a < FR b).
Proof.
  rewrite !is_finite_equiv, ltb_equiv. intros Fa Fb. rewrite (Bltb_correct _ _ _ _ Fa Fb). unfold FR.
  case Rlt_bool_spec; intros; split; intros; try lra; try discriminate; reflexivity.
Qed.
Lemma fin_leb (a b : PrimFloat.float) : PrimFloat.is_finite a = true -> PrimFloat.is_finite b = true ->
  (PrimFloat.leb a b = true <-> FR a <= FR b).
Proof.
  rewrite !is_finite_equiv, leb_equiv. intros Fa Fb. rewrite (Bleb_correct _ _ _ _ Fa Fb). unfold FR.
  case Rle_bool_spec; intros; split; intros; try lra; try discriminate; reflexivity.
Qed.
Lemma fin_leb_refl a : PrimFloat.is_finite a = true -> PrimFloat.leb a a = true.
Proof. intros F. apply fin_leb; auto. lra. Qed.
Lemma fin_leb_trans a b c :
  PrimFloat.is_finite a = true -> PrimFloat.is_finite b = true -> PrimFloat.is_finite c = true ->
  PrimFloat.leb a b = true -> PrimFloat.leb b c = true -> PrimFloat.leb a c = true.
Proof. intros Fa Fb Fc. rewrite !fin_leb by auto. lra. Qed.
Lemma fin_ltb_leb a b : PrimFloat.is_finite a = true -> PrimFloat.is_finite b = true ->
  PrimFloat.ltb a b = true -> PrimFloat.leb a b = true.
Proof. intros Fa Fb. rewrite fin_ltb, fin_leb by auto. lra. Qed.
End FloatFacts.

Local Open Scope Z_scope.

(* ------------------------------------------------------------------------------------------------------------- *)
(* 2. the translated kernels                                                                                     *)
(* ------------------------------------------------------------------------------------------------------------- *)
Lemma k_done_step_ok i v : src_done_step_ok i v = i && v.            Proof. reflexivity. Qed.
Lemma k_done_stop c s : src_done_stop c s = c || negb s.              Proof. reflexivity. Qed.
Lemma k_done_status c k v : src_done_status c k v = if c && k then ST_CONVERGED else ST_FAILED. Proof. reflexivity. Qed.   (* repo 85997bc *)
Lemma k_done_ret_stop : src_done_ret_stop = true.                     Proof. reflexivity. Qed.
Lemma k_done_ret_go : src_done_ret_go = false.                        Proof. reflexivity. Qed.
Lemma k_vt_loop it : src_vt_loop it = (it >? 0).                      Proof. reflexivity. Qed.
Lemma k_vt_pos it : src_vt_pos it = it - 1.                           Proof. reflexivity. Qed.
Lemma k_vt_index it : src_vt_index it = it - 1.                       Proof. reflexivity. Qed.
Lemma k_vt_none ii n : src_vt_none ii n = (ii =? n).                  Proof. reflexivity. Qed.
Lemma k_vt_enough n p : src_vt_enough n p = (n >=? p).                Proof. reflexivity. Qed.
Lemma k_vt_recent ii n p : src_vt_recent ii n p = (ii + p >=? n).     Proof. reflexivity. Qed.
Lemma k_fn_fcalls c : src_fn_fcalls c = c + 1.                        Proof. reflexivity. Qed.
Lemma k_fn_gcalls c g f : src_fn_gcalls c g f = c + (if g =? f then 1 else 0). Proof. reflexivity. Qed.

(* the budget-loop condition of every do_minimize (18 loops in 15 files) *)
Definition loop_conds : list (Z -> Z -> Z -> bool) :=
  [src_loop_asga2; src_loop_asga4; src_loop_cgd; src_loop_cocob; src_loop_csearch; src_loop_ellipsoid; src_loop_fpba;
   src_loop_gd; src_loop_gsample; src_loop_lbfgs; src_loop_osga; src_loop_pdsgm; src_loop_quasi; src_loop_rqb;
   src_loop_sgm; src_loop_pgm; src_loop_dgm; src_loop_fgm].
Definition is_budget_cond (c : Z -> Z -> Z -> bool) : Prop := forall fc gc m, c fc gc m = (fc + gc <? m).
Lemma k_loops : Forall is_budget_cond loop_conds.
Proof. repeat constructor. Qed.

(* ------------------------------------------------------------------------------------------------------------- *)
(* 3. client op sequences                                                                                        *)
(* ------------------------------------------------------------------------------------------------------------- *)
Lemma valid_set_calls s fc gc : valid (set_calls s fc gc) = valid s.
Proof. reflexivity. Qed.

Lemma done_step_spec s fc gc i c :
  done_step s fc gc i c =
  if c || negb (i && valid s)
  then (set_status (set_calls s fc gc) (if c && (i && valid s) then ST_CONVERGED else ST_FAILED), true)
  else (set_calls s fc gc, false).
Proof. reflexivity. Qed.

Lemma run_cons w o ops : run w (o :: ops) = run (fst (step w o)) ops.
Proof. reflexivity. Qed.

(* --- the function's counters and the reported counts ------------------------------------------------------ *)
Definition n_eval (ops : list op) : Z :=
  fold_right (fun o n => match o with OEval _ => n + 1 | _ => n end) 0 ops.
Definition n_geval (ops : list op) : Z :=
  fold_right (fun o n => match o with OEval true => n + 1 | _ => n end) 0 ops.

Lemma step_counters w o :
  wfc (fst (step w o)) = wfc w + (match o with OEval _ => 1 | _ => 0 end) /\
  wgc (fst (step w o)) = wgc w + (match o with OEval true => 1 | _ => 0 end).
Proof.
  destruct o as [g| |x g f|x g f|x f|i c]; simpl.
  - destruct g; simpl; split; reflexivity || lia.
  - split; lia.
  - split; lia.
  - unfold update_if_better. destruct (ffin f); simpl; split; lia.
  - unfold update_if_better2, update_if_better. destruct (ffin f); simpl; split; lia.
  - rewrite done_step_spec. destruct (c || negb (i && valid (wst w))); simpl; split; lia.
Qed.

Lemma run_counters ops : forall w,
  wfc (run w ops) = wfc w + n_eval ops /\ wgc (run w ops) = wgc w + n_geval ops.
Proof.
  induction ops as [|o ops IH]; intros w.
  - simpl. split; lia.
  - rewrite run_cons. destruct (IH (fst (step w o))) as [A B]. destruct (step_counters w o) as [C D].
    rewrite A, B, C, D. simpl. destruct o as [[|]| | | | |]; split; lia.
Qed.

Definition reported_le (w : world) : Prop := sfcalls (wst w) <= wfc w /\ sgcalls (wst w) <= wgc w.

Lemma step_reported w o : reported_le w -> 0 <= wfc w -> reported_le (fst (step w o)).
Proof.
  unfold reported_le. intros [A B] _.
  destruct o as [g| |x g f|x g f|x f|i c]; simpl.
  - destruct g; simpl; rewrite ?k_fn_fcalls; unfold src_fn_gcalls; simpl; split; lia.
  - split; lia.
  - split; lia.
  - unfold update_if_better. destruct (ffin f); [destruct (PrimFloat.ltb _ _)|]; simpl; split; lia.
  - unfold update_if_better2, update_if_better. destruct (ffin f); [destruct (PrimFloat.ltb _ _)|]; simpl; split; lia.
  - rewrite done_step_spec. destruct (c || negb (i && valid (wst w))); simpl; split; lia.
Qed.

Lemma run_reported ops : forall w, reported_le w -> reported_le (run w ops).
Proof.
  induction ops as [|o ops IH]; intros w H; [exact H|].
  rewrite run_cons. apply IH.
  destruct H as [A B]. unfold reported_le.
  destruct o as [g| |x g f|x g f|x f|i c]; simpl.
  - destruct g; simpl; rewrite ?k_fn_fcalls; unfold src_fn_gcalls; simpl; split; lia.
  - split; lia.
  - split; lia.
  - unfold update_if_better. destruct (ffin f); [destruct (PrimFloat.ltb _ _)|]; simpl; split; lia.
  - unfold update_if_better2, update_if_better. destruct (ffin f); [destruct (PrimFloat.ltb _ _)|]; simpl; split; lia.
  - rewrite done_step_spec. destruct (c || negb (i && valid (wst w))); simpl; split; lia.
Qed.

Lemma counts_bound ops w :
  reported_le w ->
  sfcalls (wst (run w ops)) <= wfc w + n_eval ops /\ sgcalls (wst (run w ops)) <= wgc w + n_geval ops.
Proof.
  intros H. destruct (run_reported ops w H) as [A B]. destruct (run_counters ops w) as [C D]. lia.
Qed.

(* --- monotone best value ------------------------------------------------------------------------------------ *)
Definition best_op (o : op) : bool := match o with OUpdate _ _ _ => false | _ => true end.

Lemma better_spec s fc gc x g f :
  ffin (sfx s) = true ->
  let '(s', r) := update_if_better s fc gc x g f in
  ffin (sfx s') = true /\ PrimFloat.leb (sfx s') (sfx s) = true /\
  (r = true -> PrimFloat.ltb (sfx s') (sfx s) = true /\ sfx s' = f /\ sx s' = x /\ sgx s' = g) /\
  (r = false -> sfx s' = sfx s /\ sx s' = sx s /\ sgx s' = sgx s).
Proof.
  intros F. unfold update_if_better. simpl.
  destruct (ffin f) eqn:Ff.
  - destruct (PrimFloat.ltb PrimFloat.zero (PrimFloat.sub (sfx s) f)) eqn:B; simpl.
    + pose proof (sub_pos_lt (sfx s) f F Ff B) as L.
      repeat split; auto; try discriminate. apply fin_ltb_leb; auto.
    + repeat split; auto; try discriminate. apply fin_leb_refl; auto.
  - simpl. repeat split; auto; try discriminate. apply fin_leb_refl; auto.
Qed.

(* without any assumption on the current value: a non-finite value is never stored *)
Lemma better_never_stores_nonfinite s fc gc x g f :
  let s' := fst (update_if_better s fc gc x g f) in sfx s' = sfx s \/ (sfx s' = f /\ ffin f = true).
Proof.
  unfold update_if_better. simpl. destruct (ffin f) eqn:Ff; simpl; auto.
  destruct (PrimFloat.ltb _ _); simpl; auto.
Qed.

Lemma step_best w o :
  best_op o = true -> ffin (sfx (wst w)) = true ->
  ffin (sfx (wst (fst (step w o)))) = true /\
  PrimFloat.leb (sfx (wst (fst (step w o)))) (sfx (wst w)) = true /\
  (match o with
   | OBetter3 _ _ _ | OBetter2 _ _ =>
     snd (step w o) = true -> PrimFloat.ltb (sfx (wst (fst (step w o)))) (sfx (wst w)) = true
   | _ => True
   end).
Proof.
  intros B F.
  destruct o as [g| |x g f|x g f|x f|i c]; simpl in *; try discriminate.
  - destruct g; simpl; repeat split; auto; apply fin_leb_refl; auto.
  - repeat split; auto; apply fin_leb_refl; auto.
  - pose proof (better_spec (wst w) (wfc w) (wgc w) x g f F) as H.
    destruct (update_if_better (wst w) (wfc w) (wgc w) x g f) as [s' r]. simpl.
    destruct H as (A & L & T & _). repeat split; auto. intros R. apply T; auto.
  - unfold update_if_better2.
    pose proof (better_spec (wst w) (wfc w) (wgc w) x (sgx (wst w)) f F) as H.
    destruct (update_if_better (wst w) (wfc w) (wgc w) x (sgx (wst w)) f) as [s' r]. simpl.
    destruct H as (A & L & T & _). repeat split; auto. intros R. apply T; auto.
  - rewrite done_step_spec. destruct (c || negb (i && valid (wst w))); simpl; repeat split; auto; apply fin_leb_refl; auto.
Qed.

Lemma run_monotone ops : forall w,
  forallb best_op ops = true -> ffin (sfx (wst w)) = true ->
  ffin (sfx (wst (run w ops))) = true /\ PrimFloat.leb (sfx (wst (run w ops))) (sfx (wst w)) = true.
Proof.
  induction ops as [|o ops IH]; intros w B F.
  - simpl. split; auto. apply fin_leb_refl; auto.
  - simpl in B. apply andb_true_iff in B. destruct B as [Bo Bs].
    destruct (step_best w o Bo F) as (F1 & L1 & _).
    rewrite run_cons. destruct (IH _ Bs F1) as (F2 & L2). split; auto.
    apply (fin_leb_trans _ (sfx (wst (fst (step w o)))) _); auto.
Qed.

(* --- honesty: the stored (x, fx[, gx]) is always one of the triples handed in ------------------------------ *)
Section Honest.
  Variable P : list PrimFloat.float -> PrimFloat.float -> Prop.
  Variable P3 : list PrimFloat.float -> list PrimFloat.float -> PrimFloat.float -> Prop.

  Definition op_pair_ok (o : op) : Prop :=
    match o with OUpdate x _ f | OBetter3 x _ f | OBetter2 x f => P x f | _ => True end.
  Definition op_triple_ok (o : op) : Prop :=
    match o with OUpdate x g f | OBetter3 x g f => P3 x g f | OBetter2 _ _ => False | _ => True end.

  Lemma step_pair w o : op_pair_ok o -> P (sx (wst w)) (sfx (wst w)) ->
    P (sx (wst (fst (step w o)))) (sfx (wst (fst (step w o)))).
  Proof.
    intros A H. destruct o as [g| |x g f|x g f|x f|i c]; simpl in *; auto;
      try (destruct g; simpl; auto; fail);
      try (unfold update_if_better2, update_if_better; destruct (ffin f); [destruct (PrimFloat.ltb _ _)|]; simpl; auto; fail);
      try (rewrite done_step_spec; destruct (c || negb (i && valid (wst w))); simpl; auto; fail).
  Qed.

  Lemma run_pair ops : forall w, Forall op_pair_ok ops -> P (sx (wst w)) (sfx (wst w)) ->
    P (sx (wst (run w ops))) (sfx (wst (run w ops))).
  Proof.
    induction ops as [|o ops IH]; intros w A H; [exact H|].
    inversion A; subst. rewrite run_cons. apply IH; auto. apply step_pair; auto.
  Qed.

  Lemma step_triple w o : op_triple_ok o -> P3 (sx (wst w)) (sgx (wst w)) (sfx (wst w)) ->
    P3 (sx (wst (fst (step w o)))) (sgx (wst (fst (step w o)))) (sfx (wst (fst (step w o)))).
  Proof.
    intros A H. destruct o as [g| |x g f|x g f|x f|i c]; simpl in *; auto; try contradiction;
      try (destruct g; simpl; auto; fail);
      try (unfold update_if_better; destruct (ffin f); [destruct (PrimFloat.ltb _ _)|]; simpl; auto; fail);
      try (rewrite done_step_spec; destruct (c || negb (i && valid (wst w))); simpl; auto; fail).
  Qed.

  Lemma run_triple ops : forall w, Forall op_triple_ok ops -> P3 (sx (wst w)) (sgx (wst w)) (sfx (wst w)) ->
    P3 (sx (wst (run w ops))) (sgx (wst (run w ops))) (sfx (wst (run w ops))).
  Proof.
    induction ops as [|o ops IH]; intros w A H; [exact H|].
    inversion A; subst. rewrite run_cons. apply IH; auto. apply step_triple; auto.
  Qed.
End Honest.

(* --- status --------------------------------------------------------------------------------------------------- *)
Definition status_ok (z : Z) : Prop := z = ST_MAX_ITERS \/ z = ST_CONVERGED \/ z = ST_FAILED.

Lemma step_status w o :
  sstatus (wst (fst (step w o))) = sstatus (wst w) \/
  (exists i c, o = ODone i c /\ snd (step w o) = true /\ (c || negb (i && valid (wst w))) = true /\
               sstatus (wst (fst (step w o))) = if c && (i && valid (wst w)) then ST_CONVERGED else ST_FAILED).
Proof.
  destruct o as [g| |x g f|x g f|x f|i c]; simpl; auto;
    try (destruct g; simpl; auto; fail);
    try (unfold update_if_better2, update_if_better; destruct (ffin f); [destruct (PrimFloat.ltb _ _)|]; simpl; auto; fail).
  rewrite done_step_spec. destruct (c || negb (i && valid (wst w))) eqn:E; simpl; auto.
  right. exists i, c. auto.
Qed.

Lemma run_status ops : forall w, status_ok (sstatus (wst w)) -> status_ok (sstatus (wst (run w ops))).
Proof.
  induction ops as [|o ops IH]; intros w H; [exact H|].
  rewrite run_cons. apply IH.
  destruct (step_status w o) as [E|(i & c & _ & _ & _ & E)]; rewrite E; auto.
  unfold status_ok. destruct (c && (i && valid (wst w))); auto.
Qed.

Lemma run_converged ops : forall w,
  sstatus (wst w) <> ST_CONVERGED -> sstatus (wst (run w ops)) = ST_CONVERGED -> exists i, In (ODone i true) ops.
Proof.
  induction ops as [|o ops IH]; intros w N H; [contradiction|].
  rewrite run_cons in H.
  destruct (step_status w o) as [E|(i & c & Eo & _ & _ & E)].
  - destruct (IH _ ltac:(rewrite E; exact N) H) as [i Hi]. exists i. right. exact Hi.
  - destruct c.
    + exists i. left. auto.
    + destruct (IH (fst (step w o))) as [j Hj]; auto.
      * rewrite E. simpl. discriminate.
      * exists j. right. exact Hj.
Qed.

(* repo 85997bc: `converged` is only ever set by a done(state, iter_ok = TRUE, converged = true) call *)
Lemma run_converged_ok ops : forall w,
  sstatus (wst w) <> ST_CONVERGED -> sstatus (wst (run w ops)) = ST_CONVERGED -> In (ODone true true) ops.
Proof.
  induction ops as [|o ops IH]; intros w N H; [contradiction|].
  rewrite run_cons in H.
  destruct (step_status w o) as [E|(i & c & Eo & _ & _ & E)].
  - right. apply (IH _ ltac:(rewrite E; exact N) H).
  - destruct c, i; try (left; auto; fail); right; apply (IH (fst (step w o))); auto; rewrite E; simpl; discriminate.
Qed.

Lemma run_failed ops : forall w,
  sstatus (wst w) <> ST_FAILED -> sstatus (wst (run w ops)) = ST_FAILED -> exists i c, In (ODone i c) ops.
Proof.
  induction ops as [|o ops IH]; intros w N H; [contradiction|].
  rewrite run_cons in H.
  destruct (step_status w o) as [E|(i & c & Eo & _ & _ & E)].
  - destruct (IH _ ltac:(rewrite E; exact N) H) as (i & c & Hi). exists i, c. right. exact Hi.
  - exists i, c. left. auto.
Qed.

(* done() stops exactly when converged or the step is not ok, and reports which *)
Lemma done_decision s fc gc i c :
  snd (done_step s fc gc i c) = c || negb (i && valid s) /\
  (snd (done_step s fc gc i c) = false -> sstatus (fst (done_step s fc gc i c)) = sstatus s /\ valid s = true /\ i = true /\ c = false) /\
  (snd (done_step s fc gc i c) = true ->
     sstatus (fst (done_step s fc gc i c)) = if c && (i && valid s) then ST_CONVERGED else ST_FAILED) /\
  sfcalls (fst (done_step s fc gc i c)) = fc /\ sgcalls (fst (done_step s fc gc i c)) = gc /\
  sx (fst (done_step s fc gc i c)) = sx s /\ sfx (fst (done_step s fc gc i c)) = sfx s /\
  sgx (fst (done_step s fc gc i c)) = sgx s.
Proof.
  rewrite done_step_spec. destruct c, i, (valid s) eqn:V; simpl; repeat split; auto; discriminate.
Qed.

(* what repo commit 85997bc excludes: before it, a done(state, iter_ok = false, converged = true) call on a valid state
   reported `converged` (the kernel-free reference of the old decision next to the current one) *)
Lemma done_prefix_converged_after_failed_iteration :
  exists s, valid s = true /\ done_ref_prefix s false true = (true, ST_CONVERGED) /\ done_ref s false true = (true, ST_FAILED).
Proof. exists (mkS [] 10%float [2%float] true 0 1 1 []). vm_compute. repeat split; reflexivity. Qed.

Lemma done_ref_spec s fc gc i c :
  done_ref s i c = (snd (done_step s fc gc i c), sstatus (fst (done_step s fc gc i c))).
Proof. rewrite done_step_spec. unfold done_ref. destruct (c || negb (i && valid s)); reflexivity. Qed.

(* --- history book-keeping ------------------------------------------------------------------------------------- *)
Definition n_better (ops : list op) : nat :=
  fold_right (fun o n => match o with OBetter3 _ _ _ | OBetter2 _ _ => S n | _ => n end) O ops.

Lemma step_hist w o :
  length (shist (wst (fst (step w o)))) =
  (length (shist (wst w)) + match o with OBetter3 _ _ _ | OBetter2 _ _ => 1 | _ => 0 end)%nat.
Proof.
  destruct o as [g| |x g f|x g f|x f|i c]; simpl; try lia;
    try (destruct g; simpl; lia);
    try (unfold update_if_better2, update_if_better; destruct (ffin f); [destruct (PrimFloat.ltb _ _)|]; simpl; lia);
    try (rewrite done_step_spec; destruct (c || negb (i && valid (wst w))); simpl; lia).
Qed.

Lemma run_hist ops : forall w, length (shist (wst (run w ops))) = (length (shist (wst w)) + n_better ops)%nat.
Proof.
  induction ops as [|o ops IH]; intros w; [simpl; lia|].
  rewrite run_cons, IH, step_hist. simpl. destruct o; lia.
Qed.

(* the entry pushed by update_if_better records an improvement (df > 0) exactly when it returned true *)
Lemma better_pushes s fc gc x g f :
  let '(s', r) := update_if_better s fc gc x g f in
  exists df dx, shist s' = (df, dx) :: shist s /\ PrimFloat.ltb PrimFloat.zero df = r.
Proof.
  unfold update_if_better. simpl. destruct (ffin f).
  - destruct (PrimFloat.ltb PrimFloat.zero (PrimFloat.sub (sfx s) f)) eqn:B; simpl; eauto.
  - simpl. exists f_lowest, f_lowest. split; reflexivity.
Qed.

(* ------------------------------------------------------------------------------------------------------------- *)
(* 4. value_test                                                                                                 *)
(* ------------------------------------------------------------------------------------------------------------- *)
Lemma vt_scan_spec h : forall it ii dd, it = Z.of_nat (length h) ->
  vt_scan h it ii dd =
  match first_impr h with
  | None => (ii, dd)
  | Some (k, (df, dx)) => (it - Z.of_nat k - 1, fmax df dx)
  end.
Proof.
  induction h as [|[df dx] rest IH]; intros it ii dd E; simpl; [reflexivity|].
  rewrite k_vt_loop.
  assert (G : (it >? 0) = true) by (apply Z.gtb_lt; simpl length in E; lia).
  rewrite G.
  destruct (PrimFloat.ltb PrimFloat.zero df).
  - rewrite k_vt_index. f_equal. simpl. lia.
  - rewrite (IH (it - 1) ii dd) by (simpl length in E; lia).
    destruct (first_impr rest) as [[k [a b]]|]; [|reflexivity].
    f_equal. lia.
Qed.

Lemma value_test_spec s p : value_test s p = value_test_ref s p.
Proof.
  unfold value_test, value_test_ref.
  rewrite (vt_scan_spec (shist s) _ _ _ eq_refl).
  set (n := Z.of_nat (length (shist s))).
  destruct (first_impr (shist s)) as [[k [df dx]]|].
  - rewrite k_vt_none, k_vt_recent.
    assert (E : (n - Z.of_nat k - 1 =? n) = false) by (apply Z.eqb_neq; lia). rewrite E.
    destruct (Z.of_nat k <? p) eqn:L.
    + apply Z.ltb_lt in L. assert (R : (n - Z.of_nat k - 1 + p >=? n) = true) by (apply Z.geb_le; lia). rewrite R. reflexivity.
    + apply Z.ltb_ge in L. assert (R : (n - Z.of_nat k - 1 + p >=? n) = false) by (rewrite Z.geb_leb; apply Z.leb_gt; lia).
      rewrite R. reflexivity.
  - rewrite k_vt_none, Z.eqb_refl, k_vt_enough. reflexivity.
Qed.

(* ------------------------------------------------------------------------------------------------------------- *)
(* 5. the budget loop                                                                                            *)
(* ------------------------------------------------------------------------------------------------------------- *)
Lemma budget_loop_bound cond : is_budget_cond cond ->
  forall B max_evals costs n, 0 <= B -> Forall (fun c => 0 <= c <= B) costs ->
  n <= budget_loop cond max_evals n costs <= Z.max n (max_evals - 1 + B).
Proof.
  intros HC B m costs. induction costs as [|c rest IH]; intros n HB HF; simpl; [lia|].
  rewrite HC. inversion HF; subst.
  destruct (n + 0 <? m) eqn:L.
  - apply Z.ltb_lt in L. specialize (IH (n + c) HB H2). lia.
  - lia.
Qed.

(* ------------------------------------------------------------------------------------------------------------- *)
(* 6. accepted traces                                                                                            *)
(* ------------------------------------------------------------------------------------------------------------- *)
Lemma event_ok_spec e : event_ok e = true ->
  ev_ret e = ev_conv e || negb (ev_iter_ok e && valid (ev_s e)) /\
  ev_status' e = (if ev_ret e then (if ev_conv e && (ev_iter_ok e && valid (ev_s e)) then ST_CONVERGED else ST_FAILED) else sstatus (ev_s e)) /\
  ev_fcalls' e = ev_fc e /\ ev_gcalls' e = ev_gc e /\ ev_same e = true.
Proof.
  unfold event_ok.
  pose proof (done_decision (ev_s e) (ev_fc e) (ev_gc e) (ev_iter_ok e) (ev_conv e)) as DD.
  destruct (done_step (ev_s e) (ev_fc e) (ev_gc e) (ev_iter_ok e) (ev_conv e)) as [s' r]. simpl in DD.
  destruct DD as (R & Go & Stop & Fc & Gc & _).
  rewrite !andb_true_iff. intros ((((A & B) & C) & E) & F).
  apply eqb_prop in A. apply Z.eqb_eq in B, C, E.
  rewrite <- A, <- B, <- C, <- E.
  split; [exact R|]. split; [|auto].
  destruct r; [apply Stop; reflexivity|apply Go; reflexivity].
Qed.

Lemma same_state_status a b : same_state a b = true -> sstatus a = sstatus b /\ sfcalls a = sfcalls b /\ sgcalls a = sgcalls b.
Proof.
  unfold same_state. rewrite !andb_true_iff. intros (((((_ & _) & _) & A) & B) & C).
  apply Z.eqb_eq in A, B, C. auto.
Qed.

(* all events are model decisions, carry status max_iters on entry, and only the last may have returned true *)
Lemma accept_events_all k eps : forall evs st,
  accept_events k eps st evs = true -> st = ST_MAX_ITERS ->
  Forall (fun e => event_ok e = true /\ sstatus (ev_s e) = ST_MAX_ITERS /\
                   (is_ls k = true -> ls_flag_ok eps e = true)) evs.
Proof.
  induction evs as [|e rest IH]; intros st H S; [constructor|].
  simpl in H. rewrite !andb_true_iff in H. destruct H as ((((A & B) & C) & D) & E).
  apply Z.eqb_eq in A.
  constructor.
  - repeat split; auto; try lia. intros L. rewrite L in C. exact C.
  - destruct rest as [|e2 rest']; [constructor|].
    apply (IH (ev_status' e)); auto.
    destruct (event_ok_spec e B) as (_ & St & _).
    apply negb_true_iff in D. rewrite D in St. lia.
Qed.

Lemma accept_events_last2 k eps : forall evs st prev l p,
  accept_events k eps st evs = true -> last2 evs prev = Some (l, p) ->
  In l evs /\ (p = prev \/ exists pe, p = Some pe /\ In pe evs /\ ev_ret pe = false).
Proof.
  induction evs as [|e rest IH]; intros st prev l p H L; [discriminate|].
  simpl in H. rewrite !andb_true_iff in H. destruct H as ((((A & B) & C) & D) & E).
  simpl in L. destruct rest as [|e2 rest'].
  - inversion L; subst. split; [left; auto|left; auto].
  - destruct (IH _ (Some e) l p E L) as (I1 & I2). split; [right; auto|].
    right. destruct I2 as [I2|(pe & P1 & P2 & P3)].
    + exists e. repeat split; auto; [left; auto|]. apply negb_true_iff in D. exact D.
    + exists pe. repeat split; auto. right. auto.
Qed.

Lemma last2_nonempty : forall evs prev, evs <> [] -> last2 evs prev <> None.
Proof.
  induction evs as [|e rest IH]; intros prev N; [contradiction|].
  simpl. destruct rest as [|e2 rest']; [discriminate|]. apply IH. discriminate.
Qed.

Lemma last2_prev_some : forall evs q l, last2 evs (Some q) = Some (l, None) -> False.
Proof.
  induction evs as [|e rest IH]; intros q l H; [discriminate|].
  simpl in H. destruct rest as [|e2 rest']; [discriminate|]. eapply IH; eauto.
Qed.

(* the returned state of an accepted trace is the exit snapshot of one of its events, or (no event / loose kind
   leaving through the budget) carries the default status *)
Lemma accept_returned k eps evs r : accept k eps evs r = true ->
  (exists e, In e evs /\ same_state r (ev_after e) = true) \/ sstatus r = ST_MAX_ITERS.
Proof.
  unfold accept. rewrite !andb_true_iff. intros ((_ & HE) & HR).
  unfold accept_return in HR.
  destruct (last2 evs None) as [[l p]|] eqn:L; [|right; apply Z.eqb_eq; exact HR].
  destruct (accept_events_last2 _ _ _ _ _ _ _ HE L) as (Il & Ip).
  destruct k.
  - left. exists l. auto.
  - destruct (valid (ev_after l)); [left; exists l; auto|].
    destruct p as [pe|]; [|left; exists l; auto].
    destruct Ip as [Ip|(pe' & P1 & P2 & _)]; [discriminate|]. inversion P1; subst. left. exists pe'. auto.
  - left. exists l. auto.
  - destruct (ev_ret l); [left; exists l; auto|right; apply Z.eqb_eq; exact HR].
Qed.

Lemma accept_status k eps evs r : accept k eps evs r = true ->
  status_ok (sstatus r) /\
  (sstatus r = ST_CONVERGED ->
     exists e, In e evs /\ same_state r (ev_after e) = true /\ ev_conv e = true /\ ev_ret e = true /\
               valid (ev_s e) = true /\ ev_iter_ok e = true) /\
  (sstatus r = ST_FAILED ->
     exists e, In e evs /\ same_state r (ev_after e) = true /\
               (ev_iter_ok e = false \/ valid (ev_s e) = false)).
Proof.
  intros H. pose proof (accept_returned _ _ _ _ H) as R.
  unfold accept in H. rewrite !andb_true_iff in H. destruct H as ((_ & HE) & _).
  pose proof (accept_events_all _ _ _ _ HE eq_refl) as All. rewrite Forall_forall in All.
  destruct R as [(e & I & S)|S].
  - destruct (All e I) as (Ok & St & _). destruct (event_ok_spec e Ok) as (Rt & St' & _).
    destruct (same_state_status _ _ S) as (Es & _). simpl in Es. rewrite St' in Es.
    destruct (ev_ret e) eqn:Re.
    + destruct (ev_conv e) eqn:Ce; destruct (ev_iter_ok e) eqn:Ie; destruct (valid (ev_s e)) eqn:Ve; simpl in Es, Rt;
        try discriminate Rt;
        try (split; [right; left; exact Es|]; split; [intros _; exists e; repeat split; auto|];
             intros F; rewrite Es in F; discriminate);
        (split; [right; right; exact Es|]; split; [intros F; rewrite Es in F; discriminate|];
         intros _; exists e; repeat split; auto).
    + rewrite St in Es. split; [left; exact Es|]. split; intros F; rewrite Es in F; discriminate.
  - split; [left; exact S|]. split; intros F; rewrite S in F; discriminate.
Qed.

Lemma all_fin_no_nan l : all_fin l = true -> vnan l = false.
Proof.
  induction l as [|v l IH]; simpl; [reflexivity|].
  rewrite andb_true_iff. intros [F R]. rewrite (IH R), orb_false_r.
  unfold ffin, PrimFloat.is_finite in F. apply negb_true_iff, orb_false_iff in F. tauto.
Qed.

Lemma valid_parts s : valid s = true ->
  ffin (sfx s) = true /\ all_fin (sx s) = true /\ all_fin (sgx s) = true /\ scfin s = true.
Proof. unfold valid. rewrite !andb_true_iff. tauto. Qed.

(* C01: the converged flag of a line-search trace is the recomputed criterion *)
Lemma accept_truthful k eps evs r : accept k eps evs r = true -> is_ls k = true -> sstatus r = ST_CONVERGED ->
  exists e, In e evs /\ same_state r (ev_after e) = true /\ ev_conv e = true /\ valid (ev_s e) = true /\
            PrimFloat.ltb (gradient_test (ev_s e)) eps = true /\ ev_iter_ok e = true.
Proof.
  intros H L S. destruct (accept_status _ _ _ _ H) as (_ & C & _).
  destruct (C S) as (e & I & Sm & Cv & _ & Vl & Ik).
  unfold accept in H. rewrite !andb_true_iff in H. destruct H as ((_ & HE) & _).
  pose proof (accept_events_all _ _ _ _ HE eq_refl) as All. rewrite Forall_forall in All.
  destruct (All e I) as (_ & _ & Fl). specialize (Fl L). unfold ls_flag_ok in Fl.
  exists e. repeat split; auto.
  destruct (valid_parts _ Vl) as (_ & _ & G & _).
  rewrite (all_fin_no_nan _ G), Cv in Fl. simpl in Fl.
  destruct (PrimFloat.ltb (gradient_test (ev_s e)) eps); auto.
Qed.

(* after the fix of solver_t::done: a status other than `failed` means a valid snapshot (tight kinds) *)
(* line-search solvers other than gd (`cstate.valid() ? cstate : pstate`): whenever the first snapshot is valid
   the returned state is the exit snapshot of a VALID event, whatever the status *)
Lemma accept_ls_valid eps evs r : accept KLs eps evs r = true ->
  (forall e rest, evs = e :: rest -> valid (ev_s e) = true) ->
  exists e, In e evs /\ same_state r (ev_after e) = true /\ valid (ev_s e) = true.
Proof.
  intros H First.
  unfold accept in H. rewrite !andb_true_iff in H. destruct H as ((HF & HE) & HR).
  pose proof (accept_events_all _ _ _ _ HE eq_refl) as All. rewrite Forall_forall in All.
  unfold accept_return in HR.
  destruct (last2 evs None) as [[l p]|] eqn:L.
  - destruct (accept_events_last2 _ _ _ _ _ _ _ HE L) as (Il & Ip).
    destruct (valid (ev_after l)) eqn:V.
    + exists l. repeat split; auto.
    + destruct p as [pe|].
      * destruct Ip as [Ip|(pe' & P1 & P2 & P3)]; [discriminate|]. inversion P1; subst.
        exists pe'. repeat split; auto.
        destruct (All pe' P2) as (Ok & _). destruct (event_ok_spec _ Ok) as (Rt & _).
        rewrite P3 in Rt. symmetry in Rt. apply orb_false_iff in Rt. destruct Rt as (_ & Rt).
        apply negb_false_iff, andb_true_iff in Rt. tauto.
      * (* a single event: it is the first one *)
        destruct evs as [|e rest]; [discriminate|].
        destruct rest as [|e2 rest'].
        -- simpl in L. inversion L; subst. exists l. split; [left; reflexivity|]. split; [exact HR|].
           eapply First; eauto.
        -- exfalso. apply (last2_prev_some (e2 :: rest') e l). exact L.
  - exfalso. destruct evs as [|e rest]; [discriminate HF|].
    apply (last2_nonempty (e :: rest) None); [discriminate|exact L].
Qed.

(* any kind: status max_iters after at least one event (tight kinds) means the last snapshot was a valid one *)
Lemma accept_go_on_valid k eps evs r : accept k eps evs r = true -> k <> KLoose -> evs <> [] ->
  sstatus r = ST_MAX_ITERS ->
  exists e, In e evs /\ same_state r (ev_after e) = true /\ valid (ev_s e) = true.
Proof.
  intros H NK NE S.
  pose proof H as H0.
  unfold accept in H. rewrite !andb_true_iff in H. destruct H as ((HF & HE) & HR).
  pose proof (accept_events_all _ _ _ _ HE eq_refl) as All. rewrite Forall_forall in All.
  assert (Val : forall e, In e evs -> same_state r (ev_after e) = true -> valid (ev_s e) = true).
  { intros e I Sm. destruct (All e I) as (Ok & St & _). destruct (event_ok_spec e Ok) as (Rt & St' & _).
    destruct (same_state_status _ _ Sm) as (Es & _). simpl in Es. rewrite St', S in Es.
    destruct (ev_ret e) eqn:Re; [destruct (ev_conv e && (ev_iter_ok e && valid (ev_s e))); discriminate|].
    symmetry in Rt. apply orb_false_iff in Rt. destruct Rt as (_ & Rt).
    apply negb_false_iff, andb_true_iff in Rt. tauto. }
  unfold accept_return in HR.
  destruct (last2 evs None) as [[l p]|] eqn:L.
  - destruct (accept_events_last2 _ _ _ _ _ _ _ HE L) as (Il & Ip).
    destruct k; try contradiction.
    + exists l. auto.
    + destruct (valid (ev_after l)); [exists l; auto|].
      destruct p as [pe|]; [|exists l; auto].
      destruct Ip as [Ip|(pe' & P1 & P2 & _)]; [discriminate|]. inversion P1; subst. exists pe'. auto.
    + exists l. auto.
  - exfalso. apply (last2_nonempty evs None); auto.
Qed.

(* the clause of the property: unless the status is `failed`, the returned state is a valid snapshot *)
Lemma accept_not_failed_valid k eps evs r : accept k eps evs r = true -> k <> KLoose -> evs <> [] ->
  sstatus r <> ST_FAILED ->
  exists e, In e evs /\ same_state r (ev_after e) = true /\ valid (ev_s e) = true.
Proof.
  intros H NK NE NF.
  destruct (accept_status _ _ _ _ H) as (SO & C & _).
  destruct SO as [S|[S|S]]; [|destruct (C S) as (e & I & Sm & _ & _ & V & _); exists e; auto|contradiction].
  eapply accept_go_on_valid; eauto.
Qed.

(* ------------------------------------------------------------------------------------------------------------- *)
(* example data for the non-vacuity examples of Properties_C02.v / Properties_C01.v                              *)
(* ------------------------------------------------------------------------------------------------------------- *)
Definition ex_w0 : world := init_world [1%float] [2%float] 10%float true.
Definition ex_ops : list op :=
  [OEval true; OBetter3 [0.5%float] [1%float] 5%float; OEval false; OBetter2 [0.25%float] 7%float;
   OBetter3 [0%float] [0%float] nan; ODone true false; OBetter2 [0.75%float] 4%float; ODone true true].
Definition ex_ops_ls : list op :=
  [OEval true; OUpdate [0.5%float] [1%float] 5%float; ODone true false; OEval true;
   OUpdate [0.25%float] [0.0001%float] 1%float; ODone true true].
Definition ex_evaluated (x : list PrimFloat.float) (g : list PrimFloat.float) (f : PrimFloat.float) : Prop :=
  In (x, g, f) [([1%float], [2%float], 10%float); ([0.5%float], [1%float], 5%float);
                ([0.25%float], [0.0001%float], 1%float)].
Definition ex_hist : list (PrimFloat.float * PrimFloat.float) :=
  [((-1)%float, 0.5%float); (0%float, 0%float); (2%float, 3%float); (1%float, 0.5%float)].
Definition ex_eps : PrimFloat.float := 0.001%float.
Definition ex_e1 : event := mkE (mkS [] 10%float [2%float] true 0 1 1 []) true false 1 1 false 0 1 1 true.
Definition ex_e2 : event := mkE (mkS [0.5%float] 1%float [0.0001%float] true 0 3 3 []) true true 5 5 true 1 5 5 true.
Definition ex_e2bad : event := mkE (mkS [infinity] 1%float [2%float] true 0 3 3 []) false false 5 5 true 2 5 5 true.
Definition ex_r : sstate := mkS [0.5%float] 1%float [0.0001%float] true 1 5 5 [].
Definition ex_r1 : sstate := mkS [] 10%float [2%float] true 0 1 1 [].
Definition ex_five : PrimFloat.float := 5%float.
Definition ex_four : PrimFloat.float := 4%float.
Definition ex_three : PrimFloat.float := 3%float.
Definition ex_einf : event := mkE (mkS [0.5%float] infinity [1%float] true 0 3 3 []) true true 5 5 true 1 5 5 true.
Definition ex_rinf : sstate := mkS [0.5%float] infinity [1%float] true 1 5 5 [].
