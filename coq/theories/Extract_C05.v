(* extraction of the executable C05 model. Z / positive are mapped to Zarith big integers (ExtrOcamlZBigInt):
   the model works over exact rationals whose numerators / denominators are the exact values of doubles. *)
From Coq Require Import List ZArith QArith Extraction ExtrOcamlBasic ExtrOcamlZBigInt.
From LN Require Import C05_Defs C05_Outer_Defs.
Extraction Language OCaml.
Extraction "extracted/c05_model.ml" qltb qmax qmin qabs dot vadd vscale vsub vnth unit_vec mv qsum
  is_equality is_linear_equality cvgrad eval1 evals linear_penalty quadratic_penalty augmented_lagrangian
  linear_penalty_at quadratic_penalty_at augmented_lagrangian_at pen_convex update_constraints linf kkt1 kkt2
  exact_rops criterion al_init al_step al_run al_step_criterion al_step_converged al_step_updated
  Qred Qplus Qminus Qmult Qdiv Qopp Qle_bool Qeq_bool inject_Z
  (* extension "outer" (C05_Outer_Defs) *)
  qclamp qpow make_ro1 dx_converged next_lambda next_miu lagrangian_grad
  alo_init alo_event alo_step alo_run alo_running ps_init ps_step ps_run ps_step_converged ps_running.
