(* C01CG -- the conjugate-gradient direction of property C01 (src/solver/cgd.cpp), executable model.

   Written over the record of field operations [fops F] of C01Q_Defs (vectors = lists, total operations) and run at the
   canonical rationals Qc against every ev_cgd_direction hook event of the ten real solvers.  Modelled, as written in
   the source:
     - the ten beta formulas HS, FR, PR, CD, LS, DY, N (with its eta clamp), DYHS, DYCD, FRPR (three-way clamp);
       the two Euclidean norms of N are INPUTS [pd2], [pg2] (no square root in an ordered field): the theorems about N
       constrain them by  pd2 >= 0 /\ pd2 * pd2 = pd.pd  (resp. pg),
     - which formula each solver id returns (the ten `::beta` member functions, incl. the `max(., 0)` of HS+, PR+, LS+),
     - the candidate direction  -g + beta * pd,
     - the restart test  !has_descent(d) || |g.pg| >= orthotest * g.g  and  has_descent(d) = g.d < 0  (both decisions are
       translated from the source on every run: generated/Src_c01cg.v, applied to sign images as in C01Q_Defs),
     - the first-iteration branch  cdescent.size() == 0  and the book-keeping  pstate = cstate; pdescent = cdescent.
   std::max(a, b) = (a < b) ? b : a,  std::min(a, b) = (b < a) ? b : a,  std::fabs.   No proofs in this file. *)
From Coq Require Import List ZArith Bool.
From LNGen Require Import Src_c01cg.
From LN Require Import C01Q_Defs.
Import ListNotations.

Section CG.
  Variable F : Type.
  Variable FO : fops F.
  Local Notation "0" := (f0 FO).
  Local Notation "1" := (f1 FO).
  Local Infix "+" := (fadd FO).
  Local Infix "*" := (fmul FO).
  Local Infix "-" := (fsub FO).
  Local Infix "/" := (fdiv FO).
  Local Notation "- x" := (fopp FO x).
  Local Notation dot := (dot FO).
  Local Notation vsub := (vsub FO).
  Local Notation vadd := (vadd FO).
  Local Notation vscale := (vscale FO).
  Local Notation vopp := (vopp FO).

  (* ---- scalar helpers ------------------------------------------------------------------------------------------ *)
  Definition flt (a b : F) : bool := Z.ltb (fcmp FO a b) 0%Z.                 (* a < b *)
  Definition fmax (a b : F) : F := if flt a b then b else a.                  (* std::max(a, b) *)
  Definition fmin (a b : F) : F := if flt b a then b else a.                  (* std::min(a, b) *)
  Definition fabs (a : F) : F := if flt a 0 then - a else a.                  (* std::fabs *)
  Definition f2 : F := 1 + 1.

  (* ---- the formulas (anonymous namespace of cgd.cpp);  pg = previous gradient, pd = previous direction, cg = current
          gradient;  y = cg - pg --------------------------------------------------------------------------------------- *)
  Definition beta_HS (pg pd cg : vec F) : F := dot cg (vsub cg pg) / dot pd (vsub cg pg).
  Definition beta_FR (pg pd cg : vec F) : F := dot cg cg / dot pg pg.
  Definition beta_PR (pg pd cg : vec F) : F := dot cg (vsub cg pg) / dot pg pg.
  Definition beta_CD (pg pd cg : vec F) : F := (- dot cg cg) / dot pd pg.
  Definition beta_LS (pg pd cg : vec F) : F := (- dot cg (vsub cg pg)) / dot pd pg.
  Definition beta_DY (pg pd cg : vec F) : F := dot cg cg / dot pd (vsub cg pg).
  (* N:  div = 1 / pd.y;  eta' = -1 / (pd2 * min(eta, pg2));  max(eta', div * (y - 2 * pd * y.y * div).cg) *)
  Definition n_eta (eta pd2 pg2 : F) : F := (fopp FO 1) / (pd2 * fmin eta pg2).
  Definition beta_N_plain (pg pd cg : vec F) : F :=
    let y := vsub cg pg in
    let div := 1 / dot pd y in
    div * dot (vsub y (map (fun p => f2 * p * dot y y * div) pd)) cg.
  Definition beta_N (eta pd2 pg2 : F) (pg pd cg : vec F) : F := fmax (n_eta eta pd2 pg2) (beta_N_plain pg pd cg).
  Definition beta_DYHS (pg pd cg : vec F) : F := fmax 0 (fmin (beta_DY pg pd cg) (beta_HS pg pd cg)).
  Definition beta_DYCD (pg pd cg : vec F) : F := dot cg cg / fmax (dot pd (vsub cg pg)) (- dot pd pg).
  (* FRPR:  (pr < -fr) ? -fr : (|pr| <= fr) ? pr : fr   -- both tests translated from the source, on sign images *)
  Definition frpr_low (pr fr : F) : bool := src_cg_frpr_low (fcmp FO pr (- fr)) (fcmp FO 0 0).
  Definition frpr_mid (pr fr : F) : bool := src_cg_frpr_mid (fcmp FO (fabs pr) fr) (fcmp FO fr fr).
  Definition frpr_clamp (pr fr : F) : F := if frpr_low pr fr then - fr else if frpr_mid pr fr then pr else fr.
  Definition beta_FRPR (pg pd cg : vec F) : F := frpr_clamp (beta_PR pg pd cg) (beta_FR pg pd cg).

  (* which formula a solver id returns (solver_cgd_*_t::beta); eta is solver::cgdN::eta *)
  Inductive cgkind := CK_HS | CK_FR | CK_PR | CK_CD | CK_LS | CK_DY | CK_N | CK_DYCD | CK_DYHS | CK_FRPR.
  Definition cg_beta (k : cgkind) (eta pd2 pg2 : F) (pg pd cg : vec F) : F :=
    match k with
    | CK_HS => fmax (beta_HS pg pd cg) 0
    | CK_FR => beta_FR pg pd cg
    | CK_PR => fmax (beta_PR pg pd cg) 0
    | CK_CD => beta_CD pg pd cg
    | CK_LS => fmax (beta_LS pg pd cg) 0
    | CK_DY => beta_DY pg pd cg
    | CK_N => beta_N eta pd2 pg2 pg pd cg
    | CK_DYCD => beta_DYCD pg pd cg
    | CK_DYHS => beta_DYHS pg pd cg
    | CK_FRPR => beta_FRPR pg pd cg
    end.

  (* ---- the direction ------------------------------------------------------------------------------------------------ *)
  (* cdescent = -cstate.gx() + beta * pdescent *)
  Definition cg_candidate (beta : F) (g pd : vec F) : vec F := vadd (vopp g) (vscale beta pd).
  (* has_descent(d) = dg(d) < 0.0,  dg(d) = m_gx.dot(d) *)
  Definition cg_has_descent (g d : vec F) : bool :=
    src_state_has_descent (src_state_dg (fcmp FO (dot g d) 0)) (fcmp FO 0 0).
  (* !has_descent(d) || |g.pg| >= orthotest * g.g     (lhs |-> sign(lhs - rhs), orthotest |-> 1, g.g |-> sign(0 - 0)) *)
  Definition cg_restart (orthotest : F) (g pg d : vec F) : bool :=
    src_cg_restart (cg_has_descent g d) (fcmp FO (fabs (dot g pg)) (orthotest * dot g g)) 1%Z (fcmp FO 0 0).
  (* the direction chosen after the first iteration, and whether the restart fired *)
  Definition cg_choose (orthotest beta : F) (pg pd g : vec F) : vec F * bool :=
    let d := cg_candidate beta g pd in
    if cg_restart orthotest g pg d then (vopp g, true) else (d, false).

  (* the solver's loop state between two iterations: previous gradient, previous direction, current direction
     (cdescent is empty before the first iteration; afterwards pdescent = cdescent) *)
  Record cgstate : Type := mk_cgstate { cs_pg : vec F; cs_pd : vec F; cs_cd : vec F }.
  Definition cg_init : cgstate := mk_cgstate [] [] [].
  (* one pass through the "descent direction" block with the current gradient g, followed by the book-keeping
     pstate = cstate; pdescent = cdescent.  pd2 = |pdescent|_2 and pg2 = |pstate.gx|_2 are only read by N *)
  Definition cg_step (k : cgkind) (eta orthotest pd2 pg2 : F) (st : cgstate) (g : vec F) : cgstate * vec F :=
    let d :=
      if src_cg_first (Z.of_nat (length (cs_cd st))) then vopp g
      else fst (cg_choose orthotest (cg_beta k eta pd2 pg2 (cs_pg st) (cs_pd st) g) (cs_pg st) (cs_pd st) g) in
    (mk_cgstate g d d, d).

  (* ---- exact line search on a quadratic 0.5 x'Ax + a'x (used by the conjugacy theorems): along d from a point with
          gradient g the minimiser has gradient g + t A d with t = -(g.d) / (d.Ad) ------------------------------------ *)
  Definition exact_next (A : mat F) (g d : vec F) : vec F :=
    vadd g (vscale ((- dot g d) / dot d (mv FO A d)) (mv FO A d)).
  (* n iterations of the solver's direction block with exact line searches; [nrm] supplies the two norms of N.
     Returns the (gradient, chosen direction) pairs, first iteration first *)
  Fixpoint cg_quad_run (k : cgkind) (eta orthotest : F) (nrm : vec F -> F) (A : mat F) (st : cgstate) (g : vec F) (n : nat)
    : list (vec F * vec F) :=
    match n with
    | O => []
    | S n' =>
        let '(st', d) := cg_step k eta orthotest (nrm (cs_pd st)) (nrm (cs_pg st)) st g in
        (g, d) :: cg_quad_run k eta orthotest nrm A st' (exact_next A g d) n'
    end.
End CG.

Arguments flt {F}. Arguments fmax {F}. Arguments fmin {F}. Arguments fabs {F}. Arguments f2 {F}.
Arguments beta_HS {F}. Arguments beta_FR {F}. Arguments beta_PR {F}. Arguments beta_CD {F}. Arguments beta_LS {F}.
Arguments beta_DY {F}. Arguments n_eta {F}. Arguments beta_N_plain {F}. Arguments beta_N {F}. Arguments beta_DYHS {F}.
Arguments beta_DYCD {F}. Arguments frpr_low {F}. Arguments frpr_mid {F}. Arguments frpr_clamp {F}. Arguments beta_FRPR {F}.
Arguments cg_beta {F}. Arguments cg_candidate {F}. Arguments cg_has_descent {F}. Arguments cg_restart {F}.
Arguments cg_choose {F}. Arguments mk_cgstate {F}. Arguments cs_pg {F}. Arguments cs_pd {F}.
Arguments cs_cd {F}. Arguments cg_init {F}. Arguments cg_step {F}. Arguments exact_next {F}. Arguments cg_quad_run {F}.
