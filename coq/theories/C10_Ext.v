(* C10 extension -- proofs about C10_Ext_Defs: general top-k statement of the k-best table, the k-split table (agglomerative
   clustering of accumulator_t::cluster()), decision trees of any depth, the selection criteria AIC / AICc / BIC. *)
From Coq Require Import List ZArith QArith Qminmax Bool Lia Lra Psatz Permutation Sorted Setoid Morphisms.
From LNGen Require Import Src_c10.
From LN Require Import C10_Defs C10_Proofs C10_Ext_Defs.
Import ListNotations.
Local Open Scope Q_scope.

(* ======================================================================================================================== *)
(* 1. top-k: the sum of ANY at most m entries of a list of non-positive numbers is at least the sum of the m smallest        *)
(* ======================================================================================================================== *)
Definition selsum (ps : list (Q * bool)) : Q := qsum (map (fun p : Q * bool => if snd p then fst p else 0) ps).
Definition selcnt (ps : list (Q * bool)) : nat := length (filter snd ps).
Fixpoint qsorted (l : list Q) : Prop :=
  match l with
  | [] => True
  | a :: t => (forall x, In x t -> a <= x) /\ qsorted t
  end.

Lemma selsum_perm ps ps' : Permutation ps ps' -> selsum ps == selsum ps'.
Proof. intro P. unfold selsum. now apply qsum_map_perm. Qed.
Lemma selcnt_perm ps ps' : Permutation ps ps' -> selcnt ps = selcnt ps'.
Proof.
  unfold selcnt. induction 1 as [|[a b] l l' P IH|[a b] [a' b'] l|l l' l'' P1 IH1 P2 IH2]; cbn [filter snd].
  - reflexivity.
  - destruct b; cbn [length]; now rewrite IH.
  - destruct b, b'; reflexivity.
  - now rewrite IH1.
Qed.

Lemma firstn_shift l : forall a m, qsorted (a :: l) -> (forall x, In x (a :: l) -> x <= 0) ->
  a + qsum (firstn m l) <= qsum (firstn (S m) l).
Proof.
  induction l as [|c l IH]; intros a m S N.
  - rewrite !firstn_nil, qsum_nil. assert (a <= 0) by (apply N; now left). lra.
  - destruct S as (Ha & Hc & Sl). cbn [firstn]. destruct m as [|m].
    + cbn [firstn]. rewrite qsum_cons, !qsum_nil. assert (a <= c) by (apply Ha; now left). lra.
    + change (firstn (Datatypes.S m) (c :: l)) with (c :: firstn m l). rewrite !qsum_cons.
      assert (a + qsum (firstn m l) <= qsum (firstn (Datatypes.S m) l)).
      { apply IH.
        - split; [intros x Hx; apply Ha; now right | exact Sl].
        - intros x [<-|Hx]; apply N; [now left | right; now right]. }
      lra.
Qed.

Lemma topk_mask ps : forall m, qsorted (map fst ps) -> (forall p, In p ps -> fst p <= 0) -> (selcnt ps <= m)%nat ->
  qsum (firstn m (map fst ps)) <= selsum ps.
Proof.
  induction ps as [|[a b] ps IH]; intros m S N C.
  - cbn [map]. rewrite firstn_nil. unfold selsum. cbn [map]. rewrite qsum_nil. lra.
  - cbn [map fst] in *. destruct S as (Ha & Sl).
    assert (N' : forall p, In p ps -> fst p <= 0) by (intros p Hp; apply N; now right).
    unfold selsum. cbn [map snd fst]. rewrite qsum_cons. fold (selsum ps). unfold selcnt in C. cbn [filter snd] in C.
    destruct m as [|m].
    + cbn [firstn]. rewrite qsum_nil. destruct b; [cbn [length] in C; lia|].
      specialize (IH 0%nat Sl N' C). cbn [firstn] in IH. rewrite qsum_nil in IH. lra.
    + cbn [firstn]. rewrite qsum_cons. destruct b.
      * cbn [length] in C. assert (C' : (selcnt ps <= m)%nat) by (unfold selcnt; lia). specialize (IH m Sl N' C'). lra.
      * specialize (IH (Datatypes.S m) Sl N' C).
        assert (a + qsum (firstn m (map fst ps)) <= qsum (firstn (Datatypes.S m) (map fst ps))).
        { apply firstn_shift; [split; assumption|]. intros x [<-|Hx]; [apply (N (a, false)); now left|].
          apply in_map_iff in Hx. destruct Hx as (p & <- & Hp). now apply N'. }
        lra.
Qed.

(* insertion sort commutes with a projection *)
Lemma insert_map {A B} (f : A -> B) (key : B -> Q) a l :
  map f (insert (fun x => key (f x)) a l) = insert key (f a) (map f l).
Proof.
  induction l as [|b l IH]; cbn [insert map]; [reflexivity|].
  destruct (Qle_bool (key (f a)) (key (f b))); cbn [map]; [reflexivity | now rewrite IH].
Qed.
Lemma isort_map {A B} (f : A -> B) (key : B -> Q) l : map f (isort (fun x => key (f x)) l) = isort key (map f l).
Proof. induction l as [|a l IH]; cbn [isort map]; [reflexivity|]. now rewrite insert_map, IH. Qed.

Lemma sorted_qsorted l : StronglySorted (kle (fun d : Q => d)) l -> qsorted l.
Proof.
  induction 1 as [|a l Hs IH Ha]; cbn [qsorted]; [exact I|]. split; [|exact IH].
  intros x Hx. rewrite Forall_forall in Ha. exact (Ha x Hx).
Qed.

Lemma prefix_sums_nth l : forall s k x, nth_error (prefix_sums s l) k = Some x ->
  (k < length l)%nat /\ x == s + qsum (firstn (S k) l).
Proof.
  induction l as [|d l IH]; intros s k x H; [destruct k; discriminate|]. cbn [prefix_sums] in H. destruct k as [|k].
  - cbn [nth_error] in H. injection H as <-. split; [cbn; lia|]. cbn [firstn]. rewrite qsum_cons, qsum_nil. ring.
  - cbn [nth_error] in H. destruct (IH _ _ _ H) as (Hk & E). split; [cbn; lia|].
    change (firstn (S (S k)) (d :: l)) with (d :: firstn (S k) l). rewrite qsum_cons, E. ring.
Qed.

Lemma zmem_in x l : zmem x l = true <-> In x l.
Proof.
  unfold zmem. rewrite existsb_exists. split.
  - intros (y & Hy & E). apply Z.eqb_eq in E. now subst.
  - intro H. exists x. split; [exact H | apply Z.eqb_refl].
Qed.

(* C10_kbest_topk: the k-th partial sum of the gain sweep is a lower bound of the RSS of every table supported on at most
   k + 1 label sets *)
Lemma kbest_topk no (c : col Z) (k : nat) x (keys : list Z) (T : Z -> list Q) : (0 < no)%nat ->
  nth_error (kbest_rss_seq no (-1) c) k = Some x -> NoDup keys -> (length keys <= S k)%nat ->
  (forall key, ~ In key keys -> T key = []) -> x <= rss_of no T c.
Proof.
  intros H0 Hx Hnd Hlen Hsup. unfold kbest_rss_seq in Hx. fold (deltas_of no (present c)) in Hx.
  set (rows := present c) in *. set (ks := keys_of rows) in *.
  set (rss0 := miss_rss no c + qsum (map (vbin_r2 no) (map (bin_mom no rows) ks))) in *.
  set (ds := isort (fun d : Q => d) (deltas_of no rows)) in *.
  apply prefix_sums_nth in Hx. destruct Hx as (Hk & Ex).
  rewrite firstn_firstn in Ex. rewrite firstn_length in Hk.
  assert (Em : Nat.min (S k) (Z.to_nat (src_c10_max_kbest (-1) (Z.of_nat (length (map (bin_mom no rows) ks))))) = S k) by lia.
  rewrite Em in Ex. clear Em Hk. rewrite Ex. clear Ex.
  (* the RSS of T, bin by bin, is at least the squared residuals plus the deltas of the bins T is supported on *)
  set (ps := map (fun key => (bin_delta no (bin_mom no rows key), zmem key keys)) ks).
  assert (Low : rss0 + selsum ps <= rss_of no T c).
  { rewrite rss_of_by_bins. fold rows. fold ks. unfold rss0, selsum, ps. rewrite !map_map. cbn [fst snd].
    rewrite <- Qplus_assoc. apply Qplus_le_r. rewrite <- qsum_map_plus. apply qsum_map_le. intros key Hkey.
    destruct (zmem key keys) eqn:Em.
    - destruct (vbin_rss_delta no rows key H0 Hkey) as (Ed & _). rewrite <- Ed. unfold vbin_rss. apply qsum_tab_le. intros o Ho.
      apply bin_rss_min. now apply bin_x0_pos.
    - assert (Hn : ~ In key keys) by (intro Hin; apply zmem_in in Hin; congruence).
      rewrite (Hsup key Hn). unfold vbin_r2.
      assert (E : qsum (tab no (fun o => arss (vget o (bin_mom no rows key)) 0 (rget o []))) == qsum (tab no (fun o => m_r2 (vget o (bin_mom no rows key))))).
      { apply qsum_tab_eq. intros o Ho. rewrite rget_nil. apply arss_zero. }
      rewrite E. lra. }
  (* at most k + 1 bins are selected *)
  assert (Cnt : (selcnt ps <= S k)%nat).
  { unfold selcnt, ps. eapply Nat.le_trans; [|exact Hlen].
    assert (L : length (filter snd (map (fun key => (bin_delta no (bin_mom no rows key), zmem key keys)) ks))
                = length (filter (fun key => zmem key keys) ks)).
    { clear. induction ks as [|a l IH]; cbn [map filter snd]; [reflexivity|]. destruct (zmem a keys); cbn [length]; now rewrite IH. }
    rewrite L. apply NoDup_incl_length.
    - apply NoDup_filter. apply keys_nodup.
    - intros key Hin. apply filter_In in Hin. now apply zmem_in. }
  (* sort the pairs by delta: the deltas alone are the sorted deltas of the model *)
  set (sp := isort fst ps).
  assert (P : Permutation ps sp) by apply isort_perm.
  assert (Ed : map fst sp = ds).
  { unfold sp, ds. transitivity (isort (fun d : Q => d) (map fst ps)); [exact (isort_map (@fst Q bool) (fun d : Q => d) ps)|]. f_equal. unfold ps, deltas_of. rewrite !map_map. reflexivity. }
  assert (Srt : qsorted (map fst sp)) by (rewrite Ed; apply sorted_qsorted, isort_sorted).
  assert (N : forall p, In p sp -> fst p <= 0).
  { intros p Hp. apply (Permutation_in _ (Permutation_sym P)) in Hp. unfold ps in Hp. apply in_map_iff in Hp.
    destruct Hp as (key & <- & Hkey). cbn [fst]. now apply vbin_rss_delta. }
  pose proof (topk_mask sp (S k) Srt N) as M. rewrite <- (selcnt_perm _ _ P) in M. specialize (M Cnt).
  rewrite Ed in M. rewrite <- (selsum_perm _ _ P) in M. lra.
Qed.

(* ---- the selection that score_kbest stores attains the bound ---------------------------------------------------------------- *)
Lemma qsum_select (L H : list Z) (h : Z -> Q) : NoDup L -> NoDup H -> incl H L ->
  qsum (map (fun key => if zmem key H then h key else 0) L) == qsum (map h H).
Proof.
  intros HL. induction 1 as [|a H' Ha Hnd IH]; intro Hinc.
  - cbn [map]. rewrite qsum_nil. apply qsum_map_zero. reflexivity.
  - cbn [map]. rewrite qsum_cons. rewrite <- IH by (intros x Hx; apply Hinc; now right).
    pose proof (qsum_indicator L a h HL) as Ei.
    destruct (in_dec Z.eq_dec a L) as [_|n]; [|exfalso; apply n, Hinc; now left]. rewrite <- Ei.
    rewrite <- qsum_map_plus. apply qsum_map_eq. intros key _. unfold zmem at 1. cbn [existsb]. fold (zmem key H').
    destruct (a =? key)%Z eqn:E.
    + apply Z.eqb_eq in E. subst key. rewrite Z.eqb_refl. cbn [orb].
      destruct (zmem a H') eqn:Em; [apply zmem_in in Em; contradiction | ring].
    + rewrite Z.eqb_sym, E. cbn [orb]. destruct (zmem key H'); ring.
Qed.
Lemma NoDup_firstn' {A} (l : list A) : forall n, NoDup l -> NoDup (firstn n l).
Proof.
  induction l as [|a l IH]; intros n H; [rewrite firstn_nil; constructor|]. destruct n as [|n]; [constructor|].
  cbn [firstn]. inversion H as [|? ? Ha Hl]; subst. constructor; [|now apply IH]. intro Hin. apply Ha. eapply in_firstn'. exact Hin.
Qed.

Lemma kbest_sorted_perm no c : Permutation (kbest_pairs no c) (kbest_sorted no c).
Proof. apply isort_perm. Qed.
Lemma kbest_sorted_fst no c : map fst (kbest_sorted no c) = isort (fun d : Q => d) (deltas_of no (present c)).
Proof.
  unfold kbest_sorted. transitivity (isort (fun d : Q => d) (map fst (kbest_pairs no c))); [exact (isort_map (@fst Q Z) (fun d : Q => d) _)|].
  f_equal. unfold kbest_pairs, deltas_of. rewrite !map_map. reflexivity.
Qed.
Lemma kbest_sorted_snd no c : Permutation (keys_of (present c)) (map snd (kbest_sorted no c)).
Proof.
  assert (E : keys_of (present c) = map snd (kbest_pairs no c)) by (unfold kbest_pairs; rewrite map_map; cbn [snd]; now rewrite map_id).
  rewrite E. apply Permutation_map, kbest_sorted_perm.
Qed.
Lemma kbest_sorted_entry no c p : In p (kbest_sorted no c) -> fst p = bin_delta no (bin_mom no (present c) (snd p)) /\ In (snd p) (keys_of (present c)).
Proof.
  intro H. apply (Permutation_in _ (Permutation_sym (kbest_sorted_perm no c))) in H. unfold kbest_pairs in H. apply in_map_iff in H.
  destruct H as (key & <- & Hk). cbn [fst snd]. now split.
Qed.

Lemma kbest_attained no (c : col Z) (k : nat) x : (0 < no)%nat -> nth_error (kbest_rss_seq no (-1) c) k = Some x ->
  x == rss_of no (kbest_pred no c (S k)) c /\ NoDup (kbest_hashes no c (S k)) /\ length (kbest_hashes no c (S k)) = S k /\
  incl (kbest_hashes no c (S k)) (keys_of (present c)) /\
  (forall key, ~ In key (kbest_hashes no c (S k)) -> kbest_pred no c (S k) key = []).
Proof.
  intros H0 Hx. unfold kbest_rss_seq in Hx. fold (deltas_of no (present c)) in Hx.
  set (rows := present c) in *. set (ks := keys_of rows) in *.
  set (rss0 := miss_rss no c + qsum (map (vbin_r2 no) (map (bin_mom no rows) ks))) in *.
  apply prefix_sums_nth in Hx. destruct Hx as (Hk & Ex).
  rewrite firstn_firstn in Ex. rewrite firstn_length in Hk.
  assert (Em : Nat.min (S k) (Z.to_nat (src_c10_max_kbest (-1) (Z.of_nat (length (map (bin_mom no rows) ks))))) = S k) by lia.
  rewrite Em in Ex. clear Em.
  assert (Ls : length (kbest_sorted no c) = length ks).
  { rewrite <- (Permutation_length (kbest_sorted_perm no c)). unfold kbest_pairs. now rewrite map_length. }
  assert (Hk' : (S k <= length (kbest_sorted no c))%nat).
  { rewrite Ls. rewrite <- (Permutation_length (isort_perm _ (fun d : Q => d) (deltas_of no rows))) in Hk. unfold deltas_of in Hk.
    rewrite !map_length in Hk. fold ks in Hk. lia. }
  set (Hs := kbest_hashes no c (S k)).
  assert (Hnd : NoDup Hs).
  { unfold Hs, kbest_hashes. rewrite <- firstn_map. apply NoDup_firstn'.
    eapply Permutation_NoDup; [apply kbest_sorted_snd | apply keys_nodup]. }
  assert (Hinc : incl Hs ks).
  { intros key Hin. unfold Hs, kbest_hashes in Hin. apply in_map_iff in Hin. destruct Hin as (p & <- & Hp). apply in_firstn' in Hp.
    exact (proj2 (kbest_sorted_entry no c p Hp)). }
  split; [|split; [exact Hnd|split; [|split; [exact Hinc|]]]].
  - rewrite Ex, rss_of_by_bins. fold rows. fold ks. unfold rss0. rewrite <- Qplus_assoc. apply Qplus_inj_l. rewrite map_map.
    assert (E1 : qsum (firstn (S k) (isort (fun d : Q => d) (deltas_of no rows))) == qsum (map (fun key => bin_delta no (bin_mom no rows key)) Hs)).
    { pose proof (kbest_sorted_fst no c) as F. fold rows in F. rewrite <- F. rewrite firstn_map. unfold Hs, kbest_hashes. rewrite map_map. apply qsum_map_eq. intros p Hp.
      apply in_firstn' in Hp. destruct (kbest_sorted_entry no c p Hp) as (E & _). rewrite E. reflexivity. }
    rewrite E1, <- (qsum_select ks Hs _ (keys_nodup rows) Hnd Hinc), <- qsum_map_plus. apply qsum_map_eq. intros key Hkey.
    unfold kbest_pred. fold Hs. destruct (zmem key Hs).
    + destruct (vbin_rss_delta no rows key H0 Hkey) as (Ed & _). rewrite <- Ed. unfold vbin_rss. apply qsum_tab_eq. intros o Ho.
      unfold bin_mean. fold rows. rewrite rget_tab by exact Ho. apply bin_rss_mean. pose proof (bin_x0_pos no rows key o Ho Hkey). lra.
    + unfold vbin_r2. rewrite Qplus_0_r. apply qsum_tab_eq. intros o Ho. rewrite rget_nil. symmetry. apply arss_zero.
  - unfold Hs, kbest_hashes. rewrite map_length, firstn_length. lia.
  - intros key Hn. unfold kbest_pred. fold Hs. destruct (zmem key Hs) eqn:E; [apply zmem_in in E; contradiction | reflexivity].
Qed.

(* the order of the stored label sets is the lexicographic order of the (delta, bin) pairs, i.e. std::sort on std::pair: larger
   gain first, on equal gains the smaller bin (hash) first *)
Definition lexlt (p q : Q * Z) : Prop := fst p < fst q \/ (fst p == fst q /\ (snd p < snd q)%Z).
Lemma insert_lex a l : StronglySorted lexlt l -> Forall (fun b => (snd a < snd b)%Z) l -> StronglySorted lexlt (insert fst a l).
Proof.
  induction 1 as [|b l Hs IH Hb]; intro Ha; cbn [insert]; [repeat constructor|].
  inversion Ha as [|? ? Hab Hal]; subst.
  destruct (Qle_bool (fst a) (fst b)) eqn:E.
  - apply Qle_bool_iff in E. constructor; [now constructor|]. constructor.
    + unfold lexlt. destruct (Qlt_le_dec (fst a) (fst b)) as [L|L]; [now left | right; split; [lra | exact Hab]].
    + rewrite Forall_forall in *. intros x Hx. specialize (Hb x Hx). specialize (Hal x Hx). unfold lexlt in *.
      destruct Hb as [Hb|(Hb & _)]; [left; lra|]. destruct (Qlt_le_dec (fst a) (fst b)) as [L|L]; [left; lra | right; split; [lra | exact Hal]].
  - assert (L : fst b < fst a).
    { destruct (Qlt_le_dec (fst b) (fst a)) as [L|L]; [exact L|]. apply Qle_bool_iff in L. congruence. }
    constructor; [now apply IH|]. eapply Permutation_Forall; [apply insert_perm|]. constructor; [left; exact L | exact Hb].
Qed.
Lemma isort_lex (l : list (Q * Z)) : StronglySorted Z.lt (map snd l) -> StronglySorted lexlt (isort fst l).
Proof.
  induction l as [|a l IH]; intro H; cbn [isort]; [constructor|]. cbn [map] in H. inversion H as [|? ? Hs Ha]; subst.
  apply insert_lex; [now apply IH|]. rewrite Forall_forall in *. intros b Hb.
  apply (Permutation_in _ (Permutation_sym (isort_perm _ fst l))) in Hb. apply Ha. now apply in_map.
Qed.
Lemma kbest_sorted_lex no c : StronglySorted lexlt (kbest_sorted no c).
Proof.
  unfold kbest_sorted. apply isort_lex. unfold kbest_pairs. rewrite map_map. cbn [snd]. rewrite map_id. apply keys_sorted.
Qed.

(* ======================================================================================================================== *)
(* 3. decision trees of any depth                                                                                            *)
(* ======================================================================================================================== *)
(* the side expression of stump_wlearner_t::split, as translated *)
Lemma stump_side_shape v t : src_c10_stump_side v t = if (v <? t)%Z then 0%Z else 1%Z.
Proof. reflexivity. Qed.
Lemma side_of_range x thr : side_of x thr = 0%Z \/ side_of x thr = 1%Z.
Proof. unfold side_of. destruct (qlt x thr); [now left | now right]. Qed.

(* the path of one sample: from pair p, the sample is dropped at the first pair whose feature it misses, or reaches a leaf *)
Inductive walk (nodes : list node) (s : sample) : Z -> option Z -> Prop :=
| W_miss p : (forall x, fget (n_feature (znth p nodes node0)) s <> FNum x) -> walk nodes s p None
| W_leaf p x : fget (n_feature (znth p nodes node0)) s = FNum x -> n_next (znth p nodes node0) = 0%Z ->
    walk nodes s p (Some (n_table (znth p nodes node0) + side_of x (n_thr (znth p nodes node0)))%Z)
| W_step p x r : fget (n_feature (znth p nodes node0)) s = FNum x -> n_next (znth p nodes node0) <> 0%Z ->
    walk nodes s (n_next (znth (p + side_of x (n_thr (znth p nodes node0))) nodes node0)) r -> walk nodes s p r.

Lemma walk_det nodes s p r1 : walk nodes s p r1 -> forall r2, walk nodes s p r2 -> r1 = r2.
Proof.
  induction 1 as [p Hm|p x Hx Hn|p x r Hx Hn Hw IH]; intros r2 H2; inversion H2 as [q Hm2|q x2 Hx2 Hn2|q x2 r' Hx2 Hn2 Hw2]; subst.
  - reflexivity.
  - exfalso. exact (Hm _ Hx2).
  - exfalso. exact (Hm _ Hx2).
  - exfalso. exact (Hm2 _ Hx).
  - rewrite Hx in Hx2. injection Hx2 as <-. reflexivity.
  - contradiction.
  - exfalso. exact (Hm2 _ Hx).
  - contradiction.
  - rewrite Hx in Hx2. injection Hx2 as <-. now apply IH.
Qed.

Lemma wf_pair nodes nt p : tree_wf nodes nt = true -> (0 <= p)%Z -> Z.even p = true -> (p + 1 < nlen nodes)%Z ->
  pair_ok nodes nt p = true.
Proof.
  unfold tree_wf. rewrite !andb_true_iff. intros ((_ & _) & Hall) H0 He Hlt. rewrite forallb_forall in Hall.
  apply Z.even_spec in He. destruct He as (i & ->). specialize (Hall (Z.to_nat i)).
  rewrite Z2Nat.id in Hall by lia. apply Hall. apply in_seq. unfold nlen in Hlt.
  split; [lia|]. cbn [plus]. rewrite Nat.div2_div.
  apply Nat.div_le_lower_bound; [lia|]. lia.
Qed.

Lemma tree_walk_fuel nodes nt s : tree_wf nodes nt = true ->
  forall fuel p, (0 <= p)%Z -> Z.even p = true -> (p + 1 < nlen nodes)%Z -> (nlen nodes - p <= Z.of_nat fuel)%Z ->
    walk nodes s p (tree_group fuel nodes p s) /\ (forall g, tree_group fuel nodes p s = Some g -> (0 <= g < nt)%Z).
Proof.
  intro Hwf. induction fuel as [|f IH]; intros p H0 He Hlt Hf; [lia|].
  pose proof (wf_pair nodes nt p Hwf H0 He Hlt) as Hp. unfold pair_ok in Hp. cbn [tree_group].
  set (nd := znth p nodes node0) in *.
  destruct (fget (n_feature nd) s) as [|x|h] eqn:Ef.
  - split; [|discriminate]. apply W_miss. fold nd. rewrite Ef. discriminate.
  - unfold src_c10_tree_terminal, src_c10_tree_leaf, src_c10_tree_child in *. fold (side_of x (n_thr nd)).
    rewrite !andb_true_iff in Hp. destruct Hp as (_ & Hp).
    destruct (n_next nd =? 0)%Z eqn:En.
    + apply Z.eqb_eq in En. rewrite !andb_true_iff in Hp. destruct Hp as (((_ & Ht0) & _) & Ht1).
      apply Z.leb_le in Ht0. apply Z.ltb_lt in Ht1. split.
      * apply W_leaf; [exact Ef | exact En].
      * intros g [= <-]. destruct (side_of_range x (n_thr nd)) as [-> | ->]; lia.
    + apply Z.eqb_neq in En. rewrite andb_true_iff in Hp. destruct Hp as (Hc0 & Hc1). unfold child_ok, src_c10_tree_child in Hc0, Hc1.
      rewrite !andb_true_iff in Hc0, Hc1. destruct Hc0 as ((A0 & B0) & C0). destruct Hc1 as ((A1 & B1) & C1).
      apply Z.ltb_lt in A0, B0, A1, B1.
      assert (Hs : let nx := n_next (znth (p + side_of x (n_thr nd)) nodes node0) in
                   (p + 1 < nx)%Z /\ (nx + 1 < nlen nodes)%Z /\ Z.even nx = true).
      { destruct (side_of_range x (n_thr nd)) as [-> | ->]; cbv zeta; auto. }
      cbv zeta in Hs. destruct Hs as (A & B & C).
      destruct (IH (n_next (znth (p + side_of x (n_thr nd)) nodes node0))) as (Hw & Hr); try lia; try exact C.
      split; [|exact Hr]. eapply W_step; [exact Ef | exact En | exact Hw].
  - split; [|discriminate]. apply W_miss. fold nd. rewrite Ef. discriminate.
Qed.

(* more fuel does not change the result *)
Lemma tree_fuel_irrelevant nodes nt s : tree_wf nodes nt = true ->
  forall f1 f2 p, (0 <= p)%Z -> Z.even p = true -> (p + 1 < nlen nodes)%Z -> (nlen nodes - p <= Z.of_nat f1)%Z -> (nlen nodes - p <= Z.of_nat f2)%Z ->
    tree_group f1 nodes p s = tree_group f2 nodes p s.
Proof.
  intros Hwf f1 f2 p H0 He Hlt H1 H2.
  destruct (tree_walk_fuel nodes nt s Hwf f1 p H0 He Hlt H1) as (W1 & _).
  destruct (tree_walk_fuel nodes nt s Hwf f2 p H0 He Hlt H2) as (W2 & _).
  exact (walk_det _ _ _ _ W1 _ W2).
Qed.

Lemma wf_len nodes nt : tree_wf nodes nt = true -> (0 + 1 < nlen nodes)%Z.
Proof. unfold tree_wf. rewrite !andb_true_iff. intros ((H & _) & _). apply Z.ltb_lt in H. lia. Qed.

(* C10_tree_walk: in a well-formed node table every sample has exactly one outcome -- it is dropped at the first pair on its
   path whose feature it misses (no group, prediction zero) or it reaches exactly one leaf, whose table index split() reports and
   whose table predict() adds *)
Lemma tree_walk_total no nodes tables s : tree_wf nodes (Z.of_nat (length tables)) = true ->
  walk nodes s 0 (group (WTree nodes tables) s) /\
  (forall r, walk nodes s 0 r -> r = group (WTree nodes tables) s) /\
  match group (WTree nodes tables) s with
  | Some g => (0 <= g < Z.of_nat (length tables))%Z /\ incr no (WTree nodes tables) s = Some (znth g tables []) /\
              forall out, predict no (WTree nodes tables) s out = tab no (fun o => rget o out + rget o (znth g tables []))
  | None => forall out, predict no (WTree nodes tables) s out = out
  end.
Proof.
  intro Hwf. pose proof (wf_len _ _ Hwf) as Hl. cbn [group].
  destruct (tree_walk_fuel nodes _ s Hwf (S (length nodes)) 0%Z) as (W & R); try lia; [reflexivity | unfold nlen in *; lia|].
  split; [exact W|]. split; [intros r Hr; exact (walk_det _ _ _ _ Hr _ W)|].
  unfold predict. cbn [incr]. destruct (tree_group (S (length nodes)) nodes 0%Z s) as [g|]; [|reflexivity].
  split; [now apply R|]. split; reflexivity.
Qed.

(* C10_tree_compose: a tree is the stump of its root composed with the sub-trees on the two sides (the walks from the children) *)
Lemma tree_compose nodes tables s : tree_wf nodes (Z.of_nat (length tables)) = true ->
  let root := znth 0%Z nodes node0 in
  group (WTree nodes tables) s =
  match group (WStump (n_feature root) (n_thr root) [] []) s with
  | None => None
  | Some g => if src_c10_tree_terminal (n_next root) then Some (src_c10_tree_leaf (n_table root) g)
              else walk_from nodes (n_next (znth (src_c10_tree_child 0 g) nodes node0)) s
  end.
Proof.
  intros Hwf root. pose proof (wf_len _ _ Hwf) as Hl. cbn [group]. cbn [tree_group]. fold root.
  destruct (fget (n_feature root) s) as [|x|h]; try reflexivity.
  destruct (src_c10_tree_terminal (n_next root)) eqn:Et; [reflexivity|].
  pose proof (wf_pair nodes _ 0%Z Hwf (Z.le_refl 0) eq_refl Hl) as Hp. unfold pair_ok in Hp. fold root in Hp. rewrite Et in Hp.
  rewrite !andb_true_iff in Hp. destruct Hp as (_ & Hc0 & Hc1). unfold child_ok in Hc0, Hc1. rewrite !andb_true_iff in Hc0, Hc1.
  destruct Hc0 as ((A0 & B0) & C0). destruct Hc1 as ((A1 & B1) & C1). apply Z.ltb_lt in A0, B0, A1, B1.
  unfold walk_from.
  destruct (qlt x (n_thr root)); eapply tree_fuel_irrelevant; try exact Hwf; try assumption; unfold nlen in *; lia.
Qed.

(* ======================================================================================================================== *)
(* 2. the k-split table: greedy agglomerative clustering of the label sets (accumulator_t::cluster)                          *)
(* ======================================================================================================================== *)
Lemma in_cpairs n i j : In (i, j) (cpairs n) <-> (i < j < n)%nat.
Proof.
  unfold cpairs. rewrite in_flat_map. split.
  - intros (i' & Hi & Hj). apply in_map_iff in Hj. destruct Hj as (j' & [= <- <-] & Hj'). apply in_seq in Hi, Hj'. lia.
  - intros H. exists i. split; [apply in_seq; lia|]. apply in_map_iff. exists j. split; [reflexivity | apply in_seq; lia].
Qed.
Lemma closer_fold no cl l : forall acc,
  (fold_left (closer no cl) l acc = acc \/ In (snd (fold_left (closer no cl) l acc)) l) /\
  (fst acc <> None -> fst (fold_left (closer no cl) l acc) <> None).
Proof.
  induction l as [|p l IH]; intro acc; cbn [fold_left]; [split; [now left | auto]|].
  destruct (IH (closer no cl acc p)) as (H1 & H2). split.
  - destruct H1 as [H1|H1]; [|right; now right]. rewrite H1. unfold closer. destruct (fst acc) as [b|].
    + destruct (qlt _ b); [right; left; reflexivity | now left].
    + right. left. reflexivity.
  - intro Ha. apply H2. unfold closer. destruct (fst acc) as [b|] eqn:Ea; [|congruence]. destruct (qlt _ b); [cbn [fst]; discriminate | rewrite Ea; discriminate].
Qed.
Lemma closest_valid no cl : (2 <= length cl)%nat -> (fst (closest no cl) < snd (closest no cl) < length cl)%nat.
Proof.
  intro H. unfold closest.
  assert (Hne : In (0%nat, 1%nat) (cpairs (length cl))) by (apply in_cpairs; lia).
  destruct (cpairs (length cl)) as [|p l] eqn:E; [contradiction|]. cbn [fold_left].
  assert (Ec : closer no cl (None, (0%nat, 1%nat)) p = (Some (c_dist no (nth (fst p) cl clus0) (nth (snd p) cl clus0)), p)) by reflexivity.
  rewrite !Ec.
  destruct (closer_fold no cl l (Some (c_dist no (nth (fst p) cl clus0) (nth (snd p) cl clus0)), p)) as ([H1|H1] & _).
  - rewrite H1. cbn [snd]. apply in_cpairs. rewrite E. destruct p. now left.
  - apply in_cpairs. rewrite E. destruct (snd (fold_left _ l _)). now right.
Qed.

(* merging two clusters never lowers the residual sum of squares: u^2/x + v^2/y >= (u+v)^2/(x+y) *)
Lemma titu (u v x y : Q) : 0 < x -> 0 < y -> (u + v) * (u + v) / (x + y) <= u * u / x + v * v / y.
Proof.
  intros Hx Hy.
  assert (E : u * u / x + v * v / y - (u + v) * (u + v) / (x + y) == (u * y - v * x) * (u * y - v * x) / (x * y * (x + y))) by (field; lra).
  assert (P : 0 < x * y * (x + y)) by (apply Qmult_lt_0_compat; [apply Qmult_lt_0_compat|]; lra).
  assert (0 <= (u * y - v * x) * (u * y - v * x) / (x * y * (x + y))) by (apply Qle_shift_div_l; [exact P | pose proof (sq_nonneg (u * y - v * x)); lra]).
  lra.
Qed.
Lemma c_rss_add no a b : 0 < c_x0 a -> 0 < c_x0 b -> c_rss no a + c_rss no b <= c_rss no (c_add no a b).
Proof.
  intros Ha Hb. unfold c_rss, tab. rewrite <- qsum_map_plus. apply qsum_map_le. intros o Ho. apply in_tab_iff in Ho.
  unfold c_add. cbn [c_x0 c_r1 c_r2].
  rewrite !rget_tab by exact Ho. pose proof (titu (rget o (c_r1 a)) (rget o (c_r1 b)) (c_x0 a) (c_x0 b) Ha Hb). lra.
Qed.

Lemma split2 {A} (l : list A) d i j : (i < j < length l)%nat ->
  exists l1 l2 l3, l = l1 ++ nth i l d :: l2 ++ nth j l d :: l3 /\ length l1 = i /\ length (l1 ++ nth i l d :: l2) = j.
Proof.
  intros H. assert (Hi : (i < length l)%nat) by lia. destruct (nth_split l d Hi) as (l1 & r & E & L1).
  assert (Hr : (j - i - 1 < length r)%nat).
  { rewrite E in H. rewrite app_length in H. cbn [length] in H. lia. }
  destruct (nth_split r d Hr) as (l2 & l3 & E2 & L2).
  assert (Ej : nth j l d = nth (j - i - 1) r d).
  { rewrite E at 1. rewrite app_nth2 by lia. rewrite L1. destruct (j - i)%nat as [|m] eqn:Eji; [lia|]. cbn [nth]. f_equal. lia. }
  exists l1, l2, l3. rewrite Ej. split; [rewrite <- E2; exact E|]. split; [exact L1|]. rewrite app_length. cbn [length]. lia.
Qed.
Lemma replace_nth_app {A} (l1 : list A) a x r : replace_nth (length l1) x (l1 ++ a :: r) = l1 ++ x :: r.
Proof.
  unfold replace_nth. rewrite firstn_app, Nat.sub_diag, firstn_all, firstn_O, app_nil_r.
  rewrite skipn_app. rewrite skipn_all2 by lia. replace (S (length l1) - length l1)%nat with 1%nat by lia. reflexivity.
Qed.
Lemma remove_nth_app {A} (l1 : list A) a r : remove_nth (length l1) (l1 ++ a :: r) = l1 ++ r.
Proof.
  unfold remove_nth. rewrite firstn_app, Nat.sub_diag, firstn_all, firstn_O, app_nil_r.
  rewrite skipn_app. rewrite skipn_all2 by lia. replace (S (length l1) - length l1)%nat with 1%nat by lia. reflexivity.
Qed.

Definition kinv (st : kstate) : Prop :=
  Forall (fun c => 0 < c_x0 c) (fst st) /\ Forall (fun id => (id < length (fst st))%nat) (snd st).

(* one merge: one cluster less, ids stay in range, positive counts, the RSS does not decrease *)
Lemma merge_step_spec no st : kinv st -> (2 <= length (fst st))%nat ->
  kinv (merge_step no st) /\ length (fst (merge_step no st)) = pred (length (fst st)) /\
  length (snd (merge_step no st)) = length (snd st) /\
  forall miss, kstate_rss no miss st <= kstate_rss no miss (merge_step no st).
Proof.
  intros (Hpos & Hid) Hlen. destruct st as (cl, ids). cbn [fst snd] in *.
  pose proof (closest_valid no cl Hlen) as Hc. unfold merge_step. cbn [fst snd].
  set (c1 := fst (closest no cl)) in *. set (c2 := snd (closest no cl)) in *.
  destruct (split2 cl clus0 c1 c2 Hc) as (l1 & l2 & l3 & E & L1 & L2).
  set (a := nth c1 cl clus0) in *. set (b := nth c2 cl clus0) in *.
  assert (R1 : replace_nth c1 (c_add no a b) cl = l1 ++ c_add no a b :: l2 ++ b :: l3).
  { rewrite E at 1. rewrite <- L1. apply replace_nth_app. }
  assert (R2 : remove_nth c2 (replace_nth c1 (c_add no a b) cl) = (l1 ++ c_add no a b :: l2) ++ l3).
  { rewrite R1. replace c2 with (length (l1 ++ c_add no a b :: l2)) by (rewrite app_length in *; cbn [length] in *; lia).
    change (l1 ++ c_add no a b :: l2 ++ b :: l3) with (l1 ++ (c_add no a b :: l2) ++ b :: l3). rewrite app_assoc. apply remove_nth_app. }
  rewrite R2.
  assert (Pa : 0 < c_x0 a /\ 0 < c_x0 b /\ Forall (fun c => 0 < c_x0 c) l1 /\ Forall (fun c => 0 < c_x0 c) l2 /\ Forall (fun c => 0 < c_x0 c) l3).
  { rewrite E in Hpos. apply Forall_app in Hpos. destruct Hpos as (P1 & Hpos). pose proof (Forall_inv Hpos) as Pa'.
    apply Forall_inv_tail in Hpos. apply Forall_app in Hpos. destruct Hpos as (P2 & Hpos). pose proof (Forall_inv Hpos) as Pb'.
    apply Forall_inv_tail in Hpos. auto. }
  destruct Pa as (Pa & Pb & P1 & P2 & P3).
  assert (Len : length ((l1 ++ c_add no a b :: l2) ++ l3) = pred (length cl)).
  { rewrite E. rewrite !app_length. cbn [length]. rewrite !app_length. cbn [length]. lia. }
  split; [split|split; [exact Len|split; [apply map_length|]]].
  - cbn [fst]. apply Forall_app. split; [apply Forall_app; split; [exact P1|constructor; [|exact P2]]|exact P3].
    unfold c_add. cbn [c_x0]. lra.
  - cbn [fst snd]. rewrite Len. rewrite Forall_forall in *. intros id' Hin. apply in_map_iff in Hin. destruct Hin as (id & <- & Hin).
    specialize (Hid id Hin). unfold relabel. destruct (id =? c2)%nat eqn:E1.
    + destruct (c2 <? c1)%nat eqn:E2; [apply Nat.ltb_lt in E2; lia | lia].
    + apply Nat.eqb_neq in E1. destruct (c2 <? id)%nat eqn:E2; [apply Nat.ltb_lt in E2; lia | apply Nat.ltb_ge in E2; lia].
  - intro miss. unfold kstate_rss. cbn [fst]. apply Qplus_le_r. rewrite E at 1.
    rewrite !map_app, !qsum_app. cbn [map]. rewrite !qsum_cons, !map_app, !qsum_app. cbn [map]. rewrite !qsum_cons.
    pose proof (c_rss_add no a b Pa Pb). lra.
Qed.

Lemma ktrials_spec no miss : forall fuel st, kinv st -> (length (fst st) = S fuel)%nat ->
  forall t, In t (ktrials no fuel st) -> kinv t /\ kstate_rss no miss st <= kstate_rss no miss t /\ length (snd t) = length (snd st).
Proof.
  induction fuel as [|f IH]; intros st Hinv Hlen t Ht; cbn [ktrials] in Ht.
  - destruct Ht as [<-|[]]. split; [exact Hinv | split; [lra | reflexivity]].
  - destruct Ht as [<-|Ht]; [split; [exact Hinv | split; [lra | reflexivity]]|].
    destruct (merge_step_spec no st Hinv) as (Hinv' & Hlen' & Hids & Hrss); [lia|].
    assert (Hl2 : length (fst (merge_step no st)) = S f) by lia.
    destruct (IH (merge_step no st) Hinv' Hl2 t Ht) as (A & B & C).
    split; [exact A | split; [specialize (Hrss miss); lra | lia]].
Qed.

Lemma ksplit_init_inv no c : (0 < no)%nat -> kinv (ksplit_init no c).
Proof.
  intro H0. unfold kinv, ksplit_init. cbn [fst snd]. split.
  - rewrite Forall_forall. intros x Hx. apply in_map_iff in Hx. destruct Hx as (k & <- & Hk). unfold clus_of. cbn [c_x0].
    now apply bin_x0_pos.
  - rewrite map_length. rewrite Forall_forall. intros id Hid. apply in_seq in Hid. lia.
Qed.
Lemma c_rss_bin no rows k : (0 < no)%nat -> In k (keys_of rows) -> c_rss no (clus_of no (bin_mom no rows k)) == vbin_rss no (bin_mom no rows k).
Proof.
  intros H0 Hk. unfold c_rss, vbin_rss, clus_of. cbn [c_x0 c_r1 c_r2]. apply qsum_tab_eq. intros o Ho. rewrite !rget_tab by exact Ho.
  unfold bin_rss, bin_mom. rewrite (x0_same no (krows k rows) o Ho H0). reflexivity.
Qed.
Lemma ksplit_init_dense no c : (0 < no)%nat -> kstate_rss no (miss_rss no c) (ksplit_init no c) == dense_rss no c.
Proof.
  intro H0. unfold kstate_rss, ksplit_init, dense_rss. cbn [fst]. apply Qplus_inj_l. rewrite map_map. apply qsum_map_eq. intros k Hk.
  now apply c_rss_bin.
Qed.

(* every trial is a candidate with at least the dense RSS, the first trial (one group per label set) is the dense table; every
   trial keeps one group id per label set, all of them valid table indices *)
Lemma ksplit_seq_spec no (c : col Z) : (0 < no)%nat ->
  (forall x, In x (ksplit_rss_seq no c) -> dense_rss no c <= x) /\
  (keys_of (present c) <> [] -> exists x, In x (ksplit_rss_seq no c) /\ x == dense_rss no c) /\
  (keys_of (present c) = [] -> ksplit_rss_seq no c = []) /\
  (forall t, In t (ksplit_trials no c) -> length (snd t) = length (keys_of (present c)) /\
                                            Forall (fun id => (id < length (fst t))%nat) (snd t) /\ Forall (fun cl => 0 < c_x0 cl) (fst t)).
Proof.
  intro H0. unfold ksplit_rss_seq, ksplit_trials. destruct (keys_of (present c)) as [|k0 ks] eqn:E.
  - split; [intros x []|]. split; [congruence|]. split; [reflexivity | intros t []].
  - assert (Hlen : length (fst (ksplit_init no c)) = S (length ks)) by (unfold ksplit_init; cbn [fst]; rewrite map_length, E; reflexivity).
    pose proof (ksplit_init_inv no c H0) as Hinv.
    split; [|split; [|split; [discriminate|]]].
    + intros x Hx. apply in_map_iff in Hx. destruct Hx as (t & <- & Ht).
      destruct (ktrials_spec no (miss_rss no c) _ _ Hinv Hlen t Ht) as (_ & B & _). rewrite <- (ksplit_init_dense no c H0). exact B.
    + intros _. exists (kstate_rss no (miss_rss no c) (ksplit_init no c)). split; [|now apply ksplit_init_dense].
      apply in_map. destruct (length ks); cbn [ktrials]; now left.
    + intros t Ht. destruct (ktrials_spec no 0 _ _ Hinv Hlen t Ht) as ((P & I) & _ & C).
      split; [|split; [exact I | exact P]]. rewrite C. unfold ksplit_init. cbn [snd]. rewrite seq_length, E. reflexivity.
Qed.

(* C10_ksplit_optimal (RSS criterion): the k-split fit is the dense optimum over the features with a present value *)
Lemma ksplit_fit_optimal no floor (cs : list (col Z)) : (0 < no)%nat ->
  match ksplit_fit no floor cs with
  | Some s => (exists c T, In c cs /\ keys_of (present c) <> [] /\ s == clamp floor (rss_of no T c)) /\
              (forall c T, In c cs -> keys_of (present c) <> [] -> s <= clamp floor (rss_of no T c))
  | None => forall c, In c cs -> keys_of (present c) = []
  end.
Proof.
  intros H0. unfold ksplit_fit. pose proof (best_of_flat (ksplit_cands no floor) (fun x => x) cs) as H. rewrite map_id in H.
  destruct (best_of (flat_map (ksplit_cands no floor) cs)) as [s|].
  - destruct H as ((c & x & Hc & Hx & ->) & Hall).
    assert (Low : forall c' T, In c' cs -> keys_of (present c') <> [] -> x <= clamp floor (rss_of no T c')).
    { intros c' T Hc' Hne. destruct (ksplit_seq_spec no c' H0) as (_ & Hd & _). destruct (Hd Hne) as (y & Hy & Ey).
      assert (Hy' : In (clamp floor y) (ksplit_cands no floor c')) by (unfold ksplit_cands; now apply in_map).
      specialize (Hall c' _ Hc' Hy'). destruct (dense_col_optimal no c') as (Hle & _).
      pose proof (clamp_mono floor _ _ (Hle T)). rewrite (clamp_proper floor floor (Qeq_refl _) y _ Ey) in Hall. lra. }
    split; [|exact Low].
    assert (Hne : keys_of (present c) <> []).
    { intro E. destruct (ksplit_seq_spec no c H0) as (_ & _ & Hn & _). unfold ksplit_cands in Hx. rewrite (Hn E) in Hx. contradiction. }
    destruct (dense_col_optimal no c) as (_ & T & ET). exists c, T. repeat split; [exact Hc|exact Hne|].
    unfold ksplit_cands in Hx. apply in_map_iff in Hx. destruct Hx as (y & <- & Hy).
    destruct (ksplit_seq_spec no c H0) as (Hge & _).
    pose proof (clamp_mono floor _ _ (Hge y Hy)) as G.
    specialize (Low c T Hc Hne). rewrite <- (clamp_proper floor floor (Qeq_refl _) _ _ ET) in Low.
    rewrite <- (clamp_proper floor floor (Qeq_refl _) _ _ ET). lra.
  - intros c Hc. specialize (H c Hc). destruct (keys_of (present c)) as [|k ks] eqn:E; [reflexivity|]. exfalso.
    destruct (ksplit_seq_spec no c H0) as (_ & Hd & _). destruct Hd as (y & Hy & _); [rewrite E; discriminate|].
    unfold ksplit_cands in H. apply map_eq_nil in H. rewrite H in Hy. contradiction.
Qed.

(* ... but for a FIXED number of groups the greedy merge of the closest means is not the best grouping: three label sets with
   means 0 (100 samples), 1 (100 samples), 21/10 (1 sample); the source merges {0, 1} (RSS 50), merging {1, 21/10} has RSS 121/101 *)
Definition ksplit_cex : col Z :=
  repeat (Some 1%Z, [0]) 100 ++ repeat (Some 2%Z, [1]) 100 ++ [(Some 3%Z, [21 # 10])].
Definition ksplit_cex_table (key : Z) : list Q := if (key =? 1)%Z then [0] else [111 # 101].
Lemma ksplit_fixed_k_refuted :
  exists (c : col Z) (T : Z -> list Q) x, nth_error (ksplit_rss_seq 1 c) 1 = Some x /\
    (forall k1 k2, In k1 [2%Z; 3%Z] -> In k2 [2%Z; 3%Z] -> T k1 = T k2) /\ rss_of 1 T c < x.
Proof.
  exists ksplit_cex, ksplit_cex_table. eexists. split; [vm_compute; reflexivity|]. split.
  - intros k1 k2 [<-|[<-|[]]] [<-|[<-|[]]]; reflexivity.
  - vm_compute. reflexivity.
Qed.

(* ======================================================================================================================== *)
(* 3b. the breadth-first split of do_split over a sample SET (any list, empty lists included) = the per-sample walk           *)
(* ======================================================================================================================== *)
Definition valid_pair (nodes : list node) (p : Z) : Prop := (0 <= p)%Z /\ Z.even p = true /\ (p + 1 < nlen nodes)%Z.

Lemma tree_group_S f nodes p s : tree_group (S f) nodes p s =
  match fget (n_feature (znth p nodes node0)) s with
  | FNum x => if src_c10_tree_terminal (n_next (znth p nodes node0))
              then Some (src_c10_tree_leaf (n_table (znth p nodes node0)) (side_of x (n_thr (znth p nodes node0))))
              else tree_group f nodes (n_next (znth (src_c10_tree_child p (side_of x (n_thr (znth p nodes node0)))) nodes node0)) s
  | _ => None
  end.
Proof. reflexivity. Qed.
Lemma tree_group_step nodes nt s p : tree_wf nodes nt = true -> valid_pair nodes p ->
  tree_group (S (length nodes)) nodes p s =
  match fget (n_feature (znth p nodes node0)) s with
  | FNum x => if src_c10_tree_terminal (n_next (znth p nodes node0))
              then Some (src_c10_tree_leaf (n_table (znth p nodes node0)) (side_of x (n_thr (znth p nodes node0))))
              else tree_group (S (length nodes)) nodes
                     (n_next (znth (src_c10_tree_child p (side_of x (n_thr (znth p nodes node0)))) nodes node0)) s
  | _ => None
  end.
Proof.
  intros Hwf (H0 & He & Hlt). rewrite (tree_group_S (length nodes) nodes p s). set (nd := znth p nodes node0).
  destruct (fget (n_feature nd) s) as [|x|h]; try reflexivity.
  destruct (src_c10_tree_terminal (n_next nd)) eqn:Et; [reflexivity|].
  pose proof (wf_pair nodes nt p Hwf H0 He Hlt) as Hp. unfold pair_ok in Hp. fold nd in Hp. rewrite Et in Hp.
  rewrite !andb_true_iff in Hp. destruct Hp as (_ & Hc0 & Hc1). unfold child_ok in Hc0, Hc1. rewrite !andb_true_iff in Hc0, Hc1.
  destruct Hc0 as ((A0 & B0) & C0). destruct Hc1 as ((A1 & B1) & C1). apply Z.ltb_lt in A0, B0, A1, B1.
  unfold side_of. destruct (qlt x (n_thr nd)); eapply tree_fuel_irrelevant; try exact Hwf; try assumption; unfold nlen in *; lia.
Qed.
Lemma wf_children nodes nt p : tree_wf nodes nt = true -> valid_pair nodes p -> src_c10_tree_terminal (n_next (znth p nodes node0)) = false ->
  forall g, g = 0%Z \/ g = 1%Z -> valid_pair nodes (n_next (znth (src_c10_tree_child p g) nodes node0)).
Proof.
  intros Hwf (H0 & He & Hlt) Et g Hg.
  pose proof (wf_pair nodes nt p Hwf H0 He Hlt) as Hp. unfold pair_ok in Hp. rewrite Et in Hp.
  rewrite !andb_true_iff in Hp. destruct Hp as (_ & Hc0 & Hc1). unfold child_ok in Hc0, Hc1. rewrite !andb_true_iff in Hc0, Hc1.
  destruct Hc0 as ((A0 & B0) & C0). destruct Hc1 as ((A1 & B1) & C1). apply Z.ltb_lt in A0, B0, A1, B1.
  unfold valid_pair. destruct Hg as [-> | ->]; (split; [lia | split; assumption]).
Qed.

Lemma in_stump_part f thr g ss e : In e (stump_part f thr g ss) <-> In e ss /\ exists x, fget f (snd e) = FNum x /\ side_of x thr = g.
Proof.
  unfold stump_part. rewrite filter_In. split; intros (Hin & H); (split; [exact Hin|]).
  - destruct (fget f (snd e)) as [|x|h]; try discriminate. exists x. split; [reflexivity | now apply Z.eqb_eq].
  - destruct H as (x & -> & <-). apply Z.eqb_refl.
Qed.

(* the assignments produced by the queue: exactly the (sample id, leaf) pairs of the samples of the queued sets that reach a leaf *)
Lemma bfs_members nodes nt : tree_wf nodes nt = true -> forall fuel q, bfs_done fuel nodes q = true ->
  (forall p ss, In (p, ss) q -> valid_pair nodes p) ->
  forall i g, In (i, g) (tree_bfs fuel nodes q) <->
    exists p ss s, In (p, ss) q /\ In (i, s) ss /\ tree_group (S (length nodes)) nodes p s = Some g.
Proof.
  intro Hwf. induction fuel as [|f IH]; intros q Hd Hv i g.
  - destruct q as [|[p ss] rest]; [|cbn in Hd; discriminate]. cbn [tree_bfs]. split; [intros [] | intros (p & ss & s & [] & _)].
  - destruct q as [|[p ss] rest]; [cbn [tree_bfs]; split; [intros [] | intros (p & ss & s & [] & _)]|].
    cbn [tree_bfs bfs_done] in *.
    assert (Vp : valid_pair nodes p) by (apply (Hv p ss); now left).
    assert (Vr : forall p' ss', In (p', ss') rest -> valid_pair nodes p') by (intros p' ss' H; apply (Hv p' ss'); now right).
    set (nd := znth p nodes node0) in *.
    destruct (src_c10_tree_terminal (n_next nd)) eqn:Et.
    + rewrite !in_app_iff, !in_map_iff. rewrite (IH rest Hd Vr i g). split.
      * intros [(e & E & He)|[(e & E & He)|(p' & ss' & s & Hin & Hs & Hg)]].
        -- destruct e as [i' s]. cbn [fst snd] in E. injection E as -> <-. apply in_stump_part in He. destruct He as (Hin & x & Hx & Hsd).
           exists p, ss, s. split; [now left|]. split; [exact Hin|]. rewrite (tree_group_step nodes nt s p Hwf Vp). fold nd. cbn [snd] in Hx.
           rewrite Hx, Et, Hsd. reflexivity.
        -- destruct e as [i' s]. cbn [fst snd] in E. injection E as -> <-. apply in_stump_part in He. destruct He as (Hin & x & Hx & Hsd).
           exists p, ss, s. split; [now left|]. split; [exact Hin|]. rewrite (tree_group_step nodes nt s p Hwf Vp). fold nd. cbn [snd] in Hx.
           rewrite Hx, Et, Hsd. reflexivity.
        -- exists p', ss', s. split; [now right|]. now split.
      * intros (p' & ss' & s & [E|Hin] & Hs & Hg).
        -- injection E as <- <-. rewrite (tree_group_step nodes nt s p Hwf Vp) in Hg. fold nd in Hg.
           destruct (fget (n_feature nd) s) as [|x|h] eqn:Hx; try discriminate. rewrite Et in Hg. injection Hg as <-.
           destruct (side_of_range x (n_thr nd)) as [Hsd|Hsd]; rewrite Hsd; [left | right; left]; exists (i, s); (split; [reflexivity|]);
             apply in_stump_part; (split; [exact Hs|]); exists x; cbn [snd]; now split.
        -- right. right. exists p', ss', s. now split.
    + assert (Vq : forall p' ss', In (p', ss') (rest ++ [(n_next (znth (src_c10_tree_child p 0) nodes node0), stump_part (n_feature nd) (n_thr nd) 0 ss);
                                                        (n_next (znth (src_c10_tree_child p 1) nodes node0), stump_part (n_feature nd) (n_thr nd) 1 ss)]) ->
                               valid_pair nodes p').
      { intros p' ss' H. apply in_app_or in H. destruct H as [H|[H|[H|[]]]]; [now apply (Vr p' ss') | |]; injection H as <- _;
          apply (wf_children nodes nt p Hwf Vp Et); [now left | now right]. }
      rewrite (IH _ Hd Vq i g). split.
      * intros (p' & ss' & s & Hin & Hs & Hg). apply in_app_or in Hin. destruct Hin as [Hin|[E|[E|[]]]].
        -- exists p', ss', s. split; [now right|]. now split.
        -- injection E as <- <-. apply in_stump_part in Hs. destruct Hs as (Hin & x & Hx & Hsd). cbn [snd] in Hx.
           exists p, ss, s. split; [now left|]. split; [exact Hin|]. rewrite (tree_group_step nodes nt s p Hwf Vp). fold nd.
           rewrite Hx, Et, Hsd. exact Hg.
        -- injection E as <- <-. apply in_stump_part in Hs. destruct Hs as (Hin & x & Hx & Hsd). cbn [snd] in Hx.
           exists p, ss, s. split; [now left|]. split; [exact Hin|]. rewrite (tree_group_step nodes nt s p Hwf Vp). fold nd.
           rewrite Hx, Et, Hsd. exact Hg.
      * intros (p' & ss' & s & [E|Hin] & Hs & Hg).
        -- injection E as <- <-. rewrite (tree_group_step nodes nt s p Hwf Vp) in Hg. fold nd in Hg.
           destruct (fget (n_feature nd) s) as [|x|h] eqn:Hx; try discriminate. rewrite Et in Hg.
           destruct (side_of_range x (n_thr nd)) as [Hsd|Hsd]; rewrite Hsd in Hg.
           ++ exists (n_next (znth (src_c10_tree_child p 0) nodes node0)), (stump_part (n_feature nd) (n_thr nd) 0 ss), s.
              split; [apply in_or_app; right; now left|]. split; [|exact Hg]. apply in_stump_part. split; [exact Hs|]. exists x. cbn [snd]. now split.
           ++ exists (n_next (znth (src_c10_tree_child p 1) nodes node0)), (stump_part (n_feature nd) (n_thr nd) 1 ss), s.
              split; [apply in_or_app; right; right; now left|]. split; [|exact Hg]. apply in_stump_part. split; [exact Hs|]. exists x. cbn [snd]. now split.
        -- exists p', ss', s. split; [apply in_or_app; now left|]. now split.
Qed.

Lemma assigned_app i l e : assigned i (l ++ [e]) = if (fst e =? i)%nat then Some (snd e) else assigned i l.
Proof. unfold assigned. rewrite fold_left_app. reflexivity. Qed.
Lemma assigned_none i l : (forall g, ~ In (i, g) l) -> assigned i l = None.
Proof.
  induction l as [|e l IH] using rev_ind; intro H; [reflexivity|]. rewrite assigned_app. destruct (fst e =? i)%nat eqn:E.
  - apply Nat.eqb_eq in E. exfalso. apply (H (snd e)). apply in_or_app. right. left. destruct e; cbn in *; now subst.
  - apply IH. intros g Hg. apply (H g). apply in_or_app. now left.
Qed.
Lemma assigned_some i l g0 : In (i, g0) l -> (forall g, In (i, g) l -> g = g0) -> assigned i l = Some g0.
Proof.
  induction l as [|e l IH] using rev_ind; intros Hin Hall; [contradiction|]. rewrite assigned_app. destruct (fst e =? i)%nat eqn:E.
  - apply Nat.eqb_eq in E. f_equal. apply Hall. apply in_or_app. right. left. destruct e; cbn in *; now subst.
  - apply Nat.eqb_neq in E. apply IH.
    + apply in_app_or in Hin. destruct Hin as [Hin|[->|[]]]; [exact Hin | cbn in E; congruence].
    + intros g Hg. apply Hall. apply in_or_app. now left.
Qed.

(* C10_tree_bfs_is_walk: for EVERY list of samples (ids determine the sample; the empty list and lists that leave whole branches empty
   included) the set-based breadth-first split assigns to every listed sample exactly the leaf of its walk, and nothing to the others *)
Lemma bfs_is_walk nodes nt fuel ss : tree_wf nodes nt = true -> bfs_done fuel nodes [(0%Z, ss)] = true ->
  (forall i s s', In (i, s) ss -> In (i, s') ss -> s = s') ->
  forall i, (forall s, In (i, s) ss -> assigned i (tree_bfs fuel nodes [(0%Z, ss)]) = walk_from nodes 0 s) /\
            ((forall s, ~ In (i, s) ss) -> assigned i (tree_bfs fuel nodes [(0%Z, ss)]) = None).
Proof.
  intros Hwf Hd Hfun i. pose proof (wf_len _ _ Hwf) as Hl.
  assert (Hv : forall p ss', In (p, ss') [(0%Z, ss)] -> valid_pair nodes p).
  { intros p ss' [E|[]]. injection E as <- _. unfold valid_pair. split; [lia | split; [reflexivity | exact Hl]]. }
  pose proof (bfs_members nodes nt Hwf fuel _ Hd Hv i) as M. split.
  - intros s Hs. unfold walk_from. destruct (tree_group (S (length nodes)) nodes 0%Z s) as [g|] eqn:Eg.
    + apply assigned_some.
      * apply M. exists 0%Z, ss, s. split; [now left|]. now split.
      * intros g' Hg'. apply M in Hg'. destruct Hg' as (p & ss' & s' & [E|[]] & Hs' & Hg'). injection E as <- <-.
        rewrite (Hfun i s' s Hs' Hs) in Hg'. congruence.
    + apply assigned_none. intros g Hg. apply M in Hg. destruct Hg as (p & ss' & s' & [E|[]] & Hs' & Hg). injection E as <- <-.
      rewrite (Hfun i s' s Hs' Hs) in Hg. congruence.
  - intro Hno. apply assigned_none. intros g Hg. apply M in Hg. destruct Hg as (p & ss' & s' & [E|[]] & Hs' & _). injection E as <- <-.
    exact (Hno s' Hs').
Qed.

(* a fuel that suffices for every well-formed table and every sample list *)
Lemma bfs_fuel_app nodes a b : bfs_fuel nodes (a ++ b) = (bfs_fuel nodes a + bfs_fuel nodes b)%nat.
Proof. unfold bfs_fuel. induction a as [|e a IH]; cbn [app fold_right]; [reflexivity|]. rewrite IH. lia. Qed.
Lemma bfs_weight_pos nodes p : (1 <= bfs_weight nodes p)%nat.
Proof. unfold bfs_weight. rewrite Nat.pow_succ_r'. pose proof (Nat.pow_nonzero 2 (Z.to_nat ((nlen nodes - p) / 2))). lia. Qed.
Lemma bfs_weight_child nodes p c0 c1 : (p + 1 < c0)%Z -> (c0 + 1 < nlen nodes)%Z -> (p + 1 < c1)%Z -> (c1 + 1 < nlen nodes)%Z -> (0 <= p)%Z ->
  (1 + bfs_weight nodes c0 + bfs_weight nodes c1 <= bfs_weight nodes p)%nat.
Proof.
  intros A0 B0 A1 B1 H0. unfold bfs_weight.
  set (h := Z.to_nat ((nlen nodes - p) / 2)). set (h0 := Z.to_nat ((nlen nodes - c0) / 2)). set (h1 := Z.to_nat ((nlen nodes - c1) / 2)).
  assert (E0 : (S h0 <= h)%nat).
  { unfold h0, h. assert ((nlen nodes - c0) / 2 + 1 <= (nlen nodes - p) / 2)%Z by (Z.div_mod_to_equations; lia).
    assert (0 <= (nlen nodes - c0) / 2)%Z by (Z.div_mod_to_equations; lia). lia. }
  assert (E1 : (S h1 <= h)%nat).
  { unfold h1, h. assert ((nlen nodes - c1) / 2 + 1 <= (nlen nodes - p) / 2)%Z by (Z.div_mod_to_equations; lia).
    assert (0 <= (nlen nodes - c1) / 2)%Z by (Z.div_mod_to_equations; lia). lia. }
  pose proof (Nat.pow_le_mono_r 2 (S h0) h ltac:(lia) E0). pose proof (Nat.pow_le_mono_r 2 (S h1) h ltac:(lia) E1).
  rewrite (Nat.pow_succ_r' 2 h). pose proof (Nat.pow_nonzero 2 (S h0)). pose proof (Nat.pow_nonzero 2 (S h1)). lia.
Qed.
Lemma bfs_fuel_enough nodes nt : tree_wf nodes nt = true -> forall fuel q, (forall p ss, In (p, ss) q -> valid_pair nodes p) ->
  (bfs_fuel nodes q <= fuel)%nat -> bfs_done fuel nodes q = true.
Proof.
  intro Hwf. induction fuel as [|f IH]; intros q Hv Hf.
  - destruct q as [|[p ss] rest]; [reflexivity|]. cbn [bfs_fuel fold_right fst] in Hf. pose proof (bfs_weight_pos nodes p). lia.
  - destruct q as [|[p ss] rest]; [reflexivity|]. cbn [bfs_done].
    assert (Vp : valid_pair nodes p) by (apply (Hv p ss); now left).
    assert (Vr : forall p' ss', In (p', ss') rest -> valid_pair nodes p') by (intros p' ss' H; apply (Hv p' ss'); now right).
    change (bfs_fuel nodes ((p, ss) :: rest)) with (bfs_weight nodes p + bfs_fuel nodes rest)%nat in Hf.
    destruct (src_c10_tree_terminal (n_next (znth p nodes node0))) eqn:Et.
    + apply IH; [exact Vr|]. pose proof (bfs_weight_pos nodes p). lia.
    + apply IH.
      * intros p' ss' H. apply in_app_or in H. destruct H as [H|[H|[H|[]]]]; [now apply (Vr p' ss') | |]; injection H as <- _;
          apply (wf_children nodes nt p Hwf Vp Et); [now left | now right].
      * rewrite bfs_fuel_app. cbn [bfs_fuel fold_right fst].
        destruct (wf_children nodes nt p Hwf Vp Et 0%Z (or_introl eq_refl)) as (_ & _ & B0).
        destruct (wf_children nodes nt p Hwf Vp Et 1%Z (or_intror eq_refl)) as (_ & _ & B1).
        destruct Vp as (H0 & He & Hlt).
        pose proof (wf_pair nodes nt p Hwf H0 He Hlt) as Hp. unfold pair_ok in Hp. rewrite Et in Hp.
        rewrite !andb_true_iff in Hp. destruct Hp as (_ & Hc0 & Hc1). unfold child_ok in Hc0, Hc1. rewrite !andb_true_iff in Hc0, Hc1.
        destruct Hc0 as ((A0 & _) & _). destruct Hc1 as ((A1 & _) & _). apply Z.ltb_lt in A0, A1.
        pose proof (bfs_weight_child nodes p _ _ A0 B0 A1 B1 H0). lia.
Qed.
Lemma bfs_fuel_root nodes nt ss fuel : tree_wf nodes nt = true -> (bfs_fuel nodes [(0%Z, ss)] <= fuel)%nat ->
  bfs_done fuel nodes [(0%Z, ss)] = true.
Proof.
  intros Hwf Hf. apply (bfs_fuel_enough nodes nt Hwf); [|exact Hf]. intros p ss' [E|[]]. injection E as <- _.
  unfold valid_pair. split; [lia | split; [reflexivity | exact (wf_len _ _ Hwf)]].
Qed.
(* the group of a sample does not depend on the list it is split with *)
Lemma bfs_sublist nodes nt f1 f2 ss1 ss2 : tree_wf nodes nt = true ->
  bfs_done f1 nodes [(0%Z, ss1)] = true -> bfs_done f2 nodes [(0%Z, ss2)] = true ->
  (forall i s s', In (i, s) ss1 -> In (i, s') ss1 -> s = s') -> (forall i s s', In (i, s) ss2 -> In (i, s') ss2 -> s = s') ->
  forall i s, In (i, s) ss1 -> In (i, s) ss2 ->
    assigned i (tree_bfs f1 nodes [(0%Z, ss1)]) = assigned i (tree_bfs f2 nodes [(0%Z, ss2)]).
Proof.
  intros Hwf D1 D2 F1 F2 i s H1 H2.
  rewrite (proj1 (bfs_is_walk nodes nt f1 ss1 Hwf D1 F1 i) s H1), (proj1 (bfs_is_walk nodes nt f2 ss2 Hwf D2 F2 i) s H2). reflexivity.
Qed.
