(* C12 (extension) -- executable binary64 twin of the element-wise statement of sample_from_ball
   (src/core/sampling.cpp):

       x.array() = x0.array() + radius * z * x.array() / x.lpNorm<2>();

   C++ parses the right-hand side as  x0 + (((radius * z) * u) / nrm): `radius * z` is one scalar product, the
   product with the array and the quotient by the scalar norm are evaluated element by element (Eigen's
   scalar_product_op / scalar_quotient_op, each a single correctly rounded binary64 operation; no FMA: the library is
   built for baseline x86-64), then one addition per element.  The norm is an Eigen reduction and the deviates
   u, the scale z = pow(uniform, 1/n) come from libstdc++ / libm: these three are INPUTS of the twin (taken from the
   run), the element-wise part is recomputed bit for bit.

   The operator tree is written once, over an arbitrary carrier (`ball_shape`); instantiated with Z it must be the
   kernel `src_ball_point` translated from the source on every run (proved in C12_Float.v), instantiated with
   PrimFloat it is the twin.  No proofs in this file. *)
From Coq Require Import ZArith Bool List Floats.
From LNGen Require Import Src_sampling.
Import ListNotations.

Record ops (A : Type) := mkops { o_add : A -> A -> A; o_mul : A -> A -> A; o_div : A -> A -> A }.
Arguments o_add {A}. Arguments o_mul {A}. Arguments o_div {A}.

Definition ball_shape {A : Type} (o : ops A) (x0 radius z u nrm : A) : A :=
  o_add o x0 (o_div o (o_mul o (o_mul o radius z) u) nrm).

Definition zops : ops Z := mkops Z Z.add Z.mul Z.quot.
Definition fops : ops float := mkops float PrimFloat.add PrimFloat.mul PrimFloat.div.

(* one component and the whole vector *)
Definition ball_comp (radius z nrm a b : float) : float := ball_shape fops a radius z b nrm.

Fixpoint ball_twin (x0 u : list float) (radius z nrm : float) : list float :=
  match x0, u with
  | a :: x0', b :: u' => ball_comp radius z nrm a b :: ball_twin x0' u' radius z nrm
  | _, _ => []
  end.

(* ---- side conditions of the theorems, as executable tests (evaluated by the driver on every observed call) ---- *)
Definition finb (a : float) : bool := PrimFloat.is_finite a.
Definition fzero : float := 0%float.
Definition fone : float := 1%float.
(* 2^-1021: a computed value at least this big in magnitude was certainly not affected by underflow *)
Definition ftiny : float := 0x1p-1021%float.
Definition big_enough (t : float) : bool := PrimFloat.leb ftiny (PrimFloat.abs t).
Definition is_zero (t : float) : bool := PrimFloat.eqb t fzero.

(* every input and every intermediate result of one component is finite *)
Definition comp_finite (radius z nrm a b : float) : bool :=
  finb a && finb b && finb (PrimFloat.mul (PrimFloat.mul radius z) b) &&
  finb (PrimFloat.div (PrimFloat.mul (PrimFloat.mul radius z) b) nrm) && finb (ball_comp radius z nrm a b).

(* neither the product rz * u_k nor the quotient by the norm underflowed (a factor is zero, or the result is big) *)
Definition comp_nu (radius z nrm b : float) : bool :=
  let rz := PrimFloat.mul radius z in
  let p := PrimFloat.mul rz b in
  (is_zero rz || is_zero b || big_enough p) && (is_zero p || big_enough (PrimFloat.div p nrm)).

Fixpoint comps_ok (x0 u : list float) (radius z nrm : float) : bool :=
  match x0, u with
  | a :: x0', b :: u' => comp_finite radius z nrm a b && comp_nu radius z nrm b && comps_ok x0' u' radius z nrm
  | [], [] => true
  | _, _ => false
  end.

(* the preconditions of sample_from_ball (radius > 0), the hypothesis on libm's pow (0 <= z <= 1), a positive norm,
   finiteness and absence of underflow *)
Definition ball_ok (x0 u : list float) (radius z nrm : float) : bool :=
  finb radius && finb z && finb nrm && finb (PrimFloat.mul radius z) &&
  PrimFloat.ltb fzero radius && PrimFloat.leb fzero z && PrimFloat.leb z fone && PrimFloat.ltb fzero nrm &&
  comps_ok x0 u radius z nrm.

(* the squares u_k * u_k that the norm reduction adds up did not underflow *)
Definition squares_nu (u : list float) : bool :=
  forallb (fun b => finb b && (is_zero b || big_enough (PrimFloat.mul b b)) && finb (PrimFloat.mul b b)) u.

(* ---- gboost::sampler_t: count = static_cast<tensor_size_t>(m_ratio * static_cast<scalar_t>(m_samples.size())) ----- *)
Definition count_shape {A : Type} (o : ops A) (ratio size : A) : A := o_mul o ratio size.

(* static_cast<scalar_t>(n) for 0 <= n < 2^63 *)
Definition float_of_size (n : Z) : float := PrimFloat.of_uint63 (Uint63.of_Z n).

(* static_cast<tensor_size_t>(x): truncation toward zero (defined behaviour for |x| < 2^63; 0 stands for the rest) *)
Definition trunc_float (x : float) : Z :=
  match Prim2SF x with
  | S754_finite s m e =>
      let mag := if (0 <=? e)%Z then (Z.pos m * 2 ^ e)%Z else (Z.pos m / 2 ^ (- e))%Z in
      if s then (- mag)%Z else mag
  | _ => 0%Z
  end.

Definition gb_count (ratio : float) (n : Z) : Z := trunc_float (count_shape fops ratio (float_of_size n)).

(* ---- concrete values used by the examples ------------------------------------------------------------------------------ *)
(* a point that lands OUTSIDE the ball in binary64 although z < 1: n = 2, centre 0, radius 1e6 *)
Definition wit_radius : float := 0x1.e848p+19%float.
Definition wit_z : float := 0x1.fffffffffffffp-1%float.
Definition wit_u : list float := [(-0x1.7c03341f189dcp-3)%float; 0x1.03af4435af225p+0%float].
Definition wit_x0 : list float := [fzero; fzero].
(* the norm as one possible reduction computes it: sqrt (u0*u0 + u1*u1), every operation rounded *)
Definition wit_nrm : float :=
  PrimFloat.sqrt (PrimFloat.add (PrimFloat.mul (nth 0 wit_u fzero) (nth 0 wit_u fzero)) (PrimFloat.mul (nth 1 wit_u fzero) (nth 1 wit_u fzero))).

(* ratios for the count examples *)
Definition ex_ratio_half : float := 0.5%float.
Definition ex_ratio_029 : float := 0x1.28f5c28f5c28fp-2%float.    (* 0.29 *)
Definition ex_ratio_07 : float := 0x1.6666666666666p-1%float.     (* 0.7 *)
