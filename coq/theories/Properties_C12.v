(* C12 -- Splitters and samplers return index sets with the promised set structure.
   Only statements + `exact` + Print Assumptions live here.  Model: C12_Defs (imports the kernels translated
   from src/splitter/{kfold,random}.cpp, src/core/sampling.cpp and numeric.h on every run).

   `shuffle seed call l` stands for the `call`-th std::shuffle on the generator make_rng(seed); the only thing
   assumed about it is that it permutes (premise `permutes shuffle`).  `shuffle_by oracle` is the executable
   instance that is extracted and run against the library: it replays the position permutation observed from
   the real std::shuffle and satisfies the premise for *every* oracle (C12_shuffle_oracle_permutes), so all
   theorems below hold unconditionally for the extracted code. *)
From Coq Require Import List ZArith Bool Permutation Sorted.
From Coq Require Import Reals Lra.
From LN Require Import C12_Defs C12_Proofs C12_Statements.
Import ListNotations.
Local Open Scope Z_scope.

(* ---- k-fold ------------------------------------------------------------------------------------ *)

(* exactly `folds` splits *)
Theorem C12_kfold_count : forall shuffle seed folds l,
  0 <= folds -> Z.of_nat (length (kfold shuffle seed folds l)) = folds.
Proof. exact p_kfold_count. Qed.
Print Assumptions C12_kfold_count.

(* every (training, validation) pair is disjoint, sorted, and together exactly the input *)
Theorem C12_kfold_pair : forall shuffle, permutes shuffle -> forall seed folds l tr va,
  NoDup l -> 1 <= folds -> In (tr, va) (kfold shuffle seed folds l) ->
  Permutation (tr ++ va) l /\ (forall x, In x tr -> ~ In x va) /\
  StronglySorted Z.le tr /\ StronglySorted Z.le va.
Proof. exact p_kfold_pair. Qed.
Print Assumptions C12_kfold_pair.

(* the k validation folds partition the input ... *)
Theorem C12_kfold_partition : forall shuffle, permutes shuffle -> forall seed folds l,
  1 <= folds -> Permutation (concat (map snd (kfold shuffle seed folds l))) l.
Proof. exact p_kfold_partition. Qed.
Print Assumptions C12_kfold_partition.

(* ... fold f has n/k elements, the last fold n/k + n mod k: sizes differ by less than k *)
Theorem C12_kfold_sizes : forall shuffle, permutes shuffle -> forall seed folds l,
  1 <= folds ->
  map (fun p => zlen (snd p)) (kfold shuffle seed folds l) =
  map (fun f => if f + 1 <? folds then zlen l / folds else zlen l / folds + zlen l mod folds) (zrange folds) /\
  Forall (fun p => zlen l / folds <= zlen (snd p) < zlen l / folds + folds) (kfold shuffle seed folds l).
Proof. exact s_kfold_sizes. Qed.
Print Assumptions C12_kfold_sizes.

(* the three Eigen segment copies of a fold are in bounds, size-consistent and tile `train` exactly
   (so "train = head ++ tail" is what the code computes; NDEBUG builds do not check this) *)
Theorem C12_kfold_layout : forall n folds fold,
  0 <= n -> 1 <= folds -> 0 <= fold < folds -> kfold_layoutb n folds fold = true.
Proof. exact kfold_layout_ok. Qed.
Print Assumptions C12_kfold_layout.

(* ---- random splitter --------------------------------------------------------------------------------- *)
Theorem C12_random_count : forall shuffle seed folds perc l,
  0 <= folds -> Z.of_nat (length (random_split shuffle seed folds perc l)) = folds.
Proof. exact p_random_count. Qed.
Print Assumptions C12_random_count.

Theorem C12_random_pair : forall shuffle, permutes shuffle -> forall seed folds perc l tr va,
  NoDup l -> 0 <= perc <= 100 -> In (tr, va) (random_split shuffle seed folds perc l) ->
  Permutation (tr ++ va) l /\ (forall x, In x tr -> ~ In x va) /\
  StronglySorted Z.le tr /\ StronglySorted Z.le va.
Proof. exact s_random_pair. Qed.
Print Assumptions C12_random_pair.

(* the training part has round(perc*n/100) elements (halves up), the validation part the rest *)
Theorem C12_random_size : forall shuffle, permutes shuffle -> forall seed folds perc l tr va,
  NoDup l -> 0 <= perc <= 100 -> In (tr, va) (random_split shuffle seed folds perc l) ->
  let t := zlen tr in
  t = (perc * zlen l + 50) / 100 /\ zlen va = zlen l - t /\
  100 * t <= perc * zlen l + 50 < 100 * t + 100 /\ 0 <= t <= zlen l.
Proof. exact s_random_size. Qed.
Print Assumptions C12_random_size.

Theorem C12_random_layout : forall n folds fold perc,
  0 <= n -> 0 <= perc <= 100 -> random_layoutb n folds fold perc = true.
Proof. exact random_layout_ok. Qed.
Print Assumptions C12_random_layout.

(* ---- equal seeds give equal splits --------------------------------------------------------------------- *)
(* the result depends on the generator only through what std::shuffle answers for this very seed *)
Theorem C12_deterministic : forall sh1 sh2 seed, (forall c l, sh1 seed c l = sh2 seed c l) ->
  forall folds perc l count call,
  kfold sh1 seed folds l = kfold sh2 seed folds l /\
  random_split sh1 seed folds perc l = random_split sh2 seed folds perc l /\
  sample_without sh1 seed call count l = sample_without sh2 seed call count l.
Proof. exact p_deterministic. Qed.
Print Assumptions C12_deterministic.

(* ---- the executable oracle instance meets the premise, whatever the oracle answers ---------------------- *)
Theorem C12_shuffle_oracle_permutes : forall oracle, permutes (shuffle_by oracle).
Proof. exact shuffle_by_perm. Qed.
Print Assumptions C12_shuffle_oracle_permutes.

(* ---- samplers ----------------------------------------------------------------------------------------- *)
(* without replacement: `count` distinct (strictly increasing) members of the input *)
Theorem C12_without_replacement : forall shuffle, permutes shuffle -> forall seed call count l,
  NoDup l -> 0 <= count <= zlen l ->
  let r := sample_without shuffle seed call count l in
  zlen r = count /\ StronglySorted Z.lt r /\ (forall x, In x r -> In x l).
Proof. exact p_sample_without. Qed.
Print Assumptions C12_without_replacement.

(* with replacement: `count` sorted members; contract of uniform_int_distribution(lo, hi): lo <= pick <= hi *)
Theorem C12_with_replacement : forall picks l count,
  picks_in_rangeb (zlen l) count picks = true -> zlen picks = count ->
  let r := sample_with picks l in
  zlen r = count /\ StronglySorted Z.le r /\ (forall x, In x r -> In x l).
Proof. exact p_sample_with. Qed.
Print Assumptions C12_with_replacement.

(* weighted: contract of std::discrete_distribution: 0 <= pick < n and weight(pick) > 0.
   Every returned index sits at a position of positive weight; no position of zero weight is returned. *)
Theorem C12_weighted_support : forall picks l wpos,
  NoDup l -> length wpos = length l -> picks_weightedb wpos picks = true ->
  (forall x, In x (sample_with picks l) ->
     exists i, (i < length l)%nat /\ nth i l 0 = x /\ nth i wpos false = true) /\
  (forall j, (j < length l)%nat -> nth j wpos false = false -> ~ In (nth j l 0) (sample_with picks l)).
Proof. exact s_weighted_support. Qed.
Print Assumptions C12_weighted_support.

(* ---- the checkers that the driver applies to the implementation's output are sound ---------------------- *)
Theorem C12_checker_sound : forall l tr va, split_okb l tr va = true ->
  Permutation (tr ++ va) l /\ (forall x, In x tr -> ~ In x va) /\
  StronglySorted Z.le tr /\ StronglySorted Z.le va.
Proof. exact split_okb_sound. Qed.
Print Assumptions C12_checker_sound.

(* ---- sample_from_ball (over R): x = x0 + radius * z * u / |u|_2 with z in [0,1] and u <> 0 lies in the ball,
        at distance exactly radius * z from the centre ------------------------------------------------------- *)
Theorem C12_ball : forall (x0 u : list R) (radius z : R),
  length x0 = length u -> (0 < radius)%R -> (0 <= z <= 1)%R -> (0 < sumsq u)%R ->
  length (sample_from_ball x0 u radius z) = length x0 /\
  norm2 (vsub (sample_from_ball x0 u radius z) x0) = (radius * z)%R /\
  (norm2 (vsub (sample_from_ball x0 u radius z) x0) <= radius)%R.
Proof. exact p_ball. Qed.
Print Assumptions C12_ball.

(* ---- non-vacuity ------------------------------------------------------------------------------------------ *)
(* a concrete oracle (a rotation for call 0, a reversal afterwards), 7 non-contiguous indices, 3 folds *)
Definition ex_oracle (seed : Z) (call : nat) : list Z :=
  match call with O => [2; 3; 4; 5; 6; 0; 1] | _ => [6; 5; 4; 3; 2; 1; 0] end.
Definition ex_l : list Z := [10; 3; 77; 42; 5; 900; 61].

Example C12_nonvacuous_kfold :
  NoDup ex_l /\
  kfold (shuffle_by ex_oracle) 42 3 ex_l =
    [([3; 5; 10; 61; 900], [42; 77]); ([3; 10; 42; 61; 77], [5; 900]); ([5; 42; 77; 900], [3; 10; 61])] /\
  kfold_layoutb 7 3 2 = true.
Proof.
  split; [|vm_compute; split; reflexivity].
  repeat constructor; cbn; intuition discriminate.
Qed.

Example C12_nonvacuous_random :
  random_split (shuffle_by ex_oracle) 42 2 80 ex_l =
    [([5; 10; 42; 61; 77; 900], [3]); ([3; 5; 10; 42; 61; 900], [77])].
Proof. vm_compute. reflexivity. Qed.

Example C12_nonvacuous_random_sizes :
  map (fun p => (zlen (fst p), zlen (snd p))) (random_split (shuffle_by ex_oracle) 42 2 80 ex_l) = [(6, 1); (6, 1)] /\
  random_layoutb 7 2 1 80 = true /\ (80 * 7 + 50) / 100 = 6.
Proof. vm_compute. repeat split; reflexivity. Qed.

Example C12_nonvacuous_samplers :
  sample_without (shuffle_by ex_oracle) 1 0%nat 3 ex_l = [5; 42; 77] /\
  picks_in_rangeb 7 4 [6; 0; 0; 3] = true /\ sample_with [6; 0; 0; 3] ex_l = [10; 10; 42; 61] /\
  picks_weightedb [true; false; true; true; false; false; true] [6; 0; 0; 3] = true /\
  split_okb ex_l [3; 5; 10; 61; 900] [42; 77] = true /\ split_okb ex_l [3; 5; 10; 61; 900] [42; 61] = false.
Proof. vm_compute. repeat split; reflexivity. Qed.

Example C12_nonvacuous_ball :
  (length [1; 2] = length [3; 4] /\ 0 < 2 /\ 0 <= 1 / 2 <= 1 /\ 0 < sumsq [3; 4] /\
   norm2 (vsub (sample_from_ball [1; 2] [3; 4] 2 (1 / 2)) [1; 2]) = 1)%R.
Proof.
  assert (H : (length [1; 2] = length [3; 4] /\ 0 < 2 /\ 0 <= 1 / 2 <= 1 /\ 0 < sumsq [3; 4])%R)
    by (cbn; repeat split; try reflexivity; lra).
  destruct H as (H1 & H2 & H3 & H4). repeat split; try assumption; try lra.
  destruct (C12_ball [1; 2]%R [3; 4]%R 2%R (1 / 2)%R H1 H2 H3 H4) as (_ & E & _). rewrite E. lra.
Qed.

(* ==================================================================================================================== *)
(* EXTENSION: sample_from_ball in binary64 (Flocq), gboost::sampler_t (dispatch, count, weights)                        *)
(* ==================================================================================================================== *)
(* Models: C12_Float_Defs (executable PrimFloat twin of the element-wise statement, count), C12_Float (standard model:
   rnd = round-to-nearest-even to binary64, u = 2^-53, g k = (1 + u)^k - 1, NU t = "t does not underflow"), C12_Gboost_Defs
   (the sampler's dispatch on top of the sampling models above).  `sqrt` below is the real square root. *)
From Flocq Require Import Core.
From LNGen Require Import Src_sampling Src_gbsampler.
From LN Require Import C12_Float_Defs C12_Float.
Local Open Scope R_scope.

(* ---- the twin's operator tree is the source expression (translated on every run) ---------------------------------------- *)
Theorem C12_fl_shape_is_source :
  (forall x0 radius z b nrm sq n1 ninf : Z, ball_shape zops x0 radius z b nrm = src_ball_point x0 radius z b nrm sq n1 ninf) /\
  (forall radius z nrm a b,
     ball_comp radius z nrm a b = PrimFloat.add a (PrimFloat.div (PrimFloat.mul (PrimFloat.mul radius z) b) nrm) /\
     ball_comp radius z nrm a b = ball_shape fops a radius z b nrm) /\
  (forall ratio size : Z, count_shape zops ratio size = src_gb_count_product ratio size) /\
  (forall ratio n, gb_count ratio n = trunc_float (PrimFloat.mul ratio (float_of_size n))).
Proof. split; [exact shape_is_source|]. split; [exact twin_is_shape|]. split; [exact count_shape_is_source|reflexivity]. Qed.
Print Assumptions C12_fl_shape_is_source.

(* ---- the norm: the rounded squares added in ANY order (reduction tree t), then a correctly rounded square root ------------
   nrm is within sqrt(1 -+ g n) (1 -+ u) of the exact norm; `norm_lower` is the half the ball needs *)
Theorem C12_fl_norm_any_tree : forall t us,
  Permutation (sleaves t) (squares us) -> Forall (fun b => NU (b * b)) us -> 0 < sumsq us -> g (length us) < 1 ->
  let nrm := rnd (R_sqrt.sqrt (sfl t)) in
  R_sqrt.sqrt (sumsq us) * ((1 - u) * R_sqrt.sqrt (1 - g (length us))) <= nrm /\
  nrm <= R_sqrt.sqrt (sumsq us) * ((1 + u) * R_sqrt.sqrt (1 + g (length us))) /\ 0 < nrm.
Proof. exact norm_any_tree. Qed.
Print Assumptions C12_fl_norm_any_tree.

(* ---- the element-wise part, for ANY positive value nrm the reduction returned: the distance from the centre is at most
        (1 + u)^3 rnd(radius z) |us| / nrm  +  u |x0|   (three roundings of the offset, one of the final addition) ------------- *)
Theorem C12_fl_ball_any_norm : forall x0 us radius z nrm,
  length x0 = length us -> Forall fmt x0 -> 0 < nrm -> 0 <= rnd (radius * z) ->
  Forall (comp_NU (rnd (radius * z)) nrm) us ->
  norm2 (vsub (fl_ball x0 us radius z nrm) x0) <= (1 + u) ^ 3 * rnd (radius * z) / nrm * norm2 us + u * norm2 x0.
Proof. exact ball_fl_any_norm. Qed.
Print Assumptions C12_fl_ball_any_norm.

(* ---- what the code guarantees: NOT "inside the ball" (refuted below) but inside the ball of radius
        radius (1 + g (n + 5)) + u |x0|_2,  g (n + 5) = (1 + 2^-53)^(n + 5) - 1 <= (n + 5) u / (1 - (n + 5) u);
        hypotheses: z in [0, 1] (libm's pow; checked on every observed value), u <> 0, no underflow ------------------------------ *)
Theorem C12_fl_ball : forall x0 us radius z nrm,
  length x0 = length us -> Forall fmt x0 -> fmt radius -> 0 < radius -> 0 <= z <= 1 ->
  0 < sumsq us -> g (length us) <= / 2 -> norm_lower (length us) (sumsq us) nrm ->
  Forall (comp_NU (rnd (radius * z)) nrm) us ->
  norm2 (vsub (fl_ball x0 us radius z nrm) x0) <= radius * (1 + g (length us + 5)) + u * norm2 x0.
Proof. exact ball_fl_R. Qed.
Print Assumptions C12_fl_ball.

Theorem C12_fl_ball_any_tree : forall x0 us radius z t,
  length x0 = length us -> Forall fmt x0 -> fmt radius -> 0 < radius -> 0 <= z <= 1 ->
  Permutation (sleaves t) (squares us) -> Forall (fun b => NU (b * b)) us -> 0 < sumsq us -> g (length us) <= / 2 ->
  let nrm := rnd (R_sqrt.sqrt (sfl t)) in
  Forall (comp_NU (rnd (radius * z)) nrm) us ->
  norm2 (vsub (fl_ball x0 us radius z nrm) x0) <= radius * (1 + g (length us + 5)) + u * norm2 x0.
Proof. exact ball_fl_tree. Qed.
Print Assumptions C12_fl_ball_any_tree.

(* the explicit constant (this is what the harness evaluates on every sample) *)
Theorem C12_fl_ball_constant : forall n, INR (n + 5) * u <= / 4 ->
  g n <= / 2 /\ g (n + 5) <= INR (n + 5) * u / (1 - INR (n + 5) * u) /\ g (n + 5) <= 2 * (INR (n + 5) * u).
Proof. exact ball_constant. Qed.
Print Assumptions C12_fl_ball_constant.

(* ---- the same for the values the binary64 code produces: `ball_ok` (executable; evaluated by the driver on every observed
        call) = inputs and intermediates finite, radius > 0, 0 <= z <= 1, nrm > 0, no underflow in product and quotient ------------ *)
Theorem C12_fl_ball_twin : forall x0 us radius z nrm,
  ball_ok x0 us radius z nrm = true ->
  0 < sumsq (map FR us) -> g (length us) <= / 2 -> norm_lower (length us) (sumsq (map FR us)) (FR nrm) ->
  length (ball_twin x0 us radius z nrm) = length x0 /\
  norm2 (vsub (map FR (ball_twin x0 us radius z nrm)) (map FR x0))
    <= FR radius * (1 + g (length us + 5)) + u * norm2 (map FR x0).
Proof. exact ball_twin_bound. Qed.
Print Assumptions C12_fl_ball_twin.

(* ---- "points sampled from a ball lie inside it" is FALSE for the binary64 code: radius 1e6, centre (0, 0), z = 1 - 2^-53,
        deviates (-0x1.7c03341f189dcp-3, 0x1.03af4435af225p+0), norm = sqrt(u0 u0 + u1 u1) rounded at every step: all
        hypotheses of C12_fl_ball_twin hold (and z < 1) and the point lies outside the ball (by 4.7e-11) --------------------------- *)
Theorem C12_fl_ball_inside_refuted : exists x0 us radius z nrm t,
  ball_ok x0 us radius z nrm = true /\ squares_nu us = true /\ FR z < 1 /\
  sleaves t = squares (map FR us) /\ FR nrm = rnd (R_sqrt.sqrt (sfl t)) /\
  FR radius < norm2 (vsub (map FR (ball_twin x0 us radius z nrm)) (map FR x0)).
Proof.
  exists wit_x0, wit_u, wit_radius, wit_z, wit_nrm, wit_tree.
  destruct wit_outside as (A & B & C & D). destruct wit_nrm_is_tree as (_ & E & F). repeat split; assumption.
Qed.
Print Assumptions C12_fl_ball_inside_refuted.

(* ---- gboost::sampler_t: count = static_cast<tensor_size_t>(m_ratio * static_cast<scalar_t>(n)) ------------------------------
        the count is the floor of the ROUNDED binary64 product (not of the exact one), and stays in [0, n] for a ratio in [0, 1]
        (so the precondition count <= samples.size() of sample_without_replacement holds) *)
Theorem C12_gb_count_general : forall ratio n, fin ratio -> 0 <= FR ratio <= 1 -> (0 <= n < 2 ^ 53)%Z ->
  gb_count ratio n = Zfloor (rnd (FR ratio * IZR n)) /\ (0 <= gb_count ratio n <= n)%Z.
Proof. exact gb_count_general. Qed.
Print Assumptions C12_gb_count_general.

(* dyadic ratios k / 2^j: the product is exact while k n < 2^53 (e.g. j <= 22, n < 2^31), the count is floor(k n / 2^j) *)
Theorem C12_gb_count_dyadic : forall ratio k j n, fin ratio -> (0 <= j <= 1000)%Z -> FR ratio = IZR k * bpow radix2 (- j) ->
  (0 <= k <= 2 ^ j)%Z -> (0 <= n)%Z -> (k * n < 2 ^ 53)%Z -> (n < 2 ^ 53)%Z ->
  gb_count ratio n = (k * n / 2 ^ j)%Z.
Proof. exact gb_count_dyadic. Qed.
Print Assumptions C12_gb_count_dyadic.

Theorem C12_gb_count_one : forall n, (0 <= n < 2 ^ 53)%Z -> gb_count fone n = n.
Proof. exact gb_count_one. Qed.
Print Assumptions C12_gb_count_one.

(* the floor is taken of the ROUNDED product: double(0.7) * 10 < 7 but the product rounds to 7.0, the count is 7 *)
Theorem C12_gb_count_exact_floor_refuted : exists ratio n, fin ratio /\ 0 <= FR ratio <= 1 /\
  gb_count ratio n <> Zfloor (FR ratio * IZR n).
Proof.
  exists ex_ratio_07, 10%Z. destruct gb_count_not_exact_floor as (F & R & C & E).
  split; [exact F|]. split; [exact R|]. rewrite C, E. discriminate.
Qed.
Print Assumptions C12_gb_count_exact_floor_refuted.

(* decimal ratios are not dyadic: with ratio = 0.29 (the double nearest to it) and n = 100 the count is 28, not 29 *)
Theorem C12_gb_count_decimal_refuted : exists n, gb_count ex_ratio_029 n <> (29 * n / 100)%Z.
Proof. exists 100%Z. destruct gb_count_decimal as [E1 E2]. rewrite E1, E2. discriminate. Qed.
Print Assumptions C12_gb_count_decimal_refuted.

From LN Require Import C12_Gboost_Defs C12_Gboost.
Local Open Scope Z_scope.

(* ---- gboost::sampler_t::sample: the dispatch (translated `return` of every case of the switch) -------------------------------- *)
Theorem C12_gb_dispatch :
  gb_call k_off = 0 /\ gb_call k_subsample = 1 /\ gb_call k_bootstrap = 2 /\ gb_call k_wei_loss = 3 /\ gb_call k_wei_grad = 3 /\
  (forall k, ~ In k [k_off; k_subsample; k_bootstrap; k_wei_loss; k_wei_grad] -> gb_call k = -1).
Proof. exact gb_call_table. Qed.
Print Assumptions C12_gb_dispatch.

(* the weight loops write m_weights(0..size-1); the vector has `size` entries for the weighted kinds (0 for off / bootstrap) *)
Theorem C12_gb_layout : forall kind size i, gb_layoutb kind size i = true.
Proof. exact gb_layout_ok. Qed.
Print Assumptions C12_gb_layout.

(* position i of the weights holds the loss (row 1 of errors_losses) resp. the gradient magnitude of the SAMPLE l[i] *)
Theorem C12_gb_weights : forall kind l tbl gmag, kind = k_wei_loss \/ kind = k_wei_grad ->
  length (gb_weights kind l tbl gmag) = length l /\
  forall i, (i < length l)%nat -> nth i (gb_weights kind l tbl gmag) fzero = weight_of kind tbl gmag (nth i l 0).
Proof. exact gb_weights_spec. Qed.
Print Assumptions C12_gb_weights.

(* every kind: members of the input; `count` of them, sorted (all kinds but off); distinct for subsample; off returns the input;
   premises: std::shuffle permutes, the distribution's contract for the observed draws (gb_contractb), ratio in [0, 1] *)
Theorem C12_gb_sample : forall shuffle, permutes shuffle -> forall seed call kind ratio l picks tbl gmag,
  NoDup l -> fin ratio -> (0 <= FR ratio <= 1)%R -> zlen l < 2 ^ 53 ->
  In kind [k_off; k_subsample; k_bootstrap; k_wei_loss; k_wei_grad] ->
  gb_contractb kind ratio l (gb_weights kind l tbl gmag) picks = true ->
  let r := gb_sample shuffle seed call kind ratio l picks in
  let count := gb_count ratio (zlen l) in
  0 <= count <= zlen l /\
  (kind = k_off -> r = l) /\
  (forall x, In x r -> In x l) /\
  (kind <> k_off -> zlen r = count /\ StronglySorted Z.le r) /\
  (kind = k_subsample -> StronglySorted Z.lt r).
Proof. exact gb_sample_props. Qed.
Print Assumptions C12_gb_sample.

(* the weighted kinds never return a sample whose own loss / gradient magnitude is not positive *)
Theorem C12_gb_weighted_support : forall shuffle seed call kind ratio l picks tbl gmag,
  NoDup l -> kind = k_wei_loss \/ kind = k_wei_grad ->
  gb_contractb kind ratio l (gb_weights kind l tbl gmag) picks = true ->
  forall x, In x (gb_sample shuffle seed call kind ratio l picks) ->
  In x l /\ PrimFloat.ltb fzero (weight_of kind tbl gmag x) = true.
Proof. exact gb_weighted_support. Qed.
Print Assumptions C12_gb_weighted_support.

(* ---- non-vacuity of the extension ------------------------------------------------------------------------------------------ *)
(* the binary64 witness of C12_fl_ball_inside_refuted satisfies every hypothesis of the five ball / norm theorems *)
Example C12_nonvacuous_fl_ball :
  let x0 := map FR wit_x0 in let us := map FR wit_u in let radius := FR wit_radius in let z := FR wit_z in
  let nrm := rnd (R_sqrt.sqrt (sfl wit_tree)) in
  (length x0 = length us /\ Forall fmt x0 /\ fmt radius /\ 0 < radius /\ 0 <= z <= 1 /\
   Permutation (sleaves wit_tree) (squares us) /\ Forall (fun b => NU (b * b)) us /\ 0 < sumsq us /\
   g (length us) <= / 2 /\ g (length us) < 1 /\ Forall (comp_NU (rnd (radius * z)) nrm) us /\
   norm_lower (length us) (sumsq us) nrm /\ 0 < nrm /\ 0 <= rnd (radius * z))%R.
Proof. exact wit_hyps. Qed.

Example C12_nonvacuous_fl_twin :
  ball_ok wit_x0 wit_u wit_radius wit_z wit_nrm = true /\ (0 < sumsq (map FR wit_u))%R /\ (g (length wit_u) <= / 2)%R /\
  norm_lower (length wit_u) (sumsq (map FR wit_u)) (FR wit_nrm) /\ (INR (2 + 5) * u <= / 4)%R.
Proof.
  destruct wit_outside as (A & _). destruct wit_nrm_is_tree as (_ & E & _).
  destruct wit_hyps as (_ & _ & _ & _ & _ & _ & _ & S0 & G & _ & _ & NL & _).
  split; [exact A|]. split; [exact S0|]. split; [exact g2_small|]. split.
  - rewrite E. rewrite map_length in NL. exact NL.
  - pose proof u_small. simpl. lra.
Qed.

(* the count theorems: ratio 1/2 = 1 / 2^1 is finite, in [0, 1]; 7 samples -> 3 *)
Example C12_nonvacuous_gb_count :
  fin ex_ratio_half /\ FR ex_ratio_half = (IZR 1 * bpow radix2 (- (1)))%R /\ (0 <= FR ex_ratio_half <= 1)%R /\
  gb_count ex_ratio_half 7 = 3 /\ 1 * 7 / 2 ^ 1 = 3 /\ gb_count fone 7 = 7.
Proof.
  destruct FR_ratio_half as [_ E].
  split; [reflexivity|]. split; [rewrite E; simpl; lra|]. split; [rewrite E; lra|]. repeat split; vm_compute; reflexivity.
Qed.

(* one call of every kind on 7 non-contiguous samples (ratio 1/2 -> count 3); weights: row 1 of ex_tbl, indexed by SAMPLE *)
Example C12_nonvacuous_gb_sample :
  NoDup ex_gl /\ zlen ex_gl < 2 ^ 53 /\
  gb_sample (shuffle_by ex_oracle) 1 0%nat k_off ex_ratio_half ex_gl [] = ex_gl /\
  gb_sample (shuffle_by ex_oracle) 1 0%nat k_subsample ex_ratio_half ex_gl [] = [2; 4; 7] /\
  gb_contractb k_bootstrap ex_ratio_half ex_gl [] [6; 0; 0] = true /\
  gb_sample (shuffle_by ex_oracle) 1 0%nat k_bootstrap ex_ratio_half ex_gl [6; 0; 0] = [5; 5; 6] /\
  gb_weights k_wei_loss ex_gl ex_tbl ex_gmag = ex_wl_expected /\
  gb_contractb k_wei_loss ex_ratio_half ex_gl (gb_weights k_wei_loss ex_gl ex_tbl ex_gmag) [2; 0; 4] = true /\
  gb_contractb k_wei_loss ex_ratio_half ex_gl (gb_weights k_wei_loss ex_gl ex_tbl ex_gmag) [2; 0; 5] = false /\
  gb_sample (shuffle_by ex_oracle) 1 0%nat k_wei_loss ex_ratio_half ex_gl [2; 0; 4] = [4; 5; 7] /\
  gb_weights k_wei_grad ex_gl ex_tbl ex_gmag = ex_wg_expected /\
  gb_contractb k_wei_grad ex_ratio_half ex_gl (gb_weights k_wei_grad ex_gl ex_tbl ex_gmag) [0; 2; 5] = true /\
  gb_layoutb k_wei_loss 7 3 = true.
Proof.
  split; [repeat constructor; cbn; intuition discriminate|]. split; [reflexivity|].
  repeat split; vm_compute; reflexivity.
Qed.
