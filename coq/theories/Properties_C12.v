(* C12 -- Splitters and samplers return index sets with the promised set structure.
   Only statements + `exact` + Print Assumptions live here.  Model: C12_Defs (imports the kernels translated
   from src/splitter/{kfold,random}.cpp, src/core/sampling.cpp and numeric.h on every run).

   `shuffle seed call l` stands for the `call`-th std::shuffle on the generator make_rng(seed); the only thing
   assumed about it is that it permutes (premise `permutes shuffle`).  `shuffle_by oracle` is the executable
   instance that is extracted and run against the library: it replays the position permutation observed from
   the real std::shuffle and satisfies the premise for *every* oracle (C12_shuffle_oracle_permutes), so all
   theorems below hold unconditionally for the extracted code. *)
From Coq Require Import List ZArith Bool Permutation Sorted.
From Coq Require Import Reals Lra.
From LN Require Import C12_Defs C12_Proofs C12_Statements.
Import ListNotations.
Local Open Scope Z_scope.

(* ---- k-fold ------------------------------------------------------------------------------------ *)

(* exactly `folds` splits *)
Theorem C12_kfold_count : forall shuffle seed folds l,
  0 <= folds -> Z.of_nat (length (kfold shuffle seed folds l)) = folds.
Proof. exact p_kfold_count. Qed.
Print Assumptions C12_kfold_count.

(* every (training, validation) pair is disjoint, sorted, and together exactly the input *)
Theorem C12_kfold_pair : forall shuffle, permutes shuffle -> forall seed folds l tr va,
  NoDup l -> 1 <= folds -> In (tr, va) (kfold shuffle seed folds l) ->
  Permutation (tr ++ va) l /\ (forall x, In x tr -> ~ In x va) /\
  StronglySorted Z.le tr /\ StronglySorted Z.le va.
Proof. exact p_kfold_pair. Qed.
Print Assumptions C12_kfold_pair.

(* the k validation folds partition the input ... *)
Theorem C12_kfold_partition : forall shuffle, permutes shuffle -> forall seed folds l,
  1 <= folds -> Permutation (concat (map snd (kfold shuffle seed folds l))) l.
Proof. exact p_kfold_partition. Qed.
Print Assumptions C12_kfold_partition.

(* ... fold f has n/k elements, the last fold n/k + n mod k: sizes differ by less than k *)
Theorem C12_kfold_sizes : forall shuffle, permutes shuffle -> forall seed folds l,
  1 <= folds ->
  map (fun p => zlen (snd p)) (kfold shuffle seed folds l) =
  map (fun f => if f + 1 <? folds then zlen l / folds else zlen l / folds + zlen l mod folds) (zrange folds) /\
  Forall (fun p => zlen l / folds <= zlen (snd p) < zlen l / folds + folds) (kfold shuffle seed folds l).
Proof. exact s_kfold_sizes. Qed.
Print Assumptions C12_kfold_sizes.

(* the three Eigen segment copies of a fold are in bounds, size-consistent and tile `train` exactly
   (so "train = head ++ tail" is what the code computes; NDEBUG builds do not check this) *)
Theorem C12_kfold_layout : forall n folds fold,
  0 <= n -> 1 <= folds -> 0 <= fold < folds -> kfold_layoutb n folds fold = true.
Proof. exact kfold_layout_ok. Qed.
Print Assumptions C12_kfold_layout.

(* ---- random splitter --------------------------------------------------------------------------------- *)
Theorem C12_random_count : forall shuffle seed folds perc l,
  0 <= folds -> Z.of_nat (length (random_split shuffle seed folds perc l)) = folds.
Proof. exact p_random_count. Qed.
Print Assumptions C12_random_count.

Theorem C12_random_pair : forall shuffle, permutes shuffle -> forall seed folds perc l tr va,
  NoDup l -> 0 <= perc <= 100 -> In (tr, va) (random_split shuffle seed folds perc l) ->
  Permutation (tr ++ va) l /\ (forall x, In x tr -> ~ In x va) /\
  StronglySorted Z.le tr /\ StronglySorted Z.le va.
Proof. exact s_random_pair. Qed.
Print Assumptions C12_random_pair.

(* the training part has round(perc*n/100) elements (halves up), the validation part the rest *)
Theorem C12_random_size : forall shuffle, permutes shuffle -> forall seed folds perc l tr va,
  NoDup l -> 0 <= perc <= 100 -> In (tr, va) (random_split shuffle seed folds perc l) ->
  let t := zlen tr in
  t = (perc * zlen l + 50) / 100 /\ zlen va = zlen l - t /\
  100 * t <= perc * zlen l + 50 < 100 * t + 100 /\ 0 <= t <= zlen l.
Proof. exact s_random_size. Qed.
Print Assumptions C12_random_size.

Theorem C12_random_layout : forall n folds fold perc,
  0 <= n -> 0 <= perc <= 100 -> random_layoutb n folds fold perc = true.
Proof. exact random_layout_ok. Qed.
Print Assumptions C12_random_layout.

(* ---- equal seeds give equal splits --------------------------------------------------------------------- *)
(* the result depends on the generator only through what std::shuffle answers for this very seed *)
Theorem C12_deterministic : forall sh1 sh2 seed, (forall c l, sh1 seed c l = sh2 seed c l) ->
  forall folds perc l count call,
  kfold sh1 seed folds l = kfold sh2 seed folds l /\
  random_split sh1 seed folds perc l = random_split sh2 seed folds perc l /\
  sample_without sh1 seed call count l = sample_without sh2 seed call count l.
Proof. exact p_deterministic. Qed.
Print Assumptions C12_deterministic.

(* ---- the executable oracle instance meets the premise, whatever the oracle answers ---------------------- *)
Theorem C12_shuffle_oracle_permutes : forall oracle, permutes (shuffle_by oracle).
Proof. exact shuffle_by_perm. Qed.
Print Assumptions C12_shuffle_oracle_permutes.

(* ---- samplers ----------------------------------------------------------------------------------------- *)
(* without replacement: `count` distinct (strictly increasing) members of the input *)
Theorem C12_without_replacement : forall shuffle, permutes shuffle -> forall seed call count l,
  NoDup l -> 0 <= count <= zlen l ->
  let r := sample_without shuffle seed call count l in
  zlen r = count /\ StronglySorted Z.lt r /\ (forall x, In x r -> In x l).
Proof. exact p_sample_without. Qed.
Print Assumptions C12_without_replacement.

(* with replacement: `count` sorted members; contract of uniform_int_distribution(lo, hi): lo <= pick <= hi *)
Theorem C12_with_replacement : forall picks l count,
  picks_in_rangeb (zlen l) count picks = true -> zlen picks = count ->
  let r := sample_with picks l in
  zlen r = count /\ StronglySorted Z.le r /\ (forall x, In x r -> In x l).
Proof. exact p_sample_with. Qed.
Print Assumptions C12_with_replacement.

(* weighted: contract of std::discrete_distribution: 0 <= pick < n and weight(pick) > 0.
   Every returned index sits at a position of positive weight; no position of zero weight is returned. *)
Theorem C12_weighted_support : forall picks l wpos,
  NoDup l -> length wpos = length l -> picks_weightedb wpos picks = true ->
  (forall x, In x (sample_with picks l) ->
     exists i, (i < length l)%nat /\ nth i l 0 = x /\ nth i wpos false = true) /\
  (forall j, (j < length l)%nat -> nth j wpos false = false -> ~ In (nth j l 0) (sample_with picks l)).
Proof. exact s_weighted_support. Qed.
Print Assumptions C12_weighted_support.

(* ---- the checkers that the driver applies to the implementation's output are sound ---------------------- *)
Theorem C12_checker_sound : forall l tr va, split_okb l tr va = true ->
  Permutation (tr ++ va) l /\ (forall x, In x tr -> ~ In x va) /\
  StronglySorted Z.le tr /\ StronglySorted Z.le va.
Proof. exact split_okb_sound. Qed.
Print Assumptions C12_checker_sound.

(* ---- sample_from_ball (over R): x = x0 + radius * z * u / |u|_2 with z in [0,1] and u <> 0 lies in the ball,
        at distance exactly radius * z from the centre ------------------------------------------------------- *)
Theorem C12_ball : forall (x0 u : list R) (radius z : R),
  length x0 = length u -> (0 < radius)%R -> (0 <= z <= 1)%R -> (0 < sumsq u)%R ->
  length (sample_from_ball x0 u radius z) = length x0 /\
  norm2 (vsub (sample_from_ball x0 u radius z) x0) = (radius * z)%R /\
  (norm2 (vsub (sample_from_ball x0 u radius z) x0) <= radius)%R.
Proof. exact p_ball. Qed.
Print Assumptions C12_ball.

(* ---- non-vacuity ------------------------------------------------------------------------------------------ *)
(* a concrete oracle (a rotation for call 0, a reversal afterwards), 7 non-contiguous indices, 3 folds *)
Definition ex_oracle (seed : Z) (call : nat) : list Z :=
  match call with O => [2; 3; 4; 5; 6; 0; 1] | _ => [6; 5; 4; 3; 2; 1; 0] end.
Definition ex_l : list Z := [10; 3; 77; 42; 5; 900; 61].

Example C12_nonvacuous_kfold :
  NoDup ex_l /\
  kfold (shuffle_by ex_oracle) 42 3 ex_l =
    [([3; 5; 10; 61; 900], [42; 77]); ([3; 10; 42; 61; 77], [5; 900]); ([5; 42; 77; 900], [3; 10; 61])] /\
  kfold_layoutb 7 3 2 = true.
Proof.
  split; [|vm_compute; split; reflexivity].
  repeat constructor; cbn; intuition discriminate.
Qed.

Example C12_nonvacuous_random :
  random_split (shuffle_by ex_oracle) 42 2 80 ex_l =
    [([5; 10; 42; 61; 77; 900], [3]); ([3; 5; 10; 42; 61; 900], [77])].
Proof. vm_compute. reflexivity. Qed.

Example C12_nonvacuous_random_sizes :
  map (fun p => (zlen (fst p), zlen (snd p))) (random_split (shuffle_by ex_oracle) 42 2 80 ex_l) = [(6, 1); (6, 1)] /\
  random_layoutb 7 2 1 80 = true /\ (80 * 7 + 50) / 100 = 6.
Proof. vm_compute. repeat split; reflexivity. Qed.

Example C12_nonvacuous_samplers :
  sample_without (shuffle_by ex_oracle) 1 0%nat 3 ex_l = [5; 42; 77] /\
  picks_in_rangeb 7 4 [6; 0; 0; 3] = true /\ sample_with [6; 0; 0; 3] ex_l = [10; 10; 42; 61] /\
  picks_weightedb [true; false; true; true; false; false; true] [6; 0; 0; 3] = true /\
  split_okb ex_l [3; 5; 10; 61; 900] [42; 77] = true /\ split_okb ex_l [3; 5; 10; 61; 900] [42; 61] = false.
Proof. vm_compute. repeat split; reflexivity. Qed.

Example C12_nonvacuous_ball :
  (length [1; 2] = length [3; 4] /\ 0 < 2 /\ 0 <= 1 / 2 <= 1 /\ 0 < sumsq [3; 4] /\
   norm2 (vsub (sample_from_ball [1; 2] [3; 4] 2 (1 / 2)) [1; 2]) = 1)%R.
Proof.
  assert (H : (length [1; 2] = length [3; 4] /\ 0 < 2 /\ 0 <= 1 / 2 <= 1 /\ 0 < sumsq [3; 4])%R)
    by (cbn; repeat split; try reflexivity; lra).
  destruct H as (H1 & H2 & H3 & H4). repeat split; try assumption; try lra.
  destruct (C12_ball [1; 2]%R [3; 4]%R 2%R (1 / 2)%R H1 H2 H3 H4) as (_ & E & _). rewrite E. lra.
Qed.
