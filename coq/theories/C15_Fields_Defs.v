(* C15 (extension b) -- the field sequences of the formats, as data: a [field] is one `::nano::write/read(stream, X)` call of
   a reader/writer; [seq_fmt] interprets a sequence of fields as a format term of C15_Defs; [token] prints a field the way
   tools/checks/c15_fields.py prints the call it found in the source (coq/generated/Src_c15_fields.v). No proofs here. *)
From Coq Require Import List ZArith NArith Bool String.
From LNGen Require Import Src_stream Src_c15_fields.
From LN Require Import C15_Defs.
Import ListNotations.

Inductive field : Type :=
| Fi (k : nat)                 (* a scalar of k bytes *)
| Fs                           (* string *)
| Fraw24                       (* tensor3d_dims_t, one block *)
| Fvec (e : field)             (* std::vector<e> *)
| Ft (s : tspec)               (* tensor *)
| Ffeature | Fparam | Fwl | Fnode   (* feature_t, parameter_t, unique_ptr<wlearner_t>, dtree_node_t *)
| Fbase_config | Fbase_learner | Fbase_single   (* the base class reader/writer is called first *)
| Fdims (r : nat).             (* tensor stream: trank dimensions written as int32 *)

Fixpoint field_fmt (e : env) (wl : list (bytes * N)) (f : field) : fmt :=
  match f with
  | Fi k => F_uint k
  | Fs => string_fmt
  | Fraw24 => F_raw 24
  | Fvec x => vector_fmt (field_fmt e wl x)
  | Ft s => tensor_fmt s
  | Ffeature => feature_fmt (e_ftypes e)
  | Fparam => param_fmt
  | Fwl => object_fmt (wlearner_table e wl)
  | Fnode => dtree_node_fmt
  | Fbase_config => config_fmt (e_version e)
  | Fbase_learner => learner_fmt e
  | Fbase_single => single_fmt e
  | Fdims r => F_rep (N.of_nat r) u32
  end.

Fixpoint seq_fmt (e : env) (wl : list (bytes * N)) (l : list field) : fmt :=
  match l with
  | [] => F_unit
  | [x] => field_fmt e wl x
  | x :: r => F_pair (field_fmt e wl x) (seq_fmt e wl r)
  end.

Local Open Scope string_scope.
Definition digit (n : nat) : string :=
  match n with 0 => "0" | 1 => "1" | 2 => "2" | 3 => "3" | 4 => "4" | 5 => "5" | 6 => "6" | 7 => "7" | 8 => "8" | _ => "9" end%nat.

Fixpoint token (f : field) : string :=
  match f with
  | Fi k => "int" ++ digit k
  | Fs => "string"
  | Fraw24 => "raw24"
  | Fvec x => "vec(" ++ token x ++ ")"
  | Ft s => "tensor(" ++ digit (t_width s) ++ "," ++ (if t_signed s then "s" else "u") ++ "," ++ digit (t_rank s) ++ ")"
  | Ffeature => "feature"
  | Fparam => "param"
  | Fwl => "object(wlearner)"
  | Fnode => "dtree_node"
  | Fbase_config => "base(config)"
  | Fbase_learner => "base(learner)"
  | Fbase_single => "base(single)"
  | Fdims _ => "dims(trank,int4)"
  end.

Fixpoint assoc (k : string) (tbl : list (string * (list string * list string))) : option (list string * list string) :=
  match tbl with
  | [] => None
  | (k', v) :: r => if String.eqb k k' then Some v else assoc k r
  end.

(* what the source says about a unit: Some (write tokens, read tokens) *)
Definition src_fields (unit : string) : option (list string * list string) := assoc unit src_c15_fields.

(* the field sequences the model's format terms are built from *)
Definition sch_feature : list field := [Fs; Fraw24; Fs; Fvec Fs].
Definition sch_version : list field := [Fi 4; Fi 4; Fi 4].
Definition sch_config_rest : list field := [Fvec Fparam].
Definition sch_learner : list field := [Fbase_config; Fvec Ffeature; Ffeature].
Definition sch_linear : list field := [Fbase_learner; Ft (f64 1); Ft (f64 2)].
Definition sch_gboost : list field := [Fbase_learner; Ft (f64 1); Fvec Fwl; Fvec Fwl].
Definition sch_single : list field := [Fbase_learner; Fi 8; Ft (f64 4)].
Definition sch_stump : list field := [Fbase_single; Fi 8].
Definition sch_hinge : list field := [Fbase_single; Fi 8; Fi 4].
Definition sch_table : list field := [Fbase_single; Ft (u64t 1); Ft (i64 1)].
Definition sch_dtree : list field := [Fbase_learner; Fvec Fnode; Ft (i64 1); Ft (f64 4)].
Definition sch_node : list field := [Fi 4; Fi 8; Fi 4; Fi 4].
Definition sch_tensor_hdr (r : nat) : list field := [Fi 4; Fi 4; Fdims r; Fi 4; Fi 8].
Definition sch_param_hdr : list field := [Fi 4; Fs].          (* int32 type, name: written by every parameter writer *)
Definition sch_penum : list field := [Fs; Fvec Fs].             (* enum: value, domain *)
Definition sch_pstring : list field := [Fs].
Definition sch_range : list field := [Fi 8; Fi 8; Fi 8; Fi 4; Fi 4].
Definition sch_prange : list field := [Fi 8; Fi 8; Fi 8; Fi 8; Fi 4; Fi 4; Fi 4].

Definition tokens (l : list field) : list string := map token l.
