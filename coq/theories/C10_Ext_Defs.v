(* C10 extension -- executable definitions only (no proofs):
   * what table.cpp::score_kbest stores for k selected label sets (accumulator_t::sort(): the (delta, bin) pairs in
     lexicographic order = the stable insertion sort over the bins in increasing order), the predictor of that table;
   * the k-split table: accumulator_t::cluster() (greedy agglomerative merging of the two clusters with the closest mean
     outputs, first pair in (icluster1, icluster2) order on ties, relabelling of the bins) and score_ksplit (one candidate per
     trial, bins - ic groups);
   * decision trees: the well-formedness of a node table as dtree_wlearner_t::do_fit builds it (pairs of entries, forward
     pointers), the set-based breadth-first split of do_split (queue of (node, samples)), the recursive structure behind it.
   The integer expressions come from the source (LNGen.Src_c10, regenerated on every run). *)
From Coq Require Import List ZArith QArith Bool.
From LNGen Require Import Src_c10.
From LN Require Import C10_Defs.
Import ListNotations.
Local Open Scope Q_scope.

(* ---- k-best table: the selection --------------------------------------------------------------------------------------- *)
Definition kbest_pairs (no : nat) (c : col Z) : list (Q * Z) :=
  map (fun k => (bin_delta no (bin_mom no (present c) k), k)) (keys_of (present c)).
Definition kbest_sorted (no : nat) (c : col Z) : list (Q * Z) := isort fst (kbest_pairs no c).
(* m_hashes(fv) = hashes(mapping[fv].second), fv < kbest *)
Definition kbest_hashes (no : nat) (c : col Z) (k : nat) : list Z := map snd (firstn k (kbest_sorted no c)).
Definition bin_mean (no : nat) (c : col Z) (key : Z) : list Q :=
  tab no (fun o => mean_of (vget o (bin_mom no (present c) key))).
(* m_tables.array(fv) = r1(bin) / x0(bin) *)
Definition kbest_tables (no : nat) (c : col Z) (k : nat) : list (list Q) := map (bin_mean no c) (kbest_hashes no c k).
Definition zmem (x : Z) (l : list Z) : bool := existsb (Z.eqb x) l.
(* the predictor of the k-best table as a function of the label set: the bin mean on the selected label sets, zero elsewhere *)
Definition kbest_pred (no : nat) (c : col Z) (k : nat) (key : Z) : list Q :=
  if zmem key (kbest_hashes no c k) then bin_mean no c key else [].

(* ---- k-split table: accumulator_t::cluster() ------------------------------------------------------------------------------ *)
Record clus := mkclus { c_x0 : Q; c_r1 : list Q; c_r2 : list Q }.
Definition clus0 : clus := mkclus 0 [] [].
Definition clus_of (no : nat) (v : vmom) : clus :=
  mkclus (m_x0 (vget 0 v)) (tab no (fun o => m_r1 (vget o v))) (tab no (fun o => m_r2 (vget o v))).
(* cluster_rx = cluster_r1 / cluster_x0 *)
Definition c_mean (no : nat) (c : clus) : list Q := tab no (fun o => rget o (c_r1 c) / c_x0 c).
(* (output1 - output2).square().sum() *)
Definition c_dist (no : nat) (a b : clus) : Q :=
  qsum (tab no (fun o => (rget o (c_mean no a) - rget o (c_mean no b)) * (rget o (c_mean no a) - rget o (c_mean no b)))).
Definition c_add (no : nat) (a b : clus) : clus :=
  mkclus (c_x0 a + c_x0 b) (tab no (fun o => rget o (c_r1 a) + rget o (c_r1 b))) (tab no (fun o => rget o (c_r2 a) + rget o (c_r2 b))).
(* (r2.array(fv) - r1.array(fv).square() / x0(fv)).sum() *)
Definition c_rss (no : nat) (c : clus) : Q :=
  qsum (tab no (fun o => rget o (c_r2 c) - rget o (c_r1 c) * rget o (c_r1 c) / c_x0 c)).

(* for (icluster1 = 0; icluster1 + 1 < n; ++icluster1) for (icluster2 = icluster1 + 1; icluster2 < n; ++icluster2) *)
Definition cpairs (n : nat) : list (nat * nat) :=
  flat_map (fun i => map (fun j => (i, j)) (seq (S i) (n - S i))) (seq 0 n).
(* `if (idistance < distance)` starting from distance = max, (cluster1, cluster2) = (0, 1) *)
Definition closer (no : nat) (cl : list clus) (acc : option Q * (nat * nat)) (p : nat * nat) : option Q * (nat * nat) :=
  let d := c_dist no (nth (fst p) cl clus0) (nth (snd p) cl clus0) in
  match fst acc with
  | None => (Some d, p)
  | Some b => if qlt d b then (Some d, p) else acc
  end.
Definition closest (no : nat) (cl : list clus) : nat * nat :=
  snd (fold_left (closer no cl) (cpairs (length cl)) (None, (0%nat, 1%nat))).
Definition replace_nth {A : Type} (i : nat) (x : A) (l : list A) : list A := firstn i l ++ x :: skipn (S i) l.
Definition remove_nth {A : Type} (i : nat) (l : list A) : list A := firstn i l ++ skipn (S i) l.
(* `if (id == cluster2) id = cluster1;` then `if (id > cluster2) id -= 1;` *)
Definition relabel (c1 c2 id : nat) : nat :=
  let id1 := if (id =? c2)%nat then c1 else id in
  if (c2 <? id1)%nat then pred id1 else id1.
Definition kstate := (list clus * list nat)%type.      (* the clusters of a trial, the cluster of every bin *)
Definition merge_step (no : nat) (st : kstate) : kstate :=
  let cl := fst st in
  let c1 := fst (closest no cl) in
  let c2 := snd (closest no cl) in
  let merged := c_add no (nth c1 cl clus0) (nth c2 cl clus0) in
  (remove_nth c2 (replace_nth c1 merged cl), map (relabel c1 c2) (snd st)).
Fixpoint ktrials (no : nat) (fuel : nat) (st : kstate) : list kstate :=
  st :: match fuel with O => [] | S f => ktrials no f (merge_step no st) end.
Definition ksplit_init (no : nat) (c : col Z) : kstate :=
  (map (fun k => clus_of no (bin_mom no (present c) k)) (keys_of (present c)), seq 0 (length (keys_of (present c)))).
(* trial ic = 0 .. bins - 1 (none when the feature has no selected value) *)
Definition ksplit_trials (no : nat) (c : col Z) : list kstate :=
  match keys_of (present c) with
  | [] => []
  | _ :: t => ktrials no (length t) (ksplit_init no c)
  end.
Definition kstate_rss (no : nat) (miss : Q) (st : kstate) : Q := miss + qsum (map (c_rss no) (fst st)).
Definition ksplit_rss_seq (no : nat) (c : col Z) : list Q := map (kstate_rss no (miss_rss no c)) (ksplit_trials no c).
Definition ksplit_cands (no : nat) (floor : Q) (c : col Z) : list Q := map (clamp floor) (ksplit_rss_seq no c).
Definition ksplit_fit (no : nat) (floor : Q) (cs : list (col Z)) : option Q := best_of (flat_map (ksplit_cands no floor) cs).
(* the predictor of trial [st]: the mean of the cluster of the label set's bin, zero for unseen label sets *)
Fixpoint zindex (x : Z) (l : list Z) : option nat :=
  match l with
  | [] => None
  | h :: t => if (x =? h)%Z then Some 0%nat else option_map S (zindex x t)
  end.
Definition ksplit_pred (no : nat) (c : col Z) (st : kstate) (key : Z) : list Q :=
  match zindex key (keys_of (present c)) with
  | Some b => c_mean no (nth (nth b (snd st) 0%nat) (fst st) clus0)
  | None => []
  end.

(* ---- decision trees ----------------------------------------------------------------------------------------------------------- *)
(* the node table of do_fit: entries come in pairs (p, p + 1) that share feature and threshold, entry p + g describes side g;
   a terminal pair carries the table indices t, t + 1; a split pair points forward to the pairs of its two children *)
Definition nlen (nodes : list node) : Z := Z.of_nat (length nodes).
Definition child_ok (nodes : list node) (p g : Z) : bool :=
  let nx := n_next (znth (src_c10_tree_child p g) nodes node0) in
  (p + 1 <? nx)%Z && (nx + 1 <? nlen nodes)%Z && Z.even nx.
Definition pair_ok (nodes : list node) (ntables : Z) (p : Z) : bool :=
  let a := znth p nodes node0 in
  let b := znth (p + 1) nodes node0 in
  (n_feature a =? n_feature b)%nat && Qeq_bool (n_thr a) (n_thr b) &&
  (if src_c10_tree_terminal (n_next a)
   then src_c10_tree_terminal (n_next b) && (0 <=? n_table a)%Z && (n_table b =? n_table a + 1)%Z && (n_table a + 1 <? ntables)%Z
   else child_ok nodes p 0 && child_ok nodes p 1).
Definition tree_wf (nodes : list node) (ntables : Z) : bool :=
  (1 <? nlen nodes)%Z && Z.even (nlen nodes) &&
  forallb (fun i => pair_ok nodes ntables (2 * Z.of_nat i)) (seq 0 (Nat.div2 (length nodes))).

(* stump_wlearner_t::split on a list of samples: the samples with a value, by side (missing values are dropped) *)
Definition side_of (x thr : Q) : Z := if qlt x thr then 0%Z else 1%Z.
Definition stump_part (f : nat) (thr : Q) (g : Z) (ss : list (nat * sample)) : list (nat * sample) :=
  filter (fun e => match fget f (snd e) with FNum x => (side_of x thr =? g)%Z | _ => false end) ss.
(* dtree_wlearner_t::do_split: breadth-first over a queue of (pair, samples); returns the assignments (sample id, leaf) *)
Fixpoint tree_bfs (fuel : nat) (nodes : list node) (queue : list (Z * list (nat * sample))) : list (nat * Z) :=
  match fuel with
  | O => []
  | S f =>
      match queue with
      | [] => []
      | (p, ss) :: rest =>
          let nd := znth p nodes node0 in
          if src_c10_tree_terminal (n_next nd)
          then map (fun e => (fst e, src_c10_tree_leaf (n_table nd) 0)) (stump_part (n_feature nd) (n_thr nd) 0 ss)
               ++ map (fun e => (fst e, src_c10_tree_leaf (n_table nd) 1)) (stump_part (n_feature nd) (n_thr nd) 1 ss)
               ++ tree_bfs f nodes rest
          else tree_bfs f nodes
                 (rest ++ [(n_next (znth (src_c10_tree_child p 0) nodes node0), stump_part (n_feature nd) (n_thr nd) 0 ss);
                           (n_next (znth (src_c10_tree_child p 1) nodes node0), stump_part (n_feature nd) (n_thr nd) 1 ss)])
      end
  end.
(* the group a set-based split assigns to sample id i (cluster.assign: the last assignment wins; None = -1) *)
Definition assigned (i : nat) (l : list (nat * Z)) : option Z :=
  fold_left (fun acc e => if (fst e =? i)%nat then Some (snd e) else acc) l None.

(* the walk from pair p with the side expression of the source spelled out (used by the composition theorem) *)
Definition walk_from (nodes : list node) (p : Z) (s : sample) : option Z := tree_group (S (length nodes)) nodes p s.

(* did the breadth-first split empty its queue within the fuel? (the driver checks it for every run of [tree_bfs]) *)
Fixpoint bfs_done (fuel : nat) (nodes : list node) (queue : list (Z * list (nat * sample))) : bool :=
  match queue with
  | [] => true
  | (p, ss) :: rest =>
      match fuel with
      | O => false
      | S f =>
          let nd := znth p nodes node0 in
          if src_c10_tree_terminal (n_next nd) then bfs_done f nodes rest
          else bfs_done f nodes
                 (rest ++ [(n_next (znth (src_c10_tree_child p 0) nodes node0), stump_part (n_feature nd) (n_thr nd) 0 ss);
                           (n_next (znth (src_c10_tree_child p 1) nodes node0), stump_part (n_feature nd) (n_thr nd) 1 ss)])
      end
  end.
(* a fuel that always suffices: every visit of a pair at distance h from the end of the table costs at most 2^(h+1) - 1 steps *)
Definition bfs_weight (nodes : list node) (p : Z) : nat := 2 ^ S (Z.to_nat ((nlen nodes - p) / 2)) - 1.
Definition bfs_fuel (nodes : list node) (queue : list (Z * list (nat * sample))) : nat :=
  fold_right (fun e acc => (bfs_weight nodes (fst e) + acc)%nat) 0%nat queue.
