(* C13 -- Tuning evaluates grid points once and reports the true best trial.
   Only statements + `exact` + Print Assumptions live here.  Model: C13_Defs (imports the kernels translated from
   src/tuner.cpp, src/tuner/{util,local,surrogate}.cpp, src/machine/{tune,result}.cpp on every run).

   Vocabulary (C13_Proofs / C13_Statements):
     sort_contract srt  := forall l, Permutation (srt l) l /\ StronglySorted (fun a b => snd a <= snd b) (srt l)
                           -- what std::sort guarantees; the order among equal values is free
     valid_config cfg   := Forall (fun s => 1 <= s) (c_sizes cfg) /\ 0 <= c_max_evals cfg
     prop_shape prop cfg:= forall steps c, prop steps = Some c -> length c = length (c_sizes cfg)
                           -- the surrogate proposes *some* index vector with one entry per space, nothing else
     InGrid sizes g     := Forall2 (fun x s => 0 <= x < s) g sizes
     calls_of o         := the batches handed to the callback, chronologically (also for runs ending in an exception)
   In every theorem about `optimize`: srt = any sort outcome, prop = any surrogate proposals (ignored by the
   local-search tuner, c_kind cfg = KLocal), f = any landscape (None = non-finite value). *)
From Coq Require Import List ZArith Bool Permutation Sorted QArith.
From LNGen Require Import Src_tuner Src_mtune.
From LN Require Import C13_Defs C13_Proofs C13_Statements.
Import ListNotations.
Local Open Scope Z_scope.

(* the neighbourhood: pairwise distinct points of the grid, at most 3^d of them *)
Theorem C13_local_search : forall sizes src r,
  r <> 0 -> length src = length sizes ->
  NoDup (local_search (min_igrid sizes) (max_igrid sizes) src r) /\
  Forall (InGrid sizes) (local_search (min_igrid sizes) (max_igrid sizes) src r) /\
  Z.of_nat (length (local_search (min_igrid sizes) (max_igrid sizes) src r)) <= 3 ^ Z.of_nat (length sizes).
Proof. exact s_local_search. Qed.
Print Assumptions C13_local_search.

(* both tuners only ever evaluate points of the given grids ... *)
Theorem C13_grid_only : forall srt prop f cfg,
  sort_contract srt -> valid_config cfg -> prop_shape prop cfg ->
  Forall (InGrid (c_sizes cfg)) (concat (calls_of (optimize srt prop f cfg))).
Proof. exact s_grid_only. Qed.
Print Assumptions C13_grid_only.

(* ... never the same point twice ... *)
Theorem C13_no_repeat : forall srt prop f cfg,
  sort_contract srt -> valid_config cfg -> prop_shape prop cfg ->
  NoDup (concat (calls_of (optimize srt prop f cfg))).
Proof. exact s_no_repeat. Qed.
Print Assumptions C13_no_repeat.

(* ... and at most max_evals + 3^d points *)
Theorem C13_bound : forall srt prop f cfg,
  sort_contract srt -> valid_config cfg -> prop_shape prop cfg ->
  Z.of_nat (length (concat (calls_of (optimize srt prop f cfg)))) <= c_max_evals cfg + 3 ^ Z.of_nat (length (c_sizes cfg)).
Proof. exact s_bound. Qed.
Print Assumptions C13_bound.

(* a normal return carries all evaluations with the callback's values, sorted by value, the first being the minimum observed *)
Theorem C13_sorted_min_first : forall srt prop f cfg st,
  sort_contract srt -> valid_config cfg -> prop_shape prop cfg ->
  optimize srt prop f cfg = Finished st ->
  StronglySorted step_le (st_steps st) /\
  Permutation (map fst (st_steps st)) (concat (st_calls st)) /\
  Forall (fun s => f (fst s) = Some (snd s)) (st_steps st) /\
  exists s0 rest, st_steps st = s0 :: rest /\
    forall g, In g (concat (st_calls st)) -> exists v, f g = Some v /\ snd s0 <= v.
Proof. exact s_sorted_min_first. Qed.
Print Assumptions C13_sorted_min_first.

(* an evaluated non-finite value always ends in the exception; the exception is raised only for one, in the last batch *)
Theorem C13_nonfinite_rejected : forall srt prop f cfg,
  sort_contract srt -> valid_config cfg -> prop_shape prop cfg ->
  (forall g, In g (concat (calls_of (optimize srt prop f cfg))) -> f g = None ->
             exists calls, optimize srt prop f cfg = Thrown calls) /\
  (forall calls, optimize srt prop f cfg = Thrown calls ->
     exists pre new, calls = pre ++ [new] /\ Forall (fun g => f g <> None) (concat pre) /\
                     exists g, In g new /\ f g = None).
Proof. exact s_nonfinite. Qed.
Print Assumptions C13_nonfinite_rejected.

(* the fuelled loops of the model never run out of fuel: the loops of the code terminate *)
Theorem C13_fuel_suffices : forall srt prop f cfg,
  sort_contract srt -> valid_config cfg -> prop_shape prop cfg ->
  forall st, optimize srt prop f cfg <> OutOfFuel st.
Proof. exact s_fuel. Qed.
Print Assumptions C13_fuel_suffices.

(* the first batch is the single average point (what makes the closest_trial read of ml::tune race free) *)
Theorem C13_first_batch_single : forall srt prop f cfg,
  sort_contract srt -> valid_config cfg -> prop_shape prop cfg ->
  exists rest, calls_of (optimize srt prop f cfg) = [avg_igrid (c_sizes cfg)] :: rest.
Proof. exact s_first_batch_single. Qed.
Print Assumptions C13_first_batch_single.

(* the sort contract is satisfiable, and every tie-breaking answer used by the acceptor stays within it *)
Theorem C13_sort_instances : sort_contract isort /\ forall pick, sort_contract (srt_pick pick).
Proof. exact (conj isort_contract srt_pick_contract). Qed.
Print Assumptions C13_sort_instances.

(* ml::tune: over a whole tuning run every (trial, fold) is the decoding of exactly one task index *)
Theorem C13_tune_bijection : forall folds, 0 < folds -> forall batches old, Forall (fun n => 0 <= n) batches ->
  NoDup (all_tasks folds old batches) /\
  forall t fo, In (t, fo) (all_tasks folds old batches) <-> (old <= t < old + zsum batches /\ 0 <= fo < folds).
Proof. exact all_tasks_spec. Qed.
Print Assumptions C13_tune_bijection.

(* result_t: the slot of (trial, fold) is in range, injective, and the same for store and load *)
Theorem C13_slots : forall folds trials t fo t' fo',
  0 < folds -> 0 <= t < trials -> 0 <= fo < folds -> 0 <= fo' < folds ->
  0 <= slot folds (t, fo) < folds * trials /\
  slot_load folds (t, fo) = slot folds (t, fo) /\
  (slot folds (t, fo) = slot folds (t', fo') -> (t, fo) = (t', fo')).
Proof.
  intros folds trials t fo t' fo' Hf Ht Hfo Hfo'.
  exact (conj (slot_range folds trials t fo Hf Ht Hfo)
              (conj (slot_load_eq folds (t, fo)) (slot_spec folds t fo t' fo' Hf Hfo Hfo'))).
Qed.
Print Assumptions C13_slots.

(* any interleaving of the tasks' stores yields the same table (atomic stores into pairwise distinct slots) *)
Theorem C13_store_order_independent : forall (A : Type) folds batches (vals : (Z * Z) -> A) (tasks' : list ((Z * Z) * A)) t,
  0 < folds -> Forall (fun n => 0 <= n) batches ->
  Permutation (map (fun tf => (tf, vals tf)) (all_tasks folds 0 batches)) tasks' ->
  forall k, store_all folds (map (fun tf => (tf, vals tf)) (all_tasks folds 0 batches)) t k = store_all folds tasks' t k.
Proof.
  intros A folds batches vals tasks' t Hf Hb Hp. apply s_store_order_independent; [|exact Hp].
  rewrite map_map. cbn [fst]. exact (all_tasks_slots_NoDup folds batches Hf Hb).
Qed.
Print Assumptions C13_store_order_independent.

(* the closest-model read of a task never aliases the slot another task of the same batch stores into; the premise
   "the first batch has one trial" is C13_first_batch_single (closest_ok: a trial below old_trials, or 0 when none) *)
Theorem C13_closest_race_free : forall folds old n i j c,
  0 < folds -> 0 <= old -> (old = 0 -> n = 1) ->
  0 <= i < src_mt_tasks folds n -> 0 <= j < src_mt_tasks folds n -> i <> j ->
  closest_ok old c ->
  slot_load folds (c, src_mt_fold i folds) <> slot folds (decode folds old j).
Proof. exact s_closest_race_free. Qed.
Print Assumptions C13_closest_race_free.

(* optimum_trial: the first trial with the smallest value, i.e. (same number of folds) the smallest mean *)
Theorem C13_optimum_trial : forall vmax (table : list (list Z)) (folds : positive),
  (exists v, In v (trial_sums table) /\ v < vmax) ->
  exists k v, optimum_trial vmax (trial_sums table) = Z.of_nat k /\ nth_error (trial_sums table) k = Some v /\
    (forall w, In w (trial_sums table) -> (v # folds <= w # folds)%Q) /\
    (forall j w, (j < k)%nat -> nth_error (trial_sums table) j = Some w -> ~ (w # folds <= v # folds)%Q).
Proof.
  intros vmax table folds H. destruct (s_optimum_trial vmax (trial_sums table) H) as (k & v & H1 & H2 & H3 & H4).
  exists k, v. split; [exact H1|]. split; [exact H2|]. split.
  - intros w Hw. apply mean_order. rewrite Forall_forall in H3. exact (H3 w Hw).
  - intros j w Hj Hw Hle. apply mean_order in Hle. specialize (H4 j w Hj Hw). apply Z.lt_nge in H4. exact (H4 Hle).
Qed.
Print Assumptions C13_optimum_trial.

(* ---------------- non-vacuity ---------------- *)
Definition ex_cfg : config := {| c_kind := KLocal; c_sizes := [7; 5]; c_max_evals := 12 |}.
(* a bowl with its minimum in the corner (6, 0) *)
Definition ex_f (g : igrid) : option Z :=
  match g with [x; y] => Some ((x - 6) * (x - 6) + y * y) | _ => None end.

Example C13_nonvacuous_config : valid_config ex_cfg /\ prop_shape (fun _ => None) ex_cfg /\ sort_contract isort.
Proof. split; [split; [repeat constructor; discriminate|discriminate]|]. split; [intros ? ? H; discriminate H|exact isort_contract]. Qed.

(* a run that returns: 14 evaluations (> max_evals = 12, <= 12 + 9), the corner first *)
Example C13_nonvacuous_run :
  exists st, optimize isort (fun _ => None) ex_f ex_cfg = Finished st /\
             length (concat (st_calls st)) = 14%nat /\ hd_error (st_steps st) = Some ([6; 0], 0) /\
             hd_error (st_calls st) = Some [[3; 2]] /\ nth_error (st_calls st) 1 = Some [[1; 0]; [1; 2]; [1; 4]; [3; 0]; [3; 4]; [5; 0]; [5; 2]; [5; 4]].
Proof. eexists. split; [vm_compute; reflexivity|]. vm_compute. repeat split; reflexivity. Qed.

(* a run that throws: the start point is fine, a point of the first coarse neighbourhood is non-finite *)
Example C13_nonvacuous_throw :
  optimize isort (fun _ => None) (fun g => match g with [5; 2] => None | _ => ex_f g end) ex_cfg =
  Thrown [[[3; 2]]; [[1; 0]; [1; 2]; [1; 4]; [3; 0]; [3; 4]; [5; 0]; [5; 2]; [5; 4]]].
Proof. vm_compute. reflexivity. Qed.

(* the surrogate variant with a proposal oracle, and a tie-breaking oracle different from the stable order *)
Example C13_nonvacuous_surrogate :
  let cfg := {| c_kind := KSurrogate; c_sizes := [4]; c_max_evals := 10 |} in
  valid_config cfg /\ prop_shape (fun _ => Some [3]) cfg /\
  optimize (srt_pick (fun _ => Some [0])) (fun _ => Some [3]) (fun _ => Some 1) cfg =
    Finished {| st_steps := [([0], 1); ([2], 1); ([3], 1)]; st_calls := [[[2]]; [[0]]; [[3]]] |} /\
  optimize isort (fun _ => Some [3]) (fun _ => Some 1) cfg =
    Finished {| st_steps := [([2], 1); ([0], 1); ([3], 1)]; st_calls := [[[2]]; [[0]]; [[3]]] |}.
Proof.
  split; [split; [repeat constructor; discriminate|discriminate]|]. split; [intros ? ? H; inversion H; reflexivity|].
  vm_compute. split; reflexivity.
Qed.

Example C13_nonvacuous_closest :
  closest_ok 0 0 /\ closest_ok 3 2 /\ slot_load 4 (0, src_mt_fold 1 4) = 1 /\ slot 4 (decode 4 0 2) = 2 /\
  slot_load 4 (2, src_mt_fold 5 4) = 9 /\ slot 4 (decode 4 3 1) = 13.
Proof. unfold closest_ok. vm_compute. repeat split; try reflexivity; try (right; reflexivity). left. split; [discriminate|reflexivity]. Qed.

Example C13_nonvacuous_tune :
  batch_tasks 3 2 2 = [(2, 0); (2, 1); (2, 2); (3, 0); (3, 1); (3, 2)] /\
  all_tasks 2 0 [1; 2] = [(0, 0); (0, 1); (1, 0); (1, 1); (2, 0); (2, 1)] /\
  map (slot 2) (all_tasks 2 0 [1; 2]) = [0; 1; 2; 3; 4; 5] /\
  trial_sums [[5; 7]; [4; 6]; [6; 4]] = [12; 10; 10] /\ optimum_trial 1000 [12; 10; 10] = 1.
Proof. vm_compute. repeat split; reflexivity. Qed.
