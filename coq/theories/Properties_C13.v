(* C13 -- Tuning evaluates grid points once and reports the true best trial.
   Only statements + `exact` + Print Assumptions live here.  Model: C13_Defs (imports the kernels translated from
   src/tuner.cpp, src/tuner/{util,local,surrogate}.cpp, src/machine/{tune,result}.cpp on every run).

   Vocabulary (C13_Proofs / C13_Statements):
     sort_contract srt  := forall l, Permutation (srt l) l /\ StronglySorted (fun a b => snd a <= snd b) (srt l)
                           -- what std::sort guarantees; the order among equal values is free
     valid_config cfg   := Forall (fun s => 1 <= s) (c_sizes cfg) /\ 0 <= c_max_evals cfg
     prop_shape prop cfg:= forall steps c, prop steps = Some c -> length c = length (c_sizes cfg)
                           -- the surrogate proposes *some* index vector with one entry per space, nothing else
     InGrid sizes g     := Forall2 (fun x s => 0 <= x < s) g sizes
     calls_of o         := the batches handed to the callback, chronologically (also for runs ending in an exception)
   In every theorem about `optimize`: srt = any sort outcome, prop = any surrogate proposals (ignored by the
   local-search tuner, c_kind cfg = KLocal), f = any landscape (None = non-finite value). *)
From Coq Require Import List ZArith Bool Permutation Sorted QArith.
From LNGen Require Import Src_tuner Src_mtune.
From LN Require Import C13_Defs C13_Proofs C13_Statements.
Import ListNotations.
Local Open Scope Z_scope.

(* the neighbourhood: pairwise distinct points of the grid, at most 3^d of them *)
Theorem C13_local_search : forall sizes src r,
  r <> 0 -> length src = length sizes ->
  NoDup (local_search (min_igrid sizes) (max_igrid sizes) src r) /\
  Forall (InGrid sizes) (local_search (min_igrid sizes) (max_igrid sizes) src r) /\
  Z.of_nat (length (local_search (min_igrid sizes) (max_igrid sizes) src r)) <= 3 ^ Z.of_nat (length sizes).
Proof. exact s_local_search. Qed.
Print Assumptions C13_local_search.

(* both tuners only ever evaluate points of the given grids ... *)
Theorem C13_grid_only : forall srt prop f cfg,
  sort_contract srt -> valid_config cfg -> prop_shape prop cfg ->
  Forall (InGrid (c_sizes cfg)) (concat (calls_of (optimize srt prop f cfg))).
Proof. exact s_grid_only. Qed.
Print Assumptions C13_grid_only.

(* ... never the same point twice ... *)
Theorem C13_no_repeat : forall srt prop f cfg,
  sort_contract srt -> valid_config cfg -> prop_shape prop cfg ->
  NoDup (concat (calls_of (optimize srt prop f cfg))).
Proof. exact s_no_repeat. Qed.
Print Assumptions C13_no_repeat.

(* ... and at most max_evals + 3^d points *)
Theorem C13_bound : forall srt prop f cfg,
  sort_contract srt -> valid_config cfg -> prop_shape prop cfg ->
  Z.of_nat (length (concat (calls_of (optimize srt prop f cfg)))) <= c_max_evals cfg + 3 ^ Z.of_nat (length (c_sizes cfg)).
Proof. exact s_bound. Qed.
Print Assumptions C13_bound.

(* a normal return carries all evaluations with the callback's values, sorted by value, the first being the minimum observed *)
Theorem C13_sorted_min_first : forall srt prop f cfg st,
  sort_contract srt -> valid_config cfg -> prop_shape prop cfg ->
  optimize srt prop f cfg = Finished st ->
  StronglySorted step_le (st_steps st) /\
  Permutation (map fst (st_steps st)) (concat (st_calls st)) /\
  Forall (fun s => f (fst s) = Some (snd s)) (st_steps st) /\
  exists s0 rest, st_steps st = s0 :: rest /\
    forall g, In g (concat (st_calls st)) -> exists v, f g = Some v /\ snd s0 <= v.
Proof. exact s_sorted_min_first. Qed.
Print Assumptions C13_sorted_min_first.

(* an evaluated non-finite value always ends in the exception; the exception is raised only for one, in the last batch *)
Theorem C13_nonfinite_rejected : forall srt prop f cfg,
  sort_contract srt -> valid_config cfg -> prop_shape prop cfg ->
  (forall g, In g (concat (calls_of (optimize srt prop f cfg))) -> f g = None ->
             exists calls, optimize srt prop f cfg = Thrown calls) /\
  (forall calls, optimize srt prop f cfg = Thrown calls ->
     exists pre new, calls = pre ++ [new] /\ Forall (fun g => f g <> None) (concat pre) /\
                     exists g, In g new /\ f g = None).
Proof. exact s_nonfinite. Qed.
Print Assumptions C13_nonfinite_rejected.

(* the fuelled loops of the model never run out of fuel: the loops of the code terminate *)
Theorem C13_fuel_suffices : forall srt prop f cfg,
  sort_contract srt -> valid_config cfg -> prop_shape prop cfg ->
  forall st, optimize srt prop f cfg <> OutOfFuel st.
Proof. exact s_fuel. Qed.
Print Assumptions C13_fuel_suffices.

(* the first batch is the single average point (what makes the closest_trial read of ml::tune race free) *)
Theorem C13_first_batch_single : forall srt prop f cfg,
  sort_contract srt -> valid_config cfg -> prop_shape prop cfg ->
  exists rest, calls_of (optimize srt prop f cfg) = [avg_igrid (c_sizes cfg)] :: rest.
Proof. exact s_first_batch_single. Qed.
Print Assumptions C13_first_batch_single.

(* the sort contract is satisfiable, and every tie-breaking answer used by the acceptor stays within it *)
Theorem C13_sort_instances : sort_contract isort /\ forall pick, sort_contract (srt_pick pick).
Proof. exact (conj isort_contract srt_pick_contract). Qed.
Print Assumptions C13_sort_instances.

(* ml::tune: over a whole tuning run every (trial, fold) is the decoding of exactly one task index *)
Theorem C13_tune_bijection : forall folds, 0 < folds -> forall batches old, Forall (fun n => 0 <= n) batches ->
  NoDup (all_tasks folds old batches) /\
  forall t fo, In (t, fo) (all_tasks folds old batches) <-> (old <= t < old + zsum batches /\ 0 <= fo < folds).
Proof. exact all_tasks_spec. Qed.
Print Assumptions C13_tune_bijection.

(* result_t: the slot of (trial, fold) is in range, injective, and the same for store and load *)
Theorem C13_slots : forall folds trials t fo t' fo',
  0 < folds -> 0 <= t < trials -> 0 <= fo < folds -> 0 <= fo' < folds ->
  0 <= slot folds (t, fo) < folds * trials /\
  slot_load folds (t, fo) = slot folds (t, fo) /\
  (slot folds (t, fo) = slot folds (t', fo') -> (t, fo) = (t', fo')).
Proof.
  intros folds trials t fo t' fo' Hf Ht Hfo Hfo'.
  exact (conj (slot_range folds trials t fo Hf Ht Hfo)
              (conj (slot_load_eq folds (t, fo)) (slot_spec folds t fo t' fo' Hf Hfo Hfo'))).
Qed.
Print Assumptions C13_slots.

(* any interleaving of the tasks' stores yields the same table (atomic stores into pairwise distinct slots) *)
Theorem C13_store_order_independent : forall (A : Type) folds batches (vals : (Z * Z) -> A) (tasks' : list ((Z * Z) * A)) t,
  0 < folds -> Forall (fun n => 0 <= n) batches ->
  Permutation (map (fun tf => (tf, vals tf)) (all_tasks folds 0 batches)) tasks' ->
  forall k, store_all folds (map (fun tf => (tf, vals tf)) (all_tasks folds 0 batches)) t k = store_all folds tasks' t k.
Proof.
  intros A folds batches vals tasks' t Hf Hb Hp. apply s_store_order_independent; [|exact Hp].
  rewrite map_map. cbn [fst]. exact (all_tasks_slots_NoDup folds batches Hf Hb).
Qed.
Print Assumptions C13_store_order_independent.

(* the closest-model read of a task never aliases the slot another task of the same batch stores into; the premise
   "the first batch has one trial" is C13_first_batch_single (closest_ok: a trial below old_trials, or 0 when none) *)
Theorem C13_closest_race_free : forall folds old n i j c,
  0 < folds -> 0 <= old -> (old = 0 -> n = 1) ->
  0 <= i < src_mt_tasks folds n -> 0 <= j < src_mt_tasks folds n -> i <> j ->
  closest_ok old c ->
  slot_load folds (c, src_mt_fold i folds) <> slot folds (decode folds old j).
Proof. exact s_closest_race_free. Qed.
Print Assumptions C13_closest_race_free.

(* optimum_trial: the first trial with the smallest value, i.e. (same number of folds) the smallest mean *)
Theorem C13_optimum_trial : forall vmax (table : list (list Z)) (folds : positive),
  (exists v, In v (trial_sums table) /\ v < vmax) ->
  exists k v, optimum_trial vmax (trial_sums table) = Z.of_nat k /\ nth_error (trial_sums table) k = Some v /\
    (forall w, In w (trial_sums table) -> (v # folds <= w # folds)%Q) /\
    (forall j w, (j < k)%nat -> nth_error (trial_sums table) j = Some w -> ~ (w # folds <= v # folds)%Q).
Proof.
  intros vmax table folds H. destruct (s_optimum_trial vmax (trial_sums table) H) as (k & v & H1 & H2 & H3 & H4).
  exists k, v. split; [exact H1|]. split; [exact H2|]. split.
  - intros w Hw. apply mean_order. rewrite Forall_forall in H3. exact (H3 w Hw).
  - intros j w Hj Hw Hle. apply mean_order in Hle. specialize (H4 j w Hj Hw). apply Z.lt_nge in H4. exact (H4 Hle).
Qed.
Print Assumptions C13_optimum_trial.

(* ---------------- non-vacuity ---------------- *)
Definition ex_cfg : config := {| c_kind := KLocal; c_sizes := [7; 5]; c_max_evals := 12 |}.
(* a bowl with its minimum in the corner (6, 0) *)
Definition ex_f (g : igrid) : option Z :=
  match g with [x; y] => Some ((x - 6) * (x - 6) + y * y) | _ => None end.

Example C13_nonvacuous_config : valid_config ex_cfg /\ prop_shape (fun _ => None) ex_cfg /\ sort_contract isort.
Proof. split; [split; [repeat constructor; discriminate|discriminate]|]. split; [intros ? ? H; discriminate H|exact isort_contract]. Qed.

(* a run that returns: 14 evaluations (> max_evals = 12, <= 12 + 9), the corner first *)
Example C13_nonvacuous_run :
  exists st, optimize isort (fun _ => None) ex_f ex_cfg = Finished st /\
             length (concat (st_calls st)) = 14%nat /\ hd_error (st_steps st) = Some ([6; 0], 0) /\
             hd_error (st_calls st) = Some [[3; 2]] /\ nth_error (st_calls st) 1 = Some [[1; 0]; [1; 2]; [1; 4]; [3; 0]; [3; 4]; [5; 0]; [5; 2]; [5; 4]].
Proof. eexists. split; [vm_compute; reflexivity|]. vm_compute. repeat split; reflexivity. Qed.

(* a run that throws: the start point is fine, a point of the first coarse neighbourhood is non-finite *)
Example C13_nonvacuous_throw :
  optimize isort (fun _ => None) (fun g => match g with [5; 2] => None | _ => ex_f g end) ex_cfg =
  Thrown [[[3; 2]]; [[1; 0]; [1; 2]; [1; 4]; [3; 0]; [3; 4]; [5; 0]; [5; 2]; [5; 4]]].
Proof. vm_compute. reflexivity. Qed.

(* the surrogate variant with a proposal oracle, and a tie-breaking oracle different from the stable order *)
Example C13_nonvacuous_surrogate :
  let cfg := {| c_kind := KSurrogate; c_sizes := [4]; c_max_evals := 10 |} in
  valid_config cfg /\ prop_shape (fun _ => Some [3]) cfg /\
  optimize (srt_pick (fun _ => Some [0])) (fun _ => Some [3]) (fun _ => Some 1) cfg =
    Finished {| st_steps := [([0], 1); ([2], 1); ([3], 1)]; st_calls := [[[2]]; [[0]]; [[3]]] |} /\
  optimize isort (fun _ => Some [3]) (fun _ => Some 1) cfg =
    Finished {| st_steps := [([2], 1); ([0], 1); ([3], 1)]; st_calls := [[[2]]; [[0]]; [[3]]] |}.
Proof.
  split; [split; [repeat constructor; discriminate|discriminate]|]. split; [intros ? ? H; inversion H; reflexivity|].
  vm_compute. split; reflexivity.
Qed.

Example C13_nonvacuous_closest :
  closest_ok 0 0 /\ closest_ok 3 2 /\ slot_load 4 (0, src_mt_fold 1 4) = 1 /\ slot 4 (decode 4 0 2) = 2 /\
  slot_load 4 (2, src_mt_fold 5 4) = 9 /\ slot 4 (decode 4 3 1) = 13.
Proof. unfold closest_ok. vm_compute. repeat split; try reflexivity; try (right; reflexivity). left. split; [discriminate|reflexivity]. Qed.

Example C13_nonvacuous_tune :
  batch_tasks 3 2 2 = [(2, 0); (2, 1); (2, 2); (3, 0); (3, 1); (3, 2)] /\
  all_tasks 2 0 [1; 2] = [(0, 0); (0, 1); (1, 0); (1, 1); (2, 0); (2, 1)] /\
  map (slot 2) (all_tasks 2 0 [1; 2]) = [0; 1; 2; 3; 4; 5] /\
  trial_sums [[5; 7]; [4; 6]; [6; 4]] = [12; 10; 10] /\ optimum_trial 1000 [12; 10; 10] = 1.
Proof. vm_compute. repeat split; reflexivity. Qed.

(* ================================================================================================================ *)
(* Extension (stage SURR): the deterministic arithmetic around the quadratic surrogate (C13_Surrogate_Defs / C13_Surrogate).
   Vocabulary:
     fit_size d          := (d + 1) * (d + 2) / 2 as the source writes it; dim_of_size n := (int) sqrt(2 n) - 1
     pairs d             := the (i, j) visited by `for i in [0, d) for (j = i; j < d; ++j)`; number k l := `k++` numbering
     pair_index d i j    := d + 1 + i d - i (i - 1) / 2 + (j - i)
     sg_value / sg_grad  := quadratic_surrogate_t::do_vgrad; quad_terms := one row of m_p2; fit_value / fit_grad := the fit objective (mse)
     closest_point dmax ts x := closest_grid_point_from_surrogate on the images ts of the grid (dmax = numeric_limits::max())
     closest_point_f     := its binary64 twin (PrimFloat, bit for bit the code)
     sg_prop tss ans     := the proposal computed from the inner solver's answer `ans` (None = `critical(!valid())`)
     spaces_match tss sizes := one list of images per space, as long as the grid                                          *)
From LN Require Import C13_Surrogate_Defs C13_Surrogate.
From Coq Require Import Qabs Lia.
(* Floats is deliberately not imported: Print Assumptions then prints the primitive operations with qualified names *)
Local Open Scope Z_scope.

(* the model vector has (d+1)(d+2)/2 coefficients and the dimension is recovered from it *)
Theorem C13_sg_sizes : forall d, 0 <= d ->
  2 * fit_size d = (d + 1) * (d + 2) /\ dim_of_size (fit_size d) = d /\
  (forall p : list Q, zlen p = d -> zlen (quad_terms p) = fit_size d).
Proof.
  intros d Hd. split; [exact (twice_fit_size d Hd)|]. split; [exact (dim_of_fit_size d Hd)|].
  intros p Hp. unfold quad_terms, zlen in *. cbn [length]. rewrite app_length, !map_length, Hp, pairs_fit_eq.
  pose proof (pairs_length d Hd) as L. pose proof (zfrom_length 0 d) as L0. unfold zlen in L, L0. lia.
Qed.
Print Assumptions C13_sg_sizes.

(* the three cross-term loops of the source walk the upper triangle row by row, and the running index `k` at (i, j) is
   pair_index: a bijection between {0 <= i <= j < d} and [d + 1, (d+1)(d+2)/2) *)
Theorem C13_sg_index_bijection : forall d, 0 <= d ->
  pairs_fit d = pairs d /\ pairs_grad d = pairs d /\ pairs_value d = pairs d /\
  NoDup (pairs d) /\ (forall i j, In (i, j) (pairs d) <-> 0 <= i /\ i <= j /\ j < d) /\
  map snd (number (1 + d) (pairs d)) = zfrom (d + 1) (fit_size d) /\
  (forall i j k, In ((i, j), k) (number (1 + d) (pairs d)) -> k = pair_index d i j) /\
  (forall i j, 0 <= i -> i <= j -> j < d -> d + 1 <= pair_index d i j < fit_size d) /\
  (forall i j i' j', 0 <= i -> i <= j -> j < d -> 0 <= i' -> i' <= j' -> j' < d ->
     pair_index d i j = pair_index d i' j' -> (i, j) = (i', j')) /\
  (forall k, d + 1 <= k < fit_size d -> exists i j, 0 <= i /\ i <= j /\ j < d /\ pair_index d i j = k).
Proof.
  intros d Hd. destruct (pair_index_spec d Hd) as (H1 & H2 & H3).
  split; [exact (pairs_fit_eq d)|]. split; [exact (pairs_grad_eq d)|]. split; [exact (pairs_value_eq d)|].
  split; [exact (pairs_NoDup d)|]. split; [exact (pairs_In d)|]. split; [exact (pairs_positions d Hd)|].
  split. { intros i j k H. pose proof (pairs_index d 1 i j k Hd H). lia. }
  split. { intros i j A B C. exact (proj1 (H1 i j A B C)). }
  split; [exact H2|exact H3].
Qed.
Print Assumptions C13_sg_index_bijection.

(* the value walk of quadratic_surrogate_t and the feature walk of the fit agree: value = coefficients . row *)
Theorem C13_sg_value_features : forall m x, (sg_value m x == qdot m (quad_terms x))%Q.
Proof. exact sg_value_features. Qed.
Print Assumptions C13_sg_value_features.

(* the gradient the source returns is the derivative of the value: exact first-order expansion, the remainder is the
   purely quadratic part, homogeneous of degree two *)
Theorem C13_sg_gradient : forall m x h, length x = length h ->
  (sg_value m (qadd x h) == sg_value m x + qdot (sg_grad m x) h + sg_quad m h)%Q /\
  (forall t, sg_quad m (qscale t h) == t * t * sg_quad m h)%Q.
Proof. intros m x h Hl. split; [exact (sg_taylor m x h Hl)|intros t; exact (sg_quad_scale m t h)]. Qed.
Print Assumptions C13_sg_gradient.

(* the fit objective: the gradient is the derivative in the coefficients (remainder: half the sum of squares of the
   linear forms, never negative) *)
Theorem C13_fit_gradient : forall rows y c h, length c = length h -> Forall (fun r => length r = length c) rows ->
  (fit_value rows y (qadd c h) == fit_value rows y c + qdot (fit_grad rows y c) h + fit_quad rows y h)%Q /\
  (0 <= fit_quad rows y h)%Q.
Proof. intros rows y c h Hl H. split; [exact (fit_taylor rows y c h Hl H)|exact (fit_quad_nonneg rows y h)]. Qed.
Print Assumptions C13_fit_gradient.

(* ... and it is convex in the coefficients, so the convexity the source declares for it (mse: yes) is truthful *)
Theorem C13_fit_convex : fit_declared_convex = true /\
  forall rows y a b t, length a = length b -> (0 <= t)%Q -> (t <= 1)%Q ->
  (fit_value rows y (qadd (qscale t a) (qscale (1 - t) b)) <= t * fit_value rows y a + (1 - t) * fit_value rows y b)%Q.
Proof. split; [reflexivity|exact fit_convex]. Qed.
Print Assumptions C13_fit_convex.

(* closest_grid_point_from_surrogate: always an index of the grid; when some grid point is closer than dmax it is the
   first index that minimises |x - t_k| over the images; otherwise index 0 *)
Theorem C13_closest_point : forall dmax ts x,
  0 <= closest_point dmax ts x < Z.max 1 (zlen ts) /\
  ((exists k, (k < length ts)%nat /\ (Qabs (x - nth k ts 0%Q) < dmax)%Q) ->
   exists k, (k < length ts)%nat /\ closest_point dmax ts x = Z.of_nat k /\
     (forall j, (j < length ts)%nat -> (Qabs (x - nth k ts 0%Q) <= Qabs (x - nth j ts 0%Q))%Q) /\
     (forall j, (j < k)%nat -> (Qabs (x - nth k ts 0%Q) < Qabs (x - nth j ts 0%Q))%Q)) /\
  ((forall k, (k < length ts)%nat -> ~ (Qabs (x - nth k ts 0%Q) < dmax)%Q) -> closest_point dmax ts x = 0).
Proof.
  intros dmax ts x. split; [exact (closest_point_range dmax ts x)|].
  split; [exact (closest_point_argmin dmax ts x)|exact (closest_point_default dmax ts x)].
Qed.
Print Assumptions C13_closest_point.

(* linear spaces: to_surrogate maps the range onto [0, 1] strictly increasingly and throws outside; from_surrogate is its
   inverse there and never leaves the range *)
Theorem C13_space_linear : forall vmin vmax, (vmin < vmax)%Q ->
  (forall v, (vmin <= v)%Q /\ (v <= vmax)%Q ->
     exists s, to_surrogate_lin vmin vmax v = Some s /\ (0 <= s)%Q /\ (s <= 1)%Q /\ (from_surrogate_lin vmin vmax s == v)%Q) /\
  (forall v, (v < vmin)%Q \/ (vmax < v)%Q -> to_surrogate_lin vmin vmax v = None) /\
  (forall v w s1 s2, (v < w)%Q -> to_surrogate_lin vmin vmax v = Some s1 -> to_surrogate_lin vmin vmax w = Some s2 -> (s1 < s2)%Q) /\
  (forall s, (vmin <= from_surrogate_lin vmin vmax s)%Q /\ (from_surrogate_lin vmin vmax s <= vmax)%Q).
Proof.
  intros vmin vmax Hw. split; [intros v; exact (proj1 (to_surrogate_lin_spec vmin vmax v Hw))|].
  split; [intros v; exact (proj2 (to_surrogate_lin_spec vmin vmax v Hw))|].
  split; [intros v w s1 s2; exact (to_surrogate_lin_mono vmin vmax v w s1 s2 Hw)|].
  intros s. apply from_surrogate_lin_range. apply Qlt_le_weak. exact Hw.
Qed.
Print Assumptions C13_space_linear.

(* EVERY proposal of the surrogate tuner is a grid point, whatever vector the inner solver returned -- exact rationals
   and the binary64 twin (NaN, infinities and huge values included) *)
Theorem C13_proposal_in_grid :
  (forall tss sizes xs, spaces_match tss sizes -> Forall (fun s => 1 <= s) sizes -> InGrid sizes (sg_proposal tss xs)) /\
  (forall tss sizes xs, spaces_match tss sizes -> Forall (fun s => 1 <= s) sizes -> InGrid sizes (sg_proposal_f tss xs)) /\
  (forall ts x, 0 <= closest_point_f ts x < Z.max 1 (zlen ts)).
Proof. exact (conj sg_proposal_in_grid (conj sg_proposal_f_in_grid closest_point_f_range)). Qed.
Print Assumptions C13_proposal_in_grid.

(* the tuner clauses for the surrogate tuner with the inner solver's answer as the ONLY oracle (no prop_shape premise) *)
Theorem C13_surrogate_grid_only : forall srt tss ans f cfg,
  sort_contract srt -> valid_config cfg -> spaces_match tss (c_sizes cfg) ->
  Forall (InGrid (c_sizes cfg)) (concat (calls_of (optimize_sg srt tss ans f cfg))).
Proof. exact sg_grid_only. Qed.
Print Assumptions C13_surrogate_grid_only.

Theorem C13_surrogate_no_repeat : forall srt tss ans f cfg,
  sort_contract srt -> valid_config cfg -> spaces_match tss (c_sizes cfg) ->
  NoDup (concat (calls_of (optimize_sg srt tss ans f cfg))).
Proof. exact sg_no_repeat. Qed.
Print Assumptions C13_surrogate_no_repeat.

Theorem C13_surrogate_bound_terminates : forall srt tss ans f cfg,
  sort_contract srt -> valid_config cfg -> spaces_match tss (c_sizes cfg) ->
  Z.of_nat (length (concat (calls_of (optimize_sg srt tss ans f cfg)))) <= c_max_evals cfg + 3 ^ Z.of_nat (length (c_sizes cfg)) /\
  (forall st, optimize_sg srt tss ans f cfg <> OutOfFuel st) /\
  (exists rest, calls_of (optimize_sg srt tss ans f cfg) = [avg_igrid (c_sizes cfg)] :: rest).
Proof.
  intros srt tss ans f cfg H1 H2 H3. split; [exact (sg_bound srt tss ans f cfg H1 H2 H3)|].
  split; [exact (sg_fuel srt tss ans f cfg H1 H2 H3)|exact (sg_first_batch srt tss ans f cfg H1 H2 H3)].
Qed.
Print Assumptions C13_surrogate_bound_terminates.

Theorem C13_surrogate_sorted_nonfinite : forall srt tss ans f cfg,
  sort_contract srt -> valid_config cfg -> spaces_match tss (c_sizes cfg) ->
  (forall st, optimize_sg srt tss ans f cfg = Finished st ->
     StronglySorted step_le (st_steps st) /\
     Permutation (map fst (st_steps st)) (concat (st_calls st)) /\
     Forall (fun s => f (fst s) = Some (snd s)) (st_steps st) /\
     exists s0 rest, st_steps st = s0 :: rest /\
       forall g, In g (concat (st_calls st)) -> exists v, f g = Some v /\ snd s0 <= v) /\
  (forall g, In g (concat (calls_of (optimize_sg srt tss ans f cfg))) -> f g = None ->
             exists calls, optimize_sg srt tss ans f cfg = Thrown calls).
Proof.
  intros srt tss ans f cfg H1 H2 H3. split; [intros st; exact (sg_sorted_min_first srt tss ans f cfg H1 H2 H3 st)|].
  exact (proj1 (sg_nonfinite srt tss ans f cfg H1 H2 H3)).
Qed.
Print Assumptions C13_surrogate_sorted_nonfinite.

(* the same for the binary64 twin that replays the real runs *)
Theorem C13_surrogate_binary64 : forall srt (tss : list (list PrimFloat.float)) ans f cfg,
  sort_contract srt -> valid_config cfg -> spaces_match tss (c_sizes cfg) ->
  Forall (InGrid (c_sizes cfg)) (concat (calls_of (optimize_sg_f srt tss ans f cfg))) /\
  NoDup (concat (calls_of (optimize_sg_f srt tss ans f cfg))) /\
  Z.of_nat (length (concat (calls_of (optimize_sg_f srt tss ans f cfg)))) <= c_max_evals cfg + 3 ^ Z.of_nat (length (c_sizes cfg)) /\
  (forall st, optimize_sg_f srt tss ans f cfg <> OutOfFuel st) /\
  (forall g, In g (concat (calls_of (optimize_sg_f srt tss ans f cfg))) -> f g = None ->
             exists calls, optimize_sg_f srt tss ans f cfg = Thrown calls).
Proof. exact sgf_tuner. Qed.
Print Assumptions C13_surrogate_binary64.

(* ---------------- non-vacuity of the extension ---------------- *)
Example C13_nonvacuous_sizes : fit_size 3 = 10 /\ dim_of_size 10 = 3 /\ pairs 3 = [(0, 0); (0, 1); (0, 2); (1, 1); (1, 2); (2, 2)] /\
  map snd (number 4 (pairs 3)) = [4; 5; 6; 7; 8; 9] /\ pair_index 3 1 2 = 8 /\ pair_index 3 2 2 = 9 /\
  quad_terms [2; 3; 5]%Q = [1; 2; 3; 5; 2 * 2; 2 * 3; 2 * 5; 3 * 3; 3 * 5; 5 * 5]%Q.
Proof. vm_compute. repeat split; reflexivity. Qed.

(* value, gradient and the expansion on a concrete surrogate with d = 3 (coefficient 8 = cross term (1, 2)) *)
Example C13_nonvacuous_surrogate_value :
  let m := [1; 0; 0; 0; 0; 0; 0; 0; 2; 0]%Q in
  (sg_value m [1; 3; 5] == 31)%Q /\ sg_grad m [1; 3; 5]%Q = [0 + 0; 0 + 0 + 2 * 5; 0 + 0 + 2 * 3]%Q /\
  length [1; 3; 5]%Q = length [1; 1; 1]%Q /\ (sg_quad m [1; 1; 1] == 2)%Q.
Proof. cbv zeta. split; [vm_compute; reflexivity|]. split; [vm_compute; reflexivity|]. split; [reflexivity|vm_compute; reflexivity]. Qed.

Example C13_nonvacuous_fit :
  let rows := fit_rows [[1]; [2]]%Q in
  Forall (fun r => length r = length [0; 0; 0]%Q) rows /\ (fit_value rows [1; 3]%Q [1; 1; 0]%Q == 1 # 2)%Q /\
  (0 <= 1 # 2)%Q /\ (1 # 2 <= 1)%Q.
Proof. cbv zeta. split; [repeat constructor|]. split; [vm_compute; reflexivity|]. split; discriminate. Qed.

(* closest point: a tie (the first wins), a far query (argmin is the last), nothing below dmax (index 0) *)
Example C13_nonvacuous_closest_grid_point :
  closest_point dbl_max [0; 1 # 2; 1]%Q (1 # 4) = 0 /\ closest_point dbl_max [0; 1 # 2; 1]%Q (3 # 4) = 1 /\
  closest_point dbl_max [0; 1 # 2; 1]%Q 1000 = 2 /\ closest_point 1 [0; 1 # 2; 1]%Q 1000 = 0 /\
  (exists k, (k < length [0; 1 # 2; 1]%Q)%nat /\ (Qabs (1000 - nth k [0; 1 # 2; 1] 0) < dbl_max)%Q) /\
  closest_point_f ex_f_grid ex_f_huge = 0 /\ closest_point_f ex_f_grid ex_f_nan = 0 /\
  closest_point_f ex_f_grid ex_f_inside = 1.
Proof.
  split; [vm_compute; reflexivity|]. split; [vm_compute; reflexivity|]. split; [vm_compute; reflexivity|].
  split; [vm_compute; reflexivity|]. split; [exists O; split; [cbn; lia|vm_compute; reflexivity]|].
  split; [vm_compute; reflexivity|]. split; vm_compute; reflexivity.
Qed.

Example C13_nonvacuous_linear : (1 < 3)%Q /\ to_surrogate_lin 1 3 2 = Some ((2 - 1) / (3 - 1))%Q /\ to_surrogate_lin 1 3 4 = None /\
  (from_surrogate_lin 1 3 (1 # 2) == 2)%Q /\ (from_surrogate_lin 1 3 7 == 3)%Q.
Proof. split; [reflexivity|]. split; [reflexivity|]. split; [reflexivity|]. split; vm_compute; reflexivity. Qed.

(* a surrogate run whose proposals come from the inner solver's answers: garbage answers still give grid points *)
Example C13_nonvacuous_surrogate_run :
  let cfg := {| c_kind := KSurrogate; c_sizes := [4]; c_max_evals := 10 |} in
  let tss := [[0; 1 # 3; 2 # 3; 1]%Q] in
  valid_config cfg /\ spaces_match tss (c_sizes cfg) /\
  sg_proposal tss [1000000]%Q = [3] /\ sg_proposal tss [-(5)]%Q = [0] /\
  optimize_sg isort tss (fun _ => Some [1000000]%Q) (fun _ => Some 1) cfg =
    Finished {| st_steps := [([2], 1); ([0], 1); ([3], 1)]; st_calls := [[[2]]; [[0]]; [[3]]] |} /\
  (exists st, optimize_sg isort tss (fun _ => None) (fun _ => Some 1) cfg = Aborted st) /\
  spaces_match [ex_f_grid] [3] /\ sg_proposal_f [ex_f_grid] [ex_f_nan] = [0].
Proof.
  cbv zeta. split; [split; [repeat constructor; discriminate|discriminate]|].
  split; [repeat constructor|]. split; [vm_compute; reflexivity|]. split; [vm_compute; reflexivity|].
  split; [vm_compute; reflexivity|]. split; [eexists; vm_compute; reflexivity|].
  split; [repeat constructor|vm_compute; reflexivity].
Qed.
