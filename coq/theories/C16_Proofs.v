(* C16 -- proofs about the tensor indexing model. *)
From Coq Require Import List ZArith Bool Lia Arith.
From LNGen Require Import Src_dims Src_tensor.
From LN Require Import ListAux C16_Defs.
Import ListNotations.
Local Open Scope Z_scope.

Ltac unfold_src :=
  unfold src_product_base, src_product_step, src_get_index_step, src_get_index_last,
    src_get_index0_step, src_get_index0_base, src_index_valid, src_reshape_infer,
    src_reshape_dim_ok, src_slice_valid, src_slice_dim0, src_elem_valid in *.

Lemma size_nil : size [] = 1.
Proof. reflexivity. Qed.

Lemma size_cons x r : size (x :: r) = x * size r.
Proof. reflexivity. Qed.

Lemma size_app a b : size (a ++ b) = size a * size b.
Proof.
  induction a as [|x a IH]; cbn [app].
  - rewrite size_nil. lia.
  - rewrite !size_cons, IH. lia.
Qed.

(* the reference ("mathematical") row-major offset *)
Fixpoint offs (d : dims) (i : list Z) : Z :=
  match d, i with
  | _ :: r, k :: j => k * size r + offs r j
  | _, _ => 0
  end.

Fixpoint valid (d : dims) (i : list Z) : Prop :=
  match d, i with
  | [], [] => True
  | x :: r, k :: j => 0 <= k < x /\ valid r j
  | _, _ => False
  end.

Fixpoint validp (d : dims) (p : list Z) : Prop :=
  match p, d with
  | [], _ => True
  | k :: j, x :: r => 0 <= k < x /\ validp r j
  | _ :: _, [] => False
  end.

Lemma validb_spec d : forall i, validb d i = true <-> valid d i.
Proof.
  induction d as [|x r IH]; intros [|k j]; cbn [validb valid]; try (split; (congruence || tauto)).
  unfold_src. rewrite andb_true_iff, IH. split; intros [H1 H2]; split; try assumption; lia.
Qed.

Lemma validpb_spec p : forall d, validpb d p = true <-> validp d p.
Proof.
  induction p as [|k j IH]; intros [|x r]; cbn [validpb validp]; try (split; (congruence || tauto)).
  unfold_src. rewrite andb_true_iff, IH. split; intros [H1 H2]; split; try assumption; lia.
Qed.

Lemma valid_length d : forall i, valid d i -> length i = length d.
Proof.
  induction d as [|x r IH]; intros [|k j] H; cbn in *; try tauto.
  f_equal. apply IH. tauto.
Qed.

Lemma valid_validp d : forall i, valid d i -> validp d i.
Proof.
  induction d as [|x r IH]; intros [|k j] H; cbn in *; try tauto.
  split; [tauto | apply IH; tauto].
Qed.

Lemma valid_size_pos d : forall i, valid d i -> 0 < size d.
Proof.
  induction d as [|x r IH]; intros [|k j] H; cbn [valid] in H; try contradiction.
  - rewrite size_nil. lia.
  - destruct H as [Hk Hr]. rewrite size_cons. specialize (IH j Hr). nia.
Qed.

(* the code's offset (with its special last-index overload) is the reference offset *)
Lemma offset_offs d : forall i, length i = length d -> offset d i = offs d i.
Proof.
  induction d as [|x r IH]; intros [|k j] H; cbn [length] in H; try discriminate; try reflexivity.
  injection H as H.
  destruct j as [|k2 j2].
  - destruct r; [|discriminate]. cbn. unfold_src. lia.
  - change (offset (x :: r) (k :: k2 :: j2)) with (src_get_index_step k (size r) (offset r (k2 :: j2))).
    rewrite IH by exact H. unfold_src. reflexivity.
Qed.

Lemma offset0_offs p : forall d, (length p <= length d)%nat -> offset0 d p = offs d p.
Proof.
  induction p as [|k j IH]; intros [|x r] H; cbn [length] in H; try reflexivity; try lia.
  cbn [offset0 offs]. unfold_src. rewrite IH by lia. reflexivity.
Qed.

(* ---- range and bijection ------------------------------------------------------------------- *)
Lemma offs_range d : forall i, valid d i -> 0 <= offs d i < size d.
Proof.
  induction d as [|x r IH]; intros [|k j] H; cbn [valid] in H; try contradiction.
  - cbn [offs]. rewrite size_nil. lia.
  - destruct H as [Hk Hr]. specialize (IH j Hr). cbn [offs]. rewrite size_cons. nia.
Qed.

Lemma unoffset_offs d : forall i, valid d i -> unoffset d (offs d i) = i.
Proof.
  induction d as [|x r IH]; intros [|k j] H; cbn [valid] in H; try contradiction.
  - reflexivity.
  - destruct H as [Hk Hr]. cbn [offs unoffset].
    pose proof (offs_range r j Hr) as Hrg.
    assert (Hq : Z.quot (k * size r + offs r j) (size r) = k).
    { rewrite Z.quot_div_nonneg by nia. symmetry. apply Z.div_unique with (r := offs r j); lia. }
    assert (Hm : Z.rem (k * size r + offs r j) (size r) = offs r j).
    { rewrite Z.rem_mod_nonneg by nia. symmetry. apply Z.mod_unique with (q := k); lia. }
    rewrite Hq, Hm, IH by exact Hr. reflexivity.
Qed.

Lemma offs_unoffset d : forall o, Forall (fun x => 0 < x) d -> 0 <= o < size d ->
  valid d (unoffset d o) /\ offs d (unoffset d o) = o.
Proof.
  induction d as [|x r IH]; intros o Hd Ho.
  - rewrite size_nil in Ho. cbn. split; [exact I|lia].
  - inversion Hd as [|? ? Hx Hr]; subst. rewrite size_cons in Ho.
    assert (Hs : 0 < size r).
    { clear -Hr. induction Hr as [|y l Hy _ IHl]; [rewrite size_nil; lia | rewrite size_cons; nia]. }
    cbn [unoffset valid offs].
    rewrite Z.quot_div_nonneg, Z.rem_mod_nonneg by lia.
    pose proof (Z.mod_pos_bound o (size r) Hs) as Hm.
    pose proof (Z_div_mod_eq_full o (size r)) as He.
    destruct (IH (o mod size r) Hr Hm) as [Hv Hoff].
    split; [split|].
    + split; [apply Z.div_pos; lia|]. apply Z.div_lt_upper_bound; lia.
    + exact Hv.
    + rewrite Hoff. lia.
Qed.

Lemma offs_injective d i j : valid d i -> valid d j -> offs d i = offs d j -> i = j.
Proof.
  intros Hi Hj H. rewrite <- (unoffset_offs d i Hi), <- (unoffset_offs d j Hj), H. reflexivity.
Qed.

(* ---- sub-views ------------------------------------------------------------------------------ *)
Lemma offs_app p : forall d r, (length p <= length d)%nat ->
  offs d (p ++ r) = offs d p + offs (skipn (length p) d) r.
Proof.
  induction p as [|k j IH]; intros [|x d'] r H; cbn [length] in H; try lia.
  - cbn. lia.
  - cbn. lia.
  - cbn [app offs length skipn]. rewrite IH by lia. lia.
Qed.

Lemma valid_app_split p : forall d r, valid d (p ++ r) ->
  validp d p /\ valid (skipn (length p) d) r.
Proof.
  induction p as [|k j IH]; intros d r H.
  - cbn. split; [destruct d; exact I | exact H].
  - destruct d as [|x d']; cbn [app valid] in H; [tauto|].
    destruct H as [Hk Hr]. destruct (IH d' r Hr) as [H1 H2].
    cbn [validp length skipn]. tauto.
Qed.

Lemma validp_length p : forall d, validp d p -> (length p <= length d)%nat.
Proof.
  induction p as [|k j IH]; intros [|x r] H; cbn in *; try lia; try tauto.
  specialize (IH r (proj2 H)). lia.
Qed.

Lemma valid_app_join p : forall d r, validp d p -> valid (skipn (length p) d) r -> valid d (p ++ r).
Proof.
  induction p as [|k j IH]; intros d r Hp Hr.
  - exact Hr.
  - destruct d as [|x d']; cbn [validp] in Hp; [tauto|].
    cbn [app valid]. split; [tauto|]. apply IH; [tauto | exact Hr].
Qed.

Lemma size_skipn_firstn n (d : dims) : size d = size (firstn n d) * size (skipn n d).
Proof. rewrite <- size_app, firstn_skipn. reflexivity. Qed.

(* ---- slices --------------------------------------------------------------------------------- *)
Lemma slice_offs x r b e k j :
  0 <= b -> b <= e -> e <= x -> valid (e - b :: r) (k :: j) ->
  valid (x :: r) (b + k :: j) /\
  offs (x :: r) [b] + offs (e - b :: r) (k :: j) = offs (x :: r) (b + k :: j).
Proof.
  intros Hb Hbe He [Hk Hj]. split.
  - cbn [valid]. split; [lia | exact Hj].
  - cbn [offs]. destruct r; cbn [offs]; lia.
Qed.

(* ---- reshape -------------------------------------------------------------------------------- *)
(* with exactly one -1 and otherwise non-negative dims whose product P > 0 divides the size, the loop
   yields the target with the -1 replaced by size/P and the total size is preserved *)
Lemma reshape_loop_no_infer total : forall todo done,
  Forall (fun x => x <> -1) todo -> reshape_loop total done todo = done ++ todo.
Proof.
  induction todo as [|x r IH]; intros done H; cbn [reshape_loop].
  - rewrite app_nil_r. reflexivity.
  - inversion H as [|? ? Hx Hr]; subst.
    destruct (Z.eqb_spec x (-1)) as [E|E]; [contradiction|].
    rewrite IH by exact Hr. rewrite <- app_assoc. reflexivity.
Qed.

Lemma reshape_loop_one total : forall pre done post,
  Forall (fun x => x <> -1) pre -> Forall (fun x => x <> -1) post ->
  reshape_loop total done (pre ++ (-1) :: post) =
  done ++ pre ++ src_reshape_infer total (size (done ++ pre ++ (-1) :: post)) :: post.
Proof.
  induction pre as [|x r IH]; intros done post Hpre Hpost.
  - cbn [app reshape_loop]. rewrite Z.eqb_refl.
    rewrite reshape_loop_no_infer by exact Hpost. rewrite <- app_assoc. reflexivity.
  - inversion Hpre as [|? ? Hx Hr]; subst. cbn [app reshape_loop].
    destruct (Z.eqb_spec x (-1)) as [E|E]; [contradiction|].
    rewrite IH by assumption. rewrite <- !app_assoc. reflexivity.
Qed.

Lemma reshape_infer_value total P : 0 < P -> 0 <= total -> src_reshape_infer total (- P) = total / P.
Proof.
  intros HP Ht. unfold src_reshape_infer.
  rewrite Z.quot_opp_l, Z.quot_opp_r by lia. rewrite Z.opp_involutive.
  apply Z.quot_div_nonneg; lia.
Qed.

Theorem reshape_one_infer d pre post :
  Forall (fun x => x <> -1) pre -> Forall (fun x => x <> -1) post ->
  0 < size pre * size post -> 0 <= size d -> (size pre * size post | size d) ->
  reshape d (pre ++ (-1) :: post) = pre ++ size d / (size pre * size post) :: post /\
  size (reshape d (pre ++ (-1) :: post)) = size d.
Proof.
  intros Hpre Hpost HP Hd [q Hq]. unfold reshape.
  rewrite reshape_loop_one by assumption. cbn [app].
  rewrite size_app, size_cons.
  replace (size pre * (-1 * size post)) with (- (size pre * size post)) by lia.
  rewrite reshape_infer_value by lia.
  split; [reflexivity|].
  rewrite size_app, size_cons, Hq, Z.div_mul by lia. lia.
Qed.

Theorem reshape_no_infer d target :
  Forall (fun x => x <> -1) target -> reshape d target = target.
Proof. intros H. unfold reshape. rewrite reshape_loop_no_infer by exact H. reflexivity. Qed.

(* ---- gather --------------------------------------------------------------------------------- *)
Lemma segment_length {A} (b n : Z) (l : list A) :
  0 <= b -> 0 <= n -> b + n <= Z.of_nat (length l) -> length (segment b n l) = Z.to_nat n.
Proof.
  intros Hb Hn H. unfold segment. rewrite firstn_length, skipn_length. lia.
Qed.

Lemma nth_segment {A} (b n k : Z) (l : list A) (dflt : A) :
  0 <= b -> 0 <= k < n -> b + n <= Z.of_nat (length l) ->
  nth (Z.to_nat k) (segment b n l) dflt = nth (Z.to_nat (b + k)) l dflt.
Proof.
  intros Hb Hk H. unfold segment.
  rewrite nth_firstn_lt by lia. rewrite nth_skipn_add. f_equal. lia.
Qed.

Lemma nth_flat_map_uniform {A B} (f : A -> list B) (row : nat) (dflt : B) (da : A) :
  forall (l : list A) (i o : nat),
  (forall x, In x l -> length (f x) = row) -> (i < length l)%nat -> (o < row)%nat ->
  nth (i * row + o) (flat_map f l) dflt = nth o (f (nth i l da)) dflt.
Proof.
  induction l as [|x l IH]; intros i o Hlen Hi Ho; cbn [length] in Hi; [lia|].
  cbn [flat_map]. destruct i as [|i].
  - cbn [Nat.mul Nat.add nth]. rewrite app_nth1; [reflexivity|]. rewrite Hlen by (left; reflexivity). exact Ho.
  - rewrite app_nth2; rewrite Hlen by (left; reflexivity); [|lia].
    replace (S i * row + o - row)%nat with (i * row + o)%nat by lia.
    cbn [nth]. apply IH; [intros y Hy; apply Hlen; right; exact Hy | lia | exact Ho].
Qed.

Theorem gather_spec {A} (n : Z) (r : dims) (flat : list A) (idx : list Z) (i : Z) (rest : list Z) (dflt : A) :
  Z.of_nat (length flat) = size (n :: r) ->
  Forall (fun k => 0 <= k < n) idx ->
  0 <= i < Z.of_nat (length idx) ->
  valid r rest ->
  nth (Z.to_nat (offs (Z.of_nat (length idx) :: r) (i :: rest))) (gather (n :: r) flat idx) dflt =
  nth (Z.to_nat (offs (n :: r) (nth (Z.to_nat i) idx 0 :: rest))) flat dflt.
Proof.
  intros Hflat Hidx Hi Hrest. unfold gather. cbn [tl offs].
  pose proof (offs_range r rest Hrest) as Ho. rewrite size_cons in Hflat.
  assert (Hk : 0 <= nth (Z.to_nat i) idx 0 < n).
  { rewrite Forall_forall in Hidx. apply Hidx. apply nth_In. lia. }
  replace (Z.to_nat (i * size r + offs r rest)) with (Z.to_nat i * Z.to_nat (size r) + Z.to_nat (offs r rest))%nat by nia.
  rewrite nth_flat_map_uniform with (row := Z.to_nat (size r)) (da := 0); try lia.
  - rewrite nth_segment; try nia. f_equal.
  - intros x Hx. rewrite Forall_forall in Hidx. specialize (Hidx x Hx).
    apply segment_length; nia.
Qed.
