(* C17 -- liveness-flavoured theorems of the thread-pool protocol model.

   deadlock_free (C17_Proofs) says that a non-final reachable state has SOME step; step_measure (C17_Termination)
   says that every non-spurious step decreases `measure`.  Here the two are joined:
     L1  a non-final reachable state has a NON-SPURIOUS step;
     L2  from every reachable state a final state can be reached within `measure p` steps;
     L3  under ANY scheduler a spurious-free execution can only stop in a final state (no fairness needed);
     L4  with k spurious wake-ups an execution has at most `measure p + 2k` steps;
     L5  what the final state is: all calls returned, the number of returned map() calls is the number of CMap
         calls of the program, and if some program destroys the pool then stop is set and all workers exited. *)
From Coq Require Import List Arith Bool Lia ZArith.
From LN Require Import C17_Defs C17_Proofs C17_Statements C17_Termination.
Import ListNotations.

(* ---- L1: progress by a non-spurious event ---------------------------------------------------------- *)
Definition nsp (p : pool) : Prop := exists e q, step p e = Some q /\ spurious e = false.

Lemma nsp_awake p w : w < nw p -> awake (workers p w) -> nsp p.
Proof.
  intros Hw [Ha|[t Ha]].
  - destruct (can_check p w Hw Ha) as [q Hq]. exists (ECheck w), q. split; [exact Hq | reflexivity].
  - destruct (can_finish p w t Hw Ha) as [q Hq]. exists (EFinish w), q. split; [exact Hq | reflexivity].
Qed.

Lemma nsp_notify_one p s : s < ns p -> stg (subs p s) = SNotifyOne -> nsp p.
Proof.
  intros Hs Hst. unfold nsp. destruct (any_sleeping p) eqn:Ea.
  - unfold any_sleeping in Ea. apply existsb_exists in Ea. destruct Ea as [w [Hin Hsl]]. apply in_seq in Hin.
    exists (ENotify s (Some w)). unfold step. rewrite (guard_ok _ _ Hs), Hst.
    assert (Hlt : (w <? nw p) = true) by (apply Nat.ltb_lt; lia). rewrite Hlt, Hsl. eexists; split; reflexivity.
  - exists (ENotify s None). unfold step. rewrite (guard_ok _ _ Hs), Hst, Ea. eexists; split; reflexivity.
Qed.

Lemma nsp_notify_all p s ts r : s < ns p -> stg (subs p s) = SNotifyAll ts r -> nsp p.
Proof.
  intros Hs Hst. exists (ENotify s None). unfold step. rewrite (guard_ok _ _ Hs), Hst. eexists; split; reflexivity.
Qed.

Lemma nsp_notify_stop p s : s < ns p -> stg (subs p s) = SNotifyStop -> nsp p.
Proof.
  intros Hs Hst. exists (ENotifyStop s). unfold step. rewrite (guard_ok _ _ Hs), Hst. eexists; split; reflexivity.
Qed.

Lemma nsp_pending p s : s < ns p -> notify_pending (stg (subs p s)) -> nsp p.
Proof.
  intros Hs [H|[[ts [r H]]|H]].
  - eapply nsp_notify_one; eauto.
  - eapply nsp_notify_all; eauto.
  - eapply nsp_notify_stop; eauto.
Qed.

Lemma nsp_task p t : Inv p -> pushed p t -> complete p t = false -> nsp p.
Proof.
  intros [IB IW IT IS] Hp Hc. unfold complete in Hc. apply orb_false_iff in Hc. destruct Hc as [Hf Hd].
  destruct Hp as [Hq|[Hr|Hdr]].
  - assert (Hne : queue p <> []) by (intros E; rewrite E in Hq; contradiction).
    destruct (IW Hne) as [[w [Hw Ha]]|[s [Hs Hpn]]].
    + eapply nsp_awake; eauto.
    + eapply nsp_pending; eauto.
  - apply in_map_iff in Hr. destruct Hr as [[t' w] [Ht Hin]]. cbn in Ht. subst t'.
    destruct (t_ran p IT t w Hin) as [Hw [Hfin|Hrun]].
    + apply mem_spec in Hfin. congruence.
    + eapply nsp_awake; [exact Hw | right; eauto].
  - apply mem_spec in Hdr. congruence.
Qed.

Lemma nsp_sub p s : Inv p -> s < ns p -> sub_done (subs p s) = false -> ~ wants_destroy (subs p s) -> nsp p.
Proof.
  intros Hinv Hs Hnd Hwd. pose proof Hinv as [IB IW IT IS].
  destruct (IS s Hs) as [Hst _]. unfold stage_ok in Hst. unfold sub_done in Hnd.
  destruct (stg (subs p s)) eqn:Eg.
  - (* SReady *)
    destruct (todo (subs p s)) as [|c l] eqn:Et; [discriminate|]. destruct c as [t|ts r|].
    + exists (EPush s). unfold step. rewrite (guard_ok _ _ Hs), Eg, Et. eexists; split; reflexivity.
    + exists (EPush s). unfold step. rewrite (guard_ok _ _ Hs), Eg, Et.
      destruct (map_inline p ts); eexists; split; reflexivity.
    + exfalso. apply Hwd. split; [exact Eg | eauto].
  - eapply nsp_notify_one; eauto.
  - eapply nsp_notify_all; eauto.
  - (* SGet *)
    destruct rem as [|t rem].
    + exists (EGet s). unfold step. rewrite (guard_ok _ _ Hs), Eg. eexists; split; reflexivity.
    + destruct (complete p t) eqn:Ec.
      * exists (EGet s). unfold step. rewrite (guard_ok _ _ Hs), Eg, Ec.
        destruct (raise && fails p t); eexists; split; reflexivity.
      * destruct Hst as [Hpu [pre [Hall _]]]. apply (nsp_task p t Hinv); [|exact Ec].
        rewrite Forall_forall in Hpu. apply Hpu. rewrite Hall. apply in_or_app. right. left. reflexivity.
  - (* SWait *)
    destruct rem as [|t rem].
    + exists (EWait s). unfold step. rewrite (guard_ok _ _ Hs), Eg. eexists; split; reflexivity.
    + destruct (complete p t) eqn:Ec.
      * exists (EWait s). unfold step. rewrite (guard_ok _ _ Hs), Eg, Ec. eexists; split; reflexivity.
      * destruct Hst as [Hpu [[pre [Hall _]] _]]. apply (nsp_task p t Hinv); [|exact Ec].
        rewrite Forall_forall in Hpu. apply Hpu. rewrite Hall. apply in_or_app. right. left. reflexivity.
  - eapply nsp_notify_stop; eauto.
  - (* SJoin *)
    destruct (all_exited p) eqn:Ea.
    + exists (EJoin s). unfold step. rewrite (guard_ok _ _ Hs), Eg, Ea. eexists; split; reflexivity.
    + unfold all_exited in Ea. apply forallb_false_witness in Ea. destruct Ea as [w [Hin Hx]]. apply in_seq in Hin.
      assert (Hw : w < nw p) by lia.
      destruct (wstate_cases (workers p w)) as [Ha|[Hsl|Hex]].
      * eapply nsp_awake; eauto.
      * assert (Hstop : stop p = true) by (apply (b_stage p IB s); right; exact Eg).
        destruct (b_sleep p IB Hstop) as [s' [Hs' Hg']]; [exists w; auto|]. eapply nsp_notify_stop; eauto.
      * rewrite Hex in Hx. discriminate.
Qed.

(* L1 *)
Theorem progress_nonspurious : forall n thr progs, wf_config n progs = true ->
  forall p, reachable n thr progs p -> final p = false ->
  exists e q, step p e = Some q /\ spurious e = false.
Proof.
  intros n thr progs Hwf p Hr Hnf. change (nsp p).
  pose proof (reachable_inv n thr progs p Hwf Hr) as Hinv.
  pose proof (reachable_invD n thr progs p Hwf Hr) as ID. pose proof (i_b p Hinv) as IB.
  unfold final in Hnf. apply forallb_false_witness in Hnf. destruct Hnf as [s [Hin Hnd]]. apply in_seq in Hin.
  assert (Hs : s < ns p) by lia.
  destruct (stg (subs p s)) eqn:Eg;
    try (apply (nsp_sub p s Hinv Hs Hnd); intros [Hg _]; congruence).
  destruct (todo (subs p s)) as [|c l] eqn:Et; [unfold sub_done in Hnd; rewrite Eg, Et in Hnd; discriminate|].
  destruct c as [t|ts r|];
    try (apply (nsp_sub p s Hinv Hs Hnd); intros [_ [l' Hl']]; congruence).
  (* this thread is about to destroy the pool *)
  assert (Hrun : stop p = false).
  { eapply not_quiet_running; [exact IB | exact Hs | intros [Ht _]; congruence]. }
  destruct (others_done p s) eqn:Eo.
  - exists (EStop s). unfold step. rewrite (guard_ok _ _ Hs), Eg, Et, Eo, Hrun. eexists; split; reflexivity.
  - unfold others_done in Eo. apply forallb_false_witness in Eo. destruct Eo as [s' [Hin' Hx]].
    apply in_seq in Hin'. apply orb_false_iff in Hx. destruct Hx as [Hne Hnd'].
    apply Nat.eqb_neq in Hne. assert (Hs' : s' < ns p) by lia.
    apply (nsp_sub p s' Hinv Hs' Hnd'). intros [_ [l' Hl']].
    apply Hne. apply (ID s' s Hs' Hs); [rewrite Hl' | rewrite Et]; reflexivity.
Qed.

(* ---- L2: a final state is reachable within `measure p` steps ---------------------------------------- *)
Lemma reachable_run n thr progs p es q :
  reachable n thr progs p -> run p es = Some q -> reachable n thr progs q.
Proof.
  intros [es0 Hr] Hs. exists (es0 ++ es). rewrite run_app, Hr. exact Hs.
Qed.

Theorem terminal_reachable : forall n thr progs, wf_config n progs = true ->
  forall p, reachable n thr progs p ->
  exists es q, run p es = Some q /\ no_spurious es = true /\ length es <= measure p /\ final q = true.
Proof.
  intros n thr progs Hwf p. remember (measure p) as m eqn:Hm. revert p Hm.
  induction m as [m IH] using lt_wf_ind. intros p Hm Hr. subst m.
  destruct (final p) eqn:Ef.
  - exists [], p. cbn [run no_spurious length]. split; [reflexivity|]. split; [reflexivity|]. split; [lia | exact Ef].
  - destruct (progress_nonspurious n thr progs Hwf p Hr Ef) as [e [q [Hs Hsp]]].
    pose proof (step_measure p e q Hs Hsp) as Hlt.
    destruct (IH (measure q) Hlt q eq_refl (reachable_step n thr progs p e q Hr Hs)) as [es [q' [Hrun [Hns [Hlen Hf]]]]].
    exists (e :: es), q'. cbn [run no_spurious length]. rewrite Hs, Hsp. cbn [negb andb].
    split; [exact Hrun|]. split; [exact Hns|]. split; [lia | exact Hf].
Qed.

(* ---- L3: under any scheduler a spurious-free execution can only stop in a final state ----------------- *)
Theorem maximal_runs_end_final : forall n thr progs, wf_config n progs = true ->
  forall p es q, reachable n thr progs p -> run p es = Some q -> no_spurious es = true ->
  final q = true \/ exists e q', step q e = Some q' /\ spurious e = false /\ measure q' < measure q.
Proof.
  intros n thr progs Hwf p es q Hr Hrun _.
  destruct (final q) eqn:Ef; [left; reflexivity | right].
  pose proof (reachable_run n thr progs p es q Hr Hrun) as Hq.
  destruct (progress_nonspurious n thr progs Hwf q Hq Ef) as [e [q' [Hs Hsp]]].
  exists e, q'. split; [exact Hs|]. split; [exact Hsp|]. exact (step_measure q e q' Hs Hsp).
Qed.

(* ... and such an execution has at most `measure p` steps (bounded_executions), so every maximal spurious-free
   execution is finite and ends in a final state *)
Corollary spurious_free_runs_finite_and_end_final : forall n thr progs, wf_config n progs = true ->
  forall p es q, reachable n thr progs p -> run p es = Some q -> no_spurious es = true ->
  length es <= measure p /\
  ((forall e q', spurious e = false -> step q e <> Some q') -> final q = true).
Proof.
  intros n thr progs Hwf p es q Hr Hrun Hns. split.
  - pose proof (bounded_executions es p q Hrun Hns). lia.
  - intros Hstuck. destruct (maximal_runs_end_final n thr progs Hwf p es q Hr Hrun Hns) as [Hf|[e [q' [Hs [Hsp _]]]]].
    + exact Hf.
    + exfalso. exact (Hstuck e q' Hsp Hs).
Qed.

(* ---- L4: the bound with spurious wake-ups -------------------------------------------------------------- *)
Fixpoint count_spurious (es : list event) : nat :=
  match es with [] => 0 | e :: r => (if spurious e then 1 else 0) + count_spurious r end.

Lemma step_measure_spurious p w q : step p (ESpurious w) = Some q -> measure q = measure p + 1.
Proof.
  intros H. inv_step H; unfold measure; simp_fields;
    try match goal with E : negb (?s <? _) = false |- _ => apply ltb_guard in E end;
    set (k := nw p + 1) in *.
  prep p k. lia.
Qed.

Theorem bounded_with_spurious : forall es p q,
  run p es = Some q -> length es + measure q <= measure p + 2 * count_spurious es.
Proof.
  induction es as [|e es IH]; intros p q Hr; cbn [run] in Hr.
  - injection Hr as <-. cbn. lia.
  - destruct (step p e) as [m|] eqn:Es; [|discriminate]. specialize (IH m q Hr).
    cbn [length count_spurious]. destruct (spurious e) eqn:Hsp.
    + destruct e; try discriminate Hsp. pose proof (step_measure_spurious p w m Es). lia.
    + pose proof (step_measure p e m Es Hsp). lia.
Qed.

Lemma count_spurious_zero es : no_spurious es = true -> count_spurious es = 0.
Proof.
  induction es as [|e es IH]; cbn [no_spurious count_spurious]; [reflexivity|].
  intros H. apply andb_true_iff in H. destruct H as [H1 H2]. apply negb_true_iff in H1. rewrite H1, (IH H2). reflexivity.
Qed.

(* every execution with at most k spurious wake-ups has at most measure p + 2k steps *)
Corollary bounded_with_k_spurious : forall es p q k,
  run p es = Some q -> count_spurious es <= k -> length es <= measure p + 2 * k.
Proof. intros es p q k Hr Hk. pose proof (bounded_with_spurious es p q Hr). lia. Qed.

(* ---- L5: the terminal state ---------------------------------------------------------------------------- *)
Lemma reachable_const n thr progs p : reachable n thr progs p -> nw p = n /\ ns p = length progs /\ throws p = thr.
Proof.
  revert p. apply reachable_ind_step.
  - unfold init; simp_fields. auto.
  - intros p0 e q _ [H1 [H2 H3]] Hs. destruct (step_const p0 e q Hs) as [E1 [E2 E3]]. rewrite E1, E2, E3. auto.
Qed.

(* (a) *)
Lemma final_all_returned q : final q = true -> forall s, s < ns q -> stg (subs q s) = SReady /\ todo (subs q s) = [].
Proof.
  intros Hf s Hs. unfold final in Hf. rewrite forallb_forall in Hf. specialize (Hf s ltac:(apply in_seq; lia)).
  unfold sub_done in Hf. destruct (stg (subs q s)); try discriminate. destruct (todo (subs q s)); try discriminate. auto.
Qed.

(* (b) the number of returned map calls *)
Fixpoint count_maps (pr : list call) : nat :=
  match pr with [] => 0 | CMap _ _ :: r => S (count_maps r) | _ :: r => count_maps r end.

Definition in_map (st : stage) : nat :=
  match st with SNotifyAll _ _ | SGet _ _ _ | SWait _ _ _ _ => 1 | _ => 0 end.

Definition InvR (progs : list (list call)) (p : pool) : Prop :=
  forall s, s < ns p ->
  length (results (subs p s)) + count_maps (todo (subs p s)) + in_map (stg (subs p s)) = count_maps (nth s progs []).

Lemma invR_init n thr progs : InvR progs (init n thr progs).
Proof. intros s _. unfold init; simp_fields. cbn. lia. Qed.

Lemma invR_step progs p e q : InvR progs p -> step p e = Some q -> InvR progs q.
Proof.
  intros IR H s' Hs'. destruct (step_const p e q H) as [_ [Hns _]]. rewrite Hns in Hs'.
  pose proof (IR s' Hs') as IR'.
  destruct e; inv_step H; simp_fields; try exact IR';
    match goal with |- context [upd _ ?s _ s'] => upd_cases s' s; simp_fields; [|exact IR'] end;
    repeat match goal with E : stg (subs p _) = _ |- _ => rewrite E in IR'; clear E end;
    repeat match goal with E : todo (subs p _) = _ |- _ => rewrite E in IR'; clear E end;
    cbn [count_maps in_map] in *; rewrite ?app_length; cbn [length]; lia.
Qed.

Lemma reachable_invR n thr progs p : reachable n thr progs p -> InvR progs p.
Proof.
  revert p. apply reachable_ind_step; [apply invR_init|]. intros p0 e q _ IR Hs. eapply invR_step; eauto.
Qed.

Lemma final_results_count n thr progs q : reachable n thr progs q -> final q = true ->
  forall s, s < ns q -> length (results (subs q s)) = count_maps (nth s progs []).
Proof.
  intros Hr Hf s Hs. pose proof (reachable_invR n thr progs q Hr s Hs) as H.
  destruct (final_all_returned q Hf s Hs) as [Hg Ht]. rewrite Hg, Ht in H. cbn in H. lia.
Qed.

(* (c) a destructor in the configuration => stop is set in the final state => all workers exited *)
Definition has_destroy (progs : list (list call)) : bool := existsb (fun pr => negb (no_destroy pr)) progs.

Definition InvK (progs : list (list call)) (p : pool) : Prop :=
  stop p = true \/ forall s, s < ns p -> no_destroy (todo (subs p s)) = no_destroy (nth s progs []).

Lemma invK_init n thr progs : InvK progs (init n thr progs).
Proof. right. intros s _. unfold init; simp_fields. reflexivity. Qed.

Lemma stop_mono p e q : step p e = Some q -> stop p = true -> stop q = true.
Proof. intros H Hst. destruct e; inv_step H; simp_fields; auto; congruence. Qed.

Lemma invK_step progs p e q : InvK progs p -> step p e = Some q -> InvK progs q.
Proof.
  intros [Hst|Hk] H; [left; exact (stop_mono p e q H Hst)|].
  destruct (step_const p e q H) as [_ [Hns _]].
  destruct e; try (left; inv_step H; reflexivity).
  all: right; intros s' Hs'; rewrite Hns in Hs'; specialize (Hk s' Hs').
  all: inv_step H; simp_fields; try exact Hk.
  all: match goal with |- context [upd _ ?s _ ?j] => upd_cases j s; simp_fields; [|exact Hk] end.
  all: try exact Hk.
  all: match goal with E : todo (subs _ _) = _ |- _ => rewrite E in Hk end; exact Hk.
Qed.

Lemma reachable_invK n thr progs p : reachable n thr progs p -> InvK progs p.
Proof.
  revert p. apply reachable_ind_step; [apply invK_init|]. intros p0 e q _ IK Hs. eapply invK_step; eauto.
Qed.

Lemma has_destroy_witness progs : has_destroy progs = true ->
  exists s, s < length progs /\ no_destroy (nth s progs []) = false.
Proof.
  unfold has_destroy. intros H. apply existsb_exists in H. destruct H as [pr [Hin Hd]].
  apply negb_true_iff in Hd. destruct (In_nth progs pr [] Hin) as [s [Hs Hn]].
  exists s. split; [exact Hs | rewrite Hn; exact Hd].
Qed.

Lemma final_stop n thr progs q : reachable n thr progs q -> final q = true -> has_destroy progs = true -> stop q = true.
Proof.
  intros Hr Hf Hd. destruct (reachable_invK n thr progs q Hr) as [Hst|Hk]; [exact Hst | exfalso].
  destruct (has_destroy_witness progs Hd) as [s [Hs Hn]].
  destruct (reachable_const n thr progs q Hr) as [_ [Hns _]]. rewrite <- Hns in Hs.
  specialize (Hk s Hs). destruct (final_all_returned q Hf s Hs) as [_ Ht]. rewrite Ht, Hn in Hk. discriminate Hk.
Qed.

Theorem final_workers_exited : forall n thr progs, wf_config n progs = true ->
  forall q, reachable n thr progs q -> final q = true -> has_destroy progs = true ->
  stop q = true /\ forall w, w < nw q -> workers q w = WExited.
Proof.
  intros n thr progs Hwf q Hr Hf Hd. pose proof (final_stop n thr progs q Hr Hf Hd) as Hst.
  split; [exact Hst|]. exact (s_shutdown n thr progs Hwf q Hr Hst Hf).
Qed.

(* ---- the combined theorem ------------------------------------------------------------------------------- *)
Theorem terminates_cleanly : forall n thr progs, wf_config n progs = true ->
  forall p, reachable n thr progs p ->
  exists es q, run p es = Some q /\ no_spurious es = true /\ length es <= measure p /\ final q = true /\
    (forall s, s < ns q -> stg (subs q s) = SReady /\ todo (subs q s) = [] /\
                          length (results (subs q s)) = count_maps (nth s progs [])) /\
    (has_destroy progs = true -> stop q = true /\ forall w, w < nw q -> workers q w = WExited).
Proof.
  intros n thr progs Hwf p Hr.
  destruct (terminal_reachable n thr progs Hwf p Hr) as [es [q [Hrun [Hns [Hlen Hf]]]]].
  pose proof (reachable_run n thr progs p es q Hr Hrun) as Hq.
  exists es, q. split; [exact Hrun|]. split; [exact Hns|]. split; [exact Hlen|]. split; [exact Hf|]. split.
  - intros s Hs. destruct (final_all_returned q Hf s Hs) as [Hg Ht]. split; [exact Hg|]. split; [exact Ht|].
    exact (final_results_count n thr progs q Hq Hf s Hs).
  - intros Hd. exact (final_workers_exited n thr progs Hwf q Hq Hf Hd).
Qed.

(* ---- non-vacuity ------------------------------------------------------------------------------------------ *)
Definition live_progs : list (list call) := [[CMap [1;2;3] true; CEnqueue 4]; [CDestroy]].

Example live_nonvacuous :
  wf_config 2 live_progs = true /\ has_destroy live_progs = true /\
  measure (init 2 (fun _ => false) live_progs) = 77 /\
  count_maps (nth 0 live_progs []) = 1 /\
  reachable 2 (fun _ => false) live_progs (init 2 (fun _ => false) live_progs).
Proof.
  split; [vm_compute; reflexivity|]. split; [vm_compute; reflexivity|]. split; [vm_compute; reflexivity|].
  split; [reflexivity|]. exists []. reflexivity.
Qed.

(* the combined theorem from the initial configuration *)
Corollary init_terminates_cleanly : forall n thr progs, wf_config n progs = true ->
  exists es q, run (init n thr progs) es = Some q /\ no_spurious es = true /\
    length es <= measure (init n thr progs) /\ final q = true /\
    (forall s, s < ns q -> stg (subs q s) = SReady /\ todo (subs q s) = [] /\
                          length (results (subs q s)) = count_maps (nth s progs [])) /\
    (has_destroy progs = true -> stop q = true /\ forall w, w < nw q -> workers q w = WExited).
Proof.
  intros n thr progs Hwf. apply (terminates_cleanly n thr progs Hwf). exists []. reflexivity.
Qed.

(* instantiated: the example configuration reaches, within 77 steps, a state where the map() call of thread 0
   has returned, the pool is stopped and both workers have exited *)
Example live_example_terminates :
  exists es q, run (init 2 (fun _ => false) live_progs) es = Some q /\ length es <= 77 /\ final q = true /\
    length (results (subs q 0)) = 1 /\ stop q = true /\ workers q 0 = WExited /\ workers q 1 = WExited.
Proof.
  destruct (init_terminates_cleanly 2 (fun _ => false) live_progs ltac:(vm_compute; reflexivity))
    as [es [q [Hrun [_ [Hlen [Hf [Hsub Hd]]]]]]].
  assert (Hr : reachable 2 (fun _ => false) live_progs q) by (exists es; exact Hrun).
  destruct (reachable_const _ _ _ _ Hr) as [Hnw [Hns _]]. cbn [live_progs length] in Hns.
  destruct (Hd ltac:(vm_compute; reflexivity)) as [Hst Hw].
  exists es, q. split; [exact Hrun|]. split; [exact Hlen|]. split; [exact Hf|].
  split; [exact (proj2 (proj2 (Hsub 0 ltac:(lia))))|]. split; [exact Hst|].
  split; apply Hw; lia.
Qed.
