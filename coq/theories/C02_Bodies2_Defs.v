(* C02 (extension 3) -- the remaining non-line-search solver bodies inside the model, as whole runs:

     src/solver/ellipsoid.cpp   ellipsoid method (deep cut; bisection in 1-D)
     src/solver/osga.cpp        optimal sub-gradient algorithm
     src/solver/universal.cpp   pgm / dgm / fgm (universal primal / dual / fast gradient methods)
     src/solver/asga.cpp        asga2 / asga4 (accelerated sub-gradient algorithms)

   One skeleton again ([b2_run]), generalising b_run of C02_Bodies_Defs.v: a pass of the budget loop is a PROGRAM ([prog]: a tree
   of evaluation requests, `vgrad(x, g)` or value-only `vgrad(x)`) that ends with what is handed to update_if_better (the
   3-argument or the 2-argument overload, or nothing), the two flags for solver_t::done as functions of the best state after
   that update, and the auxiliaries the next pass reads:

       state = solver_state_t{function, x0};
       [asga]  if (state.gradient_test() < DBL_EPSILON) return state;
       while (fcalls + gcalls < max_evals) {
           [ellipsoid]  if (gHg < DBL_EPSILON)          { done(state, true, true); break; }
           [osga]       if (|state.gx()|_inf < epsilon0) { if (done(state, state.valid(), true)) break; }
           <evaluations, inner backtracking loop with its own cap>
           state.update_if_better(..);  iter_ok = ..;  converged = ..;
           if (done(state, iter_ok, converged)) break;
           <end-of-pass updates>
       }
       return state;

   Scalar code and element-wise vector code are binary64 (PrimFloat, bit-exact).  Oracles (arbitrary functions; every theorem
   quantifies over all of them; the replaying driver answers from the recording / with the library's summation order):
     o2_eval k x        the k-th evaluation of the objective, at the point x
     o2_dot a b         a.dot(b) / squaredNorm -- Eigen reductions
     o2_norm2 v         v.lpNorm<2>()
     o2_exp v           std::exp(v)  -- libm
     o2_gHg k g H       gv.dot(Hm * gv) of pass k of the ellipsoid method (n-D; recorded by the hook ev_ellipsoid_update)
     o2_ell k ..        the updated centre and shape matrix of pass k (n-D; recorded by the same hook)
   The 1-D branch of the ellipsoid method is computed (scalar code).  The n-D update is NOT restated here: the reference for
   it is C03's model (C03_Defs.en_step, imported), instantiated at the binary64 operations ([ell_ref_step]); the driver
   cross-checks every recorded update against it.   No proofs in this file. *)
From Coq Require Import ZArith List Bool Floats.
From LNGen Require Import Src_c02 Src_c02c.
From LN Require Import C02_Defs C02_Bodies_Defs.
From LN Require C01Q_Defs C03_Defs.
Import ListNotations.
Local Open Scope Z_scope.

Local Infix "+." := PrimFloat.add (at level 50, left associativity).
Local Infix "-." := PrimFloat.sub (at level 50, left associativity).
Local Infix "*." := PrimFloat.mul (at level 40, left associativity).
Local Infix "/." := PrimFloat.div (at level 40, left associativity).
Local Infix "<." := PrimFloat.ltb (at level 70, no associativity).
Local Infix "<=." := PrimFloat.leb (at level 70, no associativity).

Definition f_half : float := 0.5%float.
Definition f_four : float := 4%float.
Definition f_one : float := PrimFloat.one.
Definition f_zero : float := PrimFloat.zero.
Definition fmin (a b : float) : float := if b <. a then b else a.      (* std::min(a, b) = (b < a) ? b : a *)

(* ------------------------------------------------------------------------------------------------------------- *)
(* programs: what one pass of the loop asks from the objective                                                   *)
(* ------------------------------------------------------------------------------------------------------------- *)
Inductive prog (A : Type) : Type :=
| PRet (a : A)
| PEval (x : bpoint) (withg : bool) (k : float -> bpoint -> prog A).    (* f = function.vgrad(x[, g]) *)
Arguments PRet {A}. Arguments PEval {A}.

Fixpoint p_bind {A B : Type} (p : prog A) (k : A -> prog B) : prog B :=
  match p with
  | PRet a => k a
  | PEval x wg c => PEval x wg (fun f g => p_bind (c f g) k)
  end.

(* the counters of a run: evaluations requested so far (index of the next oracle call), function.fcalls(), function.gcalls() *)
Record ctr := mkC { c_ne : Z; c_fc : Z; c_gc : Z }.

Fixpoint p_run {A : Type} (ev : Z -> bpoint -> float * bpoint) (p : prog A) (c : ctr) : A * ctr :=
  match p with
  | PRet a => (a, c)
  | PEval x wg k =>
    let '(f, g) := ev (c_ne c) x in
    let '(fc, gc) := eval_counters (c_fc c) (c_gc c) wg in
    p_run ev (k f (if wg then g else [])) (mkC (c_ne c + 1) fc gc)
  end.

(* `for (k = 0; cond(state); ..) body`: [fuel] iterations at most (the callers pass the cap of the loop, which the condition tests
   too: C02_Bodies2.cap_loop_fuel -- more fuel changes nothing) *)
Fixpoint cap_loop {S : Type} (fuel : nat) (cond : S -> bool) (body : S -> prog S) (s : S) : prog S :=
  match fuel with
  | O => PRet s
  | S n => if cond s then p_bind (body s) (cap_loop n cond body) else PRet s
  end.

(* ------------------------------------------------------------------------------------------------------------- *)
(* the skeleton                                                                                                  *)
(* ------------------------------------------------------------------------------------------------------------- *)
Record b2oracles := mkB2O {
  o2_eval : Z -> bpoint -> float * bpoint;
  o2_dot : bpoint -> bpoint -> float;
  o2_norm2 : bpoint -> float;
  o2_exp : float -> float;
  o2_gHg : Z -> bpoint -> bpoint -> float;
  o2_ell : Z -> bpoint -> bpoint -> bpoint -> float -> float -> float -> bpoint * bpoint
}.

Record b2conf := mkB2C {
  c2_eps : float;          (* solver::epsilon *)
  c2_maxev : Z;            (* solver::max_evals *)
  c2_patience : Z;         (* solver::<id>::patience *)
  c2_lsmax : Z;            (* solver::{universal,asga}::lsearch_max_iters *)
  c2_n : Z;                (* function.size() *)
  c2_sc : float;           (* function.strong_convexity() *)
  c2_eps0 : float;         (* epsilon0<scalar_t>() (osga) *)
  c2_p1 : float;           (* ellipsoid: R;  osga: lambda;     universal / asga: L0 *)
  c2_p2 : float;           (*                osga: alpha_max;  asga: gamma1 *)
  c2_p3 : float;           (*                osga: kappa';     asga: gamma2 *)
  c2_p4 : float            (*                osga: kappa *)
}.

(* how a pass ends *)
Record pout (A : Type) := mkPO {
  po_aux : A;                                            (* what the next pass reads *)
  po_cand : option (bpoint * option bpoint * float);     (* update_if_better(x, g, f) | update_if_better(x, f) | not called *)
  po_ok : sstate -> bool;                                (* iter_ok, given the best state after that call *)
  po_conv : sstate -> bool                               (* converged, idem *)
}.
Arguments mkPO {A}. Arguments po_aux {A}. Arguments po_cand {A}. Arguments po_ok {A}. Arguments po_conv {A}.

Record rule2 (A : Type) := mkR2 {
  r2_loop : Z -> Z -> Z -> bool;                   (* the while condition *)
  r2_pre : sstate -> bool;                         (* `return state` before the loop *)
  r2_init : sstate -> A;                           (* the auxiliaries, from the state right after its construction *)
  r2_exit : sstate -> A -> option (bool * bool);   (* the early test of a pass: Some (iter_ok, converged) = call done() *)
  r2_exit_break : bool;                            (* true: `done(..); break;`   false: `if (done(..)) break;` *)
  r2_pass : sstate -> A -> prog (pout A)
}.
Arguments r2_loop {A}. Arguments r2_pre {A}. Arguments r2_init {A}. Arguments r2_exit {A}. Arguments r2_exit_break {A}.
Arguments r2_pass {A}.

(* the run so far; b2_prev .. b2_exit are ghosts *)
Record brun2 (A : Type) := mkB2 {
  b2_s : sstate;           (* `state`: the best state *)
  b2_a : A;
  b2_c : ctr;
  b2_prev : A;             (* the auxiliaries at the beginning of the most recent pass *)
  b2_iters : Z;            (* passes that ran their program *)
  b2_dones : Z;            (* done() calls *)
  b2_ok : bool;            (* iter_ok of the most recent done() call *)
  b2_conv : bool;          (* converged flag of the most recent done() call *)
  b2_exit : Z              (* BX_FUEL 0, BX_BUDGET 1, BX_DONE 2 (done() after the program), BX_ZERO 3 (early test), BX_PRE 4 *)
}.
Arguments mkB2 {A}. Arguments b2_s {A}. Arguments b2_a {A}. Arguments b2_c {A}. Arguments b2_prev {A}. Arguments b2_iters {A}.
Arguments b2_dones {A}. Arguments b2_ok {A}. Arguments b2_conv {A}. Arguments b2_exit {A}.

Definition BX_PRE : Z := 4.

Definition b2_set_exit {A : Type} (r : brun2 A) (e : Z) : brun2 A :=
  mkB2 (b2_s r) (b2_a r) (b2_c r) (b2_prev r) (b2_iters r) (b2_dones r) (b2_ok r) (b2_conv r) e.

(* state.update_if_better(..) as the pass asks for it *)
Definition apply_cand (s : sstate) (c : ctr) (cand : option (bpoint * option bpoint * float)) : sstate :=
  match cand with
  | Some (x, Some g, f) => fst (update_if_better s (c_fc c) (c_gc c) x g f)
  | Some (x, None, f) => fst (update_if_better2 s (c_fc c) (c_gc c) x f)
  | None => s
  end.

Section Run2.
  Variable A : Type.
  Variable orc : b2oracles.
  Variable R : rule2 A.
  Variable cfg : b2conf.

  (* the program of a pass, update_if_better, the flags, done() *)
  Definition b2_body (st : brun2 A) (s : sstate) (dones : Z) : brun2 A * bool :=
    let '(out, c') := p_run (o2_eval orc) (r2_pass R s (b2_a st)) (b2_c st) in
    let s1 := apply_cand s c' (po_cand out) in
    let ok := po_ok out s1 in
    let conv := po_conv out s1 in
    let '(s2, stop) := done_step s1 (c_fc c') (c_gc c') ok conv in
    (mkB2 s2 (po_aux out) c' (b2_a st) (b2_iters st + 1) (dones + 1) ok conv (if stop then BX_DONE else b2_exit st), stop).

  (* one pass through the loop body; returns the run and whether the loop is left *)
  Definition b2_iter (st : brun2 A) : brun2 A * bool :=
    match r2_exit R (b2_s st) (b2_a st) with
    | Some (ok0, cv0) =>
      let '(s', stop) := done_step (b2_s st) (c_fc (b2_c st)) (c_gc (b2_c st)) ok0 cv0 in
      if r2_exit_break R || stop
      then (mkB2 s' (b2_a st) (b2_c st) (b2_a st) (b2_iters st) (b2_dones st + 1) ok0 cv0 BX_ZERO, true)
      else b2_body st s' (b2_dones st + 1)
    | None => b2_body st (b2_s st) (b2_dones st)
    end.

  Fixpoint b2_loop (fuel : nat) (st : brun2 A) : brun2 A :=
    match fuel with
    | O => b2_set_exit st BX_FUEL
    | S k =>
      if r2_loop R (c_fc (b2_c st)) (c_gc (b2_c st)) (c2_maxev cfg) then
        let '(st', stop) := b2_iter st in
        if stop then st' else b2_loop k st'
      else b2_set_exit st BX_BUDGET
    end.

  (* solver_state_t{function, x0} after function.clear_statistics() *)
  Definition b2_state0 (x0 : bpoint) : sstate :=
    let '(f, g) := o2_eval orc 0 x0 in
    let '(fc, gc) := eval_counters 0 0 true in
    mkS x0 f g true ST_MAX_ITERS fc gc [].

  Definition b2_init (x0 : bpoint) : brun2 A :=
    let s := b2_state0 x0 in
    mkB2 s (r2_init R s) (mkC 1 (sfcalls s) (sgcalls s)) (r2_init R s) 0 0 true false BX_BUDGET.

  Definition b2_run (fuel : nat) (x0 : bpoint) : brun2 A :=
    let st := b2_init x0 in
    if r2_pre R (b2_s st) then b2_set_exit st BX_PRE else b2_loop fuel st.

  (* enough fuel for every run: each pass that goes on adds at least 1 to fcalls + gcalls *)
  Definition b2_fuel : nat := S (Z.to_nat (c2_maxev cfg)).
End Run2.
Arguments b2_run {A}. Arguments b2_loop {A}. Arguments b2_iter {A}. Arguments b2_body {A}. Arguments b2_init {A}.

(* ------------------------------------------------------------------------------------------------------------- *)
(* ellipsoid.cpp                                                                                                  *)
(* ------------------------------------------------------------------------------------------------------------- *)
Record eaux := mkEA {
  e_x : bpoint;      (* x: the centre *)
  e_f : float;       (* f: the value at the centre *)
  e_g : bpoint;      (* g: the sub-gradient at the centre *)
  e_H : bpoint;      (* H: the shape matrix, n * n coefficients as stored *)
  e_k : Z            (* ghost: index of the pass (number of updates so far) *)
}.

(* H = identity; H.array() *= (function.size() == 1 ? R : R * R) *)
Definition ell_H0 (n : Z) (R : float) : bpoint :=
  let s := if src_ell_H0_choice n =? 1 then R else R *. R in
  let m := Z.to_nat n in
  flat_map (fun i => map (fun j => (if Nat.eqb i j then f_one else f_zero) *. s) (seq 0 m)) (seq 0 m).

(* 1-D: gHg = g * (H * g);  x += H * (g < 0 ? +1 : -1);  H /= 2 *)
Definition ell1_gHg (a : eaux) : float :=
  match e_g a, e_H a with
  | [g], [h] => g *. (h *. g)
  | _, _ => f_zero
  end.
Definition ell1_step (a : eaux) : bpoint * bpoint :=
  match e_x a, e_g a, e_H a with
  | [x], [g], [h] => ([x +. h *. (if g <. f_zero then f_one else PrimFloat.opp f_one)], [h /. f_two])
  | _, _, _ => (e_x a, e_H a)
  end.

Definition ell_gHg (orc : b2oracles) (cfg : b2conf) (a : eaux) : float :=
  if src_ell_1d (c2_n cfg) then ell1_gHg a else o2_gHg orc (e_k a) (e_g a) (e_H a).

Definition ell_pass (orc : b2oracles) (cfg : b2conf) (s : sstate) (a : eaux) : prog (pout eaux) :=
  let gHg := ell_gHg orc cfg a in
  let '(x', H') := if src_ell_1d (c2_n cfg) then ell1_step a
                   else o2_ell orc (e_k a) (e_x a) (e_g a) (e_H a) (e_f a) (sfx s) gHg in
  PEval x' true (fun f g =>
    PRet (mkPO (mkEA x' f g H' (e_k a + 1)) (Some (x', Some g, f))
               (fun _ => src_ell_iter_ok (ffin f))
               (fun _ => src_ell_conv (PrimFloat.sqrt gHg <. c2_eps cfg)))).

Definition ell_rule (orc : b2oracles) (cfg : b2conf) : rule2 eaux :=
  mkR2 eaux src_loop_ellipsoid (fun _ => false)
       (fun s => mkEA (sx s) (sfx s) (sgx s) (ell_H0 (c2_n cfg) (c2_p1 cfg)) 0)
       (fun _ a => if src_ell_zero_exit (ell_gHg orc cfg a <. f_eps) then Some (src_ell_zero_ok, src_ell_zero_conv) else None)
       true
       (ell_pass orc cfg).

(* the reference of the n-D update: C03's deep-cut step over the binary64 operations (every operation rounded, sums in index
   order -- Eigen's order differs: the recorded update is compared with this within a tolerance by the driver) *)
Definition FlO : C01Q_Defs.fops float :=
  C01Q_Defs.mk_fops float f_zero f_one PrimFloat.add PrimFloat.mul PrimFloat.sub PrimFloat.opp PrimFloat.div
    (fun v => f_one /. v)
    (fun a b => match PrimFloat.compare a b with FLt => -1 | FEq => 0 | FGt => 1 | FNotComparable => 2 end).

Fixpoint rows_of (n : nat) (k : nat) (l : bpoint) : list bpoint :=
  match k with
  | O => []
  | S k' => firstn n l :: rows_of n k' (skipn n l)
  end.

(* (x, H, best value BEFORE the evaluation of x) -> after one oracle answer (f, g, s = sqrt(gHg)) *)
Definition ell_ref_step (n : Z) (x : bpoint) (H : bpoint) (fbest f : float) (g : bpoint) (s : float) : bpoint * list bpoint :=
  let m := Z.to_nat n in
  let nf := C03_Defs.en_nat float FlO m in
  let st := C03_Defs.en_step float FlO nf (C03_Defs.mk_estate x (rows_of m m H) fbest) (C03_Defs.mk_estep f g s) in
  (C03_Defs.ex st, C03_Defs.eH st).

(* ------------------------------------------------------------------------------------------------------------- *)
(* osga.cpp                                                                                                       *)
(* ------------------------------------------------------------------------------------------------------------- *)
Record oaux := mkOA {
  os_h : bpoint; os_gamma : float; os_u : bpoint; os_eta : float; os_alpha : float;
  os_xb : bpoint; os_fb : float
}.

Section Osga.
  Variable orc : b2oracles.
  Variable cfg : b2conf.
  Variable z0 : bpoint.                                           (* proxy_t::m_z0 = x0 *)

  Definition os_miu : float := c2_sc cfg /. f_two.                 (* miu = function.strong_convexity() / 2.0 *)
  Definition os_Q0 : float := f_half *. PrimFloat.sqrt (o2_norm2 orc z0 +. f_eps).
  Definition os_gQ (z : bpoint) : bpoint := map2 PrimFloat.sub z z0.
  Definition os_Q (z : bpoint) : float := os_Q0 +. f_half *. o2_dot orc (os_gQ z) (os_gQ z).
  Definition os_E (gamma : float) (h : bpoint) : float :=
    let beta := gamma +. o2_dot orc h z0 in
    let hh := o2_dot orc h h in
    let sq := PrimFloat.sqrt (beta *. beta +. f_two *. os_Q0 *. hh) in
    if beta <=. f_zero then (PrimFloat.opp beta +. sq) /. (f_two *. os_Q0) else hh /. (beta +. sq).
  Definition os_U (gamma : float) (h : bpoint) : bpoint :=
    let e := os_E gamma h in map2 (fun z hi => z -. hi /. e) z0 h.

  (* xb + alpha * (u - xb) *)
  Definition os_point (alpha : float) (xb u : bpoint) : bpoint := map2 (fun b ui => b +. alpha *. (ui -. b)) xb u.

  Definition os_init (s : sstate) : oaux :=
    let h := map2 (fun gi d => gi -. os_miu *. d) (sgx s) (os_gQ (sx s)) in
    let gamma := sfx s -. os_miu *. os_Q (sx s) -. o2_dot orc h (sx s) in
    mkOA h gamma (os_U (gamma -. sfx s) h) (os_E (gamma -. sfx s) h -. os_miu) (c2_p2 cfg) (sx s) (sfx s).

  (* the parameter update at the end of a pass *)
  Definition os_alpha_next (alpha eta eta_hat : float) : float :=
    let R := (eta -. eta_hat) /. (c2_p1 cfg *. alpha *. eta) in
    if R <. f_one then alpha *. o2_exp orc (PrimFloat.opp (c2_p4 cfg))
    else fmin (alpha *. o2_exp orc (c2_p3 cfg *. (R -. f_one))) (c2_p2 cfg).

  Definition os_pass (s : sstate) (a : oaux) : prog (pout oaux) :=
    let alpha := os_alpha a in
    let x := os_point alpha (os_xb a) (os_u a) in
    PEval x true (fun f g0 =>
      let g := map2 (fun gi d => gi -. os_miu *. d) g0 (os_gQ x) in
      let h_hat := map2 (fun hi gi => hi +. alpha *. (gi -. hi)) (os_h a) g in
      let gamma_hat := os_gamma a +. alpha *. (f -. os_miu *. os_Q x -. o2_dot orc g x -. os_gamma a) in
      let lt1 := f <. os_fb a in
      let xb' := if src_osga_pick1 lt1 =? 1 then x else os_xb a in
      let fb' := if src_osga_pick1 lt1 =? 1 then f else os_fb a in
      let u' := os_U (gamma_hat -. fb') h_hat in
      let x' := os_point alpha (os_xb a) u' in
      PEval x' false (fun f' _ =>
        let lt2 := f' <. fb' in
        let xbh := if src_osga_pick2 lt2 =? 1 then x' else xb' in
        let fbh := if src_osga_pick2 lt2 =? 1 then f' else fb' in
        let u_hat := os_U (gamma_hat -. fbh) h_hat in
        let eta_hat := os_E (gamma_hat -. fbh) h_hat -. os_miu in
        let alpha' := os_alpha_next alpha (os_eta a) eta_hat in
        let upd := eta_hat <. os_eta a in
        PRet (mkPO (mkOA (if upd then h_hat else os_h a) (if upd then gamma_hat else os_gamma a)
                         (if upd then u_hat else os_u a) (if upd then eta_hat else os_eta a) alpha' xbh fbh)
                   (Some (xbh, None, fbh))
                   (fun s1 => src_osga_iter_ok (valid s1))
                   (fun s1 => src_osga_conv (eta_hat <. c2_eps cfg) (value_test s1 (c2_patience cfg) <. c2_eps cfg))))).

  Definition osga_rule : rule2 oaux :=
    mkR2 oaux src_loop_osga (fun _ => false) os_init
         (fun s _ => if src_osga_zero_exit (maxabs (sgx s) <. c2_eps0 cfg) then Some (src_osga_zero_ok (valid s), src_osga_zero_conv) else None)
         false
         os_pass.
End Osga.

(* ------------------------------------------------------------------------------------------------------------- *)
(* universal.cpp: pgm, dgm, fgm                                                                                   *)
(* ------------------------------------------------------------------------------------------------------------- *)
(* the state of the inner backtracking loops: counter, M / Lk1, iter_ok, and the locals the loop writes *)
Record uaux := mkUA {
  u_L : float;                         (* L *)
  u_x : bpoint;                        (* pgm: xk;  dgm: gphi;  fgm: vk *)
  u_y : bpoint;                        (* fgm: yk *)
  u_g : bpoint;                        (* pgm / dgm: gxk *)
  u_f : float;                         (* pgm: fxk;  fgm: Ak *)
  u_f1 : float;                        (* fxk1 (read by the condition of the inner loop) *)
  u_f2 : float                         (* fgm: fyk1 (idem) *)
}.
Record uin := mkUI {
  ui_k : Z; ui_M : float; ui_ok : bool;
  ui_x1 : bpoint; ui_g1 : bpoint; ui_f1 : float;          (* xk1, gxk1, fxk1 *)
  ui_x2 : bpoint; ui_g2 : bpoint; ui_f2 : float;          (* fgm: yk1, gyk1, fyk1 *)
  ui_a : float                                            (* fgm: ak1 *)
}.

Section Universal.
  Variable orc : b2oracles.
  Variable cfg : b2conf.
  Definition u_eps := c2_eps cfg.
  Definition u_conv (kern : bool -> bool) (ok : bool) : sstate -> bool :=
    fun s1 => if ok then kern (value_test s1 (c2_patience cfg) <. u_eps) else false.
  Definition u_init (x0 : bpoint) (s : sstate) : uaux :=
    mkUA (c2_p1 cfg) (sx s) x0 (sgx s) (sfx s) (sfx s) (sfx s).

  (* ---- pgm ---- *)
  Definition pgm_cap : Z := src_pgm_cap (c2_lsmax cfg) (c2_patience cfg) (c2_maxev cfg).
  Definition pgm_body (a : uaux) (i : uin) : prog uin :=
    let M := ui_M i in
    let x1 := map2 (fun x g => x -. g /. M) (u_x a) (u_g a) in                        (* xk1 = xk - gxk / M *)
    PEval x1 true (fun f g =>
      let d := map2 PrimFloat.sub x1 (u_x a) in
      let ok := ffin f && (f <=. u_f a +. o2_dot orc (u_g a) d +. f_half *. M *. o2_dot orc d d +. f_half *. u_eps) in
      PRet (mkUI (ui_k i + 1) (M *. f_two) ok x1 g f (ui_x2 i) (ui_g2 i) (ui_f2 i) (ui_a i))).
  Definition pgm_pass (s : sstate) (a : uaux) : prog (pout uaux) :=
    p_bind (cap_loop (Z.to_nat pgm_cap) (fun i => src_pgm_inner (ui_k i) pgm_cap (ui_ok i) (ffin (ui_f1 i))) (pgm_body a)
                     (mkUI 0 (u_L a) false [] [] (u_f1 a) [] [] f_zero f_zero))
      (fun i =>
        PRet (if ui_ok i
              then mkPO (mkUA (f_half *. ui_M i) (ui_x1 i) (u_y a) (ui_g1 i) (ui_f1 i) (ui_f1 i) (u_f2 a))
                        (Some (ui_x1 i, Some (ui_g1 i), ui_f1 i)) (fun _ => true) (u_conv src_pgm_conv true)
              else mkPO (mkUA (u_L a) (u_x a) (u_y a) (u_g a) (u_f a) (ui_f1 i) (u_f2 a)) None (fun _ => false) (u_conv src_pgm_conv false))).

  (* ---- dgm ---- *)
  Definition dgm_cap : Z := src_dgm_cap (c2_lsmax cfg) (c2_patience cfg) (c2_maxev cfg).
  Definition dgm_body (a : uaux) (i : uin) : prog uin :=
    let M := ui_M i in
    let x1 := map2 (fun p g => p -. g /. M) (u_x a) (u_g a) in                        (* xk1 = gphi - gxk / M *)
    PEval x1 true (fun f g =>
      if ffin f then
        let y := map2 (fun x gi => x -. gi /. M) x1 g in                              (* yk = xk1 - gxk1 / M *)
        PEval y false (fun fy _ =>
          let ok := fy <=. f -. f_half *. o2_dot orc g g /. M +. f_half *. u_eps in
          PRet (mkUI (ui_k i + 1) (M *. f_two) ok x1 g f y [] fy (ui_a i)))
      else PRet (mkUI (ui_k i + 1) (M *. f_two) false x1 g f (ui_x2 i) (ui_g2 i) (ui_f2 i) (ui_a i))).
  Definition dgm_pass (s : sstate) (a : uaux) : prog (pout uaux) :=
    p_bind (cap_loop (Z.to_nat dgm_cap) (fun i => src_dgm_inner (ui_k i) dgm_cap (ui_ok i) (ffin (ui_f1 i))) (dgm_body a)
                     (mkUI 0 (u_L a) false [] [] (u_f1 a) [] [] f_zero f_zero))
      (fun i =>
        PRet (if ui_ok i
              then mkPO (mkUA (f_half *. ui_M i) (map2 (fun p g => p -. g /. ui_M i) (u_x a) (u_g a)) (u_y a) (ui_g1 i) (u_f a)
                              (ui_f1 i) (u_f2 a))                                      (* gphi -= gxk / M (M already doubled) *)
                        (Some (ui_x1 i, Some (ui_g1 i), ui_f1 i)) (fun _ => true) (u_conv src_dgm_conv true)
              else mkPO (mkUA (u_L a) (u_x a) (u_y a) (u_g a) (u_f a) (ui_f1 i) (u_f2 a)) None (fun _ => false) (u_conv src_dgm_conv false))).

  (* ---- fgm ---- *)
  Definition fgm_cap : Z := src_fgm_cap (c2_lsmax cfg) (c2_patience cfg) (c2_maxev cfg).
  Definition fgm_body (a : uaux) (i : uin) : prog uin :=
    let M := ui_M i in
    let Ak := u_f a in
    let ak1 := (f_one +. PrimFloat.sqrt (f_one +. f_four *. M *. Ak)) /. (f_two *. M) in
    let tau := ak1 /. (Ak +. ak1) in
    let x1 := map2 (fun v y => tau *. v +. (f_one -. tau) *. y) (u_x a) (u_y a) in
    PEval x1 true (fun fx gx =>
      let y1 := map2 (fun vg y => tau *. vg +. (f_one -. tau) *. y) (map2 (fun v g => v -. ak1 *. g) (u_x a) gx) (u_y a) in
      PEval y1 true (fun fy gy =>
        let d := map2 PrimFloat.sub y1 x1 in
        let ok := ffin fx && ffin fy &&
                  (fy <=. fx +. o2_dot orc gx d +. f_half *. M *. o2_dot orc d d +. f_half *. u_eps *. tau) in
        PRet (mkUI (ui_k i + 1) (M *. f_two) ok x1 gx fx y1 gy fy ak1))).
  Definition fgm_pass (s : sstate) (a : uaux) : prog (pout uaux) :=
    p_bind (cap_loop (Z.to_nat fgm_cap) (fun i => src_fgm_inner (ui_k i) fgm_cap (ui_ok i) (ffin (ui_f1 i) && ffin (ui_f2 i))) (fgm_body a)
                     (mkUI 0 (u_L a) false [] [] (u_f1 a) [] [] (u_f2 a) f_zero))
      (fun i =>
        PRet (if ui_ok i
              then mkPO (mkUA (f_half *. ui_M i) (map2 (fun v g => v -. ui_a i *. g) (u_x a) (ui_g1 i)) (ui_x2 i) (u_g a)
                              (u_f a +. ui_a i) (ui_f1 i) (ui_f2 i))
                        (Some (ui_x2 i, Some (ui_g2 i), ui_f2 i)) (fun _ => true) (u_conv src_fgm_conv true)
              else mkPO (mkUA (u_L a) (u_x a) (u_y a) (u_g a) (u_f a) (ui_f1 i) (ui_f2 i)) None (fun _ => false) (u_conv src_fgm_conv false))).

  Definition pgm_rule (x0 : bpoint) : rule2 uaux :=
    mkR2 uaux src_loop_pgm (fun _ => false) (u_init x0) (fun _ _ => None) true pgm_pass.
  Definition dgm_rule (x0 : bpoint) : rule2 uaux :=
    mkR2 uaux src_loop_dgm (fun _ => false) (fun s => mkUA (c2_p1 cfg) x0 x0 (sgx s) (sfx s) (sfx s) (sfx s)) (fun _ _ => None) true dgm_pass.
  Definition fgm_rule (x0 : bpoint) : rule2 uaux :=
    mkR2 uaux src_loop_fgm (fun _ => false) (fun s => mkUA (c2_p1 cfg) x0 x0 (sgx s) f_zero (sfx s) (sfx s)) (fun _ _ => None) true fgm_pass.
End Universal.

(* ------------------------------------------------------------------------------------------------------------- *)
(* asga.cpp: asga2, asga4                                                                                         *)
(* ------------------------------------------------------------------------------------------------------------- *)
Record gaux := mkGA {
  g_L : float; g_S : float; g_f : float;       (* Lk, Sk, fxk (asga2) / fyk (asga4) *)
  g_x : bpoint;                                (* asga2: xk;  asga4: yk *)
  g_z : bpoint;                                (* asga2: zk;  asga4: vk *)
  g_sum : bpoint;                              (* sum_skgyk / sum_skgk *)
  (* variables declared outside the loop that the inner loop overwrites (read after it): *)
  g_x1 : bpoint; g_g1 : bpoint;                (* asga2: xk1, gxk1;  asga4: yk1, gyk1 *)
  g_w : bpoint; g_gw : bpoint;                 (* asga2: yk, gyk;    asga4: xk1, gxk1 *)
  g_z1 : bpoint                                (* asga2: zk1 *)
}.
Record gin := mkGI {
  gi_p : Z; gi_L1 : float; gi_s1 : float; gi_S1 : float; gi_f1 : float; gi_ok : bool;
  gi_x1 : bpoint; gi_g1 : bpoint; gi_w : bpoint; gi_gw : bpoint; gi_z1 : bpoint
}.

Section Asga.
  Variable orc : b2oracles.
  Variable cfg : b2conf.
  Variable x0 : bpoint.
  Definition g_miu : float := c2_sc cfg.
  Definition g_gamma1 : float := c2_p2 cfg.
  Definition g_gamma2 : float := c2_p3 cfg.

  (* solve_sk1(miu, Sk, Lk1) *)
  Definition solve_sk1 (Sk Lk1 : float) : float :=
    let r := f_one +. Sk *. g_miu in
    (r +. PrimFloat.sqrt (r *. r +. f_four *. Lk1 *. Sk *. r)) /. (f_two *. Lk1).
  (* lsearch_done(y, fy, x, fx, gx, Lk, alphak, epsilon) *)
  Definition lsearch_done (y : bpoint) (fy : float) (x : bpoint) (fx : float) (gx : bpoint) (Lk alphak : float) : bool :=
    let d := map2 PrimFloat.sub y x in
    fy <=. fx +. o2_dot orc gx d +. f_half *. Lk *. o2_dot orc d d +. f_half *. alphak *. c2_eps cfg.
  (* alphak * a + (1 - alphak) * b *)
  Definition mix (alphak : float) (a b : bpoint) : bpoint := map2 (fun ai bi => alphak *. ai +. (f_one -. alphak) *. bi) a b.
  (* sk1 * (miu * y - g) *)
  Definition skg (sk1 : float) (y g : bpoint) : bpoint := map2 (fun yi gi => sk1 *. (g_miu *. yi -. gi)) y g.

  Definition asga_init (s : sstate) : gaux :=
    mkGA (c2_p1 cfg) f_zero f_dmax x0 x0 (full x0 f_zero) x0 [] [] [] x0.
  Definition asga_pre (s : sstate) : bool := gradient_test s <. f_eps.
  Definition gin0 (a : gaux) : gin :=
    mkGI 0 (g_L a /. g_gamma1) f_zero (g_S a) (g_f a) false (g_x1 a) (g_g1 a) (g_w a) (g_gw a) (g_z1 a).

  (* ---- asga2 ---- *)
  Definition asga2_cap : Z := src_asga2_cap (c2_lsmax cfg) (c2_patience cfg) (c2_maxev cfg).
  Definition asga2_body (a : gaux) (i : gin) : prog gin :=
    let Lk1 := gi_L1 i *. g_gamma1 in
    let sk1 := solve_sk1 (g_S a) Lk1 in
    let Sk1 := g_S a +. sk1 in
    let alphak := sk1 /. Sk1 in
    let yk := mix alphak (g_z a) (g_x a) in
    PEval yk true (fun fyk gyk =>
      let den := f_one +. g_miu *. Sk1 in
      let zk1 := map2 (fun b c => (b +. c) /. den) (map2 PrimFloat.add x0 (g_sum a)) (skg sk1 yk gyk) in
      let xk1 := mix alphak zk1 (g_x a) in
      PEval xk1 true (fun fxk1 gxk1 =>
        let ok := ffin Lk1 && ffin fxk1 && ffin fyk && lsearch_done xk1 fxk1 yk fyk gyk Lk1 alphak in
        PRet (mkGI (gi_p i + 1) Lk1 sk1 Sk1 fxk1 ok xk1 gxk1 yk gyk zk1))).
  Definition asga2_pass (s : sstate) (a : gaux) : prog (pout gaux) :=
    p_bind (cap_loop (Z.to_nat asga2_cap) (fun i => src_asga2_inner (gi_p i) asga2_cap (gi_ok i)) (asga2_body a) (gin0 a))
      (fun i =>
        PRet (mkPO (mkGA (g_gamma2 *. gi_L1 i) (gi_S1 i) (gi_f1 i) (gi_x1 i) (gi_z1 i)
                         (map2 PrimFloat.add (g_sum a) (skg (gi_s1 i) (gi_w i) (gi_gw i)))
                         (gi_x1 i) (gi_g1 i) (gi_w i) (gi_gw i) (gi_z1 i))
                   (Some (gi_x1 i, Some (gi_g1 i), gi_f1 i))
                   (fun _ => gi_ok i)
                   (fun s1 => src_asga2_conv (value_test s1 (c2_patience cfg) <. c2_eps cfg)))).

  (* ---- asga4 ---- *)
  Definition asga4_cap : Z := src_asga4_cap (c2_lsmax cfg) (c2_patience cfg) (c2_maxev cfg).
  Definition asga4_body (a : gaux) (i : gin) : prog gin :=
    let Lk1 := gi_L1 i *. g_gamma1 in
    let sk1 := solve_sk1 (g_S a) Lk1 in
    let Sk1 := g_S a +. sk1 in
    let alphak := sk1 /. Sk1 in
    let xk1 := mix alphak (g_z a) (g_x a) in                                          (* alphak * vk + (1 - alphak) * yk *)
    PEval xk1 true (fun fxk1 gxk1 =>
      let den := f_one +. g_miu *. sk1 in
      let uk1 := map2 (fun v c => (v +. c) /. den) (g_z a) (skg sk1 xk1 gxk1) in
      let yk1 := mix alphak uk1 (g_x a) in
      PEval yk1 true (fun fyk1 gyk1 =>
        let ok := ffin Lk1 && ffin fxk1 && ffin fyk1 && lsearch_done yk1 fyk1 xk1 fxk1 gxk1 Lk1 alphak in
        PRet (mkGI (gi_p i + 1) Lk1 sk1 Sk1 fyk1 ok yk1 gyk1 xk1 gxk1 (gi_z1 i)))).
  Definition asga4_pass (s : sstate) (a : gaux) : prog (pout gaux) :=
    p_bind (cap_loop (Z.to_nat asga4_cap) (fun i => src_asga4_inner (gi_p i) asga4_cap (gi_ok i)) (asga4_body a) (gin0 a))
      (fun i =>
        let sum := map2 PrimFloat.add (g_sum a) (skg (gi_s1 i) (gi_w i) (gi_gw i)) in
        let den := f_one +. g_miu *. gi_S1 i in
        PRet (mkPO (mkGA (g_gamma2 *. gi_L1 i) (gi_S1 i) (gi_f1 i) (gi_x1 i)
                         (map2 (fun b c => (b +. c) /. den) x0 sum) sum
                         (gi_x1 i) (gi_g1 i) (gi_w i) (gi_gw i) (gi_z1 i))
                   (Some (gi_x1 i, Some (gi_g1 i), gi_f1 i))
                   (fun _ => gi_ok i)
                   (fun s1 => src_asga4_conv (value_test s1 (c2_patience cfg) <. c2_eps cfg)))).

  Definition asga2_rule : rule2 gaux := mkR2 gaux src_loop_asga2 asga_pre asga_init (fun _ _ => None) true asga2_pass.
  Definition asga4_rule : rule2 gaux := mkR2 gaux src_loop_asga4 asga_pre asga_init (fun _ _ => None) true asga4_pass.
End Asga.

(* ------------------------------------------------------------------------------------------------------------- *)
(* the seven bodies, with the auxiliaries projected away (what the replay compares)                               *)
(* ------------------------------------------------------------------------------------------------------------- *)
Inductive body2 := B2Ell | B2Osga | B2Pgm | B2Dgm | B2Fgm | B2Asga2 | B2Asga4.

Record bres := mkRes {
  rs_s : sstate; rs_c : ctr; rs_iters : Z; rs_dones : Z; rs_ok : bool; rs_conv : bool; rs_exit : Z
}.
Definition res_of {A : Type} (r : brun2 A) : bres :=
  mkRes (b2_s r) (b2_c r) (b2_iters r) (b2_dones r) (b2_ok r) (b2_conv r) (b2_exit r).

Definition ell_run orc cfg fuel x0 := b2_run orc (ell_rule orc cfg) cfg fuel x0.
Definition osga_run orc cfg fuel x0 := b2_run orc (osga_rule orc cfg x0) cfg fuel x0.
Definition pgm_run orc cfg fuel x0 := b2_run orc (pgm_rule orc cfg x0) cfg fuel x0.
Definition dgm_run orc cfg fuel x0 := b2_run orc (dgm_rule orc cfg x0) cfg fuel x0.
Definition fgm_run orc cfg fuel x0 := b2_run orc (fgm_rule orc cfg x0) cfg fuel x0.
Definition asga2_run orc cfg fuel x0 := b2_run orc (asga2_rule orc cfg x0) cfg fuel x0.
Definition asga4_run orc cfg fuel x0 := b2_run orc (asga4_rule orc cfg x0) cfg fuel x0.

Definition body2_run (b : body2) (orc : b2oracles) (cfg : b2conf) (fuel : nat) (x0 : bpoint) : bres :=
  match b with
  | B2Ell => res_of (ell_run orc cfg fuel x0)
  | B2Osga => res_of (osga_run orc cfg fuel x0)
  | B2Pgm => res_of (pgm_run orc cfg fuel x0)
  | B2Dgm => res_of (dgm_run orc cfg fuel x0)
  | B2Fgm => res_of (fgm_run orc cfg fuel x0)
  | B2Asga2 => res_of (asga2_run orc cfg fuel x0)
  | B2Asga4 => res_of (asga4_run orc cfg fuel x0)
  end.

Definition body2_minimize (b : body2) (orc : b2oracles) (cfg : b2conf) (x0 : bpoint) : sstate :=
  rs_s (body2_run b orc cfg (b2_fuel cfg) x0).

Definition body2_of_Z (z : Z) : body2 :=
  if z =? 0 then B2Ell else if z =? 1 then B2Osga else if z =? 2 then B2Pgm else if z =? 3 then B2Dgm
  else if z =? 4 then B2Fgm else if z =? 5 then B2Asga2 else B2Asga4.

(* the proved per-pass evaluation bound B (in solver_t's unit fcalls + gcalls) *)
Definition pass_bound (b : body2) (cfg : b2conf) : Z :=
  match b with
  | B2Ell => 2
  | B2Osga => 3
  | B2Pgm => 2 * Z.max 0 (pgm_cap cfg)
  | B2Dgm => 3 * Z.max 0 (dgm_cap cfg)
  | B2Fgm => 4 * Z.max 0 (fgm_cap cfg)
  | B2Asga2 => 4 * Z.max 0 (asga2_cap cfg)
  | B2Asga4 => 4 * Z.max 0 (asga4_cap cfg)
  end.
