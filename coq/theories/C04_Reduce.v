(* C04 -- executable exact-rational model of program::reduce (src/program/util.cpp): removal of linearly dependent
   equality rows through the full-pivoting LU factorisation of [A|b]^T.

     ::reduce(matrix_t& A)             (A is the stacked r x c matrix [A|b], c = A.cols() + 1)
        dd = A.transpose().fullPivLu()          P A^T Q = L U,  P : c x c,  Q : r x r,  L : c x n unit lower trapezoid,
        if (dd.rank() == A.rows()) return;                       U : n x r upper trapezoid,  n = std::min(A.rows(), A.cols())
        A = U.transpose().block(0, 0, dd.rank(), U.rows()) * L.transpose() * P;

   The factorisation is an ORACLE ANSWER (record [lufact]): the model only *assembles* the reduced system from it, entry by
   entry, exactly as the three-factor product of the source does (the integer expressions -- early-return test, inner
   dimension, the four block arguments, stacked width, split column -- are the ones translated from the source,
   LNGen.Src_c04).  [lu_valid_b] is the executable statement "this answer is a full-pivoting LU factorisation of M^T with
   [rank] non-zero pivots": it is what the driver evaluates on the factors Eigen returns, and the hypothesis of the
   theorems in C04_ReduceProofs.v.
   Matrices are lists of rows over Q; entries are read with a default of 0.  No proofs in this file. *)
From Coq Require Import List ZArith QArith Bool Arith.
From LNGen Require Import Src_c04.
From LN Require Import C04_Defs.
Import ListNotations.
Local Open Scope Q_scope.

Definition entry (M : mat) (i j : nat) : Q := nth j (nth i M []) 0.
Definition sumQ (l : vec) : Q := fold_right Qplus 0 l.
Definition sum_upto (n : nat) (f : nat -> Q) : Q := sumQ (map f (seq 0 n)).
(* the r x c matrix with entries f i j *)
Definition tab (r c : nat) (f : nat -> nat -> Q) : mat := map (fun i => map (f i) (seq 0 c)) (seq 0 r).

(* a permutation matrix given by its index list: (P X) row k = X row p_k, i.e. P(k, j) = 1 iff p_k = j.
   For the column permutation of the LU: (X Q) column j = X column q_j, i.e. Q(i, j) = 1 iff q_j = i. *)
Definition pidx (p : list nat) (k : nat) : nat := nth k p 0%nat.
Definition pmat_entry (p : list nat) (k j : nat) : Q := if Nat.eqb (pidx p k) j then 1 else 0.

Record lufact := mkLU { lu_p : list nat; lu_q : list nat; lu_L : mat; lu_U : mat; lu_rank : nat }.

(* n = std::min(A.rows(), A.cols()), L = LU.leftCols(n), U = LU.topRows(n) *)
Definition inner_dim (r c : nat) : nat := Z.to_nat (src_c04_reduce_n (Z.of_nat r) (Z.of_nat c)).
Definition l_cols (r c : nat) : nat := Z.to_nat (src_c04_reduce_lcols (Z.of_nat (inner_dim r c))).
Definition u_rows (r c : nat) : nat := Z.to_nat (src_c04_reduce_urows (Z.of_nat (inner_dim r c))).

(* (U^T.block(r0, c0, br, bc) * L^T)(i, k) = sum_{t < bc} U^T(r0 + i, c0 + t) * L^T(t, k) *)
Definition ul_entry (f : lufact) (r0 c0 bc : nat) (i k : nat) : Q :=
  sum_upto bc (fun t => entry (lu_U f) (c0 + t) (r0 + i) * entry (lu_L f) k t).

(* ((U^T.block(..) * L^T) * P)(i, col) = sum_{k < c} (..)(i, k) * P(k, col) *)
Definition assemble (c : nat) (f : lufact) (r0 c0 br bc : nat) : mat :=
  tab br c (fun i col => sum_upto c (fun k => ul_entry f r0 c0 bc i k * pmat_entry (lu_p f) k col)).

(* ::reduce(matrix_t&) on the r x c matrix M, given the factorisation of M^T *)
Definition reduce_sys (M : mat) (r c : nat) (f : lufact) : mat :=
  if src_c04_reduce_full_rank (Z.of_nat (lu_rank f)) (Z.of_nat r) then M
  else
    let urows := Z.of_nat (u_rows r c) in
    let rk := Z.of_nat (lu_rank f) in
    assemble c f (Z.to_nat src_c04_reduce_block_r0) (Z.to_nat src_c04_reduce_block_c0)
             (Z.to_nat (src_c04_reduce_block_rows rk urows)) (Z.to_nat (src_c04_reduce_block_cols rk urows)).

(* [A|b] : `::nano::stack<scalar_t>(A.rows(), A.cols() + 1, A.matrix(), b.vector())` *)
Fixpoint stack (A : mat) (b : vec) : mat :=
  match A, b with
  | r :: A', t :: b' => (r ++ [t]) :: stack A' b'
  | _, _ => []
  end.

Definition stack_cols (ncols : nat) : nat := Z.to_nat (src_c04_reduce_stack_cols (Z.of_nat ncols)).
(* `A = Ab.block(0, 0, Ab.rows(), Ab.cols() - 1)`, `b = Ab.matrix().col(Ab.cols() - 1)` *)
Definition split_A (w : nat) (Ab : mat) : mat := map (firstn (Z.to_nat (src_c04_reduce_split_A (Z.of_nat w)))) Ab.
Definition split_b (w : nat) (Ab : mat) : vec := map (fun row => nth (Z.to_nat (src_c04_reduce_split_b (Z.of_nat w))) row 0) Ab.

(* program::reduce(A, b) with A of ncols columns; f = the factorisation of [A|b]^T; result (returned flag, A', b') *)
Definition reduce_model (A : mat) (b : vec) (ncols : nat) (f : lufact) : bool * (mat * vec) :=
  if src_c04_reduce_empty (Z.of_nat (length A)) then (false, (A, b))
  else
    let w := stack_cols ncols in
    let Ab := reduce_sys (stack A b) (length A) w f in
    (true, (split_A w Ab, split_b w Ab)).

(* ---- "the oracle's answer is a factorisation": executable ----------------------------------------------------------- *)
Definition forall_upto (n : nat) (f : nat -> bool) : bool := forallb f (seq 0 n).
Definition perm_b (p : list nat) (n : nat) : bool :=
  Nat.eqb (length p) n && forall_upto n (fun j => existsb (Nat.eqb j) p).

(* (P M^T Q)(k, j) = M(q_j, p_k)  and  (L U)(k, j) = sum_{t < n} L(k, t) U(t, j) *)
Definition pmq_entry (M : mat) (f : lufact) (k j : nat) : Q := entry M (pidx (lu_q f) j) (pidx (lu_p f) k).
Definition lu_entry (n : nat) (f : lufact) (k j : nat) : Q := sum_upto n (fun t => entry (lu_L f) k t * entry (lu_U f) t j).

Definition shape_b (r c : nat) (M : mat) : bool := Nat.eqb (length M) r && forallb (fun row => Nat.eqb (length row) c) M.

Definition lu_valid_b (M : mat) (r c : nat) (f : lufact) : bool :=
  let n := inner_dim r c in
  let L := lu_L f in
  let U := lu_U f in
  perm_b (lu_p f) c && perm_b (lu_q f) r && Nat.leb (lu_rank f) n
  && forall_upto c (fun k => forall_upto r (fun j => Qeq_bool (pmq_entry M f k j) (lu_entry n f k j)))   (* P M^T Q = L U *)
  && forall_upto n (fun t => forall_upto r (fun j =>
        (if Nat.leb (lu_rank f) t then Qeq_bool (entry U t j) 0 else true)            (* rows rank.. of U are zero *)
        && (if Nat.ltb j t then Qeq_bool (entry U t j) 0 else true)))                 (* U upper triangular *)
  && forall_upto (lu_rank f) (fun t => negb (Qeq_bool (entry U t t) 0))               (* rank non-zero pivots *)
  && forall_upto c (fun k => forall_upto n (fun t =>
        (if Nat.eqb k t then Qeq_bool (entry L k t) 1 else true)                      (* L unit lower triangular *)
        && (if Nat.ltb k t then Qeq_bool (entry L k t) 0 else true))).

(* ---- the conclusions, executable (what the driver evaluates on a candidate solution) ------------------------------ *)
Definition sat_b (A : mat) (b : vec) (x : vec) : bool :=
  Nat.eqb (length A) (length b) && forallb (fun rb => Qeq_bool (dot (fst rb) x) (snd rb)) (combine A b).
