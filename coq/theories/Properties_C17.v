(* C17 -- Thread pool runs every task exactly once, completes, shuts down cleanly.
   Every theorem quantifies over ALL reachable states of the interleaving model C17_Defs.step, i.e. over
   every schedule of any number of workers, submitting threads and tasks (wf_config: >= 1 worker, unique
   task ids, ~pool_t last in its thread, called by at most one thread and only after the other threads
   finished their calls). *)
From Coq Require Import List Arith Bool ZArith.
From LN Require Import C17_Defs C17_Proofs C17_Statements C17_Termination.
From Coq Require Import NArith MSets.MSetPositive.
From LNGen Require Import Src_pool.
From LN Require Import C17_Fast_Defs C17_Fast C17_Live C17_Commute.
Import ListNotations.

Theorem C17_at_most_once : forall n thr progs, wf_config n progs = true -> forall p, reachable n thr progs p ->
  NoDup (map fst (ran p) ++ map fst (inline p)).
Proof. exact s_at_most_once. Qed.
Print Assumptions C17_at_most_once.

Theorem C17_exactly_once_on_return : forall n thr progs, wf_config n progs = true -> forall p s r, reachable n thr progs p ->
  s < ns p -> In r (results (subs p s)) -> r_inline r = false ->
  Forall (executed_once p) (r_tasks r) /\
  r_exn r = (if r_raise r then find (throws p) (r_tasks r) else None).
Proof. exact s_map_returns. Qed.
Print Assumptions C17_exactly_once_on_return.

Theorem C17_inline_path : forall n thr progs, wf_config n progs = true -> forall p s r, reachable n thr progs p ->
  s < ns p -> In r (results (subs p s)) -> r_inline r = true ->
  r_exn r = find (throws p) (r_tasks r) /\
  (r_exn r = None -> Forall (executed_once p) (r_tasks r)).
Proof. exact s_map_inline_returns. Qed.
Print Assumptions C17_inline_path.

Theorem C17_worker_id : forall n thr progs, wf_config n progs = true -> forall p, reachable n thr progs p ->
  (forall t w, In (t, w) (ran p) -> w < nw p) /\
  (forall w w' t, workers p w = WRunning t -> workers p w' = WRunning t -> w = w') /\
  (forall w t, workers p w = WRunning t -> In (t, w) (ran p) /\ ~ In t (finished p)).
Proof. exact s_worker_id. Qed.
Print Assumptions C17_worker_id.

Theorem C17_no_lost_wakeup : forall n thr progs, wf_config n progs = true -> forall p, reachable n thr progs p ->
  queue p <> [] ->
  (exists w, w < nw p /\ (workers p w = WIdle \/ exists t, workers p w = WRunning t)) \/
  (exists s, s < ns p /\ (stg (subs p s) = SNotifyOne \/ (exists ts r, stg (subs p s) = SNotifyAll ts r) \/
                          stg (subs p s) = SNotifyStop)).
Proof. exact s_no_lost_wakeup. Qed.
Print Assumptions C17_no_lost_wakeup.

Theorem C17_deadlock_free : forall n thr progs, wf_config n progs = true -> forall p, reachable n thr progs p -> final p = false ->
  exists e q, step p e = Some q.
Proof. exact s_deadlock_free. Qed.
Print Assumptions C17_deadlock_free.

Theorem C17_shutdown : forall n thr progs, wf_config n progs = true -> forall p, reachable n thr progs p -> stop p = true -> final p = true ->
  forall w, w < nw p -> workers p w = WExited.
Proof. exact s_shutdown. Qed.
Print Assumptions C17_shutdown.

Theorem C17_dropped_never_ran : forall n thr progs, wf_config n progs = true -> forall p t, reachable n thr progs p ->
  In t (dropped p) -> ~ In t (map fst (ran p)) /\ ~ In t (finished p).
Proof. exact s_dropped_never_ran. Qed.
Print Assumptions C17_dropped_never_ran.

(* liveness, up to scheduler fairness: without spurious wake-ups every execution is finite (an explicit bound),
   and by deadlock freedom a non-final state always has a successor, so every maximal such execution ends in a
   final state: all calls returned and, if the pool was destroyed, all workers exited (C17_shutdown) *)
Theorem C17_bounded_executions : forall es p q,
  run p es = Some q -> no_spurious es = true -> length es + measure q <= measure p.
Proof. exact bounded_executions. Qed.
Print Assumptions C17_bounded_executions.

Theorem C17_chunks_tile : forall elements chunksize : Z,
  (1 <= chunksize)%Z -> (0 <= elements)%Z ->
  tiles 0 elements chunksize (chunks elements chunksize) /\
  chunks_inline elements chunksize = chunks elements chunksize.
Proof. intros e c Hc He. split; [exact (s_chunks_tile e c Hc He) | exact (s_chunks_inline_same e c)]. Qed.
Print Assumptions C17_chunks_tile.

Theorem C17_chunks_partition : forall (elements chunksize i : Z),
  (1 <= chunksize)%Z -> (0 <= i < elements)%Z ->
  (exists b e, In (b, e) (chunks elements chunksize) /\ (b <= i < e)%Z) /\
  (forall b1 e1 b2 e2, In (b1, e1) (chunks elements chunksize) -> In (b2, e2) (chunks elements chunksize) ->
     (b1 <= i < e1)%Z -> (b2 <= i < e2)%Z -> (b1, e1) = (b2, e2)).
Proof.
  intros el cs i Hc Hi. assert (Ht := s_chunks_tile el cs Hc ltac:(apply Z.lt_le_incl; apply (Z.le_lt_trans _ i); apply Hi)).
  split; [exact (tiles_cover _ _ _ _ i Ht Hi) | intros b1 e1 b2 e2 I1 I2; exact (tiles_disjoint _ _ _ _ Ht b1 e1 b2 e2 i I1 I2)].
Qed.
Print Assumptions C17_chunks_partition.

Theorem C17_chunked_inline_consistent : forall size elements chunksize : Z,
  (1 <= chunksize)%Z -> (0 <= elements)%Z ->
  chunked_inline size elements chunksize = indexed_inline size (Z.of_nat (length (chunks elements chunksize))).
Proof. exact s_chunked_inline_consistent. Qed.
Print Assumptions C17_chunked_inline_consistent.

(* non-vacuity: a concrete configuration (2 workers, a submitter running a 3-task map with a throwing task
   and a fire-and-forget enqueue, a destroyer thread) is well-formed and a concrete interleaving runs to a
   final state in which the invariants can be read off *)
Definition ex_progs : list (list call) := [[CMap [1; 2; 3] true; CEnqueue 4]; [CDestroy]].
Definition ex_trace : list event :=
  [EPush 0; ECheck 0; ENotify 0 None; ECheck 1; EFinish 1; EFinish 0; ECheck 1; ECheck 0; EFinish 1;
   EGet 0; EGet 0; EWait 0; EWait 0; EWait 0; EWait 0;
   EPush 0; ENotify 0 (Some 0); EStop 1; ENotifyStop 1; ECheck 0; ECheck 1; EJoin 1].
Example C17_nonvacuous :
  wf_config 2 ex_progs = true /\
  match run (init 2 (fun t => Nat.eqb t 2) ex_progs) ex_trace with
  | Some p => final p = true /\ map fst (ran p) = [1; 2; 3] /\ dropped p = [4] /\
              map r_exn (results (subs p 0)) = [Some 2]
  | None => False
  end.
Proof. vm_compute. repeat split; reflexivity. Qed.

(* ================================================================================================================
   EXTENSION 1 -- the fast acceptor over binary ids (C17_Fast_Defs.stepN, extracted and used by the driver for ALL
   traces, up to the harness' 5000 elements x 4 submitters x 2 calls) is a refinement of the proved model:
   a bisimulation through abs : poolN -> pool on the states satisfying the representation invariant wfN.
   ================================================================================================================ *)

(* one step: the proved model does on the abstraction exactly what the fast acceptor does (acceptance AND rejection),
   and the representation invariant is kept *)
Theorem C17_fast_refines : forall p e, wfN p ->
  step (abs p) (abs_e e) = option_map abs (stepN p e) /\ (forall q, stepN p e = Some q -> wfN q).
Proof. exact fast_refines. Qed.
Print Assumptions C17_fast_refines.

(* whole traces from the initial state: an accepted trace is an execution of the proved model from a well-formed
   configuration, so the state reached is `reachable` and every theorem above applies to it *)
Theorem C17_fast_reachable : forall n thr progs es s,
  wf_configN n progs = true -> runN (initN n thr progs) es = Some s ->
  wf_config n (abs_progs progs) = true /\
  run (init n (abs_thr thr) (abs_progs progs)) (map abs_e es) = Some (abs s) /\
  reachable n (abs_thr thr) (abs_progs progs) (abs s) /\ wfN s.
Proof. exact fast_reachable. Qed.
Print Assumptions C17_fast_reachable.

(* the fast acceptor rejects only traces the proved model rejects (no false rejection introduced by the re-basing) *)
Theorem C17_fast_complete : forall n thr progs es,
  runN (initN n thr progs) es = None -> run (init n (abs_thr thr) (abs_progs progs)) (map abs_e es) = None.
Proof. exact fast_complete. Qed.
Print Assumptions C17_fast_complete.

(* the well-formedness test with a trie decides the same predicate as the quadratic one *)
Theorem C17_fast_wf_config : forall n progs, wf_config n (abs_progs progs) = wf_configN n progs.
Proof. exact wf_config_abs. Qed.
Print Assumptions C17_fast_wf_config.

(* the enabled set printed by the hang analysis is the enabled set of the proved model *)
Theorem C17_fast_enabled : forall p, wfN p -> enabled (abs p) = map abs_e (enabledN p).
Proof. exact enabled_abs. Qed.
Print Assumptions C17_fast_enabled.

(* the property, read off the fast state itself (these are the fields the driver compares with what the operators saw) *)
Theorem C17_fast_at_most_once : forall n thr progs es s,
  wf_configN n progs = true -> runN (initN n thr progs) es = Some s ->
  NoDup (map fst (f_ran s) ++ map fst (f_inline s)).
Proof. exact fast_at_most_once. Qed.
Print Assumptions C17_fast_at_most_once.

Theorem C17_fast_worker_id : forall n thr progs es s,
  wf_configN n progs = true -> runN (initN n thr progs) es = Some s ->
  forall t w, In (t, w) (f_ran s) -> tn w < length (f_workers s).
Proof. exact fast_worker_id. Qed.
Print Assumptions C17_fast_worker_id.

Theorem C17_fast_map_returns : forall n thr progs es s,
  wf_configN n progs = true -> runN (initN n thr progs) es = Some s ->
  forall i r, i < length (f_subs s) -> In r (resultsN (nth i (f_subs s) dsubN)) -> rn_inline r = false ->
  Forall (fun t => In t (f_finished s) /\
                   count_occ N.eq_dec (map fst (f_ran s) ++ map fst (f_inline s)) t = 1) (rn_tasks r) /\
  rn_exn r = (if rn_raise r then find thr (rn_tasks r) else None).
Proof. exact fast_map_returns. Qed.
Print Assumptions C17_fast_map_returns.

Theorem C17_fast_shutdown : forall n thr progs es s,
  wf_configN n progs = true -> runN (initN n thr progs) es = Some s ->
  f_stop s = true -> finalN s = true -> Forall (fun x => x = WExitedN) (f_workers s).
Proof. exact fast_shutdown. Qed.
Print Assumptions C17_fast_shutdown.

Theorem C17_fast_dropped_never_ran : forall n thr progs es s,
  wf_configN n progs = true -> runN (initN n thr progs) es = Some s ->
  forall t, In t (f_dropped s) -> ~ In t (map fst (f_ran s)) /\ ~ In t (f_finished s).
Proof. exact fast_dropped_never_ran. Qed.
Print Assumptions C17_fast_dropped_never_ran.

(* non-vacuity: the configuration and interleaving of C17_nonvacuous with binary ids: well-formed, accepted, final,
   same observables; wfN holds of the initial state; and a trace the fast acceptor rejects (pop from an empty queue
   reported as a pop: the worker sleeps instead -- then a second check of a sleeping worker) *)
Definition ex_progsN : list (list callN) := [[CMapN [1; 2; 3] true; CEnqueueN 4]; [CDestroyN]]%N.
Definition ex_traceN : list eventN :=
  [EPushN 0; ECheckN 0; ENotifyN 0 None; ECheckN 1; EFinishN 1; EFinishN 0; ECheckN 1; ECheckN 0; EFinishN 1;
   EGetN 0; EGetN 0; EWaitN 0; EWaitN 0; EWaitN 0; EWaitN 0;
   EPushN 0; ENotifyN 0 (Some 0); EStopN 1; ENotifyStopN 1; ECheckN 0; ECheckN 1; EJoinN 1]%N.
Example C17_fast_nonvacuous :
  wf_configN 2 ex_progsN = true /\ wfN (initN 2 (N.eqb 2) ex_progsN) /\
  map abs_e ex_traceN = ex_trace /\ abs_progs ex_progsN = ex_progs /\
  match runN (initN 2 (N.eqb 2) ex_progsN) ex_traceN with
  | Some p => finalN p = true /\ f_stop p = true /\ map fst (rev (f_ran p)) = [1; 2; 3]%N /\ f_dropped p = [4]%N /\
              map rn_exn (resultsN (nth 0 (f_subs p) dsubN)) = [Some 2%N] /\
              map rn_inline (resultsN (nth 0 (f_subs p) dsubN)) = [false] /\
              enabledN p = []
  | None => False
  end /\
  runN (initN 2 (N.eqb 2) ex_progsN) [ECheckN 0; ECheckN 0]%N = None.
Proof. split; [reflexivity|]. split; [apply wfN_init|]. vm_compute. repeat split; reflexivity. Qed.

(* the decisions of the worker loop and of ~pool_t translated from src/core/parallel.cpp on every run (wait predicate
   `m_stop || !m_tasks.empty()`, exit test `m_stop`, stored stop value `true`) are what the proved model does; the fast
   acceptor evaluates the translated tests themselves, so a changed predicate breaks C17_fast_refines as well *)
Theorem C17_worker_loop_decisions : forall p w q, step p (ECheck w) = Some q ->
  let pred := src_wait_pred (stop p) (is_nil (queue p)) in
  let ex := src_exit_test (stop p) (is_nil (queue p)) in
  (pred = false <-> workers q w = WSleeping) /\
  (pred = true /\ ex = true <-> workers q w = WExited) /\
  (pred = true /\ ex = false <-> exists t, workers q w = WRunning t /\ queue p = t :: queue q /\ ran q = ran p ++ [(t, w)]).
Proof. exact worker_loop_decisions. Qed.
Print Assumptions C17_worker_loop_decisions.

Theorem C17_stop_value_decision : forall p s q, step p (EStop s) = Some q -> stop q = src_stop_value.
Proof. exact stop_value_decision. Qed.
Print Assumptions C17_stop_value_decision.

Example C17_decisions_nonvacuous :
  (exists q, step (init 1 (fun _ => false) [[]]) (ECheck 0) = Some q /\ workers q 0 = WSleeping) /\
  (exists p q, run (init 1 (fun _ => false) [[CDestroy]]) [EStop 0] = Some p /\ step p (ECheck 0) = Some q /\ workers q 0 = WExited) /\
  (exists p q, run (init 2 (fun _ => false) [[CEnqueue 7]]) [EPush 0] = Some p /\ step p (ECheck 1) = Some q /\ workers q 1 = WRunning 7).
Proof. repeat split; repeat eexists; vm_compute; reflexivity. Qed.

(* ================================================================================================================
   EXTENSION 2 -- liveness.  Already there: C17_deadlock_free (some step is enabled in a non-final reachable state) and
   C17_bounded_executions (a spurious-free execution has at most `measure` steps).  New: (i) the enabled step can be
   chosen non-spurious and then strictly decreases the measure, so under ANY scheduler a spurious-free execution can only
   stop in a final state (no fairness needed); (ii) with k spurious wake-ups every execution has at most measure + 2k
   steps; (iii) from every reachable state a spurious-free schedule of at most `measure` steps reaches a terminal state
   in which every call has returned (one result per map call of the program) and, if ~pool_t is part of the
   configuration, stop is set and every worker has exited.
   ================================================================================================================ *)
Theorem C17_progress_nonspurious : forall n thr progs, wf_config n progs = true ->
  forall p, reachable n thr progs p -> final p = false ->
  exists e q, step p e = Some q /\ spurious e = false.
Proof. exact progress_nonspurious. Qed.
Print Assumptions C17_progress_nonspurious.

Theorem C17_maximal_runs_end_final : forall n thr progs, wf_config n progs = true ->
  forall p es q, reachable n thr progs p -> run p es = Some q -> no_spurious es = true ->
  length es <= measure p /\
  (final q = true \/ exists e q', step q e = Some q' /\ spurious e = false /\ measure q' < measure q).
Proof.
  intros n thr progs Hwf p es q Hr Hrun Hn. split.
  - pose proof (bounded_executions es p q Hrun Hn). apply (Nat.le_trans _ (length es + measure q)); [apply Nat.le_add_r | assumption].
  - exact (maximal_runs_end_final n thr progs Hwf p es q Hr Hrun Hn).
Qed.
Print Assumptions C17_maximal_runs_end_final.

Theorem C17_bounded_with_spurious : forall es p q,
  run p es = Some q -> length es + measure q <= measure p + 2 * count_spurious es.
Proof. exact bounded_with_spurious. Qed.
Print Assumptions C17_bounded_with_spurious.

Theorem C17_terminates_cleanly : forall n thr progs, wf_config n progs = true ->
  forall p, reachable n thr progs p ->
  exists es q, run p es = Some q /\ no_spurious es = true /\ length es <= measure p /\ final q = true /\
    (forall s, s < ns q -> stg (subs q s) = SReady /\ todo (subs q s) = [] /\
                          length (results (subs q s)) = count_maps (nth s progs [])) /\
    (has_destroy progs = true -> stop q = true /\ forall w, w < nw q -> workers q w = WExited).
Proof. exact terminates_cleanly. Qed.
Print Assumptions C17_terminates_cleanly.

Theorem C17_final_workers_exited : forall n thr progs, wf_config n progs = true ->
  forall q, reachable n thr progs q -> final q = true -> has_destroy progs = true ->
  stop q = true /\ forall w, w < nw q -> workers q w = WExited.
Proof. exact final_workers_exited. Qed.
Print Assumptions C17_final_workers_exited.

Example C17_live_nonvacuous :
  wf_config 2 live_progs = true /\ has_destroy live_progs = true /\
  measure (init 2 (fun _ => false) live_progs) = 77 /\
  count_maps (nth 0 live_progs []) = 1 /\
  reachable 2 (fun _ => false) live_progs (init 2 (fun _ => false) live_progs) /\
  count_spurious [ECheck 0; ESpurious 0] = 1 /\ no_spurious ex_trace = true /\
  (exists p, run (init 2 (fun t => Nat.eqb t 2) ex_progs) [EPush 0] = Some p /\ final p = false).
Proof.
  destruct live_nonvacuous as [H1 [H2 [H3 [H4 H5]]]]. repeat split; try assumption; try reflexivity.
  eexists. split; [vm_compute; reflexivity | reflexivity].
Qed.

(* ================================================================================================================
   EXTENSION 3 -- the atomicity reduction.  The model takes each block under the queue mutex as one step and the tie
   linearises hook events by a global sequence number.  Events inside the mutex (EPush on the pool path, ECheck,
   EStop) are ordered by the mutex (the harness verifies for each of them that the emitting thread holds it).  For
   the others (`lockfree`) the sequence number is taken some time after the action; the theorems below say that this
   does not matter: a lock-free event neither reads nor writes queue / stop / ran, and two enabled events of
   different threads, at least one of them lock-free and not both acting on the condition variable (whose notify /
   wait operations are totally ordered by the condition variable itself), can be taken in either order with the
   same result -- for the whole remaining trace.  DESIGN section 4 listed this as a trusted assumption.
   ================================================================================================================ *)
Theorem C17_lockfree_frame : forall p e q, lockfree p e = true -> step p e = Some q ->
  queue q = queue p /\ stop q = stop p /\ ran q = ran p /\ dropped q = dropped p /\ nw q = nw p /\ ns q = ns p.
Proof. exact lockfree_frame. Qed.
Print Assumptions C17_lockfree_frame.

Theorem C17_lockfree_blind : forall p e qu st rn, lockfree p e = true ->
  step (set_locked p qu st rn) e = option_map (fun q => set_locked q qu st rn) (step p e).
Proof. exact lockfree_blind. Qed.
Print Assumptions C17_lockfree_blind.

(* what each lock-free event writes: the emitting thread's own component, plus the futures it completes
   (`finished` / `inline`) or the sleepers it wakes *)
Theorem C17_lockfree_own_component :
  (forall p s q, step p (EGet s) = Some q -> exists x, q = set_sub p s x) /\
  (forall p s q, step p (EWait s) = Some q -> exists x, q = set_sub p s x) /\
  (forall p s q, step p (EJoin s) = Some q -> exists x, q = set_sub p s x) /\
  (forall p w q, step p (EFinish w) = Some q ->
     exists t, workers p w = WRunning t /\ q = add_finished (set_worker p w WIdle) [t]) /\
  (forall p w q, step p (ESpurious w) = Some q -> workers p w = WSleeping /\ q = set_worker p w WIdle) /\
  (forall p s o q, step p (ENotify s o) = Some q ->
     exists x, (o = None /\ q = set_sub p s x) \/
               (exists w, o = Some w /\ workers p w = WSleeping /\ q = set_sub (set_worker p w WIdle) s x) \/
               (o = None /\ q = set_sub (wake p) s x)) /\
  (forall p s q, step p (ENotifyStop s) = Some q -> exists x, q = set_sub (wake p) s x) /\
  (forall p s q, lockfree p (EPush s) = true -> step p (EPush s) = Some q ->
     exists x l, q = set_sub (add_inline (add_finished p l) (map (fun t => (t, s)) l)) s x).
Proof.
  split; [exact own_EGet|]. split; [exact own_EWait|]. split; [exact own_EJoin|]. split; [exact own_EFinish|].
  split; [exact own_ESpurious|]. split; [exact own_ENotify|]. split; [exact own_ENotifyStop | exact own_EPush_inline].
Qed.
Print Assumptions C17_lockfree_own_component.

Theorem C17_lockfree_events_commute :
  forall n thr progs, wf_config n progs = true -> forall p e1 e2 q1 q2,
  reachable n thr progs p -> actor_of e1 <> actor_of e2 ->
  lockfree p e1 = true \/ lockfree p e2 = true ->
  cv_action p e1 && cv_action p e2 = false ->
  step p e1 = Some q1 -> step p e2 = Some q2 ->
  exists r1 r2, step q1 e2 = Some r1 /\ step q2 e1 = Some r2 /\ peq r1 r2.
Proof. exact lockfree_events_commute. Qed.
Print Assumptions C17_lockfree_events_commute.

(* the linearisation order of the two events is immaterial for the acceptance of the whole trace and for what the
   final state says (peq: equal up to the order in which concurrent completions were logged; C17_peq_observables) *)
Theorem C17_linearisation_immaterial :
  forall n thr progs, wf_config n progs = true -> forall p e1 e2 q1 q2,
  reachable n thr progs p -> actor_of e1 <> actor_of e2 ->
  lockfree p e1 = true \/ lockfree p e2 = true -> cv_action p e1 && cv_action p e2 = false ->
  step p e1 = Some q1 -> step p e2 = Some q2 ->
  forall es r, run p (e1 :: e2 :: es) = Some r -> exists r', run p (e2 :: e1 :: es) = Some r' /\ peq r r'.
Proof. exact swap_adjacent. Qed.
Print Assumptions C17_linearisation_immaterial.

Theorem C17_peq_observables : forall p q, peq p q ->
  final p = final q /\ ran p = ran q /\ dropped p = dropped q /\
  (forall s, results (subs p s) = results (subs q s)) /\
  (forall t, complete p t = complete q t) /\
  (forall t, In t (finished p) <-> In t (finished q)) /\
  (forall x, In x (inline p) <-> In x (inline q)).
Proof. exact peq_observables. Qed.
Print Assumptions C17_peq_observables.

(* without the condition-variable side condition the statement is false: two notify_one of different threads for the
   same sleeping worker are both enabled and each disables the other (on a reachable state of a well-formed
   configuration) *)
Theorem C17_commute_without_cv_condition_refuted :
  exists n thr progs es p e1 e2,
    wf_config n progs = true /\ run (init n thr progs) es = Some p /\
    actor_of e1 <> actor_of e2 /\ lockfree p e1 = true /\ lockfree p e2 = true /\
    cv_action p e1 && cv_action p e2 = true /\
    step p e1 <> None /\ step p e2 <> None /\
    (forall q1, step p e1 = Some q1 -> step q1 e2 = None) /\
    (forall q2, step p e2 = Some q2 -> step q2 e1 = None).
Proof. exact commute_without_cv_condition_refuted. Qed.
Print Assumptions C17_commute_without_cv_condition_refuted.

Example C17_commute_nonvacuous :
  let p := state_after 2 (fun _ => false) nv_progs nv_trace in
  wf_config 2 nv_progs = true /\ reachable 2 (fun _ => false) nv_progs p /\
  (actor_of (EGet 0) <> actor_of (EFinish 1) /\ lockfree p (EGet 0) = true /\ lockfree p (EFinish 1) = true /\
   cv_action p (EGet 0) && cv_action p (EFinish 1) = false /\ step p (EGet 0) <> None /\ step p (EFinish 1) <> None) /\
  (actor_of (EFinish 1) <> actor_of (ECheck 0) /\ lockfree p (EFinish 1) = true /\ lockfree p (ECheck 0) = false /\
   cv_action p (EFinish 1) && cv_action p (ECheck 0) = false /\ step p (ECheck 0) <> None) /\
  match step p (EGet 0), step p (EFinish 1) with
  | Some q1, Some q2 =>
      match step q1 (EFinish 1), step q2 (EGet 0) with
      | Some r1, Some r2 => finished r1 = [1; 2] /\ finished r2 = [1; 2] /\ stg (subs r1 0) = stg (subs r2 0)
      | _, _ => False
      end
  | _, _ => False
  end.
Proof. exact commute_nonvacuous. Qed.
