(* C17 -- Thread pool runs every task exactly once, completes, shuts down cleanly.
   Every theorem quantifies over ALL reachable states of the interleaving model C17_Defs.step, i.e. over
   every schedule of any number of workers, submitting threads and tasks (wf_config: >= 1 worker, unique
   task ids, ~pool_t last in its thread, called by at most one thread and only after the other threads
   finished their calls). *)
From Coq Require Import List Arith Bool ZArith.
From LN Require Import C17_Defs C17_Proofs C17_Statements C17_Termination.
Import ListNotations.

Theorem C17_at_most_once : forall n thr progs, wf_config n progs = true -> forall p, reachable n thr progs p ->
  NoDup (map fst (ran p) ++ map fst (inline p)).
Proof. exact s_at_most_once. Qed.
Print Assumptions C17_at_most_once.

Theorem C17_exactly_once_on_return : forall n thr progs, wf_config n progs = true -> forall p s r, reachable n thr progs p ->
  s < ns p -> In r (results (subs p s)) -> r_inline r = false ->
  Forall (executed_once p) (r_tasks r) /\
  r_exn r = (if r_raise r then find (throws p) (r_tasks r) else None).
Proof. exact s_map_returns. Qed.
Print Assumptions C17_exactly_once_on_return.

Theorem C17_inline_path : forall n thr progs, wf_config n progs = true -> forall p s r, reachable n thr progs p ->
  s < ns p -> In r (results (subs p s)) -> r_inline r = true ->
  r_exn r = find (throws p) (r_tasks r) /\
  (r_exn r = None -> Forall (executed_once p) (r_tasks r)).
Proof. exact s_map_inline_returns. Qed.
Print Assumptions C17_inline_path.

Theorem C17_worker_id : forall n thr progs, wf_config n progs = true -> forall p, reachable n thr progs p ->
  (forall t w, In (t, w) (ran p) -> w < nw p) /\
  (forall w w' t, workers p w = WRunning t -> workers p w' = WRunning t -> w = w') /\
  (forall w t, workers p w = WRunning t -> In (t, w) (ran p) /\ ~ In t (finished p)).
Proof. exact s_worker_id. Qed.
Print Assumptions C17_worker_id.

Theorem C17_no_lost_wakeup : forall n thr progs, wf_config n progs = true -> forall p, reachable n thr progs p ->
  queue p <> [] ->
  (exists w, w < nw p /\ (workers p w = WIdle \/ exists t, workers p w = WRunning t)) \/
  (exists s, s < ns p /\ (stg (subs p s) = SNotifyOne \/ (exists ts r, stg (subs p s) = SNotifyAll ts r) \/
                          stg (subs p s) = SNotifyStop)).
Proof. exact s_no_lost_wakeup. Qed.
Print Assumptions C17_no_lost_wakeup.

Theorem C17_deadlock_free : forall n thr progs, wf_config n progs = true -> forall p, reachable n thr progs p -> final p = false ->
  exists e q, step p e = Some q.
Proof. exact s_deadlock_free. Qed.
Print Assumptions C17_deadlock_free.

Theorem C17_shutdown : forall n thr progs, wf_config n progs = true -> forall p, reachable n thr progs p -> stop p = true -> final p = true ->
  forall w, w < nw p -> workers p w = WExited.
Proof. exact s_shutdown. Qed.
Print Assumptions C17_shutdown.

Theorem C17_dropped_never_ran : forall n thr progs, wf_config n progs = true -> forall p t, reachable n thr progs p ->
  In t (dropped p) -> ~ In t (map fst (ran p)) /\ ~ In t (finished p).
Proof. exact s_dropped_never_ran. Qed.
Print Assumptions C17_dropped_never_ran.

(* liveness, up to scheduler fairness: without spurious wake-ups every execution is finite (an explicit bound),
   and by deadlock freedom a non-final state always has a successor, so every maximal such execution ends in a
   final state: all calls returned and, if the pool was destroyed, all workers exited (C17_shutdown) *)
Theorem C17_bounded_executions : forall es p q,
  run p es = Some q -> no_spurious es = true -> length es + measure q <= measure p.
Proof. exact bounded_executions. Qed.
Print Assumptions C17_bounded_executions.

Theorem C17_chunks_tile : forall elements chunksize : Z,
  (1 <= chunksize)%Z -> (0 <= elements)%Z ->
  tiles 0 elements chunksize (chunks elements chunksize) /\
  chunks_inline elements chunksize = chunks elements chunksize.
Proof. intros e c Hc He. split; [exact (s_chunks_tile e c Hc He) | exact (s_chunks_inline_same e c)]. Qed.
Print Assumptions C17_chunks_tile.

Theorem C17_chunks_partition : forall (elements chunksize i : Z),
  (1 <= chunksize)%Z -> (0 <= i < elements)%Z ->
  (exists b e, In (b, e) (chunks elements chunksize) /\ (b <= i < e)%Z) /\
  (forall b1 e1 b2 e2, In (b1, e1) (chunks elements chunksize) -> In (b2, e2) (chunks elements chunksize) ->
     (b1 <= i < e1)%Z -> (b2 <= i < e2)%Z -> (b1, e1) = (b2, e2)).
Proof.
  intros el cs i Hc Hi. assert (Ht := s_chunks_tile el cs Hc ltac:(apply Z.lt_le_incl; apply (Z.le_lt_trans _ i); apply Hi)).
  split; [exact (tiles_cover _ _ _ _ i Ht Hi) | intros b1 e1 b2 e2 I1 I2; exact (tiles_disjoint _ _ _ _ Ht b1 e1 b2 e2 i I1 I2)].
Qed.
Print Assumptions C17_chunks_partition.

Theorem C17_chunked_inline_consistent : forall size elements chunksize : Z,
  (1 <= chunksize)%Z -> (0 <= elements)%Z ->
  chunked_inline size elements chunksize = indexed_inline size (Z.of_nat (length (chunks elements chunksize))).
Proof. exact s_chunked_inline_consistent. Qed.
Print Assumptions C17_chunked_inline_consistent.

(* non-vacuity: a concrete configuration (2 workers, a submitter running a 3-task map with a throwing task
   and a fire-and-forget enqueue, a destroyer thread) is well-formed and a concrete interleaving runs to a
   final state in which the invariants can be read off *)
Definition ex_progs : list (list call) := [[CMap [1; 2; 3] true; CEnqueue 4]; [CDestroy]].
Definition ex_trace : list event :=
  [EPush 0; ECheck 0; ENotify 0 None; ECheck 1; EFinish 1; EFinish 0; ECheck 1; ECheck 0; EFinish 1;
   EGet 0; EGet 0; EWait 0; EWait 0; EWait 0; EWait 0;
   EPush 0; ENotify 0 (Some 0); EStop 1; ENotifyStop 1; ECheck 0; ECheck 1; EJoin 1].
Example C17_nonvacuous :
  wf_config 2 ex_progs = true /\
  match run (init 2 (fun t => Nat.eqb t 2) ex_progs) ex_trace with
  | Some p => final p = true /\ map fst (ran p) = [1; 2; 3] /\ dropped p = [4] /\
              map r_exn (results (subs p 0)) = [Some 2]
  | None => False
  end.
Proof. vm_compute. repeat split; reflexivity. Qed.
