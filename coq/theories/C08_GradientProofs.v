(* C08 -- proofs about the value-level gradient model (C08_Gradient.v). *)
From Coq Require Import List ZArith Bool Lia Floats.
From LNGen Require Import Src_c08.
From LN Require Import C08_Defs C08_Proofs C08_Gradient.
Import ListNotations.
Local Open Scope Z_scope.

(* ---------------------------------------------------------------------------------------------- *)
(* row-major images: flat_map over rows of constant-width rows                                     *)
(* ---------------------------------------------------------------------------------------------- *)
Lemma flat_map_const_len {A} (f : nat -> list A) (w : nat) : (forall i, length (f i) = w) ->
  forall n s, length (flat_map f (seq s n)) = (n * w)%nat.
Proof.
  intros Hw n. induction n as [|n IH]; intro s; cbn; [reflexivity|].
  rewrite app_length, Hw, IH. reflexivity.
Qed.

Lemma flat_map_const_nth {A} (f : nat -> list A) (w : nat) : (forall i, length (f i) = w) ->
  forall n s i j d, (i < n)%nat -> (j < w)%nat -> nth (i * w + j) (flat_map f (seq s n)) d = nth j (f (s + i)%nat) d.
Proof.
  intros Hw n. induction n as [|n IH]; intros s i j d Hi Hj; [lia|].
  cbn [seq flat_map]. destruct i as [|i].
  - cbn [Nat.mul Nat.add]. rewrite app_nth1 by (rewrite Hw; lia). rewrite Nat.add_0_r. reflexivity.
  - rewrite app_nth2 by (rewrite Hw; nia). rewrite Hw.
    replace (S i * w + j - w)%nat with (i * w + j)%nat by nia.
    rewrite IH by lia. f_equal. f_equal. lia.
Qed.

Lemma flat_map_map {A B C} (g : A -> B) (f : B -> list C) l : flat_map f (map g l) = flat_map (fun x => f (g x)) l.
Proof. induction l; cbn; congruence. Qed.

(* an image built by two nested loops over zseq rows / zseq cols *)
Definition image {A} (cell : Z -> Z -> A) (rows cols : Z) : list A :=
  flat_map (fun row => map (fun col => cell row col) (zseq cols)) (zseq rows).

Lemma image_len {A} (cell : Z -> Z -> A) rows cols : 0 <= rows -> 0 <= cols -> zlen (image cell rows cols) = rows * cols.
Proof.
  intros Hr Hc. unfold image, zseq at 2. rewrite flat_map_map. unfold zlen.
  rewrite (flat_map_const_len _ (Z.to_nat cols)).
  - nia.
  - intro i. unfold zseq. rewrite !map_length, seq_length. reflexivity.
Qed.

Lemma image_nth {A} (cell : Z -> Z -> A) rows cols row col d :
  0 <= row < rows -> 0 <= col < cols -> znth (row * cols + col) (image cell rows cols) d = cell row col.
Proof.
  intros Hr Hc. unfold image, zseq at 2, znth. rewrite flat_map_map.
  replace (Z.to_nat (row * cols + col)) with (Z.to_nat row * Z.to_nat cols + Z.to_nat col)%nat by nia.
  rewrite (flat_map_const_nth _ (Z.to_nat cols)); try lia.
  - cbn [Nat.add]. rewrite (nth_map_lt _ _ _ _ 0).
    + rewrite nth_zseq by lia. f_equal. lia.
    + unfold zseq. rewrite map_length, seq_length. lia.
  - intro i. unfold zseq. rewrite !map_length, seq_length. reflexivity.
Qed.

Lemma gradient3x3_image atan2 mode kw rows cols img :
  gradient3x3 atan2 mode kw rows cols img = image (grad_cell atan2 mode kw (src_grad_in_cols cols) img) rows cols.
Proof. reflexivity. Qed.

(* ---------------------------------------------------------------------------------------------- *)
(* 1. every window read and every output write is in bounds                                       *)
(* ---------------------------------------------------------------------------------------------- *)
Lemma g_reads_in_bounds : forall rows cols row col,
  1 <= rows -> 1 <= cols -> 0 <= row < rows -> 0 <= col < cols ->
  (forall r c, In (r, c) (gx_reads row col ++ gy_reads row col) ->
     0 <= r < src_grad_in_rows rows /\ 0 <= c < src_grad_in_cols cols /\
     0 <= in_index (src_grad_in_cols cols) r c < src_grad_in_rows rows * src_grad_in_cols cols) /\
  0 <= row * cols + col < rows * cols.
Proof.
  intros rows cols row col Hr Hc Hrow Hcol. split; [|nia].
  intros r c Hin.
  assert (B : 0 <= r < src_grad_in_rows rows /\ 0 <= c < src_grad_in_cols cols).
  { unfold gx_reads, gy_reads in Hin. cbn [app In] in Hin.
    unfold src_grad_in_rows, src_grad_in_cols.
    repeat (destruct Hin as [Hin|Hin]; [inversion Hin; subst; clear Hin;
      unfold src_gx_r0, src_gx_r1, src_gx_r2, src_gx_r3, src_gx_r4, src_gx_r5,
             src_gx_c0, src_gx_c1, src_gx_c2, src_gx_c3, src_gx_c4, src_gx_c5,
             src_gy_r0, src_gy_r1, src_gy_r2, src_gy_r3, src_gy_r4, src_gy_r5,
             src_gy_c0, src_gy_c1, src_gy_c2, src_gy_c3, src_gy_c4, src_gy_c5; lia|]).
    destruct Hin. }
  destruct B as [B1 B2]. repeat split; try lia; unfold in_index; nia.
Qed.

Lemma g_channel_in_bounds : forall channels isz ch, 0 <= isz -> 0 <= ch < channels ->
  0 <= ch * isz /\ ch * isz + isz <= channels * isz.
Proof. intros. nia. Qed.

Lemma t_gradient_reads_in_bounds : forall atan2 mode kw rows cols img row col,
  1 <= rows -> 1 <= cols -> 0 <= row < rows -> 0 <= col < cols ->
  (* the twelve reads of the output cell (row, col) are inside the (rows + 2) x (cols + 2) input *)
  (forall r c, In (r, c) (gx_reads row col ++ gy_reads row col) ->
     0 <= r < src_grad_in_rows rows /\ 0 <= c < src_grad_in_cols cols /\
     0 <= in_index (src_grad_in_cols cols) r c < src_grad_in_rows rows * src_grad_in_cols cols) /\
  (* the write output(row, col) is inside rows x cols, the output has rows * cols cells and cell row * cols + col of
     it is the value computed for (row, col) *)
  0 <= row * cols + col < rows * cols /\
  zlen (gradient3x3 atan2 mode kw rows cols img) = rows * cols /\
  znth (row * cols + col) (gradient3x3 atan2 mode kw rows cols img) f_nan =
    grad_cell atan2 mode kw (src_grad_in_cols cols) img row col /\
  (* values.tensor(channel) lies inside the per-sample (channels, rows + 2, cols + 2) block *)
  (forall channels ch, 0 <= ch < channels ->
     0 <= ch * (src_grad_in_rows rows * src_grad_in_cols cols) /\
     ch * (src_grad_in_rows rows * src_grad_in_cols cols) + src_grad_in_rows rows * src_grad_in_cols cols
       <= channels * (src_grad_in_rows rows * src_grad_in_cols cols)).
Proof.
  intros atan2 mode kw rows cols img row col Hr Hc Hrow Hcol.
  destruct (g_reads_in_bounds rows cols row col Hr Hc Hrow Hcol) as [R W].
  split; [exact R|]. split; [exact W|]. rewrite gradient3x3_image.
  split; [apply image_len; lia|]. split; [apply image_nth; lia|].
  intros channels ch Hch. apply g_channel_in_bounds; [|lia].
  unfold src_grad_in_rows, src_grad_in_cols. nia.
Qed.

(* ---------------------------------------------------------------------------------------------- *)
(* 2. layout: generated feature <-> (channel, mode)                                                *)
(* ---------------------------------------------------------------------------------------------- *)
Definition grad_desc (f : feature) : feature := f64 1 (f_d1 f - 2) (f_d2 f - 2).
Definition grad_feat (i : Z) (f : feature) (j : Z) : gfeat :=
  mkG GGradient i j (grad_desc f) ((f_d1 f - 2) * (f_d2 f - 2)).

Lemma grad_block_image i f :
  grad_block i f = image (fun ch ty => grad_feat i f (ch * 4 + ty)) (f_d0 f) 4.
Proof. reflexivity. Qed.

Lemma quot_rem_4 ch ty : 0 <= ch -> 0 <= ty < 4 -> Z.quot (ch * 4 + ty) 4 = ch /\ Z.rem (ch * 4 + ty) 4 = ty.
Proof.
  intros Hc Ht. rewrite Z.quot_div_nonneg, Z.rem_mod_nonneg by lia.
  split; [rewrite Z.div_add_l by lia; rewrite Z.div_small by lia; lia |
          rewrite Z.add_comm, Z.mod_add by lia; apply Z.mod_small; lia].
Qed.

Lemma t_gradient_layout : forall i f,
  0 <= f_d0 f ->
  (* 4 features per channel; the two separately written loop conditions of do_fit agree *)
  zlen (grad_block i f) = src_grad_count (f_d0 f) /\
  (forall rows cols, src_grad_applies_count rows cols = src_grad_applies rows cols) /\
  (* the j-th generated feature: source i, packed (channel, mode) = j, float64 descriptor (1, rows - 2, cols - 2),
     column size (rows - 2) * (cols - 2) = process()'s colsize = the dataset's column count *)
  (forall j, 0 <= j < 4 * f_d0 f ->
     znth j (grad_block i f) (grad_feat i f 0) = grad_feat i f j /\
     grad_channel (grad_feat i f j) = Z.quot j 4 /\ grad_mode (grad_feat i f j) = Z.rem j 4 /\
     0 <= grad_channel (grad_feat i f j) < f_d0 f /\ 0 <= grad_mode (grad_feat i f j) < 4 /\
     grad_channel (grad_feat i f j) * 4 + grad_mode (grad_feat i f j) = j) /\
  (* ... and every (channel, mode) is the image of exactly one j *)
  (forall ch ty, 0 <= ch < f_d0 f -> 0 <= ty < 4 ->
     0 <= ch * 4 + ty < 4 * f_d0 f /\
     grad_channel (grad_feat i f (ch * 4 + ty)) = ch /\ grad_mode (grad_feat i f (ch * 4 + ty)) = ty /\
     forall j, 0 <= j < 4 * f_d0 f -> grad_channel (grad_feat i f j) = ch -> grad_mode (grad_feat i f j) = ty ->
               j = ch * 4 + ty) /\
  (* dims of the descriptor: one channel, (rows - 2) x (cols - 2) >= 1 x 1 when the generator applies *)
  (src_grad_applies (f_d1 f) (f_d2 f) = true ->
     desc_dims (grad_desc f) = (1, f_d1 f - 2, f_d2 f - 2) /\ 1 <= f_d1 f - 2 /\ 1 <= f_d2 f - 2 /\
     desc_cols (grad_desc f) = (f_d1 f - 2) * (f_d2 f - 2) /\
     grad_rows (grad_feat i f 0) = f_d1 f - 2 /\ grad_cols (grad_feat i f 0) = f_d2 f - 2).
Proof.
  intros i f H0.
  assert (QR : forall j, 0 <= j < 4 * f_d0 f ->
                 Z.quot j 4 * 4 + Z.rem j 4 = j /\ 0 <= Z.quot j 4 < f_d0 f /\ 0 <= Z.rem j 4 < 4).
  { intros j Hj. rewrite Z.quot_div_nonneg, Z.rem_mod_nonneg by lia.
    pose proof (Z.div_mod j 4 ltac:(lia)). pose proof (Z.mod_pos_bound j 4 ltac:(lia)).
    assert (0 <= j / 4 < f_d0 f) by (split; [apply Z.div_pos; lia | apply Z.div_lt_upper_bound; lia]). lia. }
  split; [rewrite grad_block_image, image_len by lia; unfold src_grad_count; lia|].
  split; [reflexivity|].
  split.
  { intros j Hj. destruct (QR j Hj) as (E & Bq & Br).
    assert (GC : grad_channel (grad_feat i f j) = Z.quot j 4) by reflexivity.
    assert (GM : grad_mode (grad_feat i f j) = Z.rem j 4) by reflexivity.
    rewrite GC, GM. repeat split; try lia.
    rewrite grad_block_image. rewrite <- E at 1. rewrite image_nth by lia. rewrite E. reflexivity. }
  split.
  { intros ch ty Hc Ht. destruct (quot_rem_4 ch ty ltac:(lia) Ht) as [Q R].
    assert (GC : forall j, grad_channel (grad_feat i f j) = Z.quot j 4) by reflexivity.
    assert (GM : forall j, grad_mode (grad_feat i f j) = Z.rem j 4) by reflexivity.
    rewrite GC, GM. repeat split; try lia.
    intros j Hj Hq Hr. rewrite GC in Hq. rewrite GM in Hr. destruct (QR j Hj) as (E & _ & _). lia. }
  intro Ha. unfold src_grad_applies in Ha. apply andb_true_iff in Ha. destruct Ha as [A1 A2].
  apply Z.geb_le in A1. apply Z.geb_le in A2.
  repeat split; try lia.
  unfold desc_cols, grad_desc, f64, fsize, src_cols_struct. cbn [f_type f_d0 f_d1 f_d2]. ring.
Qed.

Lemma fit_gradient_blocks st ids :
  fit_gradient st ids =
  flat_map (fun i => if src_grad_applies (f_d1 (ds_feature st i)) (f_d2 (ds_feature st i))
                     then grad_block i (ds_feature st i) else [])
           (select_ids st GGradient ids).
Proof. reflexivity. Qed.

(* ---------------------------------------------------------------------------------------------- *)
(* 3. characterisation of gx, gy, magnitude, angle and of the kernel weights                      *)
(* ---------------------------------------------------------------------------------------------- *)
Lemma t_gradient_spec : forall atan2 k0 k1 k2 ic img row col,
  let a := in_at ic img in
  let gx := make_gx (k0, k1, k2) ic img row col in
  let gy := make_gy (k0, k1, k2) ic img row col in
  let p00 := a row col in let p01 := a row (col + 1) in let p02 := a row (col + 2) in
  let p10 := a (row + 1) col in let p12 := a (row + 1) (col + 2) in
  let p20 := a (row + 2) col in let p21 := a (row + 2) (col + 1) in let p22 := a (row + 2) (col + 2) in
  gx = (k0 * (p02 - p00) + k1 * (p12 - p10) + k2 * (p22 - p20))%float /\
  gy = (k0 * (p20 - p00) + k1 * (p21 - p01) + k2 * (p22 - p02))%float /\
  grad_cell atan2 0 (k0, k1, k2) ic img row col = gx /\
  grad_cell atan2 1 (k0, k1, k2) ic img row col = gy /\
  grad_cell atan2 2 (k0, k1, k2) ic img row col = PrimFloat.sqrt (gx * gx + gy * gy)%float /\
  grad_cell atan2 3 (k0, k1, k2) ic img row col = atan2 gy gx /\
  make_kernel3x3 Sobel = (f_quarter, f_half, f_quarter) /\
  make_kernel3x3 Scharr = (f_3_16, f_10_16, f_3_16) /\
  make_kernel3x3 Prewitt = (f_third, f_third, f_third).
Proof.
  intros atan2 k0 k1 k2 ic img row col a gx gy p00 p01 p02 p10 p12 p20 p21 p22.
  split.
  { subst gx a p00 p01 p02 p10 p12 p20 p21 p22. unfold make_gx, gg_of_reads, gx_reads. cbn [map fst snd]. unfold make_gg.
    unfold src_gx_r0, src_gx_r1, src_gx_r2, src_gx_r3, src_gx_r4, src_gx_r5,
           src_gx_c0, src_gx_c1, src_gx_c2, src_gx_c3, src_gx_c4, src_gx_c5.
    rewrite ?Z.add_0_r. reflexivity. }
  split.
  { subst gy a p00 p01 p02 p10 p12 p20 p21 p22. unfold make_gy, gg_of_reads, gy_reads. cbn [map fst snd]. unfold make_gg.
    unfold src_gy_r0, src_gy_r1, src_gy_r2, src_gy_r3, src_gy_r4, src_gy_r5,
           src_gy_c0, src_gy_c1, src_gy_c2, src_gy_c3, src_gy_c4, src_gy_c5.
    rewrite ?Z.add_0_r. reflexivity. }
  repeat split; try reflexivity; vm_compute; reflexivity.
Qed.

(* ---------------------------------------------------------------------------------------------- *)
(* 4. value facts in binary64                                                                     *)
(* ---------------------------------------------------------------------------------------------- *)
(* finite = a zero or a (sub)normal number *)
Definition finite (x : float) : Prop :=
  match Prim2SF x with S754_zero _ | S754_finite _ _ _ => True | _ => False end.

(* x - x = +0 for every finite x (round to nearest) *)
Lemma sub_self x : finite x -> (x - x)%float = f_zero.
Proof.
  intro H. rewrite <- (SF2Prim_Prim2SF (x - x)). rewrite sub_spec. unfold finite in H.
  destruct (Prim2SF x) as [s| s | | s m e]; try contradiction.
  - destruct s; reflexivity.
  - unfold SF64sub, SFsub. rewrite Z.min_id. unfold shl_align. rewrite !Z.sub_diag. reflexivity.
Qed.

Lemma t_gradient_constant : forall kern ic img row col v,
  finite v ->
  (forall r c, In (r, c) (gx_reads row col ++ gy_reads row col) -> in_at ic img r c = v) ->
  let gx := make_gx (make_kernel3x3 kern) ic img row col in
  let gy := make_gy (make_kernel3x3 kern) ic img row col in
  gx = f_zero /\ gy = f_zero /\ magnitude gx gy = f_zero.
Proof.
  intros kern ic img row col v Hv Hc gx gy.
  assert (Gx : gx = f_zero).
  { subst gx. unfold make_gx, gg_of_reads, gx_reads. cbn [map fst snd].
    rewrite !Hc by (unfold gx_reads, gy_reads; cbn [app In]; tauto).
    destruct kern; cbv [make_gg make_kernel3x3]; rewrite (sub_self v Hv); vm_compute; reflexivity. }
  assert (Gy : gy = f_zero).
  { subst gy. unfold make_gy, gg_of_reads, gy_reads. cbn [map fst snd].
    rewrite !Hc by (unfold gx_reads, gy_reads; cbn [app In]; tauto).
    destruct kern; cbv [make_gg make_kernel3x3]; rewrite (sub_self v Hv); vm_compute; reflexivity. }
  rewrite Gx, Gy. split; [reflexivity|]. split; [reflexivity|]. vm_compute. reflexivity.
Qed.

(* the square root is NaN or >= 0 (the sign bit is set only on sqrt(-0) = -0, and 0 <= -0 holds) *)
Lemma sqrt_sign x :
  match SF64sqrt x with
  | S754_nan | S754_zero _ | S754_infinity false | S754_finite false _ _ => True
  | _ => False
  end.
Proof.
  unfold SF64sqrt, SFsqrt. destruct x as [s|[|]| |[|] m e]; try exact I.
  destruct (SFsqrt_core_binary prec emax (Z.pos m) e) as [[mz ez] lz].
  unfold binary_round_aux.
  destruct (shr_fexp prec emax mz ez lz) as [mrs' e'].
  destruct (shr_fexp prec emax (round_nearest_even (shr_m mrs') (loc_of_shr_record mrs')) e' loc_Exact) as [mrs'' e''].
  destruct (shr_m mrs''); try exact I.
  destruct (Zle_bool e'' (emax - prec)); exact I.
Qed.

Definition f_nonneg (x : float) : bool := (f_zero <=? x)%float.

Lemma sqrt_nonneg_or_nan x : f_is_nan (PrimFloat.sqrt x) = true \/ f_nonneg (PrimFloat.sqrt x) = true.
Proof.
  unfold f_is_nan, f_nonneg, PrimFloat.is_nan. rewrite eqb_spec, leb_spec, sqrt_spec.
  pose proof (sqrt_sign (Prim2SF x)) as H.
  replace (Prim2SF f_zero) with (S754_zero false) by reflexivity.
  destruct (SF64sqrt (Prim2SF x)) as [s|[|]| |[|] m e]; try contradiction; cbn; auto.
Qed.

Lemma t_gradient_magnitude : forall gx gy, f_is_nan (magnitude gx gy) = true \/ f_nonneg (magnitude gx gy) = true.
Proof. intros. unfold magnitude. apply sqrt_nonneg_or_nan. Qed.

(* ---------------------------------------------------------------------------------------------- *)
(* 4c. swapping the image left-right negates gx -- over an abstract scalar structure               *)
(* ---------------------------------------------------------------------------------------------- *)
(* In binary64 the three hypotheses hold only up to the sign of zero (x - x = +0 = -(x - x) fails bitwise, see
   flip_float_counterexample), so the fact is stated for any scalar type whose subtraction is antisymmetric and whose
   multiplication / addition commute with negation; make_gg / make_gx ARE the abstract functions at PrimFloat. *)
Section AbstractScalar.
Variable S : Type.
Variables (add sub mul : S -> S -> S) (opp : S -> S).
Hypothesis sub_anti : forall a b, sub a b = opp (sub b a).
Hypothesis mul_opp : forall k a, mul k (opp a) = opp (mul k a).
Hypothesis add_opp : forall a b, add (opp a) (opp b) = opp (add a b).

Definition gg_abs (k0 k1 k2 v0 v1 v2 v3 v4 v5 : S) : S :=
  add (add (mul k0 (sub v0 v1)) (mul k1 (sub v2 v3))) (mul k2 (sub v4 v5)).
Definition gg_reads_abs (k0 k1 k2 : S) (a : Z -> Z -> S) (rs : list (Z * Z)) (d : S) : S :=
  match map (fun rc => a (fst rc) (snd rc)) rs with
  | [v0; v1; v2; v3; v4; v5] => gg_abs k0 k1 k2 v0 v1 v2 v3 v4 v5
  | _ => d
  end.
Definition gx_abs (k0 k1 k2 : S) (a : Z -> Z -> S) (row col : Z) (d : S) : S :=
  gg_reads_abs k0 k1 k2 a (gx_reads row col) d.
(* the image with in_cols columns, mirrored left-right *)
Definition flip_lr (in_cols : Z) (a : Z -> Z -> S) : Z -> Z -> S := fun r c => a r (in_cols - 1 - c).

Lemma gg_abs_swap k0 k1 k2 v0 v1 v2 v3 v4 v5 :
  gg_abs k0 k1 k2 v1 v0 v3 v2 v5 v4 = opp (gg_abs k0 k1 k2 v0 v1 v2 v3 v4 v5).
Proof.
  unfold gg_abs. rewrite (sub_anti v1 v0), (sub_anti v3 v2), (sub_anti v5 v4), !mul_opp, !add_opp. reflexivity.
Qed.

(* output column col of the mirrored image = minus output column (cols - 1 - col) of the original, cols = in_cols - 2 *)
Lemma gx_flip k0 k1 k2 a in_cols row col d :
  gx_abs k0 k1 k2 (flip_lr in_cols a) row col d = opp (gx_abs k0 k1 k2 a row (in_cols - 2 - 1 - col) d).
Proof.
  unfold gx_abs, gg_reads_abs, gx_reads, flip_lr. cbn [map fst snd].
  unfold src_gx_r0, src_gx_r1, src_gx_r2, src_gx_r3, src_gx_r4, src_gx_r5,
         src_gx_c0, src_gx_c1, src_gx_c2, src_gx_c3, src_gx_c4, src_gx_c5.
  replace (in_cols - 1 - (col + 2)) with (in_cols - 2 - 1 - col) by lia.
  replace (in_cols - 2 - 1 - col + 2) with (in_cols - 1 - col) by lia.
  apply gg_abs_swap.
Qed.
End AbstractScalar.

Lemma make_gx_is_abstract k0 k1 k2 ic img row col :
  make_gx (k0, k1, k2) ic img row col =
  gx_abs float PrimFloat.add PrimFloat.sub PrimFloat.mul k0 k1 k2 (in_at ic img) row col f_nan.
Proof. reflexivity. Qed.

Lemma t_gradient_flip : forall (S : Type) (add sub mul : S -> S -> S) (opp : S -> S),
  (forall a b, sub a b = opp (sub b a)) -> (forall k a, mul k (opp a) = opp (mul k a)) ->
  (forall a b, add (opp a) (opp b) = opp (add a b)) ->
  (forall k0 k1 k2 a in_cols row col d,
     gx_abs S add sub mul k0 k1 k2 (flip_lr S in_cols a) row col d =
     opp (gx_abs S add sub mul k0 k1 k2 a row (in_cols - 2 - 1 - col) d)) /\
  (* the float model is this abstract function at PrimFloat *)
  (forall k0 k1 k2 ic img row col,
     make_gx (k0, k1, k2) ic img row col =
     gx_abs float PrimFloat.add PrimFloat.sub PrimFloat.mul k0 k1 k2 (in_at ic img) row col f_nan).
Proof.
  intros S add sub mul opp H1 H2 H3. split.
  - intros. apply gx_flip; auto.
  - intros. reflexivity.
Qed.

(* in binary64 the identity is false bitwise: a constant image and its mirror both give gx = +0, and -(+0) = -0 *)
Definition ones9 : list float := map z2f [1; 1; 1; 1; 1; 1; 1; 1; 1].
Lemma flip_float_counterexample :
  make_gx (make_kernel3x3 Sobel) 3 ones9 0 0 <> (- make_gx (make_kernel3x3 Sobel) 3 (rev ones9) 0 0)%float /\
  (make_gx (make_kernel3x3 Sobel) 3 ones9 0 0 =? - make_gx (make_kernel3x3 Sobel) 3 (rev ones9) 0 0)%float = true.
Proof.
  split; [|vm_compute; reflexivity].
  intro H. apply (f_equal Prim2SF) in H. vm_compute in H. discriminate H.
Qed.

(* ---------------------------------------------------------------------------------------------- *)
(* 5. the float-valued flatten row = concatenation of the per-feature views                       *)
(* ---------------------------------------------------------------------------------------------- *)
Section FlatV.
Context {V : Type}.
Variable E : kernel3 -> gfeat -> flag -> list V.

Fixpoint enc_list_v (kern : kernel3) (fs : list gfeat) (fls : list flag) : list V :=
  match fs with [] => [] | g :: r => E kern g (hd Normal fls) ++ enc_list_v kern r (tl fls) end.
Fixpoint enc_gens_v (kerns : list kernel3) (gs : gens) (fl : flags) : list V :=
  match gs with
  | [] => []
  | fs :: r => enc_list_v (hd Sobel kerns) fs (hd [] fl) ++ enc_gens_v (tl kerns) r (tl fl)
  end.

Lemma enc_list_v_len kern fs fls :
  (forall g fl, In g fs -> zlen (E kern g fl) = g_colsize g) -> zlen (enc_list_v kern fs fls) = colsum fs.
Proof.
  revert fls; induction fs as [|g fs IH]; intros fls H; cbn; [reflexivity|].
  rewrite zlen_app, H by (left; auto). unfold colsum in *. cbn. rewrite IH; auto. intros; apply H; right; auto.
Qed.

Lemma flat_gen_v_spec kern : forall fs fls pre rest post,
  (forall g fl, In g fs -> zlen (E kern g fl) = g_colsize g) ->
  zlen rest = colsum fs ->
  flat_gen_v E kern fs fls (zlen pre) (pre ++ rest ++ post) = pre ++ enc_list_v kern fs fls ++ post.
Proof.
  induction fs as [|g fs IH]; intros fls pre rest post Henc Hlen; cbn.
  - unfold colsum in Hlen; cbn in Hlen. destruct rest; [reflexivity | unfold zlen in Hlen; cbn in Hlen; lia].
  - set (e := E kern g (hd Normal fls)).
    assert (He : zlen e = g_colsize g) by (apply Henc; left; auto).
    assert (Hc : colsum (g :: fs) = g_colsize g + colsum fs) by reflexivity.
    assert (Hcs : 0 <= colsum fs).
    { rewrite <- (enc_list_v_len kern fs (tl fls)); [unfold zlen; lia|]. intros; apply Henc; right; auto. }
    set (c := Z.to_nat (g_colsize g)).
    assert (Hr : rest = firstn c rest ++ skipn c rest) by (symmetry; apply firstn_skipn).
    assert (Lf : length (firstn c rest) = length e).
    { rewrite firstn_length. unfold zlen in *. lia. }
    rewrite Hr, <- app_assoc.
    replace (Z.to_nat (zlen pre)) with (length pre) by (unfold zlen; lia).
    rewrite write_seg_app by auto.
    replace (zlen pre + g_colsize g) with (zlen (pre ++ e)) by (rewrite zlen_app; lia).
    rewrite (app_assoc pre e).
    rewrite IH.
    + rewrite <- !app_assoc. reflexivity.
    + intros; apply Henc; right; auto.
    + unfold zlen in *. rewrite skipn_length. lia.
Qed.

Lemma enc_gens_v_len kerns gs fl :
  (forall kern g f, In g (concat gs) -> zlen (E kern g f) = g_colsize g) ->
  zlen (enc_gens_v kerns gs fl) = zsum (map colsum gs).
Proof.
  revert kerns fl; induction gs as [|fs gs IH]; intros kerns fl H; cbn; [reflexivity|].
  rewrite zlen_app, enc_list_v_len, IH; [reflexivity| |].
  - intros; apply H; cbn; apply in_or_app; right; auto.
  - intros; apply H; cbn; apply in_or_app; left; auto.
Qed.

Lemma flat_gens_v_spec : forall gs kerns fl gm pre rest post,
  (forall kern g f, In g (concat gs) -> zlen (E kern g f) = g_colsize g) ->
  gm = map colsum gs ->
  zlen rest = zsum (map colsum gs) ->
  flat_gens_v E kerns gs fl gm (zlen pre) (pre ++ rest ++ post) = pre ++ enc_gens_v kerns gs fl ++ post.
Proof.
  induction gs as [|fs gs IH]; intros kerns fl gm pre rest post Henc Hgm Hlen; cbn.
  - cbn in Hlen. destruct rest; [reflexivity | unfold zlen in Hlen; cbn in Hlen; lia].
  - subst gm. cbn [map hd tl]. cbn in Hlen.
    assert (Hfs : forall kern g f, In g fs -> zlen (E kern g f) = g_colsize g).
    { intros; apply Henc; cbn; apply in_or_app; left; auto. }
    assert (Hcs : 0 <= colsum fs).
    { rewrite <- (enc_list_v_len Sobel fs []); [unfold zlen; lia | auto]. }
    assert (Hgs : 0 <= fold_right Z.add 0 (map colsum gs)).
    { change (fold_right Z.add 0 (map colsum gs)) with (zsum (map colsum gs)).
      rewrite <- (enc_gens_v_len [] gs []); [unfold zlen; lia|].
      intros; apply Henc; cbn; apply in_or_app; right; auto. }
    set (c := Z.to_nat (colsum fs)).
    assert (Hr : rest = firstn c rest ++ skipn c rest) by (symmetry; apply firstn_skipn).
    rewrite Hr, <- app_assoc.
    rewrite flat_gen_v_spec; auto.
    2:{ unfold zlen in *. rewrite firstn_length. lia. }
    set (e := enc_list_v (hd Sobel kerns) fs (hd [] fl)).
    assert (He : zlen e = colsum fs) by (apply enc_list_v_len; auto).
    replace (zlen pre + colsum fs) with (zlen (pre ++ e)) by (rewrite zlen_app; lia).
    rewrite (app_assoc pre e).
    rewrite IH; auto.
    + rewrite <- !app_assoc. reflexivity.
    + intros; apply Henc; cbn; apply in_or_app; right; auto.
    + unfold zlen, zsum in *. rewrite skipn_length. lia.
Qed.

End FlatV.

Lemma enc_gens_v_ext {V} (E1 E2 : kernel3 -> gfeat -> flag -> list V) : forall gs kerns fl,
  (forall kern g f, In g (concat gs) -> E1 kern g f = E2 kern g f) ->
  enc_gens_v E1 kerns gs fl = enc_gens_v E2 kerns gs fl.
Proof.
  induction gs as [|fs gs IH]; intros kerns fl H; cbn; [reflexivity|].
  f_equal.
  - assert (L : forall fs' fls, (forall g, In g fs' -> In g fs) ->
                enc_list_v E1 (hd Sobel kerns) fs' fls = enc_list_v E2 (hd Sobel kerns) fs' fls).
    { induction fs' as [|g fs' IH']; intros fls Hin; cbn; [reflexivity|].
      rewrite H by (cbn; apply in_or_app; left; apply Hin; left; auto).
      f_equal. apply IH'. intros; apply Hin; right; auto. }
    apply L; auto.
  - apply IH. intros; apply H; cbn; apply in_or_app; right; auto.
Qed.

(* a gradient feature as fit builds it: float64 descriptor (1, rows, cols) with rows, cols >= 0 *)
Definition grad_ok (g : gfeat) : Prop :=
  g_kind g = GGradient ->
  f_type (g_desc g) = TF64 /\ f_d0 (g_desc g) = 1 /\ 0 <= grad_rows g /\ 0 <= grad_cols g.
Definition gens_ok_f (rd : reader) (gs : gens) : Prop :=
  gens_ok rd gs /\ forall g, In g (concat gs) -> grad_ok g.

(* the per-feature piece of the row: the encoded per-feature (select) view *)
Definition view_enc_f atan2 (s : Z) (rd : reader) (kern : kernel3) (g : gfeat) (fl : flag) : frow :=
  match g_kind g with
  | GGradient => select_view_f atan2 kern rd g fl s
  | _ => map zcell2f (encode_view (f_classes (g_desc g)) (select_view rd g fl s))
  end.

Lemma grad_image_len atan2 kern g v : 0 <= grad_rows g -> 0 <= grad_cols g ->
  zlen (grad_image atan2 kern g v) = grad_rows g * grad_cols g.
Proof. intros. unfold grad_image. rewrite gradient3x3_image. apply image_len; auto. Qed.

Lemma grad_colsize g : cols_ok g -> grad_ok g -> g_kind g = GGradient ->
  g_colsize g = grad_rows g * grad_cols g /\ fsize (g_desc g) = grad_rows g * grad_cols g.
Proof.
  intros Hc Hg Hk. destruct (Hg Hk) as (T & D0 & _ & _).
  unfold cols_ok, desc_cols in Hc. rewrite T in Hc. unfold src_cols_struct in Hc.
  unfold fsize, grad_rows, grad_cols in *. rewrite D0 in *. lia.
Qed.

Lemma enc_flat_f_view atan2 rd kern g fl s :
  cols_ok g -> value_ok rd g -> grad_ok g ->
  enc_flat_f atan2 kern rd g fl s = view_enc_f atan2 s rd kern g fl.
Proof.
  intros Hc Hv Hg. unfold enc_flat_f, view_enc_f, select_view_f.
  destruct (g_kind g) eqn:K; try (rewrite enc_flat_encode by auto; reflexivity).
  destruct (grad_colsize g Hc Hg K) as [E1 E2]. rewrite E1, E2. reflexivity.
Qed.

Lemma enc_flat_f_len atan2 rd kern g fl s :
  cols_ok g -> value_ok rd g -> 0 <= g_colsize g -> grad_ok g ->
  zlen (enc_flat_f atan2 kern rd g fl s) = g_colsize g.
Proof.
  intros Hc Hv Hn Hg. unfold enc_flat_f.
  assert (Zm : forall A B (f : A -> B) l, zlen (map f l) = zlen l) by (intros; unfold zlen; rewrite map_length; reflexivity).
  destruct (g_kind g) eqn:K; try (rewrite Zm; apply enc_flat_len; auto).
  destruct (grad_colsize g Hc Hg K) as [E1 _]. destruct (Hg K) as (_ & _ & R & C).
  destruct (grad_source rd g fl s).
  - rewrite Zm, grad_image_len; auto.
  - apply zlen_zrepeat; auto.
Qed.

Lemma flat_row_f_spec atan2 kerns rd gs fl s r :
  gens_ok_f rd gs -> zlen r = columns gs ->
  flat_row_f atan2 kerns rd gs fl s r = enc_gens_v (view_enc_f atan2 s rd) kerns gs fl.
Proof.
  intros [Hok Hg] Hlen. unfold flat_row_f, generator_mapping.
  assert (Hcols : Forall (Forall cols_ok) gs).
  { apply Forall_forall. intros fs Hfs. apply Forall_forall. intros g Hin. apply Hok. apply in_concat. eauto. }
  pose proof (flat_gens_v_spec (fun kern g f => enc_flat_f atan2 kern rd g f s) gs kerns fl (genmap_from 0 gs) [] r []) as H.
  cbn [app] in H. rewrite !app_nil_r in H. change (zlen []) with 0 in H. rewrite H.
  - apply enc_gens_v_ext. intros kern g f Hin. destruct (Hok g Hin) as (H1 & H2 & H3).
    apply enc_flat_f_view; auto.
  - intros kern g f Hin. destruct (Hok g Hin) as (H1 & H2 & H3). apply enc_flat_f_len; auto.
  - apply genmap_from_spec; auto.
  - rewrite Hlen. apply columns_colsum; auto.
Qed.

(* every gradient feature built by fit satisfies grad_ok when the source dims are >= 0 *)
Lemma fit_grad_ok st k ids1 ids2 :
  (forall i, 0 <= f_d1 (ds_feature st i) - 2 /\ 0 <= f_d2 (ds_feature st i) - 2 \/
             src_grad_applies (f_d1 (ds_feature st i)) (f_d2 (ds_feature st i)) = false) ->
  Forall grad_ok (fit st k ids1 ids2).
Proof.
  intro Hd. apply Forall_forall. intros g Hg Hk. unfold fit in Hg.
  destruct k; unfold fit_identity, fit_product, fit_gradient in Hg;
    try (apply in_map_iff in Hg; destruct Hg as (x & <- & _); cbn in Hk; try destruct x; discriminate Hk).
  apply in_flat_map in Hg. destruct Hg as (i & _ & Hg).
  destruct (src_grad_applies _ _) eqn:A; [|destruct Hg].
  unfold grad_block in Hg. apply in_flat_map in Hg. destruct Hg as (ch & _ & Hg).
  apply in_map_iff in Hg. destruct Hg as (ty & <- & _).
  unfold grad_rows, grad_cols, f64, src_grad_out_channels, src_grad_out_rows, src_grad_out_cols. cbn [g_desc f_type f_d0 f_d1 f_d2].
  destruct (Hd i) as [[B1 B2]|B]; [repeat split; auto | congruence].
Qed.

Lemma t_views_agree_gradient : forall atan2 kerns rd gs fl s r,
  gens_ok_f rd gs -> zlen r = columns gs ->
  (* the float-valued row is the concatenation of the encoded per-feature views, whatever the stale buffer *)
  flat_row_f atan2 kerns rd gs fl s r = enc_gens_v (view_enc_f atan2 s rd) kerns gs fl /\
  (* ... and the piece of a gradient feature is its select view = the row-major gradient image of the source sample
     (at the permuted sample if shuffled), all NaN when the feature is dropped or the source sample is not given *)
  (forall kern g f, In g (concat gs) -> g_kind g = GGradient ->
     view_enc_f atan2 s rd kern g f = select_view_f atan2 kern rd g f s /\
     zlen (view_enc_f atan2 s rd kern g f) = g_colsize g /\ g_colsize g = grad_rows g * grad_cols g /\
     (forall v, is_dropped f = false -> rd (g_o1 g) (eff_sample f s) = Some v ->
        view_enc_f atan2 s rd kern g f = map Some (grad_image atan2 kern g v) /\
        forall row col, 0 <= row < grad_rows g -> 0 <= col < grad_cols g ->
          znth (row * grad_cols g + col) (view_enc_f atan2 s rd kern g f) None =
          Some (grad_cell atan2 (grad_mode g) (make_kernel3x3 kern) (src_grad_in_cols (grad_cols g)) (grad_input g v) row col)) /\
     (is_dropped f = true \/ rd (g_o1 g) (eff_sample f s) = None ->
        view_enc_f atan2 s rd kern g f = zrepeat None (g_colsize g))).
Proof.
  intros atan2 kerns rd gs fl s r Hok Hlen. split; [apply flat_row_f_spec; auto|].
  intros kern g f Hin Hk. destruct Hok as [Hok Hg]. destruct (Hok g Hin) as (H1 & H2 & H3).
  specialize (Hg g Hin). destruct (grad_colsize g H1 Hg Hk) as [E1 E2]. destruct (Hg Hk) as (_ & _ & R & C).
  assert (VE : view_enc_f atan2 s rd kern g f = select_view_f atan2 kern rd g f s) by (unfold view_enc_f; rewrite Hk; reflexivity).
  split; [exact VE|]. split.
  { rewrite <- (enc_flat_f_view atan2 rd kern g f s) by auto. apply enc_flat_f_len; auto. }
  split; [exact E1|]. split.
  - intros v Hd Hv. rewrite VE. unfold select_view_f, grad_source. rewrite Hk, Hd, Hv. split; [reflexivity|].
    intros row col Hr Hc. unfold grad_image. rewrite gradient3x3_image. unfold znth.
    rewrite (nth_map_lt _ _ _ _ f_nan).
    + f_equal. apply (image_nth _ (grad_rows g) (grad_cols g) row col f_nan); auto.
    + pose proof (image_len (grad_cell atan2 (grad_mode g) (make_kernel3x3 kern) (src_grad_in_cols (grad_cols g)) (grad_input g v))
                            (grad_rows g) (grad_cols g) R C) as L. unfold zlen in L. nia.
  - intros Hm. rewrite VE. unfold select_view_f, grad_source. rewrite Hk, E2, E1.
    destruct Hm as [Hm|Hm]; [rewrite Hm; reflexivity|]. destruct (is_dropped f); [reflexivity|]. rewrite Hm. reflexivity.
Qed.
