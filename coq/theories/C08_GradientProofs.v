(* C08 -- proofs about the value-level gradient model (C08_Gradient.v). *)
From Coq Require Import List ZArith Bool Lia Floats.
From LNGen Require Import Src_c08.
From LN Require Import C08_Defs C08_Proofs C08_Gradient.
Import ListNotations.
Local Open Scope Z_scope.

(* ---------------------------------------------------------------------------------------------- *)
(* row-major images: flat_map over rows of constant-width rows                                     *)
(* ---------------------------------------------------------------------------------------------- *)
Lemma flat_map_const_len {A} (f : nat -> list A) (w : nat) : (forall i, length (f i) = w) ->
  forall n s, length (flat_map f (seq s n)) = (n * w)%nat.
Proof.
  intros Hw n. induction n as [|n IH]; intro s; cbn; [reflexivity|].
  rewrite app_length, Hw, IH. reflexivity.
Qed.

Lemma flat_map_const_nth {A} (f : nat -> list A) (w : nat) : (forall i, length (f i) = w) ->
  forall n s i j d, (i < n)%nat -> (j < w)%nat -> nth (i * w + j) (flat_map f (seq s n)) d = nth j (f (s + i)%nat) d.
Proof.
  intros Hw n. induction n as [|n IH]; intros s i j d Hi Hj; [lia|].
  cbn [seq flat_map]. destruct i as [|i].
  - cbn [Nat.mul Nat.add]. rewrite app_nth1 by (rewrite Hw; lia). rewrite Nat.add_0_r. reflexivity.
  - rewrite app_nth2 by (rewrite Hw; nia). rewrite Hw.
    replace (S i * w + j - w)%nat with (i * w + j)%nat by nia.
    rewrite IH by lia. f_equal. f_equal. lia.
Qed.

Lemma flat_map_map {A B C} (g : A -> B) (f : B -> list C) l : flat_map f (map g l) = flat_map (fun x => f (g x)) l.
Proof. induction l; cbn; congruence. Qed.

(* an image built by two nested loops over zseq rows / zseq cols *)
Definition image {A} (cell : Z -> Z -> A) (rows cols : Z) : list A :=
  flat_map (fun row => map (fun col => cell row col) (zseq cols)) (zseq rows).

Lemma image_len {A} (cell : Z -> Z -> A) rows cols : 0 <= rows -> 0 <= cols -> zlen (image cell rows cols) = rows * cols.
Proof.
  intros Hr Hc. unfold image, zseq at 2. rewrite flat_map_map. unfold zlen.
  rewrite (flat_map_const_len _ (Z.to_nat cols)).
  - nia.
  - intro i. unfold zseq. rewrite !map_length, seq_length. reflexivity.
Qed.

Lemma image_nth {A} (cell : Z -> Z -> A) rows cols row col d :
  0 <= row < rows -> 0 <= col < cols -> znth (row * cols + col) (image cell rows cols) d = cell row col.
Proof.
  intros Hr Hc. unfold image, zseq at 2, znth. rewrite flat_map_map.
  replace (Z.to_nat (row * cols + col)) with (Z.to_nat row * Z.to_nat cols + Z.to_nat col)%nat by nia.
  rewrite (flat_map_const_nth _ (Z.to_nat cols)); try lia.
  - cbn [Nat.add]. rewrite (nth_map_lt _ _ _ _ 0).
    + rewrite nth_zseq by lia. f_equal. lia.
    + unfold zseq. rewrite map_length, seq_length. lia.
  - intro i. unfold zseq. rewrite !map_length, seq_length. reflexivity.
Qed.

Lemma gradient3x3_image atan2 mode kw rows cols img :
  gradient3x3 atan2 mode kw rows cols img = image (grad_cell atan2 mode kw (src_grad_in_cols cols) img) rows cols.
Proof. reflexivity. Qed.

(* ---------------------------------------------------------------------------------------------- *)
(* 1. every window read and every output write is in bounds                                       *)
(* ---------------------------------------------------------------------------------------------- *)
Lemma g_reads_in_bounds : forall rows cols row col,
  1 <= rows -> 1 <= cols -> 0 <= row < rows -> 0 <= col < cols ->
  (forall r c, In (r, c) (gx_reads row col ++ gy_reads row col) ->
     0 <= r < src_grad_in_rows rows /\ 0 <= c < src_grad_in_cols cols /\
     0 <= in_index (src_grad_in_cols cols) r c < src_grad_in_rows rows * src_grad_in_cols cols) /\
  0 <= row * cols + col < rows * cols.
Proof.
  intros rows cols row col Hr Hc Hrow Hcol. split; [|nia].
  intros r c Hin.
  assert (B : 0 <= r < src_grad_in_rows rows /\ 0 <= c < src_grad_in_cols cols).
  { unfold gx_reads, gy_reads in Hin. cbn [app In] in Hin.
    unfold src_grad_in_rows, src_grad_in_cols.
    repeat (destruct Hin as [Hin|Hin]; [inversion Hin; subst; clear Hin;
      unfold src_gx_r0, src_gx_r1, src_gx_r2, src_gx_r3, src_gx_r4, src_gx_r5,
             src_gx_c0, src_gx_c1, src_gx_c2, src_gx_c3, src_gx_c4, src_gx_c5,
             src_gy_r0, src_gy_r1, src_gy_r2, src_gy_r3, src_gy_r4, src_gy_r5,
             src_gy_c0, src_gy_c1, src_gy_c2, src_gy_c3, src_gy_c4, src_gy_c5; lia|]).
    destruct Hin. }
  destruct B as [B1 B2]. repeat split; try lia; unfold in_index; nia.
Qed.

Lemma g_channel_in_bounds : forall channels isz ch, 0 <= isz -> 0 <= ch < channels ->
  0 <= ch * isz /\ ch * isz + isz <= channels * isz.
Proof. intros. nia. Qed.

Lemma t_gradient_reads_in_bounds : forall atan2 mode kw rows cols img row col,
  1 <= rows -> 1 <= cols -> 0 <= row < rows -> 0 <= col < cols ->
  (* the twelve reads of the output cell (row, col) are inside the (rows + 2) x (cols + 2) input *)
  (forall r c, In (r, c) (gx_reads row col ++ gy_reads row col) ->
     0 <= r < src_grad_in_rows rows /\ 0 <= c < src_grad_in_cols cols /\
     0 <= in_index (src_grad_in_cols cols) r c < src_grad_in_rows rows * src_grad_in_cols cols) /\
  (* the write output(row, col) is inside rows x cols, the output has rows * cols cells and cell row * cols + col of
     it is the value computed for (row, col) *)
  0 <= row * cols + col < rows * cols /\
  zlen (gradient3x3 atan2 mode kw rows cols img) = rows * cols /\
  znth (row * cols + col) (gradient3x3 atan2 mode kw rows cols img) f_nan =
    grad_cell atan2 mode kw (src_grad_in_cols cols) img row col /\
  (* values.tensor(channel) lies inside the per-sample (channels, rows + 2, cols + 2) block *)
  (forall channels ch, 0 <= ch < channels ->
     0 <= ch * (src_grad_in_rows rows * src_grad_in_cols cols) /\
     ch * (src_grad_in_rows rows * src_grad_in_cols cols) + src_grad_in_rows rows * src_grad_in_cols cols
       <= channels * (src_grad_in_rows rows * src_grad_in_cols cols)).
Proof.
  intros atan2 mode kw rows cols img row col Hr Hc Hrow Hcol.
  destruct (g_reads_in_bounds rows cols row col Hr Hc Hrow Hcol) as [R W].
  split; [exact R|]. split; [exact W|]. rewrite gradient3x3_image.
  split; [apply image_len; lia|]. split; [apply image_nth; lia|].
  intros channels ch Hch. apply g_channel_in_bounds; [|lia].
  unfold src_grad_in_rows, src_grad_in_cols. nia.
Qed.

(* ---------------------------------------------------------------------------------------------- *)
(* 2. layout: generated feature <-> (channel, mode)                                                *)
(* ---------------------------------------------------------------------------------------------- *)
Definition grad_desc (f : feature) : feature := f64 1 (f_d1 f - 2) (f_d2 f - 2).
Definition grad_feat (i : Z) (f : feature) (j : Z) : gfeat :=
  mkG GGradient i j (grad_desc f) ((f_d1 f - 2) * (f_d2 f - 2)).

Lemma grad_block_image i f :
  grad_block i f = image (fun ch ty => grad_feat i f (ch * 4 + ty)) (f_d0 f) 4.
Proof. reflexivity. Qed.

Lemma quot_rem_4 ch ty : 0 <= ch -> 0 <= ty < 4 -> Z.quot (ch * 4 + ty) 4 = ch /\ Z.rem (ch * 4 + ty) 4 = ty.
Proof.
  intros Hc Ht. rewrite Z.quot_div_nonneg, Z.rem_mod_nonneg by lia.
  split; [rewrite Z.div_add_l by lia; rewrite Z.div_small by lia; lia |
          rewrite Z.add_comm, Z.mod_add by lia; apply Z.mod_small; lia].
Qed.

Lemma t_gradient_layout : forall i f,
  0 <= f_d0 f ->
  (* 4 features per channel; the two separately written loop conditions of do_fit agree *)
  zlen (grad_block i f) = src_grad_count (f_d0 f) /\
  (forall rows cols, src_grad_applies_count rows cols = src_grad_applies rows cols) /\
  (* the j-th generated feature: source i, packed (channel, mode) = j, float64 descriptor (1, rows - 2, cols - 2),
     column size (rows - 2) * (cols - 2) = process()'s colsize = the dataset's column count *)
  (forall j, 0 <= j < 4 * f_d0 f ->
     znth j (grad_block i f) (grad_feat i f 0) = grad_feat i f j /\
     grad_channel (grad_feat i f j) = Z.quot j 4 /\ grad_mode (grad_feat i f j) = Z.rem j 4 /\
     0 <= grad_channel (grad_feat i f j) < f_d0 f /\ 0 <= grad_mode (grad_feat i f j) < 4 /\
     grad_channel (grad_feat i f j) * 4 + grad_mode (grad_feat i f j) = j) /\
  (* ... and every (channel, mode) is the image of exactly one j *)
  (forall ch ty, 0 <= ch < f_d0 f -> 0 <= ty < 4 ->
     0 <= ch * 4 + ty < 4 * f_d0 f /\
     grad_channel (grad_feat i f (ch * 4 + ty)) = ch /\ grad_mode (grad_feat i f (ch * 4 + ty)) = ty /\
     forall j, 0 <= j < 4 * f_d0 f -> grad_channel (grad_feat i f j) = ch -> grad_mode (grad_feat i f j) = ty ->
               j = ch * 4 + ty) /\
  (* dims of the descriptor: one channel, (rows - 2) x (cols - 2) >= 1 x 1 when the generator applies *)
  (src_grad_applies (f_d1 f) (f_d2 f) = true ->
     desc_dims (grad_desc f) = (1, f_d1 f - 2, f_d2 f - 2) /\ 1 <= f_d1 f - 2 /\ 1 <= f_d2 f - 2 /\
     desc_cols (grad_desc f) = (f_d1 f - 2) * (f_d2 f - 2) /\
     grad_rows (grad_feat i f 0) = f_d1 f - 2 /\ grad_cols (grad_feat i f 0) = f_d2 f - 2).
Proof.
  intros i f H0.
  assert (QR : forall j, 0 <= j < 4 * f_d0 f ->
                 Z.quot j 4 * 4 + Z.rem j 4 = j /\ 0 <= Z.quot j 4 < f_d0 f /\ 0 <= Z.rem j 4 < 4).
  { intros j Hj. rewrite Z.quot_div_nonneg, Z.rem_mod_nonneg by lia.
    pose proof (Z.div_mod j 4 ltac:(lia)). pose proof (Z.mod_pos_bound j 4 ltac:(lia)).
    assert (0 <= j / 4 < f_d0 f) by (split; [apply Z.div_pos; lia | apply Z.div_lt_upper_bound; lia]). lia. }
  split; [rewrite grad_block_image, image_len by lia; unfold src_grad_count; lia|].
  split; [reflexivity|].
  split.
  { intros j Hj. destruct (QR j Hj) as (E & Bq & Br).
    assert (GC : grad_channel (grad_feat i f j) = Z.quot j 4) by reflexivity.
    assert (GM : grad_mode (grad_feat i f j) = Z.rem j 4) by reflexivity.
    rewrite GC, GM. repeat split; try lia.
    rewrite grad_block_image. rewrite <- E at 1. rewrite image_nth by lia. rewrite E. reflexivity. }
  split.
  { intros ch ty Hc Ht. destruct (quot_rem_4 ch ty ltac:(lia) Ht) as [Q R].
    assert (GC : forall j, grad_channel (grad_feat i f j) = Z.quot j 4) by reflexivity.
    assert (GM : forall j, grad_mode (grad_feat i f j) = Z.rem j 4) by reflexivity.
    rewrite GC, GM. repeat split; try lia.
    intros j Hj Hq Hr. rewrite GC in Hq. rewrite GM in Hr. destruct (QR j Hj) as (E & _ & _). lia. }
  intro Ha. unfold src_grad_applies in Ha. apply andb_true_iff in Ha. destruct Ha as [A1 A2].
  apply Z.geb_le in A1. apply Z.geb_le in A2.
  repeat split; try lia.
  unfold desc_cols, grad_desc, f64, fsize, src_cols_struct. cbn [f_type f_d0 f_d1 f_d2]. ring.
Qed.

Lemma fit_gradient_blocks st ids :
  fit_gradient st ids =
  flat_map (fun i => if src_grad_applies (f_d1 (ds_feature st i)) (f_d2 (ds_feature st i))
                     then grad_block i (ds_feature st i) else [])
           (select_ids st GGradient ids).
Proof. reflexivity. Qed.

(* ---------------------------------------------------------------------------------------------- *)
(* 3. characterisation of gx, gy, magnitude, angle and of the kernel weights                      *)
(* ---------------------------------------------------------------------------------------------- *)
Lemma t_gradient_spec : forall atan2 k0 k1 k2 ic img row col,
  let a := in_at ic img in
  let gx := make_gx (k0, k1, k2) ic img row col in
  let gy := make_gy (k0, k1, k2) ic img row col in
  let p00 := a row col in let p01 := a row (col + 1) in let p02 := a row (col + 2) in
  let p10 := a (row + 1) col in let p12 := a (row + 1) (col + 2) in
  let p20 := a (row + 2) col in let p21 := a (row + 2) (col + 1) in let p22 := a (row + 2) (col + 2) in
  gx = (k0 * (p02 - p00) + k1 * (p12 - p10) + k2 * (p22 - p20))%float /\
  gy = (k0 * (p20 - p00) + k1 * (p21 - p01) + k2 * (p22 - p02))%float /\
  grad_cell atan2 0 (k0, k1, k2) ic img row col = gx /\
  grad_cell atan2 1 (k0, k1, k2) ic img row col = gy /\
  grad_cell atan2 2 (k0, k1, k2) ic img row col = PrimFloat.sqrt (gx * gx + gy * gy)%float /\
  grad_cell atan2 3 (k0, k1, k2) ic img row col = atan2 gy gx /\
  make_kernel3x3 Sobel = (f_quarter, f_half, f_quarter) /\
  make_kernel3x3 Scharr = (f_3_16, f_10_16, f_3_16) /\
  make_kernel3x3 Prewitt = (f_third, f_third, f_third).
Proof.
  intros atan2 k0 k1 k2 ic img row col a gx gy p00 p01 p02 p10 p12 p20 p21 p22.
  split.
  { subst gx a p00 p01 p02 p10 p12 p20 p21 p22. unfold make_gx, gg_of_reads, gx_reads. cbn [map fst snd]. unfold make_gg.
    unfold src_gx_r0, src_gx_r1, src_gx_r2, src_gx_r3, src_gx_r4, src_gx_r5,
           src_gx_c0, src_gx_c1, src_gx_c2, src_gx_c3, src_gx_c4, src_gx_c5.
    rewrite ?Z.add_0_r. reflexivity. }
  split.
  { subst gy a p00 p01 p02 p10 p12 p20 p21 p22. unfold make_gy, gg_of_reads, gy_reads. cbn [map fst snd]. unfold make_gg.
    unfold src_gy_r0, src_gy_r1, src_gy_r2, src_gy_r3, src_gy_r4, src_gy_r5,
           src_gy_c0, src_gy_c1, src_gy_c2, src_gy_c3, src_gy_c4, src_gy_c5.
    rewrite ?Z.add_0_r. reflexivity. }
  repeat split; try reflexivity; vm_compute; reflexivity.
Qed.

(* ---------------------------------------------------------------------------------------------- *)
(* 4. value facts in binary64                                                                     *)
(* ---------------------------------------------------------------------------------------------- *)
(* finite = a zero or a (sub)normal number *)
Definition finite (x : float) : Prop :=
  match Prim2SF x with S754_zero _ | S754_finite _ _ _ => True | _ => False end.

(* x - x = +0 for every finite x (round to nearest) *)
Lemma sub_self x : finite x -> (x - x)%float = f_zero.
Proof.
  intro H. rewrite <- (SF2Prim_Prim2SF (x - x)). rewrite sub_spec. unfold finite in H.
  destruct (Prim2SF x) as [s| s | | s m e]; try contradiction.
  - destruct s; reflexivity.
  - unfold SF64sub, SFsub. rewrite Z.min_id. unfold shl_align. rewrite !Z.sub_diag. reflexivity.
Qed.

Lemma t_gradient_constant : forall kern ic img row col v,
  finite v ->
  (forall r c, In (r, c) (gx_reads row col ++ gy_reads row col) -> in_at ic img r c = v) ->
  let gx := make_gx (make_kernel3x3 kern) ic img row col in
  let gy := make_gy (make_kernel3x3 kern) ic img row col in
  gx = f_zero /\ gy = f_zero /\ magnitude gx gy = f_zero.
Proof.
  intros kern ic img row col v Hv Hc gx gy.
  assert (Gx : gx = f_zero).
  { subst gx. unfold make_gx, gg_of_reads, gx_reads. cbn [map fst snd].
    rewrite !Hc by (unfold gx_reads, gy_reads; cbn [app In]; tauto).
    destruct kern; cbv [make_gg make_kernel3x3]; rewrite (sub_self v Hv); vm_compute; reflexivity. }
  assert (Gy : gy = f_zero).
  { subst gy. unfold make_gy, gg_of_reads, gy_reads. cbn [map fst snd].
    rewrite !Hc by (unfold gx_reads, gy_reads; cbn [app In]; tauto).
    destruct kern; cbv [make_gg make_kernel3x3]; rewrite (sub_self v Hv); vm_compute; reflexivity. }
  rewrite Gx, Gy. split; [reflexivity|]. split; [reflexivity|]. vm_compute. reflexivity.
Qed.

(* the square root is NaN or >= 0 (the sign bit is set only on sqrt(-0) = -0, and 0 <= -0 holds) *)
Lemma sqrt_sign x :
  match SF64sqrt x with
  | S754_nan | S754_zero _ | S754_infinity false | S754_finite false _ _ => True
  | _ => False
  end.
Proof.
  unfold SF64sqrt, SFsqrt. destruct x as [s|[|]| |[|] m e]; try exact I.
  destruct (SFsqrt_core_binary prec emax (Z.pos m) e) as [[mz ez] lz].
  unfold binary_round_aux.
  destruct (shr_fexp prec emax mz ez lz) as [mrs' e'].
  destruct (shr_fexp prec emax (round_nearest_even (shr_m mrs') (loc_of_shr_record mrs')) e' loc_Exact) as [mrs'' e''].
  destruct (shr_m mrs''); try exact I.
  destruct (Zle_bool e'' (emax - prec)); exact I.
Qed.

Definition f_nonneg (x : float) : bool := (f_zero <=? x)%float.

Lemma sqrt_nonneg_or_nan x : f_is_nan (PrimFloat.sqrt x) = true \/ f_nonneg (PrimFloat.sqrt x) = true.
Proof.
  unfold f_is_nan, f_nonneg, PrimFloat.is_nan. rewrite eqb_spec, leb_spec, sqrt_spec.
  pose proof (sqrt_sign (Prim2SF x)) as H.
  replace (Prim2SF f_zero) with (S754_zero false) by reflexivity.
  destruct (SF64sqrt (Prim2SF x)) as [s|[|]| |[|] m e]; try contradiction; cbn; auto.
Qed.

Lemma t_gradient_magnitude : forall gx gy, f_is_nan (magnitude gx gy) = true \/ f_nonneg (magnitude gx gy) = true.
Proof. intros. unfold magnitude. apply sqrt_nonneg_or_nan. Qed.
