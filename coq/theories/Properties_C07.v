(* C07 -- Line-search steps honour the acceptance conditions they advertise.
   Only statements + `exact` + Print Assumptions live here. Model: C07_Defs (PrimFloat, bit-exact; the predicates and
   interpolation formulas are re-translated from src/solver/state.cpp, src/solver/lstep.cpp, src/lsearchk.cpp on every
   run). Every theorem quantifies over EVERY probe oracle `phi` (the objective along the direction, possibly
   non-deterministic / non-smooth / invalid anywhere), all parameters and every max_iterations >= 1. *)
From Coq Require Import List ZArith Bool.
From Coq Require Floats.
From Coq Require Import Reals.
From LN Require Import C07_Defs C07_Statements C07_Proofs C07_MT C07_CG C07_Budget C07_Real.
From LN Require Import C07_Sign C07_Init_Defs C07_Init_Statements C07_Init.
Import ListNotations.
Import PrimFloat.PrimFloatNotations.   (* notations only: the primitives print as PrimFloat.* in Print Assumptions *)
Local Open Scope float_scope.
Local Notation abs := PrimFloat.abs.

(* a direction with dg0 >= 0 or dg0 = NaN is refused: failure, the step handed back untouched, no evaluation, state
   untouched *)
Theorem C07_refuses_non_descent : forall phi prm p0 a t0,
  (pg p0 <? fzero) = false ->
  let r := ls_get phi prm p0 a t0 in
  ok r = false /\ rt r = t0 /\ trace (rs r) = [] /\ cnt (rs r) = 0%Z /\ cur (rs r) = p0.
Proof. intros phi prm p0 a t0 D r. subst r. rewrite (ls_get_refuses phi prm p0 a t0 D). repeat split. Qed.
Print Assumptions C07_refuses_non_descent.

(* backtracking: success => Armijo, as the float inequality state.cpp evaluates, on (state0, returned state, returned t) *)
Theorem C07_backtrack_armijo : forall phi prm p0 t0,
  (0 < maxit prm)%Z ->
  let r := ls_get phi prm p0 Backtrack t0 in
  ok r = true ->
  (pf (cur (rs r)) <=? pf p0 + rt r * c1 prm * pg p0) = true.
Proof. intros phi prm p0 t0 M r H. exact (proj2 (ls_get_ok phi prm p0 Backtrack t0 M H)). Qed.
Print Assumptions C07_backtrack_armijo.

(* LeMarechal: success => Armijo and Wolfe *)
Theorem C07_lemarechal_wolfe : forall phi prm p0 t0,
  (0 < maxit prm)%Z ->
  let r := ls_get phi prm p0 Lemarechal t0 in
  ok r = true ->
  (pf (cur (rs r)) <=? pf p0 + rt r * c1 prm * pg p0) = true /\
  (c2 prm * pg p0 <=? pg (cur (rs r))) = true.
Proof. intros phi prm p0 t0 M r H. exact (proj2 (ls_get_ok phi prm p0 Lemarechal t0 M H)). Qed.
Print Assumptions C07_lemarechal_wolfe.

(* Fletcher (bracketing and zoom): success => Armijo and strong Wolfe *)
Theorem C07_fletcher_strong_wolfe : forall phi prm p0 t0,
  (0 < maxit prm)%Z ->
  let r := ls_get phi prm p0 Fletcher t0 in
  ok r = true ->
  (pf (cur (rs r)) <=? pf p0 + rt r * c1 prm * pg p0) = true /\
  (abs (pg (cur (rs r))) <=? c2 prm * abs (pg p0)) = true.
Proof. intros phi prm p0 t0 M r H. exact (proj2 (ls_get_ok phi prm p0 Fletcher t0 M H)). Qed.
Print Assumptions C07_fletcher_strong_wolfe.

(* all five (incl. More-Thuente and CG_DESCENT): on success at least one evaluation was made, the returned state IS the
   answer of the last evaluation, and -- whenever that state is valid -- the last evaluation was requested at the
   returned step *)
Theorem C07_success_is_last_probe : forall phi prm p0 a t0,
  (0 < maxit prm)%Z ->
  let r := ls_get phi prm p0 a t0 in
  ok r = true ->
  exists tl rest,
    trace (rs r) = tl :: rest /\ cnt (rs r) = Z.of_nat (S (length rest)) /\
    cur (rs r) = phi (Z.of_nat (length rest)) tl /\
    (pv (cur (rs r)) = true -> tl = rt r).
Proof.
  intros phi prm p0 a t0 M r H.
  destruct (ls_get_ok phi prm p0 a t0 M H) as [[[Hc Hw] [Hn Hs]] _]. fold r in Hc, Hw, Hn, Hs.
  destruct (trace (rs r)) as [|tl rest] eqn:E; [contradiction|].
  exists tl, rest. repeat split; try assumption.
  intros V. destruct (Hs V) as [rest' E']. congruence.
Qed.
Print Assumptions C07_success_is_last_probe.

(* all five: a success never carries an invalid state (after fix 0701278 lsearchk_t::get fails when the `*0.3` loop found
   no valid trial point; before it More-Thuente/LeMarechal/Fletcher could accept the stale state of the previous trial),
   hence every success is the evaluation AT the returned step *)
Theorem C07_success_state_valid_at_step : forall phi prm p0 a t0,
  (0 < maxit prm)%Z ->
  let r := ls_get phi prm p0 a t0 in
  ok r = true ->
  pv (cur (rs r)) = true /\ exists rest, trace (rs r) = rt r :: rest /\
  cur (rs r) = phi (Z.of_nat (length rest)) (rt r).
Proof.
  intros phi prm p0 a t0 M r H.
  pose proof (ls_get_valid phi prm p0 a t0 H) as V. fold r in V. split; [exact V|].
  destruct (ls_get_ok phi prm p0 a t0 M H) as [[[Hc Hw] [Hn Hs]] _]. fold r in Hc, Hw, Hn, Hs.
  destruct (Hs V) as [rest E]. exists rest. split; [exact E|].
  rewrite E in Hw. exact Hw.
Qed.
Print Assumptions C07_success_state_valid_at_step.

(* the guard added by the fix is what excludes it: do_get entered alone with the stale invalid state of the `*0.3` loop
   (as the code did before 0701278) reports success on a state evaluated at another step *)
Theorem C07_do_get_alone_accepts_invalid_state :
  let r := do_get phi_stale (prm_default 2) p0_slope Lemarechal stale_entry t_009 in
  ok r = true /\ pv (cur (rs r)) = false /\ trace (rs r) = [t_03; fone] /\
  PrimFloat.eqb (rt r) t_03 = false.
Proof. exact s_do_get_alone_accepts_invalid_state. Qed.
Print Assumptions C07_do_get_alone_accepts_invalid_state.

(* "up to rounding": over the reals (Flocq; R_of = the real value of a finite double, rnd = rounding to nearest-even in
   binary64) the accepted boolean tests are the textbook inequalities with each operation of the right-hand side rounded
   once -- provided the operands / intermediate results are finite *)
Theorem C07_real_meaning_armijo : forall p0 p t c1,
  PrimFloat.is_finite (pf p) = true -> PrimFloat.is_finite (pf p0) = true ->
  PrimFloat.is_finite (t * c1) = true -> PrimFloat.is_finite (t * c1 * pg p0) = true ->
  PrimFloat.is_finite (pf p0 + t * c1 * pg p0) = true ->
  has_armijo p0 p t c1 = true ->
  (R_of (pf p) <= rnd (R_of (pf p0) + rnd (rnd (R_of t * R_of c1) * R_of (pg p0))))%R.
Proof. exact armijo_real. Qed.
Print Assumptions C07_real_meaning_armijo.

Theorem C07_real_meaning_wolfe : forall p0 p c2,
  PrimFloat.is_finite (pg p) = true -> PrimFloat.is_finite (c2 * pg p0) = true ->
  has_wolfe p0 p c2 = true -> (rnd (R_of c2 * R_of (pg p0)) <= R_of (pg p))%R.
Proof. exact wolfe_real. Qed.
Print Assumptions C07_real_meaning_wolfe.

(* ---------- More-Thuente: WHEN does a reported success carry the strong Wolfe conditions? ----------
   `rx r = XMT m`: m are the locals of do_get (brackt, stmin, stmax, ...) at the `return {true, stp}`; the five disjuncts
   are the five tests of morethuente.cpp (translated from the source on every run), in the order: convergence test,
   then the four "no further progress" exits. ftest = finit + stp * (ftol * ginit) is More-Thuente's own sufficient
   decrease bound (NOT state.cpp's f0 + (t * c1) * dg0: see C07_morethuente_state_armijo_not_implied). *)
Theorem C07_morethuente_success_cases : forall phi prm p0 t0,
  let r := ls_get phi prm p0 MoreThuente t0 in
  ok r = true ->
  exists m, rx r = XMT m /\
  let stp := rt r in
  let f := pf (cur (rs r)) in
  let g := pg (cur (rs r)) in
  let gtest := c1 prm * pg p0 in
  let ftest := pf p0 + stp * gtest in
  (* converged: sufficient decrease and |dg| <= c2 * (-dg0) *)
  ((f <=? ftest) = true /\ (abs g <=? c2 prm * - pg p0) = true) \/
  (* rounding errors prevent progress: the trial step left the bracket *)
  (m_brackt m = true /\ ((stp <=? m_stmin m) = true \/ (m_stmax m <=? stp) = true)) \/
  (* the bracket collapsed: (stmax - stmin) <= xtol * stmax *)
  (m_brackt m = true /\ (m_stmax m - m_stmin m <=? eps0 * m_stmax m) = true) \/
  (* the step is at stpmax, with sufficient decrease and dg <= gtest *)
  ((stpmax <=? stp) = true /\ (f <=? ftest) = true /\ (g <=? gtest) = true) \/
  (* the step is at stpmin, without sufficient decrease or with dg >= gtest *)
  ((stp <=? stpmin) = true /\ ((ftest <? f) = true \/ (gtest <=? g) = true)).
Proof. exact ls_get_mt_cases. Qed.
Print Assumptions C07_morethuente_success_cases.

(* corollary: when none of the four early-exit tests holds at the returned iterate, the success carries More-Thuente's
   sufficient decrease and the strong Wolfe condition exactly as state.cpp's has_strong_wolfe evaluates it *)
Theorem C07_morethuente_strong_wolfe_unless_early_exit : forall phi prm p0 t0,
  let r := ls_get phi prm p0 MoreThuente t0 in
  ok r = true ->
  forall m, rx r = XMT m ->
  let stp := rt r in
  let f := pf (cur (rs r)) in
  let g := pg (cur (rs r)) in
  let gtest := c1 prm * pg p0 in
  let ftest := pf p0 + stp * gtest in
  (m_brackt m && ((stp <=? m_stmin m) || (m_stmax m <=? stp))) = false ->
  (m_brackt m && (m_stmax m - m_stmin m <=? eps0 * m_stmax m)) = false ->
  ((stpmax <=? stp) && (f <=? ftest) && (g <=? gtest)) = false ->
  ((stp <=? stpmin) && ((ftest <? f) || (gtest <=? g))) = false ->
  (f <=? ftest) = true /\ (abs g <=? c2 prm * abs (pg p0)) = true.
Proof. exact ls_get_mt_strong_wolfe_explicit. Qed.
Print Assumptions C07_morethuente_strong_wolfe_unless_early_exit.

(* the third disjunct never decides alone: whenever the collapsed-bracket test holds at a successful return, the rounding
   test -- which precedes it in the source -- holds as well (the iteration that detected the collapse set stp = stx, an
   end of [stmin, stmax]); the second `return {true, stp}` of morethuente.cpp is dead code *)
Theorem C07_morethuente_collapsed_exit_never_taken : forall phi prm p0 t0,
  let r := ls_get phi prm p0 MoreThuente t0 in
  ok r = true ->
  forall m, rx r = XMT m ->
  (m_brackt m && (m_stmax m - m_stmin m <=? eps0 * m_stmax m)) = true ->
  (m_brackt m && ((rt r <=? m_stmin m) || (m_stmax m <=? rt r))) = true.
Proof. exact ls_get_mt_collapsed_never_first. Qed.
Print Assumptions C07_morethuente_collapsed_exit_never_taken.

(* every disjunct is inhabited (flags = the five tests in SOURCE order: rounding, collapsed, stpmax, stpmin, converged):
   (t-1)^2 converges; |t - 1/2| ends with a collapsed bracket (rounding and collapsed hold together: after the iteration
   forced stp = stx the rounding test, which comes first in the source, is the one that returns) without strong Wolfe;
   1 - t ends at stpmax without strong Wolfe; a jump at the origin ends at stpmin with f > f0 *)
Theorem C07_morethuente_exits_reachable :
  (let r := ls_get phi_parab (prm_default 128) p0_parab MoreThuente t_eighth in
   ok r = true /\ mt_exit_flags (prm_default 128) p0_parab r = Some [false; false; false; false; true]) /\
  (let r := ls_get phi_vee (prm_default 128) p0_vee MoreThuente fone in
   ok r = true /\ mt_exit_flags (prm_default 128) p0_vee r = Some [true; true; false; false; false] /\
   has_strong_wolfe p0_vee (cur (rs r)) (c2 (prm_default 128)) = false) /\
  (let r := ls_get phi_linear (prm_default 128) p0_slope MoreThuente fone in
   ok r = true /\ mt_exit_flags (prm_default 128) p0_slope r = Some [false; false; true; false; false] /\
   has_strong_wolfe p0_slope (cur (rs r)) (c2 (prm_default 128)) = false) /\
  (let r := ls_get phi_jump (prm_default 128) p0_slope MoreThuente fone in
   ok r = true /\ mt_exit_flags (prm_default 128) p0_slope r = Some [false; false; false; true; false] /\
   has_armijo p0_slope (cur (rs r)) (rt r) (c1 (prm_default 128)) = false /\ (pf p0_slope <? pf (cur (rs r))) = true).
Proof. exact s_mt_exits_reachable. Qed.
Print Assumptions C07_morethuente_exits_reachable.

(* the convergence test does NOT imply state.cpp's has_armijo: stp * (c1 * dg0) and (stp * c1) * dg0 round differently
   (f0 = 0, dg0 = -3, t = 13/1024, f = t * (c1 * dg0): converged, has_armijo false by one ulp) *)
Theorem C07_morethuente_state_armijo_not_implied :
  let r := ls_get phi_assoc (prm_default 128) p0_assoc MoreThuente t_assoc in
  ok r = true /\ mt_exit_flags (prm_default 128) p0_assoc r = Some [false; false; false; false; true] /\
  has_armijo p0_assoc (cur (rs r)) (rt r) (c1 (prm_default 128)) = false.
Proof. exact s_mt_state_armijo_not_implied. Qed.
Print Assumptions C07_morethuente_state_armijo_not_implied.

(* ---------- CG_DESCENT: a success is `return {state.valid(), t}` after interval_t::done(...) = true ----------
   `rx r = XCG iv bracketed`: the interval [a, b] and the `bracketed` argument of that call. epsilon_k =
   epsilon * |f(x0)| as make_params computes it. The three disjuncts are done's tests (translated from cgdescent.cpp):
   Wolfe (T1 of Hager-Zhang) or approximate Wolfe (T2) at a step inside [a.t, b.t] -- both pairs are tried on every
   call, this implementation has no permanent switch to the approximate conditions --, or "bracketing failed": after
   bracket(), a.f > f0 + epsilon_k or b.g < 0, in which case NO acceptance condition was evaluated. *)
Theorem C07_cgdescent_success_cases : forall phi prm p0 t0,
  let r := ls_get phi prm p0 CGDescent t0 in
  ok r = true ->
  let epsk := cg_epsilon prm * abs (pf p0) in
  let c := cur (rs r) in
  let t := rt r in
  pv c = true /\
  exists iv bracketed, rx r = XCG iv bracketed /\ i_s iv = rs r /\ i_step iv = t /\
  (((t <? st_t (i_a iv)) = false /\ (st_t (i_b iv) <? t) = false /\
    (pf c <=? pf p0 + t * c1 prm * pg p0) = true /\ (c2 prm * pg p0 <=? pg c) = true) \/
   ((t <? st_t (i_a iv)) = false /\ (st_t (i_b iv) <? t) = false /\
    (pf c <=? pf p0 + epsk) = true /\
    ((pg c <=? (ftwo * c1 prm - fone) * pg p0) && (c2 prm * pg p0 <=? pg c)) = true) \/
   (bracketed = true /\ ((pf p0 + epsk <? st_f (i_a iv)) = true \/ (st_g (i_b iv) <? fzero) = true))).
Proof. exact ls_get_cg_cases. Qed.
Print Assumptions C07_cgdescent_success_cases.

(* in the third disjunct the sub-case a.f > f0 + epsilon_k never occurs: `a` only holds the origin or points that passed
   has_approx_armijo. The hypothesis `(f0 + epsilon_k < f0) = false` is a fact about rounding (epsilon_k >= 0 or NaN), true
   for every double f0; it is stated, not proved. Hence "bracketing failed" successes are exactly: b.g < 0 after bracket() *)
Theorem C07_cgdescent_bracketing_failed_lower_end_ok : forall phi prm p0,
  (pf p0 + cg_epsilon prm * abs (pf p0) <? pf p0) = false ->
  forall t0 iv bracketed,
  rx (ls_get phi prm p0 CGDescent t0) = XCG iv bracketed ->
  (pf p0 + cg_epsilon prm * abs (pf p0) <? st_f (i_a iv)) = false.
Proof. exact ls_get_cg_ainv. Qed.
Print Assumptions C07_cgdescent_bracketing_failed_lower_end_ok.

(* every disjunct is inhabited (flags = [bracketed; a.f > f0 + epsilon_k; b.g < 0; step inside [a.t, b.t]; armijo; wolfe;
   approx armijo; approx wolfe]): (t-1)^2 ends with Wolfe; a plateau 2^-24 above f0 is accepted by the approximate
   conditions only (no decrease); on 1 - t bracket() uses up max_iterations and the search "succeeds" at
   t = 5^128 outside [a.t, b.t] with neither Wolfe nor approximate Wolfe *)
Theorem C07_cgdescent_exits_reachable :
  (let r := ls_get phi_parab (prm_default 128) p0_parab CGDescent t_eighth in
   ok r = true /\ cg_exit_flags (prm_default 128) p0_parab r = Some [true; false; false; true; true; true; true; true]) /\
  (let r := ls_get phi_plateau (prm_default 128) p0_slope CGDescent fone in
   ok r = true /\ cg_exit_flags (prm_default 128) p0_slope r = Some [false; false; false; true; false; true; true; true]) /\
  (let r := ls_get phi_linear (prm_default 128) p0_slope CGDescent fone in
   ok r = true /\ cg_exit_flags (prm_default 128) p0_slope r = Some [true; false; true; false; true; false; true; false]).
Proof. exact s_cg_exits_reachable. Qed.
Print Assumptions C07_cgdescent_exits_reachable.

(* ---------- the evaluation budget of ONE lsearchk_t::get call ----------
   `cnt` = number of state.update(x0 + t*d) calls (each = one function_t::vgrad WITH gradient: 1 fcall + 1 gcall), for
   every probe oracle (deterministic or not), all parameters, every max_iterations n >= 1:
   2n for the `*0.3` / `*3` loops of get() + do_get: backtrack n, lemarechal n-1, fletcher (n-1) + n (bracketing + one zoom),
   morethuente n, cgdescent 7n+1 (the mutable m_max_iterations is decremented once per evaluation of bracket()/updateU()
   except the last one of each updateU() call; the main loop makes up to three move+update per iteration) *)
Theorem C07_evaluations_bounded : forall phi prm p0 a t0,
  (0 < maxit prm)%Z ->
  (0 <= cnt (rs (ls_get phi prm p0 a t0)) <= ls_bound a (maxit prm))%Z.
Proof. exact ls_get_cnt. Qed.
Print Assumptions C07_evaluations_bounded.

Theorem C07_evaluation_bound_values : forall n,
  (ls_bound Backtrack n = 3 * n /\ ls_bound Lemarechal n = 3 * n - 1 /\ ls_bound Fletcher n = 4 * n - 1 /\
   ls_bound MoreThuente n = 3 * n /\ ls_bound CGDescent n = 9 * n + 1)%Z.
Proof. exact ls_bound_values. Qed.
Print Assumptions C07_evaluation_bound_values.

(* with the registered default of lsearchk::max_iterations (translated from lsearchk.cpp: 128) one line search costs at most
   384 / 383 / 511 / 384 / 1153 evaluations, i.e. 768 / 766 / 1022 / 768 / 2306 in solver_t's unit fcalls + gcalls *)
Theorem C07_evaluations_bounded_default : forall phi prm p0 a t0,
  maxit prm = default_max_iterations ->
  (0 <= cnt (rs (ls_get phi prm p0 a t0)) <=
   match a with Backtrack => 384 | Lemarechal => 383 | Fletcher => 511 | MoreThuente => 384 | CGDescent => 1153 end)%Z.
Proof. exact ls_get_cnt_default. Qed.
Print Assumptions C07_evaluations_bounded_default.

Theorem C07_default_max_iterations : default_max_iterations = 128%Z /\ min_max_iterations = 1%Z.
Proof. exact default_max_iterations_value. Qed.
Print Assumptions C07_default_max_iterations.

(* the bound is attained by backtrack (384 = 3*128) and lemarechal (383) on an objective whose first 127 trial points are
   invalid and which is flat afterwards; a table-driven oracle drives cgdescent to 62 of the 91 = 9*10+1 evaluations *)
Theorem C07_evaluation_bound_witnesses :
  cnt (rs (ls_get (phi_flat_after 128) (prm_default 128) p0_zero Backtrack fone)) = 384%Z /\
  cnt (rs (ls_get (phi_flat_after 128) (prm_default 128) p0_zero Lemarechal fone)) = 383%Z /\
  cnt (rs (ls_get (phi_table cg_costly_table) (prm_default 10) p0_zero CGDescent fone)) = 62%Z.
Proof. exact s_evaluation_bound_witnesses. Qed.
Print Assumptions C07_evaluation_bound_witnesses.

(* ---------- statements that are FALSE of the faithful model (kept visible in C07_Statements.v; searched on the
   implementation) ---------- *)

(* "success => t > 0": an objective that is invalid for every t > 0 (phi_cliff) drives t to 0 through the `*0.3` loop
   (underflow after ~620 iterations), and backtracking then accepts t = 0 *)
Theorem C07_step_positive_refuted : ~ C07_step_positive_full_statement.
Proof. exact s_step_positive_refuted. Qed.
Print Assumptions C07_step_positive_refuted.

(* ---------- non-vacuity: phi(t) = (t-1)^2, i.e. f0 = 1, dg0 = -2: every search succeeds; refusals exist ---------- *)
Example C07_nonvacuous_success :
  ok (ls_get phi_parab (prm_default 128) p0_parab Backtrack t_eighth) = true /\
  ok (ls_get phi_parab (prm_default 128) p0_parab Lemarechal t_eighth) = true /\
  ok (ls_get phi_parab (prm_default 128) p0_parab Fletcher t_eighth) = true /\
  ok (ls_get phi_parab (prm_default 128) p0_parab MoreThuente t_eighth) = true /\
  ok (ls_get phi_parab (prm_default 128) p0_parab CGDescent t_eighth) = true /\
  rt (ls_get phi_parab (prm_default 128) p0_parab Fletcher t_eighth) = fone /\
  length (trace (rs (ls_get phi_parab (prm_default 128) p0_parab Fletcher t_eighth))) = 2%nat.
Proof. vm_compute. repeat split; reflexivity. Qed.

Example C07_nonvacuous_refusal :
  (pg p0_flat <? fzero) = false /\ (pg p0_nan <? fzero) = false /\ (pg p0_parab <? fzero) = true /\
  ok (ls_get phi_parab (prm_default 128) p0_nan Fletcher fone) = false.
Proof. vm_compute. repeat split; reflexivity. Qed.

(* ====================================================================================================================
   INIT extension: the step-length initialisers lsearch0_t (src/lsearch0/*.cpp) and lsearch_t::get (src/solver/lsearch.cpp)
   Model: C07_Init_Defs (lsearch0_get / lsearch_get / lsearch_run); every comparison and formula is translated from the
   sources on every run. `tr` is the value-only evaluation oracle of lsearch0-cgdescent (step |-> value), `m` the mutable
   members (m_prevf, m_prevdg), `last` = last_step_size, `v` the view of (state, descent): origin probe + |x|_inf, |g|_inf, g.g.
   Every theorem is for ALL oracles, memories, views, last_step_size (NaN / inf included) unless a hypothesis says otherwise.
   ==================================================================================================================== *)

(* (2) constant: t0 is the parameter -- no evaluation, members untouched, and in every run, after every history *)
Theorem C07_init_constant : forall prm0 prm a tr m v last its st,
  lsearch0_get prm0 tr L0Constant m v last = mkIR (l0_const_t0 prm0) m 0%Z None /\
  Forall (fun o => ir_t0 (io_init o) = l0_const_t0 prm0 /\ ir_evals (io_init o) = 0%Z)
         (fst (lsearch_run L0Constant prm0 prm a its st)).
Proof. intros. split; [apply init_constant_spec|apply run_constant]. Qed.
Print Assumptions C07_init_constant.

(* (2) linear / quadratic: the closed forms with libstdc++'s std::min / std::max (fmin a b = (b < a) ? b : a,
   fmax a b = (a < b) ? b : a, in the source's argument order) and the members afterwards: linear reads the CURRENT dg and
   the previous one, quadratic reads the PREVIOUS (f, dg) and the current f; both store the current values AFTER t0 *)
Theorem C07_init_linear_quadratic_closed_form : forall prm0 tr m v last,
  lsearch0_get prm0 tr L0Linear m v last =
    mkIR (if last <? fzero then fone
          else fmin fone ((- l0_lin_alpha prm0 * fmax (- last * m_prevdg m) (l0_lin_beta prm0 * l0_epsilon prm0)) / pg (v_p v)))
         (mkM0 (m_prevf m) (pg (v_p v))) 0%Z None /\
  lsearch0_get prm0 tr L0Quadratic m v last =
    mkIR (if last <? fzero then fone
          else fmin fone ((- l0_quad_alpha prm0 * ftwo * fmax (m_prevf m - pf (v_p v)) (l0_quad_beta prm0 * l0_epsilon prm0)) / m_prevdg m))
         (mkM0 (pf (v_p v)) (pg (v_p v))) 0%Z None.
Proof. intros. split; [apply init_linear_spec|apply init_quadratic_spec]. Qed.
Print Assumptions C07_init_linear_quadratic_closed_form.

(* (2) the closed form over a HISTORY: after any run that ends with iteration it1 (any oracles, successes or failures),
   the next t0 is computed from it1's (fx, dg), the step it1's line search handed back and the new state *)
Theorem C07_init_history_closed_form : forall prm0 prm a pre it1 it2 st,
  (let '(os, st1) := lsearch_run L0Quadratic prm0 prm a (pre ++ [it1]) st in
   exists os' o1, os = os' ++ [o1] /\
     ir_t0 (io_init (fst (lsearch_get L0Quadratic prm0 prm a it2 st1))) =
     (if rt (io_res o1) <? fzero then fone
      else fmin fone ((- l0_quad_alpha prm0 * ftwo *
                       fmax (pf (v_p (it_view it1)) - pf (v_p (it_view it2))) (l0_quad_beta prm0 * l0_epsilon prm0)) /
                      pg (v_p (it_view it1))))) /\
  (let '(os, st1) := lsearch_run L0Linear prm0 prm a (pre ++ [it1]) st in
   exists os' o1, os = os' ++ [o1] /\
     ir_t0 (io_init (fst (lsearch_get L0Linear prm0 prm a it2 st1))) =
     (if rt (io_res o1) <? fzero then fone
      else fmin fone ((- l0_lin_alpha prm0 * fmax (- rt (io_res o1) * pg (v_p (it_view it1))) (l0_lin_beta prm0 * l0_epsilon prm0)) /
                      pg (v_p (it_view it2))))).
Proof.
  intros. split; [exact (run_quadratic_history prm0 prm a pre it1 it2 st)|exact (run_linear_history prm0 prm a pre it1 it2 st)].
Qed.
Print Assumptions C07_init_history_closed_form.

(* members, evaluations, trial step of one call, for all four kinds *)
Theorem C07_init_memory_and_evaluations : forall prm0 tr k m v last,
  let r := lsearch0_get prm0 tr k m v last in
  ir_mem r = match k with L0Linear => mkM0 (m_prevf m) (pg (v_p v)) | L0Quadratic => mkM0 (pf (v_p v)) (pg (v_p v)) | _ => m end /\
  ir_evals r = match k with L0CGDescent => if last <? fzero then 0%Z else 1%Z | _ => 0%Z end /\
  ir_trial r = match k with L0CGDescent => if last <? fzero then None else Some (last * l0_cg_phi1 prm0) | _ => None end /\
  (0 <= ir_evals r <= 1)%Z.
Proof. intros. repeat split; [apply init_mem|apply init_evals|apply init_trial|apply init_evals_le1|apply init_evals_le1]. Qed.
Print Assumptions C07_init_memory_and_evaluations.

(* (1) linear: alpha > 0, beta * epsilon > 0 (as computed in binary64), dg < 0  =>  0 <= t0 <= 1 -- hence finite, never NaN --
   for every memory and last_step_size. (Both hypotheses hold on the registered domains alpha, beta > 1, 0 < epsilon.) *)
Theorem C07_init_linear_range : forall prm0 tr m v last,
  (fzero <? l0_lin_alpha prm0) = true -> (fzero <? l0_lin_beta prm0 * l0_epsilon prm0) = true ->
  (pg (v_p v) <? fzero) = true ->
  let t0 := ir_t0 (lsearch0_get prm0 tr L0Linear m v last) in
  (fzero <=? t0) = true /\ (t0 <=? fone) = true.
Proof. exact linear_range. Qed.
Print Assumptions C07_init_linear_range.

(* (1) quadratic divides by the PREVIOUS call's dg: first call (last_step_size < 0) or m_prevdg < 0; the current dg is not used *)
Theorem C07_init_quadratic_range : forall prm0 tr m v last,
  (fzero <? l0_quad_alpha prm0) = true -> (fzero <? l0_quad_beta prm0 * l0_epsilon prm0) = true ->
  (last <? fzero) = true \/ (m_prevdg m <? fzero) = true ->
  let t0 := ir_t0 (lsearch0_get prm0 tr L0Quadratic m v last) in
  (fzero <=? t0) = true /\ (t0 <=? fone) = true.
Proof. exact quadratic_range. Qed.
Print Assumptions C07_init_quadratic_range.

(* (1) over whole runs of a fresh lsearch_t (m_last_step_size = -1, members at their initialisers): along descent
   directions EVERY t0 lies in [0, 1], whatever the objective does (any probe / trial oracle, failed searches included):
   the invariant "first call or m_prevdg < 0" is maintained by every call *)
Theorem C07_init_run_range : forall k prm0 prm a its,
  (k = L0Linear /\ (fzero <? l0_lin_alpha prm0) = true /\ (fzero <? l0_lin_beta prm0 * l0_epsilon prm0) = true) \/
  (k = L0Quadratic /\ (fzero <? l0_quad_alpha prm0) = true /\ (fzero <? l0_quad_beta prm0 * l0_epsilon prm0) = true) ->
  Forall (fun it => (pg (v_p (it_view it)) <? fzero) = true) its ->
  Forall (fun o => (fzero <=? ir_t0 (io_init o)) = true /\ (ir_t0 (io_init o) <=? fone) = true)
         (fst (lsearch_run k prm0 prm a its (lsmem_init k))).
Proof. exact run_range_from_init. Qed.
Print Assumptions C07_init_run_range.

(* without any hypothesis: linear / quadratic never return NaN or a value above 1 (std::min(1.0, NaN) = 1.0) *)
Theorem C07_init_linear_quadratic_le_one : forall prm0 tr k m v last,
  k = L0Linear \/ k = L0Quadratic -> (ir_t0 (lsearch0_get prm0 tr k m v last) <=? fone) = true.
Proof. exact linear_quadratic_le1. Qed.
Print Assumptions C07_init_linear_quadratic_le_one.

(* (2) cgdescent: the three-way split of the first call (x != 0 / f != 0 / else 1), no evaluation ... *)
Theorem C07_init_cgdescent_first_call : forall prm0 tr m v last,
  (last <? fzero) = true ->
  let r := lsearch0_get prm0 tr L0CGDescent m v last in
  ir_evals r = 0%Z /\ ir_trial r = None /\ ir_mem r = m /\
  (((fzero <? v_xinf v) = true /\ ir_t0 r = l0_cg_phi0 prm0 * v_xinf v / v_ginf v) \/
   ((fzero <? v_xinf v) = false /\ (fzero <? abs (pf (v_p v))) = true /\ ir_t0 r = l0_cg_phi0 prm0 * abs (pf (v_p v)) / v_gsq v) \/
   ((fzero <? v_xinf v) = false /\ (fzero <? abs (pf (v_p v))) = false /\ ir_t0 r = fone)).
Proof. exact cg_first_cases. Qed.
Print Assumptions C07_init_cgdescent_first_call.

(* ... and of every later call: exactly one value-only evaluation at s = last * phi1; the minimiser of the quadratic through
   (0, fx) with slope dg and (s, f(s)) is taken iff f(s) < fx and the interpolant is strongly convex ((0 - s) * dg - (fx - f(s)) > 0),
   otherwise last * phi2 *)
Theorem C07_init_cgdescent_later_calls : forall prm0 tr m v last,
  (last <? fzero) = false ->
  let r := lsearch0_get prm0 tr L0CGDescent m v last in
  let s := last * l0_cg_phi1 prm0 in
  let fx := pf (v_p v) in
  let dg := pg (v_p v) in
  ir_evals r = 1%Z /\ ir_trial r = Some s /\ ir_mem r = m /\
  (((tr s <? fx) = true /\ (fzero <? (fzero - s) * dg - (fx - tr s)) = true /\
    ir_t0 r = fzero - half * dg * (fzero - s) / (dg - (fx - tr s) / (fzero - s))) \/
   (((tr s <? fx) = false \/ (fzero <? (fzero - s) * dg - (fx - tr s)) = false) /\ ir_t0 r = last * l0_cg_phi2 prm0)).
Proof. exact cg_later_cases. Qed.
Print Assumptions C07_init_cgdescent_later_calls.

(* (1) cgdescent, first call: phi0 > 0 and a non-zero gradient (0 < |g|_inf, 0 < g.g) give t0 >= 0 or NaN -- no more: *)
Theorem C07_init_cgdescent_first_nonneg : forall prm0 tr m v last,
  (last <? fzero) = true -> (fzero <? l0_cg_phi0 prm0) = true -> (fzero <? v_ginf v) = true -> (fzero <? v_gsq v) = true ->
  let t0 := ir_t0 (lsearch0_get prm0 tr L0CGDescent m v last) in
  cls t0 = CPos \/ cls t0 = CZero \/ cls t0 = CNaN.
Proof. exact cg_first_nonneg. Qed.
Print Assumptions C07_init_cgdescent_first_nonneg.

(* (1) "valid descent state and history, parameters inside their registered domains => t0 finite and > 0" is FALSE for
   linear, quadratic and cgdescent ... *)
Theorem C07_init_t0_finite_positive_refuted :
  ~ C07_init_t0_finite_positive_statement L0Linear /\ ~ C07_init_t0_finite_positive_statement L0Quadratic /\
  ~ C07_init_t0_finite_positive_statement L0CGDescent.
Proof. exact s_init_t0_finite_positive_refuted. Qed.
Print Assumptions C07_init_t0_finite_positive_refuted.

(* ... with these witnesses (all hypotheses of the statement hold): linear t0 = 0 (defaults, dg = -inf; or epsilon = 2^-1000 and
   every number finite: underflow); quadratic t0 = 0 (previous dg = -2^1000 resp. -inf); cgdescent t0 = +inf (first call,
   phi0 * |x|_inf / |g|_inf overflows), t0 = 0 (g.g overflowed), and t0 = -inf from the interpolation branch: the convexity
   test passes by one rounding while the denominator dg - df/dt is exactly 0 *)
Theorem C07_init_t0_witnesses :
  ir_t0 (lsearch0_get prm0_default (fun _ => fzero) L0Linear (mkM0 fzero f_mone) w_lin_v1 fone) = fzero /\
  ir_t0 (lsearch0_get prm0_tiny_eps (fun _ => fzero) L0Quadratic w_quad_m w_quad_v fone) = fzero /\
  ir_t0 (lsearch0_get prm0_default (fun _ => fzero) L0Quadratic w_quad_m1 w_quad_v fone) = fzero /\
  ir_t0 (lsearch0_get prm0_default (fun _ => fzero) L0CGDescent (mkM0 fzero fone) w_cg_v1 f_mone) = PrimFloat.infinity /\
  ir_t0 (lsearch0_get prm0_default (fun _ => fzero) L0CGDescent (mkM0 fzero fone) w_cg_v2 f_mone) = fzero /\
  ir_t0 (lsearch0_get prm0_tiny_eps w_cg_trial3 L0CGDescent (mkM0 fzero f_mone) w_cg_v3 (ftwo * (ftwo + fone))) = PrimFloat.neg_infinity.
Proof. vm_compute. repeat split; reflexivity. Qed.
Print Assumptions C07_init_t0_witnesses.

(* (1)+(3) ... but lsearchk_t::get hides all of it: for EVERY t0 (NaN, +-inf, 0, negative, 1e6) the step the line search
   actually starts from, std::isfinite(t0) ? std::clamp(t0, stpmin, 1.0) : 1.0, is finite and lies in [stpmin, 1] *)
Theorem C07_init_step_in_range : forall t0,
  (stpmin <=? init_step t0) = true /\ (init_step t0 <=? fone) = true /\
  (fzero <? init_step t0) = true /\ PrimFloat.is_finite (init_step t0) = true.
Proof.
  intros t0. destruct (init_step_range t0) as [L U]. destruct (init_step_pos_finite t0) as [P F]. repeat split; assumption.
Qed.
Print Assumptions C07_init_step_in_range.

(* (3) lsearch_t::get IS ls_get at the computed t0 (so every theorem above that quantifies over t0 applies to the composed
   search), the members are those lsearch0 left, and m_last_step_size becomes the step lsearchk handed back *)
Theorem C07_composed_refines_ls_get : forall k prm0 prm a it st,
  let ir := lsearch0_get prm0 (it_trial it) k (lm_mem st) (it_view it) (lm_last st) in
  let r := ls_get (it_phi it) prm (v_p (it_view it)) a (ir_t0 ir) in
  lsearch_get k prm0 prm a it st = (mkIO ir r, mkLM (ir_mem ir) (rt r)).
Proof. exact lsearch_get_spec. Qed.
Print Assumptions C07_composed_refines_ls_get.

(* (3) the success theorems of C07, once, for the composed search (any initialiser, any memory): valid state, last probe at
   the returned step, the advertised conditions (backtrack / lemarechal / fletcher; More-Thuente and CG_DESCENT carry their exit
   ghost, to which C07_morethuente_success_cases / C07_cgdescent_success_cases apply through the refinement equation), the
   direction was a descent direction, and the next lsearch0 call receives exactly the returned step *)
Theorem C07_composed_success : forall k prm0 prm a it st,
  (0 < maxit prm)%Z ->
  let o := fst (lsearch_get k prm0 prm a it st) in
  let st' := snd (lsearch_get k prm0 prm a it st) in
  let r := io_res o in
  let p0 := v_p (it_view it) in
  ok r = true ->
  pv (cur (rs r)) = true /\
  (exists rest, trace (rs r) = rt r :: rest /\ cur (rs r) = it_phi it (Z.of_nat (length rest)) (rt r)) /\
  match a with
  | Backtrack => (pf (cur (rs r)) <=? pf p0 + rt r * c1 prm * pg p0) = true
  | Lemarechal => (pf (cur (rs r)) <=? pf p0 + rt r * c1 prm * pg p0) = true /\ (c2 prm * pg p0 <=? pg (cur (rs r))) = true
  | Fletcher => (pf (cur (rs r)) <=? pf p0 + rt r * c1 prm * pg p0) = true /\
                (abs (pg (cur (rs r))) <=? c2 prm * abs (pg p0)) = true
  | MoreThuente => exists m, rx r = XMT m
  | CGDescent => exists iv b, rx r = XCG iv b
  end /\
  lm_last st' = rt r /\ (pg p0 <? fzero) = true.
Proof. exact composed_success. Qed.
Print Assumptions C07_composed_success.

(* a refused direction costs nothing and hands t0 itself -- whatever it is -- to the next lsearch0 call *)
Theorem C07_composed_refusal : forall k prm0 prm a it st,
  (pg (v_p (it_view it)) <? fzero) = false ->
  let o := fst (lsearch_get k prm0 prm a it st) in
  let st' := snd (lsearch_get k prm0 prm a it st) in
  ok (io_res o) = false /\ cnt (rs (io_res o)) = 0%Z /\ lm_last st' = ir_t0 (io_init o).
Proof. exact composed_refusal. Qed.
Print Assumptions C07_composed_refusal.

(* budget of one outer iteration: at most ONE evaluation by lsearch0 (the constant of notes/C02.md) + C07_evaluations_bounded;
   of a run of n iterations: n * (1 + ls_bound) *)
Theorem C07_composed_evaluations_bounded : forall k prm0 prm a it st its,
  (0 < maxit prm)%Z ->
  (0 <= iter_evals (fst (lsearch_get k prm0 prm a it st)) <= 1 + ls_bound a (maxit prm))%Z /\
  (0 <= sum_evals (fst (lsearch_run k prm0 prm a its st)) <= Z.of_nat (length its) * (1 + ls_bound a (maxit prm)))%Z.
Proof. intros. split; [apply composed_evals; assumption|apply run_evals; assumption]. Qed.
Print Assumptions C07_composed_evaluations_bounded.

(* what the composed search starts from: along a descent direction the first trial point is requested at
   clamp(t0) in [stpmin, 1] (the first element of the trace of the `*0.3` loop) *)
Theorem C07_composed_first_probe : forall k prm0 prm a it st,
  (0 < maxit prm)%Z -> (pg (v_p (it_view it)) <? fzero) = true ->
  let o := fst (lsearch_get k prm0 prm a it st) in
  let start := init_step (ir_t0 (io_init o)) in
  (stpmin <=? start) = true /\ (start <=? fone) = true /\
  exists s1 t1, shrink (it_phi it) (fuel_of (maxit prm)) (init_state (v_p (it_view it))) start = (s1, t1) /\
                exists pre, trace s1 = pre ++ [start].
Proof. exact composed_first_probe. Qed.
Print Assumptions C07_composed_first_probe.

(* the translated constants: member initialisers, m_last_step_size{-1}, the trial point, the registered domains *)
Theorem C07_init_constants_pinned :
  (mem_init L0Linear = mkM0 fzero fone /\ mem_init L0Quadratic = mkM0 fzero fone /\ lm_last (lsmem_init L0Quadratic) = f_mone) /\
  (forall x last phi1 d, cg0_trial_coord x last phi1 d = x + last * phi1 * d) /\
  dom0 prm0_default = true /\ dom0 prm0_tiny_eps = true.
Proof. split; [exact mem_init_spec|]. split; [exact trial_coord_spec|]. split; reflexivity. Qed.
Print Assumptions C07_init_constants_pinned.

(* ---------- non-vacuity of the INIT theorems ---------- *)
(* the defaults satisfy the hypotheses of the range theorems; a two-iteration run of the composed search on (t-1)^2 along
   descent directions: both line searches succeed, t0 = 1 then the quadratic closed form (1.01e-5 < 1: no decrease was seen) *)
Example C07_init_nonvacuous :
  (fzero <? l0_lin_alpha prm0_default) = true /\ (fzero <? l0_lin_beta prm0_default * l0_epsilon prm0_default) = true /\
  (fzero <? l0_quad_alpha prm0_default) = true /\ (fzero <? l0_quad_beta prm0_default * l0_epsilon prm0_default) = true /\
  (fzero <? l0_cg_phi0 prm0_default) = true /\ valid_descent_view w_plain_v = true /\
  (let '(os, st) := lsearch_run L0Quadratic prm0_default (prm_default 128) Backtrack [w_plain_it (- ftwo); w_plain_it (- fone)]
                                 (lsmem_init L0Quadratic) in
   map (fun o => ok (io_res o)) os = [true; true] /\ map (fun o => ir_t0 (io_init o) <? fone) os = [false; true] /\
   m_prevdg (lm_mem st) = - fone) /\
  (let '(os, st) := lsearch_run L0CGDescent prm0_default (prm_default 128) CGDescent [w_plain_it (- ftwo); w_plain_it (- ftwo)]
                                 (lsmem_init L0CGDescent) in
   map (fun o => ok (io_res o)) os = [true; true] /\ map (fun o => ir_evals (io_init o)) os = [0%Z; 1%Z]) /\
  (pg (v_p (it_view (w_plain_it fone))) <? fzero) = false.
Proof. vm_compute. repeat split; reflexivity. Qed.

(* =====================================================================================================================
   QUAD extension -- the exact-arithmetic core of "on convex quadratic objectives all five line-searches succeed and satisfy
   their advertised conditions".  Model: C07_Quad_Defs.v = the same algorithms read over the ordered field Q (every expression is
   the exact-rational reading Src_c07_q.v of the translated source tree), probe  phi(t) = f0 + g0 t + (a/2) t^2, g0 < 0 < a,
   exact minimiser t* = -g0/a;  U = 2(1-c1)t*  (armijo_hi),  W = (1-c2)t*  (wolfe_lo),  V = (1+c2)t*  (swolfe_hi).
   Nothing here transfers automatically to binary64 (rounding): there the clause stays searched; the harness checks the proved
   regions / iteration bounds on the real searches for exactly representable data, and the extracted model must agree with the
   library whenever every intermediate value is exactly representable (stage QUAD of ./check C07).
   ===================================================================================================================== *)
From Coq Require Import QArith Qabs.
From LNGen Require Import Src_c07_q.
From LN Require Import C07_Quad_Defs C07_Quad.
Close Scope float_scope.
Local Open Scope Q_scope.

(* (1) the acceptance regions in closed form *)
Theorem C07_quad_acceptance_regions : forall f0 g0 a, g0 < 0 -> 0 < a -> forall c1 c2 t, c1 < 1 ->
  (q_has_armijo (quad0 f0 g0) (quad f0 g0 a t) t c1 = true <-> 0 <= t <= armijo_hi c1 g0 a) /\
  (q_has_wolfe (quad0 f0 g0) (quad f0 g0 a t) c2 = true <-> wolfe_lo c2 g0 a <= t) /\
  (q_has_strong_wolfe (quad0 f0 g0) (quad f0 g0 a t) c2 = true <-> wolfe_lo c2 g0 a <= t <= swolfe_hi c2 g0 a).
Proof.
  intros f0 g0 a Hg Ha c1 c2 t Hc. split; [exact (armijo_region_full f0 g0 a Hg Ha c1 t Hc) |].
  split; [exact (wolfe_region f0 g0 a Ha c2 t) | exact (swolfe_region f0 g0 a Hg Ha c2 t)].
Qed.
Print Assumptions C07_quad_acceptance_regions.

(* for 0 < c1 < c2 < 1 Armijo+Wolfe is the interval [W, U] of positive length; Armijo+strong Wolfe = [W, min(U, V)] contains W *)
Theorem C07_quad_armijo_wolfe_interval_nonempty : forall g0 a, g0 < 0 -> 0 < a -> forall c1 c2, 0 < c1 -> c1 < c2 -> c2 < 1 ->
  0 < wolfe_lo c2 g0 a < armijo_hi c1 g0 a.
Proof. exact armijo_wolfe_nonempty. Qed.
Print Assumptions C07_quad_armijo_wolfe_interval_nonempty.

(* the exact minimiser satisfies (strong) Wolfe for every c2 >= 0, and Armijo iff c1 <= 1/2: for c1 > 1/2 a search that steers
   to t* cannot be accepted there -- the mechanism behind the known finding C07-cgdescent-fails-on-quadratic-c1-ge-half and behind
   seeded change C07/4 (lemarechal's safeguard keeps the interpolated step t* away from R only through interp_max) *)
Theorem C07_quad_minimiser_armijo_iff_c1_le_half : forall f0 g0 a, g0 < 0 -> 0 < a -> forall c1 c2, c1 < 1 -> 0 <= c2 ->
  (q_has_armijo (quad0 f0 g0) (quad f0 g0 a (tstar g0 a)) (tstar g0 a) c1 = true <-> c1 <= 1 # 2) /\
  q_has_strong_wolfe (quad0 f0 g0) (quad f0 g0 a (tstar g0 a)) c2 = true /\
  q_has_wolfe (quad0 f0 g0) (quad f0 g0 a (tstar g0 a)) c2 = true.
Proof.
  intros f0 g0 a Hg Ha c1 c2 Hc1 Hc2. split; [exact (minimiser_armijo_iff f0 g0 a Hg Ha c1 Hc1) | exact (minimiser_swolfe f0 g0 a Hg Ha c2 Hc2)].
Qed.
Print Assumptions C07_quad_minimiser_armijo_iff_c1_le_half.

(* (2) backtracking, ANY interpolation mode (the safeguards as written keep the next trial in [s t, (1-s) t]): from any t > 0 the
   search succeeds after at most n further trial steps as soon as (1-s)^n t <= U; the accepted step lies in (0, U] *)
Theorem C07_quad_backtrack_succeeds : forall (f0 g0 a : Q) (prm : qparams),
  g0 < 0 -> 0 < a -> qc1 prm < 1 -> 0 < qsafeguard prm -> qsafeguard prm <= 1 # 2 ->
  forall (n fuel : nat) (st : qstate) (t : Q),
  0 < t -> qcur st = quad f0 g0 a t -> qpow (1 - qsafeguard prm) n * t <= armijo_hi (qc1 prm) g0 a -> (n < fuel)%nat ->
  let r := q_backtrack (quad f0 g0 a) prm (quad0 f0 g0) fuel st t in
  qok r = true /\ (qcnt st <= qcnt (qrs r) <= qcnt st + Z.of_nat n)%Z /\ 0 < qrt r /\ qrt r <= armijo_hi (qc1 prm) g0 a /\
  qcur (qrs r) = quad f0 g0 a (qrt r) /\ q_has_armijo (quad0 f0 g0) (qcur (qrs r)) (qrt r) (qc1 prm) = true.
Proof. exact q_backtrack_geometric. Qed.
Print Assumptions C07_quad_backtrack_succeeds.

(* ... and such an n exists for every start: the budget dependence of the clause is "max_iterations > N(t, t*, c1, s)" *)
Theorem C07_quad_backtrack_budget_exists : forall g0 a c1 s t, g0 < 0 -> 0 < a -> c1 < 1 -> 0 < s -> s <= 1 # 2 -> 0 < t ->
  exists n, qpow (1 - s) n * t <= armijo_hi c1 g0 a.
Proof. exact q_backtrack_budget_exists. Qed.
Print Assumptions C07_quad_backtrack_budget_exists.

(* sharper with quadratic interpolation (its minimiser IS t* ) and c1 <= 1/2: the step is s^k t while s t > t*, then t* (or (1-s) t),
   which is acceptable: at most m + 1 trial steps when s^m (s t) <= t* *)
Theorem C07_quad_backtrack_quadratic_sharp : forall (f0 g0 a : Q) (prm : qparams),
  g0 < 0 -> 0 < a -> qc1 prm <= 1 # 2 -> 0 < qsafeguard prm -> qsafeguard prm <= 1 # 2 -> qinterp prm = 1%Z ->
  forall (m fuel : nat) (st : qstate) (t : Q),
  0 < t -> qcur st = quad f0 g0 a t -> qpow (qsafeguard prm) m * (qsafeguard prm * t) <= tstar g0 a -> (S m < fuel)%nat ->
  let r := q_backtrack (quad f0 g0 a) prm (quad0 f0 g0) fuel st t in
  qok r = true /\ (qcnt st <= qcnt (qrs r) <= qcnt st + Z.of_nat (S m))%Z /\ 0 < qrt r /\ qrt r <= armijo_hi (qc1 prm) g0 a /\
  qcur (qrs r) = quad f0 g0 a (qrt r) /\ q_has_armijo (quad0 f0 g0) (qcur (qrs r)) (qrt r) (qc1 prm) = true.
Proof. exact q_backtrack_quadratic_sharp. Qed.
Print Assumptions C07_quad_backtrack_quadratic_sharp.

(* the interpolation formulas of lstep.cpp are exact on quadratic data: quadratic(u, v) and secant(u, v) return t* *)
Theorem C07_quad_interpolants_exact : forall (f0 g0 a : Q) (u v : qstep),
  0 < a -> on_quad f0 g0 a u -> on_quad f0 g0 a v -> ~ qs_t u == qs_t v ->
  (exists x, q_quadratic u v = Some x /\ x == tstar g0 a) /\ (exists x, q_secant u v = Some x /\ x == tstar g0 a).
Proof. intros f0 g0 a u v Ha Hu Hv Hne. split; [exact (q_quadratic_exact f0 g0 a u v Ha Hu Hv Hne) | exact (q_secant_exact f0 g0 a u v Ha Hu Hv Hne)]. Qed.
Print Assumptions C07_quad_interpolants_exact.

(* (3) LeMarechal do_get from any t > 0: n1 extrapolations (tau1^n1 t >= W) pass W, then the bracket -- which contains [W, U]
   strictly -- shrinks by 1 - s per step and cannot become narrower than U - W: success within n1 + n2 trial steps, in [W, U] *)
Theorem C07_quad_lemarechal_succeeds : forall (f0 g0 a : Q) (prm : qparams),
  g0 < 0 -> 0 < a -> 0 < qc1 prm -> qc1 prm < qc2 prm -> qc2 prm < 1 -> 0 < qsafeguard prm -> qsafeguard prm <= 1 # 2 ->
  1 < qtau1 prm -> q_eps0 <= armijo_hi (qc1 prm) g0 a ->
  forall (n1 n2 fuel : nat) (st : qstate) (t : Q),
  0 < t -> qcur st = quad f0 g0 a t ->
  wolfe_lo (qc2 prm) g0 a <= qpow (qtau1 prm) n1 * t ->
  qpow (1 - qsafeguard prm) n2 * qmax t (qtau1 prm * wolfe_lo (qc2 prm) g0 a) <= armijo_hi (qc1 prm) g0 a - wolfe_lo (qc2 prm) g0 a ->
  (n1 + n2 + 1 <= fuel)%nat ->
  let r := q_lemarechal (quad f0 g0 a) prm (quad0 f0 g0) fuel st t (q_step0 (quad0 f0 g0)) (q_step0 (quad0 f0 g0)) in
  qok r = true /\ (qcnt st <= qcnt (qrs r) <= qcnt st + Z.of_nat (n1 + n2))%Z /\
  wolfe_lo (qc2 prm) g0 a <= qrt r /\ qrt r <= armijo_hi (qc1 prm) g0 a /\ qcur (qrs r) = quad f0 g0 a (qrt r) /\
  q_has_armijo (quad0 f0 g0) (qcur (qrs r)) (qrt r) (qc1 prm) = true /\ q_has_wolfe (quad0 f0 g0) (qcur (qrs r)) (qc2 prm) = true.
Proof. exact q_lemarechal_succeeds. Qed.
Print Assumptions C07_quad_lemarechal_succeeds.

(* lsearchk_t::get composed with the searches, through the executable bounds the driver evaluates: max_iterations > N => success *)
Theorem C07_quad_get_backtrack_bound : forall f0 g0 a prm, g0 < 0 -> 0 < a -> 0 < qsafeguard prm -> qsafeguard prm <= 1 # 2 ->
  forall t0 F n, qc1 prm < 1 ->
  let t1 := q_init_step t0 in
  q_eps1 <= Qabs (qf (quad f0 g0 a t1) - f0) ->
  bt_bound F (qsafeguard prm) (qc1 prm) g0 a t1 = Some n -> (Z.of_nat n < qmaxit prm)%Z ->
  let r := q_ls_get (quad f0 g0 a) prm (quad0 f0 g0) QBacktrack t0 in
  qok r = true /\ (1 <= qcnt (qrs r) <= 1 + Z.of_nat n)%Z /\ 0 < qrt r /\ qrt r <= armijo_hi (qc1 prm) g0 a /\
  qcur (qrs r) = quad f0 g0 a (qrt r) /\ q_has_armijo (quad0 f0 g0) (qcur (qrs r)) (qrt r) (qc1 prm) = true.
Proof. exact q_get_backtrack_bound. Qed.
Print Assumptions C07_quad_get_backtrack_bound.

Theorem C07_quad_get_backtrack_quadratic_bound : forall f0 g0 a prm, g0 < 0 -> 0 < a -> 0 < qsafeguard prm -> qsafeguard prm <= 1 # 2 ->
  forall t0 F n, qc1 prm <= 1 # 2 -> qinterp prm = 1%Z ->
  let t1 := q_init_step t0 in
  q_eps1 <= Qabs (qf (quad f0 g0 a t1) - f0) ->
  bt_bound_quadratic F (qsafeguard prm) g0 a t1 = Some n -> (Z.of_nat n < qmaxit prm)%Z ->
  let r := q_ls_get (quad f0 g0 a) prm (quad0 f0 g0) QBacktrack t0 in
  qok r = true /\ (1 <= qcnt (qrs r) <= 1 + Z.of_nat n)%Z /\ 0 < qrt r /\ qrt r <= armijo_hi (qc1 prm) g0 a /\
  qcur (qrs r) = quad f0 g0 a (qrt r) /\ q_has_armijo (quad0 f0 g0) (qcur (qrs r)) (qrt r) (qc1 prm) = true.
Proof. exact q_get_backtrack_quadratic_bound. Qed.
Print Assumptions C07_quad_get_backtrack_quadratic_bound.

Theorem C07_quad_get_lemarechal_bound : forall f0 g0 a prm, g0 < 0 -> 0 < a -> 0 < qc1 prm -> 0 < qsafeguard prm -> qsafeguard prm <= 1 # 2 ->
  forall t0 F n, qc1 prm < qc2 prm -> qc2 prm < 1 -> 1 < qtau1 prm -> q_eps0 <= armijo_hi (qc1 prm) g0 a ->
  let t1 := q_init_step t0 in
  q_eps1 <= Qabs (qf (quad f0 g0 a t1) - f0) ->
  lem_bound F (qsafeguard prm) (qtau1 prm) (qc1 prm) (qc2 prm) g0 a t1 = Some n -> (Z.of_nat n + 1 < qmaxit prm)%Z ->
  let r := q_ls_get (quad f0 g0 a) prm (quad0 f0 g0) QLemarechal t0 in
  qok r = true /\ (1 <= qcnt (qrs r) <= 1 + Z.of_nat n)%Z /\ wolfe_lo (qc2 prm) g0 a <= qrt r /\ qrt r <= armijo_hi (qc1 prm) g0 a /\
  qcur (qrs r) = quad f0 g0 a (qrt r) /\ q_has_armijo (quad0 f0 g0) (qcur (qrs r)) (qrt r) (qc1 prm) = true /\
  q_has_wolfe (quad0 f0 g0) (qcur (qrs r)) (qc2 prm) = true.
Proof. exact q_get_lemarechal_bound. Qed.
Print Assumptions C07_quad_get_lemarechal_bound.

(* lsearchk_t::get on the quadratic: the first trial point clamp(t0) in [stpmin, 1] is valid (no `*0.3` loop); when it moves the
   value by at least epsilon1 there is no `*3` loop and do_get starts there *)
Theorem C07_quad_get_starts_do_get : forall (f0 g0 a : Q) (prm : qparams), g0 < 0 -> (0 < qmaxit prm)%Z -> forall (alg : qalg) (t0 : Q),
  let t1 := q_init_step t0 in
  (q_stpmin <= t1 /\ t1 <= 1 /\ 0 < t1) /\
  (q_eps1 <= Qabs (qf (quad f0 g0 a t1) - f0) ->
   q_ls_get (quad f0 g0 a) prm (quad0 f0 g0) alg t0 =
   q_do_get (quad f0 g0 a) prm (quad0 f0 g0) alg (q_update (quad f0 g0 a) (q_init_state (quad0 f0 g0)) t1) t1).
Proof. intros f0 g0 a prm Hg Hm alg t0. split; [exact (q_init_step_range t0) | exact (q_ls_get_quad_start f0 g0 a prm Hg Hm alg t0)]. Qed.
Print Assumptions C07_quad_get_starts_do_get.

(* (4) More-Thuente: its convergence test `f <= ftest && |g| <= gtol (-ginit)` on the quadratic is exactly W <= t <= min(U, V),
   i.e. Armijo + strong Wolfe in closed form (composes with C07_morethuente_success_cases: the `converged` disjunct) *)
Theorem C07_quad_morethuente_converged_region : forall (f0 g0 a : Q) (prm : qparams), g0 < 0 -> 0 < a -> qc1 prm < 1 -> forall t, 0 < t ->
  (q_mt_converged prm (quad0 f0 g0) (quad f0 g0 a t) t = true <->
   wolfe_lo (qc2 prm) g0 a <= t /\ t <= armijo_hi (qc1 prm) g0 a /\ t <= swolfe_hi (qc2 prm) g0 a).
Proof. exact q_mt_converged_region. Qed.
Print Assumptions C07_quad_morethuente_converged_region.

(* CG_DESCENT: on a valid initial bracket [0, tb] (dg(tb) >= 0) the first secant step of the main loop is the exact minimiser, and
   interval_t::done accepts it iff c1 <= 1/2 (Wolfe exit of C07_cgdescent_success_cases); for c1 > 1/2 it is rejected (neither
   Armijo nor the approximate Wolfe condition (2 c1 - 1) dg0 >= dg = 0 holds): the known finding, as a theorem *)
Theorem C07_quad_cgdescent_first_secant : forall (f0 g0 a : Q) (prm : qparams),
  g0 < 0 -> 0 < a -> qc1 prm < 1 -> 0 <= qc2 prm -> 0 <= qcg_epsilon prm ->
  forall (st : qstate) (tb : Q), 0 < tb -> 0 <= quad_g g0 a tb ->
  exists (t : Q) (st' : qstate),
    q_cg_first_secant (quad f0 g0 a) prm (quad0 f0 g0) st (q_step0 (quad0 f0 g0)) (qstep_of tb (quad f0 g0 a tb)) =
    Some (Qle_bool (qc1 prm) (1 # 2), t, st') /\ t == tstar g0 a /\ qcur st' = quad f0 g0 a t /\ qcnt st' = (qcnt st + 1)%Z.
Proof. exact q_cg_first_secant_exact. Qed.
Print Assumptions C07_quad_cgdescent_first_secant.

(* the translated expressions behind the exact model (safeguarded ranges, extrapolation, zoom's decisions, denominators) *)
Theorem C07_quad_kernels_pinned :
  (forall tmin s tmax, src_bt_interp_min_q tmin s tmax = tmin + s * (tmax - tmin) /\ src_bt_interp_max_q tmin s tmax = tmax - s * (tmax - tmin)) /\
  (forall lt s rt, src_lem_interp_min_a_q lt s rt = lt + s * (rt - lt) /\ src_lem_interp_max_a_q lt s rt = rt - s * (rt - lt) /\
                   src_lem_interp_min_b_q lt s rt = lt + s * (rt - lt) /\ src_lem_interp_max_b_q lt s rt = rt - s * (rt - lt)) /\
  (forall rt e, src_lem_r_unset_q rt e = qltb rt e) /\ (forall tau1 lt, src_lem_extrapolate_q tau1 lt = tau1 * lt) /\
  (forall ct pt tau1, src_fl_tmin_q ct pt = ct + 2 * (ct - pt) /\ src_fl_tmax_q ct tau1 pt = ct + tau1 * (ct - pt)) /\
  (forall ad e, src_zoom_guard_q ad e = qltb e ad) /\
  (forall lot hit tau2 c2 tau3 ad, src_zoom_tmin_q lot hit tau2 c2 ad = qmin lot hit + qmin tau2 c2 * ad /\
                                   src_zoom_tmax_q lot hit tau3 ad = qmax lot hit - tau3 * ad) /\
  (forall arm fx lof, src_zoom_to_hi_q arm fx lof = negb arm || Qle_bool lof fx) /\
  (forall dg hit lot, src_zoom_flip_q dg hit lot = Qle_bool 0 (dg * (hit - lot))) /\
  (forall arm cf pf, src_fl_to_zoom_q arm cf pf = negb arm || Qle_bool pf cf) /\
  (forall ut uf ug vt vf vg d2 dt df, src_cubic_den_q ut uf ug vt vf vg d2 = vg - ug + 2 * d2 /\
                                      src_quadratic_den_q ut uf ug vt vf vg dt df = ug - df / dt /\
                                      src_secant_den_q ut uf ug vt vf vg = ug - vg).
Proof. exact q_kernels_pinned. Qed.
Print Assumptions C07_quad_kernels_pinned.

(* ---------- non-vacuity: phi(t) = (t - 1)^2 = 1 - 2 t + t^2 (t* = 1) with the library defaults (c1, c2) = (1e-4, 0.1) as exact
   rationals of the doubles' decimal values, safeguard 1/10, tau1 = 9, max_iterations = 128 ---------- *)
Definition quad_prm (i : Z) : qparams := mkQPrm (1 # 10000) (1 # 10) 128 i (1 # 10) 9 (1 # 10) (1 # 2) (1 # 1000000).

Example C07_quad_nonvacuous_hypotheses :
  (-2 < 0) /\ 0 < 2 /\ 0 < qc1 (quad_prm 1) /\ qc1 (quad_prm 1) < qc2 (quad_prm 1) /\ qc2 (quad_prm 1) < 1 /\ qc1 (quad_prm 1) <= 1 # 2 /\
  0 < qsafeguard (quad_prm 1) /\ qsafeguard (quad_prm 1) <= 1 # 2 /\ 1 < qtau1 (quad_prm 1) /\ 0 <= qcg_epsilon (quad_prm 1) /\
  q_eps0 <= armijo_hi (qc1 (quad_prm 1)) (-2) 2 /\
  q_eps1 <= Qabs (qf (quad 1 (-2) 2 (q_init_step (1 # 8))) - 1) /\
  tstar (-2) 2 == 1 /\ armijo_hi (1 # 10000) (-2) 2 == 9999 # 5000 /\ wolfe_lo (1 # 10) (-2) 2 == 9 # 10 /\ swolfe_hi (1 # 10) (-2) 2 == 11 # 10 /\
  on_quad 1 (-2) 2 (qstep_of 0 (quad0 1 (-2))) /\ on_quad 1 (-2) 2 (qstep_of 3 (quad 1 (-2) 2 3)) /\ 0 <= quad_g (-2) 2 3.
Proof. vm_compute. repeat split; discriminate. Qed.

(* the searches on it: backtrack accepts the first trial point, lemarechal needs one extrapolation (1/8 -> 9/8 in [W, U]),
   fletcher reaches t* = 1; the computed bounds: N = 0 (backtrack), 0 + 20 (lemarechal from 1/8); a start at t = 8 with
   quadratic interpolation: 8 -> 1 (one step, sharp bound 1 + 0); CG_DESCENT's first secant step on the bracket [0, 3] is t* = 1 *)
Example C07_quad_nonvacuous_runs :
  (let r := q_ls_get (quad 1 (-2) 2) (quad_prm 2) (quad0 1 (-2)) QBacktrack (1 # 8) in (qok r, qrt r, qcnt (qrs r))) = (true, 1 # 8, 1%Z) /\
  (let r := q_ls_get (quad 1 (-2) 2) (quad_prm 2) (quad0 1 (-2)) QLemarechal (1 # 8) in (qok r, qrt r, qcnt (qrs r))) = (true, 9 # 8, 2%Z) /\
  (let r := q_ls_get (quad 1 (-2) 2) (quad_prm 1) (quad0 1 (-2)) QFletcher (1 # 8) in (qok r, qrt r, qcnt (qrs r))) = (true, 1, 2%Z) /\
  bt_bound 100 (1 # 10) (1 # 10000) (-2) 2 (1 # 8) = Some 0%nat /\
  lem_bound 100 (1 # 10) 9 (1 # 10000) (1 # 10) (-2) 2 (1 # 8) = Some 20%nat /\
  (let s := q_update (quad 1 (-2) 2) (q_init_state (quad0 1 (-2))) 8 in
   let r := q_backtrack (quad 1 (-2) 2) (quad_prm 1) (quad0 1 (-2)) 128 s 8 in (qok r, qrt r, qcnt (qrs r))) = (true, 1, 2%Z) /\
  bt_bound_quadratic 100 (1 # 10) (-2) 2 8 = Some 1%nat /\ bt_bound 100 (1 # 10) (1 # 10000) (-2) 2 8 = Some 14%nat /\
  (match q_cg_first_secant (quad 1 (-2) 2) (quad_prm 1) (quad0 1 (-2)) (q_init_state (quad0 1 (-2))) (q_step0 (quad0 1 (-2)))
                           (qstep_of 3 (quad 1 (-2) 2 3)) with Some (d, t, _) => (d, t) | None => (false, 0) end) = (true, 1).
Proof. vm_compute. repeat split. Qed.

(* c1 > 1/2 (still inside the registered domain 0 < c1 < c2 < 1): the exact minimiser is rejected by CG_DESCENT's `done` *)
Example C07_quad_cgdescent_rejects_minimiser_c1_gt_half :
  let prm := mkQPrm (3 # 4) (19 # 20) 128 2 (1 # 10) 9 (1 # 10) (1 # 2) (1 # 1000000) in
  (match q_cg_first_secant (quad 1 (-2) 2) prm (quad0 1 (-2)) (q_init_state (quad0 1 (-2))) (q_step0 (quad0 1 (-2)))
                           (qstep_of 3 (quad 1 (-2) 2 3)) with Some (d, t, _) => (d, t) | None => (true, 0) end) = (false, 1) /\
  q_has_armijo (quad0 1 (-2)) (quad 1 (-2) 2 1) 1 (3 # 4) = false.
Proof. vm_compute. split; reflexivity. Qed.
