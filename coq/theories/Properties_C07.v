(* C07 -- Line-search steps honour the acceptance conditions they advertise.
   Only statements + `exact` + Print Assumptions live here. Model: C07_Defs (PrimFloat, bit-exact; the predicates and
   interpolation formulas are re-translated from src/solver/state.cpp, src/solver/lstep.cpp, src/lsearchk.cpp on every
   run). Every theorem quantifies over EVERY probe oracle `phi` (the objective along the direction, possibly
   non-deterministic / non-smooth / invalid anywhere), all parameters and every max_iterations >= 1. *)
From Coq Require Import List ZArith Bool.
From Coq Require Floats.
From Coq Require Import Reals.
From LN Require Import C07_Defs C07_Statements C07_Proofs C07_Real.
Import ListNotations.
Import PrimFloat.PrimFloatNotations.   (* notations only: the primitives print as PrimFloat.* in Print Assumptions *)
Local Open Scope float_scope.
Local Notation abs := PrimFloat.abs.

(* a direction with dg0 >= 0 or dg0 = NaN is refused: failure, the step handed back untouched, no evaluation, state
   untouched *)
Theorem C07_refuses_non_descent : forall phi prm p0 a t0,
  (pg p0 <? fzero) = false ->
  let r := ls_get phi prm p0 a t0 in
  ok r = false /\ rt r = t0 /\ trace (rs r) = [] /\ cnt (rs r) = 0%Z /\ cur (rs r) = p0.
Proof. intros phi prm p0 a t0 D r. subst r. rewrite (ls_get_refuses phi prm p0 a t0 D). repeat split. Qed.
Print Assumptions C07_refuses_non_descent.

(* backtracking: success => Armijo, as the float inequality state.cpp evaluates, on (state0, returned state, returned t) *)
Theorem C07_backtrack_armijo : forall phi prm p0 t0,
  (0 < maxit prm)%Z ->
  let r := ls_get phi prm p0 Backtrack t0 in
  ok r = true ->
  (pf (cur (rs r)) <=? pf p0 + rt r * c1 prm * pg p0) = true.
Proof. intros phi prm p0 t0 M r H. exact (proj2 (ls_get_ok phi prm p0 Backtrack t0 M H)). Qed.
Print Assumptions C07_backtrack_armijo.

(* LeMarechal: success => Armijo and Wolfe *)
Theorem C07_lemarechal_wolfe : forall phi prm p0 t0,
  (0 < maxit prm)%Z ->
  let r := ls_get phi prm p0 Lemarechal t0 in
  ok r = true ->
  (pf (cur (rs r)) <=? pf p0 + rt r * c1 prm * pg p0) = true /\
  (c2 prm * pg p0 <=? pg (cur (rs r))) = true.
Proof. intros phi prm p0 t0 M r H. exact (proj2 (ls_get_ok phi prm p0 Lemarechal t0 M H)). Qed.
Print Assumptions C07_lemarechal_wolfe.

(* Fletcher (bracketing and zoom): success => Armijo and strong Wolfe *)
Theorem C07_fletcher_strong_wolfe : forall phi prm p0 t0,
  (0 < maxit prm)%Z ->
  let r := ls_get phi prm p0 Fletcher t0 in
  ok r = true ->
  (pf (cur (rs r)) <=? pf p0 + rt r * c1 prm * pg p0) = true /\
  (abs (pg (cur (rs r))) <=? c2 prm * abs (pg p0)) = true.
Proof. intros phi prm p0 t0 M r H. exact (proj2 (ls_get_ok phi prm p0 Fletcher t0 M H)). Qed.
Print Assumptions C07_fletcher_strong_wolfe.

(* all five (incl. More-Thuente and CG_DESCENT): on success at least one evaluation was made, the returned state IS the
   answer of the last evaluation, and -- whenever that state is valid -- the last evaluation was requested at the
   returned step *)
Theorem C07_success_is_last_probe : forall phi prm p0 a t0,
  (0 < maxit prm)%Z ->
  let r := ls_get phi prm p0 a t0 in
  ok r = true ->
  exists tl rest,
    trace (rs r) = tl :: rest /\ cnt (rs r) = Z.of_nat (S (length rest)) /\
    cur (rs r) = phi (Z.of_nat (length rest)) tl /\
    (pv (cur (rs r)) = true -> tl = rt r).
Proof.
  intros phi prm p0 a t0 M r H.
  destruct (ls_get_ok phi prm p0 a t0 M H) as [[[Hc Hw] [Hn Hs]] _]. fold r in Hc, Hw, Hn, Hs.
  destruct (trace (rs r)) as [|tl rest] eqn:E; [contradiction|].
  exists tl, rest. repeat split; try assumption.
  intros V. destruct (Hs V) as [rest' E']. congruence.
Qed.
Print Assumptions C07_success_is_last_probe.

(* all five: a success never carries an invalid state (after fix 0701278 lsearchk_t::get fails when the `*0.3` loop found
   no valid trial point; before it More-Thuente/LeMarechal/Fletcher could accept the stale state of the previous trial),
   hence every success is the evaluation AT the returned step *)
Theorem C07_success_state_valid_at_step : forall phi prm p0 a t0,
  (0 < maxit prm)%Z ->
  let r := ls_get phi prm p0 a t0 in
  ok r = true ->
  pv (cur (rs r)) = true /\ exists rest, trace (rs r) = rt r :: rest /\
  cur (rs r) = phi (Z.of_nat (length rest)) (rt r).
Proof.
  intros phi prm p0 a t0 M r H.
  pose proof (ls_get_valid phi prm p0 a t0 H) as V. fold r in V. split; [exact V|].
  destruct (ls_get_ok phi prm p0 a t0 M H) as [[[Hc Hw] [Hn Hs]] _]. fold r in Hc, Hw, Hn, Hs.
  destruct (Hs V) as [rest E]. exists rest. split; [exact E|].
  rewrite E in Hw. exact Hw.
Qed.
Print Assumptions C07_success_state_valid_at_step.

(* the guard added by the fix is what excludes it: do_get entered alone with the stale invalid state of the `*0.3` loop
   (as the code did before 0701278) reports success on a state evaluated at another step *)
Theorem C07_do_get_alone_accepts_invalid_state :
  let r := do_get phi_stale (prm_default 2) p0_slope Lemarechal stale_entry t_009 in
  ok r = true /\ pv (cur (rs r)) = false /\ trace (rs r) = [t_03; fone] /\
  PrimFloat.eqb (rt r) t_03 = false.
Proof. exact s_do_get_alone_accepts_invalid_state. Qed.
Print Assumptions C07_do_get_alone_accepts_invalid_state.

(* "up to rounding": over the reals (Flocq; R_of = the real value of a finite double, rnd = rounding to nearest-even in
   binary64) the accepted boolean tests are the textbook inequalities with each operation of the right-hand side rounded
   once -- provided the operands / intermediate results are finite *)
Theorem C07_real_meaning_armijo : forall p0 p t c1,
  PrimFloat.is_finite (pf p) = true -> PrimFloat.is_finite (pf p0) = true ->
  PrimFloat.is_finite (t * c1) = true -> PrimFloat.is_finite (t * c1 * pg p0) = true ->
  PrimFloat.is_finite (pf p0 + t * c1 * pg p0) = true ->
  has_armijo p0 p t c1 = true ->
  (R_of (pf p) <= rnd (R_of (pf p0) + rnd (rnd (R_of t * R_of c1) * R_of (pg p0))))%R.
Proof. exact armijo_real. Qed.
Print Assumptions C07_real_meaning_armijo.

Theorem C07_real_meaning_wolfe : forall p0 p c2,
  PrimFloat.is_finite (pg p) = true -> PrimFloat.is_finite (c2 * pg p0) = true ->
  has_wolfe p0 p c2 = true -> (rnd (R_of c2 * R_of (pg p0)) <= R_of (pg p))%R.
Proof. exact wolfe_real. Qed.
Print Assumptions C07_real_meaning_wolfe.

(* ---------- statements that are FALSE of the faithful model (kept visible in C07_Statements.v; searched on the
   implementation) ---------- *)

(* "success => t > 0": an objective that is invalid for every t > 0 (phi_cliff) drives t to 0 through the `*0.3` loop
   (underflow after ~620 iterations), and backtracking then accepts t = 0 *)
Theorem C07_step_positive_refuted : ~ C07_step_positive_full_statement.
Proof. exact s_step_positive_refuted. Qed.
Print Assumptions C07_step_positive_refuted.

(* ---------- non-vacuity: phi(t) = (t-1)^2, i.e. f0 = 1, dg0 = -2: every search succeeds; refusals exist ---------- *)
Example C07_nonvacuous_success :
  ok (ls_get phi_parab (prm_default 128) p0_parab Backtrack t_eighth) = true /\
  ok (ls_get phi_parab (prm_default 128) p0_parab Lemarechal t_eighth) = true /\
  ok (ls_get phi_parab (prm_default 128) p0_parab Fletcher t_eighth) = true /\
  ok (ls_get phi_parab (prm_default 128) p0_parab MoreThuente t_eighth) = true /\
  ok (ls_get phi_parab (prm_default 128) p0_parab CGDescent t_eighth) = true /\
  rt (ls_get phi_parab (prm_default 128) p0_parab Fletcher t_eighth) = fone /\
  length (trace (rs (ls_get phi_parab (prm_default 128) p0_parab Fletcher t_eighth))) = 2%nat.
Proof. vm_compute. repeat split; reflexivity. Qed.

Example C07_nonvacuous_refusal :
  (pg p0_flat <? fzero) = false /\ (pg p0_nan <? fzero) = false /\ (pg p0_parab <? fzero) = true /\
  ok (ls_get phi_parab (prm_default 128) p0_nan Fletcher fone) = false.
Proof. vm_compute. repeat split; reflexivity. Qed.
