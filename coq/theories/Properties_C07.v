(* C07 -- Line-search steps honour the acceptance conditions they advertise.
   Only statements + `exact` + Print Assumptions live here. Model: C07_Defs (PrimFloat, bit-exact; the predicates and
   interpolation formulas are re-translated from src/solver/state.cpp, src/solver/lstep.cpp, src/lsearchk.cpp on every
   run). Every theorem quantifies over EVERY probe oracle `phi` (the objective along the direction, possibly
   non-deterministic / non-smooth / invalid anywhere), all parameters and every max_iterations >= 1. *)
From Coq Require Import List ZArith Bool.
From Coq Require Floats.
From Coq Require Import Reals.
From LN Require Import C07_Defs C07_Statements C07_Proofs C07_MT C07_CG C07_Budget C07_Real.
Import ListNotations.
Import PrimFloat.PrimFloatNotations.   (* notations only: the primitives print as PrimFloat.* in Print Assumptions *)
Local Open Scope float_scope.
Local Notation abs := PrimFloat.abs.

(* a direction with dg0 >= 0 or dg0 = NaN is refused: failure, the step handed back untouched, no evaluation, state
   untouched *)
Theorem C07_refuses_non_descent : forall phi prm p0 a t0,
  (pg p0 <? fzero) = false ->
  let r := ls_get phi prm p0 a t0 in
  ok r = false /\ rt r = t0 /\ trace (rs r) = [] /\ cnt (rs r) = 0%Z /\ cur (rs r) = p0.
Proof. intros phi prm p0 a t0 D r. subst r. rewrite (ls_get_refuses phi prm p0 a t0 D). repeat split. Qed.
Print Assumptions C07_refuses_non_descent.

(* backtracking: success => Armijo, as the float inequality state.cpp evaluates, on (state0, returned state, returned t) *)
Theorem C07_backtrack_armijo : forall phi prm p0 t0,
  (0 < maxit prm)%Z ->
  let r := ls_get phi prm p0 Backtrack t0 in
  ok r = true ->
  (pf (cur (rs r)) <=? pf p0 + rt r * c1 prm * pg p0) = true.
Proof. intros phi prm p0 t0 M r H. exact (proj2 (ls_get_ok phi prm p0 Backtrack t0 M H)). Qed.
Print Assumptions C07_backtrack_armijo.

(* LeMarechal: success => Armijo and Wolfe *)
Theorem C07_lemarechal_wolfe : forall phi prm p0 t0,
  (0 < maxit prm)%Z ->
  let r := ls_get phi prm p0 Lemarechal t0 in
  ok r = true ->
  (pf (cur (rs r)) <=? pf p0 + rt r * c1 prm * pg p0) = true /\
  (c2 prm * pg p0 <=? pg (cur (rs r))) = true.
Proof. intros phi prm p0 t0 M r H. exact (proj2 (ls_get_ok phi prm p0 Lemarechal t0 M H)). Qed.
Print Assumptions C07_lemarechal_wolfe.

(* Fletcher (bracketing and zoom): success => Armijo and strong Wolfe *)
Theorem C07_fletcher_strong_wolfe : forall phi prm p0 t0,
  (0 < maxit prm)%Z ->
  let r := ls_get phi prm p0 Fletcher t0 in
  ok r = true ->
  (pf (cur (rs r)) <=? pf p0 + rt r * c1 prm * pg p0) = true /\
  (abs (pg (cur (rs r))) <=? c2 prm * abs (pg p0)) = true.
Proof. intros phi prm p0 t0 M r H. exact (proj2 (ls_get_ok phi prm p0 Fletcher t0 M H)). Qed.
Print Assumptions C07_fletcher_strong_wolfe.

(* all five (incl. More-Thuente and CG_DESCENT): on success at least one evaluation was made, the returned state IS the
   answer of the last evaluation, and -- whenever that state is valid -- the last evaluation was requested at the
   returned step *)
Theorem C07_success_is_last_probe : forall phi prm p0 a t0,
  (0 < maxit prm)%Z ->
  let r := ls_get phi prm p0 a t0 in
  ok r = true ->
  exists tl rest,
    trace (rs r) = tl :: rest /\ cnt (rs r) = Z.of_nat (S (length rest)) /\
    cur (rs r) = phi (Z.of_nat (length rest)) tl /\
    (pv (cur (rs r)) = true -> tl = rt r).
Proof.
  intros phi prm p0 a t0 M r H.
  destruct (ls_get_ok phi prm p0 a t0 M H) as [[[Hc Hw] [Hn Hs]] _]. fold r in Hc, Hw, Hn, Hs.
  destruct (trace (rs r)) as [|tl rest] eqn:E; [contradiction|].
  exists tl, rest. repeat split; try assumption.
  intros V. destruct (Hs V) as [rest' E']. congruence.
Qed.
Print Assumptions C07_success_is_last_probe.

(* all five: a success never carries an invalid state (after fix 0701278 lsearchk_t::get fails when the `*0.3` loop found
   no valid trial point; before it More-Thuente/LeMarechal/Fletcher could accept the stale state of the previous trial),
   hence every success is the evaluation AT the returned step *)
Theorem C07_success_state_valid_at_step : forall phi prm p0 a t0,
  (0 < maxit prm)%Z ->
  let r := ls_get phi prm p0 a t0 in
  ok r = true ->
  pv (cur (rs r)) = true /\ exists rest, trace (rs r) = rt r :: rest /\
  cur (rs r) = phi (Z.of_nat (length rest)) (rt r).
Proof.
  intros phi prm p0 a t0 M r H.
  pose proof (ls_get_valid phi prm p0 a t0 H) as V. fold r in V. split; [exact V|].
  destruct (ls_get_ok phi prm p0 a t0 M H) as [[[Hc Hw] [Hn Hs]] _]. fold r in Hc, Hw, Hn, Hs.
  destruct (Hs V) as [rest E]. exists rest. split; [exact E|].
  rewrite E in Hw. exact Hw.
Qed.
Print Assumptions C07_success_state_valid_at_step.

(* the guard added by the fix is what excludes it: do_get entered alone with the stale invalid state of the `*0.3` loop
   (as the code did before 0701278) reports success on a state evaluated at another step *)
Theorem C07_do_get_alone_accepts_invalid_state :
  let r := do_get phi_stale (prm_default 2) p0_slope Lemarechal stale_entry t_009 in
  ok r = true /\ pv (cur (rs r)) = false /\ trace (rs r) = [t_03; fone] /\
  PrimFloat.eqb (rt r) t_03 = false.
Proof. exact s_do_get_alone_accepts_invalid_state. Qed.
Print Assumptions C07_do_get_alone_accepts_invalid_state.

(* "up to rounding": over the reals (Flocq; R_of = the real value of a finite double, rnd = rounding to nearest-even in
   binary64) the accepted boolean tests are the textbook inequalities with each operation of the right-hand side rounded
   once -- provided the operands / intermediate results are finite *)
Theorem C07_real_meaning_armijo : forall p0 p t c1,
  PrimFloat.is_finite (pf p) = true -> PrimFloat.is_finite (pf p0) = true ->
  PrimFloat.is_finite (t * c1) = true -> PrimFloat.is_finite (t * c1 * pg p0) = true ->
  PrimFloat.is_finite (pf p0 + t * c1 * pg p0) = true ->
  has_armijo p0 p t c1 = true ->
  (R_of (pf p) <= rnd (R_of (pf p0) + rnd (rnd (R_of t * R_of c1) * R_of (pg p0))))%R.
Proof. exact armijo_real. Qed.
Print Assumptions C07_real_meaning_armijo.

Theorem C07_real_meaning_wolfe : forall p0 p c2,
  PrimFloat.is_finite (pg p) = true -> PrimFloat.is_finite (c2 * pg p0) = true ->
  has_wolfe p0 p c2 = true -> (rnd (R_of c2 * R_of (pg p0)) <= R_of (pg p))%R.
Proof. exact wolfe_real. Qed.
Print Assumptions C07_real_meaning_wolfe.

(* ---------- More-Thuente: WHEN does a reported success carry the strong Wolfe conditions? ----------
   `rx r = XMT m`: m are the locals of do_get (brackt, stmin, stmax, ...) at the `return {true, stp}`; the five disjuncts
   are the five tests of morethuente.cpp (translated from the source on every run), in the order: convergence test,
   then the four "no further progress" exits. ftest = finit + stp * (ftol * ginit) is More-Thuente's own sufficient
   decrease bound (NOT state.cpp's f0 + (t * c1) * dg0: see C07_morethuente_state_armijo_not_implied). *)
Theorem C07_morethuente_success_cases : forall phi prm p0 t0,
  let r := ls_get phi prm p0 MoreThuente t0 in
  ok r = true ->
  exists m, rx r = XMT m /\
  let stp := rt r in
  let f := pf (cur (rs r)) in
  let g := pg (cur (rs r)) in
  let gtest := c1 prm * pg p0 in
  let ftest := pf p0 + stp * gtest in
  (* converged: sufficient decrease and |dg| <= c2 * (-dg0) *)
  ((f <=? ftest) = true /\ (abs g <=? c2 prm * - pg p0) = true) \/
  (* rounding errors prevent progress: the trial step left the bracket *)
  (m_brackt m = true /\ ((stp <=? m_stmin m) = true \/ (m_stmax m <=? stp) = true)) \/
  (* the bracket collapsed: (stmax - stmin) <= xtol * stmax *)
  (m_brackt m = true /\ (m_stmax m - m_stmin m <=? eps0 * m_stmax m) = true) \/
  (* the step is at stpmax, with sufficient decrease and dg <= gtest *)
  ((stpmax <=? stp) = true /\ (f <=? ftest) = true /\ (g <=? gtest) = true) \/
  (* the step is at stpmin, without sufficient decrease or with dg >= gtest *)
  ((stp <=? stpmin) = true /\ ((ftest <? f) = true \/ (gtest <=? g) = true)).
Proof. exact ls_get_mt_cases. Qed.
Print Assumptions C07_morethuente_success_cases.

(* corollary: when none of the four early-exit tests holds at the returned iterate, the success carries More-Thuente's
   sufficient decrease and the strong Wolfe condition exactly as state.cpp's has_strong_wolfe evaluates it *)
Theorem C07_morethuente_strong_wolfe_unless_early_exit : forall phi prm p0 t0,
  let r := ls_get phi prm p0 MoreThuente t0 in
  ok r = true ->
  forall m, rx r = XMT m ->
  let stp := rt r in
  let f := pf (cur (rs r)) in
  let g := pg (cur (rs r)) in
  let gtest := c1 prm * pg p0 in
  let ftest := pf p0 + stp * gtest in
  (m_brackt m && ((stp <=? m_stmin m) || (m_stmax m <=? stp))) = false ->
  (m_brackt m && (m_stmax m - m_stmin m <=? eps0 * m_stmax m)) = false ->
  ((stpmax <=? stp) && (f <=? ftest) && (g <=? gtest)) = false ->
  ((stp <=? stpmin) && ((ftest <? f) || (gtest <=? g))) = false ->
  (f <=? ftest) = true /\ (abs g <=? c2 prm * abs (pg p0)) = true.
Proof. exact ls_get_mt_strong_wolfe_explicit. Qed.
Print Assumptions C07_morethuente_strong_wolfe_unless_early_exit.

(* the third disjunct never decides alone: whenever the collapsed-bracket test holds at a successful return, the rounding
   test -- which precedes it in the source -- holds as well (the iteration that detected the collapse set stp = stx, an
   end of [stmin, stmax]); the second `return {true, stp}` of morethuente.cpp is dead code *)
Theorem C07_morethuente_collapsed_exit_never_taken : forall phi prm p0 t0,
  let r := ls_get phi prm p0 MoreThuente t0 in
  ok r = true ->
  forall m, rx r = XMT m ->
  (m_brackt m && (m_stmax m - m_stmin m <=? eps0 * m_stmax m)) = true ->
  (m_brackt m && ((rt r <=? m_stmin m) || (m_stmax m <=? rt r))) = true.
Proof. exact ls_get_mt_collapsed_never_first. Qed.
Print Assumptions C07_morethuente_collapsed_exit_never_taken.

(* every disjunct is inhabited (flags = the five tests in SOURCE order: rounding, collapsed, stpmax, stpmin, converged):
   (t-1)^2 converges; |t - 1/2| ends with a collapsed bracket (rounding and collapsed hold together: after the iteration
   forced stp = stx the rounding test, which comes first in the source, is the one that returns) without strong Wolfe;
   1 - t ends at stpmax without strong Wolfe; a jump at the origin ends at stpmin with f > f0 *)
Theorem C07_morethuente_exits_reachable :
  (let r := ls_get phi_parab (prm_default 128) p0_parab MoreThuente t_eighth in
   ok r = true /\ mt_exit_flags (prm_default 128) p0_parab r = Some [false; false; false; false; true]) /\
  (let r := ls_get phi_vee (prm_default 128) p0_vee MoreThuente fone in
   ok r = true /\ mt_exit_flags (prm_default 128) p0_vee r = Some [true; true; false; false; false] /\
   has_strong_wolfe p0_vee (cur (rs r)) (c2 (prm_default 128)) = false) /\
  (let r := ls_get phi_linear (prm_default 128) p0_slope MoreThuente fone in
   ok r = true /\ mt_exit_flags (prm_default 128) p0_slope r = Some [false; false; true; false; false] /\
   has_strong_wolfe p0_slope (cur (rs r)) (c2 (prm_default 128)) = false) /\
  (let r := ls_get phi_jump (prm_default 128) p0_slope MoreThuente fone in
   ok r = true /\ mt_exit_flags (prm_default 128) p0_slope r = Some [false; false; false; true; false] /\
   has_armijo p0_slope (cur (rs r)) (rt r) (c1 (prm_default 128)) = false /\ (pf p0_slope <? pf (cur (rs r))) = true).
Proof. exact s_mt_exits_reachable. Qed.
Print Assumptions C07_morethuente_exits_reachable.

(* the convergence test does NOT imply state.cpp's has_armijo: stp * (c1 * dg0) and (stp * c1) * dg0 round differently
   (f0 = 0, dg0 = -3, t = 13/1024, f = t * (c1 * dg0): converged, has_armijo false by one ulp) *)
Theorem C07_morethuente_state_armijo_not_implied :
  let r := ls_get phi_assoc (prm_default 128) p0_assoc MoreThuente t_assoc in
  ok r = true /\ mt_exit_flags (prm_default 128) p0_assoc r = Some [false; false; false; false; true] /\
  has_armijo p0_assoc (cur (rs r)) (rt r) (c1 (prm_default 128)) = false.
Proof. exact s_mt_state_armijo_not_implied. Qed.
Print Assumptions C07_morethuente_state_armijo_not_implied.

(* ---------- CG_DESCENT: a success is `return {state.valid(), t}` after interval_t::done(...) = true ----------
   `rx r = XCG iv bracketed`: the interval [a, b] and the `bracketed` argument of that call. epsilon_k =
   epsilon * |f(x0)| as make_params computes it. The three disjuncts are done's tests (translated from cgdescent.cpp):
   Wolfe (T1 of Hager-Zhang) or approximate Wolfe (T2) at a step inside [a.t, b.t] -- both pairs are tried on every
   call, this implementation has no permanent switch to the approximate conditions --, or "bracketing failed": after
   bracket(), a.f > f0 + epsilon_k or b.g < 0, in which case NO acceptance condition was evaluated. *)
Theorem C07_cgdescent_success_cases : forall phi prm p0 t0,
  let r := ls_get phi prm p0 CGDescent t0 in
  ok r = true ->
  let epsk := cg_epsilon prm * abs (pf p0) in
  let c := cur (rs r) in
  let t := rt r in
  pv c = true /\
  exists iv bracketed, rx r = XCG iv bracketed /\ i_s iv = rs r /\ i_step iv = t /\
  (((t <? st_t (i_a iv)) = false /\ (st_t (i_b iv) <? t) = false /\
    (pf c <=? pf p0 + t * c1 prm * pg p0) = true /\ (c2 prm * pg p0 <=? pg c) = true) \/
   ((t <? st_t (i_a iv)) = false /\ (st_t (i_b iv) <? t) = false /\
    (pf c <=? pf p0 + epsk) = true /\
    ((pg c <=? (ftwo * c1 prm - fone) * pg p0) && (c2 prm * pg p0 <=? pg c)) = true) \/
   (bracketed = true /\ ((pf p0 + epsk <? st_f (i_a iv)) = true \/ (st_g (i_b iv) <? fzero) = true))).
Proof. exact ls_get_cg_cases. Qed.
Print Assumptions C07_cgdescent_success_cases.

(* in the third disjunct the sub-case a.f > f0 + epsilon_k never occurs: `a` only holds the origin or points that passed
   has_approx_armijo. The hypothesis `(f0 + epsilon_k < f0) = false` is a fact about rounding (epsilon_k >= 0 or NaN), true
   for every double f0; it is stated, not proved. Hence "bracketing failed" successes are exactly: b.g < 0 after bracket() *)
Theorem C07_cgdescent_bracketing_failed_lower_end_ok : forall phi prm p0,
  (pf p0 + cg_epsilon prm * abs (pf p0) <? pf p0) = false ->
  forall t0 iv bracketed,
  rx (ls_get phi prm p0 CGDescent t0) = XCG iv bracketed ->
  (pf p0 + cg_epsilon prm * abs (pf p0) <? st_f (i_a iv)) = false.
Proof. exact ls_get_cg_ainv. Qed.
Print Assumptions C07_cgdescent_bracketing_failed_lower_end_ok.

(* every disjunct is inhabited (flags = [bracketed; a.f > f0 + epsilon_k; b.g < 0; step inside [a.t, b.t]; armijo; wolfe;
   approx armijo; approx wolfe]): (t-1)^2 ends with Wolfe; a plateau 2^-24 above f0 is accepted by the approximate
   conditions only (no decrease); on 1 - t bracket() uses up max_iterations and the search "succeeds" at
   t = 5^128 outside [a.t, b.t] with neither Wolfe nor approximate Wolfe *)
Theorem C07_cgdescent_exits_reachable :
  (let r := ls_get phi_parab (prm_default 128) p0_parab CGDescent t_eighth in
   ok r = true /\ cg_exit_flags (prm_default 128) p0_parab r = Some [true; false; false; true; true; true; true; true]) /\
  (let r := ls_get phi_plateau (prm_default 128) p0_slope CGDescent fone in
   ok r = true /\ cg_exit_flags (prm_default 128) p0_slope r = Some [false; false; false; true; false; true; true; true]) /\
  (let r := ls_get phi_linear (prm_default 128) p0_slope CGDescent fone in
   ok r = true /\ cg_exit_flags (prm_default 128) p0_slope r = Some [true; false; true; false; true; false; true; false]).
Proof. exact s_cg_exits_reachable. Qed.
Print Assumptions C07_cgdescent_exits_reachable.

(* ---------- the evaluation budget of ONE lsearchk_t::get call ----------
   `cnt` = number of state.update(x0 + t*d) calls (each = one function_t::vgrad WITH gradient: 1 fcall + 1 gcall), for
   every probe oracle (deterministic or not), all parameters, every max_iterations n >= 1:
   2n for the `*0.3` / `*3` loops of get() + do_get: backtrack n, lemarechal n-1, fletcher (n-1) + n (bracketing + one zoom),
   morethuente n, cgdescent 7n+1 (the mutable m_max_iterations is decremented once per evaluation of bracket()/updateU()
   except the last one of each updateU() call; the main loop makes up to three move+update per iteration) *)
Theorem C07_evaluations_bounded : forall phi prm p0 a t0,
  (0 < maxit prm)%Z ->
  (0 <= cnt (rs (ls_get phi prm p0 a t0)) <= ls_bound a (maxit prm))%Z.
Proof. exact ls_get_cnt. Qed.
Print Assumptions C07_evaluations_bounded.

Theorem C07_evaluation_bound_values : forall n,
  (ls_bound Backtrack n = 3 * n /\ ls_bound Lemarechal n = 3 * n - 1 /\ ls_bound Fletcher n = 4 * n - 1 /\
   ls_bound MoreThuente n = 3 * n /\ ls_bound CGDescent n = 9 * n + 1)%Z.
Proof. exact ls_bound_values. Qed.
Print Assumptions C07_evaluation_bound_values.

(* with the registered default of lsearchk::max_iterations (translated from lsearchk.cpp: 128) one line search costs at most
   384 / 383 / 511 / 384 / 1153 evaluations, i.e. 768 / 766 / 1022 / 768 / 2306 in solver_t's unit fcalls + gcalls *)
Theorem C07_evaluations_bounded_default : forall phi prm p0 a t0,
  maxit prm = default_max_iterations ->
  (0 <= cnt (rs (ls_get phi prm p0 a t0)) <=
   match a with Backtrack => 384 | Lemarechal => 383 | Fletcher => 511 | MoreThuente => 384 | CGDescent => 1153 end)%Z.
Proof. exact ls_get_cnt_default. Qed.
Print Assumptions C07_evaluations_bounded_default.

Theorem C07_default_max_iterations : default_max_iterations = 128%Z /\ min_max_iterations = 1%Z.
Proof. exact default_max_iterations_value. Qed.
Print Assumptions C07_default_max_iterations.

(* the bound is attained by backtrack (384 = 3*128) and lemarechal (383) on an objective whose first 127 trial points are
   invalid and which is flat afterwards; a table-driven oracle drives cgdescent to 62 of the 91 = 9*10+1 evaluations *)
Theorem C07_evaluation_bound_witnesses :
  cnt (rs (ls_get (phi_flat_after 128) (prm_default 128) p0_zero Backtrack fone)) = 384%Z /\
  cnt (rs (ls_get (phi_flat_after 128) (prm_default 128) p0_zero Lemarechal fone)) = 383%Z /\
  cnt (rs (ls_get (phi_table cg_costly_table) (prm_default 10) p0_zero CGDescent fone)) = 62%Z.
Proof. exact s_evaluation_bound_witnesses. Qed.
Print Assumptions C07_evaluation_bound_witnesses.

(* ---------- statements that are FALSE of the faithful model (kept visible in C07_Statements.v; searched on the
   implementation) ---------- *)

(* "success => t > 0": an objective that is invalid for every t > 0 (phi_cliff) drives t to 0 through the `*0.3` loop
   (underflow after ~620 iterations), and backtracking then accepts t = 0 *)
Theorem C07_step_positive_refuted : ~ C07_step_positive_full_statement.
Proof. exact s_step_positive_refuted. Qed.
Print Assumptions C07_step_positive_refuted.

(* ---------- non-vacuity: phi(t) = (t-1)^2, i.e. f0 = 1, dg0 = -2: every search succeeds; refusals exist ---------- *)
Example C07_nonvacuous_success :
  ok (ls_get phi_parab (prm_default 128) p0_parab Backtrack t_eighth) = true /\
  ok (ls_get phi_parab (prm_default 128) p0_parab Lemarechal t_eighth) = true /\
  ok (ls_get phi_parab (prm_default 128) p0_parab Fletcher t_eighth) = true /\
  ok (ls_get phi_parab (prm_default 128) p0_parab MoreThuente t_eighth) = true /\
  ok (ls_get phi_parab (prm_default 128) p0_parab CGDescent t_eighth) = true /\
  rt (ls_get phi_parab (prm_default 128) p0_parab Fletcher t_eighth) = fone /\
  length (trace (rs (ls_get phi_parab (prm_default 128) p0_parab Fletcher t_eighth))) = 2%nat.
Proof. vm_compute. repeat split; reflexivity. Qed.

Example C07_nonvacuous_refusal :
  (pg p0_flat <? fzero) = false /\ (pg p0_nan <? fzero) = false /\ (pg p0_parab <? fzero) = true /\
  ok (ls_get phi_parab (prm_default 128) p0_nan Fletcher fone) = false.
Proof. vm_compute. repeat split; reflexivity. Qed.
