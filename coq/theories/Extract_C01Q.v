(* extraction of the executable C01Q model (quasi-Newton updates of quasi.cpp, two-loop recursion of lbfgs.cpp).
   Z / positive are mapped to Zarith big integers (ExtrOcamlZBigInt).  The canonical rationals Qc reduce after every
   operation (Qred -> Z.ggcd); the structural binary gcd of the standard library on emulated positives is far too slow
   on numerators of thousands of bits, so Z.ggcd is mapped to Zarith's gcd with the specification of Z.ggcd
   (Z.ggcd a b = (g, (a/g, b/g)) with g = gcd a b >= 0, and (0, (0, 0)) for a = b = 0) -- part of the trusted base,
   like the mappings of Z.div / Z.modulo in ExtrOcamlZBigInt. *)
From Coq Require Import List ZArith QArith Qcanon Extraction ExtrOcamlBasic ExtrOcamlZBigInt.
From LN Require Import C01Q_Defs.
Extraction Language OCaml.
Extract Constant Z.ggcd => "(fun a b -> let g = Big_int_Z.gcd_big_int a b in
  if Big_int_Z.sign_big_int g = 0 then (g, (g, g)) else (g, (Big_int_Z.div_big_int a g, Big_int_Z.div_big_int b g)))".
Extraction "extracted/c01q_model.ml" QcO zcmp
  dot vadd vsub vscale mv vm mmul madd msub mscale mdivs outer identity transpose
  sr1_plain sr1_apply sr1 dfp bfgs hoshino_phi hoshino broyden fletcher_phi fletcher scaled_identity quasi_update
  quasi_direction loop1 loop2 lbfgs_scale two_loop lbfgs_direction lbfgs_H0 lbfgs_matrix lbfgs_push
  Q2Qc Qcplus Qcminus Qcmult Qcdiv Qcopp Qccompare Qred.
