(* C07, QUAD extension -- proofs about the exact-arithmetic line searches on a convex quadratic. *)
From Coq Require Import List ZArith QArith Qabs Qround Lqa Bool Lia.
From LNGen Require Import Src_c07_q.
From LN Require Import C07_Quad_Defs.
Import ListNotations.
Local Open Scope Q_scope.

(* instantiate the leading non-dependent premises of a lemma from the context *)
Ltac spec_hyps R :=
  repeat match type of R with
         | ?A -> _ => let H := fresh in assert (H : A) by assumption; specialize (R H); clear H
         end.
Tactic Notation "use" constr(L) "as" ident(R) := pose proof L as R; spec_hyps R.

(* ---------- booleans ---------- *)
Lemma qltb_true : forall a b, qltb a b = true <-> a < b.
Proof.
  intros a b. unfold qltb. rewrite negb_true_iff. split; intro H.
  - apply Qnot_le_lt. intro H1. apply Qle_bool_iff in H1. congruence.
  - destruct (Qle_bool b a) eqn:E; auto. apply Qle_bool_iff in E. exfalso. apply (Qlt_not_le _ _ H E).
Qed.

Lemma qltb_false : forall a b, qltb a b = false <-> b <= a.
Proof.
  intros a b. unfold qltb. rewrite negb_false_iff. apply Qle_bool_iff.
Qed.

Lemma qleb_false : forall a b, Qle_bool a b = false <-> b < a.
Proof.
  intros a b. split; intro H.
  - apply Qnot_le_lt. intro H1. apply Qle_bool_iff in H1. congruence.
  - destruct (Qle_bool a b) eqn:E; auto. apply Qle_bool_iff in E. exfalso. apply (Qlt_not_le _ _ H E).
Qed.

Lemma qeqb_false : forall a b, Qeq_bool a b = false <-> ~ a == b.
Proof.
  intros a b. split; intro H.
  - intro E. apply Qeq_bool_iff in E. congruence.
  - destruct (Qeq_bool a b) eqn:E; auto. apply Qeq_bool_iff in E. contradiction.
Qed.

(* ---------- std::min / std::max / std::clamp ---------- *)
Lemma qmin_spec : forall a b, (b < a /\ qmin a b = b) \/ (a <= b /\ qmin a b = a).
Proof.
  intros a b. unfold qmin. destruct (qltb b a) eqn:E.
  - left. apply qltb_true in E. auto.
  - right. apply qltb_false in E. auto.
Qed.

Lemma qmax_spec : forall a b, (a < b /\ qmax a b = b) \/ (b <= a /\ qmax a b = a).
Proof.
  intros a b. unfold qmax. destruct (qltb a b) eqn:E.
  - left. apply qltb_true in E. auto.
  - right. apply qltb_false in E. auto.
Qed.

Lemma qclamp_range : forall v lo hi, lo <= hi -> lo <= qclamp v lo hi /\ qclamp v lo hi <= hi.
Proof.
  intros v lo hi H. unfold qclamp.
  destruct (qmax_spec v lo) as [[H1 E1] | [H1 E1]]; rewrite E1;
    destruct (qmin_spec lo hi) as [[H2 E2] | [H2 E2]]; try rewrite E2;
    try (destruct (qmin_spec v hi) as [[H3 E3] | [H3 E3]]; rewrite E3); split; lra.
Qed.

(* the clamp of a value known up to == *)
Lemma qclamp_cases : forall v x lo hi, v == x -> lo <= hi ->
  (x <= lo /\ qclamp v lo hi == lo) \/ (lo <= x /\ x <= hi /\ qclamp v lo hi == x) \/ (hi <= x /\ qclamp v lo hi == hi).
Proof.
  intros v x lo hi E H. unfold qclamp.
  destruct (qmax_spec v lo) as [[H1 E1] | [H1 E1]]; rewrite E1.
  - left. destruct (qmin_spec lo hi) as [[H2 E2] | [H2 E2]]; rewrite E2; split; lra.
  - destruct (qmin_spec v hi) as [[H3 E3] | [H3 E3]]; rewrite E3.
    + right. right. split; lra.
    + right. left. repeat split; lra.
Qed.

(* ---------- the quadratic probe ---------- *)
Lemma quad_qf : forall f0 g0 a t, qf (quad f0 g0 a t) == quad_f f0 g0 a t.
Proof. intros. unfold quad. cbn [qf]. apply Qred_correct. Qed.
Lemma quad_qg : forall f0 g0 a t, qg (quad f0 g0 a t) == quad_g g0 a t.
Proof. intros. unfold quad. cbn [qg]. apply Qred_correct. Qed.
Lemma quad_qv : forall f0 g0 a t, qv (quad f0 g0 a t) = true.
Proof. reflexivity. Qed.

Lemma tstar_mul : forall g0 a, 0 < a -> a * tstar g0 a == - g0.
Proof. intros. unfold tstar. field. lra. Qed.

Lemma tstar_pos : forall g0 a, g0 < 0 -> 0 < a -> 0 < tstar g0 a.
Proof.
  intros g0 a Hg Ha. pose proof (tstar_mul g0 a Ha) as E.
  destruct (Qlt_le_dec 0 (tstar g0 a)) as [H | H]; auto. exfalso. nra.
Qed.

(* ---------- the predicates are the textbook inequalities (pins the translated kernels) ---------- *)
Lemma q_has_armijo_spec : forall p0 p t c1, q_has_armijo p0 p t c1 = true <-> qf p <= qf p0 + t * c1 * qg p0.
Proof. intros. unfold q_has_armijo, src_has_armijo_q. apply Qle_bool_iff. Qed.
Lemma q_has_wolfe_spec : forall p0 p c2, q_has_wolfe p0 p c2 = true <-> c2 * qg p0 <= qg p.
Proof. intros. unfold q_has_wolfe, src_has_wolfe_q. apply Qle_bool_iff. Qed.
Lemma q_has_strong_wolfe_spec : forall p0 p c2, q_has_strong_wolfe p0 p c2 = true <-> Qabs (qg p) <= c2 * Qabs (qg p0).
Proof. intros. unfold q_has_strong_wolfe, src_has_strong_wolfe_q. apply Qle_bool_iff. Qed.
Lemma q_has_descent_spec : forall p, q_has_descent p = true <-> qg p < 0.
Proof. intros. unfold q_has_descent, src_has_descent_q. apply qltb_true. Qed.
Lemma q_has_approx_armijo_spec : forall p0 p e, q_has_approx_armijo p0 p e = true <-> qf p <= qf p0 + e.
Proof. intros. unfold q_has_approx_armijo, src_has_approx_armijo_q. apply Qle_bool_iff. Qed.
Lemma q_has_approx_wolfe_spec : forall p0 p c1 c2,
  q_has_approx_wolfe p0 p c1 c2 = true <-> qg p <= (2 * c1 - 1) * qg p0 /\ c2 * qg p0 <= qg p.
Proof.
  intros. unfold q_has_approx_wolfe, src_has_approx_wolfe_q. rewrite andb_true_iff, !Qle_bool_iff. reflexivity.
Qed.

(* comparisons against a multiple of t* without the division *)
Lemma tstar_le_iff : forall g0 a k t, 0 < a -> (t <= k * tstar g0 a <-> a * t <= - (k * g0)).
Proof.
  intros g0 a k t Ha. rewrite <- (Qmult_le_l t (k * tstar g0 a) a Ha).
  setoid_replace (a * (k * tstar g0 a)) with (- (k * g0)) by (unfold tstar; field; lra). reflexivity.
Qed.
Lemma tstar_ge_iff : forall g0 a k t, 0 < a -> (k * tstar g0 a <= t <-> - (k * g0) <= a * t).
Proof.
  intros g0 a k t Ha. rewrite <- (Qmult_le_l (k * tstar g0 a) t a Ha).
  setoid_replace (a * (k * tstar g0 a)) with (- (k * g0)) by (unfold tstar; field; lra). reflexivity.
Qed.
Lemma tstar_lt_iff : forall g0 a k t, 0 < a -> (t < k * tstar g0 a <-> a * t < - (k * g0)).
Proof.
  intros g0 a k t Ha. rewrite <- (Qmult_lt_l t (k * tstar g0 a) a Ha).
  setoid_replace (a * (k * tstar g0 a)) with (- (k * g0)) by (unfold tstar; field; lra). reflexivity.
Qed.
Lemma tstar_gt_iff : forall g0 a k t, 0 < a -> (k * tstar g0 a < t <-> - (k * g0) < a * t).
Proof.
  intros g0 a k t Ha. rewrite <- (Qmult_lt_l (k * tstar g0 a) t a Ha).
  setoid_replace (a * (k * tstar g0 a)) with (- (k * g0)) by (unfold tstar; field; lra). reflexivity.
Qed.

(* ---------- (1) acceptance regions in closed form ---------- *)
Section Regions.
  Variables f0 g0 a : Q.
  Hypothesis Hg : g0 < 0.
  Hypothesis Ha : 0 < a.
  Let p0 := quad0 f0 g0.
  Let ph := quad f0 g0 a.
  Let ts := tstar g0 a.

  Lemma armijo_poly : forall c1 t, c1 < 1 ->
    (quad_f f0 g0 a t <= f0 + t * c1 * g0 <-> 0 <= t /\ a * t <= - (2 * (1 - c1) * g0)).
  Proof.
    intros c1 t Hc. unfold quad_f. split.
    - intro H. split.
      + destruct (Qlt_le_dec t 0) as [Hn | Hn]; auto. exfalso.
        assert (0 < (- t) * (- (g0 * (1 - c1)) + a * (- t) * (1 # 2))) by (apply Qmult_lt_0_compat; nra). nra.
      + destruct (Qlt_le_dec (- (2 * (1 - c1) * g0)) (a * t)) as [Hn | Hn]; auto. exfalso.
        assert (0 < t) by (destruct (Qlt_le_dec 0 t) as [Hp | Hp]; auto; exfalso; nra).
        assert (0 < t * (a * t + 2 * (1 - c1) * g0)) by (apply Qmult_lt_0_compat; lra). nra.
    - intros [H1 H2].
      assert (0 <= t * (- (a * t) - 2 * (1 - c1) * g0)) by (apply Qmult_le_0_compat; lra). nra.
  Qed.

  Lemma armijo_region_full : forall c1 t, c1 < 1 ->
    (q_has_armijo p0 (ph t) t c1 = true <-> 0 <= t /\ t <= armijo_hi c1 g0 a).
  Proof.
    intros c1 t Hc. rewrite q_has_armijo_spec. unfold ph, p0. rewrite quad_qf. cbn [qf qg quad0].
    unfold armijo_hi. rewrite (tstar_le_iff g0 a (2 * (1 - c1)) t Ha). apply armijo_poly; auto.
  Qed.

  Lemma armijo_region : forall c1 t, c1 < 1 -> 0 < t ->
    (q_has_armijo p0 (ph t) t c1 = true <-> t <= armijo_hi c1 g0 a).
  Proof.
    intros c1 t Hc Ht. rewrite (armijo_region_full c1 t Hc). split; [intros [_ H]; auto | intro H; split; [lra | auto]].
  Qed.

  Lemma wolfe_region : forall c2 t, (q_has_wolfe p0 (ph t) c2 = true <-> wolfe_lo c2 g0 a <= t).
  Proof.
    intros c2 t. rewrite q_has_wolfe_spec. unfold ph, p0. rewrite quad_qg. cbn [qf qg quad0].
    unfold wolfe_lo, quad_g. rewrite (tstar_ge_iff g0 a (1 - c2) t Ha). split; intro H; lra.
  Qed.

  Lemma swolfe_region : forall c2 t,
    (q_has_strong_wolfe p0 (ph t) c2 = true <-> wolfe_lo c2 g0 a <= t /\ t <= swolfe_hi c2 g0 a).
  Proof.
    intros c2 t. rewrite q_has_strong_wolfe_spec. unfold ph, p0. rewrite quad_qg. cbn [qf qg quad0].
    unfold wolfe_lo, swolfe_hi, quad_g.
    rewrite (tstar_ge_iff g0 a (1 - c2) t Ha), (tstar_le_iff g0 a (1 + c2) t Ha).
    rewrite (Qabs_neg g0) by lra. rewrite Qabs_Qle_condition. split; intros [H1 H2]; split; lra.
  Qed.

  (* Armijo + Wolfe = [W, U], of positive length whenever c1 < c2 *)
  Lemma armijo_wolfe_nonempty : forall c1 c2, 0 < c1 -> c1 < c2 -> c2 < 1 ->
    0 < wolfe_lo c2 g0 a /\ wolfe_lo c2 g0 a < armijo_hi c1 g0 a.
  Proof.
    intros c1 c2 H1 H2 H3. unfold wolfe_lo, armijo_hi. pose proof (tstar_pos g0 a Hg Ha) as Hp. fold ts in Hp |- *.
    split; nra.
  Qed.

  (* the exact minimiser: Wolfe and strong Wolfe always hold there, Armijo iff c1 <= 1/2 *)
  Lemma minimiser_armijo_iff : forall c1, c1 < 1 -> (q_has_armijo p0 (ph ts) ts c1 = true <-> c1 <= 1 # 2).
  Proof.
    intros c1 Hc. pose proof (tstar_pos g0 a Hg Ha) as Hp. fold ts in Hp.
    rewrite (armijo_region c1 ts Hc Hp). unfold armijo_hi. fold ts. split; intro H; nra.
  Qed.

  Lemma minimiser_swolfe : forall c2, 0 <= c2 ->
    q_has_strong_wolfe p0 (ph ts) c2 = true /\ q_has_wolfe p0 (ph ts) c2 = true.
  Proof.
    intros c2 H1. pose proof (tstar_pos g0 a Hg Ha) as Hp. fold ts in Hp.
    rewrite (swolfe_region c2 ts), (wolfe_region c2 ts). unfold wolfe_lo, swolfe_hi. fold ts. repeat split; nra.
  Qed.
End Regions.

(* ---------- powers ---------- *)
Lemma qpow_nonneg : forall x n, 0 <= x -> 0 <= qpow x n.
Proof. intros x n H. induction n; simpl; [lra | apply Qmult_le_0_compat; auto]. Qed.

Lemma qpow_pos : forall x n, 0 < x -> 0 < qpow x n.
Proof. intros x n H. induction n; simpl; [lra | apply Qmult_lt_0_compat; auto]. Qed.

Lemma qpow_le_1 : forall x n, 0 <= x -> x <= 1 -> qpow x n <= 1.
Proof.
  intros x n H0 H1. induction n; simpl; [lra |]. pose proof (qpow_nonneg x n H0). nra.
Qed.

(* ---------- (2) backtracking ---------- *)
Section Backtrack.
  Variables f0 g0 a : Q.
  Variable prm : qparams.
  Hypothesis Hg : g0 < 0.
  Hypothesis Ha : 0 < a.
  Hypothesis Hc1 : 0 < qc1 prm.
  Hypothesis Hc1' : qc1 prm < 1.
  Hypothesis Hs : 0 < qsafeguard prm.
  Hypothesis Hs' : qsafeguard prm <= 1 # 2.
  Let p0 := quad0 f0 g0.
  Let ph := quad f0 g0 a.
  Let U := armijo_hi (qc1 prm) g0 a.
  Let s := qsafeguard prm.

  (* the safeguards as written: whatever the interpolation returns, the next trial lies in [s t, (1 - s) t] *)
  Lemma q_bt_next_range : forall st t, 0 < t ->
    s * t <= q_bt_next prm p0 st t /\ q_bt_next prm p0 st t <= (1 - s) * t.
  Proof.
    intros st t Ht. unfold q_bt_next. rewrite Qred_correct.
    assert (E1 : qmin 0 t = 0) by (unfold qmin; replace (qltb t 0) with false; [reflexivity | symmetry; apply qltb_false; lra]).
    assert (E2 : qmax 0 t = t) by (unfold qmax; replace (qltb 0 t) with true; [reflexivity | symmetry; apply qltb_true; lra]).
    rewrite E1, E2. unfold src_bt_interp_min_q, src_bt_interp_max_q. unfold s.
    assert (P1 : 0 <= ((1 # 2) - qsafeguard prm) * t) by (apply Qmult_le_0_compat; lra).
    match goal with |- _ <= qclamp ?v ?lo ?hi /\ _ => destruct (qclamp_range v lo hi) as [K1 K2]; [nra | split; nra] end.
  Qed.

  Lemma q_update_cur : forall st t, qcur (q_update ph st t) = ph t.
  Proof. reflexivity. Qed.
  Lemma ph_qv : forall t, qv (ph t) = true.
  Proof. reflexivity. Qed.

  Lemma q_armijo_quad : forall st t, 0 < t -> qcur st = ph t -> (q_armijo prm p0 st t = true <-> t <= U).
  Proof.
    intros st t Ht E. unfold q_armijo. rewrite E. apply (armijo_region f0 g0 a Hg Ha); auto.
  Qed.

  Theorem q_backtrack_geometric : forall n fuel st t,
    0 < t -> qcur st = ph t -> qpow (1 - s) n * t <= U -> (n < fuel)%nat ->
    let r := q_backtrack ph prm p0 fuel st t in
    qok r = true /\ (qcnt st <= qcnt (qrs r) <= qcnt st + Z.of_nat n)%Z /\ 0 < qrt r /\ qrt r <= U /\
    qcur (qrs r) = ph (qrt r) /\ q_has_armijo p0 (qcur (qrs r)) (qrt r) (qc1 prm) = true.
  Proof.
    induction n as [| n IH]; intros fuel st t Ht Ecur Hpow Hfuel; (destruct fuel as [| k]; [lia |]);
      cbn [q_backtrack]; rewrite Ecur, ph_qv; cbn [negb];
      destruct (q_armijo prm p0 st t) eqn:EA.
    - cbn [qok qrt qrs]. apply (q_armijo_quad st t Ht Ecur) in EA. unfold q_armijo in *.
      repeat split; auto; try lia. rewrite Ecur. apply (armijo_region f0 g0 a Hg Ha); auto.
    - exfalso. simpl in Hpow. assert (t <= U) by lra. apply (q_armijo_quad st t Ht Ecur) in H. congruence.
    - cbn [qok qrt qrs]. apply (q_armijo_quad st t Ht Ecur) in EA.
      repeat split; auto; try lia. rewrite Ecur. apply (armijo_region f0 g0 a Hg Ha); auto.
    - rewrite q_update_cur, ph_qv.
      destruct (q_bt_next_range st t Ht) as [R1 R2].
      set (t' := q_bt_next prm p0 st t) in *. unfold s in *.
      assert (P0 : 0 < qsafeguard prm * t) by (apply Qmult_lt_0_compat; lra).
      assert (Ht' : 0 < t') by lra.
      assert (Hp : qpow (1 - qsafeguard prm) n * t' <= U).
      { simpl in Hpow. assert (P1 : 0 <= qpow (1 - qsafeguard prm) n) by (apply qpow_nonneg; lra).
        assert (P2 : 0 <= qpow (1 - qsafeguard prm) n * ((1 - qsafeguard prm) * t - t')) by (apply Qmult_le_0_compat; lra).
        nra. }
      destruct (IH k (q_update ph st t') t' Ht' (q_update_cur st t') Hp ltac:(lia)) as (I1 & I2 & I3 & I4 & I5 & I6).
      cbn [q_update qcnt] in I2. repeat split; auto; lia.
  Qed.
End Backtrack.

(* ---------- interpolation on exact quadratic data ---------- *)
Definition on_quad (f0 g0 a : Q) (u : qstep) : Prop :=
  qs_f u == quad_f f0 g0 a (qs_t u) /\ qs_g u == quad_g g0 a (qs_t u).

Lemma qstep_of_on_quad : forall f0 g0 a t, on_quad f0 g0 a (qstep_of t (quad f0 g0 a t)).
Proof. intros. split; cbn [qstep_of qs_f qs_g qs_t]; [apply quad_qf | apply quad_qg]. Qed.

Lemma step0_on_quad : forall f0 g0 a, on_quad f0 g0 a (qstep_of 0 (quad0 f0 g0)).
Proof. intros. split; cbn [qstep_of qs_f qs_g qs_t quad0 qf qg]; unfold quad_f, quad_g; ring. Qed.

(* the minimiser of the quadratic interpolant of a quadratic is t*: `lsearch_step_t::quadratic` is exact *)
Lemma q_quadratic_exact : forall f0 g0 a u v, 0 < a -> on_quad f0 g0 a u -> on_quad f0 g0 a v -> ~ qs_t u == qs_t v ->
  exists x, q_quadratic u v = Some x /\ x == tstar g0 a.
Proof.
  intros f0 g0 a [ut uf ug] [vt vf vg] Ha [Hu1 Hu2] [Hv1 Hv2] Hne. cbn [qs_t qs_f qs_g] in *.
  unfold q_quadratic, K6. cbn [qs_t qs_f qs_g].
  unfold src_quadratic_dt_q, src_quadratic_df_q, src_quadratic_den_q, src_quadratic_ret_q.
  assert (Hdt : ~ ut - vt == 0) by (intro E; apply Hne; lra).
  assert (Hden : ug - (uf - vf) / (ut - vt) == a * (ut - vt) * (1 # 2)).
  { rewrite Hu1, Hu2, Hv1. unfold quad_f, quad_g. field. exact Hdt. }
  destruct (Qeq_bool (ut - vt) 0) eqn:E1; [apply Qeq_bool_iff in E1; contradiction |].
  destruct (Qeq_bool (ug - (uf - vf) / (ut - vt)) 0) eqn:E2.
  - apply Qeq_bool_iff in E2. rewrite Hden in E2. exfalso.
    assert (a * (ut - vt) == 0) by lra. apply Qmult_integral in H. destruct H; [lra | contradiction].
  - eexists. split; [reflexivity |]. rewrite Hden, Hu2. unfold quad_g, tstar. field. split; [lra | exact Hdt].
Qed.

(* `lsearch_step_t::secant` on a quadratic returns t* exactly (CG_DESCENT's interval update) *)
Lemma q_secant_exact : forall f0 g0 a u v, 0 < a -> on_quad f0 g0 a u -> on_quad f0 g0 a v -> ~ qs_t u == qs_t v ->
  exists x, q_secant u v = Some x /\ x == tstar g0 a.
Proof.
  intros f0 g0 a [ut uf ug] [vt vf vg] Ha [Hu1 Hu2] [Hv1 Hv2] Hne. cbn [qs_t qs_f qs_g] in *.
  unfold q_secant, K6. cbn [qs_t qs_f qs_g]. unfold src_secant_den_q, src_secant_q.
  assert (Hdt : ~ ut - vt == 0) by (intro E; apply Hne; lra).
  assert (Hden : ug - vg == a * (ut - vt)) by (rewrite Hu2, Hv2; unfold quad_g; ring).
  destruct (Qeq_bool (ug - vg) 0) eqn:E2.
  - apply Qeq_bool_iff in E2. rewrite Hden in E2. exfalso.
    apply Qmult_integral in E2. destruct E2; [lra | contradiction].
  - eexists. split; [reflexivity |]. rewrite Hu2, Hv2. unfold quad_g, tstar. field.
    repeat split; first [lra | exact Hdt | (intro E; assert (E' : a * (ut - vt) == 0) by lra; apply Qmult_integral in E'; destruct E'; [lra | contradiction])].
Qed.

(* ---------- (2b) backtracking with quadratic interpolation: the sharper bound ---------- *)
Section BacktrackSharp.
  Variables f0 g0 a : Q.
  Variable prm : qparams.
  Hypothesis Hg : g0 < 0.
  Hypothesis Ha : 0 < a.
  Hypothesis Hc1 : 0 < qc1 prm.
  Hypothesis Hc1' : qc1 prm <= 1 # 2.
  Hypothesis Hs : 0 < qsafeguard prm.
  Hypothesis Hs' : qsafeguard prm <= 1 # 2.
  Hypothesis Hint : qinterp prm = 1%Z.
  Let p0 := quad0 f0 g0.
  Let ph := quad f0 g0 a.

  Lemma q_bt_next_quadratic : forall st t, 0 < t -> qcur st = ph t ->
    let t' := q_bt_next prm p0 st t in
    let s := qsafeguard prm in
    let ts := tstar g0 a in
    (ts <= s * t /\ t' == s * t) \/ (s * t <= ts /\ ts <= (1 - s) * t /\ t' == ts) \/ ((1 - s) * t <= ts /\ t' == (1 - s) * t).
  Proof.
    intros st t Ht Ecur. cbv zeta. unfold q_bt_next. rewrite Qred_correct, Ecur.
    assert (E1 : qmin 0 t = 0) by (unfold qmin; replace (qltb t 0) with false; [reflexivity | symmetry; apply qltb_false; lra]).
    assert (E2 : qmax 0 t = t) by (unfold qmax; replace (qltb 0 t) with true; [reflexivity | symmetry; apply qltb_true; lra]).
    rewrite E1, E2. unfold src_bt_interp_min_q, src_bt_interp_max_q.
    destruct (q_quadratic_exact f0 g0 a (q_step0 p0) (qstep_of t (ph t)) Ha (step0_on_quad f0 g0 a) (qstep_of_on_quad f0 g0 a t))
      as (x & Ex & Hx).
    { cbn [q_step0 qstep_of qs_t]. lra. }
    assert (Ei : q_interpolate (q_step0 p0) (qstep_of t (ph t)) (qinterp prm) = x).
    { unfold q_interpolate. rewrite Hint, Ex. reflexivity. }
    rewrite Ei.
    assert (P1 : 0 <= ((1 # 2) - qsafeguard prm) * t) by (apply Qmult_le_0_compat; lra).
    destruct (qclamp_cases x (tstar g0 a) (0 + qsafeguard prm * (t - 0)) (t - qsafeguard prm * (t - 0)) Hx ltac:(nra))
      as [[K1 K2] | [[K1 [K2 K3]] | [K1 K2]]].
    - left. split; [nra | rewrite K2; ring].
    - right. left. repeat split; [nra | nra | exact K3].
    - right. right. split; [nra | rewrite K2; ring].
  Qed.

  Theorem q_backtrack_quadratic_sharp : forall m fuel st t,
    0 < t -> qcur st = ph t -> qpow (qsafeguard prm) m * (qsafeguard prm * t) <= tstar g0 a -> (S m < fuel)%nat ->
    let r := q_backtrack ph prm p0 fuel st t in
    qok r = true /\ (qcnt st <= qcnt (qrs r) <= qcnt st + Z.of_nat (S m))%Z /\ 0 < qrt r /\ qrt r <= armijo_hi (qc1 prm) g0 a /\
    qcur (qrs r) = ph (qrt r) /\ q_has_armijo p0 (qcur (qrs r)) (qrt r) (qc1 prm) = true.
  Proof.
    assert (Hc1'' : qc1 prm < 1) by lra.
    pose proof (tstar_pos g0 a Hg Ha) as Hts.
    assert (HU : tstar g0 a <= armijo_hi (qc1 prm) g0 a) by (unfold armijo_hi; nra).
    use (q_backtrack_geometric f0 g0 a prm) as GEO. use (q_armijo_quad f0 g0 a prm) as AQ. use (q_bt_next_range f0 g0 prm) as RNG.
    use (armijo_region f0 g0 a) as AR.
    fold p0 in GEO, AQ, RNG, AR. fold ph in GEO, AQ, AR.
    assert (DONE0 : forall k st t' , 0 < t' -> t' <= armijo_hi (qc1 prm) g0 a -> forall n,
      let r := q_backtrack ph prm p0 (S k) (q_update ph st t') t' in
      qok r = true /\ (qcnt st <= qcnt (qrs r) <= qcnt st + Z.of_nat (S n))%Z /\ 0 < qrt r /\ qrt r <= armijo_hi (qc1 prm) g0 a /\
      qcur (qrs r) = ph (qrt r) /\ q_has_armijo p0 (qcur (qrs r)) (qrt r) (qc1 prm) = true).
    { intros k st t' Ht' Hle n.
      destruct (GEO 0%nat (S k) (q_update ph st t') t' Ht' eq_refl ltac:(simpl; lra) ltac:(lia)) as (I1 & I2 & I3 & I4 & I5 & I6).
      cbn [q_update qcnt] in I2. repeat split; auto; lia. }
    induction m as [| m IH]; intros fuel st t Ht Ecur Hpow Hfuel; (destruct fuel as [| k]; [lia |]);
      cbn [q_backtrack]; rewrite Ecur; change (qv (ph t)) with true; cbn [negb];
      (destruct (q_armijo prm p0 st t) eqn:EA;
       [cbn [qok qrt qrs]; apply (AQ st t Ht Ecur) in EA;
        repeat split; auto; try lia; rewrite Ecur; apply AR; auto |]);
      change (qv (qcur (q_update ph st (q_bt_next prm p0 st t)))) with true; cbv iota;
      pose proof (q_bt_next_quadratic st t Ht Ecur) as Hn; cbv zeta in Hn;
      destruct (RNG st t Ht) as [R1 R2];
      set (t' := q_bt_next prm p0 st t) in *;
      assert (P0 : 0 < qsafeguard prm * t) by (apply Qmult_lt_0_compat; lra);
      assert (Ht' : 0 < t') by lra;
      (destruct k as [| k]; [lia |]).
    - (* m = 0: the next trial step is acceptable *)
      apply DONE0; auto. simpl in Hpow. destruct Hn as [[K1 K2] | [[K1 [K2 K3]] | [K1 K2]]]; lra.
    - destruct Hn as [[K1 K2] | [[K1 [K2 K3]] | [K1 K2]]].
      + (* t* below the safeguard: t' = s t, one factor of the hypothesis is used up *)
        assert (Hp : qpow (qsafeguard prm) m * (qsafeguard prm * t') <= tstar g0 a).
        { rewrite K2. simpl in Hpow. lra. }
        destruct (IH (S k) (q_update ph st t') t' Ht' eq_refl Hp ltac:(lia)) as (I1 & I2 & I3 & I4 & I5 & I6).
        cbn [q_update qcnt] in I2. repeat split; auto; lia.
      + apply DONE0; auto; lra.
      + apply DONE0; auto; lra.
  Qed.
End BacktrackSharp.

(* ---------- (3a) LeMarechal ---------- *)
Section Lemarechal.
  Variables f0 g0 a : Q.
  Variable prm : qparams.
  Hypothesis Hg : g0 < 0.
  Hypothesis Ha : 0 < a.
  Hypothesis Hc1 : 0 < qc1 prm.
  Hypothesis Hc12 : qc1 prm < qc2 prm.
  Hypothesis Hc2 : qc2 prm < 1.
  Hypothesis Hs : 0 < qsafeguard prm.
  Hypothesis Hs' : qsafeguard prm <= 1 # 2.
  Hypothesis Htau : 1 < qtau1 prm.
  Let p0 := quad0 f0 g0.
  Let ph := quad f0 g0 a.
  Let U := armijo_hi (qc1 prm) g0 a.
  Let W := wolfe_lo (qc2 prm) g0 a.
  Hypothesis Heps : q_eps0 <= U.      (* a step beyond the Armijo interval is not mistaken for "R not set yet" *)

  Lemma q_wolfe_quad : forall st t, qcur st = ph t -> (q_wolfe prm p0 st = true <-> W <= t).
  Proof. intros st t E. unfold q_wolfe. rewrite E. apply (wolfe_region f0 g0 a Ha). Qed.

  Lemma q_lem_interp_a_range : forall L R, qs_t L <= qs_t R ->
    qs_t L + qsafeguard prm * (qs_t R - qs_t L) <= q_lem_interp_a prm L R /\
    q_lem_interp_a prm L R <= qs_t R - qsafeguard prm * (qs_t R - qs_t L).
  Proof.
    intros L R H. unfold q_lem_interp_a, src_lem_interp_min_a_q, src_lem_interp_max_a_q.
    assert (P1 : 0 <= ((1 # 2) - qsafeguard prm) * (qs_t R - qs_t L)) by (apply Qmult_le_0_compat; lra).
    apply qclamp_range. nra.
  Qed.

  Lemma q_lem_interp_b_range : forall L R, qs_t L <= qs_t R ->
    qs_t L + qsafeguard prm * (qs_t R - qs_t L) <= q_lem_interp_b prm L R /\
    q_lem_interp_b prm L R <= qs_t R - qsafeguard prm * (qs_t R - qs_t L).
  Proof.
    intros L R H. unfold q_lem_interp_b, src_lem_interp_min_b_q, src_lem_interp_max_b_q.
    assert (P1 : 0 <= ((1 # 2) - qsafeguard prm) * (qs_t R - qs_t L)) by (apply Qmult_le_0_compat; lra).
    apply qclamp_range. nra.
  Qed.

  Definition lem_goal (st : qstate) (n : Z) (r : qresult) : Prop :=
    qok r = true /\ (qcnt st <= qcnt (qrs r) <= qcnt st + n)%Z /\ W <= qrt r /\ qrt r <= U /\
    qcur (qrs r) = ph (qrt r) /\ q_has_armijo p0 (qcur (qrs r)) (qrt r) (qc1 prm) = true /\
    q_has_wolfe p0 (qcur (qrs r)) (qc2 prm) = true.

  (* bracketing phase over: [W, U] lies strictly inside (L.t, R.t), the trial step inside the safeguarded part of it;
     every unsuccessful step shrinks the bracket by the factor 1 - s *)
  Lemma q_lemarechal_phase2 : forall n fuel st t L R,
    0 < t -> qcur st = ph t -> 0 <= qs_t L -> qs_t L < W -> U < qs_t R ->
    qs_t L + qsafeguard prm * (qs_t R - qs_t L) <= t -> t <= qs_t R - qsafeguard prm * (qs_t R - qs_t L) ->
    qpow (1 - qsafeguard prm) n * (qs_t R - qs_t L) <= U - W -> (n <= fuel)%nat ->
    lem_goal st (Z.of_nat n - 1) (q_lemarechal ph prm p0 fuel st t L R).
  Proof.
    assert (Hc1' : qc1 prm < 1) by lra.
    destruct (armijo_wolfe_nonempty g0 a Hg Ha (qc1 prm) (qc2 prm) Hc1 Hc12 Hc2) as [HW HWU]. fold W U in HW, HWU.
    use (q_armijo_quad f0 g0 a prm) as AQ. fold p0 ph U in AQ.
    induction n as [| n IH]; intros fuel st t L R Ht Ecur HL0 HLW HUR Hlo Hhi Hpow Hfuel.
    - exfalso. simpl in Hpow. lra.
    - destruct fuel as [| k]; [lia |]. cbn [q_lemarechal].
      assert (Hw : 0 < qs_t R - qs_t L) by lra.
      assert (P0 : 0 <= qpow (1 - qsafeguard prm) n) by (apply qpow_nonneg; lra).
      destruct (q_armijo prm p0 st t) eqn:EA.
      + apply (AQ st t Ht Ecur) in EA.
        destruct (q_wolfe prm p0 st) eqn:EW.
        * apply (q_wolfe_quad st t Ecur) in EW. unfold lem_goal. cbn [qok qrt qrs]. rewrite Ecur.
          repeat split; auto; try lia.
          -- apply (armijo_region f0 g0 a Hg Ha); auto.
          -- apply (wolfe_region f0 g0 a Ha); auto.
        * assert (HtW : t < W).
          { destruct (Qlt_le_dec t W) as [H | H]; auto. apply (q_wolfe_quad st t Ecur) in H. congruence. }
          replace (src_lem_r_unset_q (qs_t R) q_eps0) with false
            by (symmetry; unfold src_lem_r_unset_q; apply qltb_false; lra).
          set (L' := qstep_of t (qcur st)).
          assert (EL : qs_t L' = t) by reflexivity.
          destruct (q_lem_interp_a_range L' R ltac:(rewrite EL; lra)) as [R1 R2]. rewrite EL in R1, R2.
          set (t' := Qred (q_lem_interp_a prm L' R)).
          assert (Et : t' == q_lem_interp_a prm L' R) by apply Qred_correct.
          change (qv (qcur (q_update ph st t'))) with true. cbv iota.
          assert (P1 : 0 < qsafeguard prm * (qs_t R - t)) by (apply Qmult_lt_0_compat; lra).
          assert (P2 : 0 <= qpow (1 - qsafeguard prm) n * ((1 - qsafeguard prm) * (qs_t R - qs_t L) - (qs_t R - t)))
            by (apply Qmult_le_0_compat; [exact P0 | nra]).
          destruct (IH k (q_update ph st t') t' L' R) as (I1 & I2 & I3 & I4 & I5 & I6 & I7); try rewrite EL; try lra; try lia; auto.
          { simpl in Hpow. nra. }
          unfold lem_goal. cbn [q_update qcnt] in I2. repeat split; auto; lia.
      + assert (HtU : U < t).
        { destruct (Qlt_le_dec U t) as [H | H]; auto. apply (AQ st t Ht Ecur) in H. congruence. }
        set (R' := qstep_of t (qcur st)).
        assert (ER : qs_t R' = t) by reflexivity.
        destruct (q_lem_interp_b_range L R' ltac:(rewrite ER; lra)) as [R1 R2]. rewrite ER in R1, R2.
        set (t' := Qred (q_lem_interp_b prm L R')).
        assert (Et : t' == q_lem_interp_b prm L R') by apply Qred_correct.
        change (qv (qcur (q_update ph st t'))) with true. cbv iota.
        assert (P1 : 0 < qsafeguard prm * (t - qs_t L)) by (apply Qmult_lt_0_compat; lra).
        assert (P2 : 0 <= qpow (1 - qsafeguard prm) n * ((1 - qsafeguard prm) * (qs_t R - qs_t L) - (t - qs_t L)))
          by (apply Qmult_le_0_compat; [exact P0 | nra]).
        destruct (IH k (q_update ph st t') t' L R') as (I1 & I2 & I3 & I4 & I5 & I6 & I7); try rewrite ER; try lra; try lia; auto.
        { simpl in Hpow. nra. }
        unfold lem_goal. cbn [q_update qcnt] in I2. repeat split; auto; lia.
  Qed.

  (* extrapolation phase: R = step0 ("not set"), the step is multiplied by tau1 until it passes W; M bounds every step taken *)
  Lemma q_lemarechal_phase1 : forall n2 M n1 fuel st t L,
    0 < t -> qcur st = ph t -> 0 <= qs_t L -> qs_t L < W -> qs_t L < t -> t <= M -> qtau1 prm * W <= M ->
    W <= qpow (qtau1 prm) n1 * t -> qpow (1 - qsafeguard prm) n2 * M <= U - W -> (n1 + n2 + 1 <= fuel)%nat ->
    lem_goal st (Z.of_nat (n1 + n2)) (q_lemarechal ph prm p0 fuel st t L (q_step0 p0)).
  Proof.
    assert (Hc1' : qc1 prm < 1) by lra.
    destruct (armijo_wolfe_nonempty g0 a Hg Ha (qc1 prm) (qc2 prm) Hc1 Hc12 Hc2) as [HW HWU]. fold W U in HW, HWU.
    use (q_armijo_quad f0 g0 a prm) as AQ. fold p0 ph U in AQ.
    assert (He0 : 0 < q_eps0) by reflexivity.
    intros n2 M. induction n1 as [| n1 IH]; intros fuel st t L Ht Ecur HL0 HLW HLt HtM HM Hgrow Hpow Hfuel;
      (destruct fuel as [| k]; [lia |]); cbn [q_lemarechal];
      assert (P0 : 0 <= qpow (1 - qsafeguard prm) n2) by (apply qpow_nonneg; lra);
      (destruct (q_armijo prm p0 st t) eqn:EA;
       [apply (AQ st t Ht Ecur) in EA;
        destruct (q_wolfe prm p0 st) eqn:EW;
        [apply (q_wolfe_quad st t Ecur) in EW; unfold lem_goal; cbn [qok qrt qrs]; rewrite Ecur;
         repeat split; auto; try lia;
         [apply (armijo_region f0 g0 a Hg Ha); auto | apply (wolfe_region f0 g0 a Ha); auto] |
         assert (HtW : t < W) by (destruct (Qlt_le_dec t W) as [H | H]; auto; apply (q_wolfe_quad st t Ecur) in H; congruence)]
       | assert (HtU : U < t) by (destruct (Qlt_le_dec U t) as [H | H]; auto; apply (AQ st t Ht Ecur) in H; congruence)]).
    - exfalso. simpl in Hgrow. lra.
    - (* t > U at once: R := t, the bracket is (L.t, t) *)
      set (R' := qstep_of t (qcur st)).
      assert (ER : qs_t R' = t) by reflexivity.
      destruct (q_lem_interp_b_range L R' ltac:(rewrite ER; lra)) as [R1 R2]. rewrite ER in R1, R2.
      set (t' := Qred (q_lem_interp_b prm L R')).
      assert (Et : t' == q_lem_interp_b prm L R') by apply Qred_correct.
      change (qv (qcur (q_update ph st t'))) with true. cbv iota.
      assert (P1 : 0 < qsafeguard prm * (t - qs_t L)) by (apply Qmult_lt_0_compat; lra).
      assert (P2 : 0 <= qpow (1 - qsafeguard prm) n2 * (M - (t - qs_t L))) by (apply Qmult_le_0_compat; [exact P0 | lra]).
      destruct (q_lemarechal_phase2 n2 k (q_update ph st t') t' L R') as (I1 & I2 & I3 & I4 & I5 & I6 & I7);
        try rewrite ER; try lra; try lia; auto.
      unfold lem_goal. cbn [q_update qcnt] in I2. repeat split; auto; lia.
    - (* t < W: extrapolate *)
      replace (src_lem_r_unset_q (qs_t (q_step0 p0)) q_eps0) with true
        by (symmetry; unfold src_lem_r_unset_q; apply qltb_true; cbn [q_step0 qstep_of qs_t]; lra).
      set (L' := qstep_of t (qcur st)).
      assert (EL : qs_t L' = t) by reflexivity.
      set (t' := Qred (src_lem_extrapolate_q (qtau1 prm) (qs_t L'))).
      assert (Et : t' == qtau1 prm * t) by (unfold t'; rewrite Qred_correct; reflexivity).
      change (qv (qcur (q_update ph st t'))) with true. cbv iota.
      assert (P1 : 0 < (qtau1 prm - 1) * t) by (apply Qmult_lt_0_compat; lra).
      assert (P2 : 0 < qtau1 prm * (W - t)) by (apply Qmult_lt_0_compat; lra).
      destruct (IH k (q_update ph st t') t' L') as (I1 & I2 & I3 & I4 & I5 & I6 & I7); try rewrite EL; try lra; try lia; auto.
      { rewrite Et. simpl in Hgrow. lra. }
      unfold lem_goal. cbn [q_update qcnt] in I2. repeat split; auto; lia.
    - set (R' := qstep_of t (qcur st)).
      assert (ER : qs_t R' = t) by reflexivity.
      destruct (q_lem_interp_b_range L R' ltac:(rewrite ER; lra)) as [R1 R2]. rewrite ER in R1, R2.
      set (t' := Qred (q_lem_interp_b prm L R')).
      assert (Et : t' == q_lem_interp_b prm L R') by apply Qred_correct.
      change (qv (qcur (q_update ph st t'))) with true. cbv iota.
      assert (P1 : 0 < qsafeguard prm * (t - qs_t L)) by (apply Qmult_lt_0_compat; lra).
      assert (P2 : 0 <= qpow (1 - qsafeguard prm) n2 * (M - (t - qs_t L))) by (apply Qmult_le_0_compat; [exact P0 | lra]).
      destruct (q_lemarechal_phase2 n2 k (q_update ph st t') t' L R') as (I1 & I2 & I3 & I4 & I5 & I6 & I7);
        try rewrite ER; try lra; try lia; auto.
      unfold lem_goal. cbn [q_update qcnt] in I2. repeat split; auto; lia.
  Qed.

  (* lsearchk_lemarechal_t::do_get from any t > 0 *)
  Theorem q_lemarechal_succeeds : forall n1 n2 fuel st t,
    0 < t -> qcur st = ph t ->
    W <= qpow (qtau1 prm) n1 * t -> qpow (1 - qsafeguard prm) n2 * qmax t (qtau1 prm * W) <= U - W -> (n1 + n2 + 1 <= fuel)%nat ->
    lem_goal st (Z.of_nat (n1 + n2)) (q_lemarechal ph prm p0 fuel st t (q_step0 p0) (q_step0 p0)).
  Proof.
    intros n1 n2 fuel st t Ht Ecur Hgrow Hpow Hfuel.
    destruct (armijo_wolfe_nonempty g0 a Hg Ha (qc1 prm) (qc2 prm) Hc1 Hc12 Hc2) as [HW HWU]. fold W U in HW, HWU.
    apply (q_lemarechal_phase1 n2 (qmax t (qtau1 prm * W))); auto; cbn [q_step0 qstep_of qs_t]; try lra.
    - destruct (qmax_spec t (qtau1 prm * W)) as [[H1 E] | [H1 E]]; rewrite E; lra.
    - destruct (qmax_spec t (qtau1 prm * W)) as [[H1 E] | [H1 E]]; rewrite E; lra.
  Qed.
End Lemarechal.

(* ---------- the executable bounds are sound ---------- *)
Lemma geo_steps_sound : forall fuel rho w target n, geo_steps fuel rho w target = Some n -> qpow rho n * w <= target.
Proof.
  induction fuel as [| k IH]; intros rho w target n H; cbn [geo_steps] in H; destruct (Qle_bool w target) eqn:E.
  - inversion H. apply Qle_bool_iff in E. simpl. lra.
  - discriminate.
  - inversion H. apply Qle_bool_iff in E. simpl. lra.
  - destruct (geo_steps k rho (Qred (rho * w)) target) as [m |] eqn:G; [| discriminate]. inversion H. subst n.
    apply IH in G. rewrite Qred_correct in G. simpl. lra.
Qed.

Lemma geo_grow_sound : forall fuel rho w target n, geo_grow fuel rho w target = Some n -> target <= qpow rho n * w.
Proof.
  induction fuel as [| k IH]; intros rho w target n H; cbn [geo_grow] in H; destruct (Qle_bool target w) eqn:E.
  - inversion H. apply Qle_bool_iff in E. simpl. lra.
  - discriminate.
  - inversion H. apply Qle_bool_iff in E. simpl. lra.
  - destruct (geo_grow k rho (Qred (rho * w)) target) as [m |] eqn:G; [| discriminate]. inversion H. subst n.
    apply IH in G. rewrite Qred_correct in G. simpl. lra.
Qed.

(* a bound always exists: (1 - x)^n (1 + n x) <= 1, so rho^n w <= target as soon as n >= w / (target (1 - rho)) *)
Lemma qpow_bernoulli : forall rho n, 0 <= rho -> rho <= 1 -> qpow rho n * (1 + inject_Z (Z.of_nat n) * (1 - rho)) <= 1.
Proof.
  intros rho n H0 H1. induction n as [| n IH].
  - cbn [qpow Z.of_nat]. change (inject_Z 0) with 0. lra.
  - rewrite Nat2Z.inj_succ. unfold Z.succ. rewrite inject_Z_plus. cbn [qpow].
    set (k := inject_Z (Z.of_nat n)) in *. assert (Hk : 0 <= k) by (unfold k; change 0 with (inject_Z 0); rewrite <- Zle_Qle; lia).
    assert (P : 0 <= qpow rho n) by (apply qpow_nonneg; lra).
    change (inject_Z 1) with 1.
    assert (P2 : 0 <= qpow rho n * ((k + 1) * (1 - rho) * (1 - rho))).
    { apply Qmult_le_0_compat; [exact P |]. apply Qmult_le_0_compat; [apply Qmult_le_0_compat; lra | lra]. }
    nra.
Qed.

Lemma geo_bound_exists : forall rho w target, 0 <= rho -> rho < 1 -> 0 <= w -> 0 < target -> exists n, qpow rho n * w <= target.
Proof.
  intros rho w target H0 H1 Hw Ht.
  set (x := 1 - rho). assert (Hx : 0 < x) by (unfold x; lra).
  set (q := w / (target * x)).
  assert (Hq : q * (target * x) == w) by (unfold q; field; split; lra).
  exists (Z.to_nat (Qceiling q)).
  assert (Hq0 : 0 <= q).
  { unfold q. apply Qle_shift_div_l; [apply Qmult_lt_0_compat; lra | lra]. }
  assert (Hc : q <= inject_Z (Z.of_nat (Z.to_nat (Qceiling q)))).
  { rewrite Z2Nat.id; [apply Qle_ceiling |]. change 0%Z with (Qceiling 0). apply Qceiling_resp_le. exact Hq0. }
  set (n := Z.to_nat (Qceiling q)) in *.
  pose proof (qpow_bernoulli rho n H0 ltac:(lra)) as B. fold x in B.
  set (k := inject_Z (Z.of_nat n)) in *.
  assert (P : 0 <= qpow rho n) by (apply qpow_nonneg; lra).
  assert (P1 : 0 <= qpow rho n * ((k - q) * (target * x))).
  { apply Qmult_le_0_compat; [exact P |]. apply Qmult_le_0_compat; [lra |]. apply Qlt_le_weak. apply Qmult_lt_0_compat; lra. }
  assert (P2 : 0 <= target * (1 - qpow rho n * (1 + k * x))) by (apply Qmult_le_0_compat; lra).
  rewrite <- Hq. nra.
Qed.

(* ---------- (4) More-Thuente's convergence test and CG_DESCENT's first secant step ---------- *)
Section MTCG.
  Variables f0 g0 a : Q.
  Variable prm : qparams.
  Hypothesis Hg : g0 < 0.
  Hypothesis Ha : 0 < a.
  Hypothesis Hc1 : 0 < qc1 prm.
  Hypothesis Hc1' : qc1 prm < 1.
  Hypothesis Hc2 : 0 <= qc2 prm.
  Let p0 := quad0 f0 g0.
  Let ph := quad f0 g0 a.
  Let ts := tstar g0 a.

  (* `f <= ftest && |g| <= gtol * (-ginit)` is exactly Armijo and strong Wolfe in closed form *)
  Lemma q_mt_converged_region : forall t, 0 < t ->
    (q_mt_converged prm p0 (ph t) t = true <->
     wolfe_lo (qc2 prm) g0 a <= t /\ t <= armijo_hi (qc1 prm) g0 a /\ t <= swolfe_hi (qc2 prm) g0 a).
  Proof.
    intros t Ht. unfold q_mt_converged, src_mth_converged_q, q_mt_ftest, src_mth_ftest_q, q_mt_gtest, src_mth_gtest_q.
    rewrite andb_true_iff, !Qle_bool_iff.
    pose proof (armijo_region f0 g0 a Hg Ha (qc1 prm) t Hc1' Ht) as AR. rewrite q_has_armijo_spec in AR.
    pose proof (swolfe_region f0 g0 a Hg Ha (qc2 prm) t) as SR. rewrite q_has_strong_wolfe_spec in SR.
    cbn [qf qg quad0] in AR, SR. rewrite (Qabs_neg g0) in SR by lra.
    unfold p0, ph. cbn [qf qg quad0].
    setoid_replace (f0 + t * (qc1 prm * g0)) with (f0 + t * qc1 prm * g0) by ring.
    rewrite AR, SR. tauto.
  Qed.

  Hypothesis Hc2' : qc2 prm < 1.
  Hypothesis Heps : 0 <= qcg_epsilon prm.

  Lemma q_cg_epsk_nonneg : 0 <= q_cg_epsk prm p0.
  Proof. unfold q_cg_epsk, src_cg_epsilonk_q. apply Qmult_le_0_compat; [exact Heps | apply Qabs_nonneg]. Qed.

  (* interval_t::done on a valid bracket [0, tb] (dg(tb) >= 0) at a point t == t*: decided by c1 <= 1/2 alone *)
  Lemma q_cg_done_at_minimiser : forall tb t, 0 < tb -> 0 <= quad_g g0 a tb -> t == ts ->
    q_cg_done prm p0 (q_step0 p0) (qstep_of tb (ph tb)) t (ph t) true = Qle_bool (qc1 prm) (1 # 2).
  Proof.
    intros tb t Htb Hgb Et.
    pose proof (tstar_pos g0 a Hg Ha) as Hts. fold ts in Hts.
    assert (Ht : 0 < t) by lra.
    pose proof q_cg_epsk_nonneg as He.
    unfold q_cg_done.
    assert (E1 : src_cg_done_failed_q true (qs_f (q_step0 p0)) (qf p0) (q_cg_epsk prm p0) (qs_g (qstep_of tb (ph tb))) (qv (ph t)) = false).
    { unfold src_cg_done_failed_q. cbn [q_step0 qstep_of qs_f qs_g]. change (qv (ph t)) with true. cbn [negb andb].
      rewrite orb_false_r. apply orb_false_iff. split; apply qltb_false.
      - lra.
      - unfold ph. rewrite quad_qg. exact Hgb. }
    rewrite E1.
    assert (Htb' : ts <= tb).
    { unfold quad_g in Hgb. pose proof (tstar_ge_iff g0 a 1 tb Ha) as K. unfold ts.
      setoid_replace (tstar g0 a) with (1 * tstar g0 a) by ring. apply K. lra. }
    assert (E2 : src_cg_done_outside_q t (qs_t (q_step0 p0)) (qs_t (qstep_of tb (ph tb))) = false).
    { unfold src_cg_done_outside_q. cbn [q_step0 qstep_of qs_t]. apply orb_false_iff. split; apply qltb_false; lra. }
    rewrite E2. unfold q_cg_accept, src_cg_done_accept_q.
    assert (EW : q_has_wolfe p0 (ph t) (qc2 prm) = true).
    { apply (wolfe_region f0 g0 a Ha). unfold wolfe_lo. fold ts. nra. }
    rewrite EW, andb_true_r.
    destruct (Qle_bool (qc1 prm) (1 # 2)) eqn:EC.
    - apply Qle_bool_iff in EC.
      assert (EA : q_has_armijo p0 (ph t) t (qc1 prm) = true).
      { apply (armijo_region f0 g0 a Hg Ha); auto. unfold armijo_hi. fold ts. nra. }
      rewrite EA. reflexivity.
    - apply qleb_false in EC.
      assert (EA : q_has_armijo p0 (ph t) t (qc1 prm) = false).
      { destruct (q_has_armijo p0 (ph t) t (qc1 prm)) eqn:E; auto. apply (armijo_region f0 g0 a Hg Ha) in E; auto.
        unfold armijo_hi in E. fold ts in E. exfalso. nra. }
      assert (EAW : q_has_approx_wolfe p0 (ph t) (qc1 prm) (qc2 prm) = false).
      { destruct (q_has_approx_wolfe p0 (ph t) (qc1 prm) (qc2 prm)) eqn:E; auto. apply q_has_approx_wolfe_spec in E.
        destruct E as [E _]. unfold ph in E. rewrite quad_qg in E. unfold p0 in E. cbn [qg quad0] in E. unfold quad_g in E.
        pose proof (tstar_mul g0 a Ha) as K. fold ts in K. exfalso.
        assert (a * t == - g0) by (rewrite Et; exact K). nra. }
      rewrite EA, EAW, andb_false_r. reflexivity.
  Qed.

  (* the first `move_update_and_check_done(secant(a, b))` of CG_DESCENT's main loop on the valid bracket [0, tb]:
     the trial point is the exact minimiser and `done` accepts it iff c1 <= 1/2 *)
  Theorem q_cg_first_secant_exact : forall st tb, 0 < tb -> 0 <= quad_g g0 a tb ->
    exists t st', q_cg_first_secant ph prm p0 st (q_step0 p0) (qstep_of tb (ph tb)) = Some (Qle_bool (qc1 prm) (1 # 2), t, st') /\
                  t == ts /\ qcur st' = ph t /\ qcnt st' = (qcnt st + 1)%Z.
  Proof.
    intros st tb Htb Hgb. unfold q_cg_first_secant.
    destruct (q_secant_exact f0 g0 a (q_step0 p0) (qstep_of tb (ph tb)) Ha (step0_on_quad f0 g0 a) (qstep_of_on_quad f0 g0 a tb))
      as (x & Ex & Hx).
    { cbn [q_step0 qstep_of qs_t]. lra. }
    rewrite Ex. cbv zeta. exists (Qred x), (q_update ph st (Qred x)).
    assert (Et : Qred x == ts) by (rewrite Qred_correct; exact Hx).
    split; [| repeat split; auto].
    change (qcur (q_update ph st (Qred x))) with (ph (Qred x)).
    rewrite (q_cg_done_at_minimiser tb (Qred x) Htb Hgb Et). reflexivity.
  Qed.
End MTCG.

(* ---------- lsearchk_t::get on the quadratic: where do_get starts ---------- *)
Section Get.
  Variables f0 g0 a : Q.
  Variable prm : qparams.
  Hypothesis Hg : g0 < 0.
  Hypothesis Ha : 0 < a.
  Hypothesis Hmax : (0 < qmaxit prm)%Z.
  Let p0 := quad0 f0 g0.
  Let ph := quad f0 g0 a.

  Lemma q_init_step_range : forall t0, q_stpmin <= q_init_step t0 /\ q_init_step t0 <= 1 /\ 0 < q_init_step t0.
  Proof.
    intros t0. unfold q_init_step, src_ls_init_step_q. rewrite Qred_correct.
    assert (H : q_stpmin <= 1) by (unfold Qle; simpl; lia).
    assert (H0 : 0 < q_stpmin) by reflexivity.
    destruct (qclamp_range t0 q_stpmin 1 H) as [K1 K2]. repeat split; lra.
  Qed.

  (* the first trial point is valid (no `*0.3` loop); if it moves the value by at least epsilon1 there is no `*3` loop either *)
  Lemma q_ls_get_quad_start : forall alg t0,
    let t1 := q_init_step t0 in
    q_eps1 <= Qabs (qf (ph t1) - f0) ->
    q_ls_get ph prm p0 alg t0 = q_do_get ph prm p0 alg (q_update ph (q_init_state p0) t1) t1.
  Proof.
    intros alg t0 t1 Hmove. unfold q_ls_get.
    assert (D : q_has_descent p0 = true) by (apply q_has_descent_spec; exact Hg).
    rewrite D. cbn [negb].
    destruct (q_fuel (qmaxit prm)) as [| k] eqn:EF; [unfold q_fuel in EF; lia |].
    cbn [q_shrink]. fold t1. change (qv (qcur (q_update ph (q_init_state p0) t1))) with true. cbv iota.
    unfold src_ls_stale_guard_q. cbn [negb]. cbn [q_grow].
    replace (qltb (Qabs (qf (qcur (q_update ph (q_init_state p0) t1)) - qf p0)) q_eps1) with false; [reflexivity |].
    symmetry. apply qltb_false. exact Hmove.
  Qed.
End Get.

(* ---------- lsearchk_t::get composed with the two searches ---------- *)
Section GetSearch.
  Variables f0 g0 a : Q.
  Variable prm : qparams.
  Hypothesis Hg : g0 < 0.
  Hypothesis Ha : 0 < a.
  Hypothesis Hc1 : 0 < qc1 prm.
  Hypothesis Hs : 0 < qsafeguard prm.
  Hypothesis Hs' : qsafeguard prm <= 1 # 2.
  Let p0 := quad0 f0 g0.
  Let ph := quad f0 g0 a.

  Theorem q_get_backtrack_succeeds : forall t0 n,
    qc1 prm < 1 ->
    let t1 := q_init_step t0 in
    q_eps1 <= Qabs (qf (ph t1) - f0) ->
    qpow (1 - qsafeguard prm) n * t1 <= armijo_hi (qc1 prm) g0 a -> (Z.of_nat n < qmaxit prm)%Z ->
    let r := q_ls_get ph prm p0 QBacktrack t0 in
    qok r = true /\ (1 <= qcnt (qrs r) <= 1 + Z.of_nat n)%Z /\ 0 < qrt r /\ qrt r <= armijo_hi (qc1 prm) g0 a /\
    qcur (qrs r) = ph (qrt r) /\ q_has_armijo p0 (qcur (qrs r)) (qrt r) (qc1 prm) = true.
  Proof.
    intros t0 n Hc1' t1 Hmove Hpow Hfuel r. subst r. unfold ph, p0 in *.
    assert (Hmax : (0 < qmaxit prm)%Z) by lia.
    rewrite (q_ls_get_quad_start f0 g0 a prm Hg Hmax QBacktrack t0 Hmove). fold t1. cbn [q_do_get].
    destruct (q_init_step_range t0) as (_ & _ & Ht1). fold t1 in Ht1.
    use (q_backtrack_geometric f0 g0 a prm) as GEO.
    destruct (GEO n (q_fuel (qmaxit prm)) (q_update (quad f0 g0 a) (q_init_state (quad0 f0 g0)) t1) t1 Ht1 eq_refl Hpow ltac:(unfold q_fuel; lia))
      as (I1 & I2 & I3 & I4 & I5 & I6).
    cbn [q_update q_init_state qcnt] in I2. repeat split; auto; lia.
  Qed.

  Theorem q_get_lemarechal_succeeds : forall t0 n1 n2,
    qc1 prm < qc2 prm -> qc2 prm < 1 -> 1 < qtau1 prm -> q_eps0 <= armijo_hi (qc1 prm) g0 a ->
    let t1 := q_init_step t0 in
    let W := wolfe_lo (qc2 prm) g0 a in
    let U := armijo_hi (qc1 prm) g0 a in
    q_eps1 <= Qabs (qf (ph t1) - f0) ->
    W <= qpow (qtau1 prm) n1 * t1 -> qpow (1 - qsafeguard prm) n2 * qmax t1 (qtau1 prm * W) <= U - W ->
    (Z.of_nat (n1 + n2) + 1 < qmaxit prm)%Z ->
    let r := q_ls_get ph prm p0 QLemarechal t0 in
    qok r = true /\ (1 <= qcnt (qrs r) <= 1 + Z.of_nat (n1 + n2))%Z /\ W <= qrt r /\ qrt r <= U /\
    qcur (qrs r) = ph (qrt r) /\ q_has_armijo p0 (qcur (qrs r)) (qrt r) (qc1 prm) = true /\
    q_has_wolfe p0 (qcur (qrs r)) (qc2 prm) = true.
  Proof.
    intros t0 n1 n2 Hc12 Hc2 Htau Heps t1 W U Hmove Hgrow Hpow Hfuel r. subst r. unfold ph, p0 in *.
    assert (Hmax : (0 < qmaxit prm)%Z) by lia.
    rewrite (q_ls_get_quad_start f0 g0 a prm Hg Hmax QLemarechal t0 Hmove). fold t1. cbn [q_do_get].
    destruct (q_init_step_range t0) as (_ & _ & Ht1). fold t1 in Ht1.
    use (q_lemarechal_succeeds f0 g0 a prm) as LEM.
    destruct (LEM n1 n2 (q_fuel (qmaxit prm - 1)) (q_update (quad f0 g0 a) (q_init_state (quad0 f0 g0)) t1) t1 Ht1 eq_refl Hgrow Hpow
                ltac:(unfold q_fuel; lia)) as (I1 & I2 & I3 & I4 & I5 & I6 & I7).
    cbn [q_update q_init_state qcnt] in I2. repeat split; auto; lia.
  Qed.
End GetSearch.

(* ---------- the translated expressions the exact model is built from (a changed source expression breaks these) ---------- *)
Lemma q_kernels_pinned :
  (forall tmin s tmax, src_bt_interp_min_q tmin s tmax = tmin + s * (tmax - tmin) /\ src_bt_interp_max_q tmin s tmax = tmax - s * (tmax - tmin)) /\
  (forall lt s rt, src_lem_interp_min_a_q lt s rt = lt + s * (rt - lt) /\ src_lem_interp_max_a_q lt s rt = rt - s * (rt - lt) /\
                   src_lem_interp_min_b_q lt s rt = lt + s * (rt - lt) /\ src_lem_interp_max_b_q lt s rt = rt - s * (rt - lt)) /\
  (forall rt e, src_lem_r_unset_q rt e = qltb rt e) /\ (forall tau1 lt, src_lem_extrapolate_q tau1 lt = tau1 * lt) /\
  (forall ct pt tau1, src_fl_tmin_q ct pt = ct + 2 * (ct - pt) /\ src_fl_tmax_q ct tau1 pt = ct + tau1 * (ct - pt)) /\
  (forall ad e, src_zoom_guard_q ad e = qltb e ad) /\
  (forall lot hit tau2 c2 tau3 ad, src_zoom_tmin_q lot hit tau2 c2 ad = qmin lot hit + qmin tau2 c2 * ad /\
                                   src_zoom_tmax_q lot hit tau3 ad = qmax lot hit - tau3 * ad) /\
  (forall arm fx lof, src_zoom_to_hi_q arm fx lof = negb arm || Qle_bool lof fx) /\
  (forall dg hit lot, src_zoom_flip_q dg hit lot = Qle_bool 0 (dg * (hit - lot))) /\
  (forall arm cf pf, src_fl_to_zoom_q arm cf pf = negb arm || Qle_bool pf cf) /\
  (forall ut uf ug vt vf vg d2 dt df, src_cubic_den_q ut uf ug vt vf vg d2 = vg - ug + 2 * d2 /\
                                      src_quadratic_den_q ut uf ug vt vf vg dt df = ug - df / dt /\
                                      src_secant_den_q ut uf ug vt vf vg = ug - vg).
Proof. repeat split. Qed.

(* ---------- the same, through the executable bound functions (what the driver evaluates) ---------- *)
Theorem q_get_backtrack_bound : forall f0 g0 a prm, g0 < 0 -> 0 < a -> 0 < qsafeguard prm -> qsafeguard prm <= 1 # 2 ->
  forall t0 F n, qc1 prm < 1 ->
  let t1 := q_init_step t0 in
  q_eps1 <= Qabs (qf (quad f0 g0 a t1) - f0) ->
  bt_bound F (qsafeguard prm) (qc1 prm) g0 a t1 = Some n -> (Z.of_nat n < qmaxit prm)%Z ->
  let r := q_ls_get (quad f0 g0 a) prm (quad0 f0 g0) QBacktrack t0 in
  qok r = true /\ (1 <= qcnt (qrs r) <= 1 + Z.of_nat n)%Z /\ 0 < qrt r /\ qrt r <= armijo_hi (qc1 prm) g0 a /\
  qcur (qrs r) = quad f0 g0 a (qrt r) /\ q_has_armijo (quad0 f0 g0) (qcur (qrs r)) (qrt r) (qc1 prm) = true.
Proof.
  intros f0 g0 a prm Hg Ha Hs Hs' t0 F n Hc1 t1 Hmove Hb Hfuel.
  apply (q_get_backtrack_succeeds f0 g0 a prm Hg Ha Hs Hs' t0 n Hc1 Hmove); auto.
  apply (geo_steps_sound F). exact Hb.
Qed.

Theorem q_get_backtrack_quadratic_bound : forall f0 g0 a prm, g0 < 0 -> 0 < a -> 0 < qsafeguard prm -> qsafeguard prm <= 1 # 2 ->
  forall t0 F n, qc1 prm <= 1 # 2 -> qinterp prm = 1%Z ->
  let t1 := q_init_step t0 in
  q_eps1 <= Qabs (qf (quad f0 g0 a t1) - f0) ->
  bt_bound_quadratic F (qsafeguard prm) g0 a t1 = Some n -> (Z.of_nat n < qmaxit prm)%Z ->
  let r := q_ls_get (quad f0 g0 a) prm (quad0 f0 g0) QBacktrack t0 in
  qok r = true /\ (1 <= qcnt (qrs r) <= 1 + Z.of_nat n)%Z /\ 0 < qrt r /\ qrt r <= armijo_hi (qc1 prm) g0 a /\
  qcur (qrs r) = quad f0 g0 a (qrt r) /\ q_has_armijo (quad0 f0 g0) (qcur (qrs r)) (qrt r) (qc1 prm) = true.
Proof.
  intros f0 g0 a prm Hg Ha Hs Hs' t0 F n Hc1 Hint t1 Hmove Hb Hfuel r. subst r.
  unfold bt_bound_quadratic in Hb.
  destruct (geo_steps F (qsafeguard prm) (qsafeguard prm * t1) (tstar g0 a)) as [m |] eqn:G; [| discriminate].
  inversion Hb. subst n. apply geo_steps_sound in G.
  assert (Hmax : (0 < qmaxit prm)%Z) by lia.
  rewrite (q_ls_get_quad_start f0 g0 a prm Hg Hmax QBacktrack t0 Hmove). fold t1. cbn [q_do_get].
  destruct (q_init_step_range t0) as (_ & _ & Ht1). fold t1 in Ht1.
  destruct (q_backtrack_quadratic_sharp f0 g0 a prm Hg Ha Hc1 Hs Hs' Hint m (q_fuel (qmaxit prm))
              (q_update (quad f0 g0 a) (q_init_state (quad0 f0 g0)) t1) t1 Ht1 eq_refl G ltac:(unfold q_fuel; lia))
    as (I1 & I2 & I3 & I4 & I5 & I6).
  cbn [q_update q_init_state qcnt] in I2. repeat split; auto; lia.
Qed.

Theorem q_get_lemarechal_bound : forall f0 g0 a prm, g0 < 0 -> 0 < a -> 0 < qc1 prm -> 0 < qsafeguard prm -> qsafeguard prm <= 1 # 2 ->
  forall t0 F n, qc1 prm < qc2 prm -> qc2 prm < 1 -> 1 < qtau1 prm -> q_eps0 <= armijo_hi (qc1 prm) g0 a ->
  let t1 := q_init_step t0 in
  q_eps1 <= Qabs (qf (quad f0 g0 a t1) - f0) ->
  lem_bound F (qsafeguard prm) (qtau1 prm) (qc1 prm) (qc2 prm) g0 a t1 = Some n -> (Z.of_nat n + 1 < qmaxit prm)%Z ->
  let r := q_ls_get (quad f0 g0 a) prm (quad0 f0 g0) QLemarechal t0 in
  qok r = true /\ (1 <= qcnt (qrs r) <= 1 + Z.of_nat n)%Z /\ wolfe_lo (qc2 prm) g0 a <= qrt r /\ qrt r <= armijo_hi (qc1 prm) g0 a /\
  qcur (qrs r) = quad f0 g0 a (qrt r) /\ q_has_armijo (quad0 f0 g0) (qcur (qrs r)) (qrt r) (qc1 prm) = true /\
  q_has_wolfe (quad0 f0 g0) (qcur (qrs r)) (qc2 prm) = true.
Proof.
  intros f0 g0 a prm Hg Ha Hc1 Hs Hs' t0 F n Hc12 Hc2 Htau Heps t1 Hmove Hb Hfuel.
  unfold lem_bound in Hb.
  destruct (geo_grow F (qtau1 prm) t1 (wolfe_lo (qc2 prm) g0 a)) as [n1 |] eqn:G1; [| discriminate].
  destruct (geo_steps F (1 - qsafeguard prm) (qmax t1 (qtau1 prm * wolfe_lo (qc2 prm) g0 a))
                      (armijo_hi (qc1 prm) g0 a - wolfe_lo (qc2 prm) g0 a)) as [n2 |] eqn:G2; [| discriminate].
  inversion Hb. subst n. apply geo_grow_sound in G1. apply geo_steps_sound in G2.
  apply (q_get_lemarechal_succeeds f0 g0 a prm Hg Ha Hc1 Hs Hs' t0 n1 n2 Hc12 Hc2 Htau Heps Hmove G1 G2 Hfuel).
Qed.

(* the budget dependence made explicit: for every start there IS a finite N *)
Theorem q_backtrack_budget_exists : forall g0 a c1 s t, g0 < 0 -> 0 < a -> c1 < 1 -> 0 < s -> s <= 1 # 2 -> 0 < t ->
  exists n, qpow (1 - s) n * t <= armijo_hi c1 g0 a.
Proof.
  intros g0 a c1 s t Hg Ha Hc Hs Hs' Ht. apply geo_bound_exists; try lra.
  unfold armijo_hi. pose proof (tstar_pos g0 a Hg Ha). nra.
Qed.
