(* C11 -- executable model of
     * gboost::early_stopping_t (src/gboost/early_stopping.cpp): the four-way decision of `done`, its conditions being the
       kernels translated from the source on every run (Src_earlystop);
     * gboost::mean_error / mean_loss (src/gboost/util.cpp) in binary64 (PrimFloat), left fold as std::accumulate;
     * gboost::result_t::{update,done} bookkeeping and the boosting round loop of src/gboost/model.cpp at the level of
       "which learners / statistics rows exist";
     * the (trial, fold) slot arithmetic of ml::result_t / ml::tune (Src_mlresult);
     * the fold averaging of gboost_model_t::fit over Q.
   No proofs here. *)
From Coq Require Import List ZArith Bool QArith Floats Uint63.
From LNGen Require Import Src_earlystop Src_mlresult.
Import ListNotations.
Local Open Scope Z_scope.

(* ------------------------------------------------------------------------------------------------------------ *)
(* the monitor, comparisons abstract (style B): T = scalar_t, V = the (2, samples) errors|losses tensor            *)
(* ------------------------------------------------------------------------------------------------------------ *)
Section EarlyStop.
  Variables T V : Type.
  Variable ltb : T -> T -> bool.     (* operator< on scalar_t *)
  Variable sub : T -> T -> T.        (* operator- on scalar_t *)

  (* m_round, m_value, m_values *)
  Record es := mk_es { es_round : Z; es_value : T; es_values : V }.

  (* what one call of `done` looks at: mean_error over the training / validation samples, valid_samples.size(),
     wlearners.size(), errors_losses *)
  Record obs := mk_obs { o_train : T; o_valid : T; o_nvalid : Z; o_size : Z; o_values : V }.

  Definition snap (o : obs) : es := mk_es (src_es_round_update (o_size o)) (o_valid o) (o_values o).

  (* early_stopping_t::done: returns (result, state afterwards) *)
  Definition es_done (eps : T) (patience : Z) (s : es) (o : obs) : bool * es :=
    if src_es_train_exit (ltb (o_train o) eps) then (true, snap o)
    else if src_es_accept (ltb (o_valid o) (sub (es_value s) eps)) (o_nvalid o) then (false, snap o)
    else if src_es_wait (o_size o) (es_round s) patience then (src_es_wait_result, s)
    else (src_es_giveup_result, s).

  (* early_stopping_t{values}: m_round 0, m_value = numeric_limits::max() *)
  Definition es_init (tmax : T) (v0 : V) : es := mk_es 0 tmax v0.

  (* all calls of a history, whatever `done` returned (the class does not forbid calling on) *)
  Definition es_run (eps : T) (patience : Z) (s : es) (h : list obs) : es :=
    fold_left (fun s o => snd (es_done eps patience s o)) h s.

  (* the way model.cpp uses it: stop at the first call that returns true; k counts the calls *)
  Fixpoint es_until (eps : T) (patience : Z) (s : es) (k : nat) (h : list obs) : option nat * es :=
    match h with
    | [] => (None, s)
    | o :: r => let ds := es_done eps patience s o in
                if fst ds then (Some k, snd ds) else es_until eps patience (snd ds) (S k) r
    end.

  (* ---------------- declarative specification over the history (newest call first) ---------------- *)
  (* a call takes a new snapshot iff the training error is below epsilon, or the validation error improves on the
     value of the latest snapshot by more than epsilon, or there are no validation samples *)
  Definition upd_by (eps best : T) (o : obs) : bool :=
    ltb (o_train o) eps || ltb (o_valid o) (sub best eps) || (o_nvalid o =? 0).

  (* the latest call that took a snapshot, among `older` (newest first) *)
  Fixpoint sp_value (eps tmax : T) (older : list obs) : T :=
    match older with
    | [] => tmax
    | o :: r => if upd_by eps (sp_value eps tmax r) o then o_valid o else sp_value eps tmax r
    end.
  Fixpoint sp_last (eps tmax : T) (older : list obs) : option obs :=
    match older with
    | [] => None
    | o :: r => if upd_by eps (sp_value eps tmax r) o then Some o else sp_last eps tmax r
    end.
  Definition sp_round (eps tmax : T) (older : list obs) : Z :=
    match sp_last eps tmax older with None => 0 | Some o => o_size o end.
  Definition sp_state (eps tmax : T) (v0 : V) (older : list obs) : es :=
    match sp_last eps tmax older with
    | None => es_init tmax v0
    | Some o => mk_es (o_size o) (o_valid o) (o_values o)
    end.
  (* `done` answers true iff training error < epsilon, or no snapshot is taken and the ensemble has reached
     (round of the latest snapshot) + patience learners *)
  Definition sp_stop (eps tmax : T) (patience : Z) (older : list obs) (o : obs) : bool :=
    ltb (o_train o) eps
    || (negb (upd_by eps (sp_value eps tmax older) o)
        && (sp_round eps tmax older + patience <=? o_size o)).

  (* history shaped as in the boosting loop: the k-th call (k = 0, 1, ...) sees k weak learners *)
  Fixpoint fit_shaped (k : Z) (h : list obs) : Prop :=
    match h with [] => True | o :: r => o_size o = k /\ fit_shaped (k + 1) r end.
End EarlyStop.

Arguments mk_es {T V}. Arguments es_round {T V}. Arguments es_value {T V}. Arguments es_values {T V}.
Arguments mk_obs {T V}. Arguments o_train {T V}. Arguments o_valid {T V}. Arguments o_nvalid {T V}.
Arguments o_size {T V}. Arguments o_values {T V}.
Arguments snap {T V}. Arguments es_done {T V}. Arguments es_init {T V}. Arguments es_run {T V}.
Arguments es_until {T V}. Arguments upd_by {T V}. Arguments sp_value {T V}. Arguments sp_last {T V}.
Arguments sp_state {T V}. Arguments sp_round {T V}. Arguments sp_stop {T V}. Arguments fit_shaped {T V}.

(* ------------------------------------------------------------------------------------------------------------ *)
(* the boosting round loop of model.cpp (::fit) + gboost::result_t bookkeeping                                    *)
(* ------------------------------------------------------------------------------------------------------------ *)
Section Loop.
  Variables T V W : Type.            (* W = a fitted weak learner *)
  Variable ltb : T -> T -> bool.
  Variable sub : T -> T -> T.

  (* what can happen in a round *)
  Inductive ev :=
  | EvNoFit                                   (* no prototype fits: `break` *)
  | EvScaleFail (w : W)                       (* gstate.x().min() < epsilon: update(round+1, .., w), `break` *)
  | EvRound (w : W) (o : obs T V).            (* learner appended, values re-evaluated, optimum.done(...) *)

  (* loop state: m_wlearners, number of statistics rows written so far, the monitor *)
  Record lstate := mk_ls { ls_learners : list W; ls_rows : Z; ls_es : es T V }.

  Definition at_size (o : obs T V) (n : Z) : obs T V :=
    mk_obs (o_train o) (o_valid o) (o_nvalid o) n (o_values o).

  (* the rounds; returns when a break happens or the events (at most max_rounds of them) are used up *)
  Fixpoint rounds (eps : T) (patience : Z) (st : lstate) (evs : list ev) : lstate :=
    match evs with
    | [] => st
    | EvNoFit :: _ => st
    | EvScaleFail w :: _ => mk_ls (ls_learners st ++ [w]) (ls_rows st + 1) (ls_es st)
    | EvRound w o :: r =>
        let ws := ls_learners st ++ [w] in
        let ds := es_done ltb sub eps patience (ls_es st) (at_size o (Z.of_nat (length ws))) in
        let st' := mk_ls ws (ls_rows st + 1) (snd ds) in
        if fst ds then st' else rounds eps patience st' r
    end.

  (* bias round: update(0, ..) and the first optimum.done with no learners; true => max_rounds = 0 *)
  Definition boost (eps tmax : T) (patience : Z) (max_rounds : nat) (o0 : obs T V) (evs : list ev) : lstate :=
    let ds := es_done ltb sub eps patience (es_init tmax (o_values o0)) (at_size o0 0) in
    let st0 := mk_ls [] 1 (snd ds) in
    if fst ds then st0 else rounds eps patience st0 (firstn max_rounds evs).

  (* result.done(optimum.round()): erase [begin + round, end), keep rows [0, round + 1) *)
  Definition kept_learners (st : lstate) : list W :=
    firstn (Z.to_nat (src_gb_erase_from (es_round (ls_es st)))) (ls_learners st).
  Definition kept_rows (st : lstate) : Z := src_gb_kept_rows (es_round (ls_es st)).

  (* the observations of the EvRound events, in order *)
  Fixpoint round_obs (evs : list ev) : list (obs T V) :=
    match evs with
    | EvRound _ o :: r => o :: round_obs r
    | _ => []
    end.
  (* the learners of the EvRound events, in order *)
  Fixpoint round_ws (evs : list ev) : list W :=
    match evs with
    | EvRound w _ :: r => w :: round_ws r
    | _ => []
    end.
  (* the monitor's snapshot is the one of boosting round es_round: of the bias round (values v0) if 0, otherwise of the
     observation made right after the es_round-th learner was appended *)
  Definition snapshot_of (v0 : V) (os : list (obs T V)) (s : es T V) : Prop :=
    (es_round s = 0 /\ es_values s = v0) \/
    (1 <= es_round s /\ exists o, nth_error os (Z.to_nat (es_round s) - 1) = Some o /\
                                  es_values s = o_values o /\ es_value s = o_valid o).
End Loop.

Arguments EvNoFit {T V W}. Arguments EvScaleFail {T V W}. Arguments EvRound {T V W}.
Arguments mk_ls {T V W}. Arguments ls_learners {T V W}. Arguments ls_rows {T V W}. Arguments ls_es {T V W}.
Arguments at_size {T V}. Arguments rounds {T V W}. Arguments boost {T V W}.
Arguments kept_learners {T V W}. Arguments kept_rows {T V W}. Arguments round_obs {T V W}.
Arguments round_ws {T V W}. Arguments snapshot_of {T V}.

(* ------------------------------------------------------------------------------------------------------------ *)
(* (trial, fold) slots of ml::result_t and the task index of ml::tune                                             *)
(* ------------------------------------------------------------------------------------------------------------ *)
Definition slot (folds trial fold : Z) : Z := src_slot_store trial fold folds.
Definition slot_read (folds trial fold : Z) : Z := src_slot_extra trial fold folds.
Definition slot_log (folds trial fold : Z) : Z := src_slot_log trial fold folds.
(* the slot written by task `index` of a batch of new trials appended after old_trials *)
Definition task_slot (folds old_trials index : Z) : Z :=
  slot folds (src_tune_store_trial old_trials (src_tune_trial index folds)) (src_tune_fold index folds).

(* ------------------------------------------------------------------------------------------------------------ *)
(* fold averaging (gboost_model_t::fit), exact arithmetic                                                         *)
(* ------------------------------------------------------------------------------------------------------------ *)
Section FoldAverage.
  Variables X W : Type.
  Variable pred : W -> X -> Q.                  (* wlearner_t::predict contribution for one sample *)
  Variable scale : Q -> W -> W.                 (* wlearner_t::scale by one factor *)
  Variable merge : list W -> list W.            (* wlearner::merge *)

  Definition qsum (l : list Q) : Q := fold_right Qplus 0%Q l.
  (* gboost_model_t::do_predict: bias, then every weak learner adds its prediction *)
  Definition gb_predict (bias : Q) (ws : list W) (x : X) : Q := (bias + qsum (map (fun w => pred w x) ws))%Q.
  (* the final model from the per-fold models (bias_f, learners_f) of the optimum trial *)
  Definition fold_average (fm : list (Q * list W)) : Q * list W :=
    let denom := (1 / inject_Z (Z.of_nat (length fm)))%Q in
    ((qsum (map fst fm) * denom)%Q, map (scale denom) (merge (concat (map snd fm)))).
End FoldAverage.

Arguments qsum l. Arguments gb_predict {X W}. Arguments fold_average {W}.

(* ------------------------------------------------------------------------------------------------------------ *)
(* binary64 instance (what is extracted and run against the library)                                              *)
(* ------------------------------------------------------------------------------------------------------------ *)
Definition fvals := (list float * list float)%type.       (* errors_losses: row 0 = errors, row 1 = losses *)
Definition fmax : float := 0x1.fffffffffffffp+1023%float. (* std::numeric_limits<double>::max() *)
Definition f_of_Z (z : Z) : float := PrimFloat.of_uint63 (Uint63.of_Z z).   (* static_cast<scalar_t>(tensor_size_t), exact below 2^53 *)

(* std::accumulate(begin(samples), end(samples), 0.0, sum + row(sample)) / denom *)
Definition fsum_at (row : list float) (samples : list Z) : float :=
  fold_left (fun acc i => PrimFloat.add acc (nth (Z.to_nat i) row 0%float)) samples 0%float.
Definition mean_error (v : fvals) (samples : list Z) : float :=
  PrimFloat.div (fsum_at (fst v) samples) (f_of_Z (src_mean_error_denom (Z.of_nat (length samples)))).
Definition mean_loss (v : fvals) (samples : list Z) : float :=
  PrimFloat.div (fsum_at (snd v) samples) (f_of_Z (src_mean_loss_denom (Z.of_nat (length samples)))).

Definition fobs (v : fvals) (train valid : list Z) (size : Z) : obs float fvals :=
  mk_obs (mean_error v train) (mean_error v valid) (Z.of_nat (length valid)) size v.
Definition fes_init (v0 : fvals) : es float fvals := es_init fmax v0.
Definition fes_done (eps : float) (patience : Z) (s : es float fvals) (o : obs float fvals) : bool * es float fvals :=
  es_done PrimFloat.ltb PrimFloat.sub eps patience s o.
(* gboost::result_t::update: the four means of a statistics row *)
Definition stat_row (v : fvals) (train valid : list Z) : list float :=
  [mean_error v train; mean_loss v train; mean_error v valid; mean_loss v valid].
(* boosting loop over binary64 with learners named by integers *)
Definition fboost (eps : float) (patience : Z) (max_rounds : nat) (o0 : obs float fvals)
    (evs : list (ev float fvals Z)) : lstate float fvals Z :=
  boost PrimFloat.ltb PrimFloat.sub eps fmax patience max_rounds o0 evs.
Definition fkept_learners (st : lstate float fvals Z) : list Z := kept_learners st.
Definition fkept_rows (st : lstate float fvals Z) : Z := kept_rows st.

(* integer instance used for the order-theoretic theorems (errors as integer multiples of a common unit) *)
Definition zes_done (eps patience : Z) (s : es Z nat) (o : obs Z nat) : bool * es Z nat :=
  es_done Z.ltb Z.sub eps patience s o.
