(* C19, third extension -- proofs about the clone table (Src_c19_clones) and the semantic clone model (C19_ClonesDefs). *)
From Coq Require Import ZArith List Bool String Ascii Lia.
From LNGen Require Import Src_c19_params Src_c19_clones.
From LN Require Import C19_Defs C19_Proofs C19_FactoryDefs C19_ClonesDefs.
Import ListNotations.

(* ---------------------------------------------------------------------------------------------- *)
(* the table of the run                                                                             *)
Lemma all_clones_copy_this : forallb clone_copy_this src_c19_clones = true.
Proof. vm_compute. reflexivity. Qed.

Lemma clones_copy_this : forall r, In r src_c19_clones ->
  exists t, sc_ret r = CopyOfThis t /\ (t = sc_class r \/ t = sc_key r).
Proof.
  intros r I. pose proof (proj1 (forallb_forall _ _) all_clones_copy_this r I) as H.
  unfold clone_copy_this in H. destruct (sc_ret r) as [t|t|t a|t]; try discriminate.
  exists t. split; [reflexivity|]. unfold own_class in H. apply orb_true_iff in H.
  destruct H as [H|H]; apply String.eqb_eq in H; [left|right]; exact H.
Qed.

Lemma all_copy_ctors_complete : forallb copy_ctor_complete src_c19_classes = true.
Proof. vm_compute. reflexivity. Qed.

Lemma existsb_deep : forall m inits, existsb (deep_init m) inits = true -> In (IDeepCloned m) inits.
Proof.
  intros m inits H. apply existsb_exists in H. destruct H as (i & I & D).
  destruct i; simpl in D; try discriminate. apply String.eqb_eq in D. subst. exact I.
Qed.

Lemma existsb_copy : forall m inits, existsb (copy_init m) inits = true -> In (ICopied m) inits.
Proof.
  intros m inits H. apply existsb_exists in H. destruct H as (i & I & D).
  destruct i; simpl in D; try discriminate. apply String.eqb_eq in D. subst. exact I.
Qed.

Lemma base_passed_in : forall inits b, base_passed inits b = true -> In (IBase b true) inits.
Proof.
  intros inits b H. apply existsb_exists in H. destruct H as (i & I & D).
  destruct i as [n p|n|n|n t]; try discriminate. destruct p; [|discriminate]. apply String.eqb_eq in D. subst. exact I.
Qed.

Lemma copy_ctor_complete_spec : forall c file line inits be,
  copy_ctor_complete c = true -> cl_copy c = UserCopy file line inits be ->
  be = true /\
  (forall b, In b (cl_bases c) -> In (IBase b true) inits) /\
  (forall m, In m (cl_members c) -> In (ICopied (sm_name m)) inits \/ In (IDeepCloned (sm_name m)) inits) /\
  (forall m, In m (cl_members c) -> owning (sm_kind m) = true -> In (IDeepCloned (sm_name m)) inits) /\
  (forall i, In i inits -> (forall m t, i <> IOther m t) /\ (forall b, i <> IBase b false)).
Proof.
  intros c file line inits be H E. unfold copy_ctor_complete in H. rewrite E in H.
  apply andb_true_iff in H. destruct H as [H Hb]. apply andb_true_iff in H. destruct H as [H Hp].
  apply andb_true_iff in H. destruct H as [Hm Hbs].
  split; [exact Hb|]. split; [|split; [|split]].
  - intros b I. apply base_passed_in. exact (proj1 (forallb_forall _ _) Hbs b I).
  - intros m I. pose proof (proj1 (forallb_forall _ _) Hm m I) as K. unfold member_copied in K.
    destruct (owning (sm_kind m)).
    + right. apply existsb_deep. exact K.
    + apply orb_true_iff in K. destruct K as [K|K]; [left; apply existsb_copy|right; apply existsb_deep]; exact K.
  - intros m I O. pose proof (proj1 (forallb_forall _ _) Hm m I) as K. unfold member_copied in K. rewrite O in K.
    apply existsb_deep. exact K.
  - intros i I. pose proof (proj1 (forallb_forall _ _) Hp i I) as K. split.
    + intros m t Ei. subst. discriminate.
    + intros b Ei. subst. discriminate.
Qed.

Lemma copy_ctors_complete : forall c file line inits be,
  In c src_c19_classes -> cl_copy c = UserCopy file line inits be ->
  be = true /\
  (forall b, In b (cl_bases c) -> In (IBase b true) inits) /\
  (forall m, In m (cl_members c) -> In (ICopied (sm_name m)) inits \/ In (IDeepCloned (sm_name m)) inits) /\
  (forall m, In m (cl_members c) -> owning (sm_kind m) = true -> In (IDeepCloned (sm_name m)) inits) /\
  (forall i, In i inits -> (forall m t, i <> IOther m t) /\ (forall b, i <> IBase b false)).
Proof.
  intros c file line inits be I E.
  exact (copy_ctor_complete_spec c file line inits be (proj1 (forallb_forall _ _) all_copy_ctors_complete c I) E).
Qed.

Lemma all_copies_memberwise : forallb implicit_copy_memberwise src_c19_classes = true.
Proof. vm_compute. reflexivity. Qed.

Lemma copies_no_aliasing : forall c, In c src_c19_classes ->
  cl_copy c <> DeletedCopy /\
  (forall m, In m (cl_members c) -> aliasing (sm_kind m) = false) /\
  ((cl_copy c = ImplicitCopy \/ cl_copy c = DefaultedCopy) -> forall m, In m (cl_members c) -> owning (sm_kind m) = false).
Proof.
  intros c I. pose proof (proj1 (forallb_forall _ _) all_copies_memberwise c I) as H.
  unfold implicit_copy_memberwise in H. split; [|split].
  - intro E. rewrite E in H. discriminate.
  - intros m Im. destruct (cl_copy c); try discriminate;
      pose proof (proj1 (forallb_forall _ _) H m Im) as K; simpl in K.
    + apply andb_true_iff in K. destruct K as [_ K]. apply negb_true_iff in K. exact K.
    + apply andb_true_iff in K. destruct K as [_ K]. apply negb_true_iff in K. exact K.
    + apply negb_true_iff in K. exact K.
  - intros [E|E] m Im; rewrite E in H; pose proof (proj1 (forallb_forall _ _) H m Im) as K; simpl in K;
      apply andb_true_iff in K; destruct K as [K _]; apply negb_true_iff in K; exact K.
Qed.

(* ---------------------------------------------------------------------------------------------- *)
(* induction on objects (nested list)                                                               *)
Section ObjInd.
  Variable P : obj -> Prop.
  Hypothesis Hobj : forall cls cfg comps, Forall (fun mc => P (snd mc)) comps -> P (Obj cls cfg comps).
  Fixpoint obj_induction (o : obj) : P o :=
    match o with
    | Obj cls cfg comps =>
        Hobj cls cfg comps
          ((fix go (l : list (string * obj)) : Forall (fun mc => P (snd mc)) l :=
              match l with
              | [] => Forall_nil _
              | mc :: r => Forall_cons mc (obj_induction (snd mc)) (go r)
              end) comps)
    end.
End ObjInd.

(* ---------------------------------------------------------------------------------------------- *)
(* the semantic model, all tables                                                                   *)
Section Generic.
  Variable clones : list sclone_rec.
  Variable classes : list sclass.
  Variable fresh : string -> obj.

  Notation oclone' := (oclone clones classes fresh).
  Notation obj_ok' := (obj_ok clones classes).
  Notation shaped' := (shaped clones classes).

  (* CopyOfThis + complete copy constructors along the chain => the clone is the object itself: equal class, equal
     parameter state, equal owned components (recursively) *)
  Lemma oclone_ok : forall o, obj_ok' o = true -> oclone' o = Some o.
  Proof.
    induction o as [cls cfg comps IH] using obj_induction. intro H. simpl in H.
    apply andb_true_iff in H. destruct H as [H Hc]. apply andb_true_iff in H. destruct H as [Hk Hp].
    simpl. destruct (clone_kind clones cls); try discriminate. rewrite Hp.
    assert (G : (fix go (l : list (string * obj)) : option (list (string * obj)) :=
                   match l with
                   | [] => Some []
                   | (m, c) :: r =>
                       match (match member_init classes cls m with
                              | InitDeep => oclone' c
                              | InitFresh => Some (fresh (obj_cls c))
                              | InitIllFormed => None
                              end), go r with
                       | Some c', Some r' => Some ((m, c') :: r')
                       | _, _ => None
                       end
                   end) comps = Some comps).
    { clear Hk Hp. induction comps as [|[m c] r IHr]; [reflexivity|].
      inversion IH as [|x y P1 P2]; subst. simpl in P1.
      apply andb_true_iff in Hc. destruct Hc as [Hc Hr]. apply andb_true_iff in Hc. destruct Hc as [Hd Ho].
      destruct (member_init classes cls m); try discriminate.
      rewrite (P1 Ho). rewrite (IHr P2 Hr). reflexivity. }
    rewrite G. reflexivity.
  Qed.

  Lemma find_clone_in : forall key r, find_clone clones key = Some r -> In r clones /\ sc_key r = key.
  Proof.
    intros key r H. unfold find_clone in H. apply find_some in H. destruct H as [I E].
    apply String.eqb_eq in E. split; assumption.
  Qed.

  Lemma first_some_deep : forall (l : list sclass) m k,
    first_some (fun c => class_member_init c m) l = Some k ->
    exists c, In c l /\ class_member_init c m = Some k.
  Proof.
    induction l as [|c l IH]; intros m k H; simpl in H; [discriminate|].
    destruct (class_member_init c m) as [k'|] eqn:E.
    - inversion H; subst. exists c. split; [left; reflexivity|exact E].
    - destruct (IH m k H) as (c' & I & E'). exists c'. split; [right; exact I|exact E'].
  Qed.

  Lemma class_ok_member_deep : forall cls m,
    class_clone_ok clones classes cls = true -> owned_member classes cls m = true ->
    member_init classes cls m = InitDeep.
  Proof.
    intros cls m H O. unfold class_clone_ok in H. apply andb_true_iff in H. destruct H as [_ H].
    unfold owned_member in O. apply existsb_exists in O. destruct O as (c & Ic & O).
    apply existsb_exists in O. destruct O as (x & Ix & O). apply andb_true_iff in O. destruct O as [On Oo].
    apply String.eqb_eq in On. subst m.
    pose proof (proj1 (forallb_forall _ _) H c Ic) as K. cbv beta in K. pose proof (proj1 (forallb_forall _ _) K x Ix) as K2.
    cbv beta in K2. rewrite Oo in K2. simpl in K2. destruct (member_init classes cls (sm_name x)); try discriminate. reflexivity.
  Qed.

  Lemma shaped_obj_ok :
    (forall r, In r clones -> class_clone_ok clones classes (sc_key r) = true) ->
    forall o, shaped' o = true -> obj_ok' o = true.
  Proof.
    intros All. induction o as [cls cfg comps IH] using obj_induction. intro H. simpl in H.
    apply andb_true_iff in H. destruct H as [Hh Hc]. unfold has_clone in Hh.
    destruct (find_clone clones cls) as [r|] eqn:F; [|discriminate].
    destruct (find_clone_in cls r F) as [Ir Kr]. pose proof (All r Ir) as Ok. rewrite Kr in Ok.
    simpl. pose proof Ok as Ok2. unfold class_clone_ok in Ok2.
    apply andb_true_iff in Ok2. destruct Ok2 as [Ok2 _]. rewrite Ok2. simpl.
    clear Hh F Kr Ir. induction comps as [|[m c] rr IHr]; [reflexivity|].
    inversion IH as [|x y P1 P2]; subst. simpl in P1.
    apply andb_true_iff in Hc. destruct Hc as [Hc Hr]. apply andb_true_iff in Hc. destruct Hc as [Hm Hs].
    rewrite (class_ok_member_deep cls m Ok Hm). rewrite (P1 Hs). simpl. exact (IHr P2 Hr).
  Qed.

  (* assignments (anywhere in the tree) do not change the shape *)
  Lemma oset_shaped : forall o path name a, shaped' o = true -> shaped' (oset o path name a) = true.
  Proof.
    induction o as [cls cfg comps IH] using obj_induction. intros path name a H. simpl in H.
    apply andb_true_iff in H. destruct H as [Hh Hc].
    destruct path as [|k p]; simpl; rewrite Hh; simpl; [exact Hc|].
    clear Hh. revert k. induction comps as [|[m c] r IHr]; intro k; [reflexivity|].
    inversion IH as [|x y P1 P2]; subst. simpl in P1.
    apply andb_true_iff in Hc. destruct Hc as [Hc Hr]. apply andb_true_iff in Hc. destruct Hc as [Hm Hs].
    destruct k as [|j].
    - rewrite Hm. rewrite (P1 p name a Hs). simpl. exact Hr.
    - rewrite Hm, Hs. simpl. exact (IHr P2 Hr j).
  Qed.

  Lemma oupdate_length : forall st i o, List.length (oupdate st i o) = List.length st.
  Proof. induction st as [|x r IH]; intros i o; destruct i; simpl; try reflexivity. rewrite IH. reflexivity. Qed.

  Lemma oupdate_nth_other : forall st i o j, j <> i -> nth_error (oupdate st i o) j = nth_error st j.
  Proof.
    induction st as [|x r IH]; intros i o j N; destruct i; simpl; try reflexivity.
    - destruct j; [contradiction|reflexivity].
    - destruct j; [reflexivity|]. simpl. apply IH. intro E. apply N. rewrite E. reflexivity.
  Qed.

  Lemma oupdate_forall : forall (P : obj -> Prop) st i o, Forall P st -> P o -> Forall P (oupdate st i o).
  Proof.
    intros P. induction st as [|x r IH]; intros i o F Po; destruct i; simpl; try exact F.
    - inversion F; subst. constructor; assumption.
    - inversion F; subst. constructor; [assumption|]. apply IH; assumption.
  Qed.

  Section Store.
    Hypothesis All : forall r, In r clones -> class_clone_ok clones classes (sc_key r) = true.

    Lemma oclone_shaped : forall o, shaped' o = true -> oclone' o = Some o.
    Proof. intros o H. apply oclone_ok. apply shaped_obj_ok; assumption. Qed.

    Definition Shaped (st : ostore) : Prop := Forall (fun o => shaped' o = true) st.

    Lemma ostep_total : forall st op, Shaped st ->
      exists st', ostep clones classes fresh st op = Some st' /\ Shaped st' /\ (List.length st <= List.length st')%nat.
    Proof.
      intros st op S. destruct op as [i path name a|i]; simpl.
      - destruct (nth_error st i) as [o|] eqn:E.
        + exists (oupdate st i (oset o path name a)). split; [reflexivity|]. split; [|rewrite oupdate_length; lia].
          apply oupdate_forall; [exact S|]. apply oset_shaped.
          exact (proj1 (Forall_forall _ _) S o (nth_error_In _ _ E)).
        + exists st. split; [reflexivity|]. split; [exact S|lia].
      - destruct (nth_error st i) as [o|] eqn:E.
        + pose proof (proj1 (Forall_forall _ _) S o (nth_error_In _ _ E)) as So.
          rewrite (oclone_shaped o So). exists (st ++ [o]). split; [reflexivity|]. split.
          * apply Forall_app. split; [exact S|constructor; [exact So|constructor]].
          * rewrite app_length. simpl. lia.
        + exists st. split; [reflexivity|]. split; [exact S|lia].
    Qed.

    (* every history of assignments and clones is defined, and every reachable object is again an object over the table *)
    Lemma orun_total : forall h st, Shaped st -> exists st', orun clones classes fresh st h = Some st' /\ Shaped st'.
    Proof.
      induction h as [|op h IH]; intros st S; simpl.
      - exists st. split; [reflexivity|exact S].
      - destruct (ostep_total st op S) as (st1 & E & S1 & _). rewrite E. exact (IH st1 S1).
    Qed.

    (* clone in ANY reachable state: the new object equals the original (class, parameters, owned components), the old
       objects are untouched *)
    Lemma oclone_reachable : forall h st st' i o, Shaped st ->
      orun clones classes fresh st h = Some st' -> nth_error st' i = Some o ->
      ostep clones classes fresh st' (OClone i) = Some (st' ++ [o]) /\
      nth_error (st' ++ [o]) (List.length st') = Some o /\
      forall j, (j < List.length st')%nat -> nth_error (st' ++ [o]) j = nth_error st' j.
    Proof.
      intros h st st' i o S R N. destruct (orun_total h st S) as (st2 & R2 & S2). rewrite R in R2. inversion R2; subst st2.
      pose proof (proj1 (Forall_forall _ _) S2 o (nth_error_In _ _ N)) as So.
      simpl. rewrite N. rewrite (oclone_shaped o So). split; [reflexivity|]. split.
      - rewrite nth_error_app2 by lia. rewrite Nat.sub_diag. reflexivity.
      - intros j L. apply nth_error_app1. exact L.
    Qed.

    Lemma ostep_other : forall st op st' j,
      (j < List.length st)%nat -> otargets op j = false -> ostep clones classes fresh st op = Some st' ->
      nth_error st' j = nth_error st j /\ (List.length st <= List.length st')%nat.
    Proof.
      intros st op st' j L T H. destruct op as [i path name a|i]; simpl in *.
      - destruct (nth_error st i) as [o|] eqn:E; inversion H; subst.
        + split; [|rewrite oupdate_length; lia]. apply oupdate_nth_other. intro E2. subst. rewrite Nat.eqb_refl in T. discriminate.
        + split; [reflexivity|lia].
      - destruct (nth_error st i) as [o|] eqn:E.
        + destruct (oclone' o) as [o'|]; [|discriminate]. inversion H; subst.
          split; [apply nth_error_app1; exact L|rewrite app_length; simpl; lia].
        + inversion H; subst. split; [reflexivity|lia].
    Qed.

    (* independence: whatever is done to other objects (clones of j included) never changes object j *)
    Lemma orun_other : forall h st st' j,
      (j < List.length st)%nat -> forallb (fun op => negb (otargets op j)) h = true ->
      orun clones classes fresh st h = Some st' -> nth_error st' j = nth_error st j.
    Proof.
      induction h as [|op h IH]; intros st st' j L T H; simpl in *.
      - inversion H; subst. reflexivity.
      - apply andb_true_iff in T. destruct T as [T1 T2]. apply negb_true_iff in T1.
        destruct (ostep clones classes fresh st op) as [st1|] eqn:E; [|discriminate].
        destruct (ostep_other st op st1 j L T1 E) as [N1 L1].
        rewrite <- N1. apply IH; [lia|exact T2|exact H].
    Qed.
  End Store.
End Generic.

(* ---------------------------------------------------------------------------------------------- *)
(* the instance of the run                                                                          *)
Lemma src_all_class_clone_ok : forallb (fun r => src_class_clone_ok (sc_key r)) src_c19_clones = true.
Proof. vm_compute. reflexivity. Qed.

Lemma src_all : forall r, In r src_c19_clones -> class_clone_ok src_c19_clones src_c19_classes (sc_key r) = true.
Proof. intros r I. exact (proj1 (forallb_forall _ _) src_all_class_clone_ok r I). Qed.

Lemma clone_equal_independent :
  (* equal: every object over the table, in every state of its parameters and of its owned components *)
  (forall o, src_shaped o = true -> src_oclone o = Some o) /\
  (* every reachable state: histories of assignments (through any path of owned components) and clones are defined, stay
     objects over the table, and a clone taken there appends an equal object and leaves all others as they are *)
  (forall h st, Forall (fun o => src_shaped o = true) st ->
     exists st', orun src_c19_clones src_c19_classes default_obj st h = Some st' /\ Forall (fun o => src_shaped o = true) st' /\
       forall i o, nth_error st' i = Some o ->
         ostep src_c19_clones src_c19_classes default_obj st' (OClone i) = Some (st' ++ [o]) /\
         nth_error (st' ++ [o]) (List.length st') = Some o /\
         forall j, (j < List.length st')%nat -> nth_error (st' ++ [o]) j = nth_error st' j) /\
  (* independent: operations on other objects never change object j *)
  (forall h st st' j, (j < List.length st)%nat -> forallb (fun op => negb (otargets op j)) h = true ->
     orun src_c19_clones src_c19_classes default_obj st h = Some st' -> nth_error st' j = nth_error st j).
Proof.
  split; [|split].
  - intros o H. exact (oclone_shaped _ _ default_obj src_all o H).
  - intros h st S. destruct (orun_total _ _ default_obj src_all h st S) as (st' & R & S').
    exists st'. split; [exact R|]. split; [exact S'|].
    intros i o N. exact (oclone_reachable _ _ default_obj src_all h st st' i o S R N).
  - intros h st st' j L T R. exact (orun_other _ _ default_obj h st st' j L T R).
Qed.

(* the general form, for ANY table: CopyOfThis of the own class + parameters handed to configurable_t along the chain +
   every owning member deep-cloned  =>  clone = identity on objects *)
Lemma clone_equal_generic : forall clones classes fresh,
  (forall r, In r clones -> class_clone_ok clones classes (sc_key r) = true) ->
  forall o, shaped clones classes o = true -> oclone clones classes fresh o = Some o.
Proof. intros clones classes fresh All o H. exact (oclone_shaped clones classes fresh All o H). Qed.

(* refutations on hand-made tables: what each seeded change does to the model *)
Lemma default_constructed_refuted :
  exists o o', o = oset (demo_obj 5 5) [] [97%Z] (AInt 7) /\
    shaped (demo_clones (DefaultConstructed "S")) (demo_classes demo_copy_good) o = true /\
    oclone (demo_clones (DefaultConstructed "S")) (demo_classes demo_copy_good) demo_fresh o = Some o' /\
    obj_cfg o' <> obj_cfg o.
Proof.
  eexists. eexists. split; [reflexivity|]. split; [vm_compute; reflexivity|]. split; [vm_compute; reflexivity|].
  vm_compute. discriminate.
Qed.

Lemma forgotten_member_refuted :
  exists o o', o = oset (demo_obj 5 5) [0%nat] [97%Z] (AInt 7) /\
    shaped (demo_clones (CopyOfThis "S")) (demo_classes demo_copy_forgets) o = true /\
    oclone (demo_clones (CopyOfThis "S")) (demo_classes demo_copy_forgets) demo_fresh o = Some o' /\
    obj_cfg o' = obj_cfg o /\ obj_comps o' <> obj_comps o.
Proof.
  eexists. eexists. split; [reflexivity|]. split; [vm_compute; reflexivity|]. split; [vm_compute; reflexivity|].
  split; [vm_compute; reflexivity|]. vm_compute. discriminate.
Qed.

Lemma base_not_passed_refuted :
  exists o' , oclone (demo_clones (CopyOfThis "S")) (demo_classes demo_copy_nobase) demo_fresh (demo_obj 7 8) = Some o' /\
    obj_cfg o' = [] /\ obj_comps o' = obj_comps (demo_obj 7 8).
Proof. eexists. split; [vm_compute; reflexivity|]. split; vm_compute; reflexivity. Qed.

Lemma sibling_refuted :
  oclone (demo_clones (CopyOfThis "L")) (demo_classes demo_copy_good) demo_fresh (demo_obj 7 8) = None /\
  clone_copy_this (mkSClone "demo.cpp" 1 "S" "S" false (CopyOfThis "L")) = false.
Proof. split; vm_compute; reflexivity. Qed.

Lemma demo_good :
  (forall r, In r (demo_clones (CopyOfThis "S")) ->
     class_clone_ok (demo_clones (CopyOfThis "S")) (demo_classes demo_copy_good) (sc_key r) = true) /\
  shaped (demo_clones (CopyOfThis "S")) (demo_classes demo_copy_good) (demo_obj 7 8) = true /\
  oclone (demo_clones (CopyOfThis "S")) (demo_classes demo_copy_good) demo_fresh (demo_obj 7 8) = Some (demo_obj 7 8).
Proof.
  split; [|split; vm_compute; reflexivity].
  intros r I. simpl in I. destruct I as [E|[E|[]]]; subst; vm_compute; reflexivity.
Qed.

Lemma clone_table_sizes : (100 <= List.length src_c19_clones)%nat /\ (100 <= List.length src_c19_classes)%nat /\
  existsb (fun c => match cl_copy c with UserCopy _ _ _ _ => true | _ => false end) src_c19_classes = true /\
  existsb (fun c => existsb (fun m => owning (sm_kind m)) (cl_members c)) src_c19_classes = true.
Proof. vm_compute. repeat split; repeat constructor. Qed.
