(* C05 (extension "Outer") -- executable model of what was still outside C05_Defs:
     * make_ro1 of src/solver/augmented.cpp (with its clamps), ::nano::converged of src/solver/state.cpp, the
       multipliers stored in the best state by bstate.update(x, lambda, miu): the augmented-Lagrangian outer loop
       [alo_run] takes NOTHING but the inner solver's answers (point, constraint values, validity flags) as input --
       ro_1, the dx-convergence flag, the criterion, the multiplier / penalty updates are all computed;
     * the un-clamped multiplier updates lambda+ = lambda + ro h, miu+ = max(0, miu + ro g) and the gradient of the
       ordinary Lagrangian as solver_state_t::update_constraints accumulates it (m_lgx);
     * the outer loop of solver_penalty_t::minimize (src/solver/penalty.cpp; linear- and quadratic-penalty solvers)
       over the inner solver's answers and the evaluation of the ORIGINAL function (oracle [orig]).
   The boolean / integer decisions come from the kernels translated from the source on every run (LNGen.Src_c05).
   No proofs in this file. *)
From Coq Require Import List ZArith QArith Bool.
From LNGen Require Import Src_c05.
From LN Require Import C05_Defs.
Import ListNotations.
Local Open Scope Q_scope.

(* std::clamp(v, lo, hi) = (v < lo) ? lo : (hi < v) ? hi : v *)
Definition qclamp (v lo hi : Q) : Q := if qltb v lo then lo else if qltb hi v then hi else v.

Fixpoint qpow (q : Q) (n : nat) : Q := match n with O => 1 | S n' => qpow q n' * q end.

(* ---- make_ro1 (augmented.cpp) ----------------------------------------------------------------------------------
   the double literal 1e-6 is 4722366482869645 / 2^72 exactly; 10.0 and 2.0 are exact *)
Definition d_1em6 : Q := 4722366482869645 # 4722366482869645213696.
Definition ro_min : Q := d_1em6.
Definition ro_max : Q := 10.
Definition make_ro1 (R : rops) (f : Q) (h g : vec) : Q :=
  let G := map (fun v => qmax v 0) g in
  qclamp (rdiv R (rmul R 2 (qabs f)) (qmax (radd R (dot h h) (dot G G)) d_1em6)) ro_min ro_max.

(* ---- ::nano::converged(bstate, cstate, epsilon) (state.cpp) ------------------------------------------------------
   dx = |cstate.x - bstate.x|_inf (element-wise rounded difference, exact max/abs);
   dx < epsilon * max(1, |bstate.x|_inf) *)
Definition dx_converged (R : rops) (eps : Q) (bx cx : vec) : bool :=
  src_state_converged (qltb (linf (map2 (fun c b => radd R c (- b)) cx bx)) (rmul R eps (qmax 1 (linf bx)))).

(* ---- the un-clamped first-order multiplier updates and the ordinary Lagrangian's gradient ------------------------ *)
Definition next_lambda (ro : Q) (lambda ceq : vec) : vec := map2 (fun l h => l + ro * h) lambda ceq.
Definition next_miu (ro : Q) (miu cineq : vec) : vec := map2 (fun m g => qmax 0 (m + ro * g)) miu cineq.

(* m_lgx = gx + sum meq_j grad h_j + sum mineq_i grad g_i, accumulated over the interleaved constraints with the
   two counters of update_constraints (consumed prefixes) *)
Definition lg_step (s : al_state1) (e : cev) : al_state1 :=
  let '(a, ls, ms) := s in
  (add_term a 0 (if ce_eq e then hd 0 ls else hd 0 ms) (ce_grad e),
   if ce_eq e then tl ls else ls, if ce_eq e then ms else tl ms).
Definition lagrangian_grad (gx : vec) (es : list cev) (meq mineq : vec) : vec :=
  snd (fst (fst (fold_left lg_step es ((0, gx), meq, mineq)))).

(* ---- the complete outer loop of the augmented-Lagrangian solver ---------------------------------------------------
   [o_core]: the state of C05_Defs.al_step (best point and its constraint values, ro, lambda, miu, old_criterion, ...);
   [o_meq], [o_mineq]: m_meq / m_mineq of bstate (set by bstate.update(cstate.x(), lambda, miu));
   ghost (not stored by the code, used to state the KKT theorem): [o_bro], [o_bcrit] = ro and the criterion of the
   iteration that produced bstate, [o_bset] = bstate was replaced at least once *)
Record alo_state : Type := mkalo {
  o_core : al_state; o_meq : vec; o_mineq : vec; o_bro : Q; o_bcrit : Q; o_bset : bool }.

Definition alo_init (R : rops) (f0 : Q) (x0 ceq0 cineq0 : vec) : alo_state :=
  let c := al_init R x0 ceq0 cineq0 (make_ro1 R f0 ceq0 cineq0) in
  mkalo c (repeat 0 (length ceq0)) (repeat 0 (length cineq0)) (s_ro c) (s_old c) false.

(* the event with the dx-convergence flag computed from the best point *)
Definition alo_event (R : rops) (P : al_params) (s : alo_state) (e : al_event) : al_event :=
  mkevent (e_x e) (e_ceq e) (e_cineq e) (e_ok e)
          (dx_converged R (p_eps P) (s_x (o_core s)) (e_x e)) (e_bvalid e).

Definition alo_step (R : rops) (P : al_params) (s : alo_state) (e : al_event) : alo_state :=
  let c := o_core s in
  let e' := alo_event R P s e in
  let upd := al_step_updated R c e' in
  mkalo (al_step R P c e')
        (if upd then s_lambda c else o_meq s) (if upd then s_miu c else o_mineq s)
        (if upd then s_ro c else o_bro s) (if upd then al_step_criterion R c e' else o_bcrit s)
        (upd || o_bset s).

Fixpoint alo_run (R : rops) (P : al_params) (s : alo_state) (es : list al_event) : alo_state :=
  match es with
  | [] => s
  | e :: es' =>
      if negb (s_stopped (o_core s)) && src_al_loop (s_outer (o_core s)) (p_max_outers P)
      then alo_run R P (alo_step R P s e) es'
      else s
  end.

(* the events as the loop of C05_Defs sees them (dx flag filled in along the run) *)
Fixpoint alo_decorate (R : rops) (P : al_params) (s : alo_state) (es : list al_event) : list al_event :=
  match es with
  | [] => []
  | e :: es' => alo_event R P s e :: alo_decorate R P (alo_step R P s e) es'
  end.

(* ---- solver_penalty_t::minimize (penalty.cpp) ------------------------------------------------------------------- *)
Record ps_params : Type := mkps {
  ps_eps : Q; ps_eta : Q; ps_penalty0 : Q; ps_eps0 : Q; ps_epsK : Q; ps_max_outers : Z }.

(* solver_state_t of the ORIGINAL function (penalty_function.function()) at a point: fx, ceq, cineq, valid() *)
Record oeval : Type := mkoeval { oe_fx : Q; oe_ceq : vec; oe_cineq : vec; oe_valid : bool }.

(* the inner solver's answer: cstate.x(), cstate.valid() *)
Record ps_event : Type := mkpse { pe_x : vec; pe_ok : bool }.

Record ps_state : Type := mkpss {
  q_x : vec; q_eval : oeval;                   (* bstate *)
  q_penalty : Q; q_inner_eps : Q;              (* penalty; solver::epsilon of the inner solver *)
  q_outer : Z; q_status : al_status; q_stopped : bool;
  q_trace : list Q }.                          (* log: the penalty each inner solve used, most recent first *)

Definition ps_init (orig : vec -> oeval) (P : ps_params) (x0 : vec) : ps_state :=
  mkpss x0 (orig x0) (ps_penalty0 P) (ps_eps0 P) 0%Z MaxIters false [].

Definition ps_step (R : rops) (orig : vec -> oeval) (P : ps_params) (s : ps_state) (e : ps_event) : ps_state :=
  let trace := q_penalty s :: q_trace s in
  if src_ps_skip (pe_ok e)
  then (* penalty *= eta; continue; *)
    mkpss (q_x s) (q_eval s) (rmul R (q_penalty s) (ps_eta P)) (q_inner_eps s) (q_outer s + 1)%Z MaxIters false trace
  else
    let conv := src_ps_converged (pe_ok e) (dx_converged R (ps_eps P) (q_x s) (pe_x e)) in
    let ev := orig (pe_x e) in                  (* bstate.update(cstate.x()) *)
    if src_done_stop conv (src_done_step_ok (pe_ok e) (oe_valid ev))
    then mkpss (pe_x e) ev (q_penalty s) (q_inner_eps s) (q_outer s)
               (status_of_Z (src_done_status conv (src_done_step_ok (pe_ok e) (oe_valid ev)))) true trace
    else (* penalty *= eta; solver->more_precise(epsilonK); *)
      mkpss (pe_x e) ev (rmul R (q_penalty s) (ps_eta P)) (rmul R (q_inner_eps s) (ps_epsK P))
            (q_outer s + 1)%Z MaxIters false trace.

Fixpoint ps_run (R : rops) (orig : vec -> oeval) (P : ps_params) (s : ps_state) (es : list ps_event) : ps_state :=
  match es with
  | [] => s
  | e :: es' =>
      if negb (q_stopped s) && src_ps_loop (q_outer s) (ps_max_outers P)
      then ps_run R orig P (ps_step R orig P s e) es'
      else s
  end.

(* diagnostics for the driver *)
Definition ps_step_converged (R : rops) (P : ps_params) (s : ps_state) (e : ps_event) : bool :=
  src_ps_converged (pe_ok e) (dx_converged R (ps_eps P) (q_x s) (pe_x e)).
Definition ps_running (P : ps_params) (s : ps_state) : bool :=
  negb (q_stopped s) && src_ps_loop (q_outer s) (ps_max_outers P).
Definition alo_running (P : al_params) (s : alo_state) : bool :=
  negb (s_stopped (o_core s)) && src_al_loop (s_outer (o_core s)) (p_max_outers P).
