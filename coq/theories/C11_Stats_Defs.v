(* C11, extension "stats" -- the code that COMPUTES and STORES the reported statistics, as an executable model.

   Sources modelled (the C++ is the truth):
     src/machine/stats.cpp            ml::store_stats (12 numbers: mean, stdev, count, percentiles 1 5 10 20 50 80 90 95 99),
                                      ml::load_stats (the aggregate stats_t in member order)
     include/nano/tensor/tensor.h     tensor_t::mean / variance (one pass, clamped at zero: /repo b0b87e4) / stdev
     include/nano/core/stats.h        nano::percentile (std::nth_element per position) -- the C20 model, imported read-only
     src/machine/result.cpp           ml::result_t::{add, store (both overloads), stats (both), value, optimum_trial, closest_trial}:
                                      m_values(trial, fold, train|valid, errors|losses, 12) and m_optims(errors|losses, 12) as FLAT
                                      row-major buffers addressed by the C16 model of tensor indexing (imported read-only)
     src/machine/tune.cpp             the tasks of one batch of trials (index -> (trial, fold), callback, result.store)
     src/learner.cpp / linear/util.cpp / gboost/util.cpp   evaluate: per sample loss.error / loss.value of the prediction

   Every integer / boolean / selector expression is a kernel translated from the sources on every run (group `stats`,
   coq/generated/Src_stats.v, 70 kernels).  Scalars: the model is polymorphic in an [ops T] record of C20 (comparison and
   arithmetic); it is used at T = Q (exact: "the statistics of a list of scalars"; sqrt is not rational, so the record
   over Q holds the RADICAND variance / (n - 1) in the stdev column) and at T = float (PrimFloat = binary64: percentiles,
   value(), optimum_trial() are scalar code and are compared bit for bit with the library).
   No proofs in this file. *)
From Coq Require Import List ZArith Bool QArith Floats.
From LNGen Require Import Src_stats Src_mlresult.
From LN Require Import C16_Defs C20_Defs C11_Defs.
Import ListNotations.
Local Open Scope Z_scope.

(* ------------------------------------------------------------------------------------------------------------------ *)
(* 1. mean / variance / stdev of a list over Q                                                                          *)
(* ------------------------------------------------------------------------------------------------------------------ *)
Definition q_count (l : list Q) : Z := Z.of_nat (length l).
(* Eigen: vector().mean() = sum() / size() *)
Definition q_mean (l : list Q) : Q := (qsum l / inject_Z (q_count l))%Q.
Definition q_sumsq (l : list Q) : Q := qsum (map (fun x => x * x)%Q l).
(* std::max(a, b) = (a < b) ? b : a *)
Definition qmax (a b : Q) : Q := if Qle_bool b a then a else b.
(* the shape of the kernel src_var_expr: std::max(array.square().sum() / count - average * average, 0.0) *)
Definition q_var_expr (sumsq count average : Q) : Q := qmax (sumsq / count - average * average)%Q 0%Q.
Definition q_variance (l : list Q) : Q :=
  if src_var_guard (q_count l) then q_var_expr (q_sumsq l) (inject_Z (q_count l)) (q_mean l) else 0%Q.
(* stdev() = sqrt(variance() / (count - 1)): the radicand *)
Definition q_stdev2 (l : list Q) : Q :=
  if src_sd_guard (q_count l) then (q_variance l / inject_Z (src_sd_den (q_count l)))%Q else 0%Q.

(* ------------------------------------------------------------------------------------------------------------------ *)
(* 2. store_stats / load_stats                                                                                         *)
(* ------------------------------------------------------------------------------------------------------------------ *)
(* the percentages of columns 3..11, as written in store_stats *)
Definition st_pcts : list Z :=
  [src_st_pct3; src_st_pct4; src_st_pct5; src_st_pct6; src_st_pct7; src_st_pct8; src_st_pct9; src_st_pct10; src_st_pct11].
(* which of (mean, stdev, count) goes to columns 0, 1, 2: the kernels applied to the selectors 0 1 2 *)
Definition st_sel : list Z := [src_st_col0 0 1 2; src_st_col1 0 1 2; src_st_col2 0 1 2].
(* columns read by the members of stats_t, in member order (m_mean, m_stdev, m_count, m_per01, ..., m_per99) *)
Definition ld_cols : list Z :=
  [src_ld_col0; src_ld_col1; src_ld_col2; src_ld_col3; src_ld_col4; src_ld_col5; src_ld_col6; src_ld_col7; src_ld_col8;
   src_ld_col9; src_ld_col10; src_ld_col11].

Section Record.
Context {T : Type} (Op : ops T).

(* the percentile columns: nano::percentile(begin, end, p) on the (mutable) buffer = the C20 model *)
(* (percentile Op vals p = percentile_sorted Op (sort Op vals) p by definition: the buffer is sorted once here) *)
Definition st_percentiles (vals : list T) : list T :=
  let s := sort Op vals in map (fun p => percentile_sorted Op s (Z2F p)) st_pcts.
(* store_stats: [triple] = (mean, stdev, count) of the values (exact over Q; taken from the run in binary64, where Eigen's
   reductions are not bit-reproducible) *)
Definition store_stats (triple : list T) (vals : list T) : list T :=
  map (fun k => nth (Z.to_nat k) triple (nan Op)) st_sel ++ st_percentiles vals.
(* load_stats: the members of stats_t *)
Definition load_stats (row : list T) : list T := map (fun c => nth (Z.to_nat c) row (nan Op)) ld_cols.

(* the positions the percentile columns read in the sorted buffer *)
Definition st_positions (n : Z) : list (Z * Z) := map (fun p => (pct_lpos (Z2F p) n, pct_rpos (Z2F p) n)) st_pcts.
End Record.

Definition q_triple (l : list Q) : list Q := [q_mean l; q_stdev2 l; inject_Z (q_count l)].
(* the 12 numbers of a list of scalars *)
Definition q_stats (l : list Q) : list Q := store_stats Q_ops (q_triple l) l.
Definition f_stats (triple : list float) (l : list float) : list float := store_stats float_ops triple l.

(* ------------------------------------------------------------------------------------------------------------------ *)
(* 3. ml::result_t: the flat buffers m_values (trials, folds, 2, 2, 12) and m_optims (2, 12)                             *)
(* ------------------------------------------------------------------------------------------------------------------ *)
Definition vdims (trials folds : Z) : dims := [trials; folds; 2; 2; 12].
Definition odims : dims := [2; 12].
(* element (trial, fold, split, kind, statistic) of m_values *)
Definition cell (trials folds t f s v k : Z) : Z := offset (vdims trials folds) [t; f; s; v; k].

Record rstate (A : Type) := mk_rs { r_trials : Z; r_folds : Z; r_values : list A; r_optims : list A }.
Arguments mk_rs {A}. Arguments r_trials {A}. Arguments r_folds {A}. Arguments r_values {A}. Arguments r_optims {A}.

Section Layout.
Context {A : Type} (dflt : A).

(* result_t(param_spaces, folds): no trial yet, everything NaN *)
Definition r_new (folds : Z) : rstate A := mk_rs 0 folds [] (repeat dflt (Z.to_nat (size odims))).

(* add(params_to_try): resize, old values copied back to slice(0, old_trials), the new slice filled with NaN *)
Definition r_add (st : rstate A) (n : Z) : rstate A :=
  mk_rs (r_trials st + n) (r_folds st)
        (r_values st ++ repeat dflt (Z.to_nat (size (vdims n (r_folds st))))) (r_optims st).

(* assignment through a 1d sub-tensor view (base, 12): the cells base .. base + |row| - 1 *)
Definition splice (base : Z) (row flat : list A) : list A :=
  firstn (Z.to_nat base) flat ++ row ++ skipn (Z.to_nat base + length row) flat.

(* m_values.tensor(trial, fold, split, kind): (base, 12) *)
Definition sub_view (st : rstate A) (t f s v : Z) : Z * Z := view_vector (vdims (r_trials st) (r_folds st)) [t; f; s; v].
Definition r_write (st : rstate A) (t f s v : Z) (row : list A) : rstate A :=
  mk_rs (r_trials st) (r_folds st) (splice (fst (sub_view st t f s v)) row (r_values st)) (r_optims st).
Definition r_read (st : rstate A) (t f s v : Z) : list A :=
  segment (fst (sub_view st t f s v)) (snd (sub_view st t f s v)) (r_values st).
Definition o_view (v : Z) : Z * Z := view_vector odims [v].
Definition r_write_opt (st : rstate A) (v : Z) (row : list A) : rstate A :=
  mk_rs (r_trials st) (r_folds st) (r_values st) (splice (fst (o_view v)) row (r_optims st)).
Definition r_read_opt (st : rstate A) (v : Z) : list A := segment (fst (o_view v)) (snd (o_view v)) (r_optims st).

(* store(trial, fold, train_errors_losses, valid_errors_losses): the four store_stats calls, in source order;
   [rec who row] = the 12 numbers of row `row` of the train (who = 0) / validation (who = 1) tensor *)
Definition store_calls : list (Z * Z * Z * Z) :=
  [(src_rs_store_who0, src_rs_store_row0, src_rs_store_split0, src_rs_store_kind0);
   (src_rs_store_who1, src_rs_store_row1, src_rs_store_split1, src_rs_store_kind1);
   (src_rs_store_who2, src_rs_store_row2, src_rs_store_split2, src_rs_store_kind2);
   (src_rs_store_who3, src_rs_store_row3, src_rs_store_split3, src_rs_store_kind3)].
Definition r_store (st : rstate A) (t f : Z) (rec : Z -> Z -> list A) : rstate A :=
  fold_left (fun st c => match c with (w, r, s, v) => r_write st t f s v (rec w r) end) store_calls st.
(* store(errors_losses): the optimum's statistics *)
Definition final_calls : list (Z * Z) := [(src_rs_final_row0, src_rs_final_kind0); (src_rs_final_row1, src_rs_final_kind1)].
Definition r_store_final (st : rstate A) (rec : Z -> list A) : rstate A :=
  fold_left (fun st c => match c with (r, v) => r_write_opt st v (rec r) end) final_calls st.
End Layout.

Section Query.
Context {T : Type} (Op : ops T).

(* stats(trial, fold, split, value) / stats(value): enum -> index, sub-tensor, load_stats *)
Definition r_stats (st : rstate T) (t f : Z) (is_train is_errors : bool) : list T :=
  let isplit := src_rs_isplit is_train in
  let ivalue := src_rs_ivalue is_errors in
  load_stats Op (r_read st (src_rs_load_a0 t f isplit ivalue) (src_rs_load_a1 t f isplit ivalue)
                          (src_rs_load_a2 t f isplit ivalue) (src_rs_load_a3 t f isplit ivalue)).
Definition r_stats_final (st : rstate T) (is_errors : bool) : list T :=
  load_stats Op (r_read_opt st (src_rs_final_load (src_rs_ivalue_final is_errors))).

(* value(trial, split, kind): sum over the folds of one member of the stored statistics, divided by folds() *)
Fixpoint value_loop (fuel : nat) (st : rstate T) (t : Z) (is_train is_errors : bool) (fold folds : Z) (acc : T) : T :=
  match fuel with
  | O => acc
  | S fu =>
      if src_rs_value_cont fold folds then
        value_loop fu st t is_train is_errors (src_rs_value_step fold) folds
                   (add Op acc (nth (Z.to_nat src_rs_value_field) (r_stats st t fold is_train is_errors) (nan Op)))
      else acc
  end.
Definition r_value (st : rstate T) (t : Z) (is_train is_errors : bool) : T :=
  div Op (value_loop (Z.to_nat (r_folds st)) st t is_train is_errors src_rs_value_first (r_folds st) (ofZ Op 0))
         (ofZ Op (src_rs_value_den (r_folds st))).
(* value(trial): the default arguments of the declaration *)
Definition r_value_default (st : rstate T) (t : Z) : T :=
  r_value st t (src_rs_value_dsplit =? 0) (src_rs_value_dkind =? 0).

(* `best = 0, best_value = max; for (i = first; cont; ++i) if (x_i < best_value) { best = i; best_value = x_i; }` *)
Fixpoint argmin_loop (cont : Z -> Z -> bool) (better : bool -> bool) (x : Z -> T) (fuel : nat) (i n best : Z) (bestv : T) : Z :=
  match fuel with
  | O => best
  | S fu =>
      if cont i n then
        if better (ltb Op (x i) bestv) then argmin_loop cont better x fu (i + 1) n i (x i)
        else argmin_loop cont better x fu (i + 1) n best bestv
      else best
  end.
(* optimum_trial() *)
Definition r_optimum (tmax : T) (st : rstate T) : Z :=
  argmin_loop src_rs_opt_cont src_rs_opt_better (r_value_default st) (Z.to_nat (r_trials st)) src_rs_opt_first (r_trials st) 0 tmax.
(* closest_trial(params, max_trials) on the distances of the trials *)
Definition r_closest (tmax : T) (dist : Z -> T) (max_trials : Z) : Z :=
  argmin_loop src_rs_clo_cont src_rs_clo_better dist (Z.to_nat max_trials) 0 max_trials 0 tmax.
End Query.

(* the distance of closest_trial: (m_params.tensor(trial) - params).lpNorm<2>(); over Q its square (sqrt is strictly
   increasing on the reals, so the first strict minimum is the same) *)
Fixpoint qdist2 (a b : list Q) : Q :=
  match a, b with
  | x :: a', y :: b' => ((x - y) * (x - y) + qdist2 a' b')%Q
  | _, _ => 0%Q
  end.
Definition q_closest (big : Q) (params : list (list Q)) (p : list Q) (max_trials : Z) : Z :=
  r_closest Q_ops big (fun t => qdist2 (nth (Z.to_nat t) params []) p) max_trials.

(* ------------------------------------------------------------------------------------------------------------------ *)
(* 4. evaluate + the tasks of ml::tune                                                                                  *)
(* ------------------------------------------------------------------------------------------------------------------ *)
Section Tune.
Variables S M P : Type.                     (* sample index, fitted model, hyper-parameter values *)
Variable fit_cb : P -> list S -> M.         (* the callback's fit on the training samples of the fold *)
Variable errf lossf : M -> S -> Q.          (* loss.error / loss.value of (target of the sample, prediction of the model on it) *)

(* learner_t::evaluate / linear::evaluate / gboost::evaluate: row 0 = errors, row 1 = losses, one column per sample *)
Definition evaluate (m : M) (samples : list S) : list Q * list Q := (map (errf m) samples, map (lossf m) samples).
Definition ev_row (e : list Q * list Q) (row : Z) : list Q := if row =? 0 then fst e else snd e.

(* one task of tpool.map(folds * new_trials, thread_callback) *)
Definition tune_task (folds old_trials : Z) (splits : list (list S * list S)) (params : list P) (dp : P)
    (st : rstate Q) (index : Z) : rstate Q :=
  let fold := src_tune_fold index folds in
  let trial := src_tune_trial index folds in
  let sp := nth (Z.to_nat fold) splits ([], []) in
  let m := fit_cb (nth (Z.to_nat trial) params dp) (fst sp) in
  let tr := evaluate m (fst sp) in
  let vd := evaluate m (snd sp) in
  r_store st (src_tune_store_trial old_trials trial) fold
          (fun who row => q_stats (ev_row (if who =? 0 then tr else vd) row)).
(* the tasks of a batch, executed in the order [order] (whatever the thread pool does) after result.add(new_params) *)
Definition tune_batch (splits : list (list S * list S)) (params : list P) (dp : P) (st : rstate Q) (order : list Z) : rstate Q :=
  let st1 := r_add 0%Q st (Z.of_nat (length params)) in
  fold_left (tune_task (r_folds st) (r_trials st) splits params dp) order st1.
End Tune.

(* ------------------------------------------------------------------------------------------------------------------ *)
(* 5. binary64 instances that are extracted and run against the library                                               *)
(* ------------------------------------------------------------------------------------------------------------------ *)
Definition f_value (st : rstate float) (t : Z) (is_train is_errors : bool) : float := r_value float_ops st t is_train is_errors.
Definition f_optimum (st : rstate float) : Z := r_optimum float_ops fmax st.
Definition f_stats_of (st : rstate float) (t f : Z) (is_train is_errors : bool) : list float := r_stats float_ops st t f is_train is_errors.
Definition f_stats_final (st : rstate float) (is_errors : bool) : list float := r_stats_final float_ops st is_errors.
Definition f_new (folds : Z) : rstate float := r_new PrimFloat.nan folds.
Definition f_add (st : rstate float) (n : Z) : rstate float := r_add PrimFloat.nan st n.
Definition f_store (st : rstate float) (t f : Z) (rec : Z -> Z -> list float) : rstate float := r_store st t f rec.
Definition f_store_final (st : rstate float) (rec : Z -> list float) : rstate float := r_store_final st rec.
