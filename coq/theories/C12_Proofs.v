(* C12 -- proofs about the splitter / sampler model (C12_Defs). *)
From Coq Require Import List ZArith Bool Lia Arith Permutation Sorted.
From LNGen Require Import Src_numeric Src_splitter Src_sampling.
From LN Require Import ListAux C12_Defs.
Import ListNotations.
Local Open Scope Z_scope.

Ltac unfold_src :=
  unfold src_kfold_chunk, src_kfold_valid_begin, src_kfold_valid_end, src_kfold_valid_size,
    src_kfold_train_size, src_kfold_loop_first, src_kfold_valid_src_start, src_kfold_valid_src_len,
    src_kfold_head_dst_start, src_kfold_head_dst_len, src_kfold_head_src_start, src_kfold_head_src_len,
    src_kfold_tail_dst_start, src_kfold_tail_dst_len, src_kfold_tail_src_start, src_kfold_tail_src_len,
    src_random_train_size, src_random_valid_size, src_random_valid_alloc, src_random_train_alloc,
    src_random_train_src_start, src_random_train_src_len, src_random_valid_src_start,
    src_random_valid_src_len, src_sample_udist_lo, src_sample_udist_hi, src_sample_swor_begin,
    src_sample_swor_end, src_sample_swr_alloc, src_sample_swrw_alloc, src_idiv in *.

(* ================================================================================================ *)
(* sorting                                                                                          *)
(* ================================================================================================ *)
Definition sorted (l : list Z) : Prop := StronglySorted Z.le l.
Definition ssorted (l : list Z) : Prop := StronglySorted Z.lt l.

Lemma Forall_perm {A} (P : A -> Prop) l l' : Permutation l l' -> Forall P l -> Forall P l'.
Proof.
  intros HP HF. rewrite Forall_forall in *. intros x Hx. apply HF.
  apply Permutation_in with l'; [symmetry; exact HP | exact Hx].
Qed.

Lemma insert_perm x l : Permutation (insert x l) (x :: l).
Proof.
  induction l as [|y r IH]; cbn [insert]; [reflexivity|].
  destruct (x <=? y); [reflexivity|].
  rewrite IH. apply perm_swap.
Qed.

Lemma insert_sorted x l : sorted l -> sorted (insert x l).
Proof.
  unfold sorted. induction l as [|y r IH]; intros HS; cbn [insert].
  - constructor; constructor.
  - destruct (x <=? y) eqn:E.
    + apply Z.leb_le in E. inversion HS as [|? ? HS' HF]; subst.
      constructor; [exact HS|]. constructor; [exact E|].
      eapply Forall_impl; [|exact HF]. intros a Ha. cbn in Ha. lia.
    + apply Z.leb_gt in E. inversion HS as [|? ? HS' HF]; subst.
      constructor; [apply IH; exact HS'|].
      apply Forall_perm with (x :: r); [symmetry; apply insert_perm|].
      constructor; [lia | exact HF].
Qed.

Lemma isort_perm l : Permutation (isort l) l.
Proof.
  induction l as [|x r IH]; cbn [isort]; [reflexivity|].
  rewrite insert_perm. constructor. exact IH.
Qed.

Lemma isort_sorted l : sorted (isort l).
Proof.
  induction l as [|x r IH]; cbn [isort]; [constructor|]. apply insert_sorted. exact IH.
Qed.

Lemma merge_nil_r l : merge l [] = l.
Proof. destruct l; reflexivity. Qed.

Lemma merge_cons x r1 y r2 :
  merge (x :: r1) (y :: r2) = if x <=? y then x :: merge r1 (y :: r2) else y :: merge (x :: r1) r2.
Proof. reflexivity. Qed.

Lemma merge_perm : forall l1 l2, Permutation (merge l1 l2) (l1 ++ l2).
Proof.
  induction l1 as [|x r1 IH1]; intros l2; [reflexivity|].
  induction l2 as [|y r2 IH2]; [rewrite merge_nil_r, app_nil_r; reflexivity|].
  rewrite merge_cons. destruct (x <=? y).
  - cbn [app]. constructor. apply IH1.
  - rewrite IH2. apply Permutation_middle.
Qed.

Lemma merge_sorted : forall l1 l2, sorted l1 -> sorted l2 -> sorted (merge l1 l2).
Proof.
  unfold sorted.
  induction l1 as [|x r1 IH1]; intros l2 H1 H2; [exact H2|].
  induction l2 as [|y r2 IH2]; [rewrite merge_nil_r; exact H1|].
  rewrite merge_cons.
  inversion H1 as [|? ? H1' F1]; subst. inversion H2 as [|? ? H2' F2]; subst.
  destruct (x <=? y) eqn:E.
  - apply Z.leb_le in E. constructor; [apply IH1; assumption|].
    apply Forall_perm with (r1 ++ y :: r2); [symmetry; apply merge_perm|].
    apply Forall_app. split; [exact F1|]. constructor; [exact E|].
    eapply Forall_impl; [|exact F2]. intros a Ha. cbn in Ha. lia.
  - apply Z.leb_gt in E. constructor; [apply IH2; assumption|].
    apply Forall_perm with ((x :: r1) ++ r2); [symmetry; apply merge_perm|].
    apply Forall_app. split; [|exact F2]. constructor; [lia|].
    eapply Forall_impl; [|exact F1]. intros a Ha. cbn in Ha. lia.
Qed.

Lemma halve_perm : forall l, Permutation (fst (halve l) ++ snd (halve l)) l.
Proof.
  fix IH 1. intros [|x [|y r]]; [reflexivity | reflexivity |].
  cbn [halve]. specialize (IH r). destruct (halve r) as [a b]. cbn [fst snd] in *.
  cbn [app]. constructor. rewrite <- IH. symmetry. apply Permutation_middle.
Qed.

Lemma msort_perm : forall fuel l, Permutation (msort fuel l) l.
Proof.
  induction fuel as [|f IH]; intros [|x [|y r]]; try reflexivity.
  - cbn [msort]. apply isort_perm.
  - cbn [msort]. pose proof (halve_perm (x :: y :: r)) as HP.
    destruct (halve (x :: y :: r)) as [a b]. cbn [fst snd] in HP.
    rewrite merge_perm, (IH a), (IH b). exact HP.
Qed.

Lemma msort_sorted : forall fuel l, sorted (msort fuel l).
Proof.
  induction fuel as [|f IH]; intros [|x [|y r]]; try (cbn [msort]; repeat constructor).
  - apply isort_sorted.
  - cbn [msort]. destruct (halve (x :: y :: r)) as [a b]. apply merge_sorted; apply IH.
Qed.

Lemma sort_perm l : Permutation (sort l) l.
Proof. apply msort_perm. Qed.

Lemma sort_sorted l : sorted (sort l).
Proof. apply msort_sorted. Qed.

Lemma sort_length l : length (sort l) = length l.
Proof. apply Permutation_length, sort_perm. Qed.

Lemma sort_in x l : In x (sort l) <-> In x l.
Proof.
  split; apply Permutation_in; [apply sort_perm | symmetry; apply sort_perm].
Qed.

(* a sorted duplicate-free list is strictly sorted *)
Lemma sorted_nodup_strict l : sorted l -> NoDup l -> ssorted l.
Proof.
  unfold sorted, ssorted. induction l as [|x r IH]; intros HS HN; [constructor|].
  inversion HS as [|? ? HS' HF]; subst. inversion HN as [|? ? Hx HN']; subst.
  constructor; [apply IH; assumption|].
  rewrite Forall_forall in *. intros a Ha. specialize (HF a Ha).
  assert (a <> x) by (intros ->; contradiction). lia.
Qed.

Lemma sort_nodup l : NoDup l -> NoDup (sort l).
Proof. intros H. eapply Permutation_NoDup; [symmetry; apply sort_perm | exact H]. Qed.

Lemma NoDup_app_disjoint {A} (a b : list A) : NoDup (a ++ b) -> forall x, In x a -> ~ In x b.
Proof.
  induction a as [|y a IH]; intros HN x Hx; [contradiction|].
  cbn [app] in HN. inversion HN as [|? ? Hy HN']; subst.
  destruct Hx as [->|Hx].
  - intros Hb. apply Hy. apply in_or_app. right. exact Hb.
  - apply IH; assumption.
Qed.

(* ================================================================================================ *)
(* segments                                                                                         *)
(* ================================================================================================ *)
Lemma firstn_add {A} (a b : nat) (l : list A) :
  firstn (a + b) l = firstn a l ++ firstn b (skipn a l).
Proof.
  revert l. induction a as [|a IH]; intros l; [reflexivity|].
  destruct l as [|x l]; [cbn; rewrite firstn_nil; reflexivity|].
  cbn [Nat.add firstn skipn app]. f_equal. apply IH.
Qed.

Lemma zfirstn_add a b l : 0 <= a -> 0 <= b -> zfirstn (a + b) l = zfirstn a l ++ zfirstn b (zskipn a l).
Proof.
  intros Ha Hb. unfold zfirstn, zskipn. rewrite Z2Nat.inj_add by assumption. apply firstn_add.
Qed.

Lemma zfirstn_all n l : zlen l <= n -> zfirstn n l = l.
Proof. unfold zfirstn, zlen. intros H. apply firstn_all2. lia. Qed.

Lemma zfirstn_0 l : zfirstn 0 l = [].
Proof. reflexivity. Qed.

Lemma zskipn_0 l : zskipn 0 l = l.
Proof. reflexivity. Qed.

Lemma zskipn_length n l : 0 <= n <= zlen l -> zlen (zskipn n l) = zlen l - n.
Proof. unfold zskipn, zlen. intros H. rewrite skipn_length. lia. Qed.

Lemma zfirstn_length n l : 0 <= n <= zlen l -> zlen (zfirstn n l) = n.
Proof. unfold zfirstn, zlen. intros H. rewrite firstn_length_le; lia. Qed.

Lemma zfirstn_zskipn n l : zfirstn n l ++ zskipn n l = l.
Proof. apply firstn_skipn. Qed.

Lemma seg_length s n l : 0 <= s -> 0 <= n -> s + n <= zlen l -> zlen (seg s n l) = n.
Proof.
  intros Hs Hn H. unfold seg. rewrite zfirstn_length; [reflexivity|].
  rewrite zskipn_length; lia.
Qed.

Lemma seg_to_end s l : 0 <= s <= zlen l -> seg s (zlen l - s) l = zskipn s l.
Proof.
  intros H. unfold seg. apply zfirstn_all. rewrite zskipn_length; lia.
Qed.

Lemma seg_from_0 n l : seg 0 n l = zfirstn n l.
Proof. reflexivity. Qed.

(* three consecutive segments tile the list *)
Lemma seg_tile a b l : 0 <= a <= b -> b <= zlen l ->
  l = zfirstn a l ++ seg a (b - a) l ++ zskipn b l.
Proof.
  intros Hab Hb. unfold seg.
  rewrite app_assoc, <- zfirstn_add by lia. replace (a + (b - a)) with b by lia.
  symmetry. apply zfirstn_zskipn.
Qed.

Lemma zlen_nonneg l : 0 <= zlen l.
Proof. unfold zlen. lia. Qed.

Lemma zlen_perm l l' : Permutation l l' -> zlen l = zlen l'.
Proof. unfold zlen. intros H. rewrite (Permutation_length H). reflexivity. Qed.

Lemma zrange_from_length a n : length (zrange_from a n) = Z.to_nat n.
Proof. unfold zrange_from. rewrite map_length, seq_length. reflexivity. Qed.

Lemma in_zrange_from a n x : In x (zrange_from a n) <-> a <= x < a + n.
Proof.
  unfold zrange_from. rewrite in_map_iff. split.
  - intros [i [<- Hi]]. apply in_seq in Hi. lia.
  - intros H. exists (Z.to_nat (x - a)). split; [lia|]. apply in_seq. lia.
Qed.

(* ================================================================================================ *)
(* k-fold geometry (this is where the translated expressions are used)                              *)
(* ================================================================================================ *)
Definition kf_c (n folds : Z) : Z := n / folds.
Definition kf_vb (n folds fold : Z) : Z := fold * kf_c n folds.
Definition kf_ve (n folds fold : Z) : Z :=
  if fold + 1 <? folds then kf_vb n folds fold + kf_c n folds else n.

Lemma kfold_geom_eq n folds fold : 0 <= n -> 1 <= folds ->
  kfold_geom n folds fold =
  let vb := kf_vb n folds fold in
  let ve := kf_ve n folds fold in
  {| kg_chunk := kf_c n folds; kg_vb := vb; kg_ve := ve; kg_vsize := ve - vb; kg_tsize := n - (ve - vb);
     kg_valid_src := (vb, ve - vb); kg_head_dst := (0, vb); kg_head_src := (0, vb);
     kg_tail_dst := (vb, n - (ve - vb) - vb); kg_tail_src := (ve, n - ve) |}.
Proof.
  intros Hn Hf. unfold kfold_geom, kf_ve, kf_vb, kf_c. unfold_src.
  rewrite Z.quot_div_nonneg by lia. reflexivity.
Qed.

Lemma kfold_bounds n folds fold : 0 <= n -> 1 <= folds -> 0 <= fold < folds ->
  0 <= kf_c n folds /\ 0 <= kf_vb n folds fold /\ kf_vb n folds fold <= kf_ve n folds fold /\
  kf_ve n folds fold <= n.
Proof.
  intros Hn Hf Hfold. unfold kf_ve, kf_vb.
  assert (Hc : 0 <= kf_c n folds) by (unfold kf_c; apply Z.div_pos; lia).
  assert (Hm : folds * kf_c n folds <= n) by (unfold kf_c; apply Z.mul_div_le; lia).
  destruct (fold + 1 <? folds) eqn:E; [apply Z.ltb_lt in E | apply Z.ltb_ge in E]; nia.
Qed.

(* size of the validation part of fold `fold`: the chunk, the last fold also takes the remainder *)
Lemma kfold_vsize n folds fold : 0 <= n -> 1 <= folds -> 0 <= fold < folds ->
  kf_ve n folds fold - kf_vb n folds fold =
  if fold + 1 <? folds then n / folds else n / folds + n mod folds.
Proof.
  intros Hn Hf Hfold. unfold kf_ve, kf_vb, kf_c.
  destruct (fold + 1 <? folds) eqn:E; [lia|]. apply Z.ltb_ge in E.
  assert (fold = folds - 1) by lia. subst fold.
  pose proof (Z.div_mod n folds ltac:(lia)). nia.
Qed.

Lemma kfold_layout_ok n folds fold : 0 <= n -> 1 <= folds -> 0 <= fold < folds ->
  kfold_layoutb n folds fold = true.
Proof.
  intros Hn Hf Hfold. unfold kfold_layoutb. rewrite kfold_geom_eq by assumption.
  cbv zeta. cbn [kg_vsize kg_tsize kg_valid_src kg_head_dst kg_head_src kg_tail_dst kg_tail_src fst snd].
  unfold in_bounds. cbn [fst snd].
  destruct (kfold_bounds n folds fold Hn Hf Hfold) as (Hc & Hvb & Hle & Hve).
  repeat (apply andb_true_intro; split); try (apply Z.leb_le; lia); apply Z.eqb_eq; lia.
Qed.

Lemma kfold_one_eq w folds fold : 1 <= folds -> 0 <= fold < folds ->
  kfold_one w folds fold =
  (sort (zfirstn (kf_vb (zlen w) folds fold) w ++ zskipn (kf_ve (zlen w) folds fold) w),
   sort (seg (kf_vb (zlen w) folds fold) (kf_ve (zlen w) folds fold - kf_vb (zlen w) folds fold) w)).
Proof.
  intros Hf Hfold. unfold kfold_one. rewrite kfold_geom_eq by (try apply zlen_nonneg; assumption).
  cbv zeta. cbn [kg_valid_src kg_head_src kg_tail_src fst snd].
  destruct (kfold_bounds (zlen w) folds fold (zlen_nonneg w) Hf Hfold) as (Hc & Hvb & Hle & Hve).
  rewrite seg_from_0, seg_to_end by lia. reflexivity.
Qed.

Lemma kfold_one_perm w folds fold : 1 <= folds -> 0 <= fold < folds ->
  Permutation
    (sort (zfirstn (kf_vb (zlen w) folds fold) w ++ zskipn (kf_ve (zlen w) folds fold) w) ++
     sort (seg (kf_vb (zlen w) folds fold) (kf_ve (zlen w) folds fold - kf_vb (zlen w) folds fold) w)) w.
Proof.
  intros Hf Hfold.
  destruct (kfold_bounds (zlen w) folds fold (zlen_nonneg w) Hf Hfold) as (Hc & Hvb & Hle & Hve).
  rewrite !sort_perm.
  set (a := kf_vb (zlen w) folds fold) in *. set (b := kf_ve (zlen w) folds fold) in *.
  pose proof (seg_tile a b w ltac:(lia) ltac:(lia)) as T.
  apply Permutation_trans with (zfirstn a w ++ seg a (b - a) w ++ zskipn b w); [|rewrite <- T; reflexivity].
  rewrite <- app_assoc. apply Permutation_app_head. apply Permutation_app_comm.
Qed.

Lemma kfold_one_valid_length w folds fold : 1 <= folds -> 0 <= fold < folds ->
  zlen (snd (kfold_one w folds fold)) =
  if fold + 1 <? folds then zlen w / folds else zlen w / folds + zlen w mod folds.
Proof.
  intros Hf Hfold. rewrite kfold_one_eq by assumption. cbn [snd].
  destruct (kfold_bounds (zlen w) folds fold (zlen_nonneg w) Hf Hfold) as (Hc & Hvb & Hle & Hve).
  rewrite (zlen_perm _ _ (sort_perm _)). rewrite seg_length by lia.
  apply kfold_vsize; try assumption. apply zlen_nonneg.
Qed.

(* the validation parts of folds 0..m-1 (m < folds) concatenate to the first m*chunk elements *)
Lemma kfold_valid_prefix w folds (m : nat) : 1 <= folds -> Z.of_nat m < folds ->
  concat (map (fun f => seg (kf_vb (zlen w) folds f) (kf_ve (zlen w) folds f - kf_vb (zlen w) folds f) w)
              (zrange_from 0 (Z.of_nat m))) =
  zfirstn (Z.of_nat m * kf_c (zlen w) folds) w.
Proof.
  intros Hf. unfold zrange_from. rewrite Nat2Z.id.
  induction m as [|m IH]; intros Hm; [reflexivity|].
  rewrite seq_S, !map_app, concat_app, IH by lia. cbn [map concat Nat.add]. rewrite app_nil_r.
  assert (Hc : 0 <= kf_c (zlen w) folds) by (unfold kf_c; apply Z.div_pos; [apply zlen_nonneg | lia]).
  replace (Z.of_nat (S m) * kf_c (zlen w) folds) with (Z.of_nat m * kf_c (zlen w) folds + kf_c (zlen w) folds) by lia.
  rewrite zfirstn_add by lia. f_equal.
  unfold seg, kf_ve, kf_vb. replace (0 + Z.of_nat m + 1 <? folds) with true by (symmetry; apply Z.ltb_lt; lia).
  replace (0 + Z.of_nat m) with (Z.of_nat m) by lia.
  f_equal. lia.
Qed.

Lemma concat_map_sort_perm {A} (g : A -> list Z) (fs : list A) :
  Permutation (concat (map (fun f => sort (g f)) fs)) (concat (map g fs)).
Proof.
  induction fs as [|f fs IH]; [reflexivity|]. cbn [map concat].
  apply Permutation_app; [apply sort_perm | exact IH].
Qed.

Lemma kfold_valid_concat w folds : 1 <= folds ->
  Permutation (concat (map (fun f => snd (kfold_one w folds f)) (zrange_from 0 folds))) w.
Proof.
  intros Hf.
  assert (E : map (fun f => snd (kfold_one w folds f)) (zrange_from 0 folds) =
              map (fun f => sort (seg (kf_vb (zlen w) folds f) (kf_ve (zlen w) folds f - kf_vb (zlen w) folds f) w))
                  (zrange_from 0 folds)).
  { apply map_ext_in. intros f Hin. apply in_zrange_from in Hin.
    rewrite kfold_one_eq by lia. reflexivity. }
  rewrite E. rewrite (concat_map_sort_perm (fun f => seg (kf_vb (zlen w) folds f) (kf_ve (zlen w) folds f - kf_vb (zlen w) folds f) w)).
  (* split the range into folds-1 regular folds and the last one *)
  set (m := Z.to_nat (folds - 1)).
  assert (Hm : folds = Z.of_nat (S m)) by lia.
  assert (R : zrange_from 0 folds = zrange_from 0 (Z.of_nat m) ++ [Z.of_nat m]).
  { unfold zrange_from. rewrite Hm, !Nat2Z.id, seq_S, map_app. reflexivity. }
  rewrite R, map_app, concat_app, kfold_valid_prefix by lia.
  cbn [map concat]. rewrite app_nil_r.
  assert (Hlast : 0 <= Z.of_nat m < folds) by lia.
  destruct (kfold_bounds (zlen w) folds (Z.of_nat m) (zlen_nonneg w) Hf Hlast) as (Hc & Hvb & Hle & Hve).
  assert (Eve : kf_ve (zlen w) folds (Z.of_nat m) = zlen w).
  { unfold kf_ve. replace (Z.of_nat m + 1 <? folds) with false; [reflexivity|]. symmetry. apply Z.ltb_ge. lia. }
  rewrite Eve in *. rewrite seg_to_end by lia. unfold kf_vb.
  rewrite zfirstn_zskipn. reflexivity.
Qed.

(* ================================================================================================ *)
(* the splitters, for every shuffle that permutes                                                   *)
(* ================================================================================================ *)
Definition disjoint (a b : list Z) : Prop := forall x, In x a -> ~ In x b.

(* what a (training, validation) pair must satisfy with respect to the input l *)
Definition good_pair (l tr va : list Z) : Prop :=
  Permutation (tr ++ va) l /\ disjoint tr va /\ sorted tr /\ sorted va.

Lemma good_pair_of_perm l w a b :
  Permutation w l -> NoDup l -> Permutation (sort a ++ sort b) w -> good_pair l (sort a) (sort b).
Proof.
  intros Hw HN HP. unfold good_pair.
  assert (HPl : Permutation (sort a ++ sort b) l) by (rewrite HP; exact Hw).
  split; [exact HPl|]. split; [|split; apply sort_sorted].
  unfold disjoint. apply NoDup_app_disjoint. eapply Permutation_NoDup; [symmetry; exact HPl | exact HN].
Qed.

(* ---- random splitter arithmetic ---- *)
Definition rs_ts (n perc : Z) : Z := (perc * n + 50) / 100.

Lemma rs_ts_bounds n perc : 0 <= n -> 0 <= perc <= 100 -> 0 <= rs_ts n perc <= n.
Proof.
  intros Hn Hp. unfold rs_ts. assert (Hm : 0 <= perc * n <= 100 * n) by nia.
  generalize dependent (perc * n). intros m Hm.
  pose proof (Z.div_mod (m + 50) 100 ltac:(lia)). pose proof (Z.mod_pos_bound (m + 50) 100 ltac:(lia)). lia.
Qed.

(* round-half-up of perc*n/100 *)
Lemma rs_ts_round n perc : 100 * rs_ts n perc <= perc * n + 50 < 100 * rs_ts n perc + 100.
Proof.
  unfold rs_ts. generalize (perc * n). intros m.
  pose proof (Z.div_mod (m + 50) 100 ltac:(lia)). pose proof (Z.mod_pos_bound (m + 50) 100 ltac:(lia)). lia.
Qed.

Lemma random_sizes_eq n folds fold perc : 0 <= n -> 0 <= perc ->
  src_random_train_size n folds fold perc = rs_ts n perc.
Proof.
  intros Hn Hp. unfold_src. unfold rs_ts. change (Z.quot 100 2) with 50.
  apply Z.quot_div_nonneg; nia.
Qed.

Lemma random_one_eq cur n folds fold perc : 0 <= n -> 0 <= perc ->
  random_one cur n folds fold perc =
  (sort (seg 0 (rs_ts n perc) cur), sort (seg (rs_ts n perc) (n - rs_ts n perc) cur)).
Proof.
  intros Hn Hp. unfold random_one. rewrite random_sizes_eq by assumption. unfold_src. reflexivity.
Qed.

Lemma random_layout_ok n folds fold perc : 0 <= n -> 0 <= perc <= 100 -> random_layoutb n folds fold perc = true.
Proof.
  intros Hn Hp. unfold random_layoutb. rewrite random_sizes_eq by lia.
  pose proof (rs_ts_bounds n perc Hn Hp). unfold_src. unfold in_bounds. cbn [fst snd].
  repeat (apply andb_true_intro; split); try (apply Z.leb_le; lia); apply Z.eqb_eq; lia.
Qed.

Lemma in_firstn {A} (x : A) n l : In x (firstn n l) -> In x l.
Proof. intros H. rewrite <- (firstn_skipn n l). apply in_or_app. left. exact H. Qed.

Lemma NoDup_app_left {A} (a b : list A) : NoDup (a ++ b) -> NoDup a.
Proof.
  induction a as [|x a IH]; intros H; [constructor|].
  cbn [app] in H. inversion H as [|? ? Hx HN]; subst. constructor; [|apply IH; exact HN].
  intros Hin. apply Hx. apply in_or_app. left. exact Hin.
Qed.

Lemma NoDup_firstn {A} n (l : list A) : NoDup l -> NoDup (firstn n l).
Proof. intros H. rewrite <- (firstn_skipn n l) in H. eapply NoDup_app_left. exact H. Qed.

Section WithShuffle.
  Variable shuffle : Z -> nat -> list Z -> list Z.
  Hypothesis shuffle_perm : forall s c l, Permutation (shuffle s c l) l.

  Lemma kfold_unfold seed folds l :
    kfold shuffle seed folds l = map (kfold_one (shuffle seed 0%nat l) folds) (zrange_from 0 folds).
  Proof. reflexivity. Qed.

  Lemma p_kfold_count seed folds l : 0 <= folds -> Z.of_nat (length (kfold shuffle seed folds l)) = folds.
  Proof. intros H. rewrite kfold_unfold, map_length, zrange_from_length. lia. Qed.

  Lemma kfold_in seed folds l tr va : In (tr, va) (kfold shuffle seed folds l) ->
    exists fold, 0 <= fold < folds /\ (tr, va) = kfold_one (shuffle seed 0%nat l) folds fold.
  Proof.
    rewrite kfold_unfold, in_map_iff. intros [f [E Hin]]. apply in_zrange_from in Hin.
    exists f. split; [lia | symmetry; exact E].
  Qed.

  (* every (training, validation) pair: disjoint, sorted, together exactly the input *)
  Lemma p_kfold_pair seed folds l tr va :
    NoDup l -> 1 <= folds -> In (tr, va) (kfold shuffle seed folds l) -> good_pair l tr va.
  Proof.
    intros HN Hf Hin. destruct (kfold_in _ _ _ _ _ Hin) as [fold [Hfold E]].
    rewrite kfold_one_eq in E by assumption. injection E as -> ->.
    eapply good_pair_of_perm; [apply shuffle_perm | exact HN |].
    apply kfold_one_perm; assumption.
  Qed.

  (* the validation parts partition the input ... *)
  Lemma p_kfold_partition seed folds l : 1 <= folds ->
    Permutation (concat (map snd (kfold shuffle seed folds l))) l.
  Proof.
    intros Hf. rewrite kfold_unfold, map_map.
    rewrite kfold_valid_concat by assumption. apply shuffle_perm.
  Qed.

  (* ... with these sizes, fold by fold: n/k, and the last one n/k + n mod k *)
  Lemma p_kfold_valid_sizes seed folds l : 1 <= folds ->
    map (fun p => zlen (snd p)) (kfold shuffle seed folds l) =
    map (fun f => if f + 1 <? folds then zlen l / folds else zlen l / folds + zlen l mod folds)
        (zrange_from 0 folds).
  Proof.
    intros Hf. rewrite kfold_unfold, map_map. apply map_ext_in. intros f Hin.
    apply in_zrange_from in Hin. rewrite kfold_one_valid_length by lia.
    rewrite (zlen_perm _ _ (shuffle_perm seed 0%nat l)). reflexivity.
  Qed.

  Lemma p_kfold_valid_sizes_close seed folds l : 1 <= folds ->
    Forall (fun p => zlen l / folds <= zlen (snd p) < zlen l / folds + folds) (kfold shuffle seed folds l).
  Proof.
    intros Hf. rewrite kfold_unfold. apply Forall_forall. intros p Hin.
    apply in_map_iff in Hin. destruct Hin as [f [<- Hin]]. apply in_zrange_from in Hin.
    rewrite kfold_one_valid_length by lia.
    rewrite (zlen_perm _ _ (shuffle_perm seed 0%nat l)).
    pose proof (Z.mod_pos_bound (zlen l) folds ltac:(lia)).
    destruct (f + 1 <? folds); lia.
  Qed.

  (* ---- random splitter ---- *)
  Lemma random_loop_length seed todo : forall call cur n folds perc,
    length (random_loop shuffle seed call todo cur n folds perc) = todo.
  Proof. induction todo as [|m IH]; intros; cbn [random_loop length]; [reflexivity|]. rewrite IH. reflexivity. Qed.

  Lemma p_random_count seed folds perc l : 0 <= folds ->
    Z.of_nat (length (random_split shuffle seed folds perc l)) = folds.
  Proof. intros H. unfold random_split. rewrite random_loop_length. lia. Qed.

  Lemma random_loop_in seed todo : forall call cur n folds perc p,
    In p (random_loop shuffle seed call todo cur n folds perc) ->
    exists cur' fold, Permutation cur' cur /\ p = random_one cur' n folds fold perc.
  Proof.
    induction todo as [|m IH]; intros call cur n folds perc p Hin; [contradiction|].
    cbn [random_loop] in Hin. destruct Hin as [<-|Hin].
    - exists (shuffle seed call cur), (Z.of_nat call). split; [apply shuffle_perm | reflexivity].
    - destruct (IH _ _ _ _ _ _ Hin) as (cur' & fold & HP & E).
      exists cur', fold. split; [|exact E]. rewrite HP. apply shuffle_perm.
  Qed.

  Lemma p_random_pair seed folds perc l tr va :
    NoDup l -> 0 <= perc <= 100 -> In (tr, va) (random_split shuffle seed folds perc l) ->
    good_pair l tr va /\ zlen tr = rs_ts (zlen l) perc /\ zlen va = zlen l - rs_ts (zlen l) perc.
  Proof.
    intros HN Hp Hin. unfold random_split in Hin.
    destruct (random_loop_in _ _ _ _ _ _ _ _ Hin) as (cur & fold & HP & E).
    rewrite random_one_eq in E by (try apply zlen_nonneg; lia).
    injection E as -> ->.
    pose proof (zlen_perm _ _ HP) as Hlen. rewrite <- Hlen.
    pose proof (rs_ts_bounds (zlen cur) perc (zlen_nonneg cur) Hp) as Hb.
    split; [|split].
    - eapply good_pair_of_perm; [exact HP | exact HN |].
      rewrite !sort_perm, seg_from_0. rewrite seg_to_end by lia.
      rewrite zfirstn_zskipn. reflexivity.
    - rewrite (zlen_perm _ _ (sort_perm _)). apply seg_length; lia.
    - rewrite (zlen_perm _ _ (sort_perm _)). apply seg_length; lia.
  Qed.

  (* ---- sample_without_replacement ---- *)
  Lemma p_sample_without seed call count l : NoDup l -> 0 <= count <= zlen l ->
    let r := sample_without shuffle seed call count l in
    zlen r = count /\ ssorted r /\ (forall x, In x r -> In x l).
  Proof.
    intros HN Hc r. subst r. unfold sample_without. unfold_src.
    replace (count - 0) with count by lia. rewrite seg_from_0.
    pose proof (shuffle_perm seed call l) as HP. pose proof (zlen_perm _ _ HP) as Hlen.
    split; [|split].
    - rewrite (zlen_perm _ _ (sort_perm _)). apply zfirstn_length. lia.
    - apply sorted_nodup_strict; [apply sort_sorted|]. apply sort_nodup. apply NoDup_firstn.
      eapply Permutation_NoDup; [symmetry; exact HP | exact HN].
    - intros x Hx. apply (proj1 (sort_in _ _)) in Hx. apply in_firstn in Hx.
      eapply Permutation_in; [exact HP | exact Hx].
  Qed.
End WithShuffle.

(* equal seeds give equal splits: the result depends on the generator only through what std::shuffle
   answers for this seed *)
Lemma random_loop_ext sh1 sh2 seed : (forall c l, sh1 seed c l = sh2 seed c l) ->
  forall todo call cur n folds perc,
  random_loop sh1 seed call todo cur n folds perc = random_loop sh2 seed call todo cur n folds perc.
Proof.
  intros H. induction todo as [|m IH]; intros; cbn [random_loop]; [reflexivity|].
  rewrite H, IH. reflexivity.
Qed.

Lemma p_deterministic sh1 sh2 seed : (forall c l, sh1 seed c l = sh2 seed c l) ->
  forall folds perc l count call,
  kfold sh1 seed folds l = kfold sh2 seed folds l /\
  random_split sh1 seed folds perc l = random_split sh2 seed folds perc l /\
  sample_without sh1 seed call count l = sample_without sh2 seed call count l.
Proof.
  intros H folds perc l count call. split; [|split].
  - unfold kfold. rewrite H. reflexivity.
  - unfold random_split. apply random_loop_ext. exact H.
  - unfold sample_without. rewrite H. reflexivity.
Qed.

(* ================================================================================================ *)
(* the executable shuffle oracle satisfies the contract for every answer                            *)
(* ================================================================================================ *)
Lemma list_eqb_eq a : forall b, list_eqb a b = true -> a = b.
Proof.
  induction a as [|x a IH]; intros [|y b] H; cbn [list_eqb] in H; try discriminate; [reflexivity|].
  apply andb_true_iff in H. destruct H as [H1 H2]. apply Z.eqb_eq in H1. subst y. f_equal. apply IH. exact H2.
Qed.

Lemma map_nth_seq (l : list Z) : map (fun i => nth i l 0) (seq 0 (length l)) = l.
Proof.
  induction l as [|x l IH]; [reflexivity|].
  cbn [length seq map nth]. f_equal. rewrite <- seq_shift, map_map. exact IH.
Qed.

Lemma apply_perm_range l : apply_perm (zrange (zlen l)) l = l.
Proof.
  unfold apply_perm, zrange, zrange_from, zlen. rewrite Nat2Z.id, map_map.
  transitivity (map (fun i => nth i l 0) (seq 0 (length l))); [|apply map_nth_seq].
  apply map_ext. intros i. f_equal. lia.
Qed.

Lemma perm_okb_sound p l : perm_okb p (length l) = true -> Permutation (apply_perm p l) l.
Proof.
  unfold perm_okb. intros H. apply list_eqb_eq in H.
  assert (HP : Permutation p (zrange (zlen l))) by (unfold zlen; rewrite <- H; symmetry; apply sort_perm).
  apply Permutation_trans with (apply_perm (zrange (zlen l)) l); [|rewrite apply_perm_range; reflexivity].
  unfold apply_perm. apply Permutation_map. exact HP.
Qed.

Lemma shuffle_by_perm oracle s c l : Permutation (shuffle_by oracle s c l) l.
Proof.
  unfold shuffle_by. destruct (perm_okb (oracle s c) (length l)) eqn:E; [|reflexivity].
  apply perm_okb_sound. exact E.
Qed.

(* ================================================================================================ *)
(* sampling with replacement                                                                        *)
(* ================================================================================================ *)
Lemma p_sample_with picks l count :
  picks_in_rangeb (zlen l) count picks = true -> zlen picks = src_sample_swr_alloc (zlen l) count ->
  let r := sample_with picks l in
  zlen r = count /\ sorted r /\ (forall x, In x r -> In x l).
Proof.
  intros HR HL r. subst r. unfold sample_with. unfold_src. split; [|split].
  - rewrite (zlen_perm _ _ (sort_perm _)). unfold zlen in *. rewrite map_length. exact HL.
  - apply sort_sorted.
  - intros x Hx. apply (proj1 (sort_in _ _)) in Hx. apply in_map_iff in Hx. destruct Hx as [i [<- Hi]].
    unfold picks_in_rangeb in HR. unfold_src. rewrite forallb_forall in HR. specialize (HR i Hi).
    apply andb_true_iff in HR. destruct HR as [H1 H2]. apply Z.leb_le in H1, H2.
    apply nth_In. unfold zlen in *. lia.
Qed.

Lemma sample_with_in x picks l : In x (sample_with picks l) ->
  exists i, nth (Z.to_nat i) l 0 = x /\ In i picks.
Proof.
  unfold sample_with. intros Hx. apply (proj1 (sort_in _ _)) in Hx. apply in_map_iff in Hx. exact Hx.
Qed.

Lemma p_sample_weighted picks l wpos :
  length wpos = length l -> picks_weightedb wpos picks = true ->
  forall x, In x (sample_with picks l) ->
  exists i, (i < length l)%nat /\ nth i l 0 = x /\ nth i wpos false = true.
Proof.
  intros HL HW x Hx. apply sample_with_in in Hx.
  destruct Hx as [i [E Hi]]. unfold picks_weightedb in HW. rewrite forallb_forall in HW.
  specialize (HW i Hi). apply andb_true_iff in HW. destruct HW as [HW H3].
  apply andb_true_iff in HW. destruct HW as [H1 H2]. apply Z.leb_le in H1. apply Z.ltb_lt in H2.
  exists (Z.to_nat i). split; [lia|]. split; [exact E | exact H3].
Qed.

(* no position of zero weight is ever returned (positions are identified by their index value: NoDup) *)
Lemma p_sample_weighted_support picks l wpos (j : nat) :
  NoDup l -> length wpos = length l -> picks_weightedb wpos picks = true ->
  (j < length l)%nat -> nth j wpos false = false -> ~ In (nth j l 0) (sample_with picks l).
Proof.
  intros HN HL HW Hj Hz Hin.
  destruct (p_sample_weighted picks l wpos HL HW _ Hin) as (i & Hi & E & Hw).
  assert (i = j) by (eapply NoDup_nth; eauto). subst i. congruence.
Qed.

(* ================================================================================================ *)
(* verified checkers (applied by the driver to what the implementation returned)                    *)
(* ================================================================================================ *)
Lemma sortedb_sound l : sortedb l = true -> sorted l.
Proof.
  intros H. apply Sorted_StronglySorted; [intros a b c; apply Z.le_trans|].
  induction l as [|x r IH]; [constructor|].
  cbn [sortedb] in H. destruct r as [|y r']; [repeat constructor|].
  apply andb_true_iff in H. destruct H as [H1 H2]. apply Z.leb_le in H1.
  constructor; [apply IH; exact H2 | constructor; exact H1].
Qed.

Lemma strictb_sound l : strictb l = true -> ssorted l.
Proof.
  intros H. apply Sorted_StronglySorted; [intros a b c; apply Z.lt_trans|].
  induction l as [|x r IH]; [constructor|].
  cbn [strictb] in H. destruct r as [|y r']; [repeat constructor|].
  apply andb_true_iff in H. destruct H as [H1 H2]. apply Z.ltb_lt in H1.
  constructor; [apply IH; exact H2 | constructor; exact H1].
Qed.

Lemma ssorted_nodup l : ssorted l -> NoDup l.
Proof.
  induction 1 as [|x r HS IH HF]; constructor; [|exact IH].
  intros Hin. rewrite Forall_forall in HF. specialize (HF x Hin). lia.
Qed.

Lemma split_okb_sound l tr va : split_okb l tr va = true -> good_pair l tr va.
Proof.
  unfold split_okb. intros H.
  apply andb_true_iff in H. destruct H as [H H4]. apply andb_true_iff in H. destruct H as [H H3].
  apply andb_true_iff in H. destruct H as [H1 H2].
  apply list_eqb_eq in H3.
  assert (HP : Permutation (tr ++ va) l).
  { rewrite <- (merge_perm tr va), H3. apply sort_perm. }
  split; [exact HP|]. split; [|split; apply sortedb_sound; assumption].
  unfold disjoint. apply NoDup_app_disjoint. eapply Permutation_NoDup; [apply merge_perm|].
  apply ssorted_nodup, strictb_sound. exact H4.
Qed.

Lemma membersb_sound s u : membersb s u = true -> forall x, In x s -> In x u.
Proof.
  unfold membersb. rewrite forallb_forall. intros H x Hx. specialize (H x Hx).
  apply existsb_exists in H. destruct H as [y [Hy E]]. apply Z.eqb_eq in E. subst y. exact Hy.
Qed.

(* ================================================================================================ *)
(* the statements of Properties_C12 that combine several lemmas                                      *)
(* ================================================================================================ *)
Definition permutes (shuffle : Z -> nat -> list Z -> list Z) : Prop :=
  forall s c l, Permutation (shuffle s c l) l.

Lemma s_kfold_sizes : forall shuffle, permutes shuffle -> forall seed folds l,
  1 <= folds ->
  map (fun p => zlen (snd p)) (kfold shuffle seed folds l) =
  map (fun f => if f + 1 <? folds then zlen l / folds else zlen l / folds + zlen l mod folds) (zrange folds) /\
  Forall (fun p => zlen l / folds <= zlen (snd p) < zlen l / folds + folds) (kfold shuffle seed folds l).
Proof.
  intros shuffle H seed folds l Hf. split.
  - exact (p_kfold_valid_sizes shuffle H seed folds l Hf).
  - exact (p_kfold_valid_sizes_close shuffle H seed folds l Hf).
Qed.

Lemma s_random_pair : forall shuffle, permutes shuffle -> forall seed folds perc l tr va,
  NoDup l -> 0 <= perc <= 100 -> In (tr, va) (random_split shuffle seed folds perc l) ->
  Permutation (tr ++ va) l /\ (forall x, In x tr -> ~ In x va) /\
  StronglySorted Z.le tr /\ StronglySorted Z.le va.
Proof.
  intros shuffle H seed folds perc l tr va HN Hp Hin.
  exact (proj1 (p_random_pair shuffle H seed folds perc l tr va HN Hp Hin)).
Qed.

Lemma s_random_size : forall shuffle, permutes shuffle -> forall seed folds perc l tr va,
  NoDup l -> 0 <= perc <= 100 -> In (tr, va) (random_split shuffle seed folds perc l) ->
  let t := zlen tr in
  t = (perc * zlen l + 50) / 100 /\ zlen va = zlen l - t /\
  100 * t <= perc * zlen l + 50 < 100 * t + 100 /\ 0 <= t <= zlen l.
Proof.
  intros shuffle H seed folds perc l tr va HN Hp Hin.
  destruct (p_random_pair shuffle H seed folds perc l tr va HN Hp Hin) as (_ & Ht & Hv).
  cbv zeta. rewrite Ht, Hv. unfold rs_ts. repeat split; try reflexivity;
    try apply (rs_ts_round (zlen l) perc); try apply (rs_ts_bounds (zlen l) perc (zlen_nonneg l) Hp).
Qed.

Lemma s_weighted_support : forall picks l wpos,
  NoDup l -> length wpos = length l -> picks_weightedb wpos picks = true ->
  (forall x, In x (sample_with picks l) ->
     exists i, (i < length l)%nat /\ nth i l 0 = x /\ nth i wpos false = true) /\
  (forall j, (j < length l)%nat -> nth j wpos false = false -> ~ In (nth j l 0) (sample_with picks l)).
Proof.
  intros picks l wpos HN HL HW. split.
  - exact (p_sample_weighted picks l wpos HL HW).
  - intros j. exact (p_sample_weighted_support picks l wpos j HN HL HW).
Qed.
