(* extraction of the executable C02/C01 model; binary64 operations map to OCaml's native floats (ExtrOCamlFloats),
   Z/nat/positive stay inductives *)
From Coq Require Import List ZArith Floats Extraction ExtrOcamlBasic ExtrOCamlFloats.
From LN Require Import C02_Defs.
Extraction Language OCaml.
Extraction "extracted/c02_model.ml" ffin fmax maxabs feq veq valid gradient_test_of gradient_test update
  update_if_better update_if_better2 value_test done_step step run init_state init_world budget_loop
  ev_after event_ok accept_first accept_events accept_return accept same_state is_ls ls_flag_ok last2 vnan value_test_ref done_ref first_impr.
