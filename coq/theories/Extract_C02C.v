(* extraction of the third C02 extension: the bodies of ellipsoid / osga / pgm / dgm / fgm / asga2 / asga4 as whole runs
   (C02_Bodies2_Defs.v); ell_ref_step is C03's deep-cut update (C03_Defs.en_step) over the binary64 operations *)
From Coq Require Import Extraction ExtrOcamlBasic ExtrOCamlFloats.
From LN Require Import C02_Defs C02_Bodies_Defs C02_Bodies2_Defs.
Extraction "extracted/c02c_model.ml" body2_run body2_minimize b2_fuel body2_of_Z pass_bound valid value_test_ref maxabs
  gradient_test ell_ref_step ell_H0 ell1_gHg pgm_cap dgm_cap fgm_cap asga2_cap asga4_cap osga_run os_E.
