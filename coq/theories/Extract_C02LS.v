(* extraction of the executable model of the line-search solver loop (C02 extension): C02_LsLoop_Defs on top of
   C02_Defs (state, done) and C07_Defs (line searches); binary64 = OCaml floats (ExtrOCamlFloats) *)
From Coq Require Import List ZArith Floats Extraction ExtrOcamlBasic ExtrOCamlFloats.
From LN Require Import C02_Defs C02_LsLoop_Defs.
From LN Require C07_Defs.
Extraction Language OCaml.
Extraction "extracted/c02ls_model.ml" ls_solver_run ls_result ls_minimize ls_fuel ls_iter ls_init body_of_Z armijo_type
  axpy vneg valid gradient_test C07_Defs.alg_of_Z C07_Defs.has_armijo C07_Defs.has_descent.
