(* C17 -- the order in which two concurrent events of different threads were logged is immaterial when at
   least one of them is emitted outside the queue mutex ("lock-free") and they are not both actions on the
   condition variable.  The model (C17_Defs.step) makes every mutex-protected block one atomic step and the
   tie to the implementation linearises the hook events by a global sequence number: events emitted inside
   the mutex are ordered by the mutex, the order of the others is an artefact of the log.  The theorems below
   show that this artefact cannot change acceptance of a trace nor the state it ends in (up to the order in
   which concurrent completions were appended to `finished` / `inline`). *)
From Coq Require Import List Arith Bool Lia Permutation ZArith.
From LN Require Import C17_Defs C17_Proofs.
Import ListNotations.

(* ---- definitions ---------------------------------------------------------------------------------- *)
Inductive actor := ASub (s : sid) | AWorker (w : wid).

Definition actor_of (e : event) : actor :=
  match e with
  | EPush s | ENotify s _ | EGet s | EWait s | EStop s | ENotifyStop s | EJoin s => ASub s
  | ECheck w | EFinish w | ESpurious w => AWorker w
  end.

(* events emitted outside the queue mutex: everything except the locked blocks enqueue / map-push (EPush off
   the fast path), the worker's locked block (ECheck) and the destructor's locked block (EStop) *)
Definition lockfree (p : pool) (e : event) : bool :=
  match e with
  | EPush s => match stg (subs p s), todo (subs p s) with
               | SReady, CMap ts _ :: _ => map_inline p ts
               | _, _ => false
               end
  | ECheck _ | EStop _ => false
  | _ => true
  end.

(* actions on the wait set of the condition variable: notify_one / notify_all, a spurious wake-up, and the
   worker's locked block when it ends in wait() (going to sleep) or in the exit of the loop (the model lets
   the exiting worker wake the others).  std::condition_variable orders notify and the atomic parts of wait
   in a single total order of its own, so two such events are never "concurrent" *)
Definition cv_action (p : pool) (e : event) : bool :=
  match e with
  | ENotify _ _ | ENotifyStop _ | ESpurious _ => true
  | ECheck w => match workers p w with
                | WIdle => stop p || (match queue p with [] => true | _ => false end)
                | _ => false
                end
  | _ => false
  end.

(* equality of states up to the order in which concurrent lock-free completions were logged; the function
   fields are compared pointwise (no functional extensionality needed) *)
Record peq (p q : pool) : Prop := {
  pq_nw       : nw p = nw q;
  pq_ns       : ns p = ns q;
  pq_throws   : throws p = throws q;
  pq_queue    : queue p = queue q;
  pq_stop     : stop p = stop q;
  pq_workers  : forall w, workers p w = workers q w;
  pq_subs     : forall s, subs p s = subs q s;
  pq_ran      : ran p = ran q;
  pq_dropped  : dropped p = dropped q;
  pq_finished : Permutation (finished p) (finished q);
  pq_inline   : Permutation (inline p) (inline q);
}.

Lemma peq_refl p : peq p p.
Proof. constructor; auto. Qed.

Lemma peq_sym p q : peq p q -> peq q p.
Proof. intros [A B C D E F G H I J K]. constructor; auto using Permutation_sym. Qed.

Lemma peq_trans p q r : peq p q -> peq q r -> peq p r.
Proof.
  intros [A B C D E F G H I J K] [A' B' C' D' E' F' G' H' I' J' K'].
  constructor; try (etransitivity; eassumption).
  - intros w. rewrite F. apply F'.
  - intros s. rewrite G. apply G'.
Qed.

(* state transformers used to say what a step writes *)
Definition set_locked (p : pool) (qu : list tid) (st : bool) (rn : list (tid * wid)) : pool :=
  {| nw := nw p; ns := ns p; throws := throws p; queue := qu; stop := st; workers := workers p;
     subs := subs p; ran := rn; inline := inline p; finished := finished p; dropped := dropped p |}.
Definition set_worker (p : pool) (w : wid) (v : wstate) : pool :=
  {| nw := nw p; ns := ns p; throws := throws p; queue := queue p; stop := stop p;
     workers := upd (workers p) w v;
     subs := subs p; ran := ran p; inline := inline p; finished := finished p; dropped := dropped p |}.
Definition wake (p : pool) : pool :=
  {| nw := nw p; ns := ns p; throws := throws p; queue := queue p; stop := stop p;
     workers := wake_all (workers p);
     subs := subs p; ran := ran p; inline := inline p; finished := finished p; dropped := dropped p |}.
Definition add_finished (p : pool) (l : list tid) : pool :=
  {| nw := nw p; ns := ns p; throws := throws p; queue := queue p; stop := stop p; workers := workers p;
     subs := subs p; ran := ran p; inline := inline p; finished := finished p ++ l; dropped := dropped p |}.
Definition add_inline (p : pool) (l : list (tid * sid)) : pool :=
  {| nw := nw p; ns := ns p; throws := throws p; queue := queue p; stop := stop p; workers := workers p;
     subs := subs p; ran := ran p; inline := inline p ++ l; finished := finished p; dropped := dropped p |}.

(* ---- (1) a lock-free event does not write the mutex-protected state --------------------------------- *)
Lemma lockfree_frame p e q : lockfree p e = true -> step p e = Some q ->
  queue q = queue p /\ stop q = stop p /\ ran q = ran p /\ dropped q = dropped p /\ nw q = nw p /\ ns q = ns p.
Proof.
  intros Hlf H. destruct e; cbn [lockfree] in Hlf; try discriminate Hlf; inv_step H; simp_fields;
    try (repeat split; reflexivity).
  all: cbn in Hlf; congruence.
Qed.

(* ---- (2) ... and does not read it --------------------------------------------------------------- *)
Lemma lockfree_blind p e qu st rn : lockfree p e = true ->
  step (set_locked p qu st rn) e = option_map (fun q => set_locked q qu st rn) (step p e).
Proof.
  intros Hlf. destruct e; cbn [lockfree] in Hlf; try discriminate Hlf;
    unfold step, set_sub, set_locked, any_sleeping, all_exited, complete, fails; cbv zeta; simp_fields.
  - (* inline map *)
    destruct (negb (s <? ns p)); [reflexivity|].
    destruct (stg (subs p s)); try discriminate Hlf.
    destruct (todo (subs p s)) as [|[t|ts r|] rest]; try discriminate Hlf.
    unfold map_inline in *; simp_fields. rewrite Hlf. reflexivity.
  - destruct (negb (s <? ns p)); [reflexivity|].
    destruct (stg (subs p s)); try reflexivity; destruct w; try reflexivity.
    + destruct ((w <? nw p) && is_sleeping (workers p w)); reflexivity.
    + destruct (existsb (fun w => is_sleeping (workers p w)) (seq 0 (nw p))); reflexivity.
  - destruct (negb (s <? ns p)); [reflexivity|].
    destruct (stg (subs p s)); try reflexivity. destruct rem as [|t rem]; [reflexivity|].
    destruct (mem t (finished p) || mem t (dropped p)); [|reflexivity].
    destruct (raise && (throws p t || mem t (dropped p))); reflexivity.
  - destruct (negb (s <? ns p)); [reflexivity|].
    destruct (stg (subs p s)); try reflexivity. destruct rem as [|t rem]; [reflexivity|].
    destruct (mem t (finished p) || mem t (dropped p)); reflexivity.
  - destruct (negb (w <? nw p)); [reflexivity|]. destruct (workers p w); reflexivity.
  - destruct (negb (w <? nw p)); [reflexivity|]. destruct (workers p w); reflexivity.
  - destruct (negb (s <? ns p)); [reflexivity|]. destruct (stg (subs p s)); reflexivity.
  - destruct (negb (s <? ns p)); [reflexivity|]. destruct (stg (subs p s)); try reflexivity.
    destruct (forallb (fun w => is_exited (workers p w)) (seq 0 (nw p))); reflexivity.
Qed.

(* what each lock-free kind writes *)
Lemma own_EGet p s q : step p (EGet s) = Some q -> exists x, q = set_sub p s x.
Proof. intros H. inv_step H; eexists; reflexivity. Qed.

Lemma own_EWait p s q : step p (EWait s) = Some q -> exists x, q = set_sub p s x.
Proof. intros H. inv_step H; eexists; reflexivity. Qed.

Lemma own_EJoin p s q : step p (EJoin s) = Some q -> exists x, q = set_sub p s x.
Proof. intros H. inv_step H; eexists; reflexivity. Qed.

Lemma own_EFinish p w q : step p (EFinish w) = Some q ->
  exists t, workers p w = WRunning t /\ q = add_finished (set_worker p w WIdle) [t].
Proof. intros H. inv_step H. eexists; split; reflexivity. Qed.

Lemma own_ESpurious p w q : step p (ESpurious w) = Some q ->
  workers p w = WSleeping /\ q = set_worker p w WIdle.
Proof. intros H. inv_step H. split; reflexivity. Qed.

(* notify_one: the sub and the woken sleeper (if any); notify_all: the sub and every sleeper *)
Lemma own_ENotify p s o q : step p (ENotify s o) = Some q ->
  exists x, (o = None /\ q = set_sub p s x) \/
            (exists w, o = Some w /\ workers p w = WSleeping /\ q = set_sub (set_worker p w WIdle) s x) \/
            (o = None /\ q = set_sub (wake p) s x).
Proof.
  intros H. inv_step H; eexists.
  - right. left. eexists. split; [reflexivity|]. split; [|reflexivity].
    match goal with E : _ && is_sleeping _ = true |- _ =>
      apply andb_true_iff in E; destruct E as [_ E]; apply is_sleeping_true; exact E end.
  - left. split; reflexivity.
  - right. right. split; reflexivity.
Qed.

Lemma own_ENotifyStop p s q : step p (ENotifyStop s) = Some q -> exists x, q = set_sub (wake p) s x.
Proof. intros H. inv_step H. eexists; reflexivity. Qed.

Lemma own_EPush_inline p s q : lockfree p (EPush s) = true -> step p (EPush s) = Some q ->
  exists x l, q = set_sub (add_inline (add_finished p l) (map (fun t => (t, s)) l)) s x.
Proof.
  intros Hlf H. cbn [lockfree] in Hlf. inv_step H.
  - discriminate Hlf.
  - do 2 eexists. reflexivity.
  - congruence.
Qed.

(* ---- footprints of a step on the components its thread does not own --------------------------------- *)
Lemma wake_all_awake_eq f w : f w <> WSleeping -> wake_all f w = f w.
Proof. unfold wake_all. destruct (f w); cbn; congruence. Qed.

Lemma sleeping_guard p w : (w <? nw p) && is_sleeping (workers p w) = true -> w < nw p /\ workers p w = WSleeping.
Proof.
  intros H. apply andb_true_iff in H. destruct H as [H1 H2]. split; [apply Nat.ltb_lt; exact H1 | apply is_sleeping_true; exact H2].
Qed.

Ltac sleeping_hyps :=
  repeat match goal with E : (_ <? _) && is_sleeping _ = true |- _ => apply sleeping_guard in E; destruct E as [? E] end.

Lemma step_subs_other p b q : step p b = Some q -> forall s, actor_of b <> ASub s -> subs q s = subs p s.
Proof.
  intros H s0 Hne. destruct b; cbn [actor_of] in Hne; inv_step H; simp_fields; try reflexivity;
    apply upd_other; intros ->; apply Hne; reflexivity.
Qed.

(* a worker that is not asleep is only moved by its own events *)
Lemma step_workers_awake p b q : step p b = Some q ->
  forall w, actor_of b <> AWorker w -> workers p w <> WSleeping -> workers q w = workers p w.
Proof.
  intros H w0 Hne Hns. destruct b; cbn [actor_of] in Hne; inv_step H; simp_fields; sleeping_hyps; try reflexivity;
    first [ apply wake_all_awake_eq; exact Hns
          | rewrite upd_other by (intros ->; apply Hne; reflexivity); first [reflexivity | apply wake_all_awake_eq; exact Hns]
          | apply upd_other; intros ->; congruence ].
Qed.

(* an event that is not an action on the condition variable moves no other worker *)
Lemma step_workers_nocv p b q : step p b = Some q -> cv_action p b = false ->
  forall w, actor_of b <> AWorker w -> workers q w = workers p w.
Proof.
  intros H Hcv w0 Hne. destruct b; cbn [actor_of cv_action] in Hne, Hcv; try discriminate Hcv;
    inv_step H; simp_fields; try reflexivity; try discriminate Hcv;
    apply upd_other; intros ->; apply Hne; reflexivity.
Qed.

(* ... and puts nobody to sleep *)
Lemma step_no_new_sleeper p b q : step p b = Some q -> cv_action p b = false ->
  forall w, workers q w = WSleeping -> workers p w = WSleeping.
Proof.
  intros H Hcv w0. destruct b; cbn [cv_action] in Hcv; try discriminate Hcv;
    inv_step H; simp_fields; try (intros Hq; exact Hq); try discriminate Hcv;
    intros Hq; match goal with Hq : upd _ ?w _ _ = _ |- _ => upd_cases w0 w; [discriminate Hq | exact Hq] end.
Qed.

Lemma step_exited p b q : step p b = Some q -> forall w, workers p w = WExited -> workers q w = WExited.
Proof.
  intros H w0 Hx. destruct b; inv_step H; simp_fields; sleeping_hyps; try exact Hx;
    try (apply (proj2 (wake_all_exited _ _)); exact Hx);
    match goal with |- upd _ ?w _ _ = _ => upd_cases w0 w; [congruence | first [exact Hx | apply (proj2 (wake_all_exited _ _)); exact Hx]] end.
Qed.

Lemma mem_app t l1 l2 : mem t (l1 ++ l2) = mem t l1 || mem t l2.
Proof. unfold mem. apply existsb_app. Qed.

Lemma complete_mono p b q t : step p b = Some q -> complete p t = true -> complete q t = true.
Proof.
  intros H Hc. unfold complete in *. destruct b; inv_step H; simp_fields; try exact Hc;
    rewrite mem_app; apply orb_true_iff in Hc; destruct Hc as [Hc|Hc]; rewrite Hc; rewrite ?orb_true_r; reflexivity.
Qed.

Lemma step_dropped_running p b q : step p b = Some q -> stop p = false -> dropped q = dropped p.
Proof. intros H Hs. destruct b; inv_step H; simp_fields; try reflexivity; congruence. Qed.

(* ---- the write of a lock-free event as a state transformer -------------------------------------------- *)
Inductive wmode := MNone | MWake | MOne (w : wid).

Definition wtrans (m : wmode) (f : wid -> wstate) : wid -> wstate :=
  match m with MNone => f | MWake => wake_all f | MOne w => upd f w WIdle end.
Definition sub_upd (o : option (sid * sub)) (f : sid -> sub) : sid -> sub :=
  match o with Some (s, x) => upd f s x | None => f end.
Definition oapp {A} (l : list A) (o : option (list A)) : list A :=
  match o with Some l' => l ++ l' | None => l end.

Record delta := {
  d_sub  : option (sid * sub);       (* the new state of the thread's own sub *)
  d_mode : wmode;                    (* nobody / every sleeper / worker w becomes WIdle *)
  d_fin  : option (list tid);        (* appended to finished *)
  d_inl  : option (list (tid * sid)) (* appended to inline *)
}.

Definition app_delta (d : delta) (p : pool) : pool :=
  {| nw := nw p; ns := ns p; throws := throws p; queue := queue p; stop := stop p;
     workers := wtrans (d_mode d) (workers p);
     subs := sub_upd (d_sub d) (subs p);
     ran := ran p; inline := oapp (inline p) (d_inl d); finished := oapp (finished p) (d_fin d);
     dropped := dropped p |}.

Definition dsub (s : sid) (st : stage) (x : sub) (m : wmode) : delta :=
  {| d_sub := Some (s, {| stg := st; todo := todo x; results := results x |}); d_mode := m; d_fin := None; d_inl := None |}.
Definition dnone : delta := {| d_sub := None; d_mode := MNone; d_fin := None; d_inl := None |}.

Definition delta_of (p : pool) (e : event) : delta :=
  match e with
  | EPush s =>
      match todo (subs p s) with
      | CMap ts raise :: rest =>
          {| d_sub := Some (s, {| stg := SReady; todo := rest;
                                  results := results (subs p s) ++ [{| r_tasks := ts; r_raise := raise; r_inline := true;
                                                                       r_exn := find (throws p) ts |}] |});
             d_mode := MNone;
             d_fin := Some (inline_prefix (throws p) ts);
             d_inl := Some (map (fun t => (t, s)) (inline_prefix (throws p) ts)) |}
      | _ => dnone
      end
  | ENotify s o =>
      match stg (subs p s), o with
      | SNotifyOne, Some w => dsub s SReady (subs p s) (MOne w)
      | SNotifyOne, None => dsub s SReady (subs p s) MNone
      | SNotifyAll ts raise, _ => dsub s (SGet ts ts raise) (subs p s) MWake
      | _, _ => dnone
      end
  | EGet s =>
      match stg (subs p s) with
      | SGet [] all raise => dsub s (SWait all all raise None) (subs p s) MNone
      | SGet (t :: rem) all raise =>
          if raise && fails p t then dsub s (SWait all all raise (Some t)) (subs p s) MNone
          else dsub s (SGet rem all raise) (subs p s) MNone
      | _ => dnone
      end
  | EWait s =>
      match stg (subs p s) with
      | SWait [] all raise exn =>
          {| d_sub := Some (s, {| stg := SReady; todo := todo (subs p s);
                                  results := results (subs p s) ++ [{| r_tasks := all; r_raise := raise;
                                                                       r_inline := false; r_exn := exn |}] |});
             d_mode := MNone; d_fin := None; d_inl := None |}
      | SWait (t :: rem) all raise exn => dsub s (SWait rem all raise exn) (subs p s) MNone
      | _ => dnone
      end
  | EFinish w =>
      match workers p w with
      | WRunning t => {| d_sub := None; d_mode := MOne w; d_fin := Some [t]; d_inl := None |}
      | _ => dnone
      end
  | ESpurious w => {| d_sub := None; d_mode := MOne w; d_fin := None; d_inl := None |}
  | ENotifyStop s => dsub s SJoin (subs p s) MWake
  | EJoin s => dsub s SReady (subs p s) MNone
  | ECheck _ | EStop _ => dnone
  end.

Lemma lf_delta p e q : lockfree p e = true -> step p e = Some q -> q = app_delta (delta_of p e) p.
Proof.
  intros Hlf H. destruct e; cbn [lockfree] in Hlf; try discriminate Hlf; inv_step H; unfold delta_of;
    repeat match goal with E : ?x = _ |- context [match ?x with _ => _ end] => rewrite E end;
    try reflexivity.
  all: cbn in Hlf; congruence.
Qed.

(* ---- a lock-free event stays enabled, with the same write, after a step of another thread ------------- *)
Lemma fails_eq p q t : throws q = throws p -> dropped q = dropped p -> fails q t = fails p t.
Proof. unfold fails. intros -> ->. reflexivity. Qed.

Lemma any_sleeping_false_intro p : (forall w, w < nw p -> workers p w <> WSleeping) -> any_sleeping p = false.
Proof.
  unfold any_sleeping. intros H. destruct (existsb (fun w => is_sleeping (workers p w)) (seq 0 (nw p))) eqn:E; [|reflexivity].
  apply existsb_exists in E. destruct E as [w [Hin Hs]]. apply in_seq in Hin. exfalso.
  apply (H w); [lia | apply is_sleeping_true; exact Hs].
Qed.

Lemma all_exited_intro p : (forall w, w < nw p -> workers p w = WExited) -> all_exited p = true.
Proof.
  unfold all_exited. intros H. apply forallb_forall. intros w Hin. apply in_seq in Hin. rewrite H by lia. reflexivity.
Qed.

(* the only event of a sleeping worker is the spurious wake-up *)
Lemma sleeping_only_spurious p b q w :
  step p b = Some q -> actor_of b = AWorker w -> workers p w = WSleeping -> cv_action p b = true.
Proof.
  intros H Ha Hs. destruct b; cbn in Ha; try discriminate Ha; injection Ha as ->; inv_step H; try congruence; reflexivity.
Qed.

Lemma map_inline_nw p q ts : nw q = nw p -> map_inline q ts = map_inline p ts.
Proof. unfold map_inline. intros ->. reflexivity. Qed.

Ltac ltb_hyps := repeat match goal with E : negb (_ <? _) = false |- _ => apply ltb_guard in E end.
Ltac rw_in H :=
  repeat match goal with E : ?x = _ |- _ =>
    lazymatch E with H => fail | _ => match type of H with context [x] => rewrite E in H end end end.
Ltac rw_goal := repeat match goal with E : ?x = _ |- context [?x] => rewrite E end.

Lemma persist p a b qa qb :
  InvB p -> lockfree p a = true -> step p a = Some qa -> step p b = Some qb ->
  actor_of a <> actor_of b -> cv_action p a && cv_action p b = false ->
  step qb a = Some (app_delta (delta_of p a) qb).
Proof.
  intros IB Hlf Ha Hb Hne Hcv.
  destruct (step_const p b qb Hb) as [Hnw [Hns Hthr]].
  pose proof (step_subs_other p b qb Hb) as Hsub.
  assert (Hne' : actor_of b <> actor_of a) by congruence.
  destruct a; cbn [lockfree] in Hlf; try discriminate Hlf; cbn [actor_of] in Hne'; cbn [cv_action] in Hcv;
    rewrite ?andb_true_l in Hcv; try specialize (Hsub _ Hne').
  - (* inline map *)
    inv_step Ha; try (cbn in Hlf; congruence).
    unfold step; cbv zeta. rewrite Hns, Hsub. rw_goal. rewrite (map_inline_nw p qb ts Hnw). rw_goal.
    unfold delta_of, app_delta. rw_goal. reflexivity.
  - (* notify *)
    inv_step Ha; sleeping_hyps.
    + assert (Hb' : actor_of b <> AWorker w0).
      { intros Hw. rewrite (sleeping_only_spurious p b qb w0 Hb Hw) in Hcv by assumption. discriminate Hcv. }
      pose proof (step_workers_nocv p b qb Hb Hcv w0 Hb') as Hw.
      unfold step; cbv zeta. rewrite Hns, Hnw, Hsub, Hw. rw_goal.
      assert (Hlt : (w0 <? nw p) = true) by (apply Nat.ltb_lt; assumption). rewrite Hlt. cbn [andb is_sleeping].
      unfold delta_of, app_delta. rw_goal. reflexivity.
    + assert (Hsl : any_sleeping qb = false).
      { apply any_sleeping_false_intro. intros w0 Hw0 Hs0. rewrite Hnw in Hw0.
        refine (any_sleeping_false p _ w0 Hw0 _); [assumption|]. exact (step_no_new_sleeper p b qb Hb Hcv w0 Hs0). }
      unfold step, set_sub; cbv zeta. rewrite Hns, Hsub, Hsl. rw_goal.
      unfold delta_of, app_delta. rw_goal. reflexivity.
    + unfold step; cbv zeta. rewrite Hns, Hsub. rw_goal. unfold delta_of, app_delta. rw_goal. reflexivity.
  - (* get *)
    assert (Hrun : stop p = false).
    { inv_step Ha; ltb_hyps; (eapply not_quiet_running; [exact IB | eassumption | not_quiet]). }
    assert (Hf : forall t, fails qb t = fails p t).
    { intros t. apply fails_eq; [exact Hthr | exact (step_dropped_running p b qb Hb Hrun)]. }
    pose proof (fun t => complete_mono p b qb t Hb) as Hc.
    inv_step Ha; unfold step, set_sub; cbv zeta; rewrite Hns, Hsub; rw_goal;
      try (rewrite Hc by assumption); rewrite ?Hf; rw_goal; unfold delta_of, app_delta; rw_goal; reflexivity.
  - (* wait *)
    pose proof (fun t => complete_mono p b qb t Hb) as Hc.
    inv_step Ha; unfold step, set_sub; cbv zeta; rewrite Hns, Hsub; rw_goal;
      try (rewrite Hc by assumption); unfold delta_of, app_delta; rw_goal; reflexivity.
  - (* finish *)
    inv_step Ha.
    assert (Hw : workers qb w = workers p w) by (apply (step_workers_awake p b qb Hb w Hne'); congruence).
    unfold step. rewrite Hnw, Hw. rw_goal. unfold delta_of, app_delta. rw_goal. reflexivity.
  - (* spurious *)
    inv_step Ha.
    assert (Hw : workers qb w = workers p w) by (apply (step_workers_nocv p b qb Hb Hcv w Hne')).
    unfold step. rewrite Hnw, Hw. rw_goal. unfold delta_of, app_delta. rw_goal. reflexivity.
  - (* notify_all of the destructor *)
    inv_step Ha. unfold step; cbv zeta. rewrite Hns, Hsub. rw_goal. unfold delta_of, app_delta. rw_goal. reflexivity.
  - (* join *)
    inv_step Ha.
    assert (Hx : all_exited qb = true).
    { apply all_exited_intro. intros w Hw. rewrite Hnw in Hw. apply (step_exited p b qb Hb).
      apply all_exited_true; assumption. }
    unfold step, set_sub; cbv zeta. rewrite Hns, Hsub, Hx. rw_goal. unfold delta_of, app_delta. rw_goal. reflexivity.
Qed.

(* ---- an event of another thread is enabled, with the same write, after the lock-free write ------------ *)
Definition compat (d : delta) (p : pool) (b : event) : Prop :=
  (forall s x, d_sub d = Some (s, x) -> actor_of b <> ASub s /\ (forall s', b <> EStop s')) /\
  match d_mode d with
  | MNone => True
  | MWake => cv_action p b = false
  | MOne w => w < nw p /\ actor_of b <> AWorker w /\
              ((workers p w = WSleeping /\ cv_action p b = false) \/ exists t, workers p w = WRunning t)
  end.

Lemma sub_upd_other o (f : sid -> sub) s' : (forall s x, o = Some (s, x) -> s <> s') -> sub_upd o f s' = f s'.
Proof.
  destruct o as [[s x]|]; cbn; [|reflexivity]. intros H. apply upd_other. intros He. apply (H s x eq_refl). congruence.
Qed.

Lemma sub_upd_comm o (f : sid -> sub) s' y : (forall s x, o = Some (s, x) -> s <> s') ->
  forall i, upd (sub_upd o f) s' y i = sub_upd o (upd f s' y) i.
Proof.
  destruct o as [[s x]|]; cbn; [|reflexivity]. intros H i. specialize (H s x eq_refl). unfold upd.
  destruct (Nat.eqb_spec i s'), (Nat.eqb_spec i s); subst; try reflexivity. congruence.
Qed.

Lemma oapp_perm {A} (l l2 : list A) o : Permutation (oapp l o ++ l2) (oapp (l ++ l2) o).
Proof.
  destruct o as [l'|]; cbn; [|reflexivity]. rewrite <- !app_assoc. apply Permutation_app_head. apply Permutation_app_comm.
Qed.

Lemma complete_app d p t : complete p t = true -> complete (app_delta d p) t = true.
Proof.
  unfold complete, app_delta; simp_fields. destruct (d_fin d); cbn [oapp]; [|auto]. rewrite mem_app.
  intros H. apply orb_true_iff in H. destruct H as [H|H]; rewrite H; rewrite ?orb_true_r; reflexivity.
Qed.

Definition mode_ok (m : wmode) (f : wid -> wstate) (w' : wid) : Prop :=
  match m with MNone => True | MWake => f w' <> WSleeping | MOne w => w <> w' end.

Lemma wtrans_same m f w' : mode_ok m f w' -> wtrans m f w' = f w'.
Proof.
  destruct m as [| |w]; cbn; intros H; [reflexivity | apply wake_all_awake_eq; exact H | apply upd_other; congruence].
Qed.

Lemma wtrans_upd m f w' v : mode_ok m f w' -> (m = MWake -> v <> WSleeping) ->
  forall i, upd (wtrans m f) w' v i = wtrans m (upd f w' v) i.
Proof.
  destruct m as [| |w]; cbn; intros H Hv i; [reflexivity | |].
  - unfold upd, wake_all. destruct (Nat.eqb_spec i w'); [|reflexivity].
    specialize (Hv eq_refl). destruct v; cbn; congruence.
  - unfold upd. destruct (Nat.eqb_spec i w'), (Nat.eqb_spec i w); subst; try reflexivity. congruence.
Qed.

Lemma wtrans_wake m f : forall i, wake_all (wtrans m f) i = wtrans m (wake_all f) i.
Proof.
  destruct m as [| |w]; cbn; intros i; try reflexivity.
  unfold upd, wake_all. destruct (Nat.eqb_spec i w); reflexivity.
Qed.

Lemma wtrans_exit m f w' : (forall w, m = MOne w -> w <> w') ->
  forall i, upd (wake_all (wtrans m f)) w' WExited i = wtrans m (upd (wake_all f) w' WExited) i.
Proof.
  destruct m as [| |w]; cbn; intros H i; try reflexivity.
  - unfold upd, wake_all. destruct (Nat.eqb_spec i w'); [reflexivity|]. destruct (f i); reflexivity.
  - specialize (H w eq_refl). unfold upd, wake_all.
    destruct (Nat.eqb_spec i w'), (Nat.eqb_spec i w); subst; try reflexivity. congruence.
Qed.

Lemma wtrans_not_sleeping m f n : (forall w, w < n -> f w <> WSleeping) -> forall w, w < n -> wtrans m f w <> WSleeping.
Proof.
  destruct m as [| |w0]; cbn; intros H w Hw; [auto | apply wake_all_not_sleeping |].
  upd_cases w w0; [discriminate | auto].
Qed.

Lemma fails_app d p t : fails (app_delta d p) t = fails p t.
Proof. reflexivity. Qed.

Lemma others_done_app d p s : d_sub d = None -> others_done (app_delta d p) s = others_done p s.
Proof. unfold others_done, app_delta; simp_fields. intros ->. reflexivity. Qed.

Ltac fields := cbn [app_delta nw ns throws queue stop workers subs ran inline finished dropped].
Ltac complete_tac d :=
  repeat match goal with E : complete ?p ?t = true |- context [complete (app_delta d ?p) ?t] => rewrite (complete_app d p t E) end.
Ltac peq_tac := constructor; fields; try (intros; reflexivity).

Lemma frame d p b qb : compat d p b -> step p b = Some qb ->
  exists r, step (app_delta d p) b = Some r /\ peq r (app_delta d qb).
Proof.
  intros [Csub Cmode] Hb.
  assert (Hs' : forall s', actor_of b = ASub s' -> forall s x, d_sub d = Some (s, x) -> s <> s').
  { intros s' Ha s x Hd. destruct (Csub s x Hd) as [Hn _]. congruence. }
  destruct b; cbn [actor_of] in Hs'; try specialize (Hs' _ eq_refl).
  - (* push *)
    inv_step Hb; (eexists; split;
      [ unfold step; cbv zeta; fields; rewrite (sub_upd_other _ _ _ Hs'); rw_goal;
        rewrite ?(map_inline_nw p (app_delta d p) _ eq_refl); rw_goal; reflexivity
      | peq_tac; first [apply sub_upd_comm; exact Hs' | apply oapp_perm] ]).
  - (* notify *)
    inv_step Hb; sleeping_hyps.
    + assert (Hm : mode_ok (d_mode d) (workers p) w0).
      { destruct (d_mode d) as [| |w1]; cbn in Cmode |- *; [exact I | discriminate Cmode |].
        destruct Cmode as [_ [_ [[_ Hc]|[t Ht]]]]; [discriminate Hc | congruence]. }
      eexists; split.
      * unfold step; cbv zeta; fields. rewrite (sub_upd_other _ _ _ Hs'), (wtrans_same _ _ _ Hm). rw_goal.
        assert (Hlt : (w0 <? nw p) = true) by (apply Nat.ltb_lt; assumption). rewrite Hlt. cbn [andb is_sleeping]. reflexivity.
      * peq_tac; [apply wtrans_upd; [exact Hm | discriminate] | apply sub_upd_comm; exact Hs'].
    + assert (Hsl : any_sleeping (app_delta d p) = false).
      { apply any_sleeping_false_intro; fields. apply wtrans_not_sleeping. apply any_sleeping_false. assumption. }
      eexists; split.
      * unfold step, set_sub; cbv zeta. rewrite Hsl. fields. rewrite (sub_upd_other _ _ _ Hs'). rw_goal. reflexivity.
      * peq_tac. apply sub_upd_comm; exact Hs'.
    + eexists; split.
      * unfold step; cbv zeta; fields. rewrite (sub_upd_other _ _ _ Hs'). rw_goal. reflexivity.
      * peq_tac; [apply wtrans_wake | apply sub_upd_comm; exact Hs'].
  - (* get *)
    inv_step Hb; (eexists; split;
      [ unfold step, set_sub; cbv zeta; fields; rewrite (sub_upd_other _ _ _ Hs'); rw_goal; complete_tac d;
        rewrite ?fails_app; rw_goal; reflexivity
      | peq_tac; apply sub_upd_comm; exact Hs' ]).
  - (* wait *)
    inv_step Hb; (eexists; split;
      [ unfold step, set_sub; cbv zeta; fields; rewrite (sub_upd_other _ _ _ Hs'); rw_goal; complete_tac d; reflexivity
      | peq_tac; apply sub_upd_comm; exact Hs' ]).
  - (* the worker's locked block *)
    assert (Hw1 : forall w1, d_mode d = MOne w1 -> w1 <> w).
    { intros w1 Hd. rewrite Hd in Cmode. destruct Cmode as [_ [Hn _]]. cbn in Hn. congruence. }
    inv_step Hb.
    all: assert (Hm : mode_ok (d_mode d) (workers p) w)
           by (destruct (d_mode d) as [| |w1] eqn:Ed; cbn; [exact I | congruence | exact (Hw1 w1 eq_refl)]).
    + eexists; split.
      * unfold step; fields. rewrite (wtrans_same _ _ _ Hm). rw_goal. reflexivity.
      * peq_tac. apply wtrans_exit. exact Hw1.
    + eexists; split.
      * unfold step; fields. rewrite (wtrans_same _ _ _ Hm). rw_goal. reflexivity.
      * peq_tac. apply wtrans_upd; [exact Hm|]. intros Hd. rewrite Hd in Cmode. cbn in Cmode. rw_in Cmode. discriminate Cmode.
    + eexists; split.
      * unfold step; fields. rewrite (wtrans_same _ _ _ Hm). rw_goal. reflexivity.
      * peq_tac. apply wtrans_upd; [exact Hm | discriminate].
  - (* finish *)
    assert (Hw1 : forall w1, d_mode d = MOne w1 -> w1 <> w).
    { intros w1 Hd. rewrite Hd in Cmode. destruct Cmode as [_ [Hn _]]. cbn in Hn. congruence. }
    inv_step Hb.
    assert (Hm : mode_ok (d_mode d) (workers p) w)
      by (destruct (d_mode d) as [| |w1] eqn:Ed; cbn; [exact I | congruence | exact (Hw1 w1 eq_refl)]).
    eexists; split.
    + unfold step; fields. rewrite (wtrans_same _ _ _ Hm). rw_goal. reflexivity.
    + peq_tac; [apply wtrans_upd; [exact Hm | discriminate] | apply oapp_perm].
  - (* spurious *)
    assert (Hm : mode_ok (d_mode d) (workers p) w).
    { destruct (d_mode d) as [| |w1]; cbn in Cmode |- *; [exact I | discriminate Cmode |].
      destruct Cmode as [_ [Hn _]]. congruence. }
    inv_step Hb.
    eexists; split.
    + unfold step; fields. rewrite (wtrans_same _ _ _ Hm). rw_goal. reflexivity.
    + peq_tac. apply wtrans_upd; [exact Hm | discriminate].
  - (* stop *)
    destruct (d_sub d) as [[s0 x0]|] eqn:Ed; [exfalso; destruct (Csub _ _ eq_refl) as [_ Hn]; exact (Hn s eq_refl)|].
    inv_step Hb.
    eexists; split.
    + unfold step; cbv zeta. rewrite (others_done_app d p s Ed). fields. rewrite Ed. cbn [sub_upd]. rw_goal. reflexivity.
    + peq_tac. rewrite Ed. reflexivity.
  - (* notify_all of the destructor *)
    inv_step Hb. eexists; split.
    + unfold step; cbv zeta; fields. rewrite (sub_upd_other _ _ _ Hs'). rw_goal. reflexivity.
    + peq_tac; [apply wtrans_wake | apply sub_upd_comm; exact Hs'].
  - (* join *)
    inv_step Hb.
    assert (Hx : all_exited (app_delta d p) = true).
    { apply all_exited_intro; fields. intros w Hw.
      match goal with E : all_exited p = true |- _ => pose proof (all_exited_true p E) as Hall end.
      destruct (d_mode d) as [| |w1]; cbn [wtrans].
      - apply Hall; exact Hw.
      - apply (proj2 (wake_all_exited _ _)). apply Hall; exact Hw.
      - exfalso. destruct Cmode as [Hlt [_ [[Hc _]|[t Ht]]]]; rewrite (Hall w1 Hlt) in *; discriminate. }
    eexists; split.
    + unfold step, set_sub; cbv zeta. rewrite Hx. fields. rewrite (sub_upd_other _ _ _ Hs'). rw_goal. reflexivity.
    + peq_tac. apply sub_upd_comm; exact Hs'.
Qed.

(* ---- the side conditions of `frame` follow from the guards ----------------------------------------------- *)
(* ~pool_t waits for the other threads: while EStop s' is enabled no other submitting thread has an event *)
Lemma stop_excludes p s' q a qa s :
  step p (EStop s') = Some q -> step p a = Some qa -> actor_of a = ASub s -> s <> s' -> False.
Proof.
  intros Hs Ha Hact Hne.
  assert (Hod : others_done p s' = true).
  { inv_step Hs. match goal with E : _ && _ = true |- _ => apply andb_true_iff in E; destruct E as [E _]; exact E end. }
  destruct a; cbn in Hact; try discriminate Hact; injection Hact as ->; inv_step Ha; ltb_hyps;
    match goal with E : s < ns p |- _ => destruct (others_done_spec p s' Hod s E Hne) as [Ht Hg] end; congruence.
Qed.

Lemma d_sub_actor p a s x : d_sub (delta_of p a) = Some (s, x) -> actor_of a = ASub s.
Proof.
  destruct a; unfold delta_of, dsub, dnone;
    repeat match goal with |- context [match ?y with _ => _ end] => destruct y end;
    cbn; intros H; try discriminate H; injection H; intros; subst; reflexivity.
Qed.

Lemma lf_compat p a b qa qb :
  lockfree p a = true -> step p a = Some qa -> step p b = Some qb ->
  actor_of a <> actor_of b -> cv_action p a && cv_action p b = false -> compat (delta_of p a) p b.
Proof.
  intros Hlf Ha Hb Hne Hcv. split.
  - intros s x Hd. pose proof (d_sub_actor p a s x Hd) as Hact. split; [congruence|].
    intros s' ->. apply (stop_excludes p s' qb a qa s Hb Ha Hact). intros ->. apply Hne. rewrite Hact. reflexivity.
  - destruct a; cbn [lockfree] in Hlf; try discriminate Hlf; cbn [actor_of] in Hne; cbn [cv_action] in Hcv;
      rewrite ?andb_true_l in Hcv; inv_step Ha; sleeping_hyps; ltb_hyps; unfold delta_of; rw_goal; cbn [d_mode dsub];
      try exact I; try exact Hcv; try reflexivity.
    + (* notify_one wakes w0 *)
      split; [assumption|]. split; [|left; split; first [assumption | reflexivity]].
      intros Hw. rewrite (sleeping_only_spurious p b qb w0 Hb Hw) in Hcv by assumption. discriminate Hcv.
    + (* finish *)
      split; [assumption|]. split; [congruence | right; eexists; eassumption].
    + (* spurious *)
      split; [assumption|]. split; [congruence | left; split; first [assumption | reflexivity]].
Qed.

(* ---- (3) MAIN: two enabled events of different threads, at least one of them lock-free, not both acting on
        the condition variable, can be taken in either order, with the same result -------------------------- *)
Lemma commute_lf p e1 e2 q1 q2 :
  InvB p -> lockfree p e1 = true ->
  actor_of e1 <> actor_of e2 -> cv_action p e1 && cv_action p e2 = false ->
  step p e1 = Some q1 -> step p e2 = Some q2 ->
  exists r1 r2, step q1 e2 = Some r1 /\ step q2 e1 = Some r2 /\ peq r1 r2.
Proof.
  intros IB Hlf Hne Hcv H1 H2.
  pose proof (lf_delta p e1 q1 Hlf H1) as Hq1.
  pose proof (lf_compat p e1 e2 q1 q2 Hlf H1 H2 Hne Hcv) as Hc.
  destruct (frame (delta_of p e1) p e2 q2 Hc H2) as [r1 [Hr1 Hp]].
  exists r1, (app_delta (delta_of p e1) q2). split; [rewrite Hq1; exact Hr1|]. split; [|exact Hp].
  exact (persist p e1 e2 q1 q2 IB Hlf H1 H2 Hne Hcv).
Qed.

Theorem lockfree_events_commute :
  forall n thr progs, wf_config n progs = true -> forall p e1 e2 q1 q2,
  reachable n thr progs p ->
  actor_of e1 <> actor_of e2 ->
  lockfree p e1 = true \/ lockfree p e2 = true ->
  cv_action p e1 && cv_action p e2 = false ->
  step p e1 = Some q1 -> step p e2 = Some q2 ->
  exists r1 r2, step q1 e2 = Some r1 /\ step q2 e1 = Some r2 /\ peq r1 r2.
Proof.
  intros n thr progs Hwf p e1 e2 q1 q2 Hr Hne Hlf Hcv H1 H2.
  pose proof (i_b p (reachable_inv n thr progs p Hwf Hr)) as IB.
  destruct Hlf as [Hlf|Hlf].
  - exact (commute_lf p e1 e2 q1 q2 IB Hlf Hne Hcv H1 H2).
  - rewrite andb_comm in Hcv.
    destruct (commute_lf p e2 e1 q2 q1 IB Hlf (fun H => Hne (eq_sym H)) Hcv H2 H1) as [r2 [r1 [Hr2 [Hr1 Hp]]]].
    exists r1, r2. split; [exact Hr1|]. split; [exact Hr2 | apply peq_sym; exact Hp].
Qed.

(* ---- (4) peq is a bisimulation; swapping two adjacent commuting events of a trace ----------------------- *)
Lemma existsb_ext' {A} (f g : A -> bool) l : (forall x, f x = g x) -> existsb f l = existsb g l.
Proof. intros H. induction l as [|a l IH]; cbn; [reflexivity|]. rewrite H, IH. reflexivity. Qed.

Lemma forallb_ext' {A} (f g : A -> bool) l : (forall x, f x = g x) -> forallb f l = forallb g l.
Proof. intros H. induction l as [|a l IH]; cbn; [reflexivity|]. rewrite H, IH. reflexivity. Qed.

Lemma mem_perm t l l' : Permutation l l' -> mem t l = mem t l'.
Proof.
  intros H. destruct (mem t l) eqn:E1, (mem t l') eqn:E2; try reflexivity.
  - apply mem_spec in E1. apply (Permutation_in _ H) in E1. apply mem_spec in E1. congruence.
  - apply mem_spec in E2. apply (Permutation_in _ (Permutation_sym H)) in E2. apply mem_spec in E2. congruence.
Qed.

Lemma peq_step p p' e q : peq p p' -> step p e = Some q -> exists q', step p' e = Some q' /\ peq q q'.
Proof.
  intros [Hnw Hns Hthr Hq Hst Hw Hs Hran Hdr Hfin Hinl] H.
  assert (Hany : any_sleeping p' = any_sleeping p).
  { unfold any_sleeping. rewrite <- Hnw. apply existsb_ext'. intros w. rewrite Hw. reflexivity. }
  assert (Hall : all_exited p' = all_exited p).
  { unfold all_exited. rewrite <- Hnw. apply forallb_ext'. intros w. rewrite Hw. reflexivity. }
  assert (Hod : forall s, others_done p' s = others_done p s).
  { intros s. unfold others_done. rewrite <- Hns. apply forallb_ext'. intros s'. rewrite Hs. reflexivity. }
  assert (Hc : forall t, complete p' t = complete p t).
  { intros t. unfold complete. rewrite <- Hdr, (mem_perm t _ _ Hfin). reflexivity. }
  assert (Hf : forall t, fails p' t = fails p t).
  { intros t. unfold fails. rewrite <- Hdr, <- Hthr. reflexivity. }
  assert (Hmi : forall ts, map_inline p' ts = map_inline p ts).
  { intros ts. apply map_inline_nw. symmetry. exact Hnw. }
  apply eq_sym in Hnw, Hns, Hthr, Hq, Hst, Hran, Hdr.
  destruct e; inv_step H;
    (eexists; split;
     [ unfold step, set_sub; cbv zeta;
       rewrite <- ?Hs, <- ?Hw, ?Hany, ?Hall, ?Hod; rw_goal; rewrite ?Hc, ?Hf, ?Hmi; rw_goal; reflexivity
     | constructor; simp_fields; try reflexivity; try assumption;
       try (intros i; unfold upd, wake_all; rewrite <- ?Hw, <- ?Hs; reflexivity);
       try (apply Permutation_app_tail; assumption) ]).
Qed.

Lemma peq_run es : forall p p' q, peq p p' -> run p es = Some q -> exists q', run p' es = Some q' /\ peq q q'.
Proof.
  induction es as [|e es IH]; intros p p' q Hp H; cbn [run] in *.
  - injection H as <-. exists p'. split; [reflexivity | exact Hp].
  - destruct (step p e) as [m|] eqn:Em; [|discriminate H].
    destruct (peq_step p p' e m Hp Em) as [m' [Hm' Hpm]]. rewrite Hm'. exact (IH m m' q Hpm H).
Qed.

(* the linearisation order of two concurrent events is immaterial for the acceptance of the whole trace and
   for the state it ends in *)
Theorem swap_adjacent :
  forall n thr progs, wf_config n progs = true -> forall p e1 e2 q1 q2,
  reachable n thr progs p ->
  actor_of e1 <> actor_of e2 ->
  lockfree p e1 = true \/ lockfree p e2 = true ->
  cv_action p e1 && cv_action p e2 = false ->
  step p e1 = Some q1 -> step p e2 = Some q2 ->
  forall es r, run p (e1 :: e2 :: es) = Some r ->
  exists r', run p (e2 :: e1 :: es) = Some r' /\ peq r r'.
Proof.
  intros n thr progs Hwf p e1 e2 q1 q2 Hr Hne Hlf Hcv H1 H2 es r Hrun.
  destruct (lockfree_events_commute n thr progs Hwf p e1 e2 q1 q2 Hr Hne Hlf Hcv H1 H2) as [r1 [r2 [Hr1 [Hr2 Hp]]]].
  cbn [run] in *. rewrite H1, Hr1 in Hrun. rewrite H2, Hr2.
  exact (peq_run es r1 r2 r Hp Hrun).
Qed.

(* what peq preserves: everything a caller or the tie can observe except the order of the two completion logs *)
Lemma peq_observables p q : peq p q ->
  final p = final q /\ ran p = ran q /\ dropped p = dropped q /\
  (forall s, results (subs p s) = results (subs q s)) /\
  (forall t, complete p t = complete q t) /\
  (forall t, In t (finished p) <-> In t (finished q)) /\
  (forall x, In x (inline p) <-> In x (inline q)).
Proof.
  intros [Hnw Hns Hthr Hq Hst Hw Hs Hran Hdr Hfin Hinl].
  split; [|split; [exact Hran | split; [exact Hdr | split; [|split; [|split]]]]].
  - unfold final. rewrite <- Hns. apply forallb_ext'. intros s. rewrite Hs. reflexivity.
  - intros s. rewrite Hs. reflexivity.
  - intros t. unfold complete. rewrite <- Hdr, (mem_perm t _ _ Hfin). reflexivity.
  - intros t. split; apply Permutation_in; [exact Hfin | apply Permutation_sym; exact Hfin].
  - intros x. split; apply Permutation_in; [exact Hinl | apply Permutation_sym; exact Hinl].
Qed.

(* ---- the condition-variable side condition is needed --------------------------------------------------- *)
(* two submitting threads, both between their locked push and notify_one, and a single sleeping worker: each
   notify_one "wakes worker 0" is enabled, and each disables the other (after it worker 0 no longer sleeps;
   the second notify_one finds nobody: ENotify _ None).  Both events are lock-free and of different threads. *)
Definition state_after (n : nat) (thr : tid -> bool) (progs : list (list call)) (es : list event) : pool :=
  match run (init n thr progs) es with Some p => p | None => init n thr progs end.

Definition cv_ex_progs : list (list call) := [[CEnqueue 1]; [CEnqueue 2]].
Definition cv_ex_trace : list event := [ECheck 0; EPush 0; EPush 1].

Theorem commute_without_cv_condition_refuted :
  exists n thr progs es p e1 e2,
    wf_config n progs = true /\ run (init n thr progs) es = Some p /\
    actor_of e1 <> actor_of e2 /\ lockfree p e1 = true /\ lockfree p e2 = true /\
    cv_action p e1 && cv_action p e2 = true /\
    step p e1 <> None /\ step p e2 <> None /\
    (forall q1, step p e1 = Some q1 -> step q1 e2 = None) /\
    (forall q2, step p e2 = Some q2 -> step q2 e1 = None).
Proof.
  exists 1, (fun _ => false), cv_ex_progs, cv_ex_trace, (state_after 1 (fun _ => false) cv_ex_progs cv_ex_trace),
         (ENotify 0 (Some 0)), (ENotify 1 (Some 0)).
  split; [reflexivity|]. split; [reflexivity|]. split; [discriminate|].
  split; [reflexivity|]. split; [reflexivity|]. split; [reflexivity|].
  split; [vm_compute; discriminate|]. split; [vm_compute; discriminate|].
  split; intros q Hq; vm_compute in Hq; injection Hq as <-; vm_compute; reflexivity.
Qed.

(* the statement of lockfree_events_commute without its cv_action hypothesis is false *)
Corollary commute_without_cv_condition_false :
  ~ (forall n thr progs, wf_config n progs = true -> forall p e1 e2 q1 q2,
     reachable n thr progs p -> actor_of e1 <> actor_of e2 ->
     lockfree p e1 = true \/ lockfree p e2 = true ->
     step p e1 = Some q1 -> step p e2 = Some q2 ->
     exists r1 r2, step q1 e2 = Some r1 /\ step q2 e1 = Some r2 /\ peq r1 r2).
Proof.
  intros Hall.
  destruct commute_without_cv_condition_refuted
    as [n [thr [progs [es [p [e1 [e2 [Hwf [Hrun [Hne [Hl1 [_ [_ [Hs1 [Hs2 [Hd _]]]]]]]]]]]]]]]].
  destruct (step p e1) as [q1|] eqn:E1; [|congruence]. destruct (step p e2) as [q2|] eqn:E2; [|congruence].
  destruct (Hall n thr progs Hwf p e1 e2 q1 q2 (ex_intro _ es Hrun) Hne (or_introl Hl1) E1 E2) as [r1 [_ [Hr1 _]]].
  rewrite (Hd q1 eq_refl) in Hr1. discriminate Hr1.
Qed.

(* ---- non-vacuity of lockfree_events_commute -------------------------------------------------------------- *)
(* two workers, one thread mapping two tasks through the pool; after both were popped and worker 0 finished,
   the thread's `get` of the first future and worker 1's completion are concurrent lock-free events; worker
   0's locked block (it goes to sleep: queue empty) is concurrent with worker 1's completion as well *)
Definition nv_progs : list (list call) := [[CMap [1; 2] false]].
Definition nv_trace : list event := [EPush 0; ENotify 0 None; ECheck 0; ECheck 1; EFinish 0].

Example commute_nonvacuous :
  let p := state_after 2 (fun _ => false) nv_progs nv_trace in
  wf_config 2 nv_progs = true /\ reachable 2 (fun _ => false) nv_progs p /\
  (actor_of (EGet 0) <> actor_of (EFinish 1) /\ lockfree p (EGet 0) = true /\ lockfree p (EFinish 1) = true /\
   cv_action p (EGet 0) && cv_action p (EFinish 1) = false /\ step p (EGet 0) <> None /\ step p (EFinish 1) <> None) /\
  (actor_of (EFinish 1) <> actor_of (ECheck 0) /\ lockfree p (EFinish 1) = true /\ lockfree p (ECheck 0) = false /\
   cv_action p (EFinish 1) && cv_action p (ECheck 0) = false /\ step p (ECheck 0) <> None) /\
  match step p (EGet 0), step p (EFinish 1) with
  | Some q1, Some q2 =>
      match step q1 (EFinish 1), step q2 (EGet 0) with
      | Some r1, Some r2 => finished r1 = [1; 2] /\ finished r2 = [1; 2] /\ stg (subs r1 0) = stg (subs r2 0)
      | _, _ => False
      end
  | _, _ => False
  end.
Proof.
  cbv zeta. split; [reflexivity|]. split; [exists nv_trace; reflexivity|].
  split; [|split].
  - repeat split; try reflexivity; try discriminate; vm_compute; discriminate.
  - repeat split; try reflexivity; try discriminate; vm_compute; discriminate.
  - vm_compute. repeat split; reflexivity.
Qed.

(* ---- the reachability hypothesis is used: on a raw state violating the stop discipline (a thread still
        inside map() while m_stop is set) `get` and a worker's exit do not commute: the exit turns the queued
        task into a broken promise, which `get` re-throws ------------------------------------------------- *)
Definition raw_state : pool :=
  {| nw := 1; ns := 1; throws := fun _ => false; queue := [7]; stop := true; workers := fun _ => WIdle;
     subs := fun _ => {| stg := SGet [7] [7] true; todo := []; results := [] |};
     ran := []; inline := []; finished := [7]; dropped := [] |}.

Lemma commute_needs_invariant :
  actor_of (EGet 0) <> actor_of (ECheck 0) /\ lockfree raw_state (EGet 0) = true /\
  cv_action raw_state (EGet 0) && cv_action raw_state (ECheck 0) = false /\
  match step raw_state (EGet 0), step raw_state (ECheck 0) with
  | Some q1, Some q2 =>
      match step q1 (ECheck 0), step q2 (EGet 0) with
      | Some r1, Some r2 => stg (subs r1 0) = SGet [] [7] true /\ stg (subs r2 0) = SWait [7] [7] true (Some 7)
      | _, _ => False
      end
  | _, _ => False
  end.
Proof. split; [discriminate|]. split; [reflexivity|]. split; [reflexivity|]. vm_compute. split; reflexivity. Qed.
