(* C20 extension -- the binary64 percentile position through Flocq: proofs.
   1. bridge PrimFloat -> Flocq (B2R of the model's operations, floor/ceil of a double)
   2. the real-number core: rounding to nearest cannot move a quotient N/D onto or across an integer when N < 2^53
   3. the position of detail::percentile: exact for dyadic percentages, in range and monotone for all percentages
   4. composition with the order-statistic theorems (percentile = sorted-array reference), median for every length
   5. the midpoint (a + b) / 2
   6. the translated kernels of group pctpos; refuted statements *)
From Coq Require Import ZArith List Bool QArith Reals Floats Lra Lia Psatz Sorted Permutation.
From Flocq Require Import Core BinarySingleNaN PrimFloat Relative Round_NE Ulp.
From LNGen Require Import Src_pctile Src_pctpos.
From LN Require Import C20_Defs C20_Proofs C20_FloatDefs.
Import ListNotations.

(* ------------------------------------------------------------------------------------------------ *)
(* 1. bridge                                                                                         *)
(* ------------------------------------------------------------------------------------------------ *)
Local Instance Hprec53 : Prec_gt_0 53 := eq_refl.

Section Bridge.
Local Open Scope R_scope.

(* the real number denoted by a finite double (0 for infinities and NaN) *)
Definition FR (x : PrimFloat.float) : R := B2R (Prim2B x).
(* finite: neither infinite nor NaN *)
Definition ffinite (x : PrimFloat.float) : Prop := is_finite (Prim2B x) = true.
(* rounding to nearest, ties to even, in binary64 (gradual underflow, unbounded above) *)
Definition RN (x : R) : R := round radix2 (FLT_exp (-1074) 53) ZnearestE x.
Definition fmt (x : R) : Prop := generic_format radix2 (FLT_exp (-1074) 53) x.

Lemma ffinite_prim x : ffinite x <-> PrimFloat.is_finite x = true.
Proof. unfold ffinite. rewrite is_finite_equiv. tauto. Qed.

Lemma fmt_FR x : fmt (FR x).
Proof. apply (generic_format_B2R prec emax). Qed.

Lemma RN_fmt x : fmt x -> RN x = x.
Proof. intros H. apply round_generic; auto with typeclass_instances. Qed.

Lemma RN_le x y : x <= y -> RN x <= RN y.
Proof. intros H. apply round_le; auto with typeclass_instances. Qed.

Lemma RN_0 : RN 0 = 0.
Proof. apply round_0; auto with typeclass_instances. Qed.

Lemma fmt_RN x : fmt (RN x).
Proof. apply generic_format_round; auto with typeclass_instances. Qed.

(* numbers m * 2^e with |m| <= 2^53 and e >= -1074 are binary64 numbers (no upper bound on e in this format) *)
Lemma fmt_F2R m e : (Z.abs m <= 2 ^ 53)%Z -> (-1074 <= e)%Z -> fmt (IZR m * bpow radix2 e).
Proof.
  intros Hm He. unfold fmt.
  destruct (Z.eq_dec (Z.abs m) (2 ^ 53)) as [E|NE].
  - (* m = +- 2^53 = +- 1 * 2^53 *)
    assert (M : m = (2 ^ 53)%Z \/ m = (- 2 ^ 53)%Z) by lia.
    assert (P : bpow radix2 53 * bpow radix2 e = bpow radix2 (53 + e)) by (rewrite <- bpow_plus; reflexivity).
    assert (I : IZR (2 ^ 53) = bpow radix2 53) by (rewrite <- (IZR_Zpower radix2) by lia; reflexivity).
    destruct M as [M|M]; rewrite M.
    + rewrite I, P. apply generic_format_FLT_bpow; auto with typeclass_instances. lia.
    + rewrite opp_IZR, I, Ropp_mult_distr_l_reverse, P. apply generic_format_opp.
      apply generic_format_FLT_bpow; auto with typeclass_instances. lia.
  - apply generic_format_FLT. exists (Float radix2 m e).
    + unfold F2R. reflexivity.
    + simpl. lia.
    + simpl. lia.
Qed.

Lemma fmt_IZR z : (Z.abs z <= 2 ^ 53)%Z -> fmt (IZR z).
Proof. intros H. replace (IZR z) with (IZR z * bpow radix2 0) by (simpl; ring). apply fmt_F2R; lia. Qed.

(* --- the operations of the model ----------------------------------------------------------------- *)
Lemma bpow_emax : bpow radix2 emax = bpow radix2 1024.
Proof. reflexivity. Qed.

Lemma fmul_correct x y : ffinite x -> ffinite y -> Rabs (RN (FR x * FR y)) < bpow radix2 1024 ->
  FR (x * y)%float = RN (FR x * FR y) /\ ffinite (x * y)%float.
Proof.
  unfold ffinite, FR. intros Fx Fy B. rewrite mul_equiv.
  generalize (Bmult_correct prec emax Hprec Hmax mode_NE (Prim2B x) (Prim2B y)).
  rewrite Rlt_bool_true by exact B.
  intros (HR & HF & _). rewrite HF, Fx, Fy. split; [exact HR|reflexivity].
Qed.

Lemma fdiv_correct x y : ffinite x -> FR y <> 0 -> Rabs (RN (FR x / FR y)) < bpow radix2 1024 ->
  FR (x / y)%float = RN (FR x / FR y) /\ ffinite (x / y)%float.
Proof.
  unfold ffinite, FR. intros Fx Ny B. rewrite div_equiv.
  generalize (Bdiv_correct prec emax Hprec Hmax mode_NE (Prim2B x) (Prim2B y) Ny).
  rewrite Rlt_bool_true by exact B.
  intros (HR & HF & _). rewrite HF, Fx. split; [exact HR|reflexivity].
Qed.

Lemma fadd_correct x y : ffinite x -> ffinite y -> Rabs (RN (FR x + FR y)) < bpow radix2 1024 ->
  FR (x + y)%float = RN (FR x + FR y) /\ ffinite (x + y)%float.
Proof.
  unfold ffinite, FR. intros Fx Fy B. rewrite add_equiv.
  generalize (Bplus_correct prec emax Hprec Hmax mode_NE (Prim2B x) (Prim2B y) Fx Fy).
  rewrite Rlt_bool_true by exact B.
  intros (HR & HF & _). split; [exact HR|exact HF].
Qed.

(* integer -> double (static_cast<double>(size - 1), the literal 2 of the midpoint) *)
Lemma Z2F_correct z : (0 <= z < 2 ^ 63)%Z -> FR (Z2F z) = RN (IZR z) /\ ffinite (Z2F z).
Proof.
  intros Hz. unfold Z2F. destruct (Z.ltb_spec z 0) as [L|L]; [lia|].
  unfold FR, ffinite. rewrite of_int63_equiv.
  assert (E : Uint63.to_Z (Uint63.of_Z z) = z).
  { rewrite Uint63.of_Z_spec. apply Z.mod_small. change Uint63.wB with (2 ^ 63)%Z. lia. }
  rewrite E.
  generalize (binary_normalize_correct prec emax Hprec Hmax mode_NE z 0 false).
  cbv zeta.
  assert (X : F2R (Float radix2 z 0) = IZR z) by (unfold F2R; simpl; ring).
  rewrite X.
  rewrite Rlt_bool_true.
  - intros (HR & HF & _). split; [exact HR|exact HF].
  - change (round radix2 (SpecFloat.fexp prec emax) (round_mode mode_NE) (IZR z)) with (RN (IZR z)).
    assert (U : RN (IZR z) <= RN (IZR (2 ^ 63))) by (apply RN_le, IZR_le; lia).
    assert (L0 : RN 0 <= RN (IZR z)) by (apply RN_le, IZR_le; lia).
    rewrite RN_0 in L0.
    rewrite (RN_fmt (IZR (2 ^ 63))) in U.
    2:{ replace (IZR (2 ^ 63)) with (IZR 1 * bpow radix2 63). apply fmt_F2R; lia.
        rewrite <- (IZR_Zpower radix2) by lia. simpl. ring. }
    rewrite Rabs_pos_eq by exact L0.
    eapply Rle_lt_trans; [exact U|].
    rewrite bpow_emax, <- (IZR_Zpower radix2 1024) by lia.
    apply IZR_lt. reflexivity.
Qed.

Lemma Z2F_exact z : (0 <= z <= 2 ^ 53)%Z -> FR (Z2F z) = IZR z /\ ffinite (Z2F z).
Proof.
  intros Hz. destruct (Z2F_correct z ltac:(lia)) as [E F]. split; [|exact F].
  rewrite E. apply RN_fmt, fmt_IZR. lia.
Qed.

(* a double denotes the number its spec float denotes *)
Lemma FR_SF x : FR x = SF2R radix2 (Prim2SF x).
Proof. unfold FR. rewrite <- B2SF_Prim2B. symmetry. apply SF2R_B2SF. Qed.

Lemma FR_100 : FR 100%float = 100 /\ ffinite 100%float.
Proof.
  split.
  - rewrite FR_SF. change (Prim2SF 100%float) with (S754_finite false 7036874417766400 (-46)).
    unfold SF2R, F2R. simpl. lra.
  - apply ffinite_prim. reflexivity.
Qed.

Lemma FR_2 : FR 2%float = 2 /\ ffinite 2%float.
Proof.
  split.
  - rewrite FR_SF. change (Prim2SF 2%float) with (S754_finite false 4503599627370496 (-51)).
    unfold SF2R, F2R. simpl. lra.
  - apply ffinite_prim. reflexivity.
Qed.

(* comparison of finite doubles *)
Lemma fleb_correct x y : ffinite x -> ffinite y -> (PrimFloat.leb x y = true <-> FR x <= FR y).
Proof.
  unfold ffinite, FR. intros Fx Fy. rewrite leb_equiv, (Bleb_correct _ _ _ _ Fx Fy).
  case Rle_bool_spec; intros; split; intros; try lra; try discriminate; reflexivity.
Qed.

(* leb against finite bounds forces finiteness *)
Lemma leb_bounds_finite lo x hi : ffinite lo -> ffinite hi ->
  PrimFloat.leb lo x = true -> PrimFloat.leb x hi = true -> ffinite x.
Proof.
  unfold ffinite. rewrite !leb_equiv. intros Fl Fh.
  destruct (Prim2B x) as [s|s| |s m e H]; try reflexivity.
  - destruct s; destruct (Prim2B lo) as [sl|sl| |sl ml el Hl]; destruct (Prim2B hi) as [sh|sh| |sh mh eh Hh];
      try discriminate; cbn; intros; try discriminate; destruct sl, sh; try discriminate.
  - destruct (Prim2B lo) as [sl|sl| |sl ml el Hl]; cbn; intros; discriminate.
Qed.

(* --- floor / ceil of a double -------------------------------------------------------------------- *)
Lemma float_floor_ceil_correct x : ffinite x ->
  float_floor x = Zfloor (FR x) /\ float_ceil x = Zceil (FR x).
Proof.
  unfold ffinite, FR, float_floor, float_ceil. rewrite <- B2SF_Prim2B.
  destruct (Prim2B x) as [s|s| |s m e H]; try discriminate; intros _.
  - simpl. rewrite Zfloor_IZR, Zceil_IZR. split; reflexivity.
  - cbn [B2SF B2R].
    set (z := if s then Zneg m else Zpos m).
    assert (Ez : cond_Zopp s (Zpos m) = z) by (destruct s; reflexivity).
    rewrite Ez. unfold F2R. cbn [Fnum Fexp].
    destruct (Z_lt_le_dec e 0) as [Neg|Pos].
    + rewrite SFfloor_div, SFceil_div by exact Neg. fold z.
      assert (B : bpow radix2 e = / IZR (2 ^ (- e))).
      { replace e with (- (- e))%Z at 1 by lia. rewrite bpow_opp.
        rewrite <- (IZR_Zpower radix2) by lia. reflexivity. }
      assert (NZ : (2 ^ (- e) <> 0)%Z) by (apply Z.pow_nonzero; lia).
      rewrite B. split.
      * symmetry. apply (Zfloor_div z _ NZ).
      * unfold Zceil. f_equal.
        replace (- (IZR z * / IZR (2 ^ (- e)))) with (IZR (- z) / IZR (2 ^ (- e))) by (rewrite opp_IZR; unfold Rdiv; ring).
        symmetry. apply (Zfloor_div (- z) _ NZ).
    + destruct (SFfloor_int s m e Pos) as [E1 E2]. rewrite E1, E2. fold z.
      assert (B : IZR z * bpow radix2 e = IZR (z * 2 ^ e)).
      { rewrite mult_IZR. rewrite <- (IZR_Zpower radix2) by lia. reflexivity. }
      rewrite B, Zfloor_IZR, Zceil_IZR. split; reflexivity.
Qed.

(* the rational number test of C20_Proofs, in real numbers *)
Lemma SFvalue_is_FR x num den : (0 < den)%Z -> SFvalue_is (Prim2SF x) num den = true ->
  FR x = IZR num / IZR den /\ ffinite x.
Proof.
  intros Hd. unfold ffinite. rewrite FR_SF, <- B2SF_Prim2B.
  assert (D : IZR den <> 0) by (apply not_0_IZR; lia).
  destruct (Prim2B x) as [s|s| |s m e H]; cbn [B2SF SFvalue_is]; try discriminate.
  - intros E. apply Z.eqb_eq in E. subst num. split; [|reflexivity]. simpl. unfold Rdiv. ring.
  - set (z := if s then Zneg m else Zpos m).
    assert (Ez : cond_Zopp s (Zpos m) = z) by (destruct s; reflexivity).
    intros E. split; [|reflexivity]. unfold SF2R, F2R. cbn [Fnum Fexp]. rewrite Ez.
    destruct (Z.leb_spec 0 e) as [Pos|Neg]; apply Z.eqb_eq in E.
    + assert (B : bpow radix2 e = IZR (2 ^ e)) by (rewrite <- (IZR_Zpower radix2) by lia; reflexivity).
      rewrite <- E, B, !mult_IZR. field. exact D.
    + assert (B : bpow radix2 e = / IZR (2 ^ (- e))).
      { replace e with (- (- e))%Z at 1 by lia. rewrite bpow_opp.
        rewrite <- (IZR_Zpower radix2) by lia. reflexivity. }
      assert (P : IZR (2 ^ (- e)) <> 0) by (apply not_0_IZR, Z.pow_nonzero; lia).
      rewrite B. apply (f_equal IZR) in E. rewrite !mult_IZR in E.
      replace (IZR num) with (IZR z * IZR den * / IZR (2 ^ (- e))).
      2:{ rewrite E. field. exact P. }
      field. split; assumption.
Qed.

End Bridge.

(* ------------------------------------------------------------------------------------------------ *)
(* 2. the real-number core                                                                           *)
(* ------------------------------------------------------------------------------------------------ *)
Section Core.
Local Open Scope R_scope.

Lemma Zdiv_ceil_cases N D : (0 < D)%Z ->
  ((N mod D = 0)%Z -> (- ((- N) / D) = N / D)%Z) /\ ((N mod D <> 0)%Z -> (- ((- N) / D) = N / D + 1)%Z).
Proof.
  intros HD.
  pose proof (Z.div_mod N D ltac:(lia)) as D1. pose proof (Z.mod_pos_bound N D HD) as B1.
  pose proof (Z.div_mod (- N) D ltac:(lia)) as D2. pose proof (Z.mod_pos_bound (- N) D HD) as B2.
  split; intros H; nia.
Qed.

(* the unit roundoff of binary64 *)
Definition u64 : R := / 9007199254740992.

Lemma u64_bpow : / 2 * bpow radix2 (- (53) + 1) = u64.
Proof.
  change (- (53) + 1)%Z with (- (52))%Z. rewrite bpow_opp.
  rewrite <- (IZR_Zpower radix2 52) by lia.
  change (IZR (radix2 ^ 52)) with 4503599627370496. unfold u64. lra.
Qed.

(* relative error of rounding to nearest in the normal range *)
Lemma RN_rel x : bpow radix2 (-1022) <= Rabs x -> Rabs (RN x - x) <= u64 * Rabs x.
Proof.
  intros H. rewrite <- u64_bpow.
  apply (relative_error_N_FLT radix2 (-1074) 53 Hprec53 (fun n => negb (Z.even n)) x). exact H.
Qed.

(* rounding the quotient of two integers, numerator below 2^53, not in the subnormal range:
   floor and ceiling are those of the exact quotient *)
Lemma RN_quot N D : (0 <= N < 2 ^ 53)%Z -> (0 < D)%Z ->
  (N = 0%Z \/ bpow radix2 (-1022) <= IZR N / IZR D) ->
  Zfloor (RN (IZR N / IZR D)) = (N / D)%Z /\ Zceil (RN (IZR N / IZR D)) = (- ((- N) / D))%Z.
Proof.
  intros HN HD HU.
  set (r := IZR N / IZR D). set (f := (N / D)%Z).
  assert (Dp : 0 < IZR D) by (apply IZR_lt; lia).
  assert (Hf : Zfloor r = f) by (apply Zfloor_div; lia).
  assert (F0 : (0 <= f <= N)%Z).
  { unfold f. split; [apply Z.div_pos; lia|apply Z.div_le_upper_bound; nia]. }
  assert (Lb : IZR f <= r) by (rewrite <- Hf; apply Zfloor_lb).
  assert (Ub : r < IZR f + 1) by (rewrite <- Hf; apply Zfloor_ub).
  assert (R1 : IZR f <= RN r).
  { rewrite <- (RN_fmt (IZR f)) by (apply fmt_IZR; lia). apply RN_le, Lb. }
  assert (R2 : RN r <= IZR (f + 1)).
  { rewrite <- (RN_fmt (IZR (f + 1))) by (apply fmt_IZR; lia). apply RN_le. rewrite plus_IZR. lra. }
  destruct (Zdiv_ceil_cases N D HD) as [C0 C1].
  destruct (Z.eq_dec (N mod D) 0) as [M|M].
  - rewrite (C0 M). fold f.
    assert (Er : r = IZR f).
    { unfold r. assert (EN : (N = D * f)%Z).
      { unfold f. pose proof (Z.div_mod N D ltac:(lia)). lia. }
      rewrite EN at 1. rewrite mult_IZR. field. lra. }
    rewrite Er, RN_fmt by (apply fmt_IZR; lia). rewrite Zfloor_IZR, Zceil_IZR. split; reflexivity.
  - rewrite (C1 M). fold f.
    set (rem := (N mod D)%Z).
    assert (Hrem : (N = D * f + rem /\ 1 <= rem <= D - 1)%Z).
    { unfold f, rem. pose proof (Z.div_mod N D ltac:(lia)). pose proof (Z.mod_pos_bound N D HD). lia. }
    destruct Hrem as [EN Brem].
    assert (NZ : N <> 0%Z). { intros E. apply M. rewrite E. apply Z.mod_0_l. lia. }
    destruct HU as [HU|HU]; [contradiction|]. fold r in HU.
    set (t := / IZR D). assert (Tp : 0 < t) by (apply Rinv_0_lt_compat, Dp).
    assert (DT : IZR D * t = 1) by (unfold t; field; lra).
    assert (Er : r = IZR f + IZR rem * t).
    { unfold r, t. rewrite EN at 1. rewrite plus_IZR, mult_IZR. field. lra. }
    assert (Rp : 0 <= r). { rewrite Er. assert (0 <= IZR f) by (apply IZR_le; lia). assert (1 <= IZR rem) by (apply IZR_le; lia). nra. }
    assert (Rel := RN_rel r). rewrite (Rabs_pos_eq r Rp) in Rel. specialize (Rel HU).
    apply Rabs_le_inv in Rel.
    assert (Un : u64 * r < t).
    { unfold r, Rdiv. fold t. assert (Nb : IZR N <= 9007199254740991) by (apply IZR_le; lia).
      assert (N0 : 0 <= IZR N) by (apply IZR_le; lia).
      assert (u64 * IZR N < 1) by (unfold u64; lra). nra. }
    assert (Rm1 : 1 <= IZR rem) by (apply IZR_le; lia).
    assert (Rm2 : IZR rem <= IZR D - 1) by (rewrite <- minus_IZR; apply IZR_le; lia).
    assert (S1 : IZR f < RN r) by nra.
    assert (S2 : RN r < IZR f + 1) by nra.
    split.
    + apply Zfloor_imp. rewrite plus_IZR. lra.
    + apply Zceil_imp. replace (f + 1 - 1)%Z with f by lia. rewrite plus_IZR. lra.
Qed.

End Core.

(* ------------------------------------------------------------------------------------------------ *)
(* 3. the position of detail::percentile                                                             *)
(* ------------------------------------------------------------------------------------------------ *)
Section Position.
Local Open Scope R_scope.

Lemma lt_emax x : Rabs x <= IZR (2 ^ 62) -> Rabs x < bpow radix2 1024.
Proof.
  intros H. eapply Rle_lt_trans; [exact H|].
  rewrite <- (IZR_Zpower radix2 1024) by lia. apply IZR_lt. reflexivity.
Qed.

Lemma Zfloor_ceil_close x : (Zfloor x <= Zceil x <= Zfloor x + 1)%Z.
Proof.
  destruct (Req_dec (IZR (Zfloor x)) x) as [E|NE].
  - rewrite <- E at 2 3. rewrite Zceil_IZR. lia.
  - rewrite (Zceil_floor_neq x NE). lia.
Qed.

(* every percentage: the position is the twice rounded real expression, it lies in [0, n-1], and so do the
   two indices (no out-of-range access for any double in [0, 100]) *)
Lemma position_correct p n : ffinite p -> 0 <= FR p <= 100 -> (1 <= n)%Z -> (n - 1 <= 2 ^ 46)%Z ->
  let pos := pct_position p n in
  ffinite pos /\ FR pos = RN (RN (FR p * IZR (n - 1)) / 100) /\ 0 <= FR pos <= IZR (n - 1) /\
  pct_lpos p n = Zfloor (FR pos) /\ pct_rpos p n = Zceil (FR pos).
Proof.
  intros Fp Bp Hn1 Hn2. cbv zeta. unfold pct_lpos, pct_rpos, pct_position. rewrite k_pct_last.
  set (m := (n - 1)%Z).
  destruct (Z2F_exact m ltac:(unfold m; lia)) as [Em Fm].
  destruct FR_100 as [E100 F100].
  assert (M0 : 0 <= IZR m) by (apply IZR_le; unfold m; lia).
  assert (M1 : IZR m <= 70368744177664) by (apply IZR_le; unfold m; lia).
  (* product *)
  assert (P0 : 0 <= RN (FR p * IZR m)) by (rewrite <- RN_0; apply RN_le; nra).
  assert (P1 : RN (FR p * IZR m) <= 100 * IZR m).
  { rewrite <- (RN_fmt (100 * IZR m)).
    - apply RN_le. nra.
    - change 100 with (IZR 100). rewrite <- mult_IZR. apply fmt_IZR. unfold m. lia. }
  destruct (fmul_correct p (Z2F m) Fp Fm) as [Ex Fx].
  { rewrite Em. apply lt_emax. rewrite Rabs_pos_eq by exact P0.
    eapply Rle_trans; [exact P1|]. change 100 with (IZR 100). rewrite <- mult_IZR. apply IZR_le. unfold m. lia. }
  rewrite Em in Ex.
  (* quotient *)
  assert (Q0 : 0 <= RN (RN (FR p * IZR m) / 100)) by (rewrite <- RN_0; apply RN_le; lra).
  assert (Q1 : RN (RN (FR p * IZR m) / 100) <= IZR m).
  { apply Rle_trans with (RN (IZR m)); [apply RN_le; lra|].
    rewrite RN_fmt by (apply fmt_IZR; unfold m; lia). lra. }
  destruct (fdiv_correct (p * Z2F m)%float 100%float Fx) as [Eq Fq].
  { rewrite E100. lra. }
  { rewrite Ex, E100. apply lt_emax. rewrite Rabs_pos_eq by exact Q0.
    eapply Rle_trans; [exact Q1|]. apply IZR_le. unfold m. lia. }
  rewrite Ex, E100 in Eq.
  destruct (float_floor_ceil_correct _ Fq) as [Efl Ece].
  split; [exact Fq|]. split; [exact Eq|]. split; [rewrite Eq; split; assumption|].
  split; assumption.
Qed.

Lemma position_range p n : ffinite p -> 0 <= FR p <= 100 -> (1 <= n)%Z -> (n - 1 <= 2 ^ 46)%Z ->
  (0 <= pct_lpos p n <= pct_rpos p n /\ pct_rpos p n <= n - 1 /\ pct_rpos p n <= pct_lpos p n + 1)%Z.
Proof.
  intros Fp Bp Hn1 Hn2.
  destruct (position_correct p n Fp Bp Hn1 Hn2) as (_ & _ & [B0 B1] & El & Er).
  rewrite El, Er. pose proof (Zfloor_ceil_close (FR (pct_position p n))) as C.
  assert (L : (0 <= Zfloor (FR (pct_position p n)))%Z) by (apply Zfloor_lub; exact B0).
  assert (U : (Zceil (FR (pct_position p n)) <= n - 1)%Z) by (apply Zceil_glb; exact B1).
  lia.
Qed.

(* the indices are monotone in the percentage *)
Lemma position_monotone p p' n : ffinite p -> ffinite p' -> 0 <= FR p -> FR p <= FR p' -> FR p' <= 100 ->
  (1 <= n)%Z -> (n - 1 <= 2 ^ 46)%Z ->
  (pct_lpos p n <= pct_lpos p' n /\ pct_rpos p n <= pct_rpos p' n)%Z.
Proof.
  intros Fp Fp' B0 B1 B2 Hn1 Hn2.
  destruct (position_correct p n Fp ltac:(lra) Hn1 Hn2) as (_ & E & _ & El & Er).
  destruct (position_correct p' n Fp' ltac:(lra) Hn1 Hn2) as (_ & E' & _ & El' & Er').
  rewrite El, Er, El', Er', E, E'.
  assert (M0 : 0 <= IZR (n - 1)) by (apply IZR_le; lia).
  assert (L : RN (RN (FR p * IZR (n - 1)) / 100) <= RN (RN (FR p' * IZR (n - 1)) / 100)).
  { apply RN_le. assert (RN (FR p * IZR (n - 1)) <= RN (FR p' * IZR (n - 1))) by (apply RN_le; nra). lra. }
  split; [apply Zfloor_le|apply Zceil_le]; exact L.
Qed.

(* dyadic percentages k / 2^j with k (n-1) < 2^53: the product is exact, the quotient is correctly rounded, and the
   indices are the floor and the ceiling of the exact rational position *)
Lemma position_dyadic p k j n : SFvalue_is (Prim2SF p) k (2 ^ j) = true -> pos_side_ok k j n = true ->
  let pos := pct_position p n in
  ffinite pos /\
  FR (p * Z2F (n - 1))%float = IZR (k * (n - 1)) / IZR (2 ^ j) /\
  FR pos = RN (IZR (k * (n - 1)) / IZR (100 * 2 ^ j)) /\
  pct_lpos p n = ref_lpos k j n /\ pct_rpos p n = ref_rpos k j n.
Proof.
  intros Hp Hs. cbv zeta. unfold pos_side_ok in Hs.
  repeat (apply andb_true_iff in Hs; destruct Hs as [Hs ?]).
  repeat match goal with H : (_ <=? _)%Z = true |- _ => apply Z.leb_le in H | H : (_ <? _)%Z = true |- _ => apply Z.ltb_lt in H end.
  rename Hs into K0.
  unfold pct_lpos, pct_rpos, pct_position, ref_lpos, ref_rpos. rewrite k_pct_last.
  set (m := (n - 1)%Z) in *. set (N := (k * m)%Z) in *.
  assert (J2 : (0 < 2 ^ j)%Z) by (apply Z.pow_pos_nonneg; lia).
  destruct (SFvalue_is_FR p k (2 ^ j) J2 Hp) as [Ep Fp].
  destruct (Z2F_exact m ltac:(lia)) as [Em Fm].
  destruct FR_100 as [E100 F100].
  assert (M0 : (0 <= m)%Z) by lia.
  assert (N0 : (0 <= N)%Z) by (unfold N; nia).
  assert (Jr : 1 <= IZR (2 ^ j)) by (apply IZR_le; lia).
  assert (Nr0 : 0 <= IZR N) by (apply IZR_le; lia).
  assert (Nr1 : IZR N <= 9007199254740991) by (apply IZR_le; lia).
  (* the product *)
  assert (Eprod : FR p * IZR m = IZR N / IZR (2 ^ j)).
  { rewrite Ep. unfold N. rewrite mult_IZR. field. lra. }
  assert (Fprod : fmt (IZR N / IZR (2 ^ j))).
  { replace (IZR N / IZR (2 ^ j)) with (IZR N * bpow radix2 (- j)).
    - apply fmt_F2R; lia.
    - rewrite bpow_opp. rewrite <- (IZR_Zpower radix2) by lia. reflexivity. }
  assert (Bprod : 0 <= IZR N / IZR (2 ^ j) <= IZR N).
  { split.
    - apply Rmult_le_pos; [lra|]. apply Rlt_le, Rinv_0_lt_compat. lra.
    - apply (Rmult_le_reg_r (IZR (2 ^ j))); [lra|]. unfold Rdiv. rewrite Rmult_assoc, Rinv_l by lra. nra. }
  destruct (fmul_correct p (Z2F m) Fp Fm) as [Ex Fx].
  { rewrite Em, Eprod, RN_fmt by exact Fprod. apply lt_emax. rewrite Rabs_pos_eq by lra.
    eapply Rle_trans; [apply Bprod|]. apply IZR_le. lia. }
  rewrite Em, Eprod, RN_fmt in Ex by exact Fprod.
  (* the quotient *)
  set (D := (100 * 2 ^ j)%Z).
  assert (D0 : (0 < D)%Z) by (unfold D; lia).
  assert (Dr : 1 <= IZR D) by (apply IZR_le; lia).
  assert (Equot : IZR N / IZR (2 ^ j) / 100 = IZR N / IZR D).
  { unfold D. rewrite mult_IZR. field. lra. }
  assert (Bquot : 0 <= IZR N / IZR D <= IZR N).
  { split.
    - apply Rmult_le_pos; [lra|]. apply Rlt_le, Rinv_0_lt_compat. lra.
    - apply (Rmult_le_reg_r (IZR D)); [lra|]. unfold Rdiv. rewrite Rmult_assoc, Rinv_l by lra. nra. }
  assert (Q0 : 0 <= RN (IZR N / IZR D)) by (rewrite <- RN_0; apply RN_le; lra).
  assert (Q1 : RN (IZR N / IZR D) <= IZR N).
  { apply Rle_trans with (RN (IZR N)); [apply RN_le; lra|].
    rewrite RN_fmt by (apply fmt_IZR; lia). lra. }
  destruct (fdiv_correct (p * Z2F m)%float 100%float Fx) as [Eq Fq].
  { rewrite E100. lra. }
  { rewrite Ex, E100, Equot. apply lt_emax. rewrite Rabs_pos_eq by exact Q0.
    eapply Rle_trans; [exact Q1|]. apply IZR_le. lia. }
  rewrite Ex, E100, Equot in Eq.
  destruct (float_floor_ceil_correct _ Fq) as [Efl Ece].
  (* no underflow: a non-zero quotient is at least 1/D >= 2^-1022 *)
  assert (HU : N = 0%Z \/ bpow radix2 (-1022) <= IZR N / IZR D).
  { destruct (Z.eq_dec N 0) as [Z0|NZ]; [left; exact Z0|right].
    assert (N1 : 1 <= IZR N) by (apply IZR_le; lia).
    assert (DU : (D <= 2 ^ 1022)%Z).
    { unfold D. assert (P : (2 ^ j <= 2 ^ 1015)%Z) by (apply Z.pow_le_mono_r; lia).
      replace (2 ^ 1022)%Z with (128 * 2 ^ 1015)%Z by reflexivity. lia. }
    assert (B : bpow radix2 (-1022) = / IZR (2 ^ 1022)).
    { change (-1022)%Z with (- (1022))%Z. rewrite bpow_opp. rewrite <- (IZR_Zpower radix2) by lia. reflexivity. }
    rewrite B. apply IZR_le in DU.
    assert (I1 : / IZR (2 ^ 1022) <= / IZR D) by (apply Rinv_le; lra).
    assert (I2 : 0 < / IZR D) by (apply Rinv_0_lt_compat; lra).
    unfold Rdiv. nra. }
  destruct (RN_quot N D ltac:(lia) D0 HU) as [Rf Rc].
  split; [exact Fq|]. split; [exact Ex|]. split; [exact Eq|].
  rewrite Efl, Ece, Eq. split; assumption.
Qed.

End Position.

(* ------------------------------------------------------------------------------------------------ *)
(* 4. composition with the order-statistic theorems                                                  *)
(* ------------------------------------------------------------------------------------------------ *)
Section Compose.
Context {T : Type} (Op : ops T).
Hypothesis cmp_antisym : forall x y, cmp Op y x = (- cmp Op x y)%Z.
Hypothesis cmp_trans : forall x y z, (cmp Op x y <= 0 -> cmp Op y z <= 0 -> cmp Op x z <= 0)%Z.
Local Open Scope Z_scope.

(* the property's formula: the value at position k (n-1) / (100 2^j) of the sorted list, the midpoint of the two
   neighbours when the position is fractional *)
Lemma percentile_dyadic l p k j :
  SFvalue_is (Prim2SF p) k (2 ^ j) = true -> pos_side_ok k j (Z.of_nat (length l)) = true ->
  let s := sort Op l in
  let a := k * (Z.of_nat (length l) - 1) in
  let D := 100 * 2 ^ j in
  percentile Op l p =
  if a mod D =? 0 then nthZ Op s (a / D) else midpoint Op (nthZ Op s (a / D)) (nthZ Op s (a / D + 1)).
Proof.
  intros Hp Hs s a D.
  destruct (percentile_spec Op cmp_antisym cmp_trans l p) as (_ & _ & E). rewrite E. clear E. fold s.
  destruct (position_dyadic p k j _ Hp Hs) as (_ & _ & _ & Hl & Hr).
  rewrite Hl, Hr. unfold ref_lpos, ref_rpos. fold a D.
  assert (D0 : 0 < D). { unfold D. assert (0 < 2 ^ j) by (apply Z.pow_pos_nonneg; [lia|]; unfold pos_side_ok in Hs; lia). lia. }
  destruct (Zdiv_ceil_cases a D D0) as [C0 C1].
  destruct (Z.eqb_spec (a mod D) 0) as [e|e].
  - rewrite (C0 e), Z.eqb_refl. reflexivity.
  - rewrite (C1 e). destruct (Z.eqb_spec (a / D) (a / D + 1)) as [e'|e']; [lia|]. reflexivity.
Qed.

(* the median, for every length below 2^47 *)
Lemma median_all l : (1 <= length l)%nat -> Z.of_nat (length l) - 1 < 2 ^ 47 ->
  let s := sort Op l in
  let n := Z.of_nat (length l) in
  median Op l =
  if Z.odd n then nthZ Op s ((n - 1) / 2)
  else midpoint Op (nthZ Op s (n / 2 - 1)) (nthZ Op s (n / 2)).
Proof.
  intros Hn1 Hn2 s n. unfold median.
  assert (Hp : SFvalue_is (Prim2SF 50%float) 50 (2 ^ 0) = true) by reflexivity.
  assert (Hs : pos_side_ok 50 0 (Z.of_nat (length l)) = true).
  { unfold pos_side_ok. fold n. change (2 ^ 47) with 140737488355328 in Hn2. fold n in Hn2.
    change (2 ^ 53) with 9007199254740992.
    repeat (apply andb_true_iff; split); try reflexivity; try (apply Z.leb_le; lia); apply Z.ltb_lt; lia. }
  rewrite (percentile_dyadic l 50%float 50 0 Hp Hs). fold s n. change (100 * 2 ^ 0) with 100.
  pose proof (Zdiv2_odd_eqn n) as P. rewrite Z.div2_div in P.
  destruct (Z.odd n).
  - replace (50 * (n - 1)) with ((n / 2) * 100) by lia.
    rewrite Z.mod_mul, Z.div_mul by lia. simpl.
    replace ((n - 1) / 2) with (n / 2). reflexivity.
    replace (n - 1) with (n / 2 * 2) by lia. rewrite Z.div_mul; lia.
  - replace (50 * (n - 1)) with (50 + (n / 2 - 1) * 100) by lia.
    rewrite Z.mod_add, Z.div_add by lia. simpl.
    replace (n / 2 - 1 + 1) with (n / 2) by lia. reflexivity.
Qed.

End Compose.

(* ------------------------------------------------------------------------------------------------ *)
(* 5. the midpoint in binary64: isfinite(a + b) ? (a + b) / 2 : a / 2 + b / 2 (repaired, /repo 985fdb5) *)
(* ------------------------------------------------------------------------------------------------ *)
Section Midpoint.
Local Open Scope R_scope.

Lemma fmt_double x : fmt x -> fmt (2 * x).
Proof.
  intros H. destruct (FLT_format_generic radix2 (-1074) 53 x H) as [f Hx Hm He].
  apply generic_format_FLT. exists (Float radix2 (Fnum f) (Fexp f + 1)).
  - rewrite Hx. unfold F2R. cbn [Fnum Fexp]. rewrite bpow_plus. change (bpow radix2 1) with 2. ring.
  - exact Hm.
  - cbn [Fexp]. lia.
Qed.

(* the sum either fits (and is the rounded real sum) or overflows to the infinity of the operands' common sign *)
Lemma fadd_cases a b : ffinite a -> ffinite b ->
  (ffinite (a + b)%float /\ FR (a + b)%float = RN (FR a + FR b) /\ Rabs (RN (FR a + FR b)) < bpow radix2 1024) \/
  (bpow radix2 1024 <= Rabs (RN (FR a + FR b)) /\ Prim2B (a + b)%float = B754_infinity (Bsign (Prim2B a))).
Proof.
  unfold ffinite, FR. intros Fa Fb. rewrite add_equiv.
  generalize (Bplus_correct prec emax Hprec Hmax mode_NE (Prim2B a) (Prim2B b) Fa Fb).
  change (round radix2 (SpecFloat.fexp prec emax) (round_mode mode_NE)) with RN.
  case Rlt_bool_spec; intros B.
  - intros (HR & HF & _). left. split; [exact HF|]. split; [exact HR|exact B].
  - intros (HS & _). right. split; [exact B|].
    unfold binary_overflow in HS. simpl in HS.
    destruct (Bplus mode_NE (Prim2B a) (Prim2B b)) as [s|s| |s m e H]; simpl in HS; try discriminate.
    inversion HS. reflexivity.
Qed.

(* the pre-repair expression (a + b) / 2: for finite a <= b whose sum does not overflow it lies between them *)
Lemma fmid_prefix_between a b : ffinite a -> ffinite b -> FR a <= FR b -> ffinite (a + b)%float ->
  ffinite (fmid_prefix a b) /\ FR (fmid_prefix a b) = RN (RN (FR a + FR b) / 2) /\ FR a <= FR (fmid_prefix a b) <= FR b.
Proof.
  intros Fa Fb Hab Fs. unfold fmid_prefix.
  destruct (fadd_cases a b Fa Fb) as [(_ & Es & Bs)|(_ & Inf)].
  2:{ unfold ffinite in Fs. rewrite Inf in Fs. discriminate. }
  destruct FR_2 as [E2 F2].
  pose proof (fmt_FR a) as Ma. pose proof (fmt_FR b) as Mb.
  assert (S1 : 2 * FR a <= RN (FR a + FR b)).
  { rewrite <- (RN_fmt (2 * FR a)) by (apply fmt_double, Ma). apply RN_le. lra. }
  assert (S2 : RN (FR a + FR b) <= 2 * FR b).
  { rewrite <- (RN_fmt (2 * FR b)) by (apply fmt_double, Mb). apply RN_le. lra. }
  assert (Q1 : FR a <= RN (RN (FR a + FR b) / 2)).
  { apply Rle_trans with (RN (FR a)); [rewrite RN_fmt by exact Ma; lra|apply RN_le; lra]. }
  assert (Q2 : RN (RN (FR a + FR b) / 2) <= FR b).
  { apply Rle_trans with (RN (FR b)); [apply RN_le; lra|rewrite RN_fmt by exact Mb; lra]. }
  destruct (fdiv_correct (a + b)%float 2%float Fs) as [Eq Fq].
  { rewrite E2. lra. }
  { rewrite Es, E2.
    pose proof (abs_B2R_lt_emax prec emax (Prim2B a)) as Ba.
    pose proof (abs_B2R_lt_emax prec emax (Prim2B b)) as Bb.
    fold (FR a) in Ba. fold (FR b) in Bb. rewrite bpow_emax in Ba, Bb.
    apply Rabs_lt. apply Rabs_lt_inv in Ba. apply Rabs_lt_inv in Bb. lra. }
  rewrite Es, E2 in Eq. split; [exact Fq|]. split; [exact Eq|]. rewrite Eq. split; assumption.
Qed.

(* --- the overflow branch of the repaired code ------------------------------------------------------ *)
Lemma bpow_971 : bpow radix2 971 = 2 * bpow radix2 970.
Proof. change 971%Z with (970 + 1)%Z. rewrite bpow_plus. change (bpow radix2 1) with 2. ring. Qed.

(* a binary64 number below 2^1024 is at most the largest double 2^1024 - 2^971 *)
Lemma fmt_le_max x : fmt x -> x < bpow radix2 1024 -> x <= bpow radix2 1024 - bpow radix2 971.
Proof.
  intros Fx H.
  assert (Fy : fmt (bpow radix2 1024)) by (apply generic_format_FLT_bpow; auto with typeclass_instances; lia).
  pose proof (pred_ge_gt radix2 (FLT_exp (-1074) 53) x (bpow radix2 1024) Fx Fy H) as P.
  rewrite pred_bpow in P. exact P.
Qed.

Lemma fmt_max : fmt (bpow radix2 1024 - bpow radix2 971).
Proof.
  replace (bpow radix2 1024 - bpow radix2 971) with (IZR (2 ^ 53 - 1) * bpow radix2 971).
  - apply fmt_F2R; lia.
  - rewrite minus_IZR. replace (IZR (2 ^ 53)) with (bpow radix2 53) by (rewrite <- (IZR_Zpower radix2) by lia; reflexivity).
    change 1024%Z with (53 + 971)%Z. rewrite bpow_plus. simpl IZR. ring.
Qed.

(* rounding to nearest reaches 2^1024 only from 2^1024 - 2^970 (the midpoint above the largest double) on *)
Lemma RN_overflow_lower x : bpow radix2 1024 <= RN x -> bpow radix2 1024 - bpow radix2 970 <= x.
Proof.
  intros H. destruct (Rle_or_lt (bpow radix2 1024 - bpow radix2 970) x) as [L|L]; [exact L|exfalso].
  pose proof bpow_971 as E971. pose proof (bpow_gt_0 radix2 970) as H970.
  pose proof fmt_max as Fg. set (g := bpow radix2 1024 - bpow radix2 971) in *.
  destruct (Rle_or_lt x g) as [Lg|Lg].
  - assert (RN x <= g) by (rewrite <- (RN_fmt g Fg); apply RN_le, Lg). unfold g in *. lra.
  - destruct (round_N_pt radix2 (FLT_exp (-1074) 53) (fun n => negb (Z.even n)) x) as [_ N].
    specialize (N g Fg). fold (RN x) in N.
    rewrite Rabs_pos_eq in N by (unfold g in *; lra). rewrite Rabs_left in N by lra. unfold g in *. lra.
Qed.

Lemma RN_opp x : RN (- x) = - RN x.
Proof. apply round_NE_opp. Qed.

(* halving a number of magnitude >= 2^-1021 is exact *)
Lemma fmt_half x : fmt x -> bpow radix2 (-1021) <= Rabs x -> fmt (x / 2).
Proof.
  intros H Hx. destruct (FLT_format_generic radix2 (-1074) 53 x H) as [f Ex Hm He].
  assert (NE : Fexp f <> (-1074)%Z).
  { intros E. revert Hx. rewrite Ex. unfold F2R. rewrite E, Rabs_mult, (Rabs_pos_eq (bpow radix2 (-1074))) by apply bpow_ge_0.
    rewrite <- abs_IZR. intros Hx.
    assert (M : IZR (Z.abs (Fnum f)) <= IZR (2 ^ 53 - 1)) by (apply IZR_le; simpl in Hm; lia).
    rewrite minus_IZR in M.
    replace (IZR (2 ^ 53)) with (bpow radix2 53) in M by (rewrite <- (IZR_Zpower radix2) by lia; reflexivity).
    assert (P : bpow radix2 (-1021) = bpow radix2 53 * bpow radix2 (-1074)) by (rewrite <- bpow_plus; reflexivity).
    pose proof (bpow_gt_0 radix2 (-1074)). simpl IZR in M. nra. }
  apply generic_format_FLT. exists (Float radix2 (Fnum f) (Fexp f - 1)).
  - rewrite Ex. unfold F2R. cbn [Fnum Fexp]. unfold Zminus. rewrite bpow_plus. change (bpow radix2 (- (1))) with (/ 2). field.
  - exact Hm.
  - cbn [Fexp]. lia.
Qed.

(* when the sum of finite a <= b overflows both have magnitude at least 2^970 *)
Lemma overflow_large A B : fmt A -> fmt B -> A <= B -> Rabs A < bpow radix2 1024 -> Rabs B < bpow radix2 1024 ->
  bpow radix2 1024 <= Rabs (RN (A + B)) -> bpow radix2 970 <= Rabs A /\ bpow radix2 970 <= Rabs B.
Proof.
  intros FA FB Hab BA BB Ov.
  pose proof bpow_971 as E971. pose proof (bpow_gt_0 radix2 970) as H970.
  apply Rabs_lt_inv in BA. apply Rabs_lt_inv in BB.
  destruct (Rle_or_lt 0 (RN (A + B))) as [P|N].
  - rewrite Rabs_pos_eq in Ov by exact P.
    pose proof (RN_overflow_lower _ Ov) as L.
    pose proof (fmt_le_max B FB ltac:(lra)) as UB.
    split; rewrite Rabs_pos_eq by lra; lra.
  - rewrite Rabs_left in Ov by exact N.
    rewrite <- RN_opp in Ov. pose proof (RN_overflow_lower _ Ov) as L.
    pose proof (fmt_le_max (- A) (generic_format_opp _ _ _ FA) ltac:(lra)) as UA.
    split; rewrite Rabs_left by lra; lra.
Qed.

(* the repaired midpoint: for ALL finite a <= b it is finite and lies in [a, b]; when a + b is finite it is the
   pre-repair value fl(fl(a + b) / 2); when a + b overflows it is the correctly rounded exact midpoint *)
Lemma fmid_total a b : ffinite a -> ffinite b -> FR a <= FR b ->
  ffinite (fmid a b) /\ FR a <= FR (fmid a b) <= FR b /\
  (ffinite (a + b)%float -> fmid a b = fmid_prefix a b /\ FR (fmid a b) = RN (RN (FR a + FR b) / 2)) /\
  (~ ffinite (a + b)%float -> fmid a b = (a / 2 + b / 2)%float /\ FR (fmid a b) = RN ((FR a + FR b) / 2)).
Proof.
  intros Fa Fb Hab. unfold fmid. cbv zeta.
  destruct (PrimFloat.is_finite (a + b)%float) eqn:Efin.
  - assert (Fs : ffinite (a + b)%float) by (apply ffinite_prim, Efin).
    destruct (fmid_prefix_between a b Fa Fb Hab Fs) as (F & E & Bt). unfold fmid_prefix in *.
    split; [exact F|]. split; [exact Bt|]. split; [intros _; split; [reflexivity|exact E]|].
    intros NF. contradiction.
  - assert (NFs : ~ ffinite (a + b)%float) by (intros F; apply ffinite_prim in F; congruence).
    destruct (fadd_cases a b Fa Fb) as [(F & _)|(Ov & _)]; [contradiction|].
    destruct FR_2 as [E2 F2].
    pose proof (fmt_FR a) as Ma. pose proof (fmt_FR b) as Mb.
    pose proof (abs_B2R_lt_emax prec emax (Prim2B a)) as Ba.
    pose proof (abs_B2R_lt_emax prec emax (Prim2B b)) as Bb.
    fold (FR a) in Ba. fold (FR b) in Bb. rewrite bpow_emax in Ba, Bb.
    destruct (overflow_large (FR a) (FR b) Ma Mb Hab Ba Bb Ov) as [La Lb].
    assert (Lo : bpow radix2 (-1021) <= bpow radix2 970) by (apply bpow_le; lia).
    assert (Ha : fmt (FR a / 2)) by (apply fmt_half; [exact Ma|lra]).
    assert (Hb : fmt (FR b / 2)) by (apply fmt_half; [exact Mb|lra]).
    pose proof Ba as Ba'. pose proof Bb as Bb'. apply Rabs_lt_inv in Ba'. apply Rabs_lt_inv in Bb'.
    destruct (fdiv_correct a 2%float Fa) as [Eha Fha].
    { rewrite E2. lra. }
    { rewrite E2, RN_fmt by exact Ha. apply Rabs_lt. lra. }
    destruct (fdiv_correct b 2%float Fb) as [Ehb Fhb].
    { rewrite E2. lra. }
    { rewrite E2, RN_fmt by exact Hb. apply Rabs_lt. lra. }
    rewrite E2, RN_fmt in Eha by exact Ha. rewrite E2, RN_fmt in Ehb by exact Hb.
    assert (Em : FR a / 2 + FR b / 2 = (FR a + FR b) / 2) by field.
    assert (Q1 : FR a <= RN ((FR a + FR b) / 2)).
    { apply Rle_trans with (RN (FR a)); [rewrite RN_fmt by exact Ma; lra|apply RN_le; lra]. }
    assert (Q2 : RN ((FR a + FR b) / 2) <= FR b).
    { apply Rle_trans with (RN (FR b)); [apply RN_le; lra|rewrite RN_fmt by exact Mb; lra]. }
    destruct (fadd_correct (a / 2)%float (b / 2)%float Fha Fhb) as [Es Fs].
    { rewrite Eha, Ehb, Em. apply Rabs_lt. lra. }
    rewrite Eha, Ehb, Em in Es.
    split; [exact Fs|]. split; [rewrite Es; split; assumption|]. split; [intros F; contradiction|].
    intros _. split; [reflexivity|exact Es].
Qed.

End Midpoint.

(* ------------------------------------------------------------------------------------------------ *)
(* 6. translated kernels of group pctpos; statements for Properties_C20; refuted statements          *)
(* ------------------------------------------------------------------------------------------------ *)
Local Open Scope Z_scope.

Lemma k_pct_lpos f c : src_pct_lpos f c = f.                Proof. reflexivity. Qed.
Lemma k_pct_rpos f c l : src_pct_rpos f c l = c.            Proof. reflexivity. Qed.
Lemma k_pct_sum a b : src_pct_sum a b = a + b.            Proof. reflexivity. Qed.
Lemma k_pct_mid a b s f : src_pct_mid a b s f = if f then Z.quot s 2 else Z.quot a 2 + Z.quot b 2.  Proof. reflexivity. Qed.
Lemma k_pct_pos_int k n : src_pct_pos_int k n = Z.quot (k * (n - 1)) 100. Proof. reflexivity. Qed.

Lemma pct_src_eq p n : pct_lpos_src p n = pct_lpos p n /\ pct_rpos_src p n = pct_rpos p n.
Proof. unfold pct_lpos_src, pct_rpos_src. cbv zeta. rewrite k_pct_lpos, k_pct_rpos. split; reflexivity. Qed.

(* integer percentages 0..100 are exactly representable (finite enumeration) *)
Lemma int_pct_exact_all : forallb (fun k => SFvalue_is (Prim2SF (Z2F k)) k 1) (Zrange 0 101) = true.
Proof. vm_compute. reflexivity. Qed.

Lemma s_kernel_position : forall k n, 0 <= k <= 100 -> 1 <= n -> n - 1 <= 2 ^ 46 ->
  pct_lpos_src (Z2F k) n = src_pct_pos_int k n /\
  pct_rpos_src (Z2F k) n = src_pct_pos_int k n + (if Z.rem (k * (n - 1)) 100 =? 0 then 0 else 1).
Proof.
  intros k n Hk Hn1 Hn2.
  destruct (pct_src_eq (Z2F k) n) as [El Er]. rewrite El, Er, k_pct_pos_int.
  pose proof int_pct_exact_all as P. rewrite forallb_forall in P.
  specialize (P k ltac:(apply Zrange_In; lia)).
  change 1 with (2 ^ 0) in P.
  assert (B46 : 2 ^ 46 = 70368744177664) by reflexivity.
  assert (B53 : 2 ^ 53 = 9007199254740992) by reflexivity.
  assert (Hs : pos_side_ok k 0 n = true).
  { unfold pos_side_ok. rewrite B53.
    repeat (apply andb_true_iff; split); try reflexivity; try (apply Z.leb_le; lia); apply Z.ltb_lt; nia. }
  destruct (position_dyadic (Z2F k) k 0 n P Hs) as (_ & _ & _ & Hl & Hr).
  rewrite Hl, Hr. unfold ref_lpos, ref_rpos. change (100 * 2 ^ 0) with 100.
  assert (A : 0 <= k * (n - 1)) by nia.
  remember (k * (n - 1)) as a eqn:Ea. clear Ea.
  rewrite Z.quot_div_nonneg, Z.rem_mod_nonneg by lia.
  destruct (Zdiv_ceil_cases a 100 ltac:(lia)) as [C0 C1].
  destruct (Z.eqb_spec (a mod 100) 0) as [e|e].
  - rewrite (C0 e). split; lia.
  - rewrite (C1 e). split; lia.
Qed.

(* the translated index expressions and midpoint are what the model assumes: the midpoint kernel (sum, isfinite test as a
   parameter, two branches) is [mid_shape] of the integer instance; [midpoint] of EVERY instance is [mid_shape] applied to
   the instance's finiteness test of the sum; for the exact instances the test is constantly true *)
Lemma s_kernel_indices : forall (p : PrimFloat.float) (n f c l a b : Z) (t : bool),
  src_pct_lpos f c = f /\ src_pct_rpos f c l = c /\
  pct_lpos_src p n = pct_lpos p n /\ pct_rpos_src p n = pct_rpos p n /\
  src_pct_mid a b (src_pct_sum a b) t = mid_shape Z_ops t a b /\
  (forall T (Op : ops T) (x y : T), midpoint Op x y = mid_shape Op (fin Op (add Op x y)) x y) /\
  midpoint Z_ops a b = Z.quot (a + b) 2 /\ fin Z_ops (a + b) = true /\ (forall q : Q, fin Q_ops q = true).
Proof.
  intros. destruct (pct_src_eq p n) as [El Er]. repeat split; try assumption; reflexivity.
Qed.

(* for the exact rationals the two branches agree (so modelling isfinite as `true` loses nothing) *)
Lemma s_mid_branches_Q : forall (a b : Q) (t : bool), (mid_shape Q_ops t a b == (a + b) / 2)%Q.
Proof.
  intros a b [|]; unfold mid_shape; simpl.
  - reflexivity.
  - field.
Qed.

(* detail::percentile over a lazily generated array is percentile_sorted of the array *)
Lemma s_percentile_fn : forall T (Op : ops T) (s : list T) (p : PrimFloat.float),
  percentile_fn Op (nthZ Op s) (Z.of_nat (length s)) p = percentile_sorted Op s p.
Proof.
  intros. unfold percentile_fn, percentile_sorted, pick. cbv zeta.
  destruct (pct_src_eq p (Z.of_nat (length s))) as [El Er]. rewrite El, Er. reflexivity.
Qed.

(* --- statements exported to Properties_C20 --------------------------------------------------------- *)
(* the twice rounded real expression of the position, and the exact quotient of two integers *)
Definition real_position (P : R) (n : Z) : R := RN (RN (P * IZR (n - 1)) / 100).
Definition real_quot (a b : Z) : R := (IZR a / IZR b)%R.

Lemma s_position_exact : forall (p : PrimFloat.float) (k j n : Z),
  SFvalue_is (Prim2SF p) k (2 ^ j) = true -> pos_side_ok k j n = true ->
  FR (PrimFloat.mul p (Z2F (n - 1))) = real_quot (k * (n - 1)) (2 ^ j) /\
  FR (pct_position p n) = RN (real_quot (k * (n - 1)) (100 * 2 ^ j)) /\
  PrimFloat.is_finite (pct_position p n) = true /\
  pct_lpos p n = (k * (n - 1)) / (100 * 2 ^ j) /\
  pct_rpos p n = - ((- (k * (n - 1))) / (100 * 2 ^ j)) /\
  (pct_lpos p n = pct_rpos p n <-> (k * (n - 1)) mod (100 * 2 ^ j) = 0) /\
  pct_rpos p n <= pct_lpos p n + 1.
Proof.
  intros p k j n Hp Hs.
  destruct (position_dyadic p k j n Hp Hs) as (F & E1 & E2 & Hl & Hr).
  split; [exact E1|]. split; [exact E2|]. split; [apply ffinite_prim, F|].
  unfold ref_lpos in Hl. unfold ref_rpos in Hr. split; [exact Hl|]. split; [exact Hr|].
  rewrite Hl, Hr.
  assert (D0 : 0 < 100 * 2 ^ j).
  { assert (0 < 2 ^ j) by (apply Z.pow_pos_nonneg; [lia|]; unfold pos_side_ok in Hs; lia). lia. }
  destruct (Zdiv_ceil_cases (k * (n - 1)) (100 * 2 ^ j) D0) as [C0 C1].
  destruct (Z.eq_dec ((k * (n - 1)) mod (100 * 2 ^ j)) 0) as [e|e].
  - rewrite (C0 e). split; [tauto|lia].
  - rewrite (C1 e). split; [split; intros; [lia|contradiction]|lia].
Qed.

Lemma leb_range_FR p : PrimFloat.leb 0 p = true -> PrimFloat.leb p 100 = true ->
  ffinite p /\ (0 <= FR p <= 100)%R.
Proof.
  intros L0 L1. destruct FR_100 as [E100 F100].
  assert (F0 : ffinite 0%float) by (apply ffinite_prim; reflexivity).
  assert (E0 : FR 0%float = 0%R) by (rewrite FR_SF; reflexivity).
  assert (Fp : ffinite p) by (apply (leb_bounds_finite 0%float p 100%float); assumption).
  split; [exact Fp|].
  apply (fleb_correct _ _ F0 Fp) in L0. apply (fleb_correct _ _ Fp F100) in L1. rewrite E0 in L0. rewrite E100 in L1.
  split; assumption.
Qed.

Lemma s_position_any : forall (p : PrimFloat.float) (n : Z),
  pct_in_range p = true -> 1 <= n -> n - 1 <= 2 ^ 46 ->
  PrimFloat.is_finite (pct_position p n) = true /\
  FR (pct_position p n) = real_position (FR p) n /\
  pct_lpos p n = Zfloor (FR (pct_position p n)) /\ pct_rpos p n = Zceil (FR (pct_position p n)) /\
  0 <= pct_lpos p n <= pct_rpos p n /\ pct_rpos p n <= n - 1 /\ pct_rpos p n <= pct_lpos p n + 1.
Proof.
  intros p n L Hn1 Hn2. apply andb_true_iff in L. destruct L as [L0 L1]. destruct (leb_range_FR p L0 L1) as [Fp Bp].
  destruct (position_correct p n Fp Bp Hn1 Hn2) as (F & E & _ & El & Er).
  destruct (position_range p n Fp Bp Hn1 Hn2) as (R1 & R2 & R3).
  split; [apply ffinite_prim, F|]. split; [exact E|]. split; [exact El|]. split; [exact Er|].
  split; [exact R1|]. split; assumption.
Qed.

Lemma Bleb_chain (z x y h : binary_float prec emax) : is_finite z = true -> is_finite h = true ->
  Bleb z x = true -> Bleb x y = true -> Bleb y h = true -> is_finite x = true /\ is_finite y = true.
Proof.
  intros Fz Fh.
  destruct x as [sx|sx| |sx mx ex Hx]; destruct y as [sy|sy| |sy my ey Hy]; try (intros; split; reflexivity);
  destruct z as [sz|sz| |sz mz ez Hz]; try discriminate Fz; destruct h as [sh|sh| |sh mh eh Hh]; try discriminate Fh;
  cbn; try discriminate; repeat match goal with s : bool |- _ => destruct s end; cbn; intros; discriminate.
Qed.

Lemma s_position_monotone : forall (p p' : PrimFloat.float) (n : Z),
  pct_in_range p = true -> pct_in_range p' = true -> pct_le p p' = true -> 1 <= n -> n - 1 <= 2 ^ 46 ->
  pct_lpos p n <= pct_lpos p' n /\ pct_rpos p n <= pct_rpos p' n.
Proof.
  intros p p' n R R' L1 Hn1 Hn2. unfold pct_le in L1.
  apply andb_true_iff in R. destruct R as [L0 _]. apply andb_true_iff in R'. destruct R' as [_ L2].
  destruct FR_100 as [E100 F100].
  assert (F0 : ffinite 0%float) by (apply ffinite_prim; reflexivity).
  assert (E0 : FR 0%float = 0%R) by (rewrite FR_SF; reflexivity).
  destruct (Bleb_chain (Prim2B 0%float) (Prim2B p) (Prim2B p') (Prim2B 100%float) F0 F100) as [Fp Fp'];
    try (rewrite <- leb_equiv; assumption).
  apply (fleb_correct _ _ F0 Fp) in L0. apply (fleb_correct _ _ Fp Fp') in L1. apply (fleb_correct _ _ Fp' F100) in L2.
  rewrite E0 in L0. rewrite E100 in L2.
  apply (position_monotone p p' n Fp Fp' L0 L1 L2 Hn1 Hn2).
Qed.

Lemma s_percentile_exact : forall T (Op : ops T), order_ok Op ->
  forall (l : list T) (p : PrimFloat.float) (k j : Z),
  SFvalue_is (Prim2SF p) k (2 ^ j) = true -> pos_side_ok k j (Z.of_nat (length l)) = true ->
  let s := sort Op l in
  let a := k * (Z.of_nat (length l) - 1) in
  let D := 100 * 2 ^ j in
  percentile Op l p =
    (if a mod D =? 0 then nthZ Op s (a / D) else midpoint Op (nthZ Op s (a / D)) (nthZ Op s (a / D + 1))) /\
  (StronglySorted (le Op) l -> percentile_sorted Op l p = percentile Op l p).
Proof.
  intros T Op [A B] l p k j Hp Hs. cbv zeta. split.
  - apply (percentile_dyadic Op A B l p k j Hp Hs).
  - intros H. apply percentile_sorted_agrees; assumption.
Qed.

Lemma s_median_all : forall T (Op : ops T), order_ok Op -> forall (l : list T),
  (1 <= length l)%nat -> Z.of_nat (length l) - 1 < 2 ^ 47 ->
  let s := sort Op l in
  let n := Z.of_nat (length l) in
  median Op l =
  if Z.odd n then nthZ Op s ((n - 1) / 2)
  else midpoint Op (nthZ Op s (n / 2 - 1)) (nthZ Op s (n / 2)).
Proof. intros T Op [A B] l. apply (median_all Op A B). Qed.

Lemma s_midpoint : forall a b : PrimFloat.float,
  midpoint float_ops a b = fmid a b /\
  (PrimFloat.is_finite a = true -> PrimFloat.is_finite b = true -> PrimFloat.leb a b = true ->
   PrimFloat.is_finite (fmid a b) = true /\ PrimFloat.leb a (fmid a b) = true /\ PrimFloat.leb (fmid a b) b = true /\
   (PrimFloat.is_finite (PrimFloat.add a b) = true ->
      fmid a b = fmid_prefix a b /\ FR (fmid a b) = RN (RN (FR a + FR b) / 2)) /\
   (PrimFloat.is_finite (PrimFloat.add a b) = false ->
      fmid a b = PrimFloat.add (PrimFloat.div a (Z2F 2)) (PrimFloat.div b (Z2F 2)) /\
      FR (fmid a b) = RN ((FR a + FR b) / 2))).
Proof.
  intros a b. split; [reflexivity|]. intros Fa Fb L.
  apply ffinite_prim in Fa, Fb. apply (fleb_correct a b Fa Fb) in L.
  destruct (fmid_total a b Fa Fb L) as (Fm & [L1 L2] & Hf & Ho).
  split; [apply ffinite_prim, Fm|]. split; [apply (fleb_correct _ _ Fa Fm), L1|]. split; [apply (fleb_correct _ _ Fm Fb), L2|].
  split.
  - intros F. apply Hf, ffinite_prim, F.
  - intros F. apply Ho. intros G. apply ffinite_prim in G. congruence.
Qed.

(* the pre-repair expression (lvalue + rvalue) / 2 left [a, b]: the largest double twice gave +infinity
   (percentile_sorted({DBL_MAX, DBL_MAX}, 50) = inf; repaired by /repo 985fdb5) *)
Lemma s_midpoint_prefix_refuted : exists a b : PrimFloat.float,
  PrimFloat.is_finite a = true /\ PrimFloat.is_finite b = true /\ PrimFloat.leb a b = true /\
  fmid_prefix a b = PrimFloat.infinity /\ PrimFloat.leb (fmid_prefix a b) b = false /\
  fmid a b = a.
Proof.
  exists 0x1.fffffffffffffp+1023%float, 0x1.fffffffffffffp+1023%float. vm_compute. repeat split; reflexivity.
Qed.

(* --- refuted statements ---------------------------------------------------------------------------- *)
(* beyond the side condition the indices need not be those of the exact rational position: p = fl(100/3) =
   4691249611844267 / 2^47, four values: k (n-1) = 1.56 * 2^53, the exact position is 1 + 2^-49 / 100 ... > 1 but
   the product rounds to 100 and the code selects s[1] alone *)
Lemma s_position_beyond_refuted : exists (p : PrimFloat.float) (k j n : Z),
  SFvalue_is (Prim2SF p) k (2 ^ j) = true /\ 0 <= k <= 100 * 2 ^ j /\ 0 <= j <= 1015 /\ 1 <= n <= 4 /\
  k * (n - 1) < 2 ^ 54 /\
  pct_lpos p n = ref_lpos k j n /\ pct_rpos p n <> ref_rpos k j n.
Proof.
  exists 0x1.0aaaaaaaaaaabp+5%float, 4691249611844267, 47, 4. vm_compute.
  repeat split; try reflexivity; try discriminate.
Qed.

(* the quotient can underflow: p = 2^-1074 (the smallest positive double), two values: the exact position is
   positive (midpoint of s[0], s[1] by the property's formula), the code computes position 0 and returns s[0] *)
Lemma s_position_underflow_refuted : exists (p : PrimFloat.float) (k j n : Z),
  SFvalue_is (Prim2SF p) k (2 ^ j) = true /\ 0 <= k <= 100 * 2 ^ j /\ 0 <= j <= 1074 /\ n = 2 /\
  k * (n - 1) < 2 ^ 53 /\
  pct_rpos p n = 0 /\ ref_rpos k j n = 1.
Proof.
  exists 0x1p-1074%float, 1, 1074, 2. vm_compute.
  repeat split; try reflexivity; try discriminate.
Qed.

(* the conjecture of the first round (every percentage num / 2^j with j <= 20, every n <= 2^31) is false:
   p = 74151217 / 2^20 = 70.71..., n = 1983666872: num (n-1) = 1402772070 * (100 * 2^20) + 3 rounds to a multiple of
   100 * 2^20, the code selects one element where the exact position is fractional *)
Definition position_exact_full_statement : Prop :=
  forall (p : PrimFloat.float) (num j n : Z),
    0 <= j <= 20 -> 0 <= num <= 100 * 2 ^ j -> SFvalue_is (FloatOps.Prim2SF p) num (2 ^ j) = true ->
    1 <= n <= 2 ^ 31 ->
    pct_lpos p n = (num * (n - 1)) / (100 * 2 ^ j) /\
    pct_rpos p n = - ((- (num * (n - 1))) / (100 * 2 ^ j)).

Lemma s_position_full_refuted : ~ position_exact_full_statement.
Proof.
  intros H.
  specialize (H 0x1.1add4c4p+6%float 74151217 20 1983666872).
  assert (A : 0 <= 20 <= 20) by lia.
  assert (B : 0 <= 74151217 <= 100 * 2 ^ 20) by (vm_compute; split; discriminate).
  assert (C : SFvalue_is (FloatOps.Prim2SF 0x1.1add4c4p+6%float) 74151217 (2 ^ 20) = true) by (vm_compute; reflexivity).
  assert (D : 1 <= 1983666872 <= 2 ^ 31) by (vm_compute; split; discriminate).
  destruct (H A B C D) as [_ E]. vm_compute in E. discriminate E.
Qed.

(* the executable form used by the driver: whenever [pos_reference] answers, its answer is the model's (hence, by the
   bit-exact correspondence, the library's) pair of indices *)
Lemma ctz_spec m : 0 <= ctz m /\ exists q, Z.pos m = q * 2 ^ (ctz m).
Proof.
  induction m as [m IH|m IH|]; cbn [ctz].
  - split; [lia|]. exists (Z.pos m~1). change (2 ^ 0) with 1. lia.
  - destruct IH as [P [q E]]. split; [lia|]. exists q.
    rewrite Z.pow_add_r by lia. change (2 ^ 1) with 2. rewrite Pos2Z.inj_xO, E. ring.
  - split; [lia|]. exists 1. reflexivity.
Qed.

Lemma float_dyadic_value p k j : float_dyadic p = Some (k, j) ->
  SFvalue_is (Prim2SF p) k (2 ^ j) = true /\ 0 <= j.
Proof.
  unfold float_dyadic, SF_dyadic, SFvalue_is.
  destruct (Prim2SF p) as [s|s| |s m e]; try discriminate.
  - intros E. inversion E. subst. split; [reflexivity|lia].
  - set (z := if s then Z.neg m else Z.pos m).
    destruct (Z.leb_spec 0 e) as [Pos|Neg]; intros E; inversion E; subst; clear E.
    + split; [|lia]. apply Z.eqb_eq. change (2 ^ 0) with 1. lia.
    + destruct (ctz_spec m) as [C0 [q Eq]].
      set (t := Z.min (- e) (ctz m)).
      assert (T : 0 <= t <= - e /\ t <= ctz m) by (unfold t; lia).
      split; [|lia].
      assert (Ez : exists q', z = q' * 2 ^ t).
      { exists ((if s then - q else q) * 2 ^ (ctz m - t)).
        rewrite <- Z.mul_assoc, <- Z.pow_add_r by lia. replace (ctz m - t + t) with (ctz m) by lia.
        unfold z. destruct s; [rewrite <- Pos2Z.opp_pos, Eq|rewrite Eq]; ring. }
      destruct Ez as [q' Ez].
      assert (P2 : 0 < 2 ^ t) by (apply Z.pow_pos_nonneg; lia).
      rewrite Ez, Z.div_mul by lia.
      apply Z.eqb_eq. rewrite <- !Z.mul_assoc, <- Z.pow_add_r by lia.
      replace (t + (- e - t)) with (- e) by lia. reflexivity.
Qed.

Lemma s_pos_reference : forall (p : PrimFloat.float) (n l r : Z), pos_reference p n = Some (l, r) ->
  pct_lpos_src p n = l /\ pct_rpos_src p n = r /\
  exists k j, SFvalue_is (Prim2SF p) k (2 ^ j) = true /\ pos_side_ok k j n = true /\
              l = (k * (n - 1)) / (100 * 2 ^ j) /\ r = - ((- (k * (n - 1))) / (100 * 2 ^ j)).
Proof.
  intros p n l r. unfold pos_reference.
  destruct (float_dyadic p) as [[k j]|] eqn:E; [|discriminate].
  destruct (pos_side_ok k j n) eqn:S; [|discriminate].
  intros X. inversion X. subst. clear X.
  destruct (float_dyadic_value p k j E) as [V _].
  destruct (position_dyadic p k j n V S) as (_ & _ & _ & Hl & Hr).
  destruct (pct_src_eq p n) as [El Er]. rewrite El, Er.
  split; [exact Hl|]. split; [exact Hr|]. exists k, j. repeat split; assumption.
Qed.
