(* C07 (INIT extension) -- named constants, the parameter domain, and the full-strength statements about t0 that are FALSE of
   the faithful model, with their witnesses (float literals live here: Properties_C07.v does not import PrimFloat). *)
From Coq Require Import List ZArith Bool Floats.
From LNGen Require Import Src_c07_flt.
From LN Require Import C07_Defs C07_Init_Defs.
Import ListNotations.
Local Open Scope float_scope.

Definition f_zero : float := 0.
Definition f_one : float := 1.
Definition f_two : float := 2.
Definition f_mone : float := -1.

(* the registered defaults: epsilon 1e-6, t0 1, beta 10, alpha 1.01 (twice), phi0 0.01, phi1 0.1, phi2 2 *)
Definition prm0_default : params0 :=
  mkPrm0 0x1.0c6f7a0b5ed8dp-20 1 10 0x1.028f5c28f5c29p+0 10 0x1.028f5c28f5c29p+0 0x1.47ae147ae147bp-7 0x1.999999999999ap-4 2.
(* the same with lsearch0::epsilon = 2^-1000 (inside its domain (0, 1)) and phi1 = 1/2 *)
Definition prm0_tiny_eps : params0 :=
  mkPrm0 0x1p-1000 1 10 0x1.028f5c28f5c29p+0 10 0x1.028f5c28f5c29p+0 0x1.47ae147ae147bp-7 0x1p-1 2.

(* strictly inside the registered domains (bounds translated from the make_scalar registrations) *)
Definition in_open (lo x hi : float) : bool := (lo <? x) && (x <? hi).
Definition dom0 (p : params0) : bool :=
  in_open src_l0dom_eps_lo_f (l0_epsilon p) src_l0dom_eps_hi_f &&
  in_open src_l0dom_const_t0_lo_f (l0_const_t0 p) src_l0dom_const_t0_hi_f &&
  in_open src_l0dom_lin_beta_lo_f (l0_lin_beta p) src_l0dom_lin_beta_hi_f &&
  in_open src_l0dom_lin_alpha_lo_f (l0_lin_alpha p) src_l0dom_lin_alpha_hi_f &&
  in_open src_l0dom_quad_beta_lo_f (l0_quad_beta p) src_l0dom_quad_beta_hi_f &&
  in_open src_l0dom_quad_alpha_lo_f (l0_quad_alpha p) src_l0dom_quad_alpha_hi_f &&
  in_open src_l0dom_cg_phi0_lo_f (l0_cg_phi0 p) src_l0dom_cg_phi0_hi_f &&
  in_open src_l0dom_cg_phi1_lo_f (l0_cg_phi1 p) src_l0dom_cg_phi1_hi_f &&
  in_open src_l0dom_cg_phi2_lo_f (l0_cg_phi2 p) src_l0dom_cg_phi2_hi_f.

(* a valid state along a descent direction, as lsearch0 sees it: finite value, dg < 0, finite |x|_inf >= 0, 0 < |g|_inf,
   0 < g.g (a non-zero gradient; g.g and dg may have overflowed although every component is finite) *)
Definition valid_descent_view (v : view0) : bool :=
  pv (v_p v) && is_finite (v_fx v) && (v_dg v <? 0) && is_finite (v_xinf v) && (0 <=? v_xinf v) &&
  (0 <? v_ginf v) && is_finite (v_ginf v) && (0 <? v_gsq v).

(* the memory is what a run along descent directions leaves: first call, or the previous dg was negative *)
Definition descent_history (m : mem0) (last : float) : bool := (last <? 0) || ((m_prevdg m <? 0) && (0 <? last) && is_finite last).

Definition t0_finite_positive (t0 : float) : bool := (0 <? t0) && is_finite t0.

(* "a valid descent state (and history), parameters inside their domains => t0 finite and > 0" *)
Definition C07_init_t0_finite_positive_statement (k : kind0) : Prop :=
  forall prm0 tr m v last,
  dom0 prm0 = true -> valid_descent_view v = true -> descent_history m last = true ->
  t0_finite_positive (ir_t0 (lsearch0_get prm0 tr k m v last)) = true.

(* witnesses *)
Definition view_of (fx dg xinf ginf gsq : float) : view0 := mkV0 (mkP true fx dg) xinf ginf gsq.

(* linear, all parameters at their defaults: dg = -inf (g.d overflowed) => (-alpha * max(..)) / -inf = +0 *)
Definition w_lin_v1 : view0 := view_of 1 neg_infinity 1 0x1p+600 infinity.
(* linear, epsilon = 2^-1000, every number finite: the quotient underflows to +0 *)
Definition w_lin_v2 : view0 := view_of 1 (-0x1p+1000) 1 0x1p+500 0x1p+1000.
(* quadratic: the PREVIOUS dg was -2^1000, no decrease since, epsilon = 2^-1000 *)
Definition w_quad_m : mem0 := mkM0 1 (-0x1p+1000).
Definition w_quad_v : view0 := view_of 1 (-1) 1 1 1.
(* quadratic at the defaults: the previous dg was -inf *)
Definition w_quad_m1 : mem0 := mkM0 2 neg_infinity.
(* cgdescent, first call at the defaults: phi0 * |x|_inf / |g|_inf overflows *)
Definition w_cg_v1 : view0 := view_of 1 (-0x1p-1000) 0x1p+1000 0x1p-500 0x1p-1000.
(* cgdescent, first call at x = 0: g.g overflowed => phi0 * |f| / inf = 0 *)
Definition w_cg_v2 : view0 := view_of 1 (-0x1p+1000) 0 0x1p+600 infinity.
(* cgdescent, later call (phi1 = 1/2, last = 6: trial at s = 3): fx = 1 - 2^-53, dg = -fl(1/3), f(3) = 0. The interpolant passes
   the convexity test fl(fl(dt*dg) - df) = 2^-53 > 0, but fl(df/dt) = dg: the denominator dg - df/dt is +0 and t0 = -inf *)
Definition w_cg_v3 : view0 := view_of 0x1.fffffffffffffp-1 (-0x1.5555555555555p-2) 1 1 1.
Definition w_cg_trial3 (_ : float) : float := 0.

Lemma s_init_linear_t0_zero :
  dom0 prm0_default = true /\ valid_descent_view w_lin_v1 = true /\ descent_history (mkM0 0 (-1)) 1 = true /\
  ir_t0 (lsearch0_get prm0_default (fun _ => 0) L0Linear (mkM0 0 (-1)) w_lin_v1 1) = 0 /\
  dom0 prm0_tiny_eps = true /\ valid_descent_view w_lin_v2 = true /\ descent_history (mkM0 0 (-1)) 0x1p-1000 = true /\
  ir_t0 (lsearch0_get prm0_tiny_eps (fun _ => 0) L0Linear (mkM0 0 (-1)) w_lin_v2 0x1p-1000) = 0.
Proof. vm_compute. repeat split; reflexivity. Qed.

Lemma s_init_quadratic_t0_zero :
  dom0 prm0_tiny_eps = true /\ valid_descent_view w_quad_v = true /\ descent_history w_quad_m 1 = true /\
  ir_t0 (lsearch0_get prm0_tiny_eps (fun _ => 0) L0Quadratic w_quad_m w_quad_v 1) = 0 /\
  descent_history w_quad_m1 1 = true /\
  ir_t0 (lsearch0_get prm0_default (fun _ => 0) L0Quadratic w_quad_m1 w_quad_v 1) = 0.
Proof. vm_compute. repeat split; reflexivity. Qed.

Lemma s_init_cgdescent_t0_bad :
  valid_descent_view w_cg_v1 = true /\ ir_t0 (lsearch0_get prm0_default (fun _ => 0) L0CGDescent (mkM0 0 1) w_cg_v1 (-1)) = infinity /\
  valid_descent_view w_cg_v2 = true /\ ir_t0 (lsearch0_get prm0_default (fun _ => 0) L0CGDescent (mkM0 0 1) w_cg_v2 (-1)) = 0 /\
  valid_descent_view w_cg_v3 = true /\ descent_history (mkM0 0 (-1)) 6 = true /\
  ir_t0 (lsearch0_get prm0_tiny_eps w_cg_trial3 L0CGDescent (mkM0 0 (-1)) w_cg_v3 6) = neg_infinity.
Proof. vm_compute. repeat split; reflexivity. Qed.

Lemma s_init_t0_finite_positive_refuted :
  ~ C07_init_t0_finite_positive_statement L0Linear /\ ~ C07_init_t0_finite_positive_statement L0Quadratic /\
  ~ C07_init_t0_finite_positive_statement L0CGDescent.
Proof.
  repeat split; intros F.
  - specialize (F prm0_default (fun _ => 0) (mkM0 0 (-1)) w_lin_v1 1 eq_refl eq_refl eq_refl). vm_compute in F. discriminate.
  - specialize (F prm0_tiny_eps (fun _ => 0) w_quad_m w_quad_v 1 eq_refl eq_refl eq_refl). vm_compute in F. discriminate.
  - specialize (F prm0_tiny_eps w_cg_trial3 (mkM0 0 (-1)) w_cg_v3 6 eq_refl eq_refl eq_refl). vm_compute in F. discriminate.
Qed.

(* non-vacuity of the positive statements: the defaults lie in the domain, ordinary states satisfy the hypotheses *)
Definition w_plain_v : view0 := view_of 1 (-2) 3 2 4.
Definition w_plain_it (dg : float) : iter_in :=
  mkIt (view_of 1 dg 3 2 4) (fun s => (s - 1) * (s - 1)) (fun _ t => mkP true ((t - 1) * (t - 1)) (2 * (t - 1))).
