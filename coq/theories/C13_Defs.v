(* C13 -- executable model of the hyper-parameter tuners (src/tuner.cpp, src/tuner/{util,local,surrogate}.cpp)
   and of the (trial, fold) bookkeeping of ml::tune / result_t (src/machine/{tune,result}.cpp).
   Style A (discrete): grid points are lists of Z, evaluation values are Z keys (the harness maps finite
   doubles to Z by an order-preserving bijection; None = non-finite).  No proofs in this file.

   Every arithmetic step / loop condition is the kernel translated from the working tree on every run
   (LNGen.Src_tuner, LNGen.Src_mtune).

   Two oracles make the model cover what is not determined by the source text:
     srt  : the result of std::sort on the steps (unstable sort => the order among equal values is free);
            the theorems hold for every srt that returns a sorted permutation of its argument;
     prop : the grid point proposed by the quadratic surrogate (floating-point solver) -- any point (None = the
            solver failed and `critical` threw). *)
From Coq Require Import List ZArith Bool.
From LNGen Require Import Src_tuner Src_mtune.
Import ListNotations.
Local Open Scope Z_scope.

Definition igrid := list Z.
Definition step := (igrid * Z)%type.          (* (m_igrid, key of m_value); m_param = grid values at m_igrid *)

(* ---------- make_min_igrid / make_max_igrid / make_avg_igrid (sizes = number of values per space) ---------- *)
Definition min_igrid (sizes : list Z) : igrid := map (fun _ => src_tn_min_igrid) sizes.
Definition max_igrid (sizes : list Z) : igrid := map src_tn_max_igrid sizes.
Definition avg_igrid (sizes : list Z) : igrid := map src_tn_avg_igrid sizes.

(* ---------- combinatorial_iterator_t over `count` values per dimension: lexicographic, dimension 0 slowest ---------- *)
Definition zrange (n : Z) : list Z := map Z.of_nat (seq 0 (Z.to_nat n)).
Fixpoint combos (d : nat) (count : Z) : list (list Z) :=
  match d with
  | O => [[]]
  | S d' => flat_map (fun o => map (cons o) (combos d' count)) (zrange count)
  end.

(* ---------- local_search ---------- *)
Definition move (radius : Z) (it src : igrid) : igrid :=
  map (fun p => src_tn_ls_coord (fst p) radius (snd p)) (combine it src).

(* Eigen's minCoeff of a non-empty array *)
Definition list_min (l : list Z) : Z :=
  match l with [] => 0 | x :: r => fold_right Z.min x r end.

Definition outside (lo hi g : igrid) : bool :=
  src_tn_ls_outside (list_min (map (fun p => src_tn_ls_lo (fst p) (snd p)) (combine g lo)))
                    (list_min (map (fun p => src_tn_ls_hi (fst p) (snd p)) (combine hi g))).

Definition local_search (lo hi src : igrid) (radius : Z) : list igrid :=
  filter (fun g => negb (outside lo hi g))
         (map (fun it => move radius it src) (combos (length lo) src_tn_ls_count)).

(* ---------- evaluate ---------- *)
Fixpoint igrid_eqb (a b : igrid) : bool :=
  match a, b with
  | [], [] => true
  | x :: a', y :: b' => (x =? y) && igrid_eqb a' b'
  | _, _ => false
  end.

Definition seen (steps : list step) (g : igrid) : bool := existsb (fun s => igrid_eqb (fst s) g) steps.
(* std::remove_if keeps the relative order of the points that are not yet evaluated *)
Definition fresh (steps : list step) (igrids : list igrid) : list igrid :=
  filter (fun g => negb (seen steps g)) igrids.

(* the callback evaluates the whole batch; the loop then throws at the first non-finite value *)
Fixpoint eval_all (f : igrid -> option Z) (gs : list igrid) : option (list step) :=
  match gs with
  | [] => Some []
  | g :: r => match f g with
              | None => None
              | Some v => match eval_all f r with None => None | Some l => Some ((g, v) :: l) end
              end
  end.

(* st_calls: the batches handed to the callback, in chronological order *)
Record state := { st_steps : list step; st_calls : list (list igrid) }.

Inductive eres :=
| ENone                                  (* nothing new: `return false` before the callback *)
| EThrow (calls : list (list igrid))     (* critical(!isfinite) threw *)
| EOk (changed : bool) (st : state).

Definition size_of (st : state) : Z := Z.of_nat (length (st_steps st)).

Definition evaluate (srt : list step -> list step) (f : igrid -> option Z) (igrids : list igrid) (st : state) : eres :=
  match fresh (st_steps st) igrids with
  | [] => ENone
  | new =>
    let calls' := st_calls st ++ [new] in
    match eval_all f new with
    | None => EThrow calls'
    | Some ns =>
      let steps' := srt (st_steps st ++ ns) in
      EOk (src_tn_eval_changed (Z.of_nat (length steps')) (size_of st))
          {| st_steps := steps'; st_calls := calls' |}
    end
  end.

(* ---------- tuner_t::optimize + do_optimize as one transition function ---------- *)
Inductive kind := KLocal | KSurrogate.
Inductive phase := PCoarse (radius : Z) | PRefine.
Record mstate := { ms_phase : phase; ms_st : state }.

Inductive outcome :=
| Finished (st : state)                  (* optimize returned st_steps *)
| Thrown (calls : list (list igrid))     (* non-finite value: exception *)
| Aborted (st : state)                   (* the surrogate solver failed: exception *)
| OutOfFuel (st : state).                (* never happens: C13_fuel_suffices *)

Inductive sres := SContinue (ms : mstate) | SDone (o : outcome).

Definition front (steps : list step) : option igrid :=
  match steps with [] => None | s :: _ => Some (fst s) end.

Record config := { c_kind : kind; c_sizes : list Z; c_max_evals : Z }.

Definition refine_continue (k : kind) := match k with KLocal => src_tn_local_continue | KSurrogate => src_tn_surr_continue end.
Definition refine_radius (k : kind) := match k with KLocal => src_tn_local_radius | KSurrogate => src_tn_surr_radius end.
Definition centre (k : kind) (prop : list step -> option igrid) (steps : list step) : option igrid :=
  match k with KLocal => front steps | KSurrogate => prop steps end.

Definition step1 (srt : list step -> list step) (prop : list step -> option igrid) (f : igrid -> option Z)
           (cfg : config) (ms : mstate) : sres :=
  let st := ms_st ms in
  let lo := min_igrid (c_sizes cfg) in
  let hi := max_igrid (c_sizes cfg) in
  match ms_phase ms with
  | PCoarse radius =>
    (* for (radius = 2; !steps.empty() && steps.size() < max_evals / 2; radius *= 2) *)
    if src_tn_coarse_continue (size_of st) (c_max_evals cfg) then
      match front (st_steps st) with
      | None => SContinue {| ms_phase := PRefine; ms_st := st |}
      | Some c =>
        match evaluate srt f (local_search lo hi c radius) st with
        | ENone => SContinue {| ms_phase := PRefine; ms_st := st |}                    (* break *)
        | EThrow calls => SDone (Thrown calls)
        | EOk true st' => SContinue {| ms_phase := PCoarse (radius * src_tn_coarse_factor); ms_st := st' |}
        | EOk false st' => SContinue {| ms_phase := PRefine; ms_st := st' |}            (* break *)
        end
      end
    else SContinue {| ms_phase := PRefine; ms_st := st |}
  | PRefine =>
    (* do_optimize: for (; !steps.empty() && steps.size() < max_evals;) *)
    if refine_continue (c_kind cfg) (size_of st) (c_max_evals cfg) then
      match centre (c_kind cfg) prop (st_steps st) with
      | None => SDone (Aborted st)
      | Some c =>
        match evaluate srt f (local_search lo hi c (refine_radius (c_kind cfg))) st with
        | ENone => SDone (Finished st)                                                  (* break *)
        | EThrow calls => SDone (Thrown calls)
        | EOk true st' => SContinue {| ms_phase := PRefine; ms_st := st' |}
        | EOk false st' => SDone (Finished st')                                         (* break *)
        end
      end
    else SDone (Finished st)
  end.

Fixpoint run (fuel : nat) (srt : list step -> list step) (prop : list step -> option igrid) (f : igrid -> option Z)
         (cfg : config) (ms : mstate) : outcome :=
  match fuel with
  | O => OutOfFuel (ms_st ms)
  | S k => match step1 srt prop f cfg ms with
           | SDone o => o
           | SContinue ms' => run k srt prop f cfg ms'
           end
  end.

Definition empty_state : state := {| st_steps := []; st_calls := [] |}.

(* evaluate(spaces, callback, igrids_t{avg_igrid}, logger, steps): the return value is ignored *)
Definition init (srt : list step -> list step) (f : igrid -> option Z) (cfg : config) : sres :=
  match evaluate srt f [avg_igrid (c_sizes cfg)] empty_state with
  | ENone => SContinue {| ms_phase := PCoarse src_tn_coarse_radius0; ms_st := empty_state |}
  | EThrow calls => SDone (Thrown calls)
  | EOk _ st' => SContinue {| ms_phase := PCoarse src_tn_coarse_radius0; ms_st := st' |}
  end.

Definition fuel_for (max_evals : Z) : nat := Z.to_nat max_evals + 3.

Definition optimize (srt : list step -> list step) (prop : list step -> option igrid) (f : igrid -> option Z)
           (cfg : config) : outcome :=
  match init srt f cfg with
  | SDone o => o
  | SContinue ms => run (fuel_for (c_max_evals cfg)) srt prop f cfg ms
  end.

Definition calls_of (o : outcome) : list (list igrid) :=
  match o with
  | Finished st | Aborted st | OutOfFuel st => st_calls st
  | Thrown calls => calls
  end.

(* ---------- concrete sorts: stable insertion sort, and "insertion sort + chosen minimiser first" ---------- *)
Fixpoint insert (s : step) (l : list step) : list step :=
  match l with
  | [] => [s]
  | x :: r => if snd s <=? snd x then s :: l else x :: insert s r
  end.
Definition isort (l : list step) : list step := fold_right insert [] l.

(* move the step at grid point c to the front when it is one of the minimisers (l sorted) *)
Fixpoint take_out (c : igrid) (l : list step) : option (step * list step) :=
  match l with
  | [] => None
  | x :: r => if igrid_eqb (fst x) c then Some (x, r)
              else match take_out c r with None => None | Some (y, r') => Some (y, x :: r') end
  end.
Definition set_front (c : igrid) (l : list step) : list step :=
  match l with
  | [] => []
  | h :: _ => match take_out c l with
              | Some (y, r) => if snd y =? snd h then y :: r else l
              | None => l
              end
  end.
(* the tie-breaking oracle used by the acceptor: which minimiser is first after sorting a list of n steps *)
Definition srt_pick (pick : nat -> option igrid) (l : list step) : list step :=
  match pick (length l) with
  | Some c => set_front c (isort l)
  | None => isort l
  end.

Definition optimize_pick (pick : nat -> option igrid) := optimize (srt_pick pick).
Definition step1_pick (pick : nat -> option igrid) := step1 (srt_pick pick).
Definition init_pick (pick : nat -> option igrid) := init (srt_pick pick).

(* minimisers of a sorted list: grid points whose value equals the head's *)
Definition minimisers (l : list step) : list igrid :=
  match l with
  | [] => []
  | h :: _ => map fst (filter (fun s => snd s =? snd h) l)
  end.

(* ---------- ml::tune: (trial, fold) decoding of the task index, result_t slots, optimum_trial ---------- *)
Definition decode (folds old_trials index : Z) : Z * Z :=
  (src_mt_store_trial old_trials (src_mt_trial index folds), src_mt_fold index folds).

(* the tasks of one tuner callback: tpool.map(folds * new_trials, ...) *)
Definition batch_tasks (folds old_trials new_trials : Z) : list (Z * Z) :=
  map (decode folds old_trials) (zrange (src_mt_tasks folds new_trials)).

(* all tasks of a tuning run whose callbacks received batches of the given sizes *)
Fixpoint all_tasks (folds old_trials : Z) (batches : list Z) : list (Z * Z) :=
  match batches with
  | [] => []
  | n :: r => batch_tasks folds old_trials n ++ all_tasks folds (old_trials + n) r
  end.

Definition slot (folds : Z) (tf : Z * Z) : Z := src_mr_slot_store (fst tf) (snd tf) folds.
Definition slot_load (folds : Z) (tf : Z * Z) : Z := src_mr_slot_load (fst tf) (snd tf) folds.

(* result_t::optimum_trial over the per-trial values (keys); vmax = key of numeric_limits::max() *)
Fixpoint optimum_go (vals : list Z) (trial best_trial best_value : Z) : Z :=
  match vals with
  | [] => best_trial
  | v :: r => if src_mr_optimum_better v best_value then optimum_go r (trial + 1) trial v
              else optimum_go r (trial + 1) best_trial best_value
  end.
Definition optimum_trial (vmax : Z) (vals : list Z) : Z := optimum_go vals 0 0 vmax.

(* result_t::value(trial) = (sum over folds of the fold's mean) / folds; compared through the sums *)
Definition trial_sums (table : list (list Z)) : list Z := map (fun row => fold_right Z.add 0 row) table.

(* the stored table: slot -> value; a task stores into its slot *)
Definition table (A : Type) := Z -> option A.
Definition upd {A} (k : Z) (v : A) (t : table A) : table A := fun j => if j =? k then Some v else t j.
Definition store_all {A} (folds : Z) (tasks : list ((Z * Z) * A)) (t : table A) : table A :=
  fold_left (fun t p => upd (slot folds (fst p)) (snd p) t) tasks t.
