(* extraction of the executable C01CG model (conjugate-gradient direction of cgd.cpp).  Same conventions as Extract_C01Q:
   Z / positive mapped to Zarith big integers, Z.ggcd (Qred of the canonical rationals) mapped to Zarith's gcd. *)
From Coq Require Import List ZArith QArith Qcanon Extraction ExtrOcamlBasic ExtrOcamlZBigInt.
From LN Require Import C01Q_Defs C01CG_Defs.
Extraction Language OCaml.
Extract Constant Z.ggcd => "(fun a b -> let g = Big_int_Z.gcd_big_int a b in
  if Big_int_Z.sign_big_int g = 0 then (g, (g, g)) else (g, (Big_int_Z.div_big_int a g, Big_int_Z.div_big_int b g)))".
Extraction "extracted/c01cg_model.ml" QcO zcmp dot vadd vsub vscale vopp
  flt fmax fmin fabs beta_HS beta_FR beta_PR beta_CD beta_LS beta_DY n_eta beta_N_plain beta_N beta_DYHS beta_DYCD
  frpr_low frpr_mid frpr_clamp beta_FRPR cg_beta cg_candidate cg_has_descent cg_restart cg_choose cg_init cg_step
  exact_next cg_quad_run
  Q2Qc Qcplus Qcminus Qcmult Qcdiv Qcopp Qccompare Qred.
