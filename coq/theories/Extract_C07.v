(* extraction of the executable C07 model (PrimFloat -> OCaml floats via coq-core.kernel Float64) *)
From Coq Require Import List ZArith Floats Extraction ExtrOcamlBasic ExtrOCamlFloats.
From LN Require Import C07_Defs C07_Init_Defs.
Extraction Language OCaml.
Extraction "extracted/c07_model.ml" ls_get alg_of_Z cubic quadratic secant bisection interpolate
  eps0 eps1 stpmin stpmax has_descent has_armijo has_wolfe has_strong_wolfe has_approx_armijo has_approx_wolfe
  fclamp fmin fmax
  (* INIT stage: the step-length initialisers and lsearch_t::get *)
  lsearch0_get lsearch_get lsearch_run lsearch0_run cg0_trial_coord kind0_of_Z mem_init lsmem_init init_step iter_evals.
