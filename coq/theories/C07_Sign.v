(* C07 (INIT extension) -- a small sign calculus for binary64 (FloatAxioms only: every operation through its SpecFloat
   specification). `cls x` is the class of x: NaN, strictly negative (incl. -inf), a zero (either sign), strictly positive
   (incl. +inf). The lemmas say which classes a product / quotient / opposite can have and what the comparisons with 0
   and between classes mean; rounding (underflow to a zero, overflow to an infinity) is covered because the specification
   of the rounded result (SpecFloat.binary_round_aux) only ever returns a zero, a finite number or an infinity of the
   computed sign. *)
From Coq Require Import ZArith Bool Floats Lia.
From LN Require Import C07_Defs C07_MT C07_CG.
Local Open Scope float_scope.

Inductive cl := CNaN | CNeg | CZero | CPos.

Definition clsf (s : spec_float) : cl :=
  match s with
  | S754_zero _ => CZero
  | S754_infinity s => if s then CNeg else CPos
  | S754_nan => CNaN
  | S754_finite s _ _ => if s then CNeg else CPos
  end.
Definition cls (x : float) : cl := clsf (Prim2SF x).

(* the class of a rounded result with computed sign sx *)
Lemma cls_round_aux : forall sx mx ex lx,
  let r := clsf (binary_round_aux prec emax sx mx ex lx) in
  r = CZero \/ r = (if sx then CNeg else CPos) \/ r = CNaN.
Proof.
  intros sx mx ex lx. unfold binary_round_aux.
  destruct (shr_fexp prec emax mx ex lx) as [mrs' e'].
  destruct (shr_fexp prec emax (round_nearest_even (shr_m mrs') (loc_of_shr_record mrs')) e' loc_Exact) as [mrs'' e''].
  destruct (shr_m mrs'') as [|m|m]; cbn.
  - left; reflexivity.
  - right; left. destruct (e'' <=? 971)%Z; reflexivity.
  - right; right; reflexivity.
Qed.

(* ---------- which classes are possible ---------- *)
Definition mul_ok (a b r : cl) : bool :=
  match a, b with
  | CNaN, _ | _, CNaN => match r with CNaN => true | _ => false end
  | CZero, CZero => match r with CZero => true | _ => false end
  | CZero, _ | _, CZero => match r with CZero | CNaN => true | _ => false end
  | CNeg, CNeg | CPos, CPos => match r with CPos | CZero | CNaN => true | _ => false end
  | _, _ => match r with CNeg | CZero | CNaN => true | _ => false end
  end.

Definition div_ok (a b r : cl) : bool :=
  match a, b with
  | CNaN, _ | _, CNaN => match r with CNaN => true | _ => false end
  | CZero, CZero => match r with CNaN => true | _ => false end
  | CZero, _ => match r with CZero => true | _ => false end
  | _, CZero => match r with CNeg | CPos => true | _ => false end
  | CNeg, CNeg | CPos, CPos => match r with CPos | CZero | CNaN => true | _ => false end
  | _, _ => match r with CNeg | CZero | CNaN => true | _ => false end
  end.

Lemma cls_mul : forall x y, mul_ok (cls x) (cls y) (cls (x * y)) = true.
Proof.
  intros x y. unfold cls. rewrite mul_spec. unfold SF64mul.
  destruct (Prim2SF x) as [sx|sx| |sx mx ex], (Prim2SF y) as [sy|sy| |sy my ey];
    try reflexivity; try (destruct sx; try destruct sy; reflexivity); try (destruct sy; reflexivity).
  unfold SFmul.
  pose proof (cls_round_aux (xorb sx sy) (Zpos (mx * my)) (ex + ey) loc_Exact) as R. cbv zeta in R.
  destruct sx, sy; cbn [xorb clsf] in *; destruct R as [R|[R|R]]; rewrite R; reflexivity.
Qed.

Lemma cls_div : forall x y, div_ok (cls x) (cls y) (cls (x / y)) = true.
Proof.
  intros x y. unfold cls. rewrite div_spec. unfold SF64div.
  destruct (Prim2SF x) as [sx|sx| |sx mx ex], (Prim2SF y) as [sy|sy| |sy my ey];
    try reflexivity; try (destruct sx; try destruct sy; reflexivity); try (destruct sy; reflexivity).
  unfold SFdiv.
  destruct (SFdiv_core_binary prec emax (Z.pos mx) ex (Z.pos my) ey) as [[mz ez] lz].
  pose proof (cls_round_aux (xorb sx sy) mz ez lz) as R. cbv zeta in R.
  destruct sx, sy; cbn [xorb clsf] in *; destruct R as [R|[R|R]]; rewrite R; reflexivity.
Qed.

Definition cl_opp (a : cl) : cl := match a with CNeg => CPos | CPos => CNeg | c => c end.

Lemma cls_opp : forall x, cls (- x) = cl_opp (cls x).
Proof.
  intros x. unfold cls. rewrite opp_spec.
  destruct (Prim2SF x) as [s|s| |s m e]; try destruct s; reflexivity.
Qed.

Lemma cls_abs : forall x, cls (abs x) = match cls x with CNeg => CPos | c => c end.
Proof.
  intros x. unfold cls. rewrite abs_spec.
  destruct (Prim2SF x) as [s|s| |s m e]; try destruct s; reflexivity.
Qed.

(* ---------- comparisons ---------- *)
Definition rank (a : cl) : Z := match a with CNeg => 0 | CZero => 1 | CPos => 2 | CNaN => 3 end.

(* x < y is only possible between these classes *)
Definition lt_possible (a b : cl) : bool :=
  match a, b with
  | CNaN, _ | _, CNaN => false
  | CNeg, _ => true
  | CZero, CPos => true
  | CPos, CPos => true
  | _, _ => false
  end.

(* not (x < y) is only possible between these classes *)
Definition nlt_possible (a b : cl) : bool :=
  match a, b with
  | CNaN, _ | _, CNaN => true
  | CNeg, CNeg => true
  | CNeg, _ => false
  | CZero, CPos => false
  | _, _ => true
  end.

Lemma ltb_true_cls : forall x y, (x <? y) = true -> lt_possible (cls x) (cls y) = true.
Proof.
  intros x y H. rewrite ltb_spec in H. unfold cls, SFltb in *.
  destruct (Prim2SF x) as [sx|sx| |sx mx ex], (Prim2SF y) as [sy|sy| |sy my ey]; cbn in *;
    try destruct sx; try destruct sy; cbn in *; try reflexivity; try discriminate.
Qed.

Lemma ltb_false_cls : forall x y, (x <? y) = false -> nlt_possible (cls x) (cls y) = true.
Proof.
  intros x y H. rewrite ltb_spec in H. unfold cls, SFltb in *.
  destruct (Prim2SF x) as [sx|sx| |sx mx ex], (Prim2SF y) as [sy|sy| |sy my ey]; cbn in *;
    try destruct sx; try destruct sy; cbn in *; try reflexivity; try discriminate.
Qed.

Lemma prim0 : Prim2SF 0 = S754_zero false.
Proof. reflexivity. Qed.

Lemma ltb_0_r : forall x, (x <? 0) = match cls x with CNeg => true | _ => false end.
Proof.
  intros x. rewrite ltb_spec, prim0. unfold cls, SFltb.
  destruct (Prim2SF x) as [s|s| |s m e]; try destruct s; reflexivity.
Qed.

Lemma ltb_0_l : forall x, (0 <? x) = match cls x with CPos => true | _ => false end.
Proof.
  intros x. rewrite ltb_spec, prim0. unfold cls, SFltb.
  destruct (Prim2SF x) as [s|s| |s m e]; try destruct s; reflexivity.
Qed.

Lemma leb_0_l : forall x, (0 <=? x) = match cls x with CPos | CZero => true | _ => false end.
Proof.
  intros x. rewrite leb_spec, prim0. unfold cls, SFleb.
  destruct (Prim2SF x) as [s|s| |s m e]; try destruct s; reflexivity.
Qed.

Lemma leb_0_r : forall x, (x <=? 0) = match cls x with CNeg | CZero => true | _ => false end.
Proof.
  intros x. rewrite leb_spec, prim0. unfold cls, SFleb.
  destruct (Prim2SF x) as [s|s| |s m e]; try destruct s; reflexivity.
Qed.

Lemma cls_one : cls 1 = CPos.
Proof. reflexivity. Qed.
Lemma cls_two : cls 2 = CPos.
Proof. reflexivity. Qed.
Lemma cls_zero : cls 0 = CZero.
Proof. reflexivity. Qed.

(* is_finite x: a zero or a finite number *)
Lemma sf_eqb_refl : forall s, s <> S754_nan -> SFeqb s s = true.
Proof.
  intros s N. unfold SFeqb, SFcompare.
  destruct s as [b|b| |b m e]; try destruct b; try reflexivity; try contradiction;
    rewrite Z.compare_refl, Pos.compare_cont_refl; reflexivity.
Qed.

Lemma is_finite_SF : forall x, is_finite x = match Prim2SF x with S754_zero _ | S754_finite _ _ _ => true | _ => false end.
Proof.
  intros x. unfold is_finite, is_infinity, is_nan. rewrite !eqb_spec, abs_spec.
  change (Prim2SF infinity) with (S754_infinity false).
  destruct (Prim2SF x) as [s|s| |s m e] eqn:E; try (destruct s; reflexivity); try reflexivity.
  rewrite sf_eqb_refl by discriminate. reflexivity.
Qed.

(* not (x < y), neither a NaN  =>  y <= x *)
Lemma leb_of_ltb_false : forall x y,
  (x <? y) = false -> Prim2SF x <> S754_nan -> Prim2SF y <> S754_nan -> (y <=? x) = true.
Proof.
  intros x y H Nx Ny. rewrite leb_spec. rewrite ltb_spec in H. unfold SFleb, SFltb in *.
  rewrite (sf_compare_antisym (Prim2SF x) (Prim2SF y)).
  destruct (SFcompare (Prim2SF x) (Prim2SF y)) as [[| |]|] eqn:C; try discriminate; try reflexivity.
  exfalso. destruct (Prim2SF x) as [sx|sx| |sx mx ex], (Prim2SF y) as [sy|sy| |sy my ey]; cbn in C; try discriminate;
    try (apply Nx; reflexivity); try (apply Ny; reflexivity).
Qed.

Lemma ltb_true_not_nan : forall x y, (x <? y) = true -> Prim2SF x <> S754_nan /\ Prim2SF y <> S754_nan.
Proof.
  intros x y H. rewrite ltb_spec in H. unfold SFltb in H.
  split; intros E; rewrite E in H; cbn in H; try discriminate.
  destruct (Prim2SF x); cbn in H; discriminate.
Qed.
