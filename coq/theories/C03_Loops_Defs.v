(* C03, extension LOOP -- executable exact-rational model of
     * csearch_t::search (src/solver/csearch.cpp) as written: the trial-point loop with its t / tL / tR bracket, the
       interpolation / extrapolation of new_trial, the tests with m1..m4, the budget test in the loop guard, every
       status that is assigned -- and the fact that NO status is assigned when the guard ends the loop;
     * proximity_t (src/solver/proximity.cpp): miu0 with its clamp, make_miu, both update() overloads;
     * the Nesterov sequences (include/nano/solver/nesterov.h, src/solver/nesterov.cpp): lambda, alpha / beta, the
       momentum point; std::sqrt(1 + 4 lambda^2) is an INPUT (witness r);
     * the outer loops of solver_rqb_t / base_solver_fpba_t::do_minimize: guard, search, what is handed to done(), which
       state is updated with what.
   The bundle QP, the function evaluation and the bundle operations are an abstract oracle [ask] / [serious] / ... of the
   loops (a Section variable): the extracted instance replays recorded runs, C03_Loops.v proves the theorems for every
   oracle.  Boolean / integer decisions are the kernels regenerated from the source on every run (Src_c03).
   No proofs here. *)
From Coq Require Import List ZArith QArith Qabs Bool.
From LN Require Import C03_Defs.
From LNGen Require Import Src_c03.
Import ListNotations.
Local Open Scope Q_scope.

(* ---- csearch_t --------------------------------------------------------------------------------------------- *)
(* the members m_m1..m_m4, m_interpol, m_extrapol, epsilon0<scalar_t>() and what one evaluation adds to
   fcalls() + gcalls() (vgrad with a gradient buffer: 2) *)
Record cs_params := mk_csp {
  p_m1 : Q; p_m2 : Q; p_m3 : Q; p_m4 : Q; p_interpol : Q; p_extrapol : Q; p_eps0 : Q; p_cost : Z }.

(* what one pass of the loop reads after bundle.solve(miu / t) and fy = vgrad(y = bundle.proximal(miu / t), gy):
   isfinite(fy), bundle.fx(), fy, smeared_e(), delta(miu / t), econverged(epsilon), sconverged(epsilon),
   gy.dot(y - x), smeared_s().dot(y - x) *)
Record cs_ans := mk_ans {
  a_finite : bool; a_fx : Q; a_fy : Q; a_e : Q; a_delta : Q; a_econv : bool; a_sconv : bool; a_gdot : Q; a_sdot : Q }.

(* one pass either assigns a status and leaves the loop, or computes the next trial *)
Inductive cs_out :=
| PRet (status : Z) (tL : Q) (tR : option Q)
| PCont (t tL : Q) (tR : option Q).

Definition is_some {A} (o : option A) : bool := match o with Some _ => true | None => false end.

(* the lambda new_trial: tR = None is +infinity *)
(* (Qred: the same rational in lowest terms -- thousands of interpolations would otherwise square the denominators) *)
Definition new_trial (P : cs_params) (t tL : Q) (tR : option Q) : Q :=
  Qred (if src_c03_cs_interp (is_some tR)
        then (1 - p_interpol P) * tL + p_interpol P * (match tR with Some r => r | None => 0 end)
        else t * p_extrapol P).

(* `tL = t;` / `tR = t;` -- which one is read from the source (0 = tL, 1 = tR) *)
Definition cs_move (which : Z) (t tL : Q) (tR : option Q) : Q * option Q :=
  if Z.eqb which 0 then (t, tR) else (tL, Some t).

Definition cs_m1_test (P : cs_params) (a : cs_ans) : bool := Qle_bool (p_m1 P * a_delta a) (a_fx a - a_fy a).
Definition cs_m2_test (P : cs_params) (a : cs_ans) : bool := Qle_bool (- p_m2 P * a_delta a) (a_gdot a).
Definition cs_m3_test (P : cs_params) (a : cs_ans) : bool := Qle_bool (a_e a) (p_m3 P * a_delta a).
Definition cs_m4_test (P : cs_params) (a : cs_ans) : bool := Qle_bool (- p_m4 P * a_delta a) (a_sdot a).

Definition cs_pass (P : cs_params) (t tL : Q) (tR : option Q) (a : cs_ans) : cs_out :=
  if src_c03_cs_failed (a_finite a) then PRet src_c03_cs_st_failed tL tR
  else if src_c03_cs_converged (a_econv a) (a_sconv a) then PRet src_c03_cs_st_converged tL tR
  else if src_c03_cs_descent (cs_m1_test P a) then
    let m := cs_move src_c03_cs_descent_moves t tL tR in
    if src_c03_cs_dstep (cs_m2_test P a) then PRet src_c03_cs_st_descent (fst m) (snd m)
    else if src_c03_cs_cstep (is_some (snd m)) (a_sconv a) (cs_m4_test P a) then PRet src_c03_cs_st_cutting (fst m) (snd m)
    else PCont (new_trial P t (fst m) (snd m)) (fst m) (snd m)
  else
    let m := cs_move src_c03_cs_else_moves t tL tR in
    if src_c03_cs_null (Qltb (fst m) (p_eps0 P)) (cs_m3_test P a) then PRet src_c03_cs_st_null (fst m) (snd m)
    else PCont (new_trial P t (fst m) (snd m)) (fst m) (snd m).

(* update_if_better on the value: better = (m_fx - fx > 0) for a finite fx *)
Definition better (sfx : Q) (v : option Q) : Q :=
  match v with Some w => if Qltb 0 (sfx - w) then w else sfx | None => sfx end.
Definition is_better (sfx : Q) (v : option Q) : bool :=
  match v with Some w => Qltb 0 (sfx - w) | None => false end.

Section Loops.
  Variable Or : Type.                          (* the oracle: bundle + function + QP solver (+ proximity vectors, sequence) *)
  Variable ask : Or -> Q -> Or * cs_ans.       (* one pass at miu / t: solve, proximal, vgrad, the operands of the tests *)
  Variable valid_of : Or -> bool.              (* state.valid() when done() is called *)
  Variable prox_of : Or -> Q -> Q -> Q.        (* proximity.update(t, ...) at the current miu: the new miu *)
  Variable serious : Or -> Q -> Or.            (* RQB: bundle.moveto(y, gy, fy) with the member point *)
  Variable nullstep : Or -> Or.                (* bundle.append(y, gy, fy) *)
  Variable momentum : Or -> Q -> Or * option Q.  (* FPBA: sequence.update(z), vgrad at the momentum point (None: not finite),
                                                   bundle.moveto, reset when not better than the given best value *)
  (* `m_point.m_status = csearch_status::max_iters;` at the start of every call (repo 31bf93f): Some status.  None is the
     code BEFORE that repair (no reset: the member keeps the status of the previous call), kept for the refutation *)
  Variable init_status : option Z.

  (* the result of one call of search(): the status ASSIGNED by a pass of this call (None: the loop guard ended the call, m_status
     keeps the value it had when the loop was entered: the reset value, see [init_status]), the members t / tL / tR,
     fcalls + gcalls, the last answer read *)
  Record cs_res := mk_res {
    r_or : Or; r_assigned : option Z; r_fuel_out : bool; r_t : Q; r_tL : Q; r_tR : option Q; r_calls : Z;
    r_last : option cs_ans; r_passes : nat }.

  Fixpoint cs_loop (fuel : nat) (P : cs_params) (miu : Q) (max_evals calls : Z) (t tL : Q) (tR : option Q) (o : Or)
           (last : option cs_ans) (passes : nat) : cs_res :=
    if negb (src_c03_cs_budget calls 0 max_evals) then mk_res o None false t tL tR calls last passes
    else match fuel with
         | O => mk_res o None true t tL tR calls last passes
         | S k =>
             let oa := ask o (miu / t) in
             let calls' := (calls + p_cost P)%Z in
             match cs_pass P t tL tR (snd oa) with
             | PRet s tL' tR' => mk_res (fst oa) (Some s) false t tL' tR' calls' (Some (snd oa)) (S passes)
             | PCont t' tL' tR' => cs_loop k P miu max_evals calls' t' tL' tR' (fst oa) (Some (snd oa)) (S passes)
             end
         end.

  (* t = 1.0; tL = 0.0; tR = +inf.  The fuel is what the budget allows when one evaluation costs at least 1 *)
  Definition cs_search (P : cs_params) (miu : Q) (max_evals calls : Z) (o : Or) : cs_res :=
    cs_loop (Z.to_nat (max_evals - calls)) P miu max_evals calls 1 0 None o None 0.

  (* the state of an outer loop: oracle, fcalls + gcalls, state.fx(), proximity.miu(), and the members of csearch_t that
     survive a call (m_status, m_t, m_fy: None = not finite) *)
  Record ost := mk_ost {
    s_or : Or; s_calls : Z; s_fx : Q; s_miu : Q; s_mstatus : Z; s_mt : Q; s_mfy : option Q }.
  Inductive oexit := EDone (solver_status : Z) | EBudget | EFuel.
  (* [o_stale]: some iteration moved the state on a status that was not assigned by its own search call *)
  Record ores := mk_ores { o_final : ost; o_exit : oexit; o_stale : bool; o_iters : nat }.

  Definition member_status (s : ost) (r : cs_res) : Z :=
    match r_assigned r with
    | Some z => z
    | None => match init_status with Some z0 => z0 | None => s_mstatus s end
    end.
  Definition member_fy (s : ost) (r : cs_res) : option Q :=
    match r_last r with Some a => if a_finite a then Some (a_fy a) else None | None => s_mfy s end.
  Definition fy_value (v : option Q) : Q := match v with Some w => w | None => 0 end.

  (* one iteration of an outer loop: done() stopped the solver with a status, or the loop goes on ([moved_unvetted]: the
     state / bundle centre was moved on a status that this iteration's search call did not assign) *)
  Inductive iter_out := IDone (s : ost) (solver_status : Z) | INext (s : ost) (moved_unvetted : bool).

  (* the body of the loop of solver_rqb_t::do_minimize *)
  Definition rqb_iter (P : cs_params) (max_evals : Z) (s : ost) : iter_out :=
    let r := cs_search P (s_miu s) max_evals (s_calls s) (s_or s) in
    let st := member_status s r in
    let fy := member_fy s r in
    let s1 := mk_ost (r_or r) (r_calls r) (s_fx s) (s_miu s) st (r_t r) fy in
    match rqb_done st (valid_of (r_or r)) with
    | Some z => IDone s1 z
    | None =>
        let unvetted := negb (is_some (r_assigned r)) in
        if src_c03_rqb_is_descent st then
          (* proximity.update(t, ...); bundle.moveto(y, gy, fy); state.update(y, gy, fy) *)
          INext (mk_ost (serious (r_or r) (fy_value fy)) (r_calls r) (fy_value fy) (prox_of (r_or r) (r_t r) (s_miu s)) st (r_t r) fy) unvetted
        else if src_c03_rqb_is_cutting st then
          INext (mk_ost (serious (r_or r) (fy_value fy)) (r_calls r) (fy_value fy) (s_miu s) st (r_t r) fy) unvetted
        else if src_c03_rqb_is_null st then
          INext (mk_ost (nullstep (r_or r)) (r_calls r) (s_fx s) (s_miu s) st (r_t r) fy) false
        else INext s1 false
    end.

  (* the body of the loop of base_solver_fpba_t::do_minimize: update_if_better(z), the momentum point (one unguarded
     evaluation), update_if_better *)
  Definition fpba_iter (P : cs_params) (max_evals : Z) (s : ost) : iter_out :=
    let r := cs_search P (s_miu s) max_evals (s_calls s) (s_or s) in
    let st := member_status s r in
    let fy := member_fy s r in
    let s1 := mk_ost (r_or r) (r_calls r) (s_fx s) (s_miu s) st (r_t r) fy in
    match fpba_done st (valid_of (r_or r)) with
    | Some z => IDone s1 z
    | None =>
        let unvetted := negb (is_some (r_assigned r)) in
        if src_c03_fpba_is_descent st || src_c03_fpba_is_cutting st then
          let miu' := if src_c03_fpba_is_descent st then prox_of (r_or r) (r_t r) (s_miu s) else s_miu s in
          let best1 := better (s_fx s) fy in
          let om := momentum (r_or r) best1 in
          INext (mk_ost (fst om) (r_calls r + p_cost P)%Z (better best1 (snd om)) miu' st (r_t r) fy) unvetted
        else if src_c03_fpba_is_null st then
          INext (mk_ost (nullstep (r_or r)) (r_calls r) (s_fx s) (s_miu s) st (r_t r) fy) false
        else INext s1 false
    end.

  Section Outer.
    Variable budget : Z -> Z -> Z -> bool.                       (* the guard of the outer loop *)
    Variable iter : cs_params -> Z -> ost -> iter_out.
    Fixpoint outer_loop (fuel : nat) (P : cs_params) (max_evals : Z) (s : ost) (stale : bool) (iters : nat) : ores :=
      if negb (budget (s_calls s) 0%Z max_evals) then mk_ores s EBudget stale iters
      else match fuel with
           | O => mk_ores s EFuel stale iters
           | S k => match iter P max_evals s with
                    | IDone s1 z => mk_ores s1 (EDone z) stale (S iters)
                    | INext s' u => outer_loop k P max_evals s' (stale || u) (S iters)
                    end
           end.
  End Outer.
  Definition rqb_run (P : cs_params) (max_evals : Z) (s : ost) : ores :=
    outer_loop src_c03_rqb_budget rqb_iter (Z.to_nat (max_evals - s_calls s)) P max_evals s false 0.
  Definition fpba_run (P : cs_params) (max_evals : Z) (s : ost) : ores :=
    outer_loop src_c03_fpba_budget fpba_iter (Z.to_nat (max_evals - s_calls s)) P max_evals s false 0.
End Loops.

Arguments r_or {Or}. Arguments r_assigned {Or}. Arguments r_fuel_out {Or}. Arguments r_t {Or}. Arguments r_tL {Or}.
Arguments r_tR {Or}. Arguments r_calls {Or}. Arguments r_last {Or}. Arguments r_passes {Or}.
Arguments s_or {Or}. Arguments s_calls {Or}. Arguments s_fx {Or}. Arguments s_miu {Or}. Arguments s_mstatus {Or}.
Arguments s_mt {Or}. Arguments s_mfy {Or}. Arguments mk_ost {Or}.
Arguments IDone {Or}. Arguments INext {Or}.
Arguments o_final {Or}. Arguments o_exit {Or}. Arguments o_stale {Or}. Arguments o_iters {Or}.

(* ---- the instance that replays a recorded run: the oracle is the list of recorded answers ------------------------- *)
(* (answers still to be read, momentum values still to be read, proximity values still to be read, under-run flag) *)
Record tape := mk_tape { tp_ans : list cs_ans; tp_mom : list (option Q); tp_miu : list Q; tp_short : bool }.
Definition dummy_ans : cs_ans := mk_ans false 0 0 0 0 false false 0 0.
Definition tape_ask (o : tape) (mt : Q) : tape * cs_ans :=
  match tp_ans o with
  | a :: l => (mk_tape l (tp_mom o) (tp_miu o) (tp_short o), a)
  | [] => (mk_tape [] (tp_mom o) (tp_miu o) true, dummy_ans)
  end.
Definition tape_valid (o : tape) : bool := true.
Definition tape_prox (o : tape) (t miu : Q) : Q := match tp_miu o with m :: _ => m | [] => miu end.
Definition tape_pop_miu (o : tape) : tape :=
  mk_tape (tp_ans o) (tp_mom o) (match tp_miu o with _ :: l => l | [] => [] end) (tp_short o).
Definition tape_serious (o : tape) (fy : Q) : tape := tape_pop_miu o.
Definition tape_null (o : tape) : tape := o.
Definition tape_momentum (o : tape) (best : Q) : tape * option Q :=
  match tp_mom o with
  | v :: l => (tape_pop_miu (mk_tape (tp_ans o) l (tp_miu o) (tp_short o)), v)
  | [] => (mk_tape (tp_ans o) [] (tp_miu o) true, None)
  end.
Definition tape_search := cs_search tape tape_ask.
Definition cs_reset : option Z := Some src_c03_cs_st_init.
Definition tape_rqb_iter := rqb_iter tape tape_ask tape_valid tape_prox tape_serious tape_null cs_reset.
Definition tape_fpba_iter := fpba_iter tape tape_ask tape_valid tape_prox tape_null tape_momentum cs_reset.
Definition tape_rqb := rqb_run tape tape_ask tape_valid tape_prox tape_serious tape_null cs_reset.
(* the code before repo 31bf93f (no reset of m_status) *)
Definition tape_rqb_prefix := rqb_run tape tape_ask tape_valid tape_prox tape_serious tape_null None.
Definition tape_fpba := fpba_run tape tape_ask tape_valid tape_prox tape_null tape_momentum cs_reset.

(* ---- proximity_t ----------------------------------------------------------------------------------------------- *)
(* std::clamp(v, lo, hi) *)
Definition qclamp (v lo hi : Q) : Q := if Qltb v lo then lo else if Qltb hi v then hi else v.
(* make_miu0: 5.0 * state.gx().squaredNorm() / (std::abs(state.fx()) + epsilon0), clamped to miu0_range *)
Definition prox_miu0 (eps0 lo hi : Q) (gx : vec) (fx : Q) : Q :=
  qclamp (5 * norm2 gx / (Qabs fx + eps0)) lo hi.
(* make_miu: u = xi + t / miu * nu;  nu.dot(u) > min_dot_nuv ? nu.dot(nu) / nu.dot(u) : (none) *)
Definition make_miu (miu t : Q) (nu xi : vec) (mdn : Q) : option Q :=
  let u := vadd xi (vscale (t / miu) nu) in
  if Qltb mdn (dot nu u) then Some (dot nu nu / dot nu u) else None.
(* update(t, xn, xn1, gn, gn1)  -- FPBA *)
Definition prox_update1 (miu mdn t : Q) (xn xn1 gn gn1 : vec) : Q :=
  match make_miu miu t (vsub gn1 gn) (vsub xn1 xn) mdn with Some m => m | None => miu end.
(* std::min over the candidates, numeric_limits::max() = no candidate *)
Definition omin (a b : option Q) : option Q :=
  match a, b with
  | Some x, Some y => Some (if Qltb y x then y else x)
  | Some x, None => Some x
  | None, b' => b'
  end.
Definition prox_alphas : list Q := [0; 1 # 2; 1].
(* nu = alpha1 * gn1 + (1 - alpha1) * Gn1 - alpha2 * gn - (1 - alpha2) * Gn *)
Definition prox_nu (a1 a2 : Q) (gn gn1 Gn Gn1 : vec) : vec :=
  vsub (vsub (vadd (vscale a1 gn1) (vscale (1 - a1) Gn1)) (vscale a2 gn)) (vscale (1 - a2) Gn).
Definition prox_candidates (miu mdn t : Q) (xn xn1 gn gn1 Gn Gn1 : vec) : list (option Q) :=
  flat_map (fun a1 => map (fun a2 => make_miu miu t (prox_nu a1 a2 gn gn1 Gn Gn1) (vsub xn1 xn) mdn) prox_alphas) prox_alphas.
(* update(t, xn, xn1, gn, gn1, Gn, Gn1)  -- RQB *)
Definition prox_update2 (miu mdn t : Q) (xn xn1 gn gn1 Gn Gn1 : vec) : Q :=
  match fold_left omin (prox_candidates miu mdn t xn xn1 gn gn1 Gn Gn1) None with Some m => m | None => miu end.

(* ---- Nesterov sequences ----------------------------------------------------------------------------------------- *)
(* update(): m_lambda = 0.5 * (1.0 + std::sqrt(1.0 + 4.0 * m_lambda * m_lambda)); r stands for the square root *)
Definition nest_next (r : Q) : Q := (1 # 2) * (1 + r).
(* make_alpha_beta of nesterov_sequence1_t / nesterov_sequence2_t: (curr - 1) / next, 0 or curr / next *)
Definition nest_alpha (curr next : Q) : Q := (curr - 1) / next.
Definition nest_beta (two : bool) (curr next : Q) : Q := if two then curr / next else 0.
Record nest := mk_nest { n_lambda : Q; n_x : vec; n_y : vec }.
(* m_x = z + ak * (z - m_y) + bk * (z - m_x);  m_y = z *)
Definition nest_point (ak bk : Q) (z mx my : vec) : vec :=
  vadd (vadd z (vscale ak (vsub z my))) (vscale bk (vsub z mx)).
Definition nest_update (two : bool) (r : Q) (s : nest) (z : vec) : nest :=
  let next := nest_next r in
  mk_nest next (nest_point (nest_alpha (n_lambda s) next) (nest_beta two (n_lambda s) next) z (n_x s) (n_y s)) z.
Definition nest_reset (s : nest) : nest := mk_nest 1 (n_x s) (n_y s).
(* a history of the sequence object: update with the witness r / reset *)
Inductive nest_ev := NUpdate (r : Q) (z : vec) | NReset.
Definition nest_step (two : bool) (s : nest) (e : nest_ev) : nest :=
  match e with NUpdate r z => nest_update two r s z | NReset => nest_reset s end.
(* the witness is admissible at lambda: what a correctly rounded (or exact) square root of 1 + 4 lambda^2 satisfies *)
Definition nest_witness_ok (lambda r : Q) : Prop := 2 * lambda <= r.
