(* extraction of the executable C20 model; binary64 operations map to OCaml's native floats
   (ExtrOCamlFloats), 63-bit integers to Uint63 (ExtrOCamlInt63); Z/nat/positive stay inductives *)
From Coq Require Import List ZArith QArith Floats Extraction ExtrOcamlBasic ExtrOCamlFloats ExtrOCamlInt63.
From LN Require Import C20_Defs C20_FloatDefs.
Extraction Language OCaml.
Extraction "extracted/c20_model.ml" float_ops Z_ops Q_ops Z2F pct_position pct_lpos pct_rpos sort
  percentile_sorted percentile median median_sorted hist_bins histogram hist_bin
  hist_from_percentiles_f hist_from_ratios fsort
  (* extension: the position stage *)
  pct_lpos_src pct_rpos_src percentile_fn percentile_iota float_dyadic pos_side_ok ref_lpos ref_rpos pos_reference
  fmid fmid_prefix pct_in_range pct_le.
